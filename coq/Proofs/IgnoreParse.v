(* parseIgnoreComment reads back every rendering of a directive: the three comment markers,
   with and without a rule list of any length. *)
From Coq Require Import List Bool Arith Lia.
From Coq Require Import Strings.Byte.
From Falco Require Import Base.Bytes Model.Ignore Model.IgnoreSpec Proofs.IgnoreBasics.
Import ListNotations.

Definition nocomma (w : list byte) : Prop := Forall (fun b => byte_eqb b x2c = false) w.
Definition allspace (w : list byte) : Prop := Forall (fun b => is_space b = true) w.
Definition nospace (w : list byte) : Prop := Forall (fun b => is_space b = false) w.

Lemma split_comma_nocomma w : nocomma w -> split_comma w = [w].
Proof.
  induction 1 as [|b w Hb _ IH]; cbn; auto. rewrite Hb, IH. reflexivity.
Qed.

Lemma split_comma_app w s : nocomma w -> split_comma (w ++ x2c :: s) = w :: split_comma s.
Proof.
  induction 1 as [|b w Hb _ IH]; cbn [app split_comma].
  - replace (byte_eqb x2c x2c) with true by reflexivity. reflexivity.
  - rewrite Hb, IH. reflexivity.
Qed.

Lemma drop_space_allspace pre s : allspace pre -> drop_space (pre ++ s) = drop_space s.
Proof. induction 1 as [|b w Hb _ IH]; cbn; auto. rewrite Hb. exact IH. Qed.

Lemma drop_space_nospace b s : is_space b = false -> drop_space (b :: s) = b :: s.
Proof. intros H. cbn. rewrite H. reflexivity. Qed.

Lemma allspace_rev w : allspace w -> allspace (rev w).
Proof. intros H. apply Forall_rev. exact H. Qed.

Lemma trim_space_pad pre r pad :
  allspace pre -> allspace pad -> r <> [] -> nospace r -> trim_space (pre ++ r ++ pad) = r.
Proof.
  intros Hpre Hpad Hne Hr. unfold trim_space.
  rewrite drop_space_allspace by exact Hpre.
  destruct r as [|b r]; [contradiction|]. inversion Hr as [|? ? Hb Hr']; subst.
  cbn [app]. rewrite drop_space_nospace by exact Hb.
  change (b :: r ++ pad) with ((b :: r) ++ pad). rewrite rev_app_distr.
  rewrite drop_space_allspace by (apply allspace_rev; exact Hpad).
  assert (Hlast : exists c t, rev (b :: r) = c :: t /\ is_space c = false).
  { destruct (rev (b :: r)) as [|c t] eqn:E.
    - apply (f_equal (@length byte)) in E. rewrite rev_length in E. discriminate.
    - exists c, t. split; auto.
      assert (Hin : In c (rev (b :: r))) by (rewrite E; left; reflexivity).
      apply in_rev in Hin. unfold nospace in Hr. rewrite Forall_forall in Hr. apply Hr. exact Hin. }
  destruct Hlast as (c & t & E & Hc). rewrite E, drop_space_nospace by exact Hc. rewrite <- E. apply rev_involutive.
Qed.

Lemma plain_rule_facts r : plain_rule r = true -> r <> [] /\ nospace r /\ nocomma r.
Proof.
  unfold plain_rule. intros H. apply andb_true_iff in H. destruct H as [H1 H2]. split.
  - destruct r; [discriminate | discriminate].
  - rewrite forallb_forall in H2. split; apply Forall_forall; intros b Hb; specialize (H2 b Hb);
      unfold plain_byte in H2; apply andb_true_iff in H2; destruct H2 as [A B].
    + destruct (is_space b); [discriminate | reflexivity].
    + destruct (byte_eqb b x2c); [discriminate | reflexivity].
Qed.

Lemma allspace_nocomma w : allspace w -> nocomma w.
Proof.
  intros H. unfold allspace in H. apply Forall_forall. intros b Hb. rewrite Forall_forall in H. specialize (H b Hb).
  destruct b; try discriminate; reflexivity.
Qed.

Lemma nocomma_app a b : nocomma a -> nocomma b -> nocomma (a ++ b).
Proof. intros. apply Forall_app; auto. Qed.

(* the rule list of a rendering: "r1, r2, ..., rn" possibly preceded / followed by blanks *)
Lemma rules_roundtrip L : L <> [] -> forallb plain_rule L = true ->
  forall pre pad, allspace pre -> allspace pad ->
  filter nonempty (map trim_space (split_comma (pre ++ join_rules L ++ pad))) = L.
Proof.
  induction L as [|r L IH]; [contradiction|]. intros _ HL pre pad Hpre Hpad.
  cbn in HL. apply andb_true_iff in HL. destruct HL as [Hr HL].
  destruct (plain_rule_facts r Hr) as (Rne & Rns & Rnc).
  destruct L as [|r2 L'].
  - cbn [join_rules]. rewrite split_comma_nocomma.
    + cbn [map filter]. rewrite trim_space_pad by auto. destruct r; [contradiction | reflexivity].
    + apply nocomma_app; [apply allspace_nocomma; exact Hpre|]. apply nocomma_app; [exact Rnc | apply allspace_nocomma; exact Hpad].
  - change (join_rules (r :: r2 :: L')) with (r ++ [x2c; x20] ++ join_rules (r2 :: L')).
    replace (pre ++ (r ++ [x2c; x20] ++ join_rules (r2 :: L')) ++ pad)
      with ((pre ++ r) ++ x2c :: ([x20] ++ join_rules (r2 :: L') ++ pad)).
    + rewrite split_comma_app by (apply nocomma_app; [apply allspace_nocomma; exact Hpre | exact Rnc]).
      cbn [map filter].
      replace (pre ++ r) with (pre ++ r ++ []) by (rewrite app_nil_r; reflexivity).
      rewrite trim_space_pad by (auto; constructor).
      replace (nonempty r) with true by (destruct r; [contradiction | reflexivity]).
      f_equal. apply IH; auto; try discriminate. constructor; [reflexivity | constructor].
    + rewrite <- !app_assoc. cbn [app]. reflexivity.
Qed.

Lemma trim_suffix_close_app s : trim_suffix_close (s ++ [x20; x2a; x2f]) = s ++ [x20].
Proof.
  unfold trim_suffix_close. rewrite rev_app_distr. cbn. rewrite rev_involutive. reflexivity.
Qed.

Lemma kind_of_str k : kind_of (kind_str k) = Some k.
Proof. destruct k; reflexivity. Qed.

Lemma cut_space_kind k rest : cut_space (kind_str k ++ x20 :: rest) = (kind_str k, rest).
Proof. destruct k; reflexivity. Qed.

Lemma cut_space_kind_end k : cut_space (kind_str k) = (kind_str k, []).
Proof. destruct k; reflexivity. Qed.

Lemma trim_left_kind k rest : trim_left_cut (kind_str k ++ rest) = kind_str k ++ rest.
Proof. destruct k; reflexivity. Qed.

(* a rendering neither starts nor ends with white space *)
Lemma trim_space_id s b e : is_space b = false -> is_space e = false -> trim_space (b :: s ++ [e]) = b :: s ++ [e].
Proof.
  intros Hb He. unfold trim_space. rewrite drop_space_nospace by exact Hb.
  replace (rev (b :: s ++ [e])) with (e :: rev (b :: s))
    by (change (b :: s ++ [e]) with ((b :: s) ++ [e]); rewrite rev_app_distr; reflexivity).
  rewrite drop_space_nospace by exact He.
  change (rev (e :: rev (b :: s))) with (rev (rev (b :: s)) ++ [e]). rewrite rev_involutive. reflexivity.
Qed.

Lemma last_nospace (w : list byte) : w <> [] -> nospace w -> exists s e, w = s ++ [e] /\ is_space e = false.
Proof.
  intros Hne Hw. destruct (exists_last Hne) as (s & e & ->). exists s, e. split; auto.
  unfold nospace in Hw. rewrite Forall_forall in Hw. apply Hw. apply in_or_app. right. left. reflexivity.
Qed.

Lemma join_rules_last L : L <> [] -> forallb plain_rule L = true ->
  exists s e, join_rules L = s ++ [e] /\ is_space e = false.
Proof.
  induction L as [|r L IH]; [contradiction|]. intros _ HL.
  cbn in HL. apply andb_true_iff in HL. destruct HL as [Hr HL].
  destruct (plain_rule_facts r Hr) as (Rne & Rns & _).
  destruct L as [|r2 L'].
  - cbn [join_rules]. apply last_nospace; auto.
  - destruct (IH ltac:(discriminate) HL) as (s & e & E & He).
    change (join_rules (r :: r2 :: L')) with (r ++ [x2c; x20] ++ join_rules (r2 :: L')).
    rewrite E. exists (r ++ [x2c; x20] ++ s), e. split; auto. rewrite <- !app_assoc. reflexivity.
Qed.

Lemma render_trim mk k L : forallb plain_rule L = true -> trim_space (render mk k L) = render mk k L.
Proof.
  intros HL.
  assert (Hbody : exists s e, kind_str k ++ match L with [] => [] | _ :: _ => x20 :: join_rules L end = s ++ [e] /\ is_space e = false).
  { destruct L as [|r L'].
    - rewrite app_nil_r. destruct k; [exists (removelast s_next_line) | exists (removelast s_this_line) | exists (removelast s_start) | exists (removelast s_end)];
        eexists; (split; [cbv; reflexivity | reflexivity]).
    - destruct (join_rules_last (r :: L') ltac:(discriminate) HL) as (s & e & E & He).
      rewrite E. exists (kind_str k ++ x20 :: s), e. split; auto. rewrite <- app_assoc. reflexivity. }
  destruct Hbody as (s & e & E & He). unfold render. rewrite E.
  destruct mk.
  - change ([x23; x20] ++ s ++ [e]) with (x23 :: (x20 :: s) ++ [e]). apply trim_space_id; auto.
  - change ([x2f; x2f; x20] ++ s ++ [e]) with (x2f :: (x2f :: x20 :: s) ++ [e]). apply trim_space_id; auto.
  - replace ([x2f; x2a; x20] ++ (s ++ [e]) ++ [x20; x2a; x2f]) with (x2f :: (x2a :: x20 :: s ++ [e; x20; x2a]) ++ [x2f]).
    + apply trim_space_id; auto.
    + cbn [app]. rewrite <- !app_assoc. reflexivity.
Qed.

Theorem parse_render mk k L :
  forallb plain_rule L = true -> parse_ignore_comment (render mk k L) = Some (k, L).
Proof.
  intros HL. unfold parse_ignore_comment. rewrite (render_trim mk k L HL). unfold render.
  destruct mk.
  - (* # *)
    cbn [app has_prefix]. replace (byte_eqb x2f x23) with false by reflexivity. cbn [andb].
    change (trim_left_cut (x23 :: x20 :: kind_str k ++ match L with [] => [] | _ :: _ => x20 :: join_rules L end))
      with (trim_left_cut (kind_str k ++ match L with [] => [] | _ :: _ => x20 :: join_rules L end)).
    rewrite trim_left_kind. destruct L as [|r L'].
    + rewrite app_nil_r, cut_space_kind_end, kind_of_str. reflexivity.
    + rewrite cut_space_kind, kind_of_str. f_equal. f_equal.
      pose proof (rules_roundtrip (r :: L') ltac:(discriminate) HL [] [] (Forall_nil _) (Forall_nil _)) as H.
      rewrite app_nil_r in H. exact H.
  - (* // *)
    cbn [app has_prefix]. replace (byte_eqb x2f x2f) with true by reflexivity.
    replace (byte_eqb x2a x2f) with false by reflexivity. cbn [andb].
    change (trim_left_cut (x2f :: x2f :: x20 :: kind_str k ++ match L with [] => [] | _ :: _ => x20 :: join_rules L end))
      with (trim_left_cut (kind_str k ++ match L with [] => [] | _ :: _ => x20 :: join_rules L end)).
    rewrite trim_left_kind. destruct L as [|r L'].
    + rewrite app_nil_r, cut_space_kind_end, kind_of_str. reflexivity.
    + rewrite cut_space_kind, kind_of_str. f_equal. f_equal.
      pose proof (rules_roundtrip (r :: L') ltac:(discriminate) HL [] [] (Forall_nil _) (Forall_nil _)) as H.
      rewrite app_nil_r in H. exact H.
  - (* /* ... */ *)
    cbn [app has_prefix]. replace (byte_eqb x2f x2f) with true by reflexivity.
    replace (byte_eqb x2a x2a) with true by reflexivity. cbn [andb].
    change (trim_left_cut (x2f :: x2a :: x20 :: (kind_str k ++ match L with [] => [] | _ :: _ => x20 :: join_rules L end) ++ [x20; x2a; x2f]))
      with (trim_left_cut ((kind_str k ++ match L with [] => [] | _ :: _ => x20 :: join_rules L end) ++ [x20; x2a; x2f])).
    rewrite <- app_assoc, trim_left_kind, app_assoc, trim_suffix_close_app, <- app_assoc.
    destruct L as [|r L'].
    + cbn [app]. rewrite cut_space_kind, kind_of_str. reflexivity.
    + cbn [app]. rewrite cut_space_kind, kind_of_str. f_equal. f_equal.
      pose proof (rules_roundtrip (r :: L') ltac:(discriminate) HL [] [x20] (Forall_nil _)) as H.
      cbn [app] in H. apply H. constructor; [reflexivity | constructor].
Qed.

(* rule lists made of declared rule names *)
Lemma forallb_incl {A} (f : A -> bool) l l' : incl l l' -> forallb f l' = true -> forallb f l = true.
Proof.
  intros Hi H. apply forallb_forall. intros x Hx. rewrite forallb_forall in H. apply H. apply Hi. exact Hx.
Qed.
