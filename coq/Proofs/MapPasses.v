(* C11 - the pointwise initialisation passes of inferSubroutineScopes are order free. *)
From Coq Require Import List Arith Bool NArith Permutation.
From Falco Require Import Model.ScopeInfer Model.LintMapRanges Proofs.DetectOrder Proofs.ScopeInferLfp.
Import ListNotations.

Lemma pointwise_spec g : forall order s n, NoDup order ->
  pointwise_pass g order s n = if mname n order then g n (s n) else s n.
Proof.
  unfold pointwise_pass. induction order as [|k r IH]; intros s n ND; [reflexivity|].
  inversion ND as [|? ? Hk ND']; subst. cbn [fold_left]. rewrite IH by assumption.
  unfold mname. cbn [existsb]. fold (mname n r).
  destruct (Nat.eqb_spec n k) as [->|Hne].
  - cbn [orb]. assert (mname k r = false) by (apply mname_false; exact Hk). rewrite H.
    rewrite upd_same. reflexivity.
  - cbn [orb]. rewrite !upd_other by assumption. reflexivity.
Qed.

(* the keys of a Go map are distinct: any two enumeration orders are NoDup permutations of each other *)
Theorem pointwise_order_free g order order' s :
  NoDup order -> Permutation order order' ->
  forall n, pointwise_pass g order s n = pointwise_pass g order' s n.
Proof.
  intros ND HP n.
  assert (ND' : NoDup order') by (eapply Permutation_NoDup; eauto).
  rewrite !pointwise_spec by assumption.
  assert (E : mname n order = mname n order').
  { destruct (mname n order) eqn:A; symmetry.
    - apply mname_In. apply mname_In in A. eapply Permutation_in; eauto.
    - apply mname_false. apply mname_false in A. intro H. apply A.
      eapply Permutation_in; [apply Permutation_sym; exact HP | exact H]. }
  rewrite E. reflexivity.
Qed.

(* witness: the second initialisation loop (set the scope from the name suffix / annotation when none yet) *)
Example pointwise_example :
  let g := fun (k : name) (v : N) => if N.eqb v 0 then N.of_nat (k * 16) else v in
  let s := fun k : name => if Nat.eqb k 2 then 7%N else 0%N in
  map (pointwise_pass g [1; 2; 3] s) [1; 2; 3; 4] = [16; 7; 48; 0]%N /\
  map (pointwise_pass g [3; 1; 2] s) [1; 2; 3; 4] = [16; 7; 48; 0]%N.
Proof. split; reflexivity. Qed.
