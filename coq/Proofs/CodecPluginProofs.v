(* The plugin path: Encoder.Encode is Encodes of a singleton; ReadLinterRequest[T] returns the
   statement that was sent for the matching T, a typed error for every other T, and never
   crashes or hangs on any byte string.  Kind tables regenerated from the sources. *)
From Coq Require Import List NArith ZArith Lia Bool String.
From Falco Require Import Base.Res Base.Bytes Base.Utf8 Gen.CodecFrames Gen.CodecPlugin
  Model.CodecAst Model.Codec Model.CodecPlugin
  Proofs.CodecTotal Proofs.CodecRT1 Proofs.CodecRoundtrip Proofs.CodecSize Proofs.CodecEncTotal.
Import ListNotations.

Lemma encode1_encodes s : encode1 s = encode [s].
Proof. unfold encode1, encode. rewrite enc_top_unf. destruct (enc_stmt s); reflexivity. Qed.

Lemma kind_eqb_eq a b : kind_eqb a b = true <-> a = b.
Proof.
  split; [|intros ->; unfold kind_eqb; apply String.eqb_refl].
  destruct a, b; intros H; try reflexivity; vm_compute in H; discriminate H.
Qed.

Lemma kind_eqb_neq a b : a <> b -> kind_eqb a b = false.
Proof. intros H. destruct (kind_eqb a b) eqn:E; [apply kind_eqb_eq in E; contradiction|reflexivity]. Qed.

Lemma wf_single s : wf_stmt s -> wf_block [s].
Proof. intros H. cbn. tauto. Qed.

Theorem plugin_roundtrip s : wf_stmt s ->
  exists bs, encode1 s = OK bs
    /\ read_request (kind_of s) bs = ROk s
    /\ forall t, t <> kind_of s -> read_request t bs = RType (kind_of s).
Proof.
  intros Hw. destruct (encode_total [s] (wf_single s Hw)) as [bs E].
  exists bs. rewrite encode1_encodes. split; [exact E|].
  pose proof (decode_encode [s] bs (wf_single s Hw) E) as D.
  unfold read_request, classify. rewrite D. split.
  - replace (kind_eqb (kind_of s) (kind_of s)) with true by (symmetry; apply kind_eqb_eq; reflexivity).
    reflexivity.
  - intros t Ht. rewrite kind_eqb_neq by congruence. reflexivity.
Qed.

Theorem plugin_total t bs : read_request t bs <> RCrash /\ read_request t bs <> RHang.
Proof.
  pose proof (decode_total_no_crash bs) as [Hf Hc]. unfold read_request, classify.
  destruct (decode bs) as [[|s r]| | |]; try contradiction; [| destruct (kind_eqb (kind_of s) t) | ];
    split; discriminate.
Qed.

Theorem plugin_typed t bs s : read_request t bs = ROk s ->
  kind_of s = t /\ exists more, decode bs = OK (s :: more).
Proof.
  unfold read_request, classify. destruct (decode bs) as [[|s0 r]| | |]; try discriminate.
  destruct (kind_eqb (kind_of s0) t) eqn:E; [|discriminate].
  intros H; inversion H; subst. split; [apply kind_eqb_eq; exact E | eexists; reflexivity].
Qed.

(* ---------- the regenerated kind tables ---------- *)
Lemma mem_In n l : mem n l = true <-> In n l.
Proof.
  unfold mem. rewrite existsb_exists. split.
  - intros (x & Hin & E). apply String.eqb_eq in E. subst; exact Hin.
  - intros H. exists n. split; [exact H|apply String.eqb_refl].
Qed.

Fixpoint nodupb (l : list string) : bool :=
  match l with [] => true | x :: xs => negb (mem x xs) && nodupb xs end.
Lemma nodupb_NoDup l : nodupb l = true -> NoDup l.
Proof.
  induction l as [|x xs IH]; intros H; [constructor|].
  cbn [nodupb] in H. apply andb_prop in H as [H1 H2]. constructor; [|apply IH; exact H2].
  intros Hin. apply mem_In in Hin. rewrite Hin in H1. discriminate.
Qed.

Definition not_lintable_kinds : list kind := [KBreak; KFallthrough; KCase].

Theorem plugin_kinds :
  (* every statement type the linter dispatches on (and so hands to customLint) is a request type *)
  (forall n, In n lint_switch_types -> In n ast_statement_types -> In n lint_statement_types)
  (* every request type T is encodable and is a kind of the model *)
  /\ (forall n, In n lint_statement_types ->
        In n encoder_switch_types /\ exists k, In k all_kinds /\ kind_name k = n /\ lintable k = true)
  (* the model's kinds are exactly the encoder's; their names are distinct *)
  /\ (forall k, In k all_kinds -> In (kind_name k) encoder_switch_types)
  /\ (forall n, In n encoder_switch_types -> exists k, In k all_kinds /\ kind_name k = n)
  /\ NoDup (map kind_name all_kinds)
  (* the encodable kinds no plugin can ask for *)
  /\ (forall k, In k all_kinds -> lintable k = false -> In k not_lintable_kinds).
Proof.
  split; [|split; [|split; [|split; [|split]]]].
  - assert (H : forallb (fun n => implb (mem n ast_statement_types) (mem n lint_statement_types))
                  lint_switch_types = true) by (vm_compute; reflexivity).
    rewrite forallb_forall in H. intros n H1 H2. specialize (H n H1).
    apply mem_In in H2. rewrite H2 in H. apply mem_In. exact H.
  - intros n Hn. split.
    + assert (H : forallb (fun n => mem n encoder_switch_types) lint_statement_types = true)
        by (vm_compute; reflexivity).
      rewrite forallb_forall in H. apply mem_In, H, Hn.
    + assert (H : forallb (fun n => existsb (fun k => String.eqb (kind_name k) n && lintable k) all_kinds)
                    lint_statement_types = true) by (vm_compute; reflexivity).
      rewrite forallb_forall in H. specialize (H n Hn). apply existsb_exists in H as (k & Hk & E).
      apply andb_prop in E as [E1 E2]. apply String.eqb_eq in E1. exists k. auto.
  - assert (H : forallb (fun k => mem (kind_name k) encoder_switch_types) all_kinds = true)
      by (vm_compute; reflexivity).
    rewrite forallb_forall in H. intros k Hk. apply mem_In, H, Hk.
  - assert (H : forallb (fun n => existsb (fun k => String.eqb (kind_name k) n) all_kinds)
                  encoder_switch_types = true) by (vm_compute; reflexivity).
    rewrite forallb_forall in H. intros n Hn. specialize (H n Hn).
    apply existsb_exists in H as (k & Hk & E). apply String.eqb_eq in E. exists k. auto.
  - apply nodupb_NoDup. vm_compute. reflexivity.
  - intros k Hk Hl. unfold not_lintable_kinds.
    cbn [all_kinds In] in Hk.
    repeat (destruct Hk as [<-|Hk]; [first [vm_compute in Hl; discriminate Hl | cbn; tauto]|]).
    contradiction.
Qed.

(* injectivity of the encoder on well-formed lists *)
Theorem encode_injective a b : wf_block a -> wf_block b -> encode a = encode b -> a = b.
Proof.
  intros Ha Hb E. destruct (encode_total a Ha) as [bs Ea].
  pose proof (decode_encode a bs Ha Ea) as Da.
  rewrite E in Ea. pose proof (decode_encode b bs Hb Ea) as Db. congruence.
Qed.

(* ---------- non-vacuity witnesses ---------- *)
From Falco Require Import Model.CodecWf Proofs.CodecWfb.
Local Open Scope N_scope.
Definition ex_stmt : stmt :=
  SIf (IfS [105;102] (EInfix (Some (EIdent [97])) [61;61] (EString [])) [SError None None; SCall [102] [EInt 1%Z [49]]]
           [IfS [101;108;115;101;32;105;102] (EPrefix [33] (EIdent [98])) [SRestart] [] None]
           (Some [SSwitch (EIdent [120]) [Cas (Some (None, [126], EString [97])) [SBreak] false; Cas None [SFallthrough] true] 1%Z])).
Example wfb_example : wfb_block [ex_stmt; DSub [102] [([83], [97])] (Some [83]) [SReturn false (Some (EIdent [97]))]] = true.
Proof. vm_compute. reflexivity. Qed.
Example wfb_rejects : wfb_block [SError None (Some (EString [120]))] = false /\ wfb_block [SLog EUnknown] = false
  /\ wfb_block [SLog (EString [55296])] = false /\ wfb_block [SLog (EInt (-1)%Z [])] = false.
Proof. vm_compute. repeat split. Qed.
Example plugin_example :
  exists bs, encode1 ex_stmt = OK bs /\ read_request KIf bs = ROk ex_stmt /\ read_request KSet bs = RType KIf.
Proof.
  assert (Hw : wf_stmt ex_stmt) by (apply wfb_stmt_iff; vm_compute; reflexivity).
  destruct (plugin_roundtrip ex_stmt Hw) as (bs & E & Hm & Ho). exists bs. split; [exact E|]. split; [exact Hm|].
  apply (Ho KSet). discriminate.
Qed.
