(* C08 - the call-tree pre-pass ends for every call graph. *)
From Coq Require Import List Arith ZArith Bool Lia.
From Falco Require Import Base.Res Model.Val Model.CallTree.
Import ListNotations.

Lemma nmem_In n l : nmem n l = true <-> In n l.
Proof.
  induction l as [|x t IH]; cbn; [split; [discriminate|tauto]|].
  rewrite orb_true_iff, Nat.eqb_eq, IH. tauto.
Qed.

Lemma nodup_bounded (l : list nat) n : NoDup l -> (forall x, In x l -> x < n) -> length l <= n.
Proof.
  intros Hnd Hb. rewrite <- (seq_length n 0). apply NoDup_incl_length; [assumption|].
  intros x Hx. apply in_seq. specialize (Hb x Hx). lia.
Qed.

Definition fine {A} (r : res A) : Prop := r <> OutOfFuel /\ r <> Crash /\ r <> Err.

(* the loop over the call statements of one subroutine, named *)
Definition go (k : nat) (subs : list (list nat)) (visiting : list nat) :=
  fix go (cs : list nat) (total : Z) (m : memo) : res (Z * memo) :=
    match cs with
    | [] => OK (total, m)
    | c :: rest =>
        match cost k subs visiting m c with
        | OK (v, m') => go rest (wrap64 (total + 1 + v)) m'
        | Err => Err | Crash => Crash | OutOfFuel => OutOfFuel
        end
    end.

Lemma cost_S k subs visiting m name :
  cost (S k) subs visiting m name =
  match mlookup name m with
  | Some c => OK (c, m)
  | None =>
      match nth_error subs name with
      | None => OK (0%Z, m)
      | Some calls =>
          if nmem name visiting then OK (0%Z, m)
          else match go k subs (name :: visiting) calls 0%Z m with
               | OK (total, m') => OK (total, (name, total) :: m')
               | e => e
               end
      end
  end.
Proof. reflexivity. Qed.

Lemma cost_fine : forall fuel subs visiting m name,
  NoDup visiting -> (forall x, In x visiting -> x < length subs) ->
  length subs < fuel + length visiting ->
  fine (cost fuel subs visiting m name).
Proof.
  induction fuel as [|k IH]; intros subs visiting m name Hnd Hb Hlen.
  - pose proof (nodup_bounded visiting (length subs) Hnd Hb). lia.
  - rewrite cost_S. destruct (mlookup name m); [repeat split; discriminate|].
    destruct (nth_error subs name) as [calls|] eqn:Hn; [|repeat split; discriminate].
    destruct (nmem name visiting) eqn:Hm; [repeat split; discriminate|].
    assert (Hgo : forall cs total m0, fine (go k subs (name :: visiting) cs total m0)).
    { induction cs as [|c cs IHcs]; intros total m0; cbn; [repeat split; discriminate|].
      assert (Hc : fine (cost k subs (name :: visiting) m0 c)).
      { apply IH.
        - constructor; [|assumption]. intros Hin. apply nmem_In in Hin. congruence.
        - intros x [<-|Hx]; [apply nth_error_Some; congruence|now apply Hb].
        - cbn. lia. }
      destruct Hc as (H1 & H2 & H3).
      destruct (cost k subs (name :: visiting) m0 c) as [[v m']| | |]; try congruence. apply IHcs. }
    destruct (Hgo calls 0%Z m) as (H1 & H2 & H3).
    destruct (go k subs (name :: visiting) calls 0%Z m) as [[t m']| | |]; try congruence.
    repeat split; discriminate.
Qed.

(* fuel = number of subroutines + 1 is enough for every call graph: cyclic, deep, wide *)
Theorem calltree_total : forall limit subs,
  check_call_tree limit subs <> OutOfFuel /\ check_call_tree limit subs <> Crash /\ check_call_tree limit subs <> Err.
Proof.
  intros limit subs. unfold check_call_tree. generalize (seq 0 (length subs)). generalize (@nil (nat * Z)).
  intros m names. revert m. induction names as [|n names IH]; intros m; cbn [check_from]; [repeat split; discriminate|].
  assert (H : fine (cost (S (length subs)) subs [] m n)) by (apply cost_fine; [constructor|intros x []|cbn; lia]).
  destruct H as (H1 & H2 & H3).
  destruct (cost (S (length subs)) subs [] m n) as [[c m']| | |]; try congruence.
  destruct (limit <? c)%Z; [repeat split; discriminate|apply IH].
Qed.

(* witnesses *)
Example ct_ladder_rejected : check_call_tree 25000 (map (fun i => [S i; S i]) (seq 0 20) ++ [[]]) = OK false.
Proof. vm_compute. reflexivity. Qed.                      (* 2^20 - ... calls below the first link *)
Example ct_cycle_accepted : check_call_tree 25000 [[1; 1]; [2; 2]; [0; 0]] = OK true.
Proof. vm_compute. reflexivity. Qed.                      (* recursive: cut by the visiting guard, small *)
Example ct_self : check_call_tree 25000 [[0]] = OK true.
Proof. vm_compute. reflexivity. Qed.
