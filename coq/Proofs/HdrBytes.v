(* C17 - byte-level and list-level facts used by the header-store proofs. *)
From Coq Require Import List NArith Bool Lia.
From Coq Require Import Strings.Byte.
From Falco Require Import Base.Bytes Model.HdrField.
Import ListNotations.

Lemma byte_eqb_refl c : byte_eqb c c = true.
Proof. apply byte_eqb_eq; reflexivity. Qed.

Lemma byte_eqb_neq a b : byte_eqb a b = false <-> a <> b.
Proof.
  split; intros H.
  - intros E. apply byte_eqb_eq in E. congruence.
  - destruct (byte_eqb a b) eqn:E; [apply byte_eqb_eq in E; contradiction | reflexivity].
Qed.

Lemma byte_eqb_sym a b : byte_eqb a b = byte_eqb b a.
Proof.
  destruct (byte_eqb a b) eqn:E.
  - apply byte_eqb_eq in E. subst. symmetry. apply byte_eqb_refl.
  - symmetry. apply byte_eqb_neq. apply byte_eqb_neq in E. congruence.
Qed.

Lemma beq_eq a : forall b, beq a b = true <-> a = b.
Proof.
  induction a as [|x a IH]; destruct b as [|y b]; simpl; split; intros H; try reflexivity; try discriminate.
  - apply andb_true_iff in H. destruct H as [H1 H2]. apply byte_eqb_eq in H1. apply IH in H2. congruence.
  - inversion H; subst. rewrite byte_eqb_refl. simpl. apply IH. reflexivity.
Qed.

Lemma beq_refl a : beq a a = true.
Proof. apply beq_eq; reflexivity. Qed.

Lemma beq_neq a b : beq a b = false <-> a <> b.
Proof.
  split; intros H.
  - intros E. apply beq_eq in E. congruence.
  - destruct (beq a b) eqn:E; [apply beq_eq in E; contradiction | reflexivity].
Qed.

Lemma beq_sym a b : beq a b = beq b a.
Proof.
  destruct (beq a b) eqn:E.
  - apply beq_eq in E. subst. symmetry. apply beq_refl.
  - symmetry. apply beq_neq. apply beq_neq in E. congruence.
Qed.

(* ---- character facts (256-case computations, kept in small lemmas) ---- *)
Lemma lower_idem c : lower (lower c) = lower c.
Proof. destruct c; reflexivity. Qed.

Lemma is_ws_lower c : is_ws (lower c) = is_ws c.
Proof. destruct c; reflexivity. Qed.

Lemma lower_eq_comma c : lower c = c_comma -> c = c_comma.
Proof. destruct c; cbv; intros H; try discriminate H; reflexivity. Qed.
Lemma lower_eq_eq c : lower c = c_eq -> c = c_eq.
Proof. destruct c; cbv; intros H; try discriminate H; reflexivity. Qed.
Lemma lower_eq_dq c : lower c = c_dq -> c = c_dq.
Proof. destruct c; cbv; intros H; try discriminate H; reflexivity. Qed.

Lemma lower_comma : lower c_comma = c_comma. Proof. reflexivity. Qed.
Lemma lower_eqc : lower c_eq = c_eq. Proof. reflexivity. Qed.
Lemma lower_dq : lower c_dq = c_dq. Proof. reflexivity. Qed.

(* ---- span ---- *)
Lemma span_app p a : forall b, forallb p a = true ->
  (match b with [] => True | c :: _ => p c = false end) ->
  span p (a ++ b) = (a, b).
Proof.
  induction a as [|x a IH]; simpl; intros b Ha Hb.
  - destruct b as [|c b]; [reflexivity|]. simpl. rewrite Hb. reflexivity.
  - apply andb_true_iff in Ha. destruct Ha as [Hx Ha]. rewrite Hx. rewrite (IH b Ha Hb). reflexivity.
Qed.

Lemma span_nil_hd p c s : p c = false -> span p (c :: s) = ([], c :: s).
Proof. intros H. simpl. rewrite H. reflexivity. Qed.

Lemma span_spec p s : forall a b, span p s = (a, b) -> s = a ++ b /\ forallb p a = true.
Proof.
  induction s as [|c s IH]; simpl; intros a b H.
  - inversion H; subst. split; reflexivity.
  - destruct (p c) eqn:E.
    + destruct (span p s) as [a' b'] eqn:E2. inversion H; subst.
      destruct (IH a' b eq_refl) as [H1 H2]. split; [simpl; congruence | simpl; rewrite E; exact H2].
    + inversion H; subst. split; reflexivity.
Qed.

Lemma span_rest_hd p s : match snd (span p s) with [] => True | c :: _ => p c = false end.
Proof.
  induction s as [|c s IH]; simpl; [exact I|].
  destruct (p c) eqn:E.
  - destruct (span p s) as [a b]. simpl in *. exact IH.
  - simpl. exact E.
Qed.
