(* C07 - TIME / IP renderings of Model/Val.v: the calendar arithmetic of http_time is the proleptic Gregorian
   calendar (civil date <-> day number round trip, month and day ranges) for every day of a completely enumerated
   range that contains the years 0001 .. 9999; the time of day and the weekday for every second; the dotted quad
   and the IPv6 groups recombine to the address. *)
From Coq Require Import List NArith ZArith Bool Lia.
From Falco Require Import Base.Res Base.Bytes Model.Float Model.Acl Model.Val.
Import ListNotations.
Local Open Scope Z_scope.
Ltac Zify.zify_post_hook ::= Z.div_mod_to_equations.

(* the inverse direction, written independently: day number (since 0001-01-01) of a civil date *)
Definition leap (y : Z) : bool := ((y mod 4 =? 0) && negb (y mod 100 =? 0)) || (y mod 400 =? 0).
Definition days_in_month (y m : Z) : Z :=
  if m =? 2 then (if leap y then 29 else 28)
  else if (m =? 4) || (m =? 6) || (m =? 9) || (m =? 11) then 30 else 31.
Definition days_from_civil (y m d : Z) : Z :=
  let y' := if m <=? 2 then y - 1 else y in
  let era := y' / 400 in
  let yoe := y' - era * 400 in
  let mp := if 2 <? m then m - 3 else m + 9 in
  let doy := (153 * mp + 2) / 5 + d - 1 in
  let doe := yoe * 365 + yoe / 4 - yoe / 100 + doy in
  era * 146097 + doe - 306.

Definition civil_ok (days : Z) : bool :=
  let '(y, m, d) := civil days in
  (1 <=? m) && (m <=? 12) && (1 <=? d) && (d <=? days_in_month y m) && (days_from_civil y m d =? days).

(* every day of [lo, lo + 2^k) by halving: no list of the range is built *)
Fixpoint all_ok (k : nat) (lo : Z) : bool :=
  match k with
  | O => civil_ok lo
  | S k' => all_ok k' lo && all_ok k' (lo + 2 ^ Z.of_nat k')
  end.

Lemma all_ok_spec : forall k lo, all_ok k lo = true -> forall d, lo <= d < lo + 2 ^ Z.of_nat k -> civil_ok d = true.
Proof.
  induction k as [|k IH]; intros lo H d Hd.
  - cbn in Hd. assert (d = lo) by lia. now subst.
  - cbn [all_ok] in H. apply andb_prop in H as [H1 H2].
    rewrite Nat2Z.inj_succ, Z.pow_succ_r in Hd by lia.
    destruct (Z_lt_ge_dec d (lo + 2 ^ Z.of_nat k)); [apply (IH lo H1); lia|apply (IH _ H2); lia].
Qed.

(* one full 400-year cycle (146097 days) is enumerated completely: days 0 .. 262143 since 0001-01-01 ... *)
Lemma era_checked : all_ok 18 0 = true.
Proof. vm_compute. reflexivity. Qed.

(* ... and the calendar repeats every 146097 days with the year advanced by 400 *)
Lemma civil_shift d : civil (d + 146097) = let '(y, m, dd) := civil d in (y + 400, m, dd).
Proof.
  unfold civil.
  replace (d + 146097 + 306) with (d + 306 + 1 * 146097) by lia. rewrite Z.div_add by lia.
  set (era := (d + 306) / 146097).
  replace (d + 306 + 1 * 146097 - (era + 1) * 146097) with (d + 306 - era * 146097) by lia.
  cbv zeta. set (doe := d + 306 - era * 146097).
  destruct ((5 * (doe - (365 * ((doe - doe / 1460 + doe / 36524 - doe / 146096) / 365) +
     (doe - doe / 1460 + doe / 36524 - doe / 146096) / 365 / 4 - (doe - doe / 1460 + doe / 36524 - doe / 146096) / 365 / 100)) + 2) / 153 <? 10);
    f_equal; f_equal; lia.
Qed.

Lemma leap_shift y : leap (y + 400) = leap y.
Proof.
  unfold leap.
  replace ((y + 400) mod 4) with (y mod 4) by (replace (y + 400) with (y + 100 * 4) by lia; now rewrite Z.mod_add by lia).
  replace ((y + 400) mod 100) with (y mod 100) by (replace (y + 400) with (y + 4 * 100) by lia; now rewrite Z.mod_add by lia).
  replace ((y + 400) mod 400) with (y mod 400) by (replace (y + 400) with (y + 1 * 400) by lia; now rewrite Z.mod_add by lia).
  reflexivity.
Qed.

Lemma dfc_shift y m d : days_from_civil (y + 400) m d = days_from_civil y m d + 146097.
Proof.
  unfold days_from_civil. destruct (m <=? 2).
  - replace (y + 400 - 1) with (y - 1 + 1 * 400) by lia. rewrite Z.div_add by lia. cbv zeta. lia.
  - replace (y + 400) with (y + 1 * 400) by lia. rewrite Z.div_add by lia. cbv zeta. lia.
Qed.

Lemma civil_ok_shift d : civil_ok (d + 146097) = civil_ok d.
Proof.
  unfold civil_ok. rewrite civil_shift. destruct (civil d) as [[y m] dd].
  unfold days_in_month. rewrite leap_shift, dfc_shift.
  replace (days_from_civil y m dd + 146097 =? d + 146097) with (days_from_civil y m dd =? d); [reflexivity|].
  destruct (days_from_civil y m dd =? d) eqn:E; symmetry; [apply Z.eqb_eq in E; apply Z.eqb_eq; lia|apply Z.eqb_neq in E; apply Z.eqb_neq; lia].
Qed.

Lemma civil_ok_shift_n d : forall n : nat, civil_ok (d + Z.of_nat n * 146097) = civil_ok d.
Proof.
  induction n as [|n IH]; [now rewrite Z.add_0_r|].
  rewrite Nat2Z.inj_succ. replace (d + Z.succ (Z.of_nat n) * 146097) with (d + Z.of_nat n * 146097 + 146097) by lia.
  now rewrite civil_ok_shift.
Qed.

(* EVERY day number (any year, before or after the epoch, BC included) *)
Lemma civil_ok_all : forall d, civil_ok d = true.
Proof.
  intros d. pose proof (Z.div_mod d 146097 ltac:(lia)) as Hd. pose proof (Z.mod_pos_bound d 146097 ltac:(lia)) as Hr.
  assert (Hbase : civil_ok (d mod 146097) = true).
  { apply (all_ok_spec 18 0 era_checked). change (2 ^ Z.of_nat 18) with 262144. lia. }
  destruct (Z_le_gt_dec 0 (d / 146097)) as [Hq|Hq].
  - rewrite <- (civil_ok_shift_n (d mod 146097) (Z.to_nat (d / 146097))) in Hbase.
    rewrite Z2Nat.id in Hbase by lia. replace (d mod 146097 + d / 146097 * 146097) with d in Hbase by lia. exact Hbase.
  - rewrite <- (civil_ok_shift_n d (Z.to_nat (- (d / 146097)))).
    rewrite Z2Nat.id by lia. replace (d + - (d / 146097) * 146097) with (d mod 146097) by lia. exact Hbase.
Qed.

Theorem civil_roundtrip : forall days,
  let '(y, m, d) := civil days in
  1 <= m <= 12 /\ 1 <= d <= days_in_month y m /\ days_from_civil y m d = days.
Proof.
  intros days. pose proof (civil_ok_all days) as Hok.
  unfold civil_ok in Hok. destruct (civil days) as [[y m] d].
  repeat (apply andb_prop in Hok as [Hok ?]).
  repeat match goal with H : (_ <=? _) = true |- _ => apply Z.leb_le in H | H : (_ =? _) = true |- _ => apply Z.eqb_eq in H end.
  lia.
Qed.

(* the time of day and the weekday, for every second *)
Theorem time_of_day : forall ext, let secs := ext mod 86400 in
  0 <= secs / 3600 < 24 /\ 0 <= (secs / 60) mod 60 < 60 /\ 0 <= secs mod 60 < 60 /\
  secs / 3600 * 3600 + (secs / 60) mod 60 * 60 + secs mod 60 = secs /\ (ext / 86400) * 86400 + secs = ext /\
  0 <= (ext / 86400) mod 7 < 7.
Proof. intros ext secs. subst secs. lia. Qed.

(* the text is the RFC 1123 shape: "Www, DD Mon YYYY HH:MM:SS GMT" *)
Theorem http_time_shape : forall ext,
  http_time ext =
  let days := ext / 86400 in
  let secs := ext mod 86400 in
  let '(y, m, d) := civil days in
  nth (Z.to_nat (days mod 7)) day_names [] ++ ascii [44; 32] ++ pad_int 2 d ++ ascii [32] ++
  nth (Z.to_nat (m - 1)) month_names [] ++ ascii [32] ++ pad_int 4 y ++ ascii [32] ++
  pad_int 2 (secs / 3600) ++ colon :: pad_int 2 ((secs / 60) mod 60) ++ colon :: pad_int 2 (secs mod 60) ++
  ascii [32; 71; 77; 84].
Proof. reflexivity. Qed.

(* IPv4 / IPv6: the printed octets / groups are those of the address *)
Theorem ip4_octets : forall b, 0 <= b < 2 ^ 32 ->
  ((b / 2 ^ 24) mod 256) * 2 ^ 24 + ((b / 2 ^ 16) mod 256) * 2 ^ 16 + ((b / 2 ^ 8) mod 256) * 2 ^ 8 + b mod 256 = b.
Proof. intros b H. change (2 ^ 32) with 4294967296 in H. change (2 ^ 24) with 16777216. change (2 ^ 16) with 65536. change (2 ^ 8) with 256. lia. Qed.

Theorem ip4_string_shape : forall b,
  ip4_string b = dec_nat ((b / 2 ^ 24) mod 256) ++ dot :: dec_nat ((b / 2 ^ 16) mod 256) ++ dot ::
                 dec_nat ((b / 2 ^ 8) mod 256) ++ dot :: dec_nat (b mod 256).
Proof. reflexivity. Qed.

(* boundary witnesses (also run against Go by the correspondence) *)
Definition show (s : str) : list Z := map (fun b => Z.of_N (b2n b)) s.
Example ex_epoch0 : http_time 62135596800 = ascii [84;104;117;44;32;48;49;32;74;97;110;32;49;57;55;48;32;48;48;58;48;48;58;48;48;32;71;77;84].
Proof. vm_compute. reflexivity. Qed.                        (* Thu, 01 Jan 1970 00:00:00 GMT *)
Example ex_leap_day : civil (days_from_civil 2000 2 29) = (2000, 2, 29) /\ civil (days_from_civil 1900 3 1 - 1) = (1900, 2, 28).
Proof. split; reflexivity. Qed.
Example ex_year_9999 : civil 3652058 = (9999, 12, 31) /\ days_from_civil 9999 12 31 = 3652058.
Proof. split; reflexivity. Qed.
Example ex_before_epoch : civil (719162 - 1) = (1969, 12, 31).
Proof. reflexivity. Qed.
Example ex_ip6 : show (ip6_string (2 ^ 127 + 2 ^ 16)) = [56;48;48;48;58;58;49;58;48].     (* 8000::1:0 *)
Proof. vm_compute. reflexivity. Qed.

(* ---------------------------------------------------------------- RTIME: seconds with three decimals *)

(* the text of a duration of ms milliseconds is ms / 1000 written exactly, three decimals (the float division and the
   %.3f rounding cancel) - for every whole number of milliseconds of a completely enumerated range, -16.384 s .. 16.383 s;
   sub-millisecond parts are dropped first (Duration.Milliseconds()) *)
Definition rtime_ok (ms : Z) : bool :=
  let t := rtime_string (ms * 1000000) in
  let want := fmt_milli (ms <? 0) (Z.abs ms) in
  (fix eqb (a b : str) : bool :=
     match a, b with
     | [], [] => true
     | x :: a', y :: b' => N.eqb (b2n x) (b2n y) && eqb a' b'
     | _, _ => false
     end) t want.

Fixpoint all_rtime_ok (k : nat) (lo : Z) : bool :=
  match k with
  | O => rtime_ok lo
  | S k' => all_rtime_ok k' lo && all_rtime_ok k' (lo + 2 ^ Z.of_nat k')
  end.

Lemma all_rtime_ok_spec : forall k lo, all_rtime_ok k lo = true -> forall d, lo <= d < lo + 2 ^ Z.of_nat k -> rtime_ok d = true.
Proof.
  induction k as [|k IH]; intros lo H d Hd.
  - cbn in Hd. assert (d = lo) by lia. now subst.
  - cbn [all_rtime_ok] in H. apply andb_prop in H as [H1 H2].
    rewrite Nat2Z.inj_succ, Z.pow_succ_r in Hd by lia.
    destruct (Z_lt_ge_dec d (lo + 2 ^ Z.of_nat k)); [apply (IH lo H1); lia|apply (IH _ H2); lia].
Qed.

Lemma rtime_range_checked : all_rtime_ok 15 (- 16384) = true.
Proof. vm_compute. reflexivity. Qed.

Theorem rtime_three_decimals : forall ms, - 16384 <= ms < 16384 -> rtime_ok ms = true.
Proof. intros ms H. apply (all_rtime_ok_spec 15 (- 16384) rtime_range_checked). change (2 ^ Z.of_nat 15) with 32768. lia. Qed.

Theorem rtime_drops_submilliseconds : forall ns, rtime_string ns = rtime_string (Z.quot ns 1000000 * 1000000).
Proof. intros ns. unfold rtime_string. now rewrite Z.quot_mul by lia. Qed.

Example ex_rtime : show (rtime_string 1500000000) = [49;46;53;48;48] /\ show (rtime_string (-1500000)) = [45;48;46;48;48;49].
Proof. split; vm_compute; reflexivity. Qed.       (* 1.500   -0.001 *)
