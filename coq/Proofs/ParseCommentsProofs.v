(* Comment attachment is a function of the token stream (Parser.ReadPeek, Model/ParseComments.v). *)
From Coq Require Import List NArith ZArith Bool Lia.
From Falco Require Import Base.Bytes Gen.TokenTypes Model.ParseBase Model.ParseComments.
Import ListNotations.

(* the token component of the decorated stream is the significant stream *)
Theorem decorate_tokens l : forall lv s prag, map dtk (decorate lv s prag l) = signif prag l.
Proof.
  induction l as [|t r IH]; intros lv s prag; [reflexivity|].
  cbn [decorate signif]. destruct prag.
  - destruct (typ t); try apply IH; reflexivity.
  - destruct (typ t); try (cbn [map dtk]; f_equal; apply IH); try apply IH; try reflexivity.
    destruct (inlf s); apply IH.
Qed.

(* Nest is the brace level of the significant stream: `{` counts itself, `}` does not *)
Theorem decorate_nest l : forall lv s prag, map dnest (decorate lv s prag l) = nests lv (signif prag l).
Proof.
  induction l as [|t r IH]; intros lv s prag; [reflexivity|].
  cbn [decorate signif]. destruct prag.
  - destruct (typ t) eqn:E; try apply IH; cbn [map dnest nests]; rewrite E; reflexivity.
  - destruct (typ t) eqn:E; try apply IH;
      try (cbn [map dnest nests]; rewrite E; f_equal; apply IH).
    destruct (inlf s); apply IH.
Qed.

(* every comment ReadPeek sees is attached exactly once, in source order: the concatenation of the
   Leading lists of the decorated stream is the list of visible comment tokens (after those the
   running call already holds) *)
Theorem decorate_comments l : forall lv s prag,
  has_eof l = true ->
  attached (decorate lv s prag l) = map ctok (rev (lead s)) ++ visible_comments prag l.
Proof.
  unfold attached.
  induction l as [|t r IH]; intros lv s prag H; [discriminate|].
  cbn [has_eof] in H. unfold ttype_eqb in H.
  cbn [decorate visible_comments]. destruct prag.
  - destruct (typ t) eqn:E; cbn in H;
      try (rewrite IH by exact H; reflexivity).
    cbn [flat_map dlead]. rewrite !app_nil_r. reflexivity.
  - destruct (typ t) eqn:E; cbn in H;
      try (rewrite IH by exact H; reflexivity);
      try (cbn [flat_map dlead]; rewrite IH by exact H; reflexivity).
    + cbn [flat_map dlead]. rewrite !app_nil_r. reflexivity.
    + rewrite IH by exact H. cbn [lead rev]. rewrite map_app, <- app_assoc. reflexivity.
    + destruct (inlf s); rewrite IH by exact H; reflexivity.
Qed.

Theorem comments_attached_once_in_order raw :
  has_eof raw = true ->
  attached (read_peek_stream raw) = visible_comments false raw.
Proof. intro H. unfold read_peek_stream. rewrite decorate_comments by exact H. reflexivity. Qed.

(* without `pragma` every comment token of the source (before the EOF) is visible *)
Lemma visible_no_pragma l : has_pragma l = false -> visible_comments false l = all_comments l.
Proof.
  induction l as [|t r IH]; [reflexivity|]. cbn [has_pragma visible_comments all_comments].
  unfold ttype_eqb. intro H.
  destruct (typ t); cbn in H; try discriminate; try (rewrite IH by exact H); reflexivity.
Qed.

Theorem comments_attached_once_in_order_nopragma raw :
  has_eof raw = true -> has_pragma raw = false ->
  attached (read_peek_stream raw) = all_comments raw.
Proof. intros H P. rewrite comments_attached_once_in_order by exact H. apply visible_no_pragma, P. Qed.

(* a fact about ReadPeek, not a demand of C02: not EVERY comment token of the source is attached - a comment
   inside `pragma ... ;` is read and thrown away with the rest of the pragma.  The witness is the
   token stream of  `pragma optional_param /* c */ x;`  (replayed on the real parser by checks/c02.py) *)
Definition tk (t : ttype) (i : N) : token := Tok t [] i.
Definition raw_pragma_comment : list token :=
  [tk T_PRAGMA 0; tk T_IDENT 1; tk T_COMMENT 2; tk T_IDENT 3; tk T_SEMICOLON 4; tk T_LF 5; tk T_EOF 6].
Theorem comments_attached_once_in_order_refuted :
  exists raw, has_eof raw = true /\ attached (read_peek_stream raw) <> all_comments raw.
Proof. exists raw_pragma_comment. split; [reflexivity|]. vm_compute. discriminate. Qed.

(* Parser.Trailing() only splits the list: nothing lost, nothing duplicated, order kept *)
Lemma split_trailing_app l : fst (split_trailing l) ++ snd (split_trailing l) = l.
Proof.
  induction l as [|c r IH]; [reflexivity|]. cbn [split_trailing].
  destruct (cplf c); [reflexivity|]. destruct (split_trailing r) as [a b]. cbn in *. f_equal. exact IH.
Qed.
Lemma split_trailing_fst l : forall c, In c (fst (split_trailing l)) -> cplf c = false.
Proof.
  induction l as [|c r IH]; intros x H; [destruct H|]. cbn [split_trailing] in H.
  destruct (cplf c) eqn:E; [destruct H|]. destruct (split_trailing r) as [a b]. cbn in *.
  destruct H as [<-|H]; [exact E|apply IH, H].
Qed.

(* worked example: `a \n\n // c1 \n /* c2 */ { b }` *)
Definition raw_ex : list token :=
  [tk T_IDENT 0; tk T_LF 1; tk T_LF 2; tk T_COMMENT 3; tk T_LF 4; tk T_COMMENT 5; tk T_LEFT_BRACE 6;
   tk T_IDENT 7; tk T_RIGHT_BRACE 8; tk T_COMMENT 9; tk T_EOF 10].
Example ex_read_peek :
  read_peek_stream raw_ex =
  [D (tk T_IDENT 0) [] 0 0;
   D (tk T_LEFT_BRACE 6) [Cm (tk T_COMMENT 3) true 1; Cm (tk T_COMMENT 5) true 0] 1 0;
   D (tk T_IDENT 7) [] 1 0;
   D (tk T_RIGHT_BRACE 8) [] 0 0;
   D (tk T_EOF 10) [Cm (tk T_COMMENT 9) false 0] 0 0].
Proof. reflexivity. Qed.
Example ex_attached : attached (read_peek_stream raw_ex) = [tk T_COMMENT 3; tk T_COMMENT 5; tk T_COMMENT 9]
  /\ all_comments raw_ex = [tk T_COMMENT 3; tk T_COMMENT 5; tk T_COMMENT 9]
  /\ map dnest (read_peek_stream raw_ex) = [0; 1; 1; 0; 0]%Z.
Proof. repeat split. Qed.
Example ex_split_trailing :
  split_trailing [Cm (tk T_COMMENT 1) false 0; Cm (tk T_COMMENT 2) true 0; Cm (tk T_COMMENT 3) true 0]
  = ([Cm (tk T_COMMENT 1) false 0], [Cm (tk T_COMMENT 2) true 0; Cm (tk T_COMMENT 3) true 0]).
Proof. reflexivity. Qed.
