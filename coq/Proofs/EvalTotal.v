(* C08 - the assignment operators and the binary operators never reach a Go panic point:
   for ALL operands the result is a value or a returned error. *)
From Coq Require Import List NArith ZArith Bool Lia Floats.SpecFloat.
From Falco Require Import Base.Res Base.Bytes Model.Float Model.Acl Model.Val Model.Assign Model.Oper
  Model.AssignOld Proofs.AclProofs.
Import ListNotations.
Local Open Scope Z_scope.

Ltac crush :=
  repeat (match goal with
          | |- context [if ?c then _ else _] => destruct c
          | |- context [match ?x with _ => _ end] => destruct x
          end);
  try discriminate; try congruence.

Section Total.
Variable parse_ip : str -> option addr.
Variable re_match : str -> str -> option bool.

Lemma assign_set_total l r : assign_set parse_ip l r <> ACrash.
Proof. destruct r as [rv lit]. unfold assign_set. cbn [oval olit]. destruct l, rv; crush. Qed.

Lemma addition_total l r : addition l r <> ACrash.
Proof. destruct r as [rv lit]. unfold addition. cbn [oval olit]. destruct l, rv; crush. Qed.

Lemma subtraction_total l r : subtraction l r <> ACrash.
Proof. destruct r as [rv lit]. unfold subtraction. cbn [oval olit]. destruct l, rv; crush. Qed.

Lemma multiplication_total l r : multiplication l r <> ACrash.
Proof. destruct r as [rv lit]. unfold multiplication. cbn [oval olit]. destruct l, rv; crush. Qed.

(* here the guards matter: every Go division / remainder is reached only with a non-zero divisor *)
Lemma division_total l r : division l r <> ACrash.
Proof.
  destruct r as [rv lit]. unfold division, lift, godiv. cbn [oval olit]. destruct l, rv; crush.
Qed.

Lemma remainder_total l r : remainder l r <> ACrash.
Proof.
  destruct r as [rv lit]. unfold remainder, lift, gorem. cbn [oval olit]. destruct l, rv; crush.
Qed.

Lemma int_binop_total f l r : (forall a b, f a b <> Crash /\ f a b <> OutOfFuel) -> int_binop f l r <> ACrash.
Proof.
  intros H. destruct r as [rv lit]. unfold int_binop. cbn [oval]. destruct l, rv; try discriminate.
  destruct (H v v0) as [H1 H2]. destruct (f v v0); try discriminate; congruence.
Qed.

Lemma bool_binop_total f l r : bool_binop f l r <> ACrash.
Proof. destruct r as [rv lit]. unfold bool_binop. cbn [oval]. destruct l, rv; discriminate. Qed.

Theorem assign_total : forall op l r, assign parse_ip op l r <> ACrash.
Proof.
  intros op l r. destruct op; cbn [assign].
  - apply assign_set_total.
  - apply addition_total.
  - apply subtraction_total.
  - apply multiplication_total.
  - apply division_total.
  - apply remainder_total.
  - apply int_binop_total. intros; split; discriminate.
  - apply int_binop_total. intros; split; discriminate.
  - apply int_binop_total. intros; split; discriminate.
  - apply int_binop_total. intros a b. unfold goshl. destruct (b <? 0); split; discriminate.
  - apply int_binop_total. intros a b. unfold goshr. destruct (b <? 0); split; discriminate.
  - apply int_binop_total. intros a b. destruct (b <? 0); split; discriminate.
  - apply int_binop_total. intros a b. destruct (b <? 0); split; discriminate.
  - apply bool_binop_total.
  - apply bool_binop_total.
Qed.

Theorem local_set_total : forall op l r, local_set parse_ip op l r <> ACrash.
Proof.
  intros op l r. unfold local_set. pose proof (assign_total op l r) as H.
  destruct (assign parse_ip op l r) as [v|v|]; try congruence; destruct v; discriminate.
Qed.

(* ---------------------------------------------------------------- operators *)

Lemma impl_match_value_or_err l ip : impl_match l ip <> Crash /\ impl_match l ip <> OutOfFuel.
Proof.
  rewrite acl_impl_eq_spec. unfold spec_match. destruct (forallb valid l); split; discriminate.
Qed.

Lemma equal_total l r : equal parse_ip l r <> Crash /\ equal parse_ip l r <> OutOfFuel.
Proof.
  destruct l as [lv ll], r as [rv rl]. unfold equal. cbn [oval olit].
  destruct ll; [split; discriminate|].
  destruct lv, rv; cbn [same_type type_of]; try (split; discriminate);
    try (destruct notset; split; discriminate).
  all: destruct notset; try (split; discriminate).
  all: destruct (assign_set parse_ip (VIp None false) _) as [[]| |]; split; try discriminate.
Qed.

Lemma compare_total k l r : compare_op k l r <> Crash /\ compare_op k l r <> OutOfFuel.
Proof.
  destruct l as [lv ll], r as [rv rl]. unfold compare_op. cbn [oval olit].
  destruct lv, rv; split; crush.
Qed.

Lemma regex_total l r : regex parse_ip re_match l r <> Crash /\ regex parse_ip re_match l r <> OutOfFuel.
Proof.
  destruct l as [lv ll], r as [rv rl]. unfold regex. cbn [oval olit].
  destruct lv, rv; try (split; discriminate).
  all: repeat match goal with
       | |- context [impl_match ?l ?a] =>
           let H1 := fresh in let H2 := fresh in let E := fresh in
           destruct (impl_match_value_or_err l a) as [H1 H2]; destruct (impl_match l a) eqn:E
       | |- context [if ?c then _ else _] => destruct c
       | |- context [match ?x with _ => _ end] => destruct x
       end; split; congruence.
Qed.

Lemma logical_total f l r : logical f l r <> Crash /\ logical f l r <> OutOfFuel.
Proof.
  destruct l as [lv ll], r as [rv rl]. unfold logical, truthy. cbn [oval olit].
  destruct lv, rv; split; crush.
Qed.

Theorem oper_total : forall op l r,
  oper parse_ip re_match op l r <> Crash /\ oper parse_ip re_match op l r <> OutOfFuel.
Proof.
  intros op l r. destruct op; cbn [oper].
  - destruct (equal_total l r) as [H1 H2]. destruct (equal parse_ip l r); split; congruence.
  - unfold not_equal. destruct (equal_total l r) as [H1 H2]. destruct (equal parse_ip l r); split; congruence.
  - destruct (compare_total CLt l r) as [H1 H2]. destruct (compare_op CLt l r); split; congruence.
  - destruct (compare_total CGt l r) as [H1 H2]. destruct (compare_op CGt l r); split; congruence.
  - destruct (compare_total CLe l r) as [H1 H2]. destruct (compare_op CLe l r); split; congruence.
  - destruct (compare_total CGe l r) as [H1 H2]. destruct (compare_op CGe l r); split; congruence.
  - destruct (regex_total l r) as [H1 H2]. destruct (regex parse_ip re_match l r); split; congruence.
  - unfold not_regex. destruct (regex_total l r) as [H1 H2]. destruct (regex parse_ip re_match l r); split; congruence.
  - destruct (logical_total andb l r) as [H1 H2]. destruct (logical andb l r); split; congruence.
  - destruct (logical_total orb l r) as [H1 H2]. destruct (logical orb l r); split; congruence.
  - unfold concat. destruct (concat_ok l && concat_ok r); split; discriminate.
Qed.

End Total.

(* ---------------------------------------------------------------- the unchanged tree did crash *)

Definition no_ip : str -> option addr := fun _ => None.
Definition iv (z : Z) : val := VInt z false false false.
Definition ivar (z : Z) : operand := mkOp (iv z) false.
Definition fhalf : float := S754_finite false 4503599627370496 (-53).     (* 0.5 *)

Theorem assign_old_crashes :
  assign_old no_ip OpShl (iv 1) (ivar (-1)) = ACrash /\                       (* set var.i <<= -1 *)
  assign_old no_ip OpShr (iv 1) (ivar (-1)) = ACrash /\
  assign_old no_ip OpRol (iv 1) (ivar (-1)) = ACrash /\                       (* rol= -1 *)
  assign_old no_ip OpRor (iv 1) (ivar 65) = ACrash /\                         (* ror= 65: 64 - 65 < 0 *)
  assign_old no_ip OpDiv (VRTime 5000000000) (ivar 0) = ACrash /\             (* RTIME /= 0 *)
  assign_old no_ip OpDiv (iv 10) (mkOp (VFloat fhalf false false false) false) = ACrash /\   (* INTEGER /= 0.5 *)
  assign_old no_ip OpRem (iv 10) (ivar 0) = ACrash /\                         (* INTEGER %= 0 *)
  assign_old no_ip OpRem (VRTime 7) (ivar (2 ^ 55)) = ACrash.                 (* 2^55 s wraps to 0 ns *)
Proof. repeat split; vm_compute; reflexivity. Qed.

(* ... and the rotation smeared the sign bit:  -2 ror= 3  gave -1,  x rol= 0  gave -1 for x < 0 *)
Theorem rotate_old_wrong :
  assign_old no_ip OpRor (iv (-2)) (ivar 3) = AOk (iv (-1)) /\
  assign no_ip OpRor (iv (-2)) (ivar 3) = AOk (iv (-2305843009213693953)) /\
  assign_old no_ip OpRol (iv (-5)) (ivar 0) = AOk (iv (-1)) /\
  assign no_ip OpRol (iv (-5)) (ivar 0) = AOk (iv (-5)).
Proof. repeat split; vm_compute; reflexivity. Qed.
