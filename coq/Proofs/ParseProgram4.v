(* program_roundtrip, part 4: declarations and ParseVCL. *)
From Coq Require Import String.
From Coq Require Import List NArith ZArith Bool Lia.
From Falco Require Import Base.Bytes Gen.TokenTypes Model.ParseKinds Gen.ParserTables
  Model.ParseBase Model.Ast Model.ParseLit Model.ParseExpr Model.ParseStmt Model.ParseDecl Model.Yield
  Proofs.ParseTables Proofs.ParseExprYield Proofs.ParseExprMono Proofs.ParseExprTotal
  Proofs.ParsePratt Proofs.ParseRoundtrip Proofs.ParseStmtYield Proofs.ParseStmtTotal Proofs.ParseDeclTotal
  Proofs.ParseStmtMono Proofs.ParseProgram Proofs.ParseProgram2 Proofs.ParseProgram3.
Import ListNotations.
Local Open Scope parse_scope.

Section P.
Variable fok : str -> bool.
Notation cexpr := (cexpr fok).
Notation cblock := (cblock fok).

(* a block with the fuel the declaration parsers give it *)
Lemma pblock_fixed ss rb pv lb rest :
  cblock ss rb ->
  okst (pblock fok (stmt_fuel (St pv (lb :: flat_map ystmt ss ++ rb :: rest)))
          (St pv (lb :: flat_map ystmt ss ++ rb :: rest))) (lb, ss, rb) (rb :: rest).
Proof.
  intros Hcb. set (st := St pv (lb :: flat_map ystmt ss ++ rb :: rest)).
  destruct (pblock_from_loop fok ss rb (proj1 (proj2 (roundtrip_all fok)) ss rb Hcb) (cblock_rb fok ss rb Hcb) lb rest)
    as [N HN].
  assert (Hne : toks st <> []) by (subst st; discriminate).
  destruct (pblock_GR fok st Hne) as [Hf _].
  rewrite <- (pblock_mono_any fok (stmt_fuel st) (Nat.max N (stmt_fuel st)) st Hf) by lia.
  apply HN. lia.
Qed.

Fixpoint cparams (ps : list (token * token * option token)) : Prop :=
  match ps with
  | [] => True
  | (ty, nm, c) :: rest =>
      typ ty = T_IDENT /\ typ nm = T_IDENT
      /\ match c with Some t => typ t = T_COMMA | None => rest = [] end /\ cparams rest
  end.

Lemma yparam_ne p : yparam p <> []. Proof. destruct p as [[ty nm] c]. discriminate. Qed.

Lemma pparams_rt : forall ps n pv c rp rest acc,
  cparams ps -> typ rp = T_RIGHT_PAREN -> length ps < n ->
  okst (pparams n (St pv (c :: flat_map yparam ps ++ rp :: rest)) acc)
       (rev acc ++ ps) (lastt (c :: flat_map yparam ps) :: rp :: rest).
Proof.
  induction ps as [|[[ty nm] cm] ps IH]; intros n pv c rp rest acc Hc Hrp Hn.
  - destruct n; [simpl in Hn; lia|]. cbn [pparams flat_map app].
    rewrite peek_is_cons, Hrp, ttype_eqb_refl. cbn [orb]. rewrite app_nil_r. eexists. reflexivity.
  - destruct n; [simpl in Hn; lia|]. destruct Hc as [Hty [Hnm [Hcm Hr]]].
    cbn [pparams flat_map]. change (yparam (ty, nm, cm)) with (ty :: nm :: ytok cm). cbn [app].
    rewrite !peek_is_cons, Hty.
    replace (ttype_eqb T_IDENT T_RIGHT_PAREN) with false by reflexivity.
    replace (ttype_eqb T_IDENT T_EOF) with false by reflexivity. cbn [orb].
    rewrite (expect_cons _ _ _ _ _ Hty). cbn [pbind].
    destruct cm as [cm|].
    + cbn [ytok app]. rewrite (expect_cons _ _ _ _ _ Hnm). cbn [pbind].
      rewrite peek_is_cons, Hcm, ttype_eqb_refl. rewrite next_cons, !cur_cons.
      destruct (IH n (Some nm) cm rp rest ((ty, nm, Some cm) :: acc) Hr Hrp ltac:(simpl in Hn; lia)) as [pv2 E2].
      rewrite E2. exists pv2. cbn [rev]. rewrite <- app_assoc. cbn [app].
      replace (lastt (c :: ty :: nm :: cm :: flat_map yparam ps)) with (lastt (cm :: flat_map yparam ps)); [reflexivity|].
      symmetry. apply (lastt_suffix _ [c; ty; nm]); [reflexivity | discriminate].
    + subst ps. cbn [ytok app flat_map]. rewrite (expect_cons _ _ _ _ _ Hnm). cbn [pbind].
      rewrite peek_is_cons, Hrp. replace (ttype_eqb T_RIGHT_PAREN T_COMMA) with false by reflexivity.
      rewrite peek_is_cons, Hrp, ttype_eqb_refl. cbn [negb]. rewrite !cur_cons.
      destruct n; [simpl in Hn; lia|]. cbn [pparams]. rewrite peek_is_cons, Hrp, ttype_eqb_refl. cbn [orb].
      eexists. cbn [rev app]. reflexivity.
Qed.

(* canonical declarations; nx = the token that follows *)
Definition cdecl (d : stmt) (nx : token) : Prop :=
  match d with
  | DSub kw name params ret lb b rb =>
      typ kw = T_SUBROUTINE /\ typ name = T_IDENT
      /\ match params with
         | None => True
         | Some (lp, ps, rp) => typ lp = T_LEFT_PAREN /\ typ rp = T_RIGHT_PAREN /\ cparams ps
         end
      /\ match ret with None => True | Some t => typ t = T_IDENT end
      /\ typ lb = T_LEFT_BRACE /\ cblock b rb
  | DPenaltybox kw name lb b rb =>
      typ kw = T_PENALTYBOX /\ typ name = T_IDENT /\ typ lb = T_LEFT_BRACE /\ cblock b rb
  | DRatecounter kw name lb b rb =>
      typ kw = T_RATECOUNTER /\ typ name = T_IDENT /\ typ lb = T_LEFT_BRACE /\ cblock b rb
  | SImport kw name semi => typ kw = T_IMPORT /\ typ name = T_IDENT /\ typ semi = T_SEMICOLON
  | SInclude kw m v semi => csimple fok (SInclude kw m v semi) nx
  | _ => False
  end.

Lemma pnamed_block_rt mk kw name lb b rb pv rest :
  typ name = T_IDENT -> typ lb = T_LEFT_BRACE -> cblock b rb ->
  okst (pnamed_block fok mk (St pv (kw :: name :: lb :: flat_map ystmt b ++ rb :: rest)))
       (mk kw name lb b rb) (rb :: rest).
Proof.
  intros Hn Hlb Hcb. unfold pnamed_block. rewrite (expect_cons _ _ _ _ _ Hn). cbn [pbind].
  rewrite (expect_cons _ _ _ _ _ Hlb). cbn [pbind].
  destruct (pblock_fixed b rb (Some name) lb rest Hcb) as [pv' E]. rewrite E. cbn [pbind].
  rewrite !cur_cons. eexists. reflexivity.
Qed.

Lemma psub_rt kw name params ret lb b rb pv rest :
  typ name = T_IDENT ->
  match params with
  | None => True
  | Some (lp, ps, rp) => typ lp = T_LEFT_PAREN /\ typ rp = T_RIGHT_PAREN /\ cparams ps
  end ->
  match ret with None => True | Some t => typ t = T_IDENT end ->
  typ lb = T_LEFT_BRACE -> cblock b rb ->
  okst (psub fok (St pv (ystmt (DSub kw name params ret lb b rb) ++ rest)))
       (DSub kw name params ret lb b rb) (rb :: rest).
Proof.
  intros Hn Hp Hr Hlb Hcb. unfold psub.
  set (tail := ytok ret ++ lb :: flat_map ystmt b ++ rb :: rest).
  assert (En : ystmt (DSub kw name params ret lb b rb) ++ rest
               = kw :: name :: match params with Some (lp, ps, rp) => lp :: flat_map yparam ps ++ rp :: tail | None => tail end).
  { subst tail. cbn [ystmt]. destruct params as [[[lp ps] rp]|]; cbn [app]; repeat (rewrite <- app_assoc; cbn [app]); reflexivity. }
  rewrite En. rewrite (expect_cons _ _ _ _ _ Hn). cbn [pbind].
  (* the tail: optional return type, then the block *)
  assert (Htail : forall pv1 x,
    okst (let st2 := St pv1 (x :: tail) in
          let ret0 := if peek_is st2 T_IDENT then Some (peek st2) else None in
          let st3 := if peek_is st2 T_IDENT then next st2 else st2 in
          do st4 <- expect st3 T_LEFT_BRACE;
          do (b0, st5) <- pblock fok (stmt_fuel st4) st4;
          let '(lb0, ss, rb0) := b0 in POK (DSub kw name params ret0 lb0 ss rb0, st5))
         (DSub kw name params ret lb b rb) (rb :: rest)).
  { intros pv1 x. subst tail. cbn zeta. destruct ret as [t|]; cbn [ytok app].
    - rewrite peek_is_cons, Hr, ttype_eqb_refl. rewrite next_cons.
      rewrite (expect_cons _ _ _ _ _ Hlb). cbn [pbind].
      destruct (pblock_fixed b rb (Some t) lb rest Hcb) as [pv' E]. rewrite E. cbn [pbind].
      eexists. reflexivity.
    - rewrite peek_is_cons, Hlb. replace (ttype_eqb T_LEFT_BRACE T_IDENT) with false by reflexivity.
      rewrite (expect_cons _ _ _ _ _ Hlb). cbn [pbind].
      destruct (pblock_fixed b rb (Some x) lb rest Hcb) as [pv' E]. rewrite E. cbn [pbind].
      eexists. reflexivity. }
  destruct params as [[[lp ps] rp]|].
  - destruct Hp as [Hlp [Hrp Hps]]. rewrite peek_is_cons, Hlp, ttype_eqb_refl. rewrite next_cons.
    match goal with |- context [pparams ?n _ []] => set (n0 := n) end.
    destruct (pparams_rt ps n0 (Some name) lp rp tail [] Hps Hrp) as [pv1 E1].
    { subst n0. unfold toks. cbn [length]. rewrite !app_length. pose proof (flat_map_len_ge yparam ps yparam_ne). cbn [length]. lia. }
    rewrite E1. cbn [pbind rev app]. rewrite (expect_cons _ _ _ _ _ Hrp). cbn [pbind]. rewrite !cur_cons.
    cbn [pbind]. apply (Htail (Some (lastt (lp :: flat_map yparam ps))) rp).
  - assert (Hnl : peek_is (St (Some kw) (name :: tail)) T_LEFT_PAREN = false).
    { subst tail. destruct ret as [t|]; cbn [ytok app]; rewrite peek_is_cons; [rewrite Hr | rewrite Hlb]; reflexivity. }
    rewrite Hnl. cbn [pbind]. apply (Htail (Some kw) name).
Qed.

(* ---------- acl *)
Definition cip (i : ipnode) : Prop :=
  match i with
  | IpStr t => typ t = T_STRING
  | IpLong o s c v =>
      typ o = T_OPEN_LONG_STRING /\ typ s = T_STRING /\ typ c = T_CLOSE_LONG_STRING
      /\ string_value s = Some v /\ str_eqb (lit o) (lit c) = true
  end.
Definition ccidr (c : cidr) : Prop :=
  match c with
  | Cidr inv ip mask semi =>
      match inv with Some t => typ t = T_NOT | None => True end /\ cip ip
      /\ match mask with
         | Some (sl, t, v) => typ sl = T_SLASH /\ typ t = T_INT /\ conv_integer false (lit t) = Some v
         | None => True
         end
      /\ typ semi = T_SEMICOLON
  end.

Lemma plong_rt o s c v pv rest :
  typ s = T_STRING -> typ c = T_CLOSE_LONG_STRING -> string_value s = Some v -> str_eqb (lit o) (lit c) = true ->
  plong (St pv (o :: s :: c :: rest)) = POK (o, s, c, v, St (Some s) (c :: rest)).
Proof.
  intros Hs Hc Hv He. unfold plong. rewrite peek_is_cons, Hs, ttype_eqb_refl. cbn [negb]. rewrite next_cons.
  rewrite (pstring_value _ _ _ _ Hv). rewrite peek_is_cons, Hc, ttype_eqb_refl. cbn [negb].
  rewrite cur_cons. change (peek (St (Some o) (s :: c :: rest))) with c. rewrite He. cbn [negb]. reflexivity.
Qed.

Lemma yip_ne i : yip i <> []. Proof. destruct i; discriminate. Qed.

Lemma pcidr_rt c0 pv rest : ccidr c0 ->
  okst (pcidr (St pv (ycidr c0 ++ rest))) c0 (lastt (ycidr c0) :: rest).
Proof.
  destruct c0 as [inv ip mask semi]. intros [Hinv [Hip [Hm Hs]]]. unfold pcidr.
  set (mtoks := match mask with Some (sl, t, _) => [sl; t] | None => [] end).
  assert (En : ycidr (Cidr inv ip mask semi) ++ rest = ytok inv ++ yip ip ++ mtoks ++ semi :: rest).
  { subst mtoks. cbn [ycidr]. repeat (rewrite <- app_assoc; cbn [app]). reflexivity. }
  assert (El : lastt (ycidr (Cidr inv ip mask semi)) = semi).
  { cbn [ycidr]. unfold lastt. rewrite !app_assoc. apply last_last. }
  rewrite En, El. clear En El.
  (* after the optional `!` *)
  assert (Hmain : forall pv1,
    okst (do (ip0, st2) <-
            match typ (cur (St pv1 (yip ip ++ mtoks ++ semi :: rest))) with
            | T_STRING => POK (IpStr (cur (St pv1 (yip ip ++ mtoks ++ semi :: rest))), St pv1 (yip ip ++ mtoks ++ semi :: rest))
            | T_OPEN_LONG_STRING =>
                do (o, s, c, v, st') <- plong (St pv1 (yip ip ++ mtoks ++ semi :: rest)); POK (IpLong o s c v, st')
            | _ => err_cur E_unexpected (St pv1 (yip ip ++ mtoks ++ semi :: rest))
            end;
          do (mask0, st3) <-
            (if peek_is st2 T_SLASH then
               let s := next st2 in
               do s2 <- expect s T_INT;
               do v <- pint s2;
               POK (Some (cur s, cur s2, v), s2)
             else POK (None, st2));
          do st4 <- ParseStmt.semi st3;
          POK (Cidr inv ip0 mask0 (cur st4), st4)) (Cidr inv ip mask semi) (semi :: rest)).
  { intros pv1.
    assert (Hipr : exists pv2,
      match typ (cur (St pv1 (yip ip ++ mtoks ++ semi :: rest))) with
      | T_STRING => POK (IpStr (cur (St pv1 (yip ip ++ mtoks ++ semi :: rest))), St pv1 (yip ip ++ mtoks ++ semi :: rest))
      | T_OPEN_LONG_STRING =>
          do (o, s, c, v, st') <- plong (St pv1 (yip ip ++ mtoks ++ semi :: rest)); POK (IpLong o s c v, st')
      | _ => err_cur E_unexpected (St pv1 (yip ip ++ mtoks ++ semi :: rest))
      end = POK (ip, St pv2 (lastt (yip ip) :: mtoks ++ semi :: rest))).
    { destruct ip as [t|o s c v]; cbn [cip yip app] in *.
      - rewrite cur_cons, Hip. eexists. reflexivity.
      - destruct Hip as [Ho [Hs0 [Hc [Hv He]]]]. rewrite cur_cons, Ho.
        rewrite (plong_rt o s c v pv1 _ Hs0 Hc Hv He). cbn [pbind]. eexists. reflexivity. }
    destruct Hipr as [pv2 E2]. rewrite E2. cbn [pbind]. subst mtoks.
    destruct mask as [[[sl t] v]|]; cbn [app].
    - destruct Hm as [Hsl [Ht Hv]]. rewrite peek_is_cons, Hsl, ttype_eqb_refl. cbn zeta. rewrite next_cons.
      rewrite (expect_cons _ _ _ _ _ Ht). cbn [pbind]. unfold pint. cbn [prev cur toks hd].
      replace (ttype_eqb (typ sl) T_MINUS) with false by (rewrite Hsl; reflexivity).
      rewrite Hv. cbn [pbind]. rewrite (semi_cons _ _ _ _ Hs). cbn [pbind]. rewrite !cur_cons. eexists. reflexivity.
    - rewrite peek_is_cons, Hs. replace (ttype_eqb T_SEMICOLON T_SLASH) with false by reflexivity. cbn [pbind].
      rewrite (semi_cons _ _ _ _ Hs). cbn [pbind]. rewrite !cur_cons. eexists. reflexivity. }
  destruct inv as [nt|]; cbn [ytok app].
  - unfold cur_is. rewrite cur_cons, Hinv, ttype_eqb_refl. rewrite next_cons. apply Hmain.
  - assert (Hn : cur_is (St pv (yip ip ++ mtoks ++ semi :: rest)) T_NOT = false).
    { destruct ip as [t|o s c v]; cbn [cip yip app] in *; unfold cur_is; rewrite cur_cons;
        [rewrite Hip | destruct Hip as [Ho _]; rewrite Ho]; reflexivity. }
    rewrite Hn. apply Hmain.
Qed.

Lemma ycidr_hd c0 : ccidr c0 -> typ (hdt (ycidr c0)) <> T_RIGHT_BRACE.
Proof.
  destruct c0 as [inv ip mask semi]. intros [Hinv [Hip _]]. cbn [ycidr].
  destruct inv as [t|]; cbn; [rewrite Hinv; discriminate|].
  destruct ip as [t|o s c v]; cbn in *; [rewrite Hip | destruct Hip as [Ho _]; rewrite Ho]; discriminate.
Qed.

Lemma ycidr_ne c0 : ycidr c0 <> [].
Proof. destruct c0 as [inv ip mask semi]. cbn [ycidr]. destruct inv, ip; discriminate. Qed.

Lemma pcidrs_rt : forall cs n pv x rb rest acc,
  Forall ccidr cs -> typ rb = T_RIGHT_BRACE -> length cs < n ->
  okst (pcidrs n (St pv (x :: flat_map ycidr cs ++ rb :: rest)) acc)
       (rev acc ++ cs) (lastt (x :: flat_map ycidr cs) :: rb :: rest).
Proof.
  induction cs as [|c0 cs IH]; intros n pv x rb rest acc Hc Hrb Hn.
  - destruct n; [simpl in Hn; lia|]. cbn [pcidrs flat_map app]. rewrite peek_is_cons, Hrb, ttype_eqb_refl.
    rewrite app_nil_r. eexists. reflexivity.
  - destruct n; [simpl in Hn; lia|]. inversion Hc as [|? ? Hc0 Hcs]; subst.
    cbn [pcidrs flat_map]. rewrite <- app_assoc.
    rewrite peek_is_app by apply ycidr_ne.
    pose proof (ycidr_hd c0 Hc0) as Hh. apply ttype_eqb_neq in Hh. rewrite Hh. rewrite next_cons.
    destruct (pcidr_rt c0 (Some x) (flat_map ycidr cs ++ rb :: rest) Hc0) as [pv1 E1]. rewrite E1. cbn [pbind].
    destruct (IH n pv1 (lastt (ycidr c0)) rb rest (c0 :: acc) Hcs Hrb ltac:(simpl in Hn; lia)) as [pv2 E2].
    rewrite E2. exists pv2. cbn [rev]. rewrite <- app_assoc. cbn [app].
    rewrite (lastt_x_app x (ycidr c0) (flat_map ycidr cs)) by apply ycidr_ne. reflexivity.
Qed.

Lemma pacl_rt kw name lb cs rb pv rest :
  typ name = T_IDENT -> typ lb = T_LEFT_BRACE -> Forall ccidr cs -> typ rb = T_RIGHT_BRACE ->
  okst (pacl (St pv (kw :: name :: lb :: flat_map ycidr cs ++ rb :: rest))) (DAcl kw name lb cs rb) (rb :: rest).
Proof.
  intros Hn Hlb Hc Hrb. unfold pacl. rewrite (expect_cons _ _ _ _ _ Hn). cbn [pbind].
  rewrite (expect_cons _ _ _ _ _ Hlb). cbn [pbind].
  match goal with |- context [pcidrs ?n _ []] => set (n0 := n) end.
  destruct (pcidrs_rt cs n0 (Some name) lb rb rest [] Hc Hrb) as [pv1 E1].
  { subst n0. unfold toks. cbn [length]. rewrite !app_length. pose proof (flat_map_len_ge ycidr cs ycidr_ne). cbn [length]. lia. }
  rewrite E1. cbn [pbind rev app]. rewrite next_cons, !cur_cons. eexists. reflexivity.
Qed.

(* ---------- table *)
Definition ckey (k : expr) : Prop :=
  match k with
  | EString t v => typ t = T_STRING /\ string_value t = Some v
  | ELong o s c v => typ o = T_OPEN_LONG_STRING /\ typ s = T_STRING /\ typ c = T_CLOSE_LONG_STRING
                     /\ string_value s = Some v /\ str_eqb (lit o) (lit c) = true
  | _ => False
  end.
Definition ctval (v : expr) : Prop :=
  match v with
  | EIdent t => typ t = T_IDENT
  | EBool t => typ t = T_TRUE \/ typ t = T_FALSE
  | EInt t z => typ t = T_INT /\ conv_integer false (lit t) = Some z
  | EFloat t => typ t = T_FLOAT /\ fok (float_arg (lit t)) = true
  | ERTime t => typ t = T_RTIME /\ exists z, rtime_value (lit t) = Some z /\ fok z = true
  | EString _ _ | ELong _ _ _ _ => ckey v
  | _ => False
  end.
Definition ctprop (p : tprop) (last_one : bool) : Prop :=
  match p with
  | TProp k colon v comma =>
      ckey k /\ typ colon = T_COLON /\ ctval v
      /\ match comma with Some t => typ t = T_COMMA | None => last_one = true end
  end.
Fixpoint ctprops (ps : list tprop) : Prop :=
  match ps with
  | [] => True
  | p :: rest => ctprop p (match rest with [] => true | _ => false end) /\ ctprops rest
  end.

Lemma ckey_rt k pv c rest : ckey k ->
  exists pv2,
    match typ (peek (St pv (c :: yexpr k ++ rest))) with
    | T_STRING => do v <- pstring (next (St pv (c :: yexpr k ++ rest))); POK (EString (cur (next (St pv (c :: yexpr k ++ rest)))) v, next (St pv (c :: yexpr k ++ rest)))
    | T_OPEN_LONG_STRING =>
        do (o, s, c0, v, st') <- plong (next (St pv (c :: yexpr k ++ rest))); POK (ELong o s c0 v, st')
    | _ => err_peek E_unexpected (St pv (c :: yexpr k ++ rest))
    end = POK (k, St pv2 (lastt (yexpr k) :: rest)).
Proof.
  intros Hk. destruct k; try contradiction; cbn [ckey yexpr app] in *.
  - destruct Hk as [Ht Hv]. change (peek (St pv (c :: t :: rest))) with t. rewrite Ht. rewrite !next_cons.
    rewrite (pstring_value _ _ _ _ Hv). cbn [pbind]. rewrite cur_cons. eexists. reflexivity.
  - destruct Hk as [Ho [Hs [Hc [Hv He]]]]. change (peek (St pv (c :: o :: s :: c0 :: rest))) with o. rewrite Ho.
    rewrite next_cons. rewrite (plong_rt o s c0 v (Some c) rest Hs Hc Hv He). cbn [pbind]. eexists. reflexivity.
Qed.

Lemma ctval_rt v pv rest : ctval v ->
  exists pv2,
    match typ (cur (St pv (yexpr v ++ rest))) with
    | T_IDENT => POK (EIdent (cur (St pv (yexpr v ++ rest))), St pv (yexpr v ++ rest))
    | T_STRING => do z <- pstring (St pv (yexpr v ++ rest)); POK (EString (cur (St pv (yexpr v ++ rest))) z, St pv (yexpr v ++ rest))
    | T_OPEN_LONG_STRING => do (o, s, c, z, st') <- plong (St pv (yexpr v ++ rest)); POK (ELong o s c z, st')
    | T_TRUE | T_FALSE => POK (EBool (cur (St pv (yexpr v ++ rest))), St pv (yexpr v ++ rest))
    | T_FLOAT => pfloat fok (St pv (yexpr v ++ rest))
    | T_INT => pinteger (St pv (yexpr v ++ rest))
    | T_RTIME => prtime fok (St pv (yexpr v ++ rest))
    | _ => err_cur E_unexpected (St pv (yexpr v ++ rest))
    end = POK (v, St pv2 (lastt (yexpr v) :: rest)).
Proof.
  intros Hv. destruct v; try contradiction; cbn [ctval ckey yexpr app] in *; rewrite cur_cons.
  - rewrite Hv. eexists. reflexivity.
  - destruct Hv as [Hv|Hv]; rewrite Hv; eexists; reflexivity.
  - destruct Hv as [Ht Hz]. rewrite Ht. unfold pinteger, pint. rewrite cur_cons.
    rewrite (conv_integer_any _ _ _ Hz). cbn [pbind]. eexists. reflexivity.
  - destruct Hv as [Ht Hz]. rewrite Ht. unfold pfloat. rewrite cur_cons, Hz. eexists. reflexivity.
  - destruct Hv as [Ht [z [Hz Hf]]]. rewrite Ht. unfold prtime. rewrite cur_cons, Hz, Hf. eexists. reflexivity.
  - destruct Hv as [Ht Hz]. rewrite Ht. rewrite (pstring_value _ _ _ _ Hz). cbn [pbind]. eexists. reflexivity.
  - destruct Hv as [Ho [Hs [Hc [Hz He]]]]. rewrite Ho. rewrite (plong_rt o s c v pv rest Hs Hc Hz He). cbn [pbind].
    eexists. reflexivity.
Qed.

Lemma ytprop_ne p : ytprop p <> [].
Proof. destruct p as [k colon v comma]. unfold ytprop. pose proof (yexpr_nonempty k). destruct (yexpr k); [congruence | discriminate]. Qed.

Lemma ckey_hd k : ckey k -> typ (hdt (yexpr k)) <> T_RIGHT_BRACE.
Proof. destruct k; try contradiction; cbn; intros H; destruct H as [H _]; rewrite H; discriminate. Qed.

Lemma ptprops_rt : forall ps n pv x rb rest acc,
  ctprops ps -> typ rb = T_RIGHT_BRACE -> length ps < n ->
  okst (ptprops fok n (St pv (x :: flat_map ytprop ps ++ rb :: rest)) acc)
       (rev acc ++ ps) (lastt (x :: flat_map ytprop ps) :: rb :: rest).
Proof.
  induction ps as [|p ps IH]; intros n pv x rb rest acc Hc Hrb Hn.
  - destruct n; [simpl in Hn; lia|]. cbn [ptprops flat_map app]. rewrite peek_is_cons, Hrb, ttype_eqb_refl.
    rewrite app_nil_r. eexists. reflexivity.
  - destruct n; [simpl in Hn; lia|]. destruct Hc as [Hp Hps]. destruct p as [k colon v comma].
    destruct Hp as [Hk [Hcol [Hv Hcm]]].
    set (tail := flat_map ytprop ps ++ rb :: rest).
    assert (En : x :: flat_map ytprop (TProp k colon v comma :: ps) ++ rb :: rest
                 = x :: yexpr k ++ colon :: yexpr v ++ ytok comma ++ tail).
    { subst tail. cbn [flat_map ytprop]. repeat (rewrite <- app_assoc; cbn [app]). reflexivity. }
    cbn [ptprops]. rewrite En.
    rewrite peek_is_app by apply yexpr_nonempty.
    pose proof (ckey_hd k Hk) as Hh. apply ttype_eqb_neq in Hh. rewrite Hh.
    unfold ptprop.
    destruct (ckey_rt k pv x (colon :: yexpr v ++ ytok comma ++ tail) Hk) as [pv1 E1]. rewrite E1. cbn [pbind].
    rewrite (expect_cons _ _ _ _ _ Hcol). cbn [pbind]. rewrite next_cons.
    destruct (ctval_rt v (Some colon) (ytok comma ++ tail) Hv) as [pv2 E2]. rewrite E2. cbn [pbind].
    assert (Hfin : lastt (x :: flat_map ytprop (TProp k colon v comma :: ps))
                   = lastt (lastt (yexpr k ++ colon :: yexpr v ++ ytok comma) :: flat_map ytprop ps)).
    { cbn [flat_map]. change (ytprop (TProp k colon v comma)) with (yexpr k ++ colon :: yexpr v ++ ytok comma).
      apply lastt_x_app. pose proof (yexpr_nonempty k). destruct (yexpr k); [congruence | discriminate]. }
    destruct comma as [cm|]; cbn [ytok app].
    + change (typ (peek (St pv2 (lastt (yexpr v) :: cm :: tail)))) with (typ cm). rewrite Hcm. cbn zeta. rewrite next_cons, !cur_cons. cbn [pbind].
      destruct (IH n (Some (lastt (yexpr v))) cm rb rest (TProp k colon v (Some cm) :: acc) Hps Hrb ltac:(simpl in Hn; lia)) as [pv3 E3].
      subst tail. rewrite E3. exists pv3. cbn [rev]. rewrite <- app_assoc. cbn [app]. rewrite Hfin.
      replace (lastt (yexpr k ++ colon :: yexpr v ++ ytok (Some cm))) with cm; [reflexivity|].
      symmetry. cbn [ytok]. unfold lastt. rewrite app_comm_cons, app_assoc. apply last_last.
    + (* no comma: this is the last property, `}` follows *)
      destruct ps as [|p2 ps2]; [|discriminate].
      assert (L : lastt (x :: flat_map ytprop [TProp k colon v None]) = lastt (yexpr v)).
      { apply (lastt_suffix _ (x :: yexpr k ++ [colon])); [|apply yexpr_nonempty].
        cbn [flat_map ytprop ytok app]. rewrite ?app_nil_r. repeat (rewrite <- app_assoc; cbn [app]). reflexivity. }
      rewrite L. subst tail. cbn [flat_map app].
      change (typ (peek (St pv2 (lastt (yexpr v) :: rb :: rest)))) with (typ rb). rewrite Hrb. rewrite !cur_cons. cbn [pbind].
      destruct n; [simpl in Hn; lia|]. cbn [ptprops]. rewrite peek_is_cons, Hrb, ttype_eqb_refl.
      exists pv2. cbn [rev app]. reflexivity.
Qed.

Lemma ptable_rt kw name ty lb ps rb pv rest :
  typ name = T_IDENT -> match ty with Some t => typ t = T_IDENT | None => True end ->
  typ lb = T_LEFT_BRACE -> ctprops ps -> typ rb = T_RIGHT_BRACE ->
  okst (ptable fok (St pv (ystmt (DTable kw name ty lb ps rb) ++ rest))) (DTable kw name ty lb ps rb) (rb :: rest).
Proof.
  intros Hn Hty Hlb Hps Hrb. unfold ptable.
  assert (En : ystmt (DTable kw name ty lb ps rb) ++ rest = kw :: name :: ytok ty ++ lb :: flat_map ytprop ps ++ rb :: rest).
  { cbn [ystmt app]. repeat (rewrite <- app_assoc; cbn [app]). reflexivity. }
  rewrite En. rewrite (expect_cons _ _ _ _ _ Hn). cbn [pbind].
  assert (Hbody : forall pv1 x,
    okst (do st3 <- expect (St pv1 (x :: lb :: flat_map ytprop ps ++ rb :: rest)) T_LEFT_BRACE;
          do (ps0, st4) <- ptprops fok (S (length (toks st3))) st3 [];
          let st5 := next st4 in POK (DTable kw name ty (cur st3) ps0 (cur st5), st5))
         (DTable kw name ty lb ps rb) (rb :: rest)).
  { intros pv1 x. rewrite (expect_cons _ _ _ _ _ Hlb). cbn [pbind].
    match goal with |- context [ptprops fok ?n _ []] => set (n0 := n) end.
    destruct (ptprops_rt ps n0 (Some x) lb rb rest [] Hps Hrb) as [pv2 E2].
    { subst n0. unfold toks. cbn [length]. rewrite !app_length. pose proof (flat_map_len_ge ytprop ps ytprop_ne). cbn [length]. lia. }
    rewrite E2. cbn [pbind rev app]. cbn zeta. rewrite next_cons, !cur_cons. eexists. reflexivity. }
  destruct ty as [t|]; cbn [ytok app].
  - rewrite !peek_is_cons, Hty, ttype_eqb_refl. change (peek (St (Some kw) (name :: t :: lb :: flat_map ytprop ps ++ rb :: rest))) with t.
    rewrite next_cons, cur_cons. apply Hbody.
  - rewrite !peek_is_cons, Hlb. replace (ttype_eqb T_LEFT_BRACE T_IDENT) with false by reflexivity.
    rewrite cur_cons. apply Hbody.
Qed.

(* ---------- director *)
Definition cdfield (f : dfield) : Prop :=
  match f with
  | DField dot key eq v semi =>
      typ dot = T_DOT /\ (typ key = T_IDENT \/ typ key = T_BACKEND) /\ typ eq = T_ASSIGN /\ cexpr v
      /\ typ semi = T_SEMICOLON
  end.
Definition cdprop (p : dprop) : Prop :=
  match p with
  | DProp f => cdfield f
  | DBackendObj lb fs rb => typ lb = T_LEFT_BRACE /\ Forall cdfield fs /\ typ rb = T_RIGHT_BRACE
  end.

Lemma ydfield_ne f : ydfield f <> []. Proof. destruct f; discriminate. Qed.
Lemma ydprop_ne p : ydprop p <> []. Proof. destruct p as [[]|]; discriminate. Qed.

(* entered with cur = DOT *)
Lemma pdfield_rt dot key eq v semi pv rest :
  (typ key = T_IDENT \/ typ key = T_BACKEND) -> typ eq = T_ASSIGN -> cexpr v -> typ semi = T_SEMICOLON ->
  okst (pdfield fok (St pv (dot :: key :: eq :: yexpr v ++ semi :: rest))) (DField dot key eq v semi) (semi :: rest).
Proof.
  intros Hk He Hv Hs. unfold pdfield.
  assert (E1 : match expect_peek (St pv (dot :: key :: eq :: yexpr v ++ semi :: rest)) T_IDENT with
               | Some s => POK s
               | None => match expect_peek (St pv (dot :: key :: eq :: yexpr v ++ semi :: rest)) T_BACKEND with
                         | Some s => POK s
                         | None => err_peek E_unexpected (St pv (dot :: key :: eq :: yexpr v ++ semi :: rest))
                         end
               end = @POK pstate (St (Some dot) (key :: eq :: yexpr v ++ semi :: rest))).
  { unfold expect_peek. rewrite !peek_is_cons. destruct Hk as [Hk|Hk]; rewrite Hk.
    - rewrite ttype_eqb_refl. reflexivity.
    - replace (ttype_eqb T_BACKEND T_IDENT) with false by reflexivity. rewrite ttype_eqb_refl. reflexivity. }
  rewrite E1. cbn [pbind]. rewrite (expect_cons _ _ _ _ _ He). cbn [pbind]. rewrite next_cons.
  destruct (pe_rt fok v (Some eq) semi rest Hv (closer_semi _ Hs)) as [pv' E]. rewrite E. cbn [pbind].
  rewrite (semi_cons _ _ _ _ Hs). cbn [pbind]. rewrite !cur_cons. eexists. reflexivity.
Qed.

Lemma pdfields_rt : forall fs n pv x rb rest acc,
  Forall cdfield fs -> typ rb = T_RIGHT_BRACE -> length fs < n ->
  okst (pdfields fok n (St pv (x :: flat_map ydfield fs ++ rb :: rest)) acc)
       (rev acc ++ fs) (lastt (x :: flat_map ydfield fs) :: rb :: rest).
Proof.
  induction fs as [|f fs IH]; intros n pv x rb rest acc Hc Hrb Hn.
  - destruct n; [simpl in Hn; lia|]. cbn [pdfields flat_map app]. rewrite peek_is_cons, Hrb, ttype_eqb_refl.
    rewrite app_nil_r. eexists. reflexivity.
  - destruct n; [simpl in Hn; lia|]. inversion Hc as [|? ? Hf Hfs]; subst.
    destruct f as [dot key eq v semi]. destruct Hf as [Hd [Hk [He [Hv Hs]]]].
    set (tail := flat_map ydfield fs ++ rb :: rest).
    assert (En : x :: flat_map ydfield (DField dot key eq v semi :: fs) ++ rb :: rest
                 = x :: dot :: key :: eq :: yexpr v ++ semi :: tail).
    { subst tail. cbn [flat_map ydfield app]. repeat (rewrite <- app_assoc; cbn [app]). reflexivity. }
    cbn [pdfields]. rewrite En. rewrite peek_is_cons, Hd. replace (ttype_eqb T_DOT T_RIGHT_BRACE) with false by reflexivity.
    rewrite (expect_cons _ _ _ _ _ Hd). cbn [pbind].
    destruct (pdfield_rt dot key eq v semi (Some x) tail Hk He Hv Hs) as [pv1 E1]. rewrite E1. cbn [pbind].
    destruct (IH n pv1 semi rb rest (DField dot key eq v semi :: acc) Hfs Hrb ltac:(simpl in Hn; lia)) as [pv2 E2].
    subst tail. rewrite E2. exists pv2. cbn [rev]. rewrite <- app_assoc. cbn [app].
    replace (lastt (x :: flat_map ydfield (DField dot key eq v semi :: fs))) with (lastt (semi :: flat_map ydfield fs)); [reflexivity|].
    symmetry. apply (lastt_suffix _ (x :: dot :: key :: eq :: yexpr v)); [|discriminate].
    cbn [flat_map ydfield app]. repeat (rewrite <- app_assoc; cbn [app]). reflexivity.
Qed.

(* one director property / backend object, entered with cur = x and the property in peek position *)
Lemma pdprop_step p pv x rest : cdprop p ->
  okst (match typ (peek (St pv (x :: ydprop p ++ rest))) with
        | T_DOT => do (f, s) <- pdfield fok (next (St pv (x :: ydprop p ++ rest))); POK (DProp f, s)
        | T_LEFT_BRACE => pdbackend fok (next (St pv (x :: ydprop p ++ rest)))
        | _ => err_peek E_unexpected (St pv (x :: ydprop p ++ rest))
        end) p (lastt (ydprop p) :: rest).
Proof.
  intros Hp. destruct p as [[dot key eq v semi]|lb fs rb].
  - destruct Hp as [Hd [Hk [He [Hv Hs]]]]. cbn [ydprop ydfield app]. rewrite <- app_assoc. cbn [app].
    change (typ (peek (St pv (x :: dot :: key :: eq :: yexpr v ++ semi :: rest)))) with (typ dot). rewrite Hd. rewrite next_cons.
    destruct (pdfield_rt dot key eq v semi (Some x) rest Hk He Hv Hs) as [pv1 E1]. rewrite E1. cbn [pbind].
    replace (lastt (dot :: key :: eq :: yexpr v ++ [semi])) with semi.
    + eexists. reflexivity.
    + symmetry. apply (lastt_suffix1 _ (dot :: key :: eq :: yexpr v)). reflexivity.
  - destruct Hp as [Hlb [Hfs Hrb]]. cbn [ydprop app]. rewrite <- app_assoc. cbn [app].
    change (typ (peek (St pv (x :: lb :: flat_map ydfield fs ++ rb :: rest)))) with (typ lb). rewrite Hlb. rewrite next_cons.
    unfold pdbackend.
    match goal with |- context [pdfields fok ?n _ []] => set (n0 := n) end.
    destruct (pdfields_rt fs n0 (Some x) lb rb rest [] Hfs Hrb) as [pv1 E1].
    { subst n0. unfold toks. cbn [length]. rewrite !app_length. pose proof (flat_map_len_ge ydfield fs ydfield_ne). cbn [length]. lia. }
    rewrite E1. cbn [pbind rev app]. rewrite next_cons, !cur_cons.
    replace (lastt (lb :: flat_map ydfield fs ++ [rb])) with rb.
    + eexists. reflexivity.
    + symmetry. apply (lastt_suffix1 _ (lb :: flat_map ydfield fs)). reflexivity.
Qed.

Lemma ydprop_hd p : cdprop p -> typ (hdt (ydprop p)) <> T_RIGHT_BRACE.
Proof.
  destruct p as [[dot key eq v semi]|lb fs rb]; cbn.
  - intros [H _]. rewrite H. discriminate.
  - intros [H _]. rewrite H. discriminate.
Qed.

Lemma pdprops_rt : forall ps n pv x rb rest acc,
  Forall cdprop ps -> typ rb = T_RIGHT_BRACE -> length ps < n ->
  okst (pdprops fok n (St pv (x :: flat_map ydprop ps ++ rb :: rest)) acc)
       (rev acc ++ ps) (lastt (x :: flat_map ydprop ps) :: rb :: rest).
Proof.
  induction ps as [|p ps IH]; intros n pv x rb rest acc Hc Hrb Hn.
  - destruct n; [simpl in Hn; lia|]. cbn [pdprops flat_map app]. rewrite peek_is_cons, Hrb, ttype_eqb_refl.
    rewrite app_nil_r. eexists. reflexivity.
  - destruct n; [simpl in Hn; lia|]. inversion Hc as [|? ? Hp Hps]; subst.
    cbn [pdprops flat_map]. rewrite <- app_assoc.
    rewrite peek_is_app by apply ydprop_ne.
    pose proof (ydprop_hd p Hp) as Hh. apply ttype_eqb_neq in Hh. rewrite Hh.
    destruct (pdprop_step p pv x (flat_map ydprop ps ++ rb :: rest) Hp) as [pv1 E1]. rewrite E1. cbn [pbind].
    destruct (IH n pv1 (lastt (ydprop p)) rb rest (p :: acc) Hps Hrb ltac:(simpl in Hn; lia)) as [pv2 E2].
    rewrite E2. exists pv2. cbn [rev]. rewrite <- app_assoc. cbn [app].
    rewrite (lastt_x_app x (ydprop p) (flat_map ydprop ps)) by apply ydprop_ne. reflexivity.
Qed.

Lemma pdirector_rt kw name ty lb ps rb pv rest :
  typ name = T_IDENT -> typ ty = T_IDENT -> typ lb = T_LEFT_BRACE -> Forall cdprop ps -> typ rb = T_RIGHT_BRACE ->
  okst (pdirector fok (St pv (kw :: name :: ty :: lb :: flat_map ydprop ps ++ rb :: rest)))
       (DDirector kw name ty lb ps rb) (rb :: rest).
Proof.
  intros Hn Hty Hlb Hps Hrb. unfold pdirector.
  rewrite (expect_cons _ _ _ _ _ Hn). cbn [pbind]. rewrite (expect_cons _ _ _ _ _ Hty). cbn [pbind].
  rewrite (expect_cons _ _ _ _ _ Hlb). cbn [pbind].
  match goal with |- context [pdprops fok ?n _ []] => set (n0 := n) end.
  destruct (pdprops_rt ps n0 (Some ty) lb rb rest [] Hps Hrb) as [pv1 E1].
  { subst n0. unfold toks. cbn [length]. rewrite !app_length. pose proof (flat_map_len_ge ydprop ps ydprop_ne). cbn [length]. lia. }
  rewrite E1. cbn [pbind rev app]. rewrite next_cons, !cur_cons. eexists. reflexivity.
Qed.

End P.
