(* C20 - the character classes of the lexer model, characterised ONCE by arithmetic.
   Model/Lex.v defines the classes by expressions regenerated from lexer.go (Gen/LexClasses.v);
   Proofs/LexTables.v (char_classes_documented) proves them equal to the documented classes of
   Model/LexSpec.v for every rune.  The C20 proofs use only the equations below (tactic cls), so a
   regeneration that changes the shape of the generated expressions does not touch them. *)
From Coq Require Import List NArith Bool Lia ZifyBool ZifyN.
From Falco Require Import Base.Res Base.Bytes Base.Utf8 Gen.Tokens Model.Lex Model.LexSpec Proofs.LexTables.
Local Open Scope N_scope.

Lemma is_letter_spec r : is_letter r = ((97 <=? r) && (r <=? 122)) || ((65 <=? r) && (r <=? 90)) || (r =? 95).
Proof. destruct (char_classes_documented r) as (H & _). rewrite H. reflexivity. Qed.
Lemma is_decimal_spec r : is_decimal r = (48 <=? r) && (r <=? 57).
Proof. destruct (char_classes_documented r) as (_ & H & _). rewrite H. reflexivity. Qed.
Lemma is_digit_spec r : is_digit r = ((48 <=? r) && (r <=? 57)) || (r =? 46).
Proof. destruct (char_classes_documented r) as (_ & _ & H & _). rewrite H. reflexivity. Qed.
Lemma is_hex_spec r : is_hex r = ((48 <=? r) && (r <=? 57)) || ((97 <=? r) && (r <=? 102)) || ((65 <=? r) && (r <=? 70)).
Proof. destruct (char_classes_documented r) as (_ & _ & _ & H & _). rewrite H. reflexivity. Qed.
Lemma is_delim_spec r : is_delim r =
  (((97 <=? r) && (r <=? 122)) || ((65 <=? r) && (r <=? 90)) || (r =? 95)) || ((48 <=? r) && (r <=? 57)).
Proof. destruct (char_classes_documented r) as (_ & _ & _ & _ & H & _). rewrite H. reflexivity. Qed.
Lemma is_space_spec r : is_space r = (r =? 32) || (r =? 9) || (r =? 13).
Proof. destruct (char_classes_documented r) as (_ & _ & _ & _ & _ & H & _). rewrite H. reflexivity. Qed.
Lemma in_string_spec r : in_string r = negb (r =? 34) && negb (r =? 0).
Proof. destruct (char_classes_documented r) as (_ & _ & _ & _ & _ & _ & H & _). rewrite H. reflexivity. Qed.
Lemma is_ident_cont_spec r : is_ident_cont r =
  (r =? 45) || (r =? 46) || (r =? 58) || (r =? 42) || ((48 <=? r) && (r <=? 57)).
Proof. destruct (char_classes_documented r) as (_ & _ & _ & _ & _ & _ & _ & H). rewrite H. reflexivity. Qed.

(* rewrite every class test in the goal / in a hypothesis into arithmetic *)
Ltac cls :=
  rewrite ?is_letter_spec, ?is_decimal_spec, ?is_digit_spec, ?is_hex_spec, ?is_delim_spec, ?is_space_spec,
          ?in_string_spec, ?is_ident_cont_spec.
Tactic Notation "cls" "in" hyp(H) :=
  rewrite ?is_letter_spec, ?is_decimal_spec, ?is_digit_spec, ?is_hex_spec, ?is_delim_spec, ?is_space_spec,
          ?in_string_spec, ?is_ident_cont_spec in H.
