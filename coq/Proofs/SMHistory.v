(* C06: what a request can and cannot add to the cache, and the lookup of a request that follows
   any history. *)
From Coq Require Import List ZArith NArith Bool Arith Lia Setoid.
From Falco Require Import Base.Res Base.SMBase Gen.SMConst Model.SM Model.SMDoc Proofs.SMBasics
  Proofs.SMCache Proofs.SMReport.
Import ListNotations.

Definition has (k : key) (c : cache) : bool := match cache_find k c with Some _ => true | None => false end.

Lemma has_remove k k' c : has k (cache_remove k' c) = true -> has k c = true.
Proof.
  unfold has. induction c as [|[k0 it] c IH]; cbn [cache_remove cache_find]; [auto|].
  destruct (N.eqb k' k0) eqn:E1.
  - intros H. destruct (N.eqb k k0); [reflexivity|apply IH; exact H].
  - cbn [cache_find]. destruct (N.eqb k k0); [reflexivity|exact IH].
Qed.

Lemma has_store k k' it c : has k (cache_store k' it c) = true -> k = k' \/ has k c = true.
Proof.
  unfold has, cache_store. cbn [cache_find]. destruct (N.eqb k k') eqn:E.
  - left. apply N.eqb_eq. exact E.
  - right. apply has_remove with (k' := k'). exact H.
Qed.

Lemma has_find k c it : cache_find k c = Some it -> has k c = true.
Proof. unfold has. intros ->. reflexivity. Qed.

Lemma has_get now k0 c r c' k : cache_get now k0 c = (r, c') -> has k c' = true -> has k c = true.
Proof.
  unfold cache_get. destruct (cache_find k0 c) as [it|] eqn:E.
  - destruct (expires it <? now)%Z; intros H; inversion H; subst; intros Hk.
    + eapply has_remove; eauto.
    + apply has_store in Hk. destruct Hk as [->|Hk]; [eapply has_find; eauto|exact Hk].
  - intros H; inversion H; subst; auto.
Qed.

Lemma has_retime k0 d c k : has k (cache_retime k0 d c) = true -> has k c = true.
Proof.
  unfold cache_retime. destruct (cache_find k0 c) as [it|] eqn:E; [|auto].
  intros Hk. apply has_store in Hk. destruct Hk as [->|Hk]; [eapply has_find; eauto|exact Hk].
Qed.

Definition is_miss (e : event) : bool := match fst (fst e) with DMiss => true | _ => false end.

(* a request that never runs vcl_miss (it passes, errors out, or hits) inserts no object *)
Section NoInsert.
  Variable p0 : persistent.
  Definition KI (n : node) (c : ctx) (p : persistent) : Prop :=
    existsb is_miss (c_trace c) = false ->
    (forall k, has k (p_cache p) = true -> has k (p_cache p0) = true) /\ (n = NFetch -> c_pass c = true).
  Definition KF (c : ctx) (p : persistent) (_ : bool) : Prop :=
    existsb is_miss (c_trace c) = false -> forall k, has k (p_cache p) = true -> has k (p_cache p0) = true.

  Lemma step_noinsert orc q n c p c' p' nx :
    KI n c p -> step orc q n c p = (c', p', nx) ->
    match nx with Goto n' => KI n' c' p' | Done => KF c' p' false | Fail => KF c' p' true end.
  Proof.
    intros Hi H. unfold KI, KF in *.
    destruct n; step_cases H; psimpl;
      cbn [existsb is_miss fst orb] in *; intros Hm; try discriminate Hm;
      destruct (Hi Hm) as (H1 & H2);
      try (rewrite (H2 eq_refl) in *; cbn [negb andb] in *);
      try match goal with E : false = true |- _ => discriminate E end;
      repeat match goal with
      | E : run_ops _ _ _ = _ |- _ => apply run_ops_cache in E
      end;
      try match goal with |- _ /\ _ => split; [|intros; try discriminate; try reflexivity] end;
      try (intros k Hk; apply H1;
           repeat match goal with
           | E : p_cache ?x = p_cache _ |- _ => rewrite <- E
           end;
           first [ exact Hk
                 | match goal with E : cache_get _ _ _ = _ |- _ => exact (has_get _ _ _ _ _ _ E Hk) end
                 | exact (has_retime _ _ _ _ Hk) ]).
  Qed.
End NoInsert.

Lemma no_miss_no_new_keys orc p q rep p' :
  run_request orc p q = OK (rep, p') -> existsb is_miss (r_trace rep) = false ->
  forall k, has k (p_cache p') = true -> has k (p_cache p) = true.
Proof.
  unfold run_request. destruct (run sm_fuel orc q NRecv ctx0 p) as [[[c p1] e]| | |] eqn:E; try discriminate.
  intros H; inversion H; subst; cbn [r_trace]. rewrite existsb_rev.
  assert (HF : KF p c p' e).
  { apply (run_inv (KI p) (KF p) orc q (step_noinsert p orc q)) with (2 := E).
    unfold KI. cbn. intros _. split; [auto|discriminate]. }
  exact HF.
Qed.

(* ---- the first lookup of a request that follows ANY history ---- *)
Lemma step_trace_suffix orc q n c p c' p' nx :
  step orc q n c p = (c', p', nx) -> exists l, c_trace c' = l ++ c_trace c.
Proof.
  intros Hs. destruct n; step_cases Hs; psimpl;
    first [ exists (@nil event); reflexivity
          | eexists (cons _ nil); reflexivity
          | eexists (cons _ (cons _ nil)); reflexivity ].
Qed.

Lemma run_trace_suffix orc q fuel n c p c' p' e :
  run fuel orc q n c p = OK (c', p', e) -> exists l, c_trace c' = l ++ c_trace c.
Proof.
  intros Hr.
  apply (run_inv (fun _ c1 _ => exists l, c_trace c1 = l ++ c_trace c)
                 (fun c1 _ _ => exists l, c_trace c1 = l ++ c_trace c) orc q) with (3 := Hr).
  - intros n0 c0 p0 c1 p1 nx [l Hl] Hs.
    destruct (step_trace_suffix _ _ _ _ _ _ _ _ Hs) as [l' Hl'].
    assert (exists l2, c_trace c1 = l2 ++ c_trace c) by (exists (l' ++ l); rewrite Hl', Hl, app_assoc; reflexivity).
    destruct nx; assumption.
  - exists []. reflexivity.
Qed.

Definition looks_up_first (orc : oracle) : Prop :=
  (orc Recv 0 = ANone \/ orc Recv 0 = AAbsent \/ orc Recv 0 = ARet SLookup) /\
  (orc Hash 0 = ANone \/ orc Hash 0 = AAbsent \/ orc Hash 0 = ARet SHash).

Lemma nth2_rev (l : list event) a b x : nth_error (rev (l ++ [x; b; a])) 2 = Some x.
Proof. rewrite rev_app_distr. reflexivity. Qed.

Lemma first_lookup_hit_iff_stored orc p q r p2 :
  run_request orc p q = OK (r, p2) -> looks_up_first orc ->
  (nth_error (r_trace r) 2 = Some (DHit, 0, orc Hit 0) <->
   stored_fresh (q_now q) (q_hash q 0) (p_cache p) = true).
Proof.
  intros Hr [Hrecv Hhash]. unfold run_request in Hr.
  assert (Hf : sm_fuel = S (S 26)) by reflexivity. rewrite Hf in Hr.
  rewrite run_S in Hr.
  destruct (step orc q NRecv ctx0 p) as [[c1 p1] nx] eqn:E1.
  assert (Hstep := E1). cbn [step] in E1.
  assert (Htr : (nx = Goto NHit \/ nx = Goto NMiss) /\ c_trace c1 = [(DHashL, 0, orc Hash 0); (DRecv, 0, orc Recv 0)] /\
                c_restarts c1 = 0).
  { unfold process_recv, process_hash, call, run_sub in E1. cbn [scope_of] in E1.
    destruct (run_ops (q_now q) (q_ops q (c_restarts ctx0)) p) as [px obs].
    psimpl. cbn [ctx0 c_restarts c_trace] in E1.
    destruct Hrecv as [Ha|[Ha|Ha]], Hhash as [Hb|[Hb|Hb]]; rewrite Ha, Hb in E1; cbn [negb] in E1;
      destruct (cache_get (q_now q) (q_hash q 0) (p_cache px)) as [[it|] cch];
      inversion E1; subst; psimpl; cbn [ctx0 c_trace c_restarts]; rewrite ?Ha, ?Hb; auto. }
  destruct Htr as (Hnx & Htr & Hr0).
  pose proof (recv_lookup orc q ctx0 p c1 p1) as Hlk. cbn [c_restarts ctx0] in Hlk.
  destruct Hnx as [-> | ->].
  - (* vcl_hit *)
    specialize (Hlk NHit E1 (or_introl eq_refl)).
    rewrite run_S in Hr. destruct (step orc q NHit c1 p1) as [[c2 p2'] nx2] eqn:E2.
    assert (Ht2 : c_trace c2 = (DHit, 0, orc Hit 0) :: c_trace c1).
    { cbn [step] in E2. unfold process_hit, call in E2. cbn [scope_of] in E2. rewrite Hr0 in E2.
      unfold do_restart in E2. dmatch E2; inversion E2; subst; psimpl; rewrite ?Hr0; reflexivity. }
    assert (Hfin : exists cf l, c_trace cf = l ++ c_trace c2 /\ r_trace r = rev (c_trace cf)).
    { destruct nx2.
      - destruct (run 26 orc q n c2 p2') as [[[cf pf] ef]| | |] eqn:E3; try discriminate.
        destruct (run_trace_suffix _ _ _ _ _ _ _ _ _ E3) as [l Hl]. exists cf, l. inversion Hr; subst. auto.
      - exists c2, []. inversion Hr; subst. auto.
      - exists c2, []. inversion Hr; subst. auto. }
    destruct Hfin as (cf & l & Hl & Hrt). rewrite Hrt, Hl, Ht2, Htr.
    change (l ++ [(DHit, 0, orc Hit 0); (DHashL, 0, orc Hash 0); (DRecv, 0, orc Recv 0)])
      with (l ++ [(DHit, 0, orc Hit 0); (DHashL, 0, orc Hash 0); (DRecv, 0, orc Recv 0)]).
    rewrite nth2_rev. split; [intros _; apply Hlk; reflexivity | reflexivity].
  - (* vcl_miss: the third entry, if any, is vcl_miss *)
    specialize (Hlk NMiss E1 (or_intror eq_refl)).
    assert (Hns : stored_fresh (q_now q) (q_hash q 0) (p_cache p) <> true).
    { intros Hx. apply Hlk in Hx. discriminate. }
    split; [|intros Hx; exfalso; exact (Hns Hx)].
    intros Hn. exfalso.
    rewrite run_S in Hr. destruct (step orc q NMiss c1 p1) as [[c2 p2'] nx2] eqn:E2.
    assert (Ht2 : c_trace c2 = c_trace c1 \/ c_trace c2 = (DMiss, 0, orc Miss 0) :: c_trace c1).
    { cbn [step] in E2. unfold process_miss, call in E2. cbn [scope_of] in E2. rewrite Hr0 in E2.
      dmatch E2; inversion E2; subst; psimpl; rewrite ?Hr0; auto. }
    assert (Hfin : exists cf l, c_trace cf = l ++ c_trace c2 /\ r_trace r = rev (c_trace cf) /\
                               (c_trace c2 = c_trace c1 -> l = [])).
    { destruct nx2.
      - destruct (run 26 orc q n c2 p2') as [[[cf pf] ef]| | |] eqn:E3; try discriminate.
        destruct (run_trace_suffix _ _ _ _ _ _ _ _ _ E3) as [l Hl]. exists cf, l. inversion Hr; subst.
        split; [exact Hl|]. split; [reflexivity|]. intros Hsame. exfalso.
        (* vcl_miss continues only after it has left its flow entry *)
        cbn [step] in E2. unfold process_miss, call in E2. cbn [scope_of] in E2.
        dmatch E2; inversion E2; subst; psimpl; cbn [c_trace] in Hsame;
          apply (f_equal (@length _)) in Hsame; cbn [length] in Hsame; lia.
      - exists c2, []. inversion Hr; subst. auto.
      - exists c2, []. inversion Hr; subst. auto. }
    destruct Hfin as (cf & l & Hl & Hrt & Hempty). rewrite Hrt, Hl in Hn.
    destruct Ht2 as [Ht2|Ht2].
    + rewrite (Hempty Ht2), Ht2, Htr in Hn. cbn in Hn. discriminate.
    + rewrite Ht2, Htr in Hn. rewrite nth2_rev in Hn. discriminate.
Qed.

(* ... after any history: the state the lookup consults is the one the history left (persist) *)
Lemma history_hit_iff_stored h p rs p1 orc q r p2 :
  run_history h p = OK (rs, p1) -> run_request orc p1 q = OK (r, p2) -> looks_up_first orc ->
  (nth_error (r_trace r) 2 = Some (DHit, 0, orc Hit 0) <->
   stored_fresh (q_now q) (q_hash q 0) (p_cache p1) = true).
Proof. intros _ Hr Hl. exact (first_lookup_hit_iff_stored orc p1 q r p2 Hr Hl). Qed.
