(* C20 - the lexer model of C01 (Model/Lex.v) on the text the templates produce: a byte-level
   cursor invariant and, for each kind of token the generated VCL contains, the exact result of
   NextToken (type, literal, Offset) and the cursor afterwards.  Positions are not tracked: the
   parser model receives (type, literal, Offset) only (Model/LexParse.v conv). *)
From Coq Require Import List NArith Bool Lia Arith ZifyBool ZifyN ZifyNat.
From Coq Require Import Strings.Byte.
From Falco Require Import Base.Res Base.Bytes Base.Utf8 Proofs.Utf8Proofs Gen.Tokens Model.Lex
  Proofs.LexProgress Proofs.C20Classes.
From Falco Require Proofs.EscapeProofs.
Import ListNotations.
Local Open Scope N_scope.

(* the lexer is about to read text [s]: the first rune is under the cursor *)
Definition at_bytes (st : lexer) (s : list byte) : Prop :=
  peeks st = [] /\ iseof st = false /\
  match s with
  | [] => ch st = 0 /\ rest st = []
  | _ :: _ => ch st = fst (dec_rune s) /\ rest st = skipn (snd (dec_rune s)) s
  end.

Definition ascii (b : byte) : Prop := b2n b < 128.

Lemma dec_rune_ascii b t : ascii b -> dec_rune (b :: t) = (b2n b, 1%nat).
Proof. intros H. unfold ascii in H. cbn [dec_rune]. replace (b2n b <? 128) with true by lia. reflexivity. Qed.

Lemma ab_ascii st b t : at_bytes st (b :: t) -> ascii b -> ch st = b2n b /\ rest st = t.
Proof. intros (_ & _ & H1 & H2) Ha. rewrite (dec_rune_ascii b t Ha) in *. auto. Qed.

Lemma ab_make st s : peeks st = [] -> iseof st = false ->
  match s with [] => ch st = 0 /\ rest st = [] | _ :: _ => ch st = fst (dec_rune s) /\ rest st = skipn (snd (dec_rune s)) s end ->
  at_bytes st s.
Proof. intros; repeat split; assumption. Qed.

(* read_char moves the cursor to the text behind the current rune *)
Lemma read_char_to st t : peeks st = [] -> iseof st = false -> rest st = t -> at_bytes (read_char st) t.
Proof.
  intros Hp He Hr. unfold read_char. rewrite Hr. destruct t as [|b t'].
  - repeat split; assumption.
  - destruct (dec_rune (b :: t')) as [r sz] eqn:D. unfold at_bytes. cbn [peeks iseof ch rest].
    rewrite D. cbn [fst snd]. auto.
Qed.

Lemma ab_read_ascii st b t : at_bytes st (b :: t) -> ascii b -> at_bytes (read_char st) t.
Proof.
  intros H Ha. destruct (ab_ascii st b t H Ha) as [_ Hr]. destruct H as (Hp & He & _).
  apply read_char_to; assumption.
Qed.

Lemma skipn_app_len' {A} (a b : list A) : skipn (length a) (a ++ b) = b.
Proof. induction a as [|x a IH]; [reflexivity | exact IH]. Qed.

Lemma enc_rune_ne r : enc_rune r <> [].
Proof. pose proof (enc_rune_len r). destruct (enc_rune r); [simpl in *; lia | discriminate]. Qed.

Lemma ab_rune st r t : at_bytes st (enc_rune r ++ t) -> valid_scalar r = true ->
  ch st = r /\ rest st = t.
Proof.
  intros (_ & _ & H) Hv. destruct (enc_rune r ++ t) as [|b l] eqn:E.
  - exfalso. apply (enc_rune_ne r). destruct (enc_rune r); [reflexivity | discriminate].
  - rewrite <- E in H. rewrite (dec_enc_rune r t Hv) in H. cbn [fst snd] in H.
    rewrite skipn_app_len' in H. exact H.
Qed.

Lemma ab_read_rune st r t : at_bytes st (enc_rune r ++ t) -> valid_scalar r = true -> at_bytes (read_char st) t.
Proof.
  intros H Hv. destruct (ab_rune st r t H Hv) as [_ Hr]. destruct H as (Hp & He & _).
  apply read_char_to; assumption.
Qed.

Lemma ab_nil_ch st : at_bytes st [] -> ch st = 0.
Proof. intros (_ & _ & H & _). exact H. Qed.

(* fuel: nu st <= length of the text *)
Lemma ab_nu st s : at_bytes st s -> (nu st <= length s)%nat.
Proof.
  intros (_ & _ & H). unfold nu. destruct s as [|b t].
  - destruct H as [H1 H2]. rewrite H1, H2. simpl. lia.
  - destruct H as [_ H2]. rewrite H2. rewrite skipn_length.
    pose proof (dec_rune_size (b :: t) _ _ (surjective_pairing _)).
    destruct (ch st =? 0); simpl length in *; lia.
Qed.

(* ---- read_while over a known prefix ---- *)
(* runes of an ASCII text *)
Lemma read_while_ascii p : nz p -> forall l n st t,
  at_bytes st (l ++ t) -> Forall ascii l -> forallb (fun b => p (b2n b)) l = true ->
  (match t with [] => True | b :: _ => ascii b /\ p (b2n b) = false end) ->
  (length (l ++ t) < n)%nat ->
  exists st', read_while p n st = OK (map b2n l, st') /\ at_bytes st' t.
Proof.
  intros Hp. induction l as [|b l IH]; intros n st t Hab Ha Hl Ht Hn.
  - destruct n; [simpl in Hn; lia|]. cbn [read_while app map].
    assert (Hc : p (ch st) = false).
    { simpl app in Hab. destruct t as [|c t'].
      - rewrite (ab_nil_ch st Hab). destruct (p 0) eqn:E; [exfalso; exact (Hp 0 E eq_refl) | reflexivity].
      - destruct Ht as [Hac Hpc]. destruct (ab_ascii st c t' Hab Hac) as [-> _]. exact Hpc. }
    rewrite Hc. exists st. split; [reflexivity | exact Hab].
  - destruct n; [simpl in Hn; lia|]. inversion Ha as [|? ? Hb Ha']; subst.
    simpl in Hl. apply andb_true_iff in Hl. destruct Hl as [Hpb Hl].
    cbn [app] in Hab. destruct (ab_ascii st b (l ++ t) Hab Hb) as [Hch _].
    cbn [read_while]. rewrite Hch, Hpb.
    destruct (IH n (read_char st) t (ab_read_ascii st b _ Hab Hb) Ha' Hl Ht) as (st' & R & Hab').
    { simpl in Hn. lia. }
    rewrite R. exists st'. split; [reflexivity | exact Hab'].
Qed.

(* runes of an encoded rune list (string bodies) *)
Lemma read_while_runes p : nz p -> forall qs n st t,
  at_bytes st (enc_all qs ++ t) -> forallb valid_scalar qs = true -> forallb p qs = true ->
  (match t with [] => True | b :: _ => ascii b /\ p (b2n b) = false end) ->
  (length (enc_all qs ++ t) < n)%nat ->
  exists st', read_while p n st = OK (qs, st') /\ at_bytes st' t.
Proof.
  intros Hp. induction qs as [|q qs IH]; intros n st t Hab Hv Hl Ht Hn.
  - destruct n; [simpl in Hn; lia|]. cbn [read_while].
    assert (Hc : p (ch st) = false).
    { simpl in Hab. destruct t as [|c t'].
      - rewrite (ab_nil_ch st Hab). destruct (p 0) eqn:E; [exfalso; exact (Hp 0 E eq_refl) | reflexivity].
      - destruct Ht as [Hac Hpc]. destruct (ab_ascii st c t' Hab Hac) as [-> _]. exact Hpc. }
    rewrite Hc. exists st. split; [reflexivity | exact Hab].
  - destruct n; [simpl in Hn; lia|].
    simpl in Hv, Hl. apply andb_true_iff in Hv. destruct Hv as [Hvq Hv]. apply andb_true_iff in Hl. destruct Hl as [Hpq Hl].
    change (enc_all (q :: qs)) with (enc_rune q ++ enc_all qs) in *. rewrite <- app_assoc in Hab.
    destruct (ab_rune st q _ Hab Hvq) as [Hch _].
    cbn [read_while]. rewrite Hch, Hpq.
    destruct (IH n (read_char st) t (ab_read_rune st q _ Hab Hvq) Hv Hl Ht) as (st' & R & Hab').
    { rewrite <- app_assoc, app_length in Hn. pose proof (enc_rune_len q). lia. }
    rewrite R. exists st'. split; [reflexivity | exact Hab'].
Qed.

(* ---- NextToken on a known segment ---- *)
Definition proj (t : token) : str * str * N := (ttype t, tlit t, toff t).

(* lex_char on [body ++ after] returns a token that satisfies P and leaves the cursor at [after] *)
Definition cstepP (body after : list byte) (P : token -> Prop) : Prop :=
  forall n st, at_bytes st (body ++ after) -> (length (body ++ after) + 2 <= n)%nat ->
    exists tok st', lex_char n st = OK (tok, st') /\ P tok /\ at_bytes st' after.
Definition cstep (body after : list byte) (p : str * str * N) : Prop :=
  cstepP body after (fun tok => proj tok = p).

(* the same for NextToken, blanks before the token included *)
Definition stepP (seg after : list byte) (P : token -> Prop) : Prop :=
  forall n st, at_bytes st (seg ++ after) -> (length (seg ++ after) + 2 <= n)%nat ->
    exists tok st', next_token n st = OK (tok, st') /\ P tok /\ at_bytes st' after.
Definition step (seg after : list byte) (p : str * str * N) : Prop :=
  stepP seg after (fun tok => proj tok = p).

Definition blank (b : byte) : bool := let n := b2n b in (n =? 32) || (n =? 9) || (n =? 13).

Lemma blank_ascii ws : forallb blank ws = true -> Forall ascii ws /\ forallb (fun b => is_space (b2n b)) ws = true.
Proof.
  induction ws as [|b ws IH]; simpl; intros H; [split; [constructor | reflexivity]|].
  apply andb_true_iff in H. destruct H as [Hb Hws]. destruct (IH Hws) as [A B]. split.
  - constructor; [|exact A]. unfold blank in Hb. unfold ascii. lia.
  - rewrite B, andb_true_r. unfold blank in Hb. cls. exact Hb.
Qed.

(* a byte that starts a token: ASCII and not a blank *)
Definition starter (b : byte) : Prop := ascii b /\ is_space (b2n b) = false.

Lemma step_of_cstepP ws body after P :
  forallb blank ws = true ->
  (match body ++ after with [] => True | b :: _ => starter b end) ->
  cstepP body after P -> stepP (ws ++ body) after P.
Proof.
  intros Hws Hst Hc n st Hab Hn. unfold next_token. destruct Hab as (Hp & He & Hrest).
  rewrite Hp. destruct (blank_ascii ws Hws) as [Ha Hs].
  assert (Hab : at_bytes st (ws ++ body ++ after)) by (rewrite <- app_assoc in Hrest; repeat split; assumption).
  destruct (read_while_ascii is_space nz_space ws n st (body ++ after) Hab Ha Hs) as (st1 & R & Hab1).
  { destruct (body ++ after) as [|b t]; [exact I | exact Hst]. }
  { rewrite <- app_assoc in Hn. lia. }
  unfold skip_whitespace. rewrite R. cbn [bind].
  apply Hc; [exact Hab1|]. rewrite <- app_assoc, app_length in Hn. lia.
Qed.

Lemma finish_ascii st b after tok : at_bytes st (b :: after) -> ascii b -> b2n b <> 0 ->
  exists st', finish tok st = OK (tok, st') /\ at_bytes st' after.
Proof.
  intros Hab Ha Hz. destruct (ab_ascii st b after Hab Ha) as [Hch _].
  unfold finish. rewrite Hch. replace (b2n b =? 0) with false by lia.
  eexists. split; [reflexivity|]. apply (ab_read_ascii st b after Hab Ha).
Qed.

(* single-character tokens *)
Ltac single_tac b :=
  let n := fresh "n" in let st := fresh "st" in let Hab := fresh "Hab" in let Hn := fresh "Hn" in
  intros n st Hab Hn; cbn [app] in Hab;
  assert (Ha : ascii b) by (unfold ascii; cbn; lia);
  destruct (ab_ascii st b _ Hab Ha) as [Hch _];
  destruct (finish_ascii st b _ (mkTok [] [] 0 0) Hab Ha ltac:(cbn; lia)) as (st' & _ & Hab');
  unfold lex_char; rewrite Hch; cbn;
  unfold single, finish; rewrite Hch; cbn;
  eexists _, _; split; [reflexivity|]; split; [reflexivity|]; exact (ab_read_ascii st b _ Hab Ha).

Lemma cstep_rbrace after : cstep [x7d] after (T_RIGHT_BRACE, [125], 0).
Proof. single_tac x7d. Qed.
Lemma cstep_colon after : cstep [x3a] after (T_COLON, [58], 0).
Proof. single_tac x3a. Qed.
Lemma cstep_comma after : cstep [x2c] after (T_COMMA, [44], 0).
Proof. single_tac x2c. Qed.
Lemma cstep_semi after : cstep [x3b] after (T_SEMICOLON, [59], 0).
Proof. single_tac x3b. Qed.
Lemma cstep_dot after : cstep [x2e] after (T_DOT, [46], 0).
Proof. single_tac x2e. Qed.
Lemma cstep_lf after : cstep [x0a] after (T_LF, [10], 0).
Proof. single_tac x0a. Qed.

(* peekChar when the text behind the cursor is known *)
Lemma peek_char_at st b c t : at_bytes st (b :: c :: t) -> ascii b -> peek_char st = b2n c.
Proof. intros Hab Ha. destruct (ab_ascii st b _ Hab Ha) as [_ Hr]. unfold peek_char. rewrite Hr. reflexivity. Qed.

Lemma peek_char_end st b : at_bytes st [b] -> ascii b -> peek_char st = 0.
Proof. intros Hab Ha. destruct (ab_ascii st b _ Hab Ha) as [_ Hr]. unfold peek_char. rewrite Hr. reflexivity. Qed.

(* '!' before a string: NOT *)
Lemma cstep_bang t : cstep [x21] (x22 :: t) (T_NOT, [33], 0).
Proof.
  intros n st Hab Hn. cbn [app] in Hab.
  assert (Ha : ascii x21) by (unfold ascii; cbn; lia).
  destruct (ab_ascii st x21 _ Hab Ha) as [Hch _].
  pose proof (peek_char_at st x21 x22 t Hab Ha) as Hpk.
  unfold lex_char. rewrite Hch. cbn. unfold lex_bang. rewrite Hpk. cbn.
  unfold single, finish. rewrite Hch. cbn.
  eexists _, _. split; [reflexivity|]. split; [reflexivity|]. exact (ab_read_ascii st x21 _ Hab Ha).
Qed.

(* '/' before a digit: SLASH *)
Lemma cstep_slash d t : is_decimal (b2n d) = true -> cstep [x2f] (d :: t) (T_SLASH, [47], 0).
Proof.
  intros Hd n st Hab Hn. cbn [app] in Hab.
  assert (Ha : ascii x2f) by (unfold ascii; cbn; lia).
  destruct (ab_ascii st x2f _ Hab Ha) as [Hch _].
  pose proof (peek_char_at st x2f d t Hab Ha) as Hpk.
  cls in Hd.
  unfold lex_char. rewrite Hch. cbn. unfold lex_slash. rewrite Hpk.
  replace (b2n d =? 61) with false by lia. replace (b2n d =? 47) with false by lia. replace (b2n d =? 42) with false by lia.
  unfold single, finish. rewrite Hch. cbn.
  eexists _, _. split; [reflexivity|]. split; [reflexivity|]. exact (ab_read_ascii st x2f _ Hab Ha).
Qed.

(* '=' and '%' not followed by '=' *)
Lemma cstep_assign c t : b2n c <> 61 -> cstep [x3d] (c :: t) (T_ASSIGN, [61], 0).
Proof.
  intros Hc n st Hab Hn. cbn [app] in Hab.
  assert (Ha : ascii x3d) by (unfold ascii; cbn; lia).
  destruct (ab_ascii st x3d _ Hab Ha) as [Hch _].
  pose proof (peek_char_at st x3d c t Hab Ha) as Hpk.
  unfold lex_char. rewrite Hch. cbn. unfold op_eq. rewrite Hpk. replace (b2n c =? 61) with false by lia.
  unfold finish. rewrite Hch. cbn.
  eexists _, _. split; [reflexivity|]. split; [reflexivity|]. exact (ab_read_ascii st x3d _ Hab Ha).
Qed.

Lemma cstep_percent c t : b2n c <> 61 -> cstep [x25] (c :: t) (T_PERCENT, [37], 0).
Proof.
  intros Hc n st Hab Hn. cbn [app] in Hab.
  assert (Ha : ascii x25) by (unfold ascii; cbn; lia).
  destruct (ab_ascii st x25 _ Hab Ha) as [Hch _].
  pose proof (peek_char_at st x25 c t Hab Ha) as Hpk.
  unfold lex_char. rewrite Hch. cbn. unfold op_eq. rewrite Hpk. replace (b2n c =? 61) with false by lia.
  unfold finish. rewrite Hch. cbn.
  eexists _, _. split; [reflexivity|]. split; [reflexivity|]. exact (ab_read_ascii st x25 _ Hab Ha).
Qed.

(* a left brace that does not open a long string: the next byte is no delimiter character and no quote *)
Lemma cstep_lbrace c t : is_delim (b2n c) = false -> b2n c <> 34 -> cstep [x7b] (c :: t) (T_LEFT_BRACE, [123], 0).
Proof.
  intros Hd Hq n st Hab Hn. cbn [app] in Hab.
  assert (Ha : ascii x7b) by (unfold ascii; cbn; lia).
  destruct (ab_ascii st x7b _ Hab Ha) as [Hch Hr].
  unfold lex_char. rewrite Hch. cbn. unfold lex_brace, peek_until. rewrite Hr.
  change bufsize with (S (pred bufsize)). cbn [scan_delim]. rewrite Hd.
  unfold last_byte. cbn [rev app]. replace (b2n c =? 34) with false by lia. cbn [negb].
  unfold finish. rewrite Hch. cbn.
  eexists _, _. split; [reflexivity|]. split; [reflexivity|]. exact (ab_read_ascii st x7b _ Hab Ha).
Qed.

(* a double-quoted string whose body has no quote and no NUL *)
Definition body_ok (q : rune) : bool := valid_scalar q && in_string q.

Lemma cstep_string qs after :
  forallb body_ok qs = true ->
  cstep (x22 :: enc_all qs ++ [x22]) after (T_STRING, qs, 2).
Proof.
  intros Hq n st Hab Hn.
  assert (Hv : forallb valid_scalar qs = true /\ forallb in_string qs = true).
  { clear - Hq. induction qs as [|q qs IH]; [split; reflexivity|]. simpl in *.
    apply andb_true_iff in Hq. destruct Hq as [Hq Hqs]. unfold body_ok in Hq. apply andb_true_iff in Hq.
    destruct Hq as [A B]. destruct (IH Hqs) as [C D]. rewrite A, B, C, D. split; reflexivity. }
  destruct Hv as [Hv Hs].
  assert (Ha : ascii x22) by (unfold ascii; cbn; lia).
  cbn [app] in Hab. rewrite <- app_assoc in Hab. cbn [app] in Hab.
  destruct (ab_ascii st x22 _ Hab Ha) as [Hch _].
  unfold lex_char. rewrite Hch. cbn. unfold read_string.
  destruct (read_while_runes in_string nz_in_string qs n (read_char st) (x22 :: after)) as (st1 & R & Hab1).
  - exact (ab_read_ascii st x22 _ Hab Ha).
  - exact Hv.
  - exact Hs.
  - split; [exact Ha | reflexivity].
  - cbn [app length] in Hn. rewrite <- app_assoc in Hn. cbn [app] in Hn. lia.
  - rewrite R. cbn [bind].
    destruct (finish_ascii st1 x22 after (mkTokO T_STRING qs (line st) (idx st) 2) Hab1 Ha ltac:(cbn; lia)) as (st' & F & Hab').
    rewrite F. eexists _, _. split; [reflexivity|]. split; [reflexivity | exact Hab'].
Qed.

(* the end of the input: EOF *)
Lemma next_token_eof n st : at_bytes st [] -> (2 <= n)%nat ->
  exists e st', next_token n st = OK (e, st') /\ is_eof e = true.
Proof.
  intros (Hp & He & Hc & Hr) Hn. unfold next_token. rewrite Hp.
  destruct n; [lia|]. unfold skip_whitespace. cbn [read_while]. rewrite Hc. cbn. 
  unfold lex_char. rewrite Hc. cbn. unfold lex_eof. rewrite He.
  eexists _, _. split; [reflexivity | reflexivity].
Qed.

(* ---- identifiers made of letters, underscores and decimal digits ---- *)
Definition letterb (b : byte) : bool := is_letter (b2n b).
Definition digitb (b : byte) : bool := is_decimal (b2n b).
(* what continues an identifier behind its leading letters: digits and - . : * *)
Definition contb (b : byte) : bool := is_ident_cont (b2n b).
Definition idchar (b : byte) : bool := letterb b || contb b.

Lemma idchar_ascii b : idchar b = true -> ascii b.
Proof. unfold idchar, letterb, contb, ascii; cls. lia. Qed.

Fixpoint spanb (p : byte -> bool) (s : list byte) : list byte * list byte :=
  match s with
  | [] => ([], [])
  | c :: t => if p c then let (a, b) := spanb p t in (c :: a, b) else ([], s)
  end.

Lemma spanb_spec p s : s = fst (spanb p s) ++ snd (spanb p s) /\ forallb p (fst (spanb p s)) = true /\
  match snd (spanb p s) with [] => True | c :: _ => p c = false end.
Proof.
  induction s as [|c t IH]; simpl; [auto|].
  destruct (p c) eqn:E.
  - destruct (spanb p t) as [a b]. simpl in *. destruct IH as (A & B & C). repeat split; [congruence | rewrite E, B; reflexivity | exact C].
  - simpl. auto.
Qed.

Lemma spanb_len p s : (length (snd (spanb p s)) <= length s)%nat.
Proof. induction s as [|c t IH]; simpl; [lia|]. destruct (p c); [destruct (spanb p t); simpl in *; lia | simpl; lia]. Qed.

(* what may follow an identifier: nothing, or an ASCII byte that is neither a letter nor one of - . : * digit *)
Definition id_end (after : list byte) : Prop :=
  match after with
  | [] => True
  | b :: _ => ascii b /\ is_letter (b2n b) = false /\ is_ident_cont (b2n b) = false /\ b2n b <> 33 /\ b2n b <> 61
  end.

Lemma forall_idchar_ascii l : forallb idchar l = true -> Forall ascii l.
Proof.
  induction l as [|b l IH]; simpl; intros H; [constructor|].
  apply andb_true_iff in H. destruct H as [Hb Hl]. constructor; [apply idchar_ascii; exact Hb | exact (IH Hl)].
Qed.

Lemma forallb_app_inv {A} (p : A -> bool) a b : forallb p (a ++ b) = true -> forallb p a = true /\ forallb p b = true.
Proof. rewrite forallb_app. intros H. apply andb_true_iff in H. exact H. Qed.

(* read_identifier takes the letters in front *)
Lemma read_identifier_span name after n st :
  at_bytes st (name ++ after) -> forallb idchar name = true -> id_end after ->
  (length (name ++ after) < n)%nat ->
  exists st', read_identifier n st = OK (map b2n (fst (spanb letterb name)), st') /\
              at_bytes st' (snd (spanb letterb name) ++ after).
Proof.
  intros Hab Hid He Hn. destruct (spanb_spec letterb name) as (Hsp & Hl & Hr).
  set (L := fst (spanb letterb name)) in *. set (R := snd (spanb letterb name)) in *.
  assert (HidL : forallb idchar L = true /\ forallb idchar R = true) by (apply forallb_app_inv; rewrite <- Hsp; exact Hid).
  unfold read_identifier. apply (read_while_ascii is_letter nz_letter L n st (R ++ after)).
  - rewrite app_assoc, <- Hsp. exact Hab.
  - apply forall_idchar_ascii. tauto.
  - exact Hl.
  - destruct R as [|c R'].
    + simpl. destruct after as [|b t]; [exact I|]. destruct He as (A & B & _). split; assumption.
    + simpl. destruct HidL as [_ HR]. simpl in HR. apply andb_true_iff in HR. destruct HR as [Hc _].
      split; [apply idchar_ascii; exact Hc | exact Hr].
  - rewrite app_assoc, <- Hsp. exact Hn.
Qed.

(* ident_more takes the rest: groups of a continuation character followed by letters *)
Lemma ident_more_spec : forall k name after n st,
  (length name <= k)%nat ->
  at_bytes st (name ++ after) -> forallb idchar name = true ->
  (match name with [] => True | c :: _ => letterb c = false end) -> id_end after ->
  (length (name ++ after) < n)%nat ->
  exists st', ident_more n st = OK (map b2n name, st') /\ at_bytes st' after.
Proof.
  induction k as [|k IH]; intros name after n st Hk Hab Hid Hhd He Hn.
  - destruct name; [|simpl in Hk; lia]. destruct n; [simpl in Hn; lia|]. cbn [ident_more app map] in *.
    assert (Hc : is_ident_cont (ch st) = false).
    { destruct after as [|b t]; [rewrite (ab_nil_ch st Hab); reflexivity|].
      destruct He as (A & _ & C & _). destruct (ab_ascii st b t Hab A) as [-> _]. exact C. }
    rewrite Hc. exists st. split; [reflexivity | exact Hab].
  - destruct name as [|d rest].
    + apply (IH [] after n st); simpl; auto; lia.
    + destruct n; [simpl in Hn; lia|].
      simpl in Hid. apply andb_true_iff in Hid. destruct Hid as [Hd Hrest].
      assert (Hcont : is_ident_cont (b2n d) = true) by (unfold idchar in Hd; rewrite Hhd in Hd; exact Hd).
      assert (Hda : ascii d) by (apply idchar_ascii; exact Hd).
      cbn [app] in Hab. destruct (ab_ascii st d _ Hab Hda) as [Hch _].
      cbn [ident_more]. rewrite Hch.
      rewrite Hcont.
      destruct (read_identifier_span rest after n (read_char st) (ab_read_ascii st d _ Hab Hda) Hrest He) as (st1 & R1 & Hab1).
      { simpl in Hn. lia. }
      rewrite R1. cbn [bind].
      destruct (spanb_spec letterb rest) as (Hsp & Hl & Hr).
      set (L := fst (spanb letterb rest)) in *. set (R := snd (spanb letterb rest)) in *.
      assert (HidR : forallb idchar R = true) by (apply (forallb_app_inv idchar L R); rewrite <- Hsp; exact Hrest).
      assert (HkR : (length R <= k)%nat) by (pose proof (spanb_len letterb rest); unfold R; simpl in Hk; lia).
      assert (HhdR : match R with [] => True | c :: _ => letterb c = false end) by (destruct R; [exact I | exact Hr]).
      assert (HnR : (length (R ++ after) < n)%nat).
      { assert (length (R ++ after) <= length (rest ++ after))%nat by (replace (rest ++ after) with (L ++ R ++ after) by (rewrite app_assoc, <- Hsp; reflexivity); rewrite !app_length; lia).
        simpl in Hn. lia. }
      destruct (IH R after n st1 HkR Hab1 HidR HhdR He HnR) as (st2 & R2 & Hab2).
      rewrite R2. cbn [bind]. exists st2. split; [|exact Hab2].
      cbn [map]. f_equal. rewrite <- map_app, <- Hsp. reflexivity.
Qed.

(* an identifier / keyword: starts with a letter, its leading letters are not `default` *)
Definition name_ok (name : list byte) : bool :=
  forallb idchar name && match name with c :: _ => letterb c | [] => false end &&
  negb (str_eqb (map b2n (fst (spanb letterb name))) L_default).

Lemma str_eqb_app_nil_false a b : str_eqb a b = true -> a = b.
Proof.
  revert b. induction a as [|x a IH]; destruct b as [|y b]; simpl; intros H; try discriminate; [reflexivity|].
  apply andb_true_iff in H. destruct H as [H1 H2]. apply N.eqb_eq in H1. f_equal; auto.
Qed.

Lemma cstep_ident name after :
  name_ok name = true -> id_end after ->
  cstep name after (lookup_ident (map b2n name), map b2n name, 0).
Proof.
  intros Hok He n st Hab Hn. unfold name_ok in Hok.
  apply andb_true_iff in Hok. destruct Hok as [Hok Hdef]. apply andb_true_iff in Hok. destruct Hok as [Hid Hfirst].
  apply negb_true_iff in Hdef.
  destruct name as [|c name']; [discriminate|].
  assert (Hca : ascii c) by (apply idchar_ascii; simpl in Hid; apply andb_true_iff in Hid; tauto).
  assert (Hab0 : at_bytes st (c :: name' ++ after)) by exact Hab.
  destruct (ab_ascii st c _ Hab0 Hca) as [Hch Hrest].
  assert (Hlet : is_letter (ch st) = true) by (rewrite Hch; exact Hfirst).
  assert (Hpk : (peek_char st =? 33) = false).
  { unfold peek_char. rewrite Hrest. destruct name' as [|x nm].
    - simpl. destruct after as [|b t]; [reflexivity|]. destruct He as (_ & _ & _ & H33 & _). apply N.eqb_neq. exact H33.
    - simpl. simpl in Hid. apply andb_true_iff in Hid. destruct Hid as [_ Hid].
      apply andb_true_iff in Hid. destruct Hid as [Hx _].
      unfold idchar, letterb, contb in Hx; cls in Hx. lia. }
  assert (Hlc : lex_char n st = lex_ident n st (line st) (idx st)).
  { unfold lex_char, lex_default. rewrite Hlet, Hpk, andb_false_r.
    cls in Hlet.
    repeat match goal with |- context [ch st =? ?k] =>
      replace (ch st =? k) with false by lia end.
    reflexivity. }
  rewrite Hlc. unfold lex_ident.
  destruct (read_identifier_span (c :: name') after n st Hab Hid He) as (st1 & R1 & Hab1); [lia|].
  rewrite R1. cbn [bind]. rewrite Hdef.
  destruct (spanb_spec letterb (c :: name')) as (Hsp & Hl & Hr).
  assert (HidR : forallb idchar (snd (spanb letterb (c :: name'))) = true).
  { apply (forallb_app_inv idchar (fst (spanb letterb (c :: name')))). rewrite <- Hsp. exact Hid. }
  assert (HnR : (length (snd (spanb letterb (c :: name')) ++ after) < n)%nat).
  { pose proof (spanb_len letterb (c :: name')). rewrite !app_length in *. lia. }
  destruct (ident_more_spec _ _ after n st1 (le_n _) Hab1 HidR) as (st2 & R2 & Hab2).
  { destruct (snd (spanb letterb (c :: name'))); [exact I | exact Hr]. }
  { exact He. }
  { exact HnR. }
  rewrite R2. cbn [bind].
  rewrite <- map_app, <- Hsp.
  assert (Hne : (ch st2 =? 61) = false).
  { destruct after as [|b t]; [rewrite (ab_nil_ch st2 Hab2); reflexivity|].
    destruct He as (A & _ & _ & _ & H61). destruct (ab_ascii st2 b t Hab2 A) as [-> _]. apply N.eqb_neq. exact H61. }
  rewrite Hne, !andb_false_r.
  eexists _, _. split; [reflexivity|]. split; [reflexivity | exact Hab2].
Qed.

(* ---- decimal integers ---- *)
Definition int_end (after : list byte) : Prop :=
  match after with
  | [] => True
  | b :: _ => ascii b /\ is_decimal (b2n b) = false /\
              ~ In (b2n b) [46; 101; 120; 88; 109; 115; 104; 100; 121]
  end.

Lemma forall_digit_ascii l : forallb digitb l = true -> Forall ascii l.
Proof.
  induction l as [|b l IH]; simpl; intros H; [constructor|].
  apply andb_true_iff in H. destruct H as [Hb Hl]. constructor; [|exact (IH Hl)].
  unfold digitb in Hb; cls in Hb. unfold ascii. lia.
Qed.

Lemma cstep_int digits after :
  digits <> [] -> forallb digitb digits = true -> int_end after ->
  cstep digits after (T_INT, map b2n digits, 0).
Proof.
  intros Hne Hd He n st Hab Hn.
  destruct digits as [|d ds]; [congruence|].
  pose proof (forall_digit_ascii _ Hd) as Hasc. inversion Hasc as [|? ? Hda Hdsa]; subst.
  assert (Hab0 : at_bytes st (d :: ds ++ after)) by exact Hab.
  destruct (ab_ascii st d _ Hab0 Hda) as [Hch Hrest].
  pose proof Hd as Hd'. simpl in Hd'. apply andb_true_iff in Hd'. destruct Hd' as [Hdd Hds].
  assert (Hdec : is_decimal (ch st) = true) by (rewrite Hch; exact Hdd).
  (* the end test of int_end as boolean facts about the head of [after] / the end of input *)
  assert (Hend : forall st', at_bytes st' after ->
            is_decimal (ch st') = false /\ ~ In (ch st') [46; 101; 120; 88; 109; 115; 104; 100; 121]).
  { intros st' Hab'. destruct after as [|b t].
    - rewrite (ab_nil_ch st' Hab'). split; [reflexivity|]. cbn. intros H. repeat (destruct H as [H|H]; [discriminate H|]). exact H.
    - destruct He as (A & B & C). destruct (ab_ascii st' b t Hab' A) as [-> _]. auto. }
  assert (Hlc : lex_char n st = lex_number n st (line st) (idx st)).
  { unfold lex_char, lex_default. cls in Hdec.
    assert (Hl : is_letter (ch st) = false) by (cls; lia).
    assert (Hdg : is_digit (ch st) = true) by (cls; lia).
    rewrite Hl, Hdg.
    replace ((ch st =? 67) || (ch st =? 87)) with false by lia. cbn [andb].
    repeat match goal with |- context [ch st =? ?k] => replace (ch st =? k) with false by lia end.
    reflexivity. }
  rewrite Hlc. unfold lex_number, read_number.
  (* not a hexadecimal literal: the byte after a leading 0 is a digit or the byte that ends the number *)
  assert (Hpk : ((peek_char st =? 120) || (peek_char st =? 88)) = false).
  { unfold peek_char. rewrite Hrest. destruct ds as [|x ds'].
    - simpl. destruct after as [|b t]; [reflexivity|]. destruct He as (_ & _ & C).
      apply orb_false_iff. split; apply N.eqb_neq; intros E; apply C; rewrite E; cbn; tauto.
    - simpl. simpl in Hds. apply andb_true_iff in Hds. destruct Hds as [Hx _].
      unfold digitb in Hx; cls in Hx. lia. }
  rewrite Hpk, andb_false_r. unfold read_mantissa.
  destruct (read_while_ascii is_decimal nz_decimal (d :: ds) n st after Hab Hasc Hd) as (st1 & R & Hab1).
  { destruct after as [|b t]; [exact I|]. destruct He as (A & B & _). split; assumption. }
  { lia. }
  rewrite R. cbn [bind].
  destruct (Hend st1 Hab1) as [Hnd Hnin].
  replace (ch st1 =? 46) with false by (symmetry; apply N.eqb_neq; intros E; apply Hnin; rewrite E; cbn; tauto).
  cbn [bind].
  replace (ch st1 =? 101) with false by (symmetry; apply N.eqb_neq; intros E; apply Hnin; rewrite E; cbn; tauto).
  cbn [bind negb andb].
  replace (ch st1 =? 109) with false by (symmetry; apply N.eqb_neq; intros E; apply Hnin; rewrite E; cbn; tauto).
  replace (ch st1 =? 115) with false by (symmetry; apply N.eqb_neq; intros E; apply Hnin; rewrite E; cbn; tauto).
  replace (ch st1 =? 104) with false by (symmetry; apply N.eqb_neq; intros E; apply Hnin; rewrite E; cbn; tauto).
  replace (ch st1 =? 100) with false by (symmetry; apply N.eqb_neq; intros E; apply Hnin; rewrite E; cbn; tauto).
  replace (ch st1 =? 121) with false by (symmetry; apply N.eqb_neq; intros E; apply Hnin; rewrite E; cbn; tauto).
  cbn [orb andb]. rewrite app_nil_r.
  eexists _, _. split; [reflexivity|]. split; [reflexivity | exact Hab1].
Qed.

Lemma step_of_cstep ws body after p :
  forallb blank ws = true ->
  (match body ++ after with [] => True | b :: _ => starter b end) ->
  cstep body after p -> step (ws ++ body) after p.
Proof. apply step_of_cstepP. Qed.

(* ---- a line comment: '#' and any text without LF / NUL, up to the line feed ---- *)
Definition com_ok (r : rune) : bool := valid_scalar r && negb (r =? 0) && negb (r =? 10).

Lemma com_ok_head r t : com_ok r = true -> exists b l, enc_rune r ++ t = b :: l /\ b2n b <> 0 /\ b2n b <> 10.
Proof.
  unfold com_ok. intros H. apply andb_true_iff in H. destruct H as [H H10]. apply andb_true_iff in H. destruct H as [Hv H0].
  destruct (r <? 128) eqn:E.
  - rewrite EscapeProofs.enc_rune_low by lia. eexists _, _. split; [reflexivity|]. rewrite b2n_n2b_small by lia. lia.
  - pose proof (EscapeProofs.enc_rune_high r Hv ltac:(lia)) as Hh. destruct (enc_rune r) as [|b l] eqn:Er.
    + exfalso. exact (enc_rune_ne r Er).
    + simpl in Hh. apply andb_true_iff in Hh. destruct Hh as [Hb _]. unfold EscapeProofs.high in Hb.
      eexists _, _. split; [reflexivity|]. lia.
Qed.

Lemma read_eol_runes : forall rs r n st t,
  at_bytes st (enc_all (r :: rs) ++ x0a :: t) -> forallb com_ok (r :: rs) = true ->
  (length (enc_all (r :: rs)) < n)%nat ->
  exists l st' q, read_eol n st = OK (l, st') /\ com_ok q = true /\ at_bytes st' (enc_rune q ++ x0a :: t).
Proof.
  induction rs as [|r2 rs IH]; intros r n st t Hab Hok Hn.
  - destruct n; [simpl in Hn; lia|]. simpl in Hok. rewrite andb_true_r in Hok.
    assert (Hv : valid_scalar r = true) by (unfold com_ok in Hok; apply andb_true_iff in Hok; destruct Hok as [H _]; apply andb_true_iff in H; tauto).
    unfold enc_all in Hab. cbn [flat_map] in Hab. rewrite app_nil_r in Hab.
    destruct (ab_rune st r _ Hab Hv) as [_ Hr].
    cbn [read_eol]. unfold peek_char. rewrite Hr. cbn. 
    exists [ch st], st, r. split; [reflexivity|]. split; [exact Hok | exact Hab].
  - destruct n; [simpl in Hn; lia|].
    pose proof Hok as Hok'. simpl in Hok'. apply andb_true_iff in Hok'. destruct Hok' as [Hr1 Hrest].
    assert (Hv : valid_scalar r = true) by (unfold com_ok in Hr1; apply andb_true_iff in Hr1; destruct Hr1 as [H _]; apply andb_true_iff in H; tauto).
    change (enc_all (r :: r2 :: rs)) with (enc_rune r ++ enc_all (r2 :: rs)) in *. rewrite <- app_assoc in Hab.
    destruct (ab_rune st r _ Hab Hv) as [_ Hr].
    pose proof Hrest as Hr2. simpl in Hr2. apply andb_true_iff in Hr2. destruct Hr2 as [Hr2 _].
    change (enc_all (r2 :: rs)) with (enc_rune r2 ++ enc_all rs) in Hr. rewrite <- app_assoc in Hr.
    destruct (com_ok_head r2 (enc_all rs ++ x0a :: t) Hr2) as (b & l & Hbl & Hb0 & Hb10).
    cbn [read_eol]. unfold peek_char. rewrite Hr, Hbl.
    replace (b2n b =? 0) with false by lia. replace (b2n b =? 10) with false by lia. cbn [orb].
    destruct (IH r2 n (read_char st) t) as (l1 & st1 & q & R & Hq & Hab1).
    + exact (ab_read_rune st r _ Hab Hv).
    + exact Hrest.
    + rewrite app_length in Hn. pose proof (enc_rune_len r). lia.
    + rewrite R. exists (ch st :: l1), st1, q. split; [reflexivity|]. split; assumption.
Qed.

Lemma cstep_comment rs t :
  forallb com_ok rs = true ->
  cstepP (x23 :: enc_all rs) (x0a :: t) (fun tok => ttype tok = T_COMMENT).
Proof.
  intros Hok n st Hab Hn. cbn [app] in Hab.
  assert (Ha : ascii x23) by (unfold ascii; cbn; lia).
  destruct (ab_ascii st x23 _ Hab Ha) as [Hch _].
  unfold lex_char. rewrite Hch. cbn.
  assert (H35 : enc_rune 35 = [x23]) by reflexivity.
  destruct (read_eol_runes rs 35 n st t) as (l & st1 & q & R & Hq & Hab1).
  - change (enc_all (35 :: rs)) with (enc_rune 35 ++ enc_all rs). rewrite H35. exact Hab.
  - simpl. rewrite Hok. reflexivity.
  - change (enc_all (35 :: rs)) with (enc_rune 35 ++ enc_all rs). rewrite H35. simpl in Hn. rewrite app_length in Hn. simpl. lia.
  - rewrite R. cbn [bind]. unfold finish.
    assert (Hv : valid_scalar q = true /\ q <> 0).
    { unfold com_ok in Hq. apply andb_true_iff in Hq. destruct Hq as [H _]. apply andb_true_iff in H. destruct H as [A B]. split; [exact A | lia]. }
    destruct Hv as [Hv Hz]. destruct (ab_rune st1 q _ Hab1 Hv) as [Hc1 _]. rewrite Hc1.
    replace (q =? 0) with false by lia.
    eexists _, _. split; [reflexivity|]. split; [reflexivity|]. exact (ab_read_rune st1 q _ Hab1 Hv).
Qed.
