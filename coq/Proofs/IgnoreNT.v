(* ignore_exact for a falco-ignore-next-line comment before a node and a trailing falco-ignore
   comment on a statement: the node-level simulation and the whole-program theorems. *)
From Coq Require Import List Bool Arith Lia.
From Falco Require Import Base.Bytes Model.Ignore Model.IgnoreSpec Proofs.IgnoreBasics Proofs.IgnoreSim
  Proofs.IgnoreExact.
Import ListNotations.

Lemma fold_pres {A} (R : A -> A -> Prop) (h : A -> list byte -> A) :
  (forall a a' x, R a a' -> R (h a x) (h a' x)) ->
  forall l a a', R a a' -> R (fold_left h l a) (fold_left h l a').
Proof. intros H l. induction l as [|x l IH]; intros a a' Ha; cbn; auto. Qed.

Lemma fold_insert_rel {A} (R : A -> A -> Prop) (h : A -> list byte -> A) c :
  (forall a, R a (h a c)) -> (forall a a' x, R a a' -> R (h a x) (h a' x)) ->
  forall k l a, R (fold_left h l a) (fold_left h (insert_at k c l) a).
Proof.
  intros H1 H2. induction k as [|k IH]; intros l a.
  - cbn. apply fold_pres; auto.
  - destruct l as [|y l]; cbn; auto.
Qed.

Lemma fold_insert_noop {A} (h : A -> list byte -> A) c :
  (forall a, h a c = a) -> forall k l a, fold_left h (insert_at k c l) a = fold_left h l a.
Proof.
  intros H. induction k as [|k IH]; intros l a.
  - cbn. rewrite H. reflexivity.
  - destruct l as [|y l]; cbn; auto.
Qed.

Lemma false_HXG : false = false -> forall r : rule, (fun _ : rule => false) r = false.
Proof. reflexivity. Qed.

Lemma relG_refl a : relG (fun _ => false) false a a.
Proof. split; auto. intros r. rewrite orb_false_r. reflexivity. Qed.

(* ------------------------------------------------------------------ next-line *)
Lemma node_next_line n k c L p (F : diag -> bool) :
  parse_ignore_comment c = Some (NextLine, L) ->
  (forall p' r, is_prefix p p' = true -> F (p', r) = negb (named L r)) ->
  forall s qv qp,
  sim_eq F (run (add_leading k c n) p s (filter F qv) (filter F qp)) (run n p s qv qp).
Proof.
  intros Hc HF s qv qp. destruct n as [w m fl pre lsub lprog kids]. cbn [add_leading].
  set (m' := {| leading := insert_at k c (leading m); trailing := trailing m; infix := infix m |}).
  rewrite !run_node. cbn zeta.
  set (XN := named L). set (X0 := fun _ : rule => false).
  assert (HF' : forall p' r, is_prefix p p' = true -> F (p', r) = negb (X XN X0 X0 r)).
  { intros p' r H. rewrite (HF p' r H). unfold X, X0, XN. rewrite !orb_false_r. reflexivity. }
  assert (HR1 : Rel XN X0 X0 false (setup w m s) (setup w m' s)).
  { unfold Rel. rewrite !nl_setup, !tl_setup, !rg_setup. subst m'. cbn [leading trailing].
    split; [|split].
    - apply (fold_insert_rel (relN XN) nl_lead c).
      + intros a r. unfold nl_lead. rewrite Hc. apply den_ignore.
      + intros a a' x. apply relN_lead.
    - replace (tl_setup_of w {| leading := insert_at k c (leading m); trailing := trailing m; infix := infix m |} (tl s))
        with (tl_setup_of w m (tl s)) by (destruct w; reflexivity).
      intros r. unfold X0. rewrite orb_false_r. reflexivity.
    - rewrite fold_insert_noop.
      + apply relG_refl.
      + intros a. unfold rg_lead. rewrite Hc. reflexivity. }
  assert (HK : Forall (inside_stmt XN X0 X0 false F) kids).
  { apply Forall_forall. intros x _. apply inside_node. exact false_HXG. }
  assert (Hrf : false = true -> forallb range_free kids = true) by discriminate.
  destruct (inside_inner XN X0 X0 false F fl pre lsub lprog kids p _ _ qv qp HK HF' HR1 Hrf) as (A & B & C & D).
  cbn zeta in A, B, C, D. unfold sim_eq. rproj. repeat split; auto.
  destruct (teardown_restores w m _ _ _ _ (inner_stack w m fl pre lsub lprog kids p s qv qp)) as (E1 & E2 & E3).
  destruct (teardown_restores w m' _ _ _ _ (inner_stack w m' fl pre lsub lprog kids p s (filter F qv) (filter F qp))) as (E1' & E2' & E3').
  apply istate_eq; try congruence.
  rewrite !rg_teardown. destruct A as (_ & _ & _ & Hrg). rewrite (Hrg eq_refl).
  destruct w; reflexivity.
Qed.

(* ------------------------------------------------------------------ this-line *)
Lemma node_this_line n k c L p (F : diag -> bool) :
  node_wrap n = WStmt ->
  parse_ignore_comment c = Some (ThisLine, L) ->
  (forall p' r, is_prefix p p' = true -> F (p', r) = negb (named L r)) ->
  forall s qv qp,
  sim_eq F (run (add_trailing k c n) p s (filter F qv) (filter F qp)) (run n p s qv qp).
Proof.
  intros Hw Hc HF s qv qp. destruct n as [w m fl pre lsub lprog kids]. cbn in Hw. subst w. cbn [add_trailing].
  set (m' := {| leading := leading m; trailing := insert_at k c (trailing m); infix := infix m |}).
  rewrite !run_node. cbn zeta.
  set (XT := named L). set (X0 := fun _ : rule => false).
  assert (HF' : forall p' r, is_prefix p p' = true -> F (p', r) = negb (X X0 XT X0 r)).
  { intros p' r H. rewrite (HF p' r H). unfold X, X0, XT. rewrite !orb_false_r. reflexivity. }
  assert (HR1 : Rel X0 XT X0 false (setup WStmt m s) (setup WStmt m' s)).
  { unfold Rel. rewrite !nl_setup, !tl_setup, !rg_setup. subst m'. cbn [leading trailing tl_setup_of].
    split; [|split].
    - intros r. unfold X0. rewrite orb_false_r. reflexivity.
    - apply (fold_insert_rel (relT XT) tl_trail c).
      + intros a r. unfold tl_trail. rewrite Hc. apply den_ignore.
      + intros a a' x. apply relT_trail.
    - apply relG_refl. }
  assert (HK : Forall (inside_stmt X0 XT X0 false F) kids).
  { apply Forall_forall. intros x _. apply inside_node. exact false_HXG. }
  assert (Hrf : false = true -> forallb range_free kids = true) by discriminate.
  destruct (inside_inner X0 XT X0 false F fl pre lsub lprog kids p _ _ qv qp HK HF' HR1 Hrf) as (A & B & C & D).
  cbn zeta in A, B, C, D. unfold sim_eq. rproj. repeat split; auto.
  destruct (teardown_restores WStmt m _ _ _ _ (inner_stack WStmt m fl pre lsub lprog kids p s qv qp)) as (E1 & E2 & E3).
  destruct (teardown_restores WStmt m' _ _ _ _ (inner_stack WStmt m' fl pre lsub lprog kids p s (filter F qv) (filter F qp))) as (E1' & E2' & E3').
  apply istate_eq; try congruence.
  rewrite !rg_teardown. destruct A as (_ & _ & _ & Hrg). rewrite (Hrg eq_refl). reflexivity.
Qed.

(* ------------------------------------------------------------------ whole programs *)

Theorem ignore_exact_next_line t P0 n0 k c L :
  get_prog P0 t = Some n0 ->
  parse_ignore_comment c = Some (NextLine, L) ->
  report (upd_prog P0 (add_leading k c) t) = filter (fun d => negb (covers P0 L d)) (report t).
Proof.
  intros Hget Hc. destruct P0 as [|i rest]; [discriminate|].
  apply (path_report _ (i :: rest) (add_leading k c) n0 (fun _ => True) (fun _ => true)) with (i := i) (rest := rest); auto.
  - intros q r H. unfold covers. cbn [fst snd]. rewrite H. reflexivity.
  - intros s qv qp _. apply (node_next_line n0 k c L); auto.
    intros p' r H. unfold covers. cbn [fst snd]. rewrite H. reflexivity.
  - intros. clear. induction kids; cbn; auto.
  - clear. induction t; cbn; auto.
Qed.

Theorem ignore_exact_this_line t P0 n0 k c L :
  get_prog P0 t = Some n0 -> node_wrap n0 = WStmt ->
  parse_ignore_comment c = Some (ThisLine, L) ->
  report (upd_prog P0 (add_trailing k c) t) = filter (fun d => negb (covers P0 L d)) (report t).
Proof.
  intros Hget Hw Hc. destruct P0 as [|i rest]; [discriminate|].
  apply (path_report _ (i :: rest) (add_trailing k c) n0 (fun _ => True) (fun _ => true)) with (i := i) (rest := rest); auto.
  - intros q r H. unfold covers. cbn [fst snd]. rewrite H. reflexivity.
  - intros s qv qp _. apply (node_this_line n0 k c L); auto.
    intros p' r H. unfold covers. cbn [fst snd]. rewrite H. reflexivity.
  - intros. clear. induction kids; cbn; auto.
  - clear. induction t; cbn; auto.
Qed.

(* the leakage invariant, for any subtree, any entry state *)
Theorem ignore_restores n p s qv qp :
  let s' := r_st (run n p s qv qp) in
  nl s' = nl s /\ tl s' = tl s /\ stack s' = stack s.
Proof. apply run_restores. Qed.

(* ... and at the level of one setup / teardown pair, whatever happens in between as long as the
   statements in between restore the stack *)
Theorem setup_teardown_restores w m s s2 :
  stack s2 = stack (setup w m s) ->
  nl (teardown w m s2) = nl s /\ tl (teardown w m s2) = tl s /\ stack (teardown w m s2) = stack s.
Proof. intros H. rewrite setup_stack in H. apply teardown_restores. exact H. Qed.
