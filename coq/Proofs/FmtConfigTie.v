(* T tie: the option record of the token model against config.FormatConfig as it is NOW
   (Gen/FmtConfig.v is regenerated from config/config.go and formatter/*.go on every run). *)
From Coq Require Import List Bool NArith Strings.String.
From Falco Require Import Gen.FmtConfig Model.FmtTok.
Import ListNotations.
Local Open Scope string_scope.

(* the model has one field per yaml option, with the same name, Go type and default *)
Lemma fmt_config_fields_tie : fmt_fields = model_fields.
Proof. reflexivity. Qed.

(* the defaults written in the struct tags are the values of [default_config] *)
Definition show_bool (b : bool) : string := if b then "true" else "false".
Definition show_n (n : N) : string :=
  match n with 0%N => "0" | 1%N => "1" | 2%N => "2" | 120%N => "120" | _ => "?" end.
Definition field_value (c : fmt_config) (name : string) : string :=
  if String.eqb name "indent_width" then show_n (indent_width c)
  else if String.eqb name "trailing_comment_width" then show_n (trailing_comment_width c)
  else if String.eqb name "indent_style" then match indent_style c with ISpace => "space" | ITab => "tab" end
  else if String.eqb name "line_width" then match line_width c with Some n => show_n n | None => "-1" end
  else if String.eqb name "explicit_string_concat" then show_bool (explicit_string_concat c)
  else if String.eqb name "sort_declaration_property" then show_bool (sort_declaration_property c)
  else if String.eqb name "align_declaration_property" then show_bool (align_declaration_property c)
  else if String.eqb name "else_if" then show_bool (else_if c)
  else if String.eqb name "always_next_line_else_if" then show_bool (always_next_line_else_if c)
  else if String.eqb name "return_statement_parenthesis" then show_bool (return_statement_parenthesis c)
  else if String.eqb name "sort_declaration" then show_bool (sort_declaration c)
  else if String.eqb name "align_trailing_comment" then show_bool (align_trailing_comment c)
  else if String.eqb name "comment_style" then match comment_style c with CNone => "none" | CSharp => "sharp" | CSlash => "slash" end
  else if String.eqb name "should_use_unset" then show_bool (should_use_unset c)
  else if String.eqb name "indent_case_labels" then show_bool (indent_case_labels c)
  else if String.eqb name "break_compound_conditions" then show_bool (break_compound_conditions c)
  else "<no such field>".

Lemma fmt_config_defaults_tie :
  forall n ty d, In (n, ty, d) fmt_fields -> field_value default_config n = d.
Proof.
  assert (H : forallb (fun x => String.eqb (field_value default_config (fst (fst x))) (snd x)) fmt_fields = true)
    by (vm_compute; reflexivity).
  intros n ty d Hin. rewrite forallb_forall in H. specialize (H _ Hin). simpl in H.
  apply String.eqb_eq in H. exact H.
Qed.

(* shape fact: the options the formatter package reads.  The token model gives a meaning to
   [token_options]; every other option the formatter reads is layout only ([layout_options]);
   a formatter that starts reading another field changes this list. *)
Definition token_options : list string :=
  ["CommentStyle"; "ElseIf"; "ExplicitStringConcat"; "ReturnStatementParenthesis"; "ShouldUseUnset";
   "SortDeclaration"; "SortDeclarationProperty"].
Definition layout_options : list string :=
  ["AlignDeclarationProperty"; "AlignTrailingComment"; "AlwaysNextLineElseIf"; "BreakCompoundConditions";
   "IndentCaseLabels"; "IndentStyle"; "IndentWidth"; "LineWidth"; "TrailingCommentWidth"].

Lemma fmt_conf_reads_tie :
  fmt_conf_reads =
  ["AlignDeclarationProperty"; "AlignTrailingComment"; "AlwaysNextLineElseIf"; "BreakCompoundConditions";
   "CommentStyle"; "ElseIf"; "ExplicitStringConcat"; "IndentCaseLabels"; "IndentStyle"; "IndentWidth";
   "LineWidth"; "ReturnStatementParenthesis"; "ShouldUseUnset"; "SortDeclaration"; "SortDeclarationProperty";
   "TrailingCommentWidth"]
  /\ (forall f, In f fmt_conf_reads <-> In f token_options \/ In f layout_options)
  /\ (forall f, In f fmt_conf_reads -> In f fmt_go_fields).
Proof.
  split; [reflexivity|]. split.
  - intros f. unfold fmt_conf_reads, token_options, layout_options. simpl. tauto.
  - intros f. unfold fmt_conf_reads, fmt_go_fields. simpl. tauto.
Qed.
