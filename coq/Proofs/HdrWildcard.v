(* C17 - wildcard unset (unset of a name that ends in a star): after it every header whose name starts with the
   prefix (letters compared without case) reads as not set, every other read is unchanged, and
   the spelling of the prefix does not matter. *)
From Coq Require Import List NArith Bool Lia PeanoNat.
From Coq Require Import Strings.Byte.
From Falco Require Import Base.Bytes Model.HdrField Model.Hdr Model.HdrSpec Proofs.HdrStore.
Import ListNotations.

Lemma cut_star_app p : cut_star (p ++ [c_star]) = Some p.
Proof. unfold cut_star. rewrite rev_app_distr. cbn [rev app]. rewrite rev_involutive. reflexivity. Qed.

Definition wild (p : bytes) : bytes := p ++ [c_star].

Definition after_wild (st : hstate) (p : bytes) : hstate :=
  {| hmap := filter (fun kv => negb (is_prefix p (fst kv))) (hmap st);
     akeys := filter (fun k => negb (is_prefix p k)) (akeys st) |}.

Lemma step_wild kd st p : protected (wild p) = false -> step kd st (OUnset (wild p)) = (after_wild st p, OOk).
Proof. intros H. cbn [step]. unfold h_unset. rewrite H. unfold wild. rewrite cut_star_app. reflexivity. Qed.

(* get after wildcard unset = not set: whole header and every sub-field, any spelling of the name *)
Theorem wildcard_unset_notset kd st p name n key f :
  protected (wild p) = false -> cut_colon name = (n, key, f) -> is_prefix p (canon n) = true ->
  h_get kd (fst (step kd st (OUnset (wild p)))) name = Some RNotSet /\ snd (step kd st (OUnset (wild p))) = OOk.
Proof.
  intros Hp Hc Hpre. rewrite (step_wild kd st p Hp). cbn [fst snd]. split; [|reflexivity].
  unfold h_get. rewrite Hc. unfold header_get, is_assigned, after_wild. cbn [hmap akeys].
  rewrite map_get_filter_prefix, mem_filter_prefix, Hpre. cbn [is_nil negb]. rewrite orb_true_r. reflexivity.
Qed.

(* frame: a name outside the prefix reads what it read before *)
Theorem wildcard_unset_frame kd st p name n key f :
  protected (wild p) = false -> cut_colon name = (n, key, f) -> is_prefix p (canon n) = false ->
  h_get kd (fst (step kd st (OUnset (wild p)))) name = h_get kd st name.
Proof.
  intros Hp Hc Hpre. rewrite (step_wild kd st p Hp). cbn [fst].
  unfold h_get. rewrite Hc. unfold header_get, header_lines, is_assigned, after_wild. cbn [hmap akeys].
  rewrite map_get_filter_prefix, mem_filter_prefix, Hpre. reflexivity.
Qed.

(* the spelling of the prefix does not matter *)
Lemma is_prefix_fold p q : map lower p = map lower q -> forall s, is_prefix p s = is_prefix q s.
Proof.
  revert q. induction p as [|x p IH]; destruct q as [|y q]; intros H s; try discriminate; [reflexivity|].
  simpl in H. injection H as Hxy Hpq. destruct s as [|c s]; [reflexivity|].
  cbn [is_prefix]. rewrite Hxy, (IH q Hpq s). reflexivity.
Qed.

Theorem wildcard_unset_case kd st p q :
  map lower p = map lower q -> protected (wild p) = false -> protected (wild q) = false ->
  step kd st (OUnset (wild p)) = step kd st (OUnset (wild q)).
Proof.
  intros H Hp Hq. rewrite (step_wild kd st p Hp), (step_wild kd st q Hq). unfold after_wild.
  f_equal. f_equal; apply filter_ext; intros a; rewrite (is_prefix_fold p q H); reflexivity.
Qed.

(* the header store before the repair: the prefix was compared as written and the assigned marks stayed *)
Definition h_unset_wild_old (st : hstate) (p : bytes) : hstate :=
  {| hmap := filter (fun kv => negb ((fix pre (p s : bytes) : bool :=
                                        match p, s with
                                        | [], _ => true
                                        | x :: p', y :: s' => byte_eqb x y && pre p' s'
                                        | _, [] => false
                                        end) p (fst kv))) (hmap st);
     akeys := akeys st |}.

Theorem wildcard_old_refuted :
  exists st p name, header_get st name <> [] /\ is_prefix p (canon name) = true /\
    (h_get KReq (h_unset_wild_old st p) name <> Some RNotSet) /\
    exists st2 p2, is_prefix p2 (canon name) = true /\ header_get st2 name <> [] /\
      header_get (h_unset_wild_old st2 p2) name <> [].
Proof.
  set (nm := [x58; x2d; x41]).
  set (st := fst (step KReq st0 (OSet nm (VStr [x76])))).
  exists st, [x58; x2d], nm.
  split; [vm_compute; discriminate|]. split; [reflexivity|]. split; [vm_compute; discriminate|].
  exists st, [x78; x2d]. split; [reflexivity|]. split; vm_compute; discriminate.
Qed.
