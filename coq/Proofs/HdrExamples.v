(* C17 - concrete witnesses: the hypotheses of the theorems are satisfiable by non-trivial
   histories, the exclusions of fv_ok are needed (refuted statements), and the texts the
   model transcribes are the ones in the repository (T tie). *)
From Coq Require Import List NArith Bool Lia String.
From Coq Require Import Strings.Byte.
From Falco Require Import Base.Bytes Model.HdrField Model.Hdr Model.HdrSpec Gen.HdrTables
  Proofs.HdrBytes Proofs.HdrScan Proofs.HdrItems Proofs.HdrStore Proofs.HdrLaws1 Proofs.HdrLaws2 Proofs.HdrLaws3.
Import ListNotations.
Local Open Scope string_scope.

Definition bs (s : string) : bytes := list_byte_of_string s.

(* ---- T tie: the regular expression and the quoting class transcribed by Model/HdrField.v ---- *)
Definition expected_pattern : bytes :=
  bs "(?i)(?:^|%s)\s*%s(?:(?:\s+)?=(?:\s+)?((?:(?:""(?:(?:\\"")|[^""])+)?"")|(?:(?:[^%s\s]+)?)))?(?:%s|$|\s+)".
Definition expected_class : bytes := bs "[\s=@()\[\]{}?/\\;:'<>,]".

Lemma pattern_pinned : map n2b field_pattern = expected_pattern /\ map n2b quote_class = expected_class.
Proof. split; vm_compute; reflexivity. Qed.

(* every byte the class lists (and every blank) is [special], nothing else below 128 is *)
Lemma special_is_class :
  forall c, special c = is_ws c || existsb (byte_eqb c) (bs "=@()[]{}?/\;:'<>,").
Proof. intros c. destruct c; vm_compute; reflexivity. Qed.

(* ---- a well-formed history with every kind of operation ---- *)
Definition ks_w : list bytes := [bs "a"; bs "bc"; bs "A"; bs "k-1"].
Definition it (lead k : string) (v : ival) : item := {| i_lead := bs lead; i_key := bs k; i_val := v |}.

Definition h_w : list hop :=
  [ HSet (bs "Foo") [it "" "a" (IRaw (bs "1")); it " " "bc" (IQuoted (bs "x y, z")); it "  " "max-age" IBare];
    HSetF (bs "fOO") (bs "A") (VStr (bs "p q,r"));
    HGet (bs "FOO:bc");
    HAdd (bs "X-Bar") [it "" "k-1" (IRaw (bs "v"))];
    HSetF (bs "x-bAR") (bs "bc") (VStr (bs ""));
    HSetF (bs "Vary") (bs "a") VNotSet;
    HUnsetF (bs "foo") (bs "bc");
    HSetNot (bs "VARY");
    HUnset (bs "X-BAR") ].

Example history_witness_ok : forallb (hop_ok ks_w KReq) h_w = true /\ forallb (hop_ok ks_w KResp) h_w = true.
Proof. split; vm_compute; reflexivity. Qed.

(* what that history reads at the end (computed by the concrete model) *)
Example history_witness_reads :
  let st := state_after KResp (map conc h_w) in
  get KResp st (bs "Foo") = ORead (RStr (bs "  max-age,A=""p q,r""")) /\
  get KResp st (bs "foo:a") = ORead (RStr (bs "p q,r")) /\
  get KResp st (bs "foo:bc") = ORead RNotSet /\
  get KResp st (bs "X-Bar") = ORead RNotSet.
Proof. vm_compute. repeat split; reflexivity. Qed.

Example field_get_set_witness :
  hop_ok ks_w KResp (HSetF (bs "Foo") (bs "bc") (VStr (bs "u;v=w"))) = true /\
  eqfold (bs "Foo") (bs "fOo") /\ keq (bs "bc") (bs "bc") = true.
Proof. vm_compute. repeat split; reflexivity. Qed.

Example whole_ok_witness : whole_ok (bs "X-Bar") = true /\ eqfold (bs "X-Bar") (bs "x-bAR").
Proof. vm_compute. split; reflexivity. Qed.

Example op_fold_witness :
  Forall2 op_fold [OSet (bs "Foo:a") (VStr (bs "1")); OAdd (bs "X-Bar") (VStr (bs "2")); OUnset (bs "Foo"); OGet (bs "Vary:k")]
                  [OSet (bs "fOO:a") (VStr (bs "1")); OAdd (bs "x-bAR") (VStr (bs "2")); OUnset (bs "FOO"); OGet (bs "VARY:k")].
Proof.
  repeat constructor; simpl.
  - exists (bs "Foo"), (bs "fOO"), (bs ":a"). repeat split; try reflexivity. right. eexists. reflexivity.
  - exists (bs "Foo"), (bs "FOO"), []. repeat split; try reflexivity. left. reflexivity.
  - exists (bs "Vary"), (bs "VARY"), (bs ":k"). repeat split; try reflexivity. right. eexists. reflexivity.
Qed.

(* ---- the exclusions of fv_ok are needed (recorded findings, see known_findings.txt) ---- *)
(* a value that contains `,b=` inside its quotes makes sub-field b appear *)
Lemma embedded_key_refuted :
  exists kd n k k'' s,
    keq k k'' = false /\ key_ok k = true /\ key_ok k'' = true /\ field_ok kd n k = true /\
    get kd (after kd st0 (OSet (ftarget n k) (VStr s))) (ftarget n k'') <> get kd st0 (ftarget n k'').
Proof.
  exists KResp, (bs "Foo"), (bs "a"), (bs "b"), (bs "x,b=1").
  repeat split; try reflexivity. vm_compute. discriminate.
Qed.

(* a value that ends in a backslash swallows the following sub-field *)
Lemma trailing_backslash_refuted :
  exists kd n k k2 s s2,
    keq k k2 = false /\ field_ok kd n k = true /\ field_ok kd n k2 = true /\
    get kd (after kd (after kd st0 (OSet (ftarget n k) (VStr s))) (OSet (ftarget n k2) (VStr s2))) (ftarget n k)
      <> ORead (RStr s).
Proof.
  exists KResp, (bs "Foo"), (bs "a"), (bs "b"), (bs "x \"), (bs " y").
  repeat split; try reflexivity. vm_compute. discriminate.
Qed.

(* a token wrapped in double quotes reads back without them *)
Lemma quoted_token_refuted :
  exists kd n k s, field_ok kd n k = true /\ key_ok k = true /\
    get kd (after kd st0 (OSet (ftarget n k) (VStr s))) (ftarget n k) <> ORead (RStr s).
Proof.
  exists KResp, (bs "Foo"), (bs "a"), (bs """a""").
  repeat split; try reflexivity. vm_compute. discriminate.
Qed.

(* and each witness is exactly what fv_ok rejects *)
Example fv_ok_rejects :
  fv_ok [bs "b"] (bs "x,b=1") = false /\ fv_ok [] (bs "x \") = false /\ fv_ok [] (bs """a""") = false /\
  fv_ok [bs "b"] (bs "x,c=1 ; b") = true.
Proof. vm_compute. repeat split; reflexivity. Qed.
