(* Expressions: the parser state only moves forward (reach), the fuel 2 * tokens + 1 suffices
   (parse_expr_total) and no Go fault point is reachable on a token stream shaped as the
   lexer shapes it (parse_expr_no_crash; the only fault point of the expression parser is
   `str.LongString = true` with a nil str in ParseLongString). *)
From Coq Require Import List NArith ZArith Bool Lia.
From Falco Require Import Base.Bytes Gen.TokenTypes Model.ParseKinds Gen.ParserTables
  Model.ParseBase Model.Ast Model.ParseLit Model.ParseExpr Model.Yield
  Proofs.ParseTables Proofs.ParseLitTotal Proofs.ParseExprYield.
Import ListNotations.
Local Open Scope parse_scope.

(* ---------- the state only moves by NextToken *)
Definition reach (st st' : pstate) : Prop := exists k, st' = Nat.iter k next st.

Lemma reach_refl st : reach st st. Proof. exists 0. reflexivity. Qed.
Lemma reach_next st : reach st (next st). Proof. exists 1. reflexivity. Qed.
Lemma reach_trans a b c : reach a b -> reach b c -> reach a c.
Proof.
  intros [k1 H1] [k2 H2]. exists (k2 + k1). subst. induction k2; simpl; [reflexivity | f_equal; exact IHk2].
Qed.
Lemma reach_next_l a b : reach (next a) b -> reach a b.
Proof. intros H. eapply reach_trans; [apply reach_next | exact H]. Qed.
Lemma reach_next_r a b : reach a b -> reach a (next b).
Proof. intros H. eapply reach_trans; [exact H | apply reach_next]. Qed.

Definition L (st : pstate) : nat := length (toks st).
Lemma L_next st : L (next st) = L st - 1.
Proof. unfold L, next. simpl. destruct (toks st); simpl; lia. Qed.
Lemma reach_L a b : reach a b -> L b <= L a.
Proof.
  intros [k H]. subst. induction k; simpl; [lia|]. rewrite L_next. lia.
Qed.

Lemma expect_reach st t st' : expect st t = POK st' -> st' = next st.
Proof.
  unfold expect, expect_peek. destruct (peek_is st t); [|discriminate]. intros H. inversion H. reflexivity.
Qed.

(* ---------- lexer-shaped streams: the STRING token behind an OPEN_LONG_STRING is never the
   double-quoted kind (Offset = 2); the lexer sets Offset = 2 + 2 * (len(delimiter) + 1) >= 4 there *)
Fixpoint long_ok (ts : list token) : bool :=
  match ts with
  | o :: ((s :: _) as rest) =>
      (if ttype_eqb (typ o) T_OPEN_LONG_STRING && ttype_eqb (typ s) T_STRING then negb (off s =? 2)%N else true)
      && long_ok rest
  | _ => true
  end.
Definition W (st : pstate) : Prop := long_ok (toks st) = true.

Lemma long_ok_tl ts : long_ok ts = true -> long_ok (tl ts) = true.
Proof.
  destruct ts as [|o [|s r]]; simpl; auto.
  intros H. apply andb_true_iff in H. tauto.
Qed.
Lemma W_next st : W st -> W (next st).
Proof. unfold W. simpl. apply long_ok_tl. Qed.
Lemma W_reach a b : reach a b -> W a -> W b.
Proof. intros [k H] Ha. subst. induction k; simpl; auto using W_next. Qed.

(* ---------- "never out of fuel, and no crash on a lexer-shaped stream" *)
Definition G {A} (st : pstate) (r : pres A) : Prop := r <> PFuel /\ (W st -> r <> PCrash).

Lemma G_ok {A} st (a : A) : G st (POK a). Proof. split; intros; discriminate. Qed.
Lemma G_err {A} st k t n : G st (@PErr A k t n). Proof. split; intros; discriminate. Qed.
Lemma G_notok {A} st : G st (@PErrNoTok A). Proof. split; intros; discriminate. Qed.
Lemma G_err_cur {A} st k s : G st (@err_cur A k s). Proof. apply G_err. Qed.
Lemma G_err_peek {A} st k s : G st (@err_peek A k s). Proof. apply G_err. Qed.
Lemma G_reach {A} st s (r : pres A) : reach st s -> G s r -> G st r.
Proof. intros Hr [H1 H2]. split; [exact H1|]. intros Hw. apply H2. eapply W_reach; eauto. Qed.

Lemma G_bind {A B} st (x : pres A) (f : A -> pres B) :
  G st x -> (forall a, x = POK a -> G st (f a)) -> G st (pbind x f).
Proof.
  intros [H1 H2] Hf. destruct x; cbn [pbind]; try (split; intros; discriminate).
  - apply Hf. reflexivity.
  - split; [congruence|]. intros Hw. exfalso. apply (H2 Hw). reflexivity.
  - congruence.
Qed.

Lemma G_expect {B} st s t (f : pstate -> pres B) :
  (G st (f (next s))) -> G st (pbind (expect s t) f).
Proof.
  intros H. unfold expect, expect_peek. destruct (peek_is s t); cbn [pbind]; [exact H | apply G_err_peek].
Qed.

Section T.
Variable fok : str -> bool.
Notation pexpr := (pexpr fok).
Notation ploop := (ploop fok).
Notation pargs := (pargs fok).
Notation pargtail := (pargtail fok).

Lemma pstring_G st s : G st (pstring s).
Proof.
  unfold pstring. destruct (off (cur s) =? 2)%N; [|apply G_ok].
  pose proof (decode_escapes_fine (lit (cur s))) as [H1 H2].
  destruct (decode_escapes (lit (cur s))); try congruence; try apply G_ok; apply G_err_cur.
Qed.

(* ParseLongString: with W, the string behind the opening token is not decoded, hence no nil *)
Lemma plong_G st : typ (cur st) = T_OPEN_LONG_STRING -> G st (plong st).
Proof.
  intros Ho. unfold plong. destruct (peek_is st T_STRING) eqn:E1; cbn [negb]; [|apply G_err_peek].
  split.
  - pose proof (pstring_G st (next st)) as [H1 _].
    destruct (pstring (next st)); try congruence; try discriminate.
    destruct (negb _); [discriminate|]. destruct (negb _); discriminate.
  - intros Hw.
    assert (Hoff : (off (peek st) =? 2)%N = false).
    { unfold W in Hw. unfold peek_is, peek, cur in *. destruct (toks st) as [|o [|s r]]; simpl in *;
        try (vm_compute in E1; discriminate).
      rewrite Ho, E1 in Hw. simpl in Hw. apply andb_true_iff in Hw. destruct Hw as [Hw _].
      apply negb_true_iff in Hw. exact Hw. }
    unfold pstring. rewrite <- peek_next, Hoff.
    destruct (negb _); [discriminate|]. destruct (negb _); discriminate.
Qed.

Lemma plong_reach st o s c v st' : plong st = POK (o, s, c, v, st') -> st' = next (next st).
Proof.
  unfold plong. destruct (negb (peek_is st T_STRING)); [discriminate|].
  destruct (pstring (next st)); try discriminate.
  destruct (negb _); [discriminate|]. destruct (negb _); [discriminate|].
  intros H. inversion H. reflexivity.
Qed.

Lemma pint_G st s : G st (pint s).
Proof. unfold pint. destruct (conv_integer _ _); [apply G_ok | apply G_err_cur]. Qed.
Lemma pinteger_G st s : G st (pinteger s).
Proof. unfold pinteger. apply G_bind; [apply pint_G | intros; apply G_ok]. Qed.
Lemma pfloat_G st s : G st (pfloat fok s).
Proof. unfold pfloat. destruct (fok _); [apply G_ok | apply G_err_cur]. Qed.
Lemma prtime_G st s : G st (prtime fok s).
Proof.
  unfold prtime. destruct (rtime_value _); [|apply G_err_cur].
  destruct (fok _); [apply G_ok | apply G_err_cur].
Qed.

(* ---------- reach for the four functions *)
Definition reach_e n := forall prec st e st', pexpr n prec st = POK (e, st') -> reach st st'.
Definition reach_l n := forall prec l st e st', ploop n prec l st = POK (e, st') -> reach st st'.
Definition reach_a n := forall st a st', pargs n st = POK (a, st') -> reach st st'.
Definition reach_t n := forall st m st', pargtail n st = POK (m, st') -> reach st st'.

Ltac rch_go :=
  first
  [ apply reach_refl
  | match goal with
    | |- reach _ (next _) => apply reach_next_r; rch_go
    | H : reach ?x ?t |- reach _ ?t => apply (reach_trans _ x t); [rch_go | exact H]
    end ].
Ltac rch :=
  repeat match goal with
  | H : expect _ _ = POK _ |- _ => apply expect_reach in H; subst
  end;
  solve [rch_go].

Lemma pprefix_reach rec k st lft st1 :
  (forall prec s e s', rec prec s = POK (e, s') -> reach s s') ->
  pprefix fok rec k st = POK (lft, st1) -> reach st st1.
Proof.
  intros IH Ha. destruct k; cbn [pprefix] in Ha.
  - inversion Ha; subst. rch.
  - binv Ha. inversion Ha; subst. rch.
  - binv Ha. destruct a as [[[[o s] c] v] st2]. inversion Ha; subst.
    apply plong_reach in Ha0. subst. rch.
  - unfold pinteger in Ha. binv Ha. inversion Ha; subst. rch.
  - unfold pfloat in Ha. destruct (fok _); [|discriminate]. inversion Ha; subst. rch.
  - unfold prtime in Ha. destruct (rtime_value _); [|discriminate].
    destruct (fok _); [|discriminate]. inversion Ha; subst. rch.
  - binv Ha. destruct a as [r st2]. inversion Ha; subst. apply IH in Ha0. rch.
  - inversion Ha; subst. rch.
  - binv Ha. destruct a as [r st2]. binv Ha. inversion Ha; subst. apply IH in Ha0. rch.
  - binv Ha. rename a into s1. binv Ha. destruct a as [c s2]. binv Ha. rename a into s3.
    binv Ha. destruct a as [t s4]. binv Ha. rename a into s5. binv Ha. destruct a as [e0 s6].
    binv Ha. rename a into s7. inversion Ha; subst.
    apply IH in Ha1. apply IH in Ha3. apply IH in Ha5.
    apply expect_reach in Ha0, Ha2, Ha4, Ha6. subst.
    apply reach_next_l in Ha1. apply reach_next_l in Ha3. apply reach_next_l in Ha5.
    apply reach_next_l in Ha1. apply reach_next_l in Ha3. apply reach_next_l in Ha5.
    apply reach_next_r.
    eapply reach_trans; [exact Ha1|]. eapply reach_trans; [exact Ha3|]. exact Ha5.
Qed.

Lemma pinfix_reach rec recargs k l st1 l2 st2 :
  (forall prec s e s', rec prec s = POK (e, s') -> reach s s') ->
  (forall s a s', recargs s = POK (a, s') -> reach s s') ->
  pinfix rec recargs k l st1 = POK (l2, st2) -> reach st1 st2.
Proof.
  intros IHe IHa Ha. destruct k as [|[]|]; cbn [pinfix] in Ha.
  - binv Ha. destruct a as [r s]. inversion Ha; subst. apply IHe in Ha0. rch.
  - binv Ha. destruct a as [r s]. inversion Ha; subst. apply IHe in Ha0. rch.
  - binv Ha. destruct a as [r s]. inversion Ha; subst. apply IHe in Ha0. rch.
  - destruct l; try discriminate. binv Ha. destruct a as [ar s]. inversion Ha; subst. apply IHa in Ha0. rch.
Qed.

Lemma reach_all : forall n, reach_e n /\ reach_l n /\ reach_a n /\ reach_t n.
Proof.
  induction n as [|n [IHe [IHl [IHa IHt]]]].
  { split; [|split; [|split]]; unfold reach_e, reach_l, reach_a, reach_t; intros; discriminate. }
  assert (He : reach_e (S n)).
  { red. intros prec st e st' H. cbn [ParseExpr.pexpr] in H.
    destruct (assoc _ prefix_parsers); [|discriminate].
    binv H. destruct a as [lft st1]. apply (pprefix_reach _ _ _ _ _ IHe) in Ha. apply IHl in H. rch. }
  assert (Hl : reach_l (S n)).
  { red. intros prec l st e st' H. cbn [ParseExpr.ploop] in H.
    destruct (_ || _). { inversion H; subst. rch. }
    destruct (assoc _ infix_parsers).
    2:{ destruct (assoc _ postfix_parsers) as [[]|]; [apply IHl in H; rch | inversion H; subst; rch]. }
    binv H. destruct a as [l2 st2]. apply (pinfix_reach _ _ _ _ _ _ _ IHe IHa) in Ha. apply IHl in H. rch. }
  assert (Hargs : reach_a (S n)).
  { red. intros st a st' H. cbn [ParseExpr.pargs] in H.
    destruct (peek_is st T_RIGHT_PAREN). { inversion H; subst. rch. }
    binv H. destruct a0 as [e s1]. binv H. destruct a0 as [m s2]. binv H. inversion H; subst.
    apply IHe in Ha. apply IHt in Ha0. rch. }
  assert (Htail : reach_t (S n)).
  { red. intros st m st' H. cbn [ParseExpr.pargtail] in H.
    destruct (peek_is st T_COMMA). 2:{ inversion H; subst. rch. }
    binv H. destruct a as [e s2]. binv H. destruct a as [m2 s3]. inversion H; subst.
    apply IHe in Ha. apply IHt in Ha0. rch. }
  exact (conj He (conj Hl (conj Hargs Htail))).
Qed.

Lemma pexpr_reach n prec st e st' : pexpr n prec st = POK (e, st') -> reach st st'.
Proof. apply (proj1 (reach_all n)). Qed.
Lemma pargs_reach n st a st' : pargs n st = POK (a, st') -> reach st st'.
Proof. apply (proj1 (proj2 (proj2 (reach_all n)))). Qed.

(* ---------- fuel bounds + crash freedom *)
Definition T_e n := forall prec st, 2 * L st + 1 <= n -> G st (pexpr n prec st).
Definition T_l n := forall prec l st, 2 * L (next st) + 2 <= n -> G st (ploop n prec l st).
Definition T_a n := forall st, toks st <> [] -> 2 * L st + 1 <= n -> G st (pargs n st).
Definition T_t n := forall st, 2 * L (next st) + 1 <= n -> G st (pargtail n st).

Lemma L_pos st : toks st = cur st :: after st -> L st = S (L (next st)).
Proof. intros H. unfold L. rewrite H at 1. reflexivity. Qed.

Lemma after_L st : length (after st) = L (next st). Proof. reflexivity. Qed.

Lemma doc_prefix_long t : doc_prefix t = Some PK_ParseLongString -> t = T_OPEN_LONG_STRING.
Proof. destruct t; simpl; intros H; try discriminate; reflexivity. Qed.

Lemma pprefix_G n k st :
  T_e n -> assoc (typ (cur st)) prefix_parsers = Some k -> 2 * L st <= n ->
  G st (pprefix fok (pexpr n) k st).
Proof.
  intros IH Ek Hb.
  pose proof (prefix_registered st k Ek) as Hc. pose proof (L_pos st Hc) as HL.
  assert (Hrec : forall prec s, reach st s -> L s < L st -> G st (pexpr n prec s)).
  { intros prec s Hr Hl. eapply G_reach; [exact Hr|]. apply IH. lia. }
  assert (Hcons : forall prec s e s', pexpr n prec s = POK (e, s') -> L (next s') < L s /\ reach s s').
  { intros prec s e s' H. split; [rewrite <- after_L; eapply pexpr_consumes; eauto | eapply pexpr_reach; eauto]. }
  destruct k; cbn [pprefix].
  - apply G_ok.
  - apply G_bind; [apply pstring_G | intros; apply G_ok].
  - apply G_bind; [|intros [[[[o s] c] v] s']; intros; apply G_ok].
    apply plong_G. rewrite prefix_doc in Ek. apply doc_prefix_long. exact Ek.
  - apply pinteger_G.
  - apply pfloat_G.
  - apply prtime_G.
  - apply G_bind; [|intros [r s']; intros; apply G_ok].
    apply Hrec; [rch | rewrite L_next; lia].
  - apply G_ok.
  - apply G_bind; [apply Hrec; [rch | rewrite L_next; lia]|].
    intros [r s'] E. apply G_expect. apply G_ok.
  - apply G_expect.
    apply G_bind; [apply Hrec; [rch | rewrite !L_next; lia]|].
    intros [c s2] E2. apply Hcons in E2. destruct E2 as [C2 R2]. rewrite !L_next in *. apply G_expect.
    apply G_bind; [apply Hrec; [rch | rewrite !L_next; lia]|].
    intros [t s4] E4. apply Hcons in E4. destruct E4 as [C4 R4]. rewrite !L_next in *. apply G_expect.
    apply G_bind; [apply Hrec; [rch | rewrite !L_next; lia]|].
    intros [e0 s6] E6. apply G_expect. apply G_ok.
Qed.

Lemma total_all : forall n, T_e n /\ T_l n /\ T_a n /\ T_t n.
Proof.
  induction n as [|n [IHe [IHl [IHa IHt]]]].
  { split; [|split; [|split]]; unfold T_e, T_l, T_a, T_t; intros; lia. }
  assert (He : T_e (S n)).
  { red. intros prec st Hb. cbn [ParseExpr.pexpr].
    destruct (assoc (typ (cur st)) prefix_parsers) as [k|] eqn:Ek; [|apply G_err_cur].
    pose proof (prefix_registered st k Ek) as Hc. pose proof (L_pos st Hc) as HL.
    apply G_bind; [apply pprefix_G; [exact IHe | exact Ek | lia]|].
    intros [lft st1] E.
    pose proof (pprefix_yield fok _ _ _ _ _ (proj1 (yield_all fok n)) Hc E) as Hy.
    pose proof (pprefix_reach _ _ _ _ _ (proj1 (reach_all n)) E) as Hr.
    eapply G_reach; [exact Hr|]. apply IHl.
    assert (length (toks st) = length (yexpr lft ++ after st1)) by (rewrite <- Hy; reflexivity).
    rewrite app_length in H. pose proof (yexpr_nonempty lft). destruct (yexpr lft); [congruence|].
    simpl in H. rewrite after_L in H. unfold L in *. lia. }
  assert (Hl : T_l (S n)).
  { red. intros prec l st Hb. cbn [ParseExpr.ploop].
    destruct (_ || _); [apply G_ok|].
    destruct (assoc (typ (peek st)) infix_parsers) as [k|] eqn:Ek.
    2:{ destruct (assoc (typ (peek st)) postfix_parsers) as [[]|] eqn:Eq; [|apply G_ok].
        assert (Hp : after st = peek st :: after (next st)).
        { apply peek_not_eof. intros E. rewrite E, postfix_doc in Eq. discriminate. }
        eapply G_reach; [apply reach_next|]. apply IHl.
        assert (L (next st) = S (L (next (next st)))) by (apply L_pos; exact Hp). lia. }
    assert (Hp : toks (next st) = cur (next st) :: after (next st)).
    { apply cur_not_eof. rewrite <- peek_next. intros E. rewrite E, infix_doc in Ek. discriminate. }
    pose proof (L_pos _ Hp) as HL.
    assert (Hrec : forall p s, reach st s -> 2 * L s + 1 <= n -> G st (pexpr n p s)).
    { intros p s Hr Hs. eapply G_reach; [exact Hr|]. apply IHe. exact Hs. }
    apply G_bind.
    - destruct k as [|[]|]; cbn [pinfix].
      + apply G_bind; [apply Hrec; [rch | lia] | intros [r s] _; apply G_ok].
      + apply G_bind; [apply Hrec; [rch | lia] | intros [r s] _; apply G_ok].
      + apply G_bind; [apply Hrec; [rch | lia] | intros [r s] _; apply G_ok].
      + destruct l; try apply G_err_cur.
        apply G_bind; [|intros [a s] _; apply G_ok].
        eapply G_reach; [apply reach_next|]. apply IHa; [rewrite Hp; discriminate | lia].
    - intros [l2 st2] E.
      pose proof (pinfix_yield _ _ _ _ _ _ _ (proj1 (yield_all fok n)) (proj1 (proj2 (proj2 (yield_all fok n)))) Hp E) as [m [Y1 Y2]].
      pose proof (pinfix_reach _ _ _ _ _ _ _ (proj1 (reach_all n)) (proj1 (proj2 (proj2 (reach_all n)))) E) as Hr.
      eapply G_reach; [eapply reach_trans; [apply reach_next | exact Hr]|]. apply IHl.
      assert (Hm : m <> []).
      { intros ->. rewrite app_nil_r in Y1.
        destruct k as [|[]|]; cbn [pinfix] in E.
        - binv E. destruct a. inversion E; subst. simpl in Y1.
          apply (f_equal (@length _)) in Y1. rewrite app_length in Y1. simpl in Y1. lia.
        - binv E. destruct a. inversion E; subst. simpl in Y1.
          apply (f_equal (@length _)) in Y1. rewrite app_length in Y1. simpl in Y1. lia.
        - binv E. destruct a. inversion E; subst. simpl in Y1.
          apply (f_equal (@length _)) in Y1. rewrite app_length in Y1.
          pose proof (yexpr_nonempty e). destruct (yexpr e); [congruence | simpl in Y1; lia].
        - destruct l; try discriminate. binv E. destruct a. inversion E; subst. simpl in Y1.
          apply (f_equal (@length _)) in Y1. simpl in Y1. lia. }
      assert (Y3 : L (next st) = length m + L (next st2)).
      { unfold L at 1. rewrite Y2, app_length. reflexivity. }
      destruct m; [congruence|]. cbn [length] in Y3. lia. }
  assert (Hargs : T_a (S n)).
  { red. intros st Hne Hb. cbn [ParseExpr.pargs].
    destruct (peek_is st T_RIGHT_PAREN); [apply G_ok|].
    assert (HL : L st = S (L (next st))).
    { unfold L. simpl. destruct (toks st); [congruence | reflexivity]. }
    apply G_bind.
    { eapply G_reach; [apply reach_next|]. apply IHe. lia. }
    intros [e s1] E1.
    pose proof (pexpr_consumes fok _ _ _ _ _ E1) as C1. rewrite after_L in C1.
    pose proof (pexpr_reach _ _ _ _ _ E1) as R1.
    apply G_bind.
    { eapply G_reach; [eapply reach_trans; [apply reach_next | exact R1]|]. apply IHt. unfold L in *. lia. }
    intros [m s2] E2. apply G_expect. apply G_ok. }
  assert (Htail : T_t (S n)).
  { red. intros st Hb. cbn [ParseExpr.pargtail].
    destruct (peek_is st T_COMMA) eqn:E; [|apply G_ok].
    apply peek_is_true in E.
    assert (Hp : after st = peek st :: after (next st)) by (apply peek_not_eof; congruence).
    assert (HL : L (next st) = S (L (next (next st)))) by (apply L_pos; exact Hp).
    apply G_bind.
    { eapply G_reach; [eapply reach_trans; apply reach_next|]. apply IHe. lia. }
    intros [e s2] E1.
    pose proof (pexpr_consumes fok _ _ _ _ _ E1) as C1. rewrite after_L in C1.
    pose proof (pexpr_reach _ _ _ _ _ E1) as R1.
    apply G_bind; [|intros [m2 s3] _; apply G_ok].
    eapply G_reach; [eapply reach_trans; [eapply reach_trans; apply reach_next | exact R1]|].
    apply IHt. unfold L in *. lia. }
  exact (conj He (conj Hl (conj Hargs Htail))).
Qed.

(* ---------- the exported theorems *)
Theorem parse_expr_total prec st : parse_expr fok prec st <> PFuel.
Proof.
  unfold parse_expr, expr_fuel. apply (proj1 (total_all _)). unfold L. lia.
Qed.

Theorem parse_expr_no_crash prec st : long_ok (toks st) = true -> parse_expr fok prec st <> PCrash.
Proof.
  intros Hw. unfold parse_expr, expr_fuel. apply (proj1 (total_all _)); [unfold L; lia | exact Hw].
Qed.

Theorem parse_args_total st : parse_args fok st <> PFuel.
Proof.
  unfold parse_args, expr_fuel. destruct (toks st) eqn:E.
  - (* no token: the first argument expression fails at once *)
    simpl. unfold peek_is, peek. rewrite E. simpl.
    replace (ttype_eqb T_EOF T_RIGHT_PAREN) with false by reflexivity.
    unfold cur. simpl. rewrite E. simpl. discriminate.
  - apply (proj1 (proj2 (proj2 (total_all _)))); [congruence | unfold L; rewrite E; simpl; lia].
Qed.

Theorem parse_args_no_crash st : long_ok (toks st) = true -> parse_args fok st <> PCrash.
Proof.
  intros Hw. unfold parse_args, expr_fuel. destruct (toks st) eqn:E.
  - simpl. unfold peek_is, peek. rewrite E. simpl.
    replace (ttype_eqb T_EOF T_RIGHT_PAREN) with false by reflexivity.
    unfold cur. simpl. rewrite E. simpl. discriminate.
  - apply (proj1 (proj2 (proj2 (total_all _)))); [congruence | unfold L; rewrite E; simpl; lia | unfold W; rewrite E; exact Hw].
Qed.

End T.
