(* C18: the shape facts regenerated from the Go AST (Gen/SchedShape.v) are the ones the model assumes *)
From Coq Require Import String List.
From Falco Require Import Gen.SchedShape.
Import ListNotations.

Lemma shape_facts :
  servehttp_lock_then_defer_unlock = true /\ servehttp_state_before_lock = [] /\
  servehttp_unlock_only_deferred = true /\ servehttp_no_go_stmt = true /\
  interpreter_lock_used_outside_servehttp = [] /\
  linter_error_locks_first = true /\ linter_errors_appended_outside_error = [] /\
  customlint_goroutines_call_error = false /\
  globals_written_after_init = ["interpreter/variable:injectedVariable@Inject"%string].
Proof. repeat split; reflexivity. Qed.
