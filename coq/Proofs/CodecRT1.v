(* decode_encode: decoding the encoding of well-formed statements returns them. *)
From Coq Require Import List NArith ZArith Lia Bool ZifyBool ZifyN ZifyNat.
From Falco Require Import Base.Res Base.Bytes Base.Utf8 Gen.CodecFrames Model.CodecAst Model.Codec
  Proofs.Utf8Proofs.
Import ListNotations.
Local Open Scope N_scope.
Ltac Zify.zify_post_hook ::= Z.div_mod_to_equations.

(* ---------- well-formedness: what the parser produces ---------- *)
Definition wf_str (s : str) : Prop :=
  forallb valid_scalar s = true /\ N.of_nat (length (enc_str s)) < 65536.   (* 16-bit leaf length: see known finding *)
Definition wf_num (v : Z) (lit : str) : Prop :=
  (0 <= v < 18446744073709551616)%Z /\ forallb valid_scalar lit = true /\ N.of_nat (8 + length (enc_str lit)) < 65536.

Fixpoint wf_expr (e : expr) : Prop :=
  match e with
  | EIdent v | EString v | EIp v | ERTime v => wf_str v
  | EBool _ => True
  | EInt v lit | EFloat v lit => wf_num v lit
  | EGroup r => wf_expr r
  | EInfix l op r => match l with Some l => wf_expr l | None => True end /\ wf_str op /\ wf_expr r
  | EPostfix l op => wf_expr l /\ wf_str op
  | EPrefix op r => wf_str op /\ wf_expr r
  | EIfExp c t e => wf_expr c /\ wf_expr t /\ wf_expr e
  | ECall f args => wf_str f /\ (fix go l := match l with [] => True | x :: xs => wf_expr x /\ go xs end) args
  | EUnknown => False
  end.
Definition wf_exprs (l : list expr) : Prop :=
  (fix go l := match l with [] => True | x :: xs => wf_expr x /\ go xs end) l.

Fixpoint esize (e : expr) : nat :=
  (match e with
  | EGroup r => 2 + esize r
  | EInfix l op r => 3 + match l with Some l => esize l | None => 0 end + esize r
  | EPostfix l op => 2 + esize l
  | EPrefix op r => 2 + esize r
  | EIfExp c t e => 2 + esize c + esize t + esize e
  | ECall f args => 3 + (fix go l := match l with [] => 1 | x :: xs => 2 + esize x + go xs end) args
  | _ => 2
  end)%nat.
Definition esizes (l : list expr) : nat :=
  (fix go l := match l with [] => 1 | x :: xs => 2 + esize x + go xs end)%nat l.

(* ---------- frame-level facts ---------- *)
Definition st0 (bs : list byte) : dstate := DState false bs.
Definition is_ft (t : N) : Prop := t < 256 /\ t <> FT_END /\ t <> FT_FIN.

Lemma sz_split (n : N) : n < 65536 ->
  b2n (n2b (n / 256)) * 256 + b2n (n2b n) = n.
Proof. intros H. rewrite !b2n_n2b. lia. Qed.

Lemma next_frame_enc t p rs : is_ft t ->
  next_frame (st0 (enc_frame t p ++ rs)) =
    (Frame t (N.to_nat ((N.of_nat (length p)) mod 65536)), st0 (p ++ rs)).
Proof.
  intros (Hlt & He & Hf). unfold next_frame, st0, enc_frame; cbn [fin Codec.rest app].
  rewrite b2n_n2b_small by exact Hlt.
  destruct (t =? FT_END) eqn:E1; [apply N.eqb_eq in E1; congruence|].
  destruct (t =? FT_FIN) eqn:E2; [apply N.eqb_eq in E2; congruence|].
  cbn [app]. do 3 f_equal. rewrite !b2n_n2b. lia.
Qed.

Lemma peek_frame_enc t p rs : is_ft t ->
  ftype (peek_frame (st0 (enc_frame t p ++ rs))) = t.
Proof.
  intros (Hlt & He & Hf). unfold peek_frame, st0, enc_frame; cbn [Codec.rest app].
  rewrite b2n_n2b_small by exact Hlt.
  destruct (t =? FT_END) eqn:E1; [apply N.eqb_eq in E1; congruence|].
  destruct (t =? FT_FIN) eqn:E2; [apply N.eqb_eq in E2; congruence|].
  reflexivity.
Qed.

Lemma next_frame_end rs : next_frame (st0 (END_B ++ rs)) = (Frame FT_END 0, st0 rs).
Proof. reflexivity. Qed.
Lemma peek_frame_end rs : ftype (peek_frame (st0 (END_B ++ rs))) = FT_END.
Proof. reflexivity. Qed.
Lemma next_frame_fin rs : next_frame (st0 (FIN_B ++ rs)) = (Frame FT_FIN 0, DState true rs).
Proof. reflexivity. Qed.

Lemma read_payload_app p rs sz :
  N.of_nat (length p) < 65536 ->
  sz = N.to_nat ((N.of_nat (length p)) mod 65536) ->
  read_payload (Frame 0 sz) (st0 (p ++ rs)) = OK (p, st0 rs).
Proof.
  intros Hl ->. rewrite N.mod_small by lia. rewrite Nat2N.id.
  unfold read_payload, st0; cbn [fsize Codec.rest fin].
  rewrite app_length. replace (Nat.leb (length p) (length p + length rs)) with true
    by (symmetry; apply Nat.leb_le; lia).
  rewrite firstn_app, firstn_all, Nat.sub_diag, skipn_app, skipn_all, Nat.sub_diag.
  cbn [firstn skipn app]. rewrite app_nil_r. reflexivity.
Qed.

Lemma read_payload_ty t t' sz st : read_payload (Frame t sz) st = read_payload (Frame t' sz) st.
Proof. reflexivity. Qed.

Definition psz (p : list byte) : nat := N.to_nat ((N.of_nat (length p)) mod 65536).

Lemma nf_enc {A} t p rs (k : frame -> dstate -> res A) : is_ft t ->
  nf (st0 (enc_frame t p ++ rs)) k = k (Frame t (psz p)) (st0 (p ++ rs)).
Proof. intros Ht. unfold nf. rewrite next_frame_enc by exact Ht. reflexivity. Qed.

Lemma nf_end {A} rs (k : frame -> dstate -> res A) :
  nf (st0 (END_B ++ rs)) k = k (Frame FT_END 0) (st0 rs).
Proof. reflexivity. Qed.

Lemma dec_leaf_enc t s rs : wf_str s ->
  dec_leaf t (Frame t (psz (enc_str s))) (st0 (enc_str s ++ rs)) = OK (s, st0 rs).
Proof.
  intros [Hv Hl]. unfold dec_leaf; cbn [ftype]. rewrite N.eqb_refl.
  rewrite (read_payload_ty _ 0), (read_payload_app _ _ _ Hl eq_refl). cbn [bind].
  unfold dec_str, enc_str. rewrite dec_enc_all by exact Hv. reflexivity.
Qed.

Lemma nf_leaf t s rs : is_ft t -> wf_str s ->
  nf (st0 (leaf t s ++ rs)) (dec_leaf t) = OK (s, st0 rs).
Proof. intros Ht Hs. unfold leaf. rewrite nf_enc by exact Ht. apply dec_leaf_enc; exact Hs. Qed.

Lemma un_be64_be64 v : (0 <= v < 18446744073709551616)%Z -> un_be64 (be64 v) = v.
Proof.
  intros H. unfold un_be64, be64. cbn [fold_left]. rewrite !b2n_n2b.
  remember (Z.to_N v) as n. assert (Hn : n < 18446744073709551616) by lia.
  assert (Hv : v = Z.of_N n) by lia. rewrite Hv. f_equal. clear Heqn Hv H v.
  lia.
Qed.

Lemma be64_len v : length (be64 v) = 8%nat. Proof. reflexivity. Qed.
Lemma firstn_be64 v l : firstn 8 (be64 v ++ l) = be64 v. Proof. reflexivity. Qed.
Lemma skipn_be64 v l : skipn 8 (be64 v ++ l) = l. Proof. reflexivity. Qed.
Opaque be64.

Lemma dec_num_enc t v lit rs : wf_num v lit ->
  dec_num t (Frame t (psz (be64 v ++ enc_str lit))) (st0 ((be64 v ++ enc_str lit) ++ rs)) = OK ((v, lit), st0 rs).
Proof.
  intros (Hr & Hv & Hl).
  unfold dec_num; cbn [ftype]. rewrite N.eqb_refl.
  assert (Hlen : N.of_nat (length (be64 v ++ enc_str lit)) < 65536)
    by (rewrite app_length, be64_len; exact Hl).
  rewrite (read_payload_ty _ 0), (read_payload_app _ _ _ Hlen eq_refl). cbn [bind].
  unfold go_prefix. rewrite app_length, be64_len. cbn [Nat.ltb Nat.leb Nat.add bind].
  rewrite firstn_be64, skipn_be64.
  rewrite (un_be64_be64 v Hr). unfold dec_str, enc_str. rewrite dec_enc_all by exact Hv. reflexivity.
Qed.

Lemma nf_num t v lit rs : is_ft t -> wf_num v lit ->
  nf (st0 (enc_frame t (be64 v ++ enc_str lit) ++ rs)) (dec_num t) = OK ((v, lit), st0 rs).
Proof. intros Ht H. rewrite nf_enc by exact Ht. apply dec_num_enc; exact H. Qed.

Lemma dec_bool_enc (b : bool) rs :
  dec_bool (Frame FT_BOOL_VALUE (psz [n2b (if b then 1 else 0)])) (st0 ([n2b (if b then 1 else 0)] ++ rs)) = OK (b, st0 rs).
Proof.
  unfold dec_bool; cbn [ftype]. rewrite N.eqb_refl.
  rewrite (read_payload_ty _ 0), (read_payload_app [_] _ _ ltac:(simpl; lia) eq_refl). cbn [bind].
  cbn [length Nat.ltb Nat.leb go_index0 bind]. rewrite b2n_n2b_small by (destruct b; lia).
  destruct b; reflexivity.
Qed.

Lemma nf_bool b rs :
  nf (st0 (enc_bool b ++ rs)) dec_bool = OK (b, st0 rs).
Proof. unfold enc_bool. rewrite nf_enc by (repeat split; discriminate). apply dec_bool_enc. Qed.

(* ---------- expressions ---------- *)
Arguments nf : simpl never.
Arguments bind : simpl never.
Arguments dec_leaf : simpl never.
Arguments dec_num : simpl never.
Arguments dec_bool : simpl never.
Arguments next_frame : simpl never.
Arguments peek_frame : simpl never.
Arguments enc_frame : simpl never.
Arguments leaf : simpl never.
Arguments enc_bool : simpl never.
Arguments st0 : simpl never.
Arguments Nat.add : simpl never.
Arguments Nat.mul : simpl never.
Arguments Nat.ltb : simpl never.
Arguments Nat.leb : simpl never.
Arguments N.of_nat : simpl never.
Arguments N.to_nat : simpl never.
Arguments N.modulo : simpl never.

Ltac ft := repeat split; discriminate.

Lemma bind_OK {A B} (a : A) (k : A -> res B) : bind (OK a) k = k a.
Proof. reflexivity. Qed.

Lemma peek_expr e rs : wf_expr e ->
  is_expr_type (ftype (peek_frame (st0 (enc_expr e ++ rs)))) = true.
Proof.
  destruct e; intros H; try contradiction; cbn [enc_expr];
    unfold leaf, enc_int, enc_float, enc_bool; rewrite peek_frame_enc by ft; reflexivity.
Qed.

Lemma peek_op op rs : is_expr_type (ftype (peek_frame (st0 (enc_op op ++ rs)))) = false.
Proof. unfold enc_op, leaf. rewrite peek_frame_enc by ft. reflexivity. Qed.

Ltac leafs :=
  repeat first
    [ rewrite <- !app_assoc
    | rewrite bind_OK
    | rewrite nf_leaf by (first [ft | assumption | tauto])
    | rewrite nf_num by (first [ft | assumption | tauto])
    | rewrite nf_bool ].

Arguments enc_op : simpl never.
Arguments enc_ident : simpl never.
Arguments enc_int : simpl never.
Arguments enc_float : simpl never.
Arguments enc_str : simpl never.
Arguments opt : simpl never.
Arguments psz : simpl never.
Arguments app : simpl never.

Definition osize (l : option expr) : nat := match l with Some l => esize l | None => 0%nat end.

(* every well-formed expression starts with a frame header that nextFrame consumes *)
Lemma expr_head e rs : wf_expr e ->
  exists f st', (forall A (k : frame -> dstate -> res A), nf (st0 (enc_expr e ++ rs)) k = k f st')
                /\ (ftype f =? FT_END) = false /\ (ftype f =? FT_FIN) = false.
Proof.
  destruct e; intros H; try contradiction; cbn [enc_expr];
    unfold leaf, enc_int, enc_float, enc_bool;
    eexists; eexists; (split; [intros A k; rewrite nf_enc by ft; reflexivity | split; reflexivity]).
Qed.

Lemma dec_args_S n st :
  dec_args (S n) st =
  nf st (fun f st => if ftype f =? FT_END then OK ([], st)
                     else if ftype f =? FT_FIN then Err
                     else do (e, st) <- dec_expr n f st;
                          do (es, st) <- dec_args n st; OK (e :: es, st)).
Proof. reflexivity. Qed.

Lemma dec_infix_S n st :
  dec_infix (S n) st =
  do (l, st) <- (if is_expr_type (ftype (peek_frame st))
                 then do (l, st) <- nf st (dec_expr n); OK (Some l, st)
                 else OK (None, st));
  do (op, st) <- nf st (dec_leaf FT_OPERATOR);
  do (r, st) <- nf st (dec_expr n);
  OK ((l, op, r), st).
Proof. reflexivity. Qed.

Ltac rt IH :=
  repeat first
    [ rewrite <- !app_assoc
    | rewrite bind_OK
    | rewrite IH by (first [lia | tauto | assumption])
    | unfold enc_op, enc_ident; rewrite nf_leaf by (first [ft | tauto | assumption])
    | rewrite nf_bool
    | rewrite nf_num by (first [ft | tauto | assumption])
    | rewrite nf_end ].

Lemma expr_rt : forall k e, (esize e <= k)%nat -> wf_expr e -> forall n rs, (esize e < n)%nat ->
  nf (st0 (enc_expr e ++ rs)) (dec_expr n) = OK (e, st0 rs).
Proof.
  induction k as [|k IH]; intros e Hk Hwf n rs Hn.
  { destruct e; simpl in Hk; lia. }
  assert (Hargs : forall args n rs, (esizes args <= k)%nat -> wf_exprs args -> (esizes args < n)%nat ->
            dec_args n (st0 (flat_map enc_expr args ++ END_B ++ rs)) = OK (args, st0 rs)).
  { clear e Hk Hwf n rs Hn.
    induction args as [|a args IHa]; intros n rs Hs Hw Hn; (destruct n as [|n]; [simpl in Hn; lia|]);
      rewrite dec_args_S; cbn [flat_map]; rewrite ?app_nil_l.
    - rewrite nf_end. reflexivity.
    - cbn [esizes wf_exprs] in *. fold (esizes args) in *. fold (wf_exprs args) in *.
      rewrite <- app_assoc.
      destruct (expr_head a (flat_map enc_expr args ++ END_B ++ rs) (proj1 Hw)) as (f & st' & Hk & He & Hf).
      rewrite Hk, He, Hf. rewrite <- (Hk _ (dec_expr n)).
      rewrite IH by (first [lia | tauto]). rewrite bind_OK.
      rewrite IHa by (first [lia | tauto]). reflexivity. }
  destruct n as [|n]; [lia|].
  destruct e; cbn [enc_expr esize wf_expr] in *; try contradiction.
  all: unfold leaf, enc_int, enc_float, enc_bool; rewrite nf_enc by ft; simpl.
  1-4: rewrite dec_leaf_enc by assumption; reflexivity.
  1: rewrite dec_bool_enc; reflexivity.
  1-2: rewrite dec_num_enc by assumption; reflexivity.
  all: rt IH.
  all: try reflexivity.
  - (* infix *)
    destruct n as [|n]; [lia|]. rewrite dec_infix_S.
    destruct l as [l|]; unfold opt; rewrite ?app_nil_l.
    + rewrite peek_expr by tauto. rt IH. reflexivity.
    + unfold enc_op at 1. rewrite peek_op. rt IH. reflexivity.
  - (* call *)
    fold (esizes args) in *. fold (wf_exprs args) in *.
    rewrite Hargs by (first [lia | tauto]). reflexivity.
Qed.

Lemma expr_rt' e n rs : wf_expr e -> (esize e < n)%nat ->
  nf (st0 (enc_expr e ++ rs)) (dec_expr n) = OK (e, st0 rs).
Proof. intros H Hn. apply (expr_rt (esize e)); auto. Qed.

Lemma args_rt : forall args n rs, wf_exprs args -> (esizes args < n)%nat ->
  dec_args n (st0 (flat_map enc_expr args ++ END_B ++ rs)) = OK (args, st0 rs).
Proof.
  induction args as [|a args IHa]; intros n rs Hw Hn; (destruct n as [|n]; [simpl in Hn; lia|]);
    rewrite dec_args_S; cbn [flat_map]; rewrite ?app_nil_l.
  - rewrite nf_end. reflexivity.
  - cbn [esizes wf_exprs] in *. fold (esizes args) in *. fold (wf_exprs args) in *.
    rewrite <- app_assoc.
    destruct (expr_head a (flat_map enc_expr args ++ END_B ++ rs) (proj1 Hw)) as (f & st' & Hk & He & Hf).
    rewrite Hk, He, Hf. rewrite <- (Hk _ (dec_expr n)).
    rewrite expr_rt' by (first [lia | tauto]). rewrite bind_OK.
    rewrite IHa by (first [lia | tauto]). reflexivity.
Qed.

Definition wf_infix (i : infix) : Prop :=
  let '(l, op, r) := i in match l with Some l => wf_expr l | None => True end /\ wf_str op /\ wf_expr r.
Definition isize (i : infix) : nat := let '(l, op, r) := i in (3 + osize l + esize r)%nat.

Lemma infix_rt l op r n rs : wf_infix (l, op, r) -> (isize (l, op, r) < S n)%nat ->
  dec_infix n (st0 (opt enc_expr l ++ enc_op op ++ enc_expr r ++ rs)) = OK ((l, op, r), st0 rs).
Proof.
  unfold wf_infix, isize. intros Hw Hn. destruct n as [|n]; [lia|]. rewrite dec_infix_S.
  destruct l as [l|]; unfold opt, osize in *; rewrite ?app_nil_l.
  - rewrite peek_expr by tauto. rt expr_rt'. reflexivity.
  - unfold enc_op at 1. rewrite peek_op. rt expr_rt'. reflexivity.
Qed.

Definition opt_size (o : option expr) : nat := osize o.
Definition wf_oexpr (o : option expr) : Prop := match o with Some e => wf_expr e | None => True end.

(* follow condition of an optional trailing expression: what comes next is not an expression frame *)
Definition pty (rs : list byte) : N := ftype (peek_frame (st0 rs)).
Definition fol (rs : list byte) : Prop :=
  is_expr_type (pty rs) = false /\ pty rs <> FT_ELSE_STATEMENT.

Lemma opt_expr_rt o n rs : wf_oexpr o -> (osize o < n)%nat -> (o = None -> is_expr_type (pty rs) = false) ->
  dec_opt_expr n (st0 (opt enc_expr o ++ rs)) = OK (o, st0 rs).
Proof.
  intros Hw Hn Hf. unfold dec_opt_expr. destruct o as [e|]; unfold opt, osize, wf_oexpr in *; rewrite ?app_nil_l.
  - rewrite peek_expr by exact Hw. rt expr_rt'. reflexivity.
  - unfold pty in Hf. rewrite Hf by reflexivity. reflexivity.
Qed.

(* ---- key/value property lists ---- *)
Definition wf_kv (kv : str * expr) : Prop := wf_str (fst kv) /\ wf_expr (snd kv).
Fixpoint wf_kvs (l : list (str * expr)) : Prop :=
  match l with [] => True | x :: xs => wf_kv x /\ wf_kvs xs end.
Fixpoint kvsize (l : list (str * expr)) : nat :=
  match l with [] => 1%nat | x :: xs => (2 + esize (snd x) + kvsize xs)%nat end.

Lemma dec_kvs_S t n st :
  dec_kvs t (S n) st =
  nf st (fun f st => if ftype f =? FT_END then OK ([], st)
                     else if ftype f =? FT_FIN then Err
                     else if ftype f =? t then
                       do (k, st) <- nf st (dec_leaf FT_IDENT_VALUE);
                       do (v, st) <- nf st (dec_expr n);
                       do (r, st) <- dec_kvs t n st; OK ((k, v) :: r, st)
                     else Err).
Proof. reflexivity. Qed.

Lemma kvs_rt t : is_ft t -> forall l n rs, wf_kvs l -> (kvsize l < n)%nat ->
  dec_kvs t n (st0 (flat_map (enc_kv t) l ++ END_B ++ rs)) = OK (l, st0 rs).
Proof.
  intros Ht. induction l as [|[k v] l IHl]; intros n rs Hw Hn; (destruct n as [|n]; [simpl in Hn; lia|]);
    rewrite dec_kvs_S; cbn [flat_map]; rewrite ?app_nil_l.
  - rewrite nf_end. reflexivity.
  - cbn [wf_kvs kvsize fst snd] in *. unfold wf_kv in Hw; cbn [fst snd] in Hw.
    unfold enc_kv; cbn [fst snd]. rewrite <- app_assoc. rewrite nf_enc by exact Ht. cbn [ftype].
    destruct Ht as (Hlt & He & Hf).
    replace (t =? FT_END) with false by (symmetry; apply N.eqb_neq; exact He).
    replace (t =? FT_FIN) with false by (symmetry; apply N.eqb_neq; exact Hf).
    rewrite N.eqb_refl.
    rt expr_rt'. rewrite IHl by (first [lia | tauto]). reflexivity.
Qed.

(* ---- ACL entries ---- *)
Definition wf_cidr (c : cidr) : Prop :=
  let '(Cidr inv ip mask) := c in
  wf_str ip /\ match mask with Some (v, lit) => wf_num v lit | None => True end.
Fixpoint wf_cidrs (l : list cidr) : Prop := match l with [] => True | x :: xs => wf_cidr x /\ wf_cidrs xs end.

Lemma peek_is_enc t t' p rs : is_ft t' -> peek_is t (st0 (enc_frame t' p ++ rs)) = (t' =? t).
Proof. intros H. unfold peek_is. rewrite peek_frame_enc by exact H. reflexivity. Qed.
Lemma peek_is_end t rs : peek_is t (st0 (END_B ++ rs)) = (FT_END =? t).
Proof. reflexivity. Qed.

Lemma peek_is_leaf t t' s rs : is_ft t' -> peek_is t (st0 (leaf t' s ++ rs)) = (t' =? t).
Proof. intros H. unfold leaf. apply peek_is_enc; exact H. Qed.
Lemma peek_is_bool t b rs : peek_is t (st0 (enc_bool b ++ rs)) = (FT_BOOL_VALUE =? t).
Proof. unfold enc_bool. apply peek_is_enc; ft. Qed.
Lemma peek_is_int t v lit rs : peek_is t (st0 (enc_int v lit ++ rs)) = (FT_INTEGER_VALUE =? t).
Proof. unfold enc_int. apply peek_is_enc; ft. Qed.
Lemma nf_int v lit rs : wf_num v lit ->
  nf (st0 (enc_int v lit ++ rs)) (dec_num FT_INTEGER_VALUE) = OK ((v, lit), st0 rs).
Proof. intros H. unfold enc_int. apply nf_num; [ft|exact H]. Qed.

Ltac pk :=
  repeat first
    [ rewrite <- !app_assoc
    | rewrite bind_OK
    | progress cbv beta iota
    | rewrite peek_is_bool | rewrite peek_is_int | rewrite peek_is_end
    | rewrite peek_is_leaf by ft
    | rewrite peek_is_enc by ft
    | rewrite N.eqb_refl
    | match goal with |- context [?a =? ?b] =>
        let v := eval vm_compute in (a =? b) in
        match v with true => idtac | false => idtac end;
        change (a =? b) with v end
    | rewrite nf_bool
    | rewrite nf_int by (first [assumption | tauto])
    | rewrite nf_end
    | unfold enc_op, enc_ident; rewrite nf_leaf by (first [ft | tauto | assumption])
    | rewrite expr_rt' by (first [lia | tauto | assumption]) ].

Lemma cidr_rt c n rs : wf_cidr c ->
  (pty rs =? FT_INTEGER_VALUE) = false ->
  dec_cidr n (st0 ((let '(Cidr inv ip mask) := c in
                    opt enc_bool inv ++ leaf FT_IP_VALUE ip ++ opt (fun m => enc_int (fst m) (snd m)) mask) ++ rs))
  = OK (c, st0 rs).
Proof.
  destruct c as [inv ip mask]. intros [Hip Hm] Hf. unfold dec_cidr.
  destruct inv as [b|]; destruct mask as [[v lit]|]; unfold opt; rewrite ?app_nil_l, ?app_nil_r; cbn [fst snd].
  all: pk.
  all: try reflexivity.
  all: unfold peek_is; unfold pty in Hf; rewrite Hf; reflexivity.
Qed.

Lemma dec_cidrs_S n st :
  dec_cidrs (S n) st =
  nf st (fun f st => if ftype f =? FT_END then OK ([], st)
                     else if ftype f =? FT_FIN then Err
                     else if ftype f =? FT_ACL_CIDR then
                       do (c, st) <- dec_cidr n st;
                       do (r, st) <- dec_cidrs n st; OK (c :: r, st)
                     else Err).
Proof. reflexivity. Qed.

Lemma pty_enc t p rs : is_ft t -> pty (enc_frame t p ++ rs) = t.
Proof. intros H. unfold pty. apply peek_frame_enc; exact H. Qed.
Lemma pty_end rs : pty (END_B ++ rs) = FT_END.
Proof. reflexivity. Qed.

Lemma cidrs_rt : forall l n rs, wf_cidrs l -> (length l < n)%nat ->
  dec_cidrs n (st0 (flat_map enc_cidr l ++ END_B ++ rs)) = OK (l, st0 rs).
Proof.
  induction l as [|c l IHl]; intros n rs Hw Hn; (destruct n as [|n]; [simpl in Hn; lia|]);
    rewrite dec_cidrs_S; cbn [flat_map]; rewrite ?app_nil_l.
  - rewrite nf_end. reflexivity.
  - cbn [wf_cidrs length] in *. unfold enc_cidr at 1. destruct c as [inv ip mask] eqn:Ec.
    rewrite <- app_assoc. rewrite nf_enc by ft. cbn [ftype]. pk.
    pose proof (cidr_rt (Cidr inv ip mask) n (flat_map enc_cidr l ++ END_B ++ rs) (proj1 Hw)) as Hc.
    cbv beta iota in Hc. rewrite <- !app_assoc in Hc. rewrite Hc.
    + pk. rewrite IHl by (first [lia | tauto]). reflexivity.
    + destruct l as [|[i2 ip2 m2] l]; cbn [flat_map]; rewrite ?app_nil_l.
      * rewrite pty_end. reflexivity.
      * unfold enc_cidr. rewrite <- app_assoc. rewrite pty_enc by ft. reflexivity.
Qed.

(* ---- backend / director / table properties, subroutine parameters ---- *)
Definition wf_bprop (p : bprop) : Prop :=
  match p with BProp k v => wf_str k /\ wf_expr v | BProbe k vs => wf_str k /\ wf_kvs vs end.
Fixpoint wf_bprops (l : list bprop) : Prop := match l with [] => True | x :: xs => wf_bprop x /\ wf_bprops xs end.
Definition bpsize (p : bprop) : nat :=
  match p with BProp k v => esize v | BProbe k vs => kvsize vs end.
Fixpoint bpssize (l : list bprop) : nat := match l with [] => 1%nat | x :: xs => (2 + bpsize x + bpssize xs)%nat end.

Lemma dec_bprops_S n st :
  dec_bprops (S n) st =
  nf st (fun f st => if ftype f =? FT_END then OK ([], st)
    else if ftype f =? FT_FIN then Err
    else if ftype f =? FT_BACKEND_PROPERTY then
      do (k, st) <- nf st (dec_leaf FT_IDENT_VALUE);
      do (v, st) <- nf st (dec_expr n);
      do (r, st) <- dec_bprops n st; OK (BProp k v :: r, st)
    else if ftype f =? FT_BACKEND_PROBE then
      do (k, st) <- nf st (dec_leaf FT_IDENT_VALUE);
      do (vs, st) <- dec_kvs FT_BACKEND_PROPERTY n st;
      do (r, st) <- dec_bprops n st; OK (BProbe k vs :: r, st)
    else Err).
Proof. reflexivity. Qed.

Lemma bprops_rt : forall l n rs, wf_bprops l -> (bpssize l < n)%nat ->
  dec_bprops n (st0 (flat_map enc_bprop l ++ END_B ++ rs)) = OK (l, st0 rs).
Proof.
  induction l as [|p l IHl]; intros n rs Hw Hn; (destruct n as [|n]; [simpl in Hn; lia|]);
    rewrite dec_bprops_S; cbn [flat_map]; rewrite ?app_nil_l.
  - rewrite nf_end. reflexivity.
  - cbn [wf_bprops bpssize] in *. destruct p as [k v|k vs]; cbn [enc_bprop wf_bprop bpsize] in *;
      rewrite <- app_assoc; rewrite nf_enc by ft; cbn [ftype]; pk.
    + rewrite IHl by (first [lia | tauto]). reflexivity.
    + rewrite kvs_rt by (first [ft | lia | tauto]). pk. rewrite IHl by (first [lia | tauto]). reflexivity.
Qed.

Definition wf_dprop (p : dprop) : Prop :=
  match p with DProp k v => wf_str k /\ wf_expr v | DBackendObj vs => wf_kvs vs end.
Fixpoint wf_dprops (l : list dprop) : Prop := match l with [] => True | x :: xs => wf_dprop x /\ wf_dprops xs end.
Definition dpsize (p : dprop) : nat :=
  match p with DProp k v => esize v | DBackendObj vs => kvsize vs end.
Fixpoint dpssize (l : list dprop) : nat := match l with [] => 1%nat | x :: xs => (2 + dpsize x + dpssize xs)%nat end.

Lemma dec_dprops_S n st :
  dec_dprops (S n) st =
  nf st (fun f st => if ftype f =? FT_END then OK ([], st)
    else if ftype f =? FT_FIN then Err
    else if ftype f =? FT_DIRECTOR_PROPERTY then
      do (k, st) <- nf st (dec_leaf FT_IDENT_VALUE);
      do (v, st) <- nf st (dec_expr n);
      do (r, st) <- dec_dprops n st; OK (DProp k v :: r, st)
    else if ftype f =? FT_DIRECTOR_BACKEND then
      do (vs, st) <- dec_kvs FT_DIRECTOR_PROPERTY n st;
      do (r, st) <- dec_dprops n st; OK (DBackendObj vs :: r, st)
    else Err).
Proof. reflexivity. Qed.

Lemma dprops_rt : forall l n rs, wf_dprops l -> (dpssize l < n)%nat ->
  dec_dprops n (st0 (flat_map enc_dprop l ++ END_B ++ rs)) = OK (l, st0 rs).
Proof.
  induction l as [|p l IHl]; intros n rs Hw Hn; (destruct n as [|n]; [simpl in Hn; lia|]);
    rewrite dec_dprops_S; cbn [flat_map]; rewrite ?app_nil_l.
  - rewrite nf_end. reflexivity.
  - cbn [wf_dprops dpssize] in *. destruct p as [k v|vs]; cbn [enc_dprop wf_dprop dpsize] in *;
      rewrite <- app_assoc; rewrite nf_enc by ft; cbn [ftype]; pk.
    + rewrite IHl by (first [lia | tauto]). reflexivity.
    + rewrite kvs_rt by (first [ft | lia | tauto]). pk. rewrite IHl by (first [lia | tauto]). reflexivity.
Qed.

Fixpoint wf_tprops (l : list (str * expr)) : Prop :=
  match l with [] => True | x :: xs => (wf_str (fst x) /\ wf_expr (snd x)) /\ wf_tprops xs end.

Lemma dec_tprops_S n st :
  dec_tprops (S n) st =
  nf st (fun f st => if ftype f =? FT_END then OK ([], st)
    else if ftype f =? FT_FIN then Err
    else if ftype f =? FT_TABLE_PROPERTY then
      do (k, st) <- nf st (dec_leaf FT_STRING_VALUE);
      do (v, st) <- nf st (dec_expr n);
      do (r, st) <- dec_tprops n st; OK ((k, v) :: r, st)
    else Err).
Proof. reflexivity. Qed.

Lemma tprops_rt : forall l n rs, wf_tprops l -> (kvsize l < n)%nat ->
  dec_tprops n (st0 (flat_map enc_tprop l ++ END_B ++ rs)) = OK (l, st0 rs).
Proof.
  induction l as [|[k v] l IHl]; intros n rs Hw Hn; (destruct n as [|n]; [simpl in Hn; lia|]);
    rewrite dec_tprops_S; cbn [flat_map]; rewrite ?app_nil_l.
  - rewrite nf_end. reflexivity.
  - cbn [wf_tprops kvsize fst snd] in *. unfold enc_tprop; cbn [fst snd].
    rewrite <- app_assoc; rewrite nf_enc by ft; cbn [ftype]; pk.
    rewrite IHl by (first [lia | tauto]). reflexivity.
Qed.

Fixpoint wf_params (l : list (str * str)) : Prop :=
  match l with [] => True | x :: xs => (wf_str (fst x) /\ wf_str (snd x)) /\ wf_params xs end.

Lemma params_rt : forall l n rs, wf_params l -> (length l < n)%nat ->
  (pty rs =? FT_SUBROUTINE_PARAMETER) = false ->
  dec_params n (st0 (flat_map enc_param l ++ rs)) = OK (l, st0 rs).
Proof.
  induction l as [|[ty nm] l IHl]; intros n rs Hw Hn Hf; (destruct n as [|n]; [simpl in Hn; lia|]);
    cbn [dec_params flat_map]; rewrite ?app_nil_l.
  - unfold peek_is. unfold pty in Hf. rewrite Hf. reflexivity.
  - cbn [wf_params length fst snd] in *. unfold enc_param; cbn [fst snd].
    rewrite <- app_assoc. rewrite peek_is_enc by ft. rewrite N.eqb_refl.
    rewrite next_frame_enc by ft. pk.
    rewrite IHl by (first [lia | tauto]). reflexivity.
Qed.

(* ---------- statements ---------- *)
Definition wf_ostr (o : option str) : Prop := match o with Some s => wf_str s | None => True end.
Definition u64 (d : Z) : Prop := (0 <= d < 18446744073709551616)%Z.

Fixpoint wf_stmt (s : stmt) : Prop :=
  let wf_block := fix go (l : list stmt) : Prop :=
    match l with [] => True | x :: xs => wf_stmt x /\ go xs end in
  match s with
  | SAdd id op v | SSet id op v => wf_str id /\ wf_str op /\ wf_expr v
  | SBlock b => wf_block b
  | SBreak | SEsi | SFallthrough | SRestart => True
  | SCall sub args => wf_str sub /\ wf_exprs args
  | SCase c => wf_cas c
  | SDeclare name ty v => wf_str name /\ wf_str ty /\ wf_oexpr v
  | SError code arg => wf_oexpr code /\ wf_oexpr arg /\ (code = None -> arg = None)
  | SFunCall f args => wf_str f /\ wf_exprs args
  | SGoto d | SGotoDest d | SImport d | SInclude d | SRemove d | SUnset d => wf_str d
  | SIf i => wf_ifs i
  | SLog v | SSynthetic v | SSyntheticB64 v => wf_expr v
  | SReturn paren v => wf_oexpr v
  | SSwitch ctl cases d =>
      wf_expr ctl /\ (fix go l := match l with [] => True | x :: xs => wf_cas x /\ go xs end) cases /\ u64 d
  | DAcl name cidrs => wf_str name /\ wf_cidrs cidrs
  | DBackend name props => wf_str name /\ wf_bprops props
  | DDirector name ty props => wf_str name /\ wf_str ty /\ wf_dprops props
  | DPenaltybox name | DRatecounter name => wf_str name
  | DSub name params ret b => wf_str name /\ wf_params params /\ wf_ostr ret /\ wf_block b
  | DTable name ty props => wf_str name /\ wf_ostr ty /\ wf_tprops props
  | SUnknownStmt => False
  end
with wf_ifs (i : ifs) : Prop :=
  let wf_block := fix go (l : list stmt) : Prop :=
    match l with [] => True | x :: xs => wf_stmt x /\ go xs end in
  match i with
  | IfS kw c csq another alt =>
      wf_str kw /\ wf_expr c /\ wf_block csq
      /\ (fix go l := match l with [] => True | x :: xs => wf_ifs x /\ go xs end) another
      /\ match alt with Some b => wf_block b | None => True end
  end
with wf_cas (c : cas) : Prop :=
  let wf_block := fix go (l : list stmt) : Prop :=
    match l with [] => True | x :: xs => wf_stmt x /\ go xs end in
  match c with
  | Cas test b ft => match test with Some i => wf_infix i | None => True end /\ wf_block b
  end.

Definition wf_block : list stmt -> Prop :=
  fix go (l : list stmt) : Prop := match l with [] => True | x :: xs => wf_stmt x /\ go xs end.
Definition wf_anothers : list ifs -> Prop :=
  fix go l := match l with [] => True | x :: xs => wf_ifs x /\ go xs end.
Definition wf_cases : list cas -> Prop :=
  fix go l := match l with [] => True | x :: xs => wf_cas x /\ go xs end.

Fixpoint ssize (s : stmt) : nat :=
  (let bsz := fix go (l : list stmt) : nat :=
    match l with [] => 1 | x :: xs => 2 + ssize x + go xs end in
  match s with
  | SAdd id op v | SSet id op v => 3 + esize v
  | SBlock b => 3 + bsz b
  | SCall sub args => 3 + esizes args
  | SCase c => 2 + csz c
  | SDeclare name ty v => 3 + osize v
  | SError code arg => 3 + osize code + osize arg
  | SFunCall f args => 3 + esizes args
  | SIf i => 2 + isz i
  | SLog v | SSynthetic v | SSyntheticB64 v => 3 + esize v
  | SReturn paren v => 3 + osize v
  | SSwitch ctl cases d =>
      4 + esize ctl + (fix go l := match l with [] => 1 | x :: xs => 2 + csz x + go xs end) cases
  | DAcl name cidrs => 3 + length cidrs
  | DBackend name props => 3 + bpssize props
  | DDirector name ty props => 3 + dpssize props
  | DSub name params ret b => 4 + length params + bsz b
  | DTable name ty props => 3 + kvsize props
  | _ => 3
  end)%nat
with isz (i : ifs) : nat :=
  (let bsz := fix go (l : list stmt) : nat :=
    match l with [] => 1 | x :: xs => 2 + ssize x + go xs end in
  match i with
  | IfS kw c csq another alt =>
      4 + esize c + bsz csq
      + (fix go l := match l with [] => 1 | x :: xs => 2 + isz x + go xs end) another
      + match alt with Some b => bsz b | None => 0 end
  end)%nat
with csz (c : cas) : nat :=
  (let bsz := fix go (l : list stmt) : nat :=
    match l with [] => 1 | x :: xs => 2 + ssize x + go xs end in
  match c with
  | Cas test b ft => 4 + match test with Some i => isize i | None => 0 end + bsz b
  end)%nat.

Definition bsz : list stmt -> nat :=
  fix go (l : list stmt) : nat := match l with [] => 1%nat | x :: xs => (2 + ssize x + go xs)%nat end.
Definition asz : list ifs -> nat :=
  fix go l := match l with [] => 1%nat | x :: xs => (2 + isz x + go xs)%nat end.
Definition cssz : list cas -> nat :=
  fix go l := match l with [] => 1%nat | x :: xs => (2 + csz x + go xs)%nat end.

(* the local fixpoints of the encoder, named *)
Definition enc_block : list stmt -> res (list byte) :=
  fix go (l : list stmt) : res (list byte) :=
    match l with
    | [] => OK END_B
    | x :: xs =>
        match enc_stmt x with
        | OK bx => do r <- go xs; OK (bx ++ r)
        | Err => Crash
        | Crash => Crash
        | OutOfFuel => OutOfFuel
        end
    end.
Definition enc_anothers : list ifs -> res (list byte) :=
  fix go (l : list ifs) : res (list byte) :=
    match l with
    | [] => OK []
    | x :: xs => do bx <- enc_ifs x; do r <- go xs; OK (bx ++ r)
    end.
Definition enc_cases : list cas -> res (list byte) :=
  fix go (l : list cas) : res (list byte) :=
    match l with
    | [] => OK []
    | x :: xs => do bx <- enc_cas x; do r <- go xs; OK (bx ++ r)
    end.

Lemma enc_ifs_eq kw c csq another alt :
  enc_ifs (IfS kw c csq another alt) =
  do pc <- enc_block csq;
  do pa <- enc_anothers another;
  do pe <- match alt with
           | None => OK []
           | Some b => do pb <- enc_block b;
                       OK (enc_frame FT_ELSE_STATEMENT (enc_frame FT_BLOCK_STATEMENT pb))
           end;
  OK (enc_frame FT_IF_STATEMENT
        (leaf FT_STRING_VALUE kw ++ enc_expr c ++ enc_frame FT_BLOCK_STATEMENT pc
         ++ pa ++ END_B ++ pe)).
Proof. reflexivity. Qed.

Lemma enc_cas_eq test b ft :
  enc_cas (Cas test b ft) =
  do pb <- enc_block b;
  OK (enc_frame FT_CASE_STATEMENT
        (opt enc_infix test ++ pb ++ (if ft then enc_bool true else []))).
Proof. reflexivity. Qed.

Lemma enc_block_eq b : enc_stmt (SBlock b) = do p <- enc_block b; OK (enc_frame FT_BLOCK_STATEMENT p).
Proof. reflexivity. Qed.
Lemma enc_switch_eq ctl cases d :
  enc_stmt (SSwitch ctl cases d) =
  do cs <- enc_cases cases;
  OK (enc_frame FT_SWITCH_STATEMENT (enc_expr ctl ++ cs ++ END_B ++ enc_int d [])).
Proof. reflexivity. Qed.
Lemma enc_sub_eq name params ret b :
  enc_stmt (DSub name params ret b) =
  do p <- enc_block b;
  OK (enc_frame FT_SUBROUTINE_DECLARATION
        (enc_ident name ++ flat_map enc_param params ++ opt enc_ident ret
         ++ enc_frame FT_BLOCK_STATEMENT p)).
Proof. reflexivity. Qed.

