(* C14 core, part 6: declarations as chunks of the output; the pass over a concatenation of
   declarations, in any order. *)
From Coq Require Import List Bool NArith Arith Lia Permutation.
From Falco Require Import Base.Bytes Model.FmtTok Model.FmtNorm
  Proofs.FmtComments Proofs.FmtIdem1 Proofs.FmtIdem2 Proofs.FmtIdem3 Proofs.FmtIdem4.
Import ListNotations.

Definition step_depth (d : nat) (t : tok) : nat :=
  match tk t with KLBrace => S d | KRBrace => pred d | _ => d end.
Definition closing (d : nat) (t : tok) : bool :=
  (kis (tk t) KRBrace || kis (tk t) KSemi) && Nat.eqb (step_depth d t) 0.

(* the tokens of exactly one declaration that starts at depth [d] *)
Fixpoint chunk_ok (d : nat) (A : list tok) : bool :=
  match A with
  | [] => false
  | t :: rest => if closing d t then match rest with [] => true | _ => false end
                 else chunk_ok (step_depth d t) rest
  end.

Lemma chunks_cons d acc cs t rest :
  chunks d acc ((cs, t) :: rest) =
  (if closing d t
   then let (gs, r) := chunks (step_depth d t) [] rest in (rev ((cs, t) :: acc) :: gs, r)
   else chunks (step_depth d t) ((cs, t) :: acc) rest).
Proof. reflexivity. Qed.

(* a prefix that closes nothing *)
Fixpoint pre_depth (d0 : nat) (P : list tok) : option nat :=
  match P with
  | [] => Some d0
  | t :: r => if closing d0 t then None else pre_depth (step_depth d0 t) r
  end.

Lemma pre_depth_app : forall P d0 d t, pre_depth d0 P = Some d -> closing d t = false ->
  pre_depth d0 (P ++ [t]) = Some (step_depth d t).
Proof.
  induction P as [|x r IH]; intros d0 d t H Hc; simpl in *.
  - inversion H; subst. now rewrite Hc.
  - destruct (closing d0 x); [discriminate|]. eauto.
Qed.

Lemma pre_chunk : forall P d0 d Q, pre_depth d0 P = Some d -> chunk_ok d Q = true -> chunk_ok d0 (P ++ Q) = true.
Proof.
  induction P as [|x r IH]; intros d0 d Q H HQ; simpl in *.
  - inversion H; subst. exact HQ.
  - destruct (closing d0 x); [discriminate|]. eauto.
Qed.

Lemma chunks_ok : forall its d acc gs r,
  pre_depth 0 (map snd (rev acc)) = Some d -> chunks d acc its = (gs, r) ->
  Forall (fun g => chunk_ok 0 (map snd g) = true) gs.
Proof.
  induction its as [|[cs t] rest IH]; intros d acc gs r Hp.
  - simpl. intros E; inversion E; subst. constructor.
  - rewrite chunks_cons. destruct (closing d t) eqn:Ec.
    + destruct (chunks (step_depth d t) [] rest) as [gs' r'] eqn:E'. intros E; inversion E; subst.
      constructor.
      * simpl rev. rewrite map_app. simpl. eapply pre_chunk; [exact Hp|]. simpl. now rewrite Ec.
      * assert (Hd : step_depth d t = 0).
        { unfold closing in Ec. apply andb_true_iff in Ec as [_ Ec]. now apply Nat.eqb_eq in Ec. }
        rewrite Hd in E'. eapply IH; [|exact E']. reflexivity.
    + intros E. eapply IH; [|exact E]. simpl rev. rewrite map_app. simpl. now apply pre_depth_app.
Qed.

Lemma chunks_app : forall A rest d acc,
  chunk_ok d (map snd A) = true ->
  chunks d acc (A ++ rest) = (let (gs, r) := chunks 0 [] rest in ((rev acc ++ A) :: gs, r)).
Proof.
  induction A as [|[cs t] A' IH]; intros rest d acc H; simpl in H; [discriminate|].
  change (((cs, t) :: A') ++ rest) with ((cs, t) :: (A' ++ rest)). rewrite chunks_cons.
  destruct (closing d t) eqn:Ec.
  - destruct A' as [|x A'']; [|discriminate]. simpl.
    assert (Hd : step_depth d t = 0).
    { unfold closing in Ec. apply andb_true_iff in Ec as [_ Ec]. now apply Nat.eqb_eq in Ec. }
    rewrite Hd. destruct (chunks 0 [] rest). reflexivity.
  - rewrite (IH rest _ _ H). destruct (chunks 0 [] rest). simpl. now rewrite <- app_assoc.
Qed.

(* ---------------------------------------------------------------- the state over a declaration *)
Lemma adv_closing c s t : closing (depth s) t = true -> adv c s t = st0.
Proof.
  intros H. unfold adv. destruct (next_mode (mode s) (pe s) t).
  assert (E : kis (tk t) KRBrace && (depth s <=? 1) || kis (tk t) KSemi && (depth s =? 0) = true).
  { unfold closing, step_depth in H. apply andb_true_iff in H as [H1 H2]. apply Nat.eqb_eq in H2.
    destruct (tk t); simpl in *; try discriminate; rewrite ?orb_false_r.
    - apply Nat.leb_le. lia.
    - apply Nat.eqb_eq. lia. }
  rewrite E. reflexivity.
Qed.

Lemma adv_depth c s t : closing (depth s) t = false -> depth (adv c s t) = step_depth (depth s) t.
Proof.
  intros H. unfold adv. destruct (next_mode (mode s) (pe s) t).
  assert (E : kis (tk t) KRBrace && (depth s <=? 1) || kis (tk t) KSemi && (depth s =? 0) = false).
  { unfold closing, step_depth in H.
    destruct (tk t); simpl in *; try reflexivity.
    - destruct (depth s) as [|[|n]]; simpl in *; try discriminate; reflexivity.
    - destruct (depth s); simpl in *; try discriminate; reflexivity. }
  rewrite E. simpl. unfold step_depth. destruct (tk t); reflexivity.
Qed.

Lemma fold_chunk c : forall A s, chunk_ok (depth s) A = true -> fold_left (adv c) A s = st0.
Proof.
  induction A as [|t r IH]; intros s H; simpl in H; [discriminate|]. simpl.
  destruct (closing (depth s) t) eqn:Ec.
  - destruct r; [|discriminate]. simpl. now apply adv_closing.
  - apply IH. now rewrite adv_depth.
Qed.

(* ---------------------------------------------------------------- quietness: tokens only, look-ahead at the end *)
Lemma quiet_seq_toks c : forall E E' s nk,
  map snd E = map snd E' -> quiet_seq c s E nk = quiet_seq c s E' nk.
Proof.
  induction E as [|[cs e] r IH]; intros [|[cs' e'] r'] s nk H; simpl in *; try discriminate; auto.
  inversion H; subst. f_equal.
  - f_equal. destruct r as [|[? ?] ?], r' as [|[? ?] ?]; simpl in *; try discriminate; auto.
    now inversion H2.
  - now apply IH.
Qed.

Lemma quietb_closing c s t nk nk' :
  (kis (tk t) KRBrace || kis (tk t) KSemi) = true -> quietb c s t nk = quietb c s t nk'.
Proof.
  intros H. unfold quietb. f_equal.
  assert (D : decide c s t nk = decide c s t nk').
  { unfold decide, normal.
    destruct (tk t) eqn:Ek; simpl in H; try discriminate; simpl;
      repeat rewrite ?andb_false_r, ?andb_false_l; simpl; reflexivity. }
  now rewrite D.
Qed.

Lemma quiet_seq_chunk_nk c : forall A s nk nk',
  chunk_ok (depth s) (map snd A) = true -> quiet_seq c s A nk = quiet_seq c s A nk'.
Proof.
  induction A as [|[cs t] r IH]; intros s nk nk' H; simpl in H; [discriminate|]. simpl.
  destruct (closing (depth s) t) eqn:Ec.
  - destruct r; [|discriminate]. simpl. f_equal. apply quietb_closing.
    unfold closing in Ec. now apply andb_true_iff in Ec as [Ec _].
  - destruct r as [|[cs2 t2] r2]; [discriminate|].
    f_equal. apply IH. now rewrite adv_depth.
Qed.
