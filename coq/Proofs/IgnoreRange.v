(* range_exact: a falco-ignore-start ... falco-ignore-end pair around consecutive statements. *)
From Coq Require Import List Bool Arith Lia.
From Falco Require Import Base.Bytes Model.Ignore Model.IgnoreSpec Proofs.IgnoreBasics Proofs.IgnoreSim
  Proofs.IgnoreExact Proofs.IgnoreNT.
Import ListNotations.

Lemma run_kids_app l1 l2 p i s qv qp :
  run_kids (l1 ++ l2) p i s qv qp =
  let r1 := run_kids l1 p i s qv qp in
  let r2 := run_kids l2 p (i + length l1) (r_st r1) (r_qv r1) (r_qp r1) in
  (r_st r2, r_qv r2, r_qp r2, r_out r1 ++ r_out r2).
Proof.
  revert i s qv qp. induction l1 as [|x l1 IH]; intros i s qv qp; cbn [app length].
  - rewrite run_kids_nil. cbn zeta. rproj. rewrite Nat.add_0_r. cbn [app]. apply rres_eta.
  - rewrite !run_kids_cons. cbn zeta. rewrite IH. cbn zeta. rproj.
    replace (S i + length l1) with (i + S (length l1)) by lia. rewrite app_assoc. reflexivity.
Qed.

(* ------------------------------------------------------------------ range-free subtrees leave the range set alone *)
Lemma free_rg_lead a c : is_range_comment c = false -> rg_lead a c = a.
Proof. unfold is_range_comment, rg_lead. destruct (parse_ignore_comment c) as [[[] L]|]; auto; discriminate. Qed.
Lemma free_rg_end a c : is_range_comment c = false -> rg_end a c = a.
Proof. unfold is_range_comment, rg_end. destruct (parse_ignore_comment c) as [[[] L]|]; auto; discriminate. Qed.


Lemma fold_free (h : irules -> list byte -> irules) :
  (forall a c, is_range_comment c = false -> h a c = a) ->
  forall l a, free_list l = true -> fold_left h l a = a.
Proof.
  intros H l. induction l as [|c l IH]; intros a Hl; cbn; auto.
  cbn in Hl. apply andb_true_iff in Hl. destruct Hl as [Hc Hl].
  rewrite H by (destruct (is_range_comment c); [discriminate | reflexivity]). apply IH. exact Hl.
Qed.

Lemma rfm_split m : range_free_meta m = true ->
  free_list (leading m) = true /\ free_list (trailing m) = true /\ free_list (infix m) = true.
Proof.
  unfold range_free_meta, free_list. intros H. apply andb_true_iff in H. destruct H as [H H3].
  apply andb_true_iff in H. tauto.
Qed.

Lemma rg_setup_free w m s : range_free_meta m = true -> rg (setup w m s) = rg s.
Proof. intros H. destruct (rfm_split m H) as (A & _ & _). rewrite rg_setup. apply (fold_free rg_lead free_rg_lead); auto. Qed.

Lemma rg_teardown_free w m s : range_free_meta m = true -> rg (teardown w m s) = rg s.
Proof.
  intros H. destruct (rfm_split m H) as (_ & B & C). rewrite rg_teardown. destruct w; cbn [rg_teardown_of]; auto.
  rewrite !(fold_free rg_end free_rg_end); auto.
Qed.

Lemma rg_unchanged_kids ks :
  Forall (fun n => range_free n = true -> forall p s qv qp, rg (r_st (run n p s qv qp)) = rg s) ks ->
  forallb range_free ks = true -> forall p i s qv qp, rg (r_st (run_kids ks p i s qv qp)) = rg s.
Proof.
  induction 1 as [|k ks Hk _ IH]; intros Hf p i s qv qp.
  - rewrite run_kids_nil. reflexivity.
  - cbn in Hf. apply andb_true_iff in Hf. destruct Hf as [H1 H2].
    rewrite run_kids_cons. cbn zeta. rproj. rewrite IH by exact H2. apply Hk. exact H1.
Qed.

Lemma rg_unchanged n : range_free n = true -> forall p s qv qp, rg (r_st (run n p s qv qp)) = rg s.
Proof.
  induction n as [w m fl pre lsub lprog kids IH] using node_ind'. intros Hf p s qv qp.
  cbn in Hf. apply andb_true_iff in Hf. destruct Hf as [Hm Hk].
  rewrite run_node. cbn zeta. rproj. rewrite rg_teardown_free by exact Hm.
  unfold inner. rproj. rewrite (rg_unchanged_kids kids IH Hk). apply rg_setup_free. exact Hm.
Qed.

Lemma rg_unchanged_kids' ks : forallb range_free ks = true ->
  forall p i s qv qp, rg (r_st (run_kids ks p i s qv qp)) = rg s.
Proof. intros H. apply rg_unchanged_kids; auto. apply Forall_forall. intros n _ Hn. apply rg_unchanged. exact Hn. Qed.

Lemma mem_self x l : In x l -> mem x l = true.
Proof.
  intros H. unfold mem. apply existsb_exists. exists x. split; auto. apply bytes_eqb_refl.
Qed.

Lemma unignore_ignore L a : rg_clear L a -> unignore_rules (ignore_rules a L) L = a.
Proof.
  intros (H1 & H2 & H3). destruct a as [al rs]. cbn [all rules] in *. subst al.
  destruct L as [|x L'].
  - cbn. rewrite (H3 eq_refl). reflexivity.
  - unfold ignore_rules, unignore_rules. cbn [all rules]. f_equal.
    remember (x :: L') as LL eqn:EL. clear EL H3.
    rewrite filter_app.
    replace (filter (fun y => negb (mem y LL)) LL) with (@nil rule).
    + rewrite app_nil_r. apply filter_true. intros y Hy.
      destruct (mem y LL) eqn:E; auto. pose proof (H2 y E) as H4.
      pose proof (mem_self y rs Hy). congruence.
    + symmetry.
      assert (G : forall l, (forall y, In y l -> mem y LL = true) -> filter (fun y => negb (mem y LL)) l = []).
      { induction l as [|y l IH]; cbn; intros Hl; auto. rewrite (Hl y (or_introl eq_refl)). cbn. apply IH.
        intros z Hz. apply Hl. right. exact Hz. }
      apply G. intros y Hy. apply mem_self. exact Hy.
Qed.

(* ------------------------------------------------------------------ the pair *)
Section Range.
  Variable L : list rule.
  Variables c1 c2 : list byte.
  Hypothesis Hc1 : parse_ignore_comment c1 = Some (Start, L).
  Hypothesis Hc2 : parse_ignore_comment c2 = Some (End, L).
  Variable F : diag -> bool.

  Let X0 := fun _ : rule => false.
  Let XG := named L.

  (* the state inside the region: as outside, plus the rules of the pair in the range set *)
  Definition RS (s s' : istate) : Prop :=
    nl s' = nl s /\ tl s' = tl s /\ stack s' = stack s /\ rg s' = ignore_rules (rg s) L.

  Lemma RS_Rel s s' : RS s s' -> Rel X0 X0 XG true s s'.
  Proof.
    intros (A & B & C & D). unfold Rel, relN, relT, relG. rewrite A, B, D. repeat split.
    - intros r. unfold X0. rewrite orb_false_r. reflexivity.
    - intros r. unfold X0. rewrite orb_false_r. reflexivity.
    - intros r. apply den_ignore.
    - discriminate.
  Qed.

  Lemma HXG_true : true = false -> forall r : rule, XG r = false.
  Proof. discriminate. Qed.

  Lemma X_region r : X X0 X0 XG r = named L r.
  Proof. reflexivity. Qed.

  Lemma region_node n p s s' qv qp :
    range_free n = true -> RS s s' ->
    (forall p' r, is_prefix p p' = true -> F (p', r) = negb (named L r)) ->
    let r := run n p s qv qp in
    let r' := run n p s' (filter F qv) (filter F qp) in
    RS (r_st r) (r_st r') /\ rg (r_st r) = rg s /\
    r_qv r' = filter F (r_qv r) /\ r_qp r' = filter F (r_qp r) /\ r_out r' = filter F (r_out r).
  Proof.
    intros Hf HRS HF. cbn zeta.
    destruct (inside_node X0 X0 XG true HXG_true F n p s s' qv qp) as (_ & B & C & D); auto using RS_Rel.
    destruct HRS as (E1 & E2 & E3 & E4).
    destruct (run_restores n p s qv qp) as (R1 & R2 & R3).
    destruct (run_restores n p s' (filter F qv) (filter F qp)) as (R1' & R2' & R3').
    pose proof (rg_unchanged n Hf p s qv qp) as G.
    pose proof (rg_unchanged n Hf p s' (filter F qv) (filter F qp)) as G'.
    unfold RS. repeat split; auto; congruence.
  Qed.

  Lemma region_kids ks p i s s' qv qp :
    forallb range_free ks = true -> RS s s' ->
    (forall j p' r, i <= j < i + length ks -> is_prefix (p ++ [j]) p' = true -> F (p', r) = negb (named L r)) ->
    let r := run_kids ks p i s qv qp in
    let r' := run_kids ks p i s' (filter F qv) (filter F qp) in
    RS (r_st r) (r_st r') /\ rg (r_st r) = rg s /\
    r_qv r' = filter F (r_qv r) /\ r_qp r' = filter F (r_qp r) /\ r_out r' = filter F (r_out r).
  Proof.
    intros Hf HRS HF. cbn zeta.
    assert (HK : Forall (inside_stmt X0 X0 XG true F) ks).
    { apply Forall_forall. intros x _. apply inside_node. exact HXG_true. }
    destruct (inside_kids X0 X0 XG true F ks HK p i s s' qv qp HF (RS_Rel _ _ HRS) (fun _ => Hf))
      as (_ & B & C & D).
    destruct HRS as (E1 & E2 & E3 & E4).
    destruct (run_kids_restores' ks p i s qv qp) as (R1 & R2 & R3).
    destruct (run_kids_restores' ks p i s' (filter F qv) (filter F qp)) as (R1' & R2' & R3').
    pose proof (rg_unchanged_kids' ks Hf p i s qv qp) as G.
    pose proof (rg_unchanged_kids' ks Hf p i s' (filter F qv) (filter F qp)) as G'.
    unfold RS. repeat split; auto; congruence.
  Qed.

  Lemma fold_insert_free k c l a : free_list l = true ->
    fold_left rg_lead (insert_at k c l) a = rg_lead a c.
  Proof.
    revert l a. induction k as [|k IH]; intros l a Hl.
    - cbn. apply (fold_free rg_lead free_rg_lead). exact Hl.
    - destruct l as [|y l]; cbn; auto.
      cbn in Hl. apply andb_true_iff in Hl. destruct Hl as [Hy Hl].
      rewrite (free_rg_lead a y) by (destruct (is_range_comment y); [discriminate | reflexivity]).
      apply IH. exact Hl.
  Qed.

  (* the statement that carries the start comment *)
  Lemma start_node n k1 p s qv qp :
    range_free n = true ->
    (forall p' r, is_prefix p p' = true -> F (p', r) = negb (named L r)) ->
    let r := run n p s qv qp in
    let r' := run (add_leading k1 c1 n) p s (filter F qv) (filter F qp) in
    RS (r_st r) (r_st r') /\ rg (r_st r) = rg s /\
    r_qv r' = filter F (r_qv r) /\ r_qp r' = filter F (r_qp r) /\ r_out r' = filter F (r_out r).
  Proof.
    intros Hf HF. destruct n as [w m fl pre lsub lprog kids]. cbn [add_leading]. cbn zeta.
    set (m' := {| leading := insert_at k1 c1 (leading m); trailing := trailing m; infix := infix m |}).
    cbn in Hf. apply andb_true_iff in Hf. destruct Hf as [Hm Hk]. destruct (rfm_split m Hm) as (M1 & M2 & M3).
    assert (HS : RS (setup w m s) (setup w m' s)).
    { unfold RS. rewrite !nl_setup, !tl_setup, !rg_setup, !setup_stack. subst m'. cbn [leading trailing].
      split; [|split; [|split]].
      - apply fold_insert_noop. intros a. unfold nl_lead. rewrite Hc1. reflexivity.
      - destruct w; reflexivity.
      - reflexivity.
      - rewrite fold_insert_free by exact M1. rewrite (fold_free rg_lead free_rg_lead) by exact M1.
        unfold rg_lead. rewrite Hc1. reflexivity. }
    rewrite !run_node. cbn zeta. rproj.
    assert (HF' : forall p' r, is_prefix p p' = true -> F (p', r) = negb (X X0 X0 XG r)) by exact HF.
    assert (HK : Forall (inside_stmt X0 X0 XG true F) kids).
    { apply Forall_forall. intros x _. apply inside_node. exact HXG_true. }
    destruct (inside_inner X0 X0 XG true F fl pre lsub lprog kids p _ _ qv qp HK HF' (RS_Rel _ _ HS) (fun _ => Hk))
      as (_ & B & C & D).
    cbn zeta in B, C, D.
    destruct (teardown_restores w m _ _ _ _ (inner_stack w m fl pre lsub lprog kids p s qv qp)) as (E1 & E2 & E3).
    destruct (teardown_restores w m' _ _ _ _ (inner_stack w m' fl pre lsub lprog kids p s (filter F qv) (filter F qp))) as (E1' & E2' & E3').
    assert (G : rg (teardown w m (r_st (inner fl pre lsub lprog kids p (setup w m s) qv qp))) = rg s).
    { rewrite rg_teardown_free by exact Hm. unfold inner. rproj.
      rewrite rg_unchanged_kids' by exact Hk. apply rg_setup_free. exact Hm. }
    assert (G' : rg (teardown w m' (r_st (inner fl pre lsub lprog kids p (setup w m' s) (filter F qv) (filter F qp)))) = ignore_rules (rg s) L).
    { rewrite rg_teardown. replace (rg_teardown_of w m') with (rg_teardown_of w m) by (destruct w; reflexivity).
      rewrite <- rg_teardown. rewrite rg_teardown_free by exact Hm. unfold inner. rproj.
      rewrite rg_unchanged_kids' by exact Hk. destruct HS as (_ & _ & _ & HS4). rewrite HS4.
      rewrite rg_setup_free by exact Hm. reflexivity. }
    unfold RS. repeat split; auto; congruence.
  Qed.

  Lemma close_fold k l a : free_list (firstn k l) = true -> rg_clear L a ->
    fold_left rg_lead (insert_at k c2 l) (ignore_rules a L) = fold_left rg_lead l a.
  Proof.
    revert l. induction k as [|k IH]; intros l Hl Ha.
    - cbn. unfold rg_lead at 2. rewrite Hc2. rewrite (unignore_ignore L a) by exact Ha. reflexivity.
    - destruct l as [|y l]; cbn.
      + unfold rg_lead. rewrite Hc2. apply (unignore_ignore L a). exact Ha.
      + cbn in Hl. apply andb_true_iff in Hl. destruct Hl as [Hy Hl].
        assert (Ey : is_range_comment y = false) by (destruct (is_range_comment y); [discriminate | reflexivity]).
        rewrite !(free_rg_lead _ y Ey). apply IH; auto.
  Qed.

  (* the statement that carries the end comment: from then on the two runs coincide *)
  Lemma close_node n k2 p s s' qv qp :
    free_list (firstn k2 (leading (node_meta n))) = true ->
    RS s s' -> rg_clear L (rg s) ->
    run (add_leading k2 c2 n) p s' qv qp = run n p s qv qp.
  Proof.
    intros Hl (E1 & E2 & E3 & E4) Hclear. destruct n as [w m fl pre lsub lprog kids]. cbn [add_leading node_meta] in *.
    set (m' := {| leading := insert_at k2 c2 (leading m); trailing := trailing m; infix := infix m |}).
    rewrite !run_node. cbn zeta.
    assert (HS : setup w m' s' = setup w m s).
    { apply istate_eq.
      - rewrite !nl_setup. subst m'. cbn [leading]. rewrite E1. apply fold_insert_noop.
        intros a. unfold nl_lead. rewrite Hc2. reflexivity.
      - rewrite !tl_setup, E2. destruct w; reflexivity.
      - rewrite !rg_setup, E4. subst m'. cbn [leading]. apply close_fold; auto.
      - rewrite !setup_stack. congruence. }
    rewrite HS. replace (teardown w m') with (teardown w m) by (destruct w; reflexivity). reflexivity.
  Qed.
End Range.
