(* Literal lemmas: integers keep their exact value (int64 range, 2^63 only behind a unary
   minus), escapes are decoded only in double-quoted strings, decodeStringEscapes facts. *)
From Coq Require Import List NArith ZArith Bool Lia.
From Falco Require Import Base.Bytes Base.Utf8 Gen.TokenTypes Model.ParseKinds Gen.ParserTables
  Model.ParseBase Model.Ast Model.ParseLit Model.ParseExpr Proofs.ParseExprTotal.
Import ListNotations.
Local Open Scope N_scope.

(* ---------- integers *)
(* the mathematical value of a digit string in a base *)
Definition digit_ok (base : N) (b : byte) : bool :=
  match digit_val b with Some d => d <? base | None => false end.
Definition digit_of (b : byte) : N := match digit_val b with Some d => d | None => 0 end.
Fixpoint digits_value (base acc : N) (s : str) : N :=
  match s with
  | [] => acc
  | c :: s' => digits_value base (acc * base + digit_of c) s'
  end.

Lemma digits_value_ge base s : forall acc, 1 <= base -> acc <= digits_value base acc s.
Proof.
  induction s as [|c s IH]; intros acc Hb; simpl; [lia|].
  specialize (IH (acc * base + digit_of c) Hb). nia.
Qed.

Lemma uint_loop_spec base s : 1 <= base -> forallb (digit_ok base) s = true -> forall acc,
  acc < two64 ->
  uint_loop base acc s = if two64 <=? digits_value base acc s then None else Some (digits_value base acc s).
Proof.
  intros Hb. induction s as [|c s IH]; intros Hok acc Hacc.
  - simpl. replace (two64 <=? acc) with false by (symmetry; apply N.leb_gt; exact Hacc). reflexivity.
  - simpl in Hok. apply andb_true_iff in Hok. destruct Hok as [Hc Hs].
    unfold digit_ok in Hc. cbn [uint_loop digits_value]. unfold digit_of.
    destruct (digit_val c) as [d|] eqn:Ed; [|discriminate].
    apply N.ltb_lt in Hc. replace (base <=? d) with false by (symmetry; apply N.leb_gt; exact Hc).
    pose proof (digits_value_ge base s (acc * base + d) Hb) as Hge.
    destruct (two64 <=? acc * base + d) eqn:E1.
    + apply N.leb_le in E1.
      replace (two64 <=? digits_value base (acc * base + d) s) with true by (symmetry; apply N.leb_le; lia).
      reflexivity.
    + apply N.leb_gt in E1. apply (IH Hs). exact E1.
Qed.

Lemma parse_uint_spec base s : 1 <= base -> s <> [] -> forallb (digit_ok base) s = true ->
  parse_uint base s = if two64 <=? digits_value base 0 s then None else Some (digits_value base 0 s).
Proof.
  intros Hb Hne Hok. unfold parse_uint. destruct s; [congruence|].
  apply (uint_loop_spec base _ Hb Hok 0). reflexivity.
Qed.

Lemma digit_ok_not_sign base c : digit_ok base c = true -> is_c 43 c = false /\ is_c 45 c = false.
Proof.
  unfold digit_ok, digit_val, is_c. set (n := b2n c).
  destruct ((48 <=? n) && (n <=? 57)) eqn:E1.
  { intros _. apply andb_true_iff in E1. destruct E1 as [A B]. apply N.leb_le in A, B.
    split; apply N.eqb_neq; lia. }
  destruct ((97 <=? n) && (n <=? 122)) eqn:E2.
  { intros _. apply andb_true_iff in E2. destruct E2 as [A B]. apply N.leb_le in A, B.
    split; apply N.eqb_neq; lia. }
  destruct ((65 <=? n) && (n <=? 90)) eqn:E3; [|discriminate].
  intros _. apply andb_true_iff in E3. destruct E3 as [A B]. apply N.leb_le in A, B.
  split; apply N.eqb_neq; lia.
Qed.

(* int_literal_exact: for a literal the lexer can produce (decimal digits, or hex digits behind
   0x / 0X), ParseInteger succeeds exactly when the magnitude u fits int64 - then the value is u -
   or u = 2^63 directly behind a unary minus - then the value is -2^63 (the prefix minus makes it
   INT_MIN's magnitude again).  Nothing else is accepted, nothing is rounded. *)
Theorem int_literal_exact negated l base digits :
  int_split l = (base, digits) -> 1 <= base -> digits <> [] -> forallb (digit_ok base) digits = true ->
  let u := digits_value base 0 digits in
  conv_integer negated l =
    if u <? two63 then Some (Z.of_N u)
    else if (u =? two63) && negated then Some (- Z.of_N two63)%Z
    else None.
Proof.
  intros Hs Hb Hne Hok u. unfold conv_integer. rewrite Hs.
  unfold parse_int. destruct digits as [|c ds]; [congruence|].
  assert (Hc : digit_ok base c = true) by (simpl in Hok; apply andb_true_iff in Hok; tauto).
  destruct (digit_ok_not_sign base c Hc) as [H1 H2]. rewrite H1, H2.
  rewrite (parse_uint_spec base (c :: ds) Hb Hne Hok). fold u.
  destruct (two64 <=? u) eqn:E64.
  - apply N.leb_le in E64.
    replace (u <? two63) with false by (symmetry; apply N.ltb_ge; unfold two63, two64 in *; lia).
    replace (u =? two63) with false by (symmetry; apply N.eqb_neq; unfold two63, two64 in *; lia).
    reflexivity.
  - destruct (two63 <=? u) eqn:E63.
    + apply N.leb_le in E63. replace (u <? two63) with false by (symmetry; apply N.ltb_ge; lia). reflexivity.
    + apply N.leb_gt in E63. replace (u <? two63) with true by (symmetry; apply N.ltb_lt; lia). reflexivity.
Qed.

Example int_boundary :
  conv_integer false (map n2b [57;50;50;51;51;55;50;48;51;54;56;53;52;55;55;53;56;48;55]) = Some 9223372036854775807%Z
  /\ conv_integer false (map n2b [57;50;50;51;51;55;50;48;51;54;56;53;52;55;55;53;56;48;56]) = None
  /\ conv_integer true (map n2b [57;50;50;51;51;55;50;48;51;54;56;53;52;55;55;53;56;48;56]) = Some (-9223372036854775808)%Z
  /\ conv_integer true (map n2b [48;120;56;48;48;48;48;48;48;48;48;48;48;48;48;48;48;48]) = Some (-9223372036854775808)%Z
  /\ conv_integer false (map n2b [48;120;70;70;70;70;70;70;70;70;70;70;70;70;70;70;70;70]) = None.
Proof. vm_compute. repeat split; reflexivity. Qed.

(* ---------- strings *)
(* escape_only_in_dquote: a STRING token that is not the double-quoted kind (Offset <> 2: the
   body of a long string) is taken verbatim *)
Theorem escape_only_in_dquote st : (off (cur st) =? 2) = false -> pstring st = POK (lit (cur st)).
Proof. intros H. unfold pstring. rewrite H. reflexivity. Qed.

(* ... so the value of a long string in a lexer-shaped stream is its raw text *)
Theorem long_string_raw st o s c v st' :
  typ (cur st) = T_OPEN_LONG_STRING -> long_ok (toks st) = true ->
  plong st = POK (o, s, c, v, st') -> v = lit s /\ s = peek st.
Proof.
  intros Ho Hw. unfold plong. destruct (peek_is st T_STRING) eqn:E1; cbn [negb]; [|discriminate].
  assert (Hoff : (off (peek st) =? 2) = false).
  { unfold peek_is, peek, cur in *. destruct (toks st) as [|o0 [|s0 r]]; simpl in *;
      try (vm_compute in E1; discriminate).
    rewrite Ho, E1 in Hw. simpl in Hw. apply andb_true_iff in Hw. destruct Hw as [Hw _].
    apply negb_true_iff in Hw. exact Hw. }
  rewrite (escape_only_in_dquote (next st)) by exact Hoff.
  destruct (negb _); [discriminate|]. destruct (negb _); [discriminate|].
  intros H. inversion H; subst. split; reflexivity.
Qed.

(* decodeStringEscapes: text without '%', NUL or non-ASCII bytes is unchanged *)
Definition plain (b : byte) : bool := (0 <? b2n b) && (b2n b <? 128) && negb (b2n b =? 37).

Lemma dec_esc_plain : forall s fuel, (length s < fuel)%nat -> forallb plain s = true ->
  dec_esc fuel s = POK s.
Proof.
  induction s as [|b s IH]; intros fuel Hf Hp.
  - destruct fuel; [simpl in Hf; lia|]. reflexivity.
  - destruct fuel; [simpl in Hf; lia|]. simpl in Hp. apply andb_true_iff in Hp. destruct Hp as [Hb Hs].
    unfold plain in Hb. apply andb_true_iff in Hb. destruct Hb as [Hb H37].
    apply andb_true_iff in Hb. destruct Hb as [H0 H128].
    cbn [dec_esc]. unfold dec_rune. rewrite H128. cbn [skipn].
    apply N.ltb_lt in H0. replace (b2n b =? 0) with false by (symmetry; apply N.eqb_neq; lia).
    apply negb_true_iff in H37. rewrite H37.
    rewrite IH by (simpl in Hf; try assumption; lia). cbn [pcons].
    unfold enc_rune. replace (valid_scalar (b2n b)) with true.
    2:{ symmetry. unfold valid_scalar. apply N.ltb_lt in H128. apply orb_true_iff. left. apply N.ltb_lt. lia. }
    rewrite H128. rewrite n2b_b2n. reflexivity.
Qed.

Theorem decode_escapes_plain s : forallb plain s = true -> decode_escapes s = POK s.
Proof. intros H. unfold decode_escapes. apply dec_esc_plain; [lia | exact H]. Qed.

(* one %XX escape of an ASCII byte in front of the rest *)
Lemma dec_esc_pct_ascii fuel h1 h2 s :
  is_hex h1 = true -> is_hex h2 = true -> is_c 117 h1 = false ->
  let v := hex_val h1 * 16 + hex_val h2 in
  0 < v -> v < 128 ->
  dec_esc (S fuel) (n2b 37 :: h1 :: h2 :: s) = pcons [n2b v] (dec_esc fuel s).
Proof.
  intros H1 H2 Hu v Hv0 Hv. cbn [dec_esc]. unfold dec_rune.
  replace (b2n (n2b 37)) with 37 by reflexivity.
  change (37 <? 128) with true. cbn [skipn]. change (37 =? 0) with false. change (37 =? 37) with true.
  cbn iota. rewrite Hu. unfold utf8_escape, read_byte. rewrite H1, H2. cbn [andb]. fold v.
  apply N.ltb_lt in Hv. rewrite Hv.
  replace (v =? 0) with false by (symmetry; apply N.eqb_neq; lia). reflexivity.
Qed.

(* a NUL escape ends the string: what follows is dropped (here: %00 at the front of the rest) *)
Lemma dec_esc_nul fuel s : dec_esc (S fuel) (n2b 37 :: n2b 48 :: n2b 48 :: s) = POK [].
Proof. reflexivity. Qed.

Example decode_examples :
  decode_escapes (map n2b [97;37;50;48;98]) = POK (map n2b [97;32;98])                  (* "a%20b" -> "a b" *)
  /\ decode_escapes (map n2b [37;117;48;48;101;57]) = POK (map n2b [195;169])            (* "%u00e9" -> U+00E9 *)
  /\ decode_escapes (map n2b [37;117;123;49;70;54;48;48;125]) = POK (map n2b [240;159;152;128])  (* "%u{1F600}" *)
  /\ decode_escapes (map n2b [37;67;51;37;65;57]) = POK (map n2b [195;169])              (* "%C3%A9" *)
  /\ decode_escapes (map n2b [97;37;48;48;98]) = POK (map n2b [97])                      (* "a%00b" -> "a" *)
  /\ decode_escapes (map n2b [37;67;51;37;52;49]) = PErrNoTok                            (* "%C3%41": ill-formed *)
  /\ decode_escapes (map n2b [37;117;68;56;48;48]) = PErrNoTok.                          (* "%uD800": surrogate *)
Proof. vm_compute. repeat split; reflexivity. Qed.
