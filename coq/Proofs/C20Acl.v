(* C20 - end to end for generated ACLs: negation, address, mask, IPv6; the comment of an entry
   is lexed as ONE comment token and never reaches the parser. *)
From Coq Require Import List NArith ZArith Bool Lia Arith ZifyBool ZifyN ZifyNat.
From Coq Require Import Strings.Byte.
From Falco Require Import Base.Res Base.Bytes Base.Utf8 Proofs.Utf8Proofs Gen.Tokens Model.Lex Model.Pump
  Proofs.LexProgress Proofs.C20Classes Proofs.C20Lex Proofs.C20Chain Proofs.C20Table.
From Falco Require Model.Escape Proofs.EscapeProofs Gen.TokenTypes Model.ParseBase Model.ParseLit Model.Ast Model.Yield
  Model.ParseDecl Model.LexParse Proofs.ParsePratt Proofs.ParseLitFacts Proofs.ParseProgram4 Proofs.ParseProgram5.
Import ListNotations.
Local Open Scope N_scope.
Ltac Zify.zify_post_hook ::= Z.div_mod_to_equations.

(* ---- token specifications: an exact projection, or any comment ---- *)
Inductive tokspec := Exact (p : ptok) | AnyComment.
Definition spec_pred (s : tokspec) : token -> Prop :=
  match s with Exact p => isp p | AnyComment => fun t => ttype t = T_COMMENT end.
Definition spec_ok (s : tokspec) : bool := match s with Exact p => pty_ok p | AnyComment => true end.
Fixpoint exacts (l : list tokspec) : list ptok :=
  match l with
  | [] => []
  | Exact p :: r => if pjunk p then exacts r else p :: exacts r
  | AnyComment :: r => exacts r
  end.

Lemma spec_not_eof s t : spec_ok s = true -> spec_pred s t -> is_eof t = false.
Proof. destruct s as [p|]; simpl; [apply isp_not_eof|]. intros _ H. unfold is_eof. rewrite H. reflexivity. Qed.
Lemma spec_plain s t : spec_ok s = true -> spec_pred s t -> plain t = true.
Proof. destruct s as [p|]; simpl; [apply isp_plain|]. intros _ H. unfold plain, is_type. rewrite H. reflexivity. Qed.

Lemma conv_filter_specs specs : forall ts, Forall2 (fun P t => P t) (map spec_pred specs) ts ->
  map LexParse.conv (filter sig ts) = map pconv (exacts specs).
Proof.
  induction specs as [|s specs IH]; intros ts H; inversion H; subst; [reflexivity|].
  cbn [filter]. rewrite sig_proj. destruct s as [p|]; cbn [spec_pred exacts] in *.
  - unfold isp in H2. rewrite H2. destruct (pjunk p); cbn [negb map]; [exact (IH _ H4)|].
    rewrite conv_proj, H2, (IH _ H4). reflexivity.
  - assert (Hj : pjunk (proj y) = true) by (unfold pjunk, proj; cbn [fst snd]; rewrite H2; reflexivity).
    rewrite Hj. cbn [negb]. exact (IH _ H4).
Qed.

Theorem ptoks_of_specs s specs :
  chain s (map spec_pred specs) -> forallb spec_ok specs = true ->
  exists ms, pump s = OK ms /\ LexParse.to_ptoks ms = map pconv (exacts specs).
Proof.
  intros Hch Hok.
  destruct (pump_chain s (map spec_pred specs) Hch) as (ts & ms & HF & Hp & HT).
  - intros P t Hin HP. apply in_map_iff in Hin. destruct Hin as (sp & <- & Hin).
    rewrite forallb_forall in Hok. exact (spec_plain sp t (Hok sp Hin) HP).
  - exists ms. split; [exact Hp|]. rewrite HT. apply conv_filter_specs. exact HF.
Qed.

Lemma chain_spec_eq s seg after sp specs :
  s = seg ++ after -> seg <> [] -> spec_ok sp = true -> stepP seg after (spec_pred sp) ->
  chain after (map spec_pred specs) -> chain s (map spec_pred (sp :: specs)).
Proof.
  intros -> Hne Hok Hs Hc. cbn [map]. apply ch_cons; [exact Hne | intros t; apply spec_not_eof; exact Hok | exact Hs | exact Hc].
Qed.

(* ---- decimal rendering ---- *)
Lemma digit_byte x : x < 10 -> digitb (n2b (48 + x)) = true /\ ParseLitFacts.digit_of (n2b (48 + x)) = x /\
  ParseLitFacts.digit_ok 10 (n2b (48 + x)) = true.
Proof.
  intros H. unfold digitb, ParseLitFacts.digit_of, ParseLitFacts.digit_ok, ParseLit.digit_val; cls.
  rewrite !b2n_n2b_small by lia.
  replace ((48 <=? 48 + x) && (48 + x <=? 57)) with true by lia. repeat split; lia.
Qed.

Lemma dec_fuel_digits : forall n x, (0 < n)%nat -> E.dec_fuel n x <> [] /\ forallb digitb (E.dec_fuel n x) = true /\
  forallb (ParseLitFacts.digit_ok 10) (E.dec_fuel n x) = true.
Proof.
  induction n as [|n IH]; intros x Hn; [lia|]. cbn [E.dec_fuel].
  destruct (x <? 10) eqn:E.
  - destruct (digit_byte x ltac:(lia)) as (A & _ & C). split; [discriminate|]. cbn [forallb]. rewrite A, C. split; reflexivity.
  - destruct (digit_byte (x mod 10) ltac:(lia)) as (A & _ & C).
    destruct n as [|n'].
    + cbn [E.dec_fuel app]. split; [discriminate|]. cbn [forallb]. rewrite A, C. split; reflexivity.
    + destruct (IH (x / 10) ltac:(lia)) as (H1 & H2 & H3). split.
      * intros Hnil. apply app_eq_nil in Hnil. destruct Hnil as [_ Hnil]. discriminate.
      * rewrite !forallb_app, H2, H3. cbn [forallb]. rewrite A, C. split; reflexivity.
Qed.

Lemma digits_value_app base a : forall acc d,
  ParseLitFacts.digits_value base acc (a ++ [d]) = ParseLitFacts.digits_value base acc a * base + ParseLitFacts.digit_of d.
Proof. induction a as [|c a IH]; intros acc d; [reflexivity|]. cbn [app ParseLitFacts.digits_value]. apply IH. Qed.

Lemma dec_fuel_value : forall n x, x < 10 ^ N.of_nat n -> ParseLitFacts.digits_value 10 0 (E.dec_fuel n x) = x.
Proof.
  induction n as [|n IH]; intros x Hx.
  - simpl in Hx. assert (x = 0) by lia. subst. reflexivity.
  - cbn [E.dec_fuel]. destruct (x <? 10) eqn:E.
    + destruct (digit_byte x ltac:(lia)) as (_ & B & _). cbn [ParseLitFacts.digits_value]. rewrite B. lia.
    + destruct (digit_byte (x mod 10) ltac:(lia)) as (_ & B & _).
      rewrite digits_value_app, B. rewrite IH.
      * pose proof (N.div_mod x 10 ltac:(lia)). lia.
      * rewrite Nat2N.inj_succ, N.pow_succ_r' in Hx. apply N.div_lt_upper_bound; lia.
Qed.

(* ---- the comment of an entry as the runes the lexer reads ---- *)
Definition crune (r : rune) : rune := if (r =? 13) || (r =? 10) then 32 else r.

Lemma clean_enc_rune r : valid_scalar r = true -> E.clean_comment (enc_rune r) = enc_rune (crune r).
Proof.
  intros Hv. unfold crune. destruct (r <? 128) eqn:El.
  - rewrite EP.enc_rune_low by lia. unfold E.clean_comment. cbn [map]. rewrite !EP.byte_eqb_n.
    rewrite b2n_n2b_small by lia. change (b2n E.c_cr) with 13. change (b2n E.c_lf) with 10.
    destruct ((r =? 13) || (r =? 10)); [reflexivity|]. rewrite EP.enc_rune_low by lia. reflexivity.
  - replace ((r =? 13) || (r =? 10)) with false by lia.
    pose proof (EP.enc_rune_high r Hv ltac:(lia)) as Hh. unfold E.clean_comment.
    induction (enc_rune r) as [|b l IH]; [reflexivity|]. simpl in Hh. apply andb_true_iff in Hh. destruct Hh as [Hb Hl].
    cbn [map]. rewrite (IH Hl). unfold EP.high in Hb. rewrite !EP.byte_eqb_n.
    change (b2n E.c_cr) with 13. change (b2n E.c_lf) with 10.
    replace (b2n b =? 13) with false by lia. replace (b2n b =? 10) with false by lia. reflexivity.
Qed.

Lemma clean_enc_all rs : forallb valid_scalar rs = true -> E.clean_comment (enc_all rs) = enc_all (map crune rs).
Proof.
  induction rs as [|r rs IH]; intros H; [reflexivity|]. simpl in H. apply andb_true_iff in H. destruct H as [Hr Hrs].
  change (enc_all (r :: rs)) with (enc_rune r ++ enc_all rs). unfold E.clean_comment in *. rewrite map_app.
  fold (E.clean_comment (enc_rune r)). rewrite (clean_enc_rune r Hr), (IH Hrs). reflexivity.
Qed.

Lemma crune_ok r : valid_scalar r = true -> r <> 0 -> com_ok (crune r) = true.
Proof.
  intros Hv Hz. unfold com_ok, crune. destruct ((r =? 13) || (r =? 10)) eqn:E; [reflexivity|].
  rewrite Hv. cbn [andb]. lia.
Qed.

(* ---- entries ---- *)
Definition ipbyte (b : byte) : bool := let n := b2n b in (n <? 128) && negb (n =? 34) && negb (n =? 0).

Definition entry_ok (e : E.acl_entry) : Prop :=
  forallb ipbyte (E.a_ip e) = true /\
  match E.a_mask e with Some m => m < ParseLit.two63 | None => True end /\
  EP.text_ok (E.a_comment e).

Definition p_lf : ptok := (T_LF, [10], 0).
Definition entry_specs (e : E.acl_entry) : list tokspec :=
  [Exact p_lf] ++ (if E.a_neg e then [Exact (T_NOT, [33], 0)] else []) ++
  [Exact (T_STRING, map b2n (E.a_ip e), 2)] ++
  (match E.a_mask e with Some m => [Exact (T_SLASH, [47], 0); Exact (T_INT, map b2n (E.decimal m), 0)] | None => [] end) ++
  [Exact (T_SEMICOLON, [59], 0)] ++
  (match E.a_comment e with [] => [] | _ => [AnyComment] end).

Lemma ip_runes ip : forallb ipbyte ip = true -> Forall ascii ip /\ forallb body_ok (map b2n ip) = true.
Proof.
  induction ip as [|b ip IH]; simpl; intros H; [split; [constructor | reflexivity]|].
  apply andb_true_iff in H. destruct H as [Hb Hip]. destruct (IH Hip) as [A B]. unfold ipbyte in Hb. split.
  - constructor; [unfold ascii; lia | exact A].
  - rewrite B, andb_true_r. unfold body_ok, valid_scalar; cls. lia.
Qed.

Lemma step_not t : step [x21] (x22 :: t) (T_NOT, [33], 0).
Proof. apply (step_of_cstep [] [x21] (x22 :: t)); [reflexivity | cbn; starter_tac | apply cstep_bang]. Qed.

Lemma step_slash d t : is_decimal (b2n d) = true -> step [x2f] (d :: t) (T_SLASH, [47], 0).
Proof. intros H. apply (step_of_cstep [] [x2f] (d :: t)); [reflexivity | cbn; starter_tac | apply cstep_slash; exact H]. Qed.

Lemma int_end_semi t : int_end (x3b :: t).
Proof. cbn. split; [unfold ascii; cbn; lia|]. split; [reflexivity|]. cbn. intros H. repeat (destruct H as [H|H]; [discriminate H|]). exact H. Qed.

Lemma step_int digits after : digits <> [] -> forallb digitb digits = true -> int_end after ->
  step digits after (T_INT, map b2n digits, 0).
Proof.
  intros Hne Hd He. apply (step_of_cstep [] digits after); [reflexivity | | apply cstep_int; assumption].
  destruct digits as [|d ds]; [congruence|]. cbn [app]. simpl in Hd. apply andb_true_iff in Hd. destruct Hd as [Hd _].
  unfold digitb in Hd; cls in Hd. split; [unfold ascii; lia | cls; lia].
Qed.

(* the chain of one entry; what follows starts with a line feed *)
Lemma chain_entry e t specs : entry_ok e -> chain (x0a :: t) (map spec_pred specs) ->
  chain (E.render_entry_with E.clean_comment e ++ x0a :: t) (map spec_pred (entry_specs e ++ specs)).
Proof.
  intros (Hip & Hm & Hc) Hch. destruct (ip_runes _ Hip) as [Hasc Hbody].
  unfold E.render_entry_with, entry_specs. rewrite <- !app_assoc. cbn [app].
  eapply (chain_spec_eq _ [x0a]); [seg_eq | discriminate | reflexivity | apply step_lf|].
  (* the tail after the address: mask, semicolon, comment *)
  assert (Htail : forall specs0,
    specs0 = (match E.a_mask e with Some m => [Exact (T_SLASH, [47], 0); Exact (T_INT, map b2n (E.decimal m), 0)] | None => [] end) ++
             [Exact (T_SEMICOLON, [59], 0)] ++ (match E.a_comment e with [] => [] | _ => [AnyComment] end) ++ specs ->
    chain ((match E.a_mask e with Some m => x2f :: E.decimal m | None => [] end) ++ [x3b] ++
           (match E.a_comment e with [] => [] | c => [x20; x20; x23; x20] ++ E.clean_comment c end) ++ x0a :: t)
          (map spec_pred specs0)).
  { intros specs0 ->.
    assert (Hsemi : chain ([x3b] ++ (match E.a_comment e with [] => [] | c => [x20; x20; x23; x20] ++ E.clean_comment c end) ++ x0a :: t)
                          (map spec_pred ([Exact (T_SEMICOLON, [59], 0)] ++ (match E.a_comment e with [] => [] | _ => [AnyComment] end) ++ specs))).
    { cbn [app]. eapply (chain_spec_eq _ ([] ++ [x3b])); [seg_eq | discriminate | reflexivity | apply step_semi; reflexivity|].
      destruct (E.a_comment e) as [|c0 cs] eqn:Ec; [exact Hch|].
      destruct Hc as [Hnul (rs & Hv & Hrs)].
      rewrite Hrs, (clean_enc_all rs Hv).
      eapply (chain_spec_eq _ ([x20; x20] ++ x23 :: enc_all (32 :: map crune rs)) (x0a :: t)); [seg_eq | discriminate | reflexivity | | exact Hch].
      apply (step_of_cstepP [x20; x20] (x23 :: enc_all (32 :: map crune rs)) (x0a :: t)); [reflexivity | cbn; starter_tac|].
      apply cstep_comment. cbn [forallb]. apply forallb_forall. intros q Hq. apply in_map_iff in Hq. destruct Hq as (r & <- & Hr).
      rewrite forallb_forall in Hv. apply crune_ok; [exact (Hv r Hr)|].
      pose proof (EP.nonzero_runes rs ltac:(rewrite <- Hrs; exact Hnul)) as Hz. rewrite forallb_forall in Hz. specialize (Hz r Hr). lia. }
    destruct (E.a_mask e) as [m|]; [|exact Hsemi].
    destruct (dec_fuel_digits 40 m ltac:(lia)) as (Hne & Hdig & _). fold (E.decimal m) in Hne, Hdig.
    destruct (E.decimal m) as [|d ds] eqn:Ed; [congruence|]. rewrite <- Ed in *.
    cbn [app].
    eapply (chain_spec_eq _ [x2f] (E.decimal m ++ _)); [seg_eq | discriminate | reflexivity | |].
    { rewrite Ed. cbn [app]. apply step_slash. rewrite Ed in Hdig. simpl in Hdig. apply andb_true_iff in Hdig. destruct Hdig as [H _]. exact H. }
    eapply (chain_spec_eq _ (E.decimal m)); [seg_eq | exact Hne | reflexivity | | exact Hsemi].
    apply step_int; [exact Hne | exact Hdig | apply int_end_semi]. }
  destruct (E.a_neg e).
  - cbn [app]. eapply (chain_spec_eq _ ([x09] ++ [x21]) (x22 :: _)); [seg_eq | discriminate | reflexivity | |].
    { apply (step_of_cstep [x09] [x21] (x22 :: _)); [reflexivity | cbn; starter_tac | apply cstep_bang]. }
    eapply (chain_spec_eq _ ([] ++ x22 :: enc_all (map b2n (E.a_ip e)) ++ [x22]));
      [rewrite (enc_all_ascii _ Hasc); seg_eq | discriminate | reflexivity | apply step_string; [reflexivity | exact Hbody]|].
    apply Htail. reflexivity.
  - cbn [app]. eapply (chain_spec_eq _ ([x09] ++ x22 :: enc_all (map b2n (E.a_ip e)) ++ [x22]));
      [rewrite (enc_all_ascii _ Hasc); seg_eq | discriminate | reflexivity | apply step_string; [reflexivity | exact Hbody]|].
    apply Htail. reflexivity.
Qed.

(* ---- the whole ACL ---- *)
Definition b_acl : list byte := [x61; x63; x6c].

Definition acl_specs (name : list byte) (es : list E.acl_entry) : list tokspec :=
  [Exact p_lf; Exact (T_ACL, map b2n b_acl, 0); Exact (T_IDENT, map b2n name, 0); Exact (T_LEFT_BRACE, [123], 0)] ++
  flat_map entry_specs es ++ map Exact tail_ps.

Lemma chain_tail_specs : chain [x0a; x7d; x0a] (map spec_pred (map Exact tail_ps)).
Proof.
  change (map Exact tail_ps) with [Exact p_lf; Exact (T_RIGHT_BRACE, [125], 0); Exact p_lf].
  eapply (chain_spec_eq _ [x0a]); [seg_eq | discriminate | reflexivity | apply step_lf|].
  eapply (chain_spec_eq _ ([] ++ [x7d])); [seg_eq | discriminate | reflexivity | apply step_rbrace; reflexivity|].
  eapply (chain_spec_eq _ [x0a] []); [seg_eq | discriminate | reflexivity | apply step_lf|].
  apply ch_nil.
Qed.

Lemma chain_entries es : Forall entry_ok es ->
  chain (flat_map (E.render_entry_with E.clean_comment) es ++ [x0a; x7d; x0a])
        (map spec_pred (flat_map entry_specs es ++ map Exact tail_ps)) /\
  exists t, flat_map (E.render_entry_with E.clean_comment) es ++ [x0a; x7d; x0a] = x0a :: t.
Proof.
  induction es as [|e es IH]; intros H.
  - split; [exact chain_tail_specs | eexists; reflexivity].
  - inversion H as [|? ? He Hes]; subst. destruct (IH Hes) as [Hc (t & Ht)].
    cbn [flat_map]. rewrite <- !app_assoc. rewrite Ht in *. split.
    + apply chain_entry; [exact He | exact Hc].
    + unfold E.render_entry_with. cbn [app]. eexists. reflexivity.
Qed.

Theorem chain_acl name es : ident_name name -> Forall entry_ok es ->
  chain (E.render_acl name es) (map spec_pred (acl_specs name es)).
Proof.
  intros [Hn Hl] Hes. unfold E.render_acl, E.render_acl_with, E.bs_close, acl_specs. cbn [app].
  destruct (chain_entries es Hes) as [Hc (t & Ht)].
  eapply (chain_spec_eq _ [x0a]); [seg_eq | discriminate | reflexivity | apply step_lf|].
  eapply (chain_spec_eq _ ([] ++ b_acl) (x20 :: _)); [seg_eq | discriminate | reflexivity | |].
  { exact (step_ident [] b_acl _ eq_refl eq_refl (id_end_space _)). }
  eapply (chain_spec_eq _ ([x20] ++ name) (x20 :: _)); [seg_eq | | reflexivity | |].
  { destruct name; [discriminate Hn | discriminate]. }
  { cbn [spec_pred]. rewrite <- Hl. apply step_ident; [reflexivity | exact Hn | apply id_end_space]. }
  eapply (chain_spec_eq _ ([x20] ++ [x7b]) (x0a :: t)); [cbn [app]; rewrite <- Ht; reflexivity | discriminate | reflexivity | |].
  { apply step_lbrace; [reflexivity | reflexivity | cbn; lia]. }
  rewrite <- Ht. exact Hc.
Qed.

(* ---- the parser side ---- *)
Definition tk_acl : PB.token := PB.Tok TT.T_ACL b_acl 0.
Definition tk_not : PB.token := PB.Tok TT.T_NOT [x21] 0.
Definition tk_slash : PB.token := PB.Tok TT.T_SLASH [x2f] 0.
Definition tk_semi : PB.token := PB.Tok TT.T_SEMICOLON [x3b] 0.
Definition tk_ip (ip : list byte) : PB.token := PB.Tok TT.T_STRING ip 2.
Definition tk_int (m : N) : PB.token := PB.Tok TT.T_INT (E.decimal m) 0.

Definition entry_cidr (e : E.acl_entry) : Ast.cidr :=
  Ast.Cidr (if E.a_neg e then Some tk_not else None) (Ast.IpStr (tk_ip (E.a_ip e)))
           (match E.a_mask e with Some m => Some (tk_slash, tk_int m, Z.of_N m) | None => None end) tk_semi.

Definition acl_decl (name : list byte) (es : list E.acl_entry) : Ast.stmt :=
  Ast.DAcl tk_acl (tk_ident name) tk_lbrace (map entry_cidr es) tk_rbrace.

Lemma decimal_ascii m : Forall ascii (E.decimal m).
Proof. apply forall_digit_ascii. apply (dec_fuel_digits 40 m). lia. Qed.

Lemma exacts_lf r : exacts (Exact p_lf :: r) = exacts r.
Proof. reflexivity. Qed.
Lemma exacts_keep p r : pjunk p = false -> exacts (Exact p :: r) = p :: exacts r.
Proof. intros H. cbn [exacts]. rewrite H. reflexivity. Qed.
Lemma exacts_com r : exacts (AnyComment :: r) = exacts r.
Proof. reflexivity. Qed.
Lemma pconv_ascii ty l o : Forall ascii l -> pconv (ty, map b2n l, o) = PB.Tok (LexParse.ttype_of ty) l o.
Proof. intros H. unfold pconv. cbn [fst snd]. rewrite (enc_all_ascii l H). reflexivity. Qed.

Lemma exacts_entry e rest : entry_ok e ->
  map pconv (exacts (entry_specs e ++ rest)) = Yield.ycidr (entry_cidr e) ++ map pconv (exacts rest).
Proof.
  intros (Hip & _ & _). destruct (ip_runes _ Hip) as [Hasc _].
  unfold entry_specs, entry_cidr. destruct e as [neg ip mask com]. cbn [E.a_neg E.a_ip E.a_mask E.a_comment] in *.
  assert (Hcom : exacts ((match com with [] => [] | _ => [AnyComment] end) ++ rest) = exacts rest) by (destruct com; reflexivity).
  destruct neg; destruct mask as [m|]; cbn [app]; rewrite exacts_lf, !exacts_keep by reflexivity;
    rewrite Hcom; cbn [map]; rewrite (pconv_ascii _ ip _ Hasc), ?(pconv_ascii _ (E.decimal m) _ (decimal_ascii m)); reflexivity.
Qed.

Lemma exacts_entries es rest : Forall entry_ok es ->
  map pconv (exacts (flat_map entry_specs es ++ rest)) = flat_map Yield.ycidr (map entry_cidr es) ++ map pconv (exacts rest).
Proof.
  induction es as [|e es IH]; intros H; [reflexivity|]. inversion H; subst.
  cbn [flat_map map]. rewrite <- !app_assoc. rewrite (exacts_entry e _ H2), (IH H3). reflexivity.
Qed.

Lemma ptoks_acl name es : ident_name name -> Forall entry_ok es ->
  map pconv (exacts (acl_specs name es)) = Yield.ystmt (acl_decl name es).
Proof.
  intros [Hn _] Hes. unfold acl_specs, acl_decl. cbn [Yield.ystmt].
  change (exacts ([Exact p_lf; Exact (T_ACL, map b2n b_acl, 0); Exact (T_IDENT, map b2n name, 0); Exact (T_LEFT_BRACE, [123], 0)] ++
                  flat_map entry_specs es ++ map Exact tail_ps))
    with ((T_ACL, map b2n b_acl, 0) :: (T_IDENT, map b2n name, 0) :: (T_LEFT_BRACE, [123], 0) ::
          exacts (flat_map entry_specs es ++ map Exact tail_ps)).
  cbn [map]. rewrite (exacts_entries es _ Hes). unfold pconv at 1 2 3. cbn [fst snd].
  rewrite (enc_all_ascii name (name_ascii name Hn)). reflexivity.
Qed.

Lemma decimal_conv m : m < ParseLit.two63 -> ParseLit.conv_integer false (E.decimal m) = Some (Z.of_N m).
Proof.
  intros Hm. destruct (dec_fuel_digits 40 m ltac:(lia)) as (Hne & Hdig & Hok). fold (E.decimal m) in *.
  assert (Hsplit : ParseLit.int_split (E.decimal m) = (10, E.decimal m)).
  { unfold ParseLit.int_split. destruct (E.decimal m) as [|c0 [|c1 [|c2 r]]] eqn:Ed; try reflexivity.
    simpl in Hdig. apply andb_true_iff in Hdig. destruct Hdig as [_ Hdig]. apply andb_true_iff in Hdig. destruct Hdig as [H1 _].
    unfold digitb in H1; cls in H1. unfold ParseLit.is_c.
    replace (b2n c1 =? 120) with false by lia. replace (b2n c1 =? 88) with false by lia. rewrite andb_false_r. reflexivity. }
  rewrite (ParseLitFacts.int_literal_exact false (E.decimal m) 10 (E.decimal m) Hsplit ltac:(lia) Hne Hok).
  unfold E.decimal. rewrite dec_fuel_value.
  - replace (m <? ParseLit.two63) with true by lia. reflexivity.
  - unfold ParseLit.two63 in Hm. assert (10 ^ N.of_nat 40 = 10000000000000000000000000000000000000000) by reflexivity. lia.
Qed.

Lemma acl_canonical fok name es : Forall entry_ok es -> ParseProgram5.cprog fok [acl_decl name es].
Proof.
  intros Hes. cbn [ParseProgram5.cprog]. split; [|exact I].
  unfold acl_decl. cbn [ParseProgram5.cdeclx]. repeat split; try reflexivity.
  induction es as [|e es IH]; [constructor|]. inversion Hes as [|? ? (Hip & Hm & _) Hr]; subst.
  cbn [map]. constructor; [|exact (IH Hr)].
  unfold entry_cidr. cbn [ParseProgram4.ccidr ParseProgram4.cip]. destruct (E.a_neg e); destruct (E.a_mask e) as [m|];
    repeat split; try reflexivity; apply decimal_conv; exact Hm.
Qed.

(* what the parsed program says: (negated, address, mask) of every entry *)
Definition cidr_entry (c : Ast.cidr) : bool * list byte * option Z :=
  match c with
  | Ast.Cidr inv (Ast.IpStr t) mask _ =>
    (match inv with Some _ => true | None => false end, PB.lit t, match mask with Some (_, _, z) => Some z | None => None end)
  | Ast.Cidr inv _ mask _ => (false, [], None)
  end.
Definition entries_of (v : Ast.vcl) : list (bool * list byte * option Z) :=
  match Ast.vstmts v with [Ast.DAcl _ _ _ cs _] => map cidr_entry cs | _ => [] end.
Definition acl_name_of (v : Ast.vcl) : list byte :=
  match Ast.vstmts v with [Ast.DAcl _ nm _ _ _] => PB.lit nm | _ => [] end.
Definition entry_view (e : E.acl_entry) : bool * list byte * option Z :=
  (E.a_neg e, E.a_ip e, match E.a_mask e with Some m => Some (Z.of_N m) | None => None end).

Theorem acl_parses_real fok name es : ident_name name -> Forall entry_ok es ->
  exists v, LexParse.parse_source fok LexParse.MVcl (E.render_acl name es) = PB.POK v /\
            entries_of v = map entry_view es /\ acl_name_of v = name.
Proof.
  intros Hn Hes.
  destruct (ptoks_of_specs _ _ (chain_acl name es Hn Hes)) as (ms & Hp & HT).
  { unfold acl_specs. rewrite !forallb_app. cbn [forallb map].
    assert (Hi : forallb spec_ok (flat_map entry_specs es) = true).
    { clear. induction es as [|e es IH]; [reflexivity|]. cbn [flat_map]. rewrite forallb_app, IH, andb_true_r.
      unfold entry_specs. destruct (E.a_neg e); destruct (E.a_mask e); destruct (E.a_comment e); reflexivity. }
    rewrite Hi. reflexivity. }
  exists (Ast.Vcl [acl_decl name es] false). unfold LexParse.parse_source. rewrite Hp. unfold LexParse.parse_mode.
  rewrite HT, (ptoks_acl name es Hn Hes).
  pose proof (ParseProgram5.program_roundtrip fok [acl_decl name es] (acl_canonical fok name es Hes)) as R.
  cbn [flat_map] in R. rewrite app_nil_r in R. rewrite R.
  split; [reflexivity|]. split; [|reflexivity].
  unfold entries_of, acl_decl. cbn [Ast.vstmts]. rewrite map_map. apply map_ext. intros e.
  unfold entry_cidr, cidr_entry, entry_view. destruct (E.a_neg e); destruct (E.a_mask e); reflexivity.
Qed.
