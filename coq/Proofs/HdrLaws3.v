(* C17 - sub-field laws for all well-formed histories. *)
From Coq Require Import List NArith Bool Lia PeanoNat.
From Coq Require Import Strings.Byte.
From Falco Require Import Base.Bytes Model.HdrField Model.Hdr Model.HdrSpec
  Proofs.HdrBytes Proofs.HdrScan Proofs.HdrItems Proofs.HdrStore Proofs.HdrLaws1 Proofs.HdrLaws2.
Import ListNotations.

Lemma first_val_write_field a cn k v :
  first_val (fst (sstep a (SWriteField cn k v))) cn = set_field (first_val a cn) k v.
Proof. unfold sstep. cbn [fst]. unfold first_val at 1. cbn [a_vals]. rewrite upd_same. reflexivity. Qed.

Lemma first_val_remove_field a cn k :
  first_val (fst (sstep a (SRemoveField cn k))) cn = unset_field (first_val a cn) k.
Proof.
  unfold sstep. cbn [fst]. unfold first_val at 1. cbn [a_vals]. rewrite upd_same.
  destruct (unset_field (first_val a cn) k); reflexivity.
Qed.

Lemma Inv_state_after ks kd h : forallb (hop_ok ks kd) h = true -> Inv ks (abs (state_after kd (map conc h))).
Proof. intros H. unfold state_after. apply Inv_run; [exact H | apply Inv_st0]. Qed.

(* the read target `n':k'` classified, for a spelling n' of a field_ok name n *)
Lemma classify_read_field kd n n' k k' : field_ok kd n k = true -> eqfold n n' ->
  classify kd (OGet (ftarget n' k')) = SRead (canon n) k' false.
Proof.
  intros Hf He. apply field_ok_inv in Hf. destruct Hf as (Ht & _ & _ & Hc).
  rewrite (classify_get_field kd n' k' (eqfold_tchar n n' He Ht)).
  rewrite <- (canon_fold n n' He Ht). rewrite <- (is_cookie_fold n n' He).
  destruct kd; [rewrite Hc|]; reflexivity.
Qed.

Section Fields.
Variable ks : list bytes.
Variable kd : kind.

(* reading back what was written: for every well-formed history h, after
   `set obj.http.n:k = s` the sub-field (any spelling of n, any case of k) reads s *)
Theorem field_get_set h n n' k k' s :
  forallb (hop_ok ks kd) h = true -> hop_ok ks kd (HSetF n k (VStr s)) = true ->
  eqfold n n' -> keq k k' = true -> key_ok k' = true -> mem k' ks = true ->
  get kd (after kd (state_after kd (map conc h)) (conc (HSetF n k (VStr s)))) (ftarget n' k') = ORead (RStr s).
Proof.
  intros Hh Ho He Hk Hk' Hm.
  pose proof (Inv_state_after ks kd h Hh) as HI. set (st := state_after kd (map conc h)) in *.
  pose proof (Inv_step ks kd (abs st) _ Ho HI) as HI2.
  simpl in Ho. apply andb_true_iff in Ho. destruct Ho as [Ho Hv]. apply andb_true_iff in Ho. destruct Ho as [Ho Hmk].
  apply andb_true_iff in Ho. destruct Ho as [Hf Hkk].
  rewrite get_after. rewrite (classify_read_field kd n n' k k' Hf He).
  unfold conc in *. rewrite (classify_set_field kd n k _ Hf) in *.
  destruct (HI (canon n)) as (its & H1 & H2).
  pose proof (first_val_write_field (abs st) (canon n) k (VStr s)) as Hw. rewrite H1 in Hw.
  rewrite (set_field_render k its (VStr s) Hkk (items_ok_okk ks k its Hmk H2)) in Hw.
  2:{ unfold fv_ok in Hv. apply andb_true_iff in Hv. tauto. }
  rewrite (read_field_inv ks _ (canon n) k' _ Hw (items_ok_set ks its k (VStr s) H2 Hkk Hv) Hk' Hm).
  rewrite (lookup_set_same its k k' s); [reflexivity | apply items_ok_inv in H2; tauto | exact Hk].
Qed.

(* after `unset obj.http.n:k` the sub-field reads as not set *)
Theorem field_unset h n n' k k' :
  forallb (hop_ok ks kd) h = true -> hop_ok ks kd (HUnsetF n k) = true ->
  eqfold n n' -> keq k k' = true -> key_ok k' = true -> mem k' ks = true ->
  get kd (after kd (state_after kd (map conc h)) (conc (HUnsetF n k))) (ftarget n' k') = ORead RNotSet.
Proof.
  intros Hh Ho He Hk Hk' Hm.
  pose proof (Inv_state_after ks kd h Hh) as HI. set (st := state_after kd (map conc h)) in *.
  simpl in Ho. apply andb_true_iff in Ho. destruct Ho as [Ho Hmk]. apply andb_true_iff in Ho. destruct Ho as [Hf Hkk].
  rewrite get_after. rewrite (classify_read_field kd n n' k k' Hf He).
  unfold conc. rewrite (classify_unset_field kd n k Hf).
  destruct (HI (canon n)) as (its & H1 & H2).
  pose proof (first_val_remove_field (abs st) (canon n) k) as Hw. rewrite H1 in Hw.
  rewrite (unset_field_render k its Hkk (items_ok_okk ks k its Hmk H2)) in Hw.
  rewrite (read_field_inv ks _ (canon n) k' _ Hw (items_ok_remove ks k its H2) Hk' Hm).
  rewrite (lookup_unset_same its k k'); [reflexivity | apply items_ok_inv in H2; tauto | exact Hk].
Qed.

(* writing or removing one sub-field leaves every OTHER sub-field of that header as it was *)
Theorem field_frame h o n n' k k'' :
  forallb (hop_ok ks kd) h = true -> hop_ok ks kd o = true ->
  (o = HUnsetF n k \/ exists v, o = HSetF n k v) ->
  eqfold n n' -> keq k k'' = false -> key_ok k'' = true -> mem k'' ks = true ->
  get kd (after kd (state_after kd (map conc h)) (conc o)) (ftarget n' k'') =
  get kd (state_after kd (map conc h)) (ftarget n' k'').
Proof.
  intros Hh Ho Hcase He Hk Hk' Hm.
  pose proof (Inv_state_after ks kd h Hh) as HI. set (st := state_after kd (map conc h)) in *.
  destruct (HI (canon n)) as (its & H1 & H2).
  destruct Hcase as [->|[v ->]]; simpl in Ho.
  - apply andb_true_iff in Ho. destruct Ho as [Ho Hmk]. apply andb_true_iff in Ho. destruct Ho as [Hf Hkk].
    rewrite get_after, get_abs. rewrite (classify_read_field kd n n' k k'' Hf He).
    unfold conc. rewrite (classify_unset_field kd n k Hf).
    pose proof (first_val_remove_field (abs st) (canon n) k) as Hw. rewrite H1 in Hw.
    rewrite (unset_field_render k its Hkk (items_ok_okk ks k its Hmk H2)) in Hw.
    rewrite (read_field_inv ks _ (canon n) k'' _ Hw (items_ok_remove ks k its H2) Hk' Hm).
    rewrite (read_field_inv ks _ (canon n) k'' _ H1 H2 Hk' Hm).
    rewrite (lookup_remove_other k k'' its Hk). reflexivity.
  - apply andb_true_iff in Ho. destruct Ho as [Ho Hv]. apply andb_true_iff in Ho. destruct Ho as [Ho Hmk].
    apply andb_true_iff in Ho. destruct Ho as [Hf Hkk].
    rewrite get_after, get_abs. rewrite (classify_read_field kd n n' k k'' Hf He).
    unfold conc. rewrite (classify_set_field kd n k v Hf).
    pose proof (first_val_write_field (abs st) (canon n) k v) as Hw. rewrite H1 in Hw.
    assert (Hv' : match v with VStr s => fv_ok ks s = true | VNotSet => True end) by (destruct v; [exact I | exact Hv]).
    rewrite (set_field_render k its v Hkk (items_ok_okk ks k its Hmk H2)) in Hw.
    2:{ destruct v as [|s]; [exact I|]. unfold fv_ok in Hv. apply andb_true_iff in Hv. tauto. }
    rewrite (read_field_inv ks _ (canon n) k'' _ Hw (items_ok_set ks its k v H2 Hkk Hv') Hk' Hm).
    rewrite (read_field_inv ks _ (canon n) k'' _ H1 H2 Hk' Hm).
    rewrite (lookup_set_other its k k'' v Hk). reflexivity.
Qed.

(* the quirk field.go copies from Fastly, stated exactly: writing the NOT-SET value to a
   sub-field with a one-letter key of an absent/empty header writes nothing; otherwise the
   key is present with an empty value *)
Theorem field_set_notset h n n' k k' :
  forallb (hop_ok ks kd) h = true -> hop_ok ks kd (HSetF n k VNotSet) = true ->
  eqfold n n' -> keq k k' = true -> key_ok k' = true -> mem k' ks = true ->
  get kd (after kd (state_after kd (map conc h)) (conc (HSetF n k VNotSet))) (ftarget n' k') = ORead (RStr []) \/
  (length k = 1%nat /\
   get kd (after kd (state_after kd (map conc h)) (conc (HSetF n k VNotSet))) (ftarget n' k') = ORead RNotSet).
Proof.
  intros Hh Ho He Hk Hk' Hm.
  pose proof (Inv_state_after ks kd h Hh) as HI. set (st := state_after kd (map conc h)) in *.
  simpl in Ho. apply andb_true_iff in Ho. destruct Ho as [Ho _]. apply andb_true_iff in Ho. destruct Ho as [Ho Hmk].
  apply andb_true_iff in Ho. destruct Ho as [Hf Hkk].
  rewrite get_after. rewrite (classify_read_field kd n n' k k' Hf He).
  unfold conc. rewrite (classify_set_field kd n k _ Hf).
  destruct (HI (canon n)) as (its & H1 & H2).
  pose proof (first_val_write_field (abs st) (canon n) k VNotSet) as Hw. rewrite H1 in Hw.
  rewrite (set_field_render k its VNotSet Hkk (items_ok_okk ks k its Hmk H2) I) in Hw.
  rewrite (read_field_inv ks _ (canon n) k' _ Hw (items_ok_set ks its k VNotSet H2 Hkk I) Hk' Hm).
  rewrite <- (keq_lookup k k' _ Hk). unfold spec_set.
  pose proof (proj2 (items_ok_inv ks its H2)) as Hnd.
  destruct (is_nil (remove_first k its) && Nat.eqb (length k) 1) eqn:E.
  - right. apply andb_true_iff in E. destruct E as [_ E]. apply Nat.eqb_eq in E. split; [exact E|].
    rewrite (lookup_nomatch k _ (remove_nomatch k its Hnd)). reflexivity.
  - left. rewrite lookup_app, (lookup_nomatch k _ (remove_nomatch k its Hnd)). simpl. rewrite keq_refl. reflexivity.
Qed.
End Fields.
