(* Several directives in force at once: the ignore state is the UNION of what they name. *)
From Coq Require Import List Bool Arith.
From Falco Require Import Base.Bytes Model.Ignore Model.IgnoreSpec Proofs.IgnoreBasics Proofs.IgnoreSim.
Import ListNotations.

Definition is_all (L : list rule) : bool := match L with [] => true | _ => false end.

(* after the rule lists L1 ... Ln have been added to one set, a rule is ignored iff it was before or one of them names it *)
Theorem ignore_rules_accumulate Ls : forall a r,
  den (fold_left ignore_rules Ls a) r = den a r || existsb (fun L => named L r) Ls.
Proof.
  induction Ls as [|L Ls IH]; intros a r; cbn [fold_left existsb].
  - rewrite orb_false_r. reflexivity.
  - rewrite IH, den_ignore, orb_assoc. reflexivity.
Qed.

(* ignore-everything is sticky: once a list was empty (or the set ignored everything before), later rule lists do not
   switch it off *)
Theorem ignore_all_sticky Ls : forall a,
  all (fold_left ignore_rules Ls a) = all a || existsb is_all Ls.
Proof.
  induction Ls as [|L Ls IH]; intros a; cbn [fold_left existsb].
  - rewrite orb_false_r. reflexivity.
  - rewrite IH. destruct L; cbn [ignore_rules all is_all]; [rewrite orb_true_r | rewrite orb_false_l]; reflexivity.
Qed.

(* what one comment names, as a directive of the given kinds *)
Definition names_next (c : list byte) (r : rule) : bool :=
  match parse_ignore_comment c with Some (NextLine, L) => named L r | _ => false end.
Definition names_this (c : list byte) (r : rule) : bool :=
  match parse_ignore_comment c with Some (ThisLine, L) => named L r | _ => false end.
Definition names_start (c : list byte) (r : rule) : bool :=
  match parse_ignore_comment c with Some (Start, L) => named L r | _ => false end.
Definition is_end (c : list byte) : bool :=
  match parse_ignore_comment c with Some (End, _) => true | _ => false end.

Lemma nl_lead_step a c r : den (nl_lead a c) r = den a r || names_next c r.
Proof. unfold nl_lead, names_next. destruct (parse_ignore_comment c) as [[[] L]|]; rewrite ?den_ignore, ?orb_false_r; reflexivity. Qed.
Lemma tl_trail_step a c r : den (tl_trail a c) r = den a r || names_this c r.
Proof. unfold tl_trail, names_this. destruct (parse_ignore_comment c) as [[[] L]|]; rewrite ?den_ignore, ?orb_false_r; reflexivity. Qed.
Lemma rg_lead_step a c r : is_end c = false -> den (rg_lead a c) r = den a r || names_start c r.
Proof.
  unfold rg_lead, names_start, is_end. destruct (parse_ignore_comment c) as [[[] L]|]; intros H; try discriminate;
    rewrite ?den_ignore, ?orb_false_r; reflexivity.
Qed.

Lemma nl_lead_union cs : forall a r, den (fold_left nl_lead cs a) r = den a r || existsb (fun c => names_next c r) cs.
Proof.
  induction cs as [|c cs IH]; intros a r; cbn [fold_left existsb].
  - rewrite orb_false_r. reflexivity.
  - rewrite IH, nl_lead_step, orb_assoc. reflexivity.
Qed.

Lemma tl_trail_union cs : forall a r, den (fold_left tl_trail cs a) r = den a r || existsb (fun c => names_this c r) cs.
Proof.
  induction cs as [|c cs IH]; intros a r; cbn [fold_left existsb].
  - rewrite orb_false_r. reflexivity.
  - rewrite IH, tl_trail_step, orb_assoc. reflexivity.
Qed.

Lemma rg_lead_union cs : forallb (fun c => negb (is_end c)) cs = true ->
  forall a r, den (fold_left rg_lead cs a) r = den a r || existsb (fun c => names_start c r) cs.
Proof.
  induction cs as [|c cs IH]; intros H a r; cbn [fold_left existsb].
  - rewrite orb_false_r. reflexivity.
  - cbn in H. apply andb_true_iff in H. destruct H as [Hc H]. rewrite (IH H).
    rewrite rg_lead_step by (destruct (is_end c); [discriminate | reflexivity]). rewrite orb_assoc. reflexivity.
Qed.

(* the state in which a statement is linted: every falco-ignore-next-line and falco-ignore-start among its leading
   comments and every falco-ignore among its trailing ones adds what it names - any number of them, any order, any
   mix of rule lists - to what was ignored before (no falco-ignore-end among the leading comments) *)
Theorem setup_statement_union m s r :
  forallb (fun c => negb (is_end c)) (leading m) = true ->
  is_enable r (setup_statement m s) =
  is_enable r s
  || existsb (fun c => names_next c r || names_start c r) (leading m)
  || existsb (fun c => names_this c r) (trailing m).
Proof.
  intros H. change (setup_statement m s) with (setup WStmt m s).
  rewrite !is_enable_den, nl_setup, tl_setup, rg_setup. cbn [tl_setup_of].
  rewrite nl_lead_union, tl_trail_union, (rg_lead_union _ H).
  assert (E : existsb (fun c => names_next c r || names_start c r) (leading m)
              = existsb (fun c => names_next c r) (leading m) || existsb (fun c => names_start c r) (leading m)).
  { clear. induction (leading m) as [|c cs IH]; cbn [existsb]; auto. rewrite IH.
    destruct (names_next c r), (names_start c r), (existsb (fun c0 => names_next c0 r) cs), (existsb (fun c0 => names_start c0 r) cs); reflexivity. }
  rewrite E.
  destruct (den (nl s) r), (den (tl s) r), (den (rg s) r), (existsb (fun c => names_next c r) (leading m)),
    (existsb (fun c => names_start c r) (leading m)), (existsb (fun c => names_this c r) (trailing m)); reflexivity.
Qed.
