(* C06: the finite edge table.  Gen/ObsEdges.v is what the real interpreter did on every
   (position, action, restarts-at-limit) cell; it is compared, exhaustively and by computation,
   with the documented machine (Model/SMDoc.v) and with the model (Model/SM.v).  The translated
   constants of Gen/SMConst.v are compared with the documented machine as well. *)
From Coq Require Import List ZArith NArith Bool Arith Lia.
From Falco Require Import Base.Res Base.SMBase Gen.SMConst Gen.ObsEdges Gen.SMKnown Model.SM Model.SMDoc.
Import ListNotations.

Definition known_gap (c : cell) : bool :=
  let '(n, a, _) := c in
  existsb (fun g => dnode_eqb (fst g) n && action_eqb (snd g) a) known_edge_gaps.

Lemma outcome_eqb_eq a b : outcome_eqb a b = true -> a = b.
Proof. destruct a as [[]| | |], b as [[]| | |]; cbn; congruence. Qed.

(* the observed table covers exactly the enumerated domain *)
Lemma obs_cells_complete : map fst obs_edges = all_cells.
Proof. vm_compute. reflexivity. Qed.

Lemma all_cells_count : length all_cells = 360.
Proof. vm_compute. reflexivity. Qed.

Lemma obs_edges_eq_doc_b :
  forallb (fun co => outcome_eqb (snd co) (doc_outcome (fst co)) || known_gap (fst co)) obs_edges = true.
Proof. vm_compute. reflexivity. Qed.

Lemma obs_edges_eq_doc c o :
  In (c, o) obs_edges -> o = doc_outcome c \/ known_gap c = true.
Proof.
  intros H. pose proof (proj1 (forallb_forall _ _) obs_edges_eq_doc_b _ H) as Hb. cbn [fst snd] in Hb.
  apply orb_true_iff in Hb. destruct Hb as [Hb|Hb]; [left; apply outcome_eqb_eq; exact Hb | right; exact Hb].
Qed.

(* the recorded finding: the exclusion is needed, and it is the only one *)
Lemma miss_deliver_stale_refuted :
  In ((DMiss, ARet SDeliverStale, false), OErr) obs_edges /\
  doc_outcome (DMiss, ARet SDeliverStale, false) = OGo Deliver.
Proof. split; [vm_compute; tauto | reflexivity]. Qed.

Lemma known_gaps_all_real :
  forallb (fun co => negb (known_gap (fst co)) || negb (outcome_eqb (snd co) (doc_outcome (fst co)))) obs_edges = true.
Proof. vm_compute. reflexivity. Qed.

(* the hand-written model takes the same edge as the real interpreter on every cell, no exception *)
Lemma model_agrees_with_observed_b :
  forallb (fun co => match model_outcome (fst co) with
                     | Some o => outcome_eqb o (snd co)
                     | None => false end) obs_edges = true.
Proof. vm_compute. reflexivity. Qed.

Lemma model_agrees_with_observed c o : In (c, o) obs_edges -> model_outcome c = Some o.
Proof.
  intros H. pose proof (proj1 (forallb_forall _ _) model_agrees_with_observed_b _ H) as Hb. cbn [fst snd] in Hb.
  destruct (model_outcome c) as [o'|]; [|discriminate]. apply outcome_eqb_eq in Hb. congruence.
Qed.

(* ---- translated constants against the documented machine ---- *)
Lemma max_restarts_is_3 : max_varnish_restarts = 3.
Proof. reflexivity. Qed.

Lemma restart_guards : restart_stmt_checks_limit = true /\ restart_fn_checks_limit = true.
Proof. split; reflexivity. Qed.

Definition doc_allows (s : scope) (a : action) : bool :=
  existsb (fun n => scope_eqb (scope_of n) s && match doc_next n a with Some _ => true | None => false end) all_dnodes.

Lemma stmt_scopes_eq_doc :
  forallb (fun s => Bool.eqb (mem_scope s restart_stmt_scopes) (doc_allows s ARestartStmt) &&
                    Bool.eqb (mem_scope s error_stmt_scopes) (doc_allows s AErrorStmt)) all_scopes = true.
Proof. vm_compute. reflexivity. Qed.

(* the linter's return-action lists are the documented return states, except that the linter (and the
   reference table of C05) does not list `error` for vcl_pass, where the error statement itself is
   allowed and the simulator treats return(error) like it *)
Definition linter_omits (s : scope) (r : rstate) : bool :=
  match s, r with Pass, SError => true | _, _ => false end.

Lemma linter_expects_eq_doc :
  forallb (fun s => forallb (fun r =>
     Bool.eqb (mem_rstate r (lint_expects s)) (doc_allows s (ARet r) && negb (linter_omits s r))) all_rstates) all_scopes = true.
Proof. vm_compute. reflexivity. Qed.
