(* C06: the cache lookup, the reported cached flag / X-Cache header, persistence across requests. *)
From Coq Require Import List ZArith NArith Bool Arith Lia Setoid.
From Falco Require Import Base.Res Base.SMBase Gen.SMConst Model.SM Model.SMDoc Proofs.SMBasics.
Import ListNotations.

(* ---- Cache.Get against "an unexpired object is stored" ---- *)
Lemma cache_get_spec now k c :
  (exists it c', cache_get now k c = (Some it, c')) <-> stored_fresh now k c = true.
Proof.
  unfold cache_get, stored_fresh. destruct (cache_find k c) as [it|].
  - destruct (expires it <? now)%Z; cbn [negb]; split; intros H; try discriminate; eauto.
    destruct H as (? & ? & H). discriminate.
  - split; intros H; try discriminate. destruct H as (? & ? & H). discriminate.
Qed.

Lemma cache_get_none now k c c' : cache_get now k c = (None, c') -> stored_fresh now k c = false.
Proof.
  unfold cache_get, stored_fresh. destruct (cache_find k c) as [it|]; auto.
  destruct (expires it <? now)%Z; cbn [negb]; auto. discriminate.
Qed.

Lemma run_op_cache now o p : p_cache (fst (run_op now o p)) = p_cache p.
Proof.
  destruct o; cbn [run_op]; try reflexivity.
  - destruct (pb_find k (p_pb p)); [destruct (z <? now)%Z|]; reflexivity.
  - destruct (limit <? rc_total now k (window * 1000) ((k, now, d) :: p_rc p) / window)%Z; reflexivity.
Qed.

Lemma run_ops_cache now os : forall p p' l, run_ops now os p = (p', l) -> p_cache p' = p_cache p.
Proof.
  induction os as [|o os IH]; intros p p' l H; cbn [run_ops] in H.
  - inversion H; reflexivity.
  - destruct (run_op now o p) as [p1 o1] eqn:E1. destruct (run_ops now os p1) as [p2 o2] eqn:E2.
    inversion H; subst. rewrite (IH _ _ _ E2). pose proof (run_op_cache now o p) as Hc. rewrite E1 in Hc. exact Hc.
Qed.

(* the lookup of ProcessRecv: vcl_hit runs next iff an unexpired object is stored under the hash
   of this round, in the cache as it is at that moment; otherwise vcl_miss runs *)
Lemma recv_lookup orc q c p c' p' n' :
  process_recv orc q c p = (c', p', Goto n') -> n' = NHit \/ n' = NMiss ->
  (n' = NHit <-> stored_fresh (q_now q) (q_hash q (c_restarts c)) (p_cache p) = true).
Proof.
  intros H Hn. unfold process_recv in H.
  destruct (run_ops (q_now q) (q_ops q (c_restarts c)) p) as [p1 obs] eqn:Eo.
  apply run_ops_cache in Eo. rewrite <- Eo.
  unfold process_hash, do_restart, call, run_sub in H. cbn [scope_of] in H.
  dmatch H; try discriminate H;
    try match goal with E : negb _ = _ |- _ => cbn [negb] in E; try discriminate E end;
    injection H as ? ? ?; subst; try (destruct Hn; discriminate);
    match goal with
    | E : cache_get _ _ _ = (Some _, _) |- _ =>
        split; [intros _; apply cache_get_spec; eauto | reflexivity]
    | E : cache_get _ _ _ = (None, _) |- _ =>
        apply cache_get_none in E; split; [discriminate | intros Hx; psimpl; congruence]
    end.
Qed.

(* a lookup can only come from vcl_recv: no other step leads to vcl_hit or vcl_miss *)
Lemma only_recv_looks_up orc q n c p c' p' n' :
  step orc q n c p = (c', p', Goto n') -> n' = NHit \/ n' = NMiss -> n = NRecv.
Proof.
  intros H Hn. destruct n; [reflexivity| | | | | | |]; exfalso; step_cases H; destruct Hn; discriminate.
Qed.

(* ---- a fresh simulator: vcl_hit cannot run before the request itself has fetched ---- *)
Definition is_fetch (e : event) : bool := match fst (fst e) with DFetch => true | _ => false end.
Definition is_hit (e : event) : bool := match fst (fst e) with DHit => true | _ => false end.

Definition FI (n : node) (c : ctx) (p : persistent) : Prop :=
  existsb is_fetch (c_trace c) = false ->
  p_cache p = [] /\ n <> NHit /\ existsb is_hit (c_trace c) = false.
Definition FF (c : ctx) (p : persistent) (_ : bool) : Prop :=
  existsb is_fetch (c_trace c) = false -> existsb is_hit (c_trace c) = false /\ p_cache p = [].

Lemma step_fresh orc q n c p c' p' nx :
  FI n c p -> step orc q n c p = (c', p', nx) ->
  match nx with Goto n' => FI n' c' p' | Done => FF c' p' false | Fail => FF c' p' true end.
Proof.
  intros Hi H. unfold FI, FF in *.
  destruct n; step_cases H; psimpl;
    cbn [existsb is_fetch is_hit fst orb] in *; intros Hf; try discriminate Hf;
    destruct (Hi Hf) as (H1 & H2 & H3); try congruence;
    repeat match goal with
    | E : run_ops _ _ _ = _ |- _ => apply run_ops_cache in E
    end;
    try match goal with
    | E : cache_get _ _ (p_cache ?x) = _, E' : p_cache ?x = p_cache _ |- _ =>
        rewrite E', H1 in E; cbn in E; inversion E; subst
    end;
    try (repeat split; psimpl; try congruence; auto; discriminate).
Qed.

Lemma existsb_rev {A} (f : A -> bool) l : existsb f (rev l) = existsb f l.
Proof.
  induction l as [|a l IH]; [reflexivity|]. cbn [rev existsb]. rewrite existsb_app, IH. cbn [existsb].
  destruct (f a), (existsb f l); reflexivity.
Qed.

Lemma empty_cache_no_hit_before_fetch orc p q rep p' :
  p_cache p = [] ->
  run_request orc p q = OK (rep, p') ->
  existsb is_fetch (r_trace rep) = false -> existsb is_hit (r_trace rep) = false /\ p_cache p' = [].
Proof.
  intros Hp. unfold run_request. destruct (run sm_fuel orc q NRecv ctx0 p) as [[[c p1] e]| | |] eqn:E; try discriminate.
  intros H; inversion H; subst; cbn [r_trace].
  assert (HF : FF c p' e).
  { apply (run_inv FI FF orc q (step_fresh orc q)) with (2 := E). unfold FI. cbn. intros _. repeat split; auto; discriminate. }
  unfold FF in HF. rewrite !existsb_rev. exact HF.
Qed.

Lemma fresh_no_hit_before_fetch orc q rep p' :
  run_request orc init q = OK (rep, p') ->
  existsb is_fetch (r_trace rep) = false -> existsb is_hit (r_trace rep) = false.
Proof. intros H Hf. exact (proj1 (empty_cache_no_hit_before_fetch orc init q rep p' eq_refl H Hf)). Qed.

(* the same over a whole history: on a fresh simulator no request runs vcl_hit as long as no request
   (this one included) has run vcl_fetch *)
Lemma history_no_hit_before_any_fetch h : forall p rs p',
  p_cache p = [] -> run_history h p = OK (rs, p') ->
  Forall (fun r => existsb is_fetch (r_trace r) = false) rs ->
  Forall (fun r => existsb is_hit (r_trace r) = false) rs /\ p_cache p' = [].
Proof.
  induction h as [|[orc q] h IH]; intros p rs p' Hp Hr Hf; cbn [run_history] in Hr.
  - inversion Hr; subst. split; [constructor|exact Hp].
  - destruct (run_request orc p q) as [[r p1]| | |] eqn:E1; try discriminate.
    destruct (run_history h p1) as [[rs1 p2]| | |] eqn:E2; try discriminate.
    inversion Hr; subst. inversion Hf as [|? ? Hf1 Hf2]; subst.
    destruct (empty_cache_no_hit_before_fetch orc p q r p1 Hp E1 Hf1) as [Hh Hp1].
    destruct (IH p1 rs1 p' Hp1 E2 Hf2) as [Hh2 Hp2]. split; [constructor; assumption|exact Hp2].
Qed.
