(* C06: the reported `cached` flag and X-Cache header say which branch the flow took last;
   the state left by a request is the state the next request starts from. *)
From Coq Require Import List ZArith NArith Bool Arith Lia Setoid.
From Falco Require Import Base.Res Base.SMBase Gen.SMConst Model.SM Model.SMDoc Proofs.SMBasics.
Import ListNotations.

(* the last branch, read from the newest-first trace *)
Fixpoint rbranch (tr : list event) : xst :=
  match tr with
  | [] => XNone
  | (DHit, _, _) :: _ => XHit
  | (DMiss, _, _) :: _ | (DHashP, _, _) :: _ => XMiss
  | _ :: t => rbranch t
  end.

Lemma last_branch_snoc l e acc :
  last_branch (l ++ [e]) acc =
  match fst (fst e) with
  | DHit => XHit
  | DMiss | DHashP => XMiss
  | _ => last_branch l acc
  end.
Proof.
  revert acc. induction l as [|[[n r] a] l IH]; intros acc.
  - destruct e as [[[] r] a]; reflexivity.
  - cbn [app]. destruct n; cbn [last_branch]; apply IH.
Qed.

Lemma rbranch_last tr : rbranch tr = last_branch (rev tr) XNone.
Proof.
  induction tr as [|[[n r] a] tr IH]; [reflexivity|].
  cbn [rev]. rewrite last_branch_snoc. cbn [fst]. destruct n; cbn [rbranch]; auto.
Qed.

Definition RI (n : node) (c : ctx) (_ : persistent) : Prop :=
  (c_cached c = true <-> c_state c = XHit) /\
  (n <> NLog -> c_resp c = None) /\
  c_state c = (match n with NHit => XHit | NMiss => XMiss | _ => rbranch (c_trace c) end) /\
  (n = NLog -> exists h, c_resp c = Some (c_state c, h) /\ (0 < h -> c_state c = XHit)) /\
  (n = NRecv -> c_hit c = None) /\
  (forall h, c_hit c = Some h -> c_state c = XHit).
Definition RF (c : ctx) (_ : persistent) (err : bool) : Prop :=
  (c_cached c = true <-> c_state c = XHit) /\
  (forall x h, c_resp c = Some (x, h) -> x = c_state c /\ (0 < h -> c_state c = XHit)) /\
  c_state c = rbranch (c_trace c) /\
  (err = false -> c_resp c <> None).

Lemma step_report orc q n c p c' p' nx :
  q_backend q = true ->
  RI n c p -> step orc q n c p = (c', p', nx) ->
  match nx with Goto n' => RI n' c' p' | Done => RF c' p' false | Fail => RF c' p' true end.
Proof.
  intros Hb (H1 & H2 & H3 & H4 & H5 & H6) H. unfold RI, RF.
  destruct n; step_cases H; psimpl;
    try match goal with E : negb (q_backend q) = true |- _ => rewrite Hb in E; discriminate E end;
    cbn [rbranch] in *;
    repeat match goal with E : Some _ = Some _ |- _ => inversion E; subst; clear E end;
    try (rewrite (H5 eq_refl) in *);
    try (destruct (H4 eq_refl) as (h0 & H4a & H4b));
    repeat split; psimpl; cbn [rbranch];
      try discriminate; try congruence; try tauto; try (intuition congruence);
      try (intros ? ? Hx; inversion Hx; subst; split; [congruence | intros; lia || auto]);
      try (intros ? ? Hx; rewrite H2 in Hx by discriminate; discriminate Hx);
      try (rewrite H2 by discriminate; reflexivity);
      try (eexists; split; [reflexivity|]; destruct (c_hit c) eqn:?; [intros _; eauto | intros; lia]);
      try (match goal with Hx : Some (_, _) = Some (_, _) |- _ => inversion Hx; subst; clear Hx end;
           destruct (c_hit c) eqn:?; [intros _; eauto | intros; lia]);
      try (rewrite H4a in *; match goal with Hx : Some (_, _) = Some (_, _) |- _ => inversion Hx; subst; exact H4b end).
Qed.

Lemma report_faithful orc p q rep p' :
  q_backend q = true ->
  run_request orc p q = OK (rep, p') ->
  (r_cached rep = true <-> last_branch (r_trace rep) XNone = XHit) /\
  (forall x, r_xcache rep = Some x -> x = last_branch (r_trace rep) XNone) /\
  (forall h, r_xhits rep = Some h -> 0 < h -> last_branch (r_trace rep) XNone = XHit) /\
  (r_error rep = false -> r_xcache rep <> None).
Proof.
  intros Hb. unfold run_request.
  destruct (run sm_fuel orc q NRecv ctx0 p) as [[[c p1] e]| | |] eqn:E; try discriminate.
  intros H; inversion H; subst; cbn [r_trace r_cached r_xcache r_xhits r_error].
  assert (HF : RF c p' e).
  { apply (run_inv RI RF orc q (fun n c p c' p' nx => step_report orc q n c p c' p' nx Hb)) with (2 := E).
    unfold RI. cbn. repeat split; auto; discriminate. }
  destruct HF as (H1 & H2 & H3 & H4). rewrite <- rbranch_last, <- H3.
  split; [exact H1|]. split; [|split].
  - intros x Hx. destruct (c_resp c) as [[x' h']|]; [|discriminate]. inversion Hx; subst. apply (H2 x h' eq_refl).
  - intros h Hx Hh. destruct (c_resp c) as [[x' h']|]; [|discriminate]. inversion Hx; subst. apply (H2 x' h eq_refl). exact Hh.
  - intros He Hn. apply (H4 He). destruct (c_resp c); [discriminate|reflexivity].
Qed.

(* ---- persistence ---- *)
Lemma run_history_app h1 : forall h2 p,
  run_history (h1 ++ h2) p =
  match run_history h1 p with
  | OK (rs1, p1) =>
      match run_history h2 p1 with
      | OK (rs2, p2) => OK (rs1 ++ rs2, p2)
      | Err => Err | Crash => Crash | OutOfFuel => OutOfFuel
      end
  | Err => Err | Crash => Crash | OutOfFuel => OutOfFuel
  end.
Proof.
  induction h1 as [|[orc q] h1 IH]; intros h2 p; cbn [app run_history].
  - destruct (run_history h2 p) as [[rs p2]| | |]; reflexivity.
  - destruct (run_request orc p q) as [[r p1]| | |]; try reflexivity.
    rewrite IH. destruct (run_history h1 p1) as [[rs1 p2]| | |]; try reflexivity.
    destruct (run_history h2 p2) as [[rs2 p3]| | |]; reflexivity.
Qed.

Lemma run_history_total h : forall p, exists rs p', run_history h p = OK (rs, p') /\ length rs = length h.
Proof.
  induction h as [|[orc q] h IH]; intros p; cbn [run_history].
  - eauto.
  - destruct (run_request_total orc p q) as (r & p1 & ->).
    destruct (IH p1) as (rs & p2 & -> & Hl). exists (r :: rs), p2. cbn [length]. auto.
Qed.

(* request k+1 of a history is served from exactly the state request k left *)
Lemma persist h1 orc q h2 p rs p' :
  run_history (h1 ++ (orc, q) :: h2) p = OK (rs, p') ->
  exists rs1 p1 r p2 rs2,
    run_history h1 p = OK (rs1, p1) /\ run_request orc p1 q = OK (r, p2) /\
    run_history h2 p2 = OK (rs2, p') /\ rs = rs1 ++ r :: rs2.
Proof.
  rewrite run_history_app. destruct (run_history h1 p) as [[rs1 p1]| | |] eqn:E1; try discriminate.
  cbn [run_history]. destruct (run_request orc p1 q) as [[r p2]| | |] eqn:E2; try discriminate.
  destruct (run_history h2 p2) as [[rs2 p3]| | |] eqn:E3; try discriminate.
  intros H; inversion H; subst. exists rs1, p1, r, p2, rs2. auto.
Qed.

(* what a request stores is what the next one finds: a cacheable answer with a positive TTL, fetched
   for a miss (not through vcl_pass) and accepted by vcl_fetch (deliver / deliver_stale / falling off
   the end), is an unexpired object for every later clock reading up to its expiry *)
Definition fetch_accepts (st : option state) : Prop :=
  st = Some NONE \/ st = Some (St SDeliver) \/ st = Some (St SDeliverStale).

Lemma fetch_stores orc q c p c' p' nx ttl :
  process_fetch orc q c p = (c', p', nx) -> c_pass c = false ->
  fetch_accepts (run_sub Fetch (c_restarts c) (orc Fetch (c_restarts c))) ->
  q_bresp q (c_restarts c) = Some (true, ttl) -> (0 < ttl)%Z ->
  forall now', (now' <= q_now q + ttl)%Z ->
  stored_fresh now' (q_hash q (c_restarts c)) (p_cache p') = true.
Proof.
  intros H Hp Hs Hq Ht now' Hn. unfold process_fetch in H. rewrite Hq, Hp in H.
  unfold call in H. cbn [scope_of] in H.
  assert (Hz : (0 <? ttl)%Z = true) by (apply Z.ltb_lt; exact Ht).
  rewrite Hz in H. change (c_restarts (set_beresp c)) with (c_restarts c) in H.
  assert (Hc : p_cache p' = cache_store (q_hash q (c_restarts c)) (mkItem (q_now q + ttl) (q_now q) 0) (p_cache p)).
  { destruct Hs as [Hs|[Hs|Hs]]; rewrite Hs in H; cbn in H; inversion H; reflexivity. }
  rewrite Hc. unfold stored_fresh, cache_store. cbn [cache_find]. rewrite N.eqb_refl. cbn [expires].
  apply negb_true_iff. apply Z.ltb_ge. exact Hn.
Qed.

(* ... and nothing else is: a round that went through vcl_pass, or whose vcl_fetch ended with pass,
   hit_for_pass, error, restart or anything undocumented, leaves the cache as it was *)
Lemma fetch_does_not_store orc q c p c' p' nx :
  process_fetch orc q c p = (c', p', nx) ->
  c_pass c = true \/ ~ fetch_accepts (run_sub Fetch (c_restarts c) (orc Fetch (c_restarts c))) ->
  p_cache p' = p_cache p.
Proof.
  intros H Hd. unfold process_fetch in H.
  destruct (q_bresp q (c_restarts c)) as [[cacheable ttl]|]; [|inversion H; reflexivity].
  unfold call in H. cbn [scope_of] in H. change (c_restarts (set_beresp c)) with (c_restarts c) in H.
  destruct (run_sub Fetch (c_restarts c) (orc Fetch (c_restarts c))) as [st|] eqn:E; [|inversion H; reflexivity].
  destruct Hd as [Hp|Hn].
  - rewrite Hp in H. cbn [negb andb] in H. unfold do_restart in H. dmatch H; inversion H; reflexivity.
  - assert (Ha : match st with NONE | St SDeliver | St SDeliverStale => true | _ => false end = false).
    { destruct st as [| |[]]; try reflexivity; exfalso; apply Hn; unfold fetch_accepts; auto. }
    rewrite Ha, andb_false_r in H. cbn [andb] in H. unfold do_restart in H. dmatch H; inversion H; reflexivity.
Qed.
