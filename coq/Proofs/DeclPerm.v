(* C11 - permuting the subroutine declarations does not change the inferred scopes, provided
   declarations of the same name agree on their explicit scope; without that proviso it does
   (the recorded known finding: the first duplicate of a non-Fastly name is the one registered). *)
From Coq Require Import List Arith Bool NArith Lia Permutation.
From Falco Require Import Base.Res Model.ScopeInfer Proofs.ScopeInferLfp.
Import ListNotations.

(* ---- find_decl *)
Lemma find_decl_some n l d : find_decl n l = Some d -> In d l /\ d_name d = n.
Proof.
  induction l as [|e r IH]; cbn; [discriminate|].
  destruct (Nat.eqb (d_name e) n) eqn:E.
  - intros H. inversion H; subst. apply Nat.eqb_eq in E. auto.
  - intros H. destruct (IH H). auto.
Qed.

Lemma find_decl_none n l : find_decl n l = None <-> forall d, In d l -> d_name d <> n.
Proof.
  induction l as [|e r IH]; cbn.
  - split; [intros _ d [] | reflexivity].
  - destruct (Nat.eqb (d_name e) n) eqn:E.
    + apply Nat.eqb_eq in E. split; [discriminate|]. intros H. exfalso. apply (H e); auto.
    + apply Nat.eqb_neq in E. rewrite IH. split.
      * intros H d [<-|Hd]; auto.
      * intros H d Hd. apply H. auto.
Qed.

Lemma find_decl_app n l d :
  find_decl n (l ++ [d]) =
  match find_decl n l with Some x => Some x | None => if Nat.eqb (d_name d) n then Some d else None end.
Proof.
  induction l as [|e r IH]; cbn; [reflexivity|].
  destruct (Nat.eqb (d_name e) n); [reflexivity | exact IH].
Qed.

Ltac eqbs :=
  repeat match goal with
         | |- context [Nat.eqb ?a ?b] => destruct (Nat.eqb_spec a b)
         | H : context [Nat.eqb ?a ?b] |- _ => destruct (Nat.eqb_spec a b)
         end.

Lemma find_decl_replace n l d :
  find_decl n (map (fun e => if Nat.eqb (d_name e) (d_name d) then d else e) l) =
  if Nat.eqb n (d_name d)
  then match find_decl n l with Some _ => Some d | None => None end
  else find_decl n l.
Proof.
  induction l as [|e r IH]; cbn.
  - destruct (Nat.eqb n (d_name d)); reflexivity.
  - destruct (Nat.eqb_spec (d_name e) (d_name d)) as [E1|E1]; cbn.
    + destruct (Nat.eqb_spec n (d_name d)) as [E2|E2].
      * subst n. rewrite Nat.eqb_refl. rewrite E1, Nat.eqb_refl. reflexivity.
      * destruct (Nat.eqb_spec (d_name d) n); [congruence|].
        destruct (Nat.eqb_spec (d_name e) n); [congruence|].
        rewrite IH. destruct (Nat.eqb_spec n (d_name d)); [congruence | reflexivity].
    + destruct (Nat.eqb_spec (d_name e) n) as [E3|E3].
      * subst n. destruct (Nat.eqb_spec (d_name e) (d_name d)); [congruence | reflexivity].
      * exact IH.
Qed.

(* ---- register: which names are registered, and with a declaration taken from where *)
Lemma register_spec : forall ds reg n,
  (forall d, find_decl n (register ds reg) = Some d ->
             (In d reg \/ In d ds) /\ d_name d = n) /\
  (find_decl n (register ds reg) = None <->
   find_decl n reg = None /\ forall d, In d ds -> d_rejected d = false -> d_name d <> n).
Proof.
  induction ds as [|d r IH]; intros reg n; cbn [register].
  - split.
    + intros d H. destruct (find_decl_some _ _ _ H). auto with datatypes.
    + split; [intros H; split; [exact H | intros d []] | intros [H _]; exact H].
  - destruct (d_rejected d) eqn:Rj.
    { destruct (IH reg n) as [A B]. split.
      - intros y Hy. destruct (A y Hy) as [[Hin|Hin] Hn]; auto with datatypes.
      - rewrite B. split; intros [H1 H2]; (split; [exact H1|]).
        + intros y [<-|Hy] Hr; [congruence | auto].
        + intros y Hy Hr. apply H2; auto with datatypes. }
    destruct (find_decl (d_name d) reg) as [x|] eqn:F.
    + destruct (d_fastly d).
      * set (reg' := map (fun e => if Nat.eqb (d_name e) (d_name d) then d else e) reg).
        destruct (IH reg' n) as [A B]. split.
        -- intros y Hy. destruct (A y Hy) as [[Hin|Hin] Hn]; split; auto with datatypes.
           unfold reg' in Hin. apply in_map_iff in Hin. destruct Hin as [e [He Hine]].
           destruct (Nat.eqb (d_name e) (d_name d)); rewrite <- He; [right; left; reflexivity | left; exact Hine].
        -- rewrite B. unfold reg'. rewrite find_decl_replace.
           destruct (Nat.eqb n (d_name d)) eqn:E.
           ++ apply Nat.eqb_eq in E. subst n. rewrite F. split.
              ** intros [H _]. discriminate.
              ** intros [H _]. discriminate.
           ++ apply Nat.eqb_neq in E. split.
              ** intros [H1 H2]. split; [exact H1|]. intros y [<-|Hy] Hr; auto.
              ** intros [H1 H2]. split; [exact H1|]. intros y Hy Hr. apply H2; auto with datatypes.
      * destruct (IH reg n) as [A B]. split.
        -- intros y Hy. destruct (A y Hy) as [[Hin|Hin] Hn]; auto with datatypes.
        -- rewrite B. split.
           ++ intros [H1 H2]. split; [exact H1|]. intros y [<-|Hy] Hr; auto.
              intro E. subst n. congruence.
           ++ intros [H1 H2]. split; [exact H1|]. intros y Hy Hr. apply H2; auto with datatypes.
    + destruct (IH (reg ++ [d]) n) as [A B]. split.
      * intros y Hy. destruct (A y Hy) as [[Hin|Hin] Hn]; split; auto with datatypes.
        apply in_app_or in Hin. destruct Hin as [Hin|[<-|[]]]; auto with datatypes.
      * rewrite B. rewrite find_decl_app. destruct (find_decl n reg) eqn:G.
        -- split; intros [H _]; discriminate.
        -- destruct (Nat.eqb (d_name d) n) eqn:E.
           ++ apply Nat.eqb_eq in E. split; [intros [H _]; discriminate|].
              intros [_ H]. exfalso. apply (H d (or_introl eq_refl) Rj). exact E.
           ++ apply Nat.eqb_neq in E. split.
              ** intros [_ H]. split; [reflexivity|]. intros y [<-|Hy] Hr; auto.
              ** intros [_ H]. split; [reflexivity|]. intros y Hy Hr. apply H; auto with datatypes.
Qed.

(* ---- build_graph: the callees of a name are those of all its declarations *)
Lemma lookup_app g k v n :
  lookup_callees (g ++ [(k, v)]) n =
  if existsb (fun kv => Nat.eqb (fst kv) n) g then lookup_callees g n
  else if Nat.eqb k n then v else [].
Proof.
  induction g as [|[k' v'] r IH]; cbn; [reflexivity|].
  destruct (Nat.eqb k' n); [reflexivity | exact IH].
Qed.

Lemma lookup_nokey g n : existsb (fun kv => Nat.eqb (fst kv) n) g = false -> lookup_callees g n = [].
Proof.
  induction g as [|[k v] r IH]; cbn; [reflexivity|].
  destruct (Nat.eqb k n); [discriminate | exact IH].
Qed.

Lemma lookup_extend g k cs n :
  existsb (fun kv => Nat.eqb (fst kv) k) g = true ->
  forall b, In b (lookup_callees (map (fun kv => if Nat.eqb (fst kv) k then (k, snd kv ++ cs) else kv) g) n) <->
            In b (lookup_callees g n) \/ (n = k /\ In b cs).
Proof.
  induction g as [|[k' v'] r IH]; cbn; [discriminate|].
  intros H b. destruct (Nat.eqb k' k) eqn:E1; cbn.
  - apply Nat.eqb_eq in E1. subst k'. destruct (Nat.eqb k n) eqn:E2.
    + apply Nat.eqb_eq in E2. subst n. rewrite in_app_iff. intuition.
    + apply Nat.eqb_neq in E2.
      destruct (existsb (fun kv => Nat.eqb (fst kv) k) r) eqn:Ex.
      * rewrite (IH eq_refl). intuition.
      * (* no further entry for k: the map is the identity on r *)
        assert (Hid : map (fun kv : nat * list name => if Nat.eqb (fst kv) k then (k, snd kv ++ cs) else kv) r = r).
        { clear -Ex. induction r as [|[a c] r IHr]; cbn in *; [reflexivity|].
          destruct (Nat.eqb a k); [discriminate|]. rewrite IHr by exact Ex. reflexivity. }
        rewrite Hid. intuition congruence.
  - cbn in H. destruct (Nat.eqb k' n) eqn:E2.
    + apply Nat.eqb_eq in E2. subst n. apply Nat.eqb_neq in E1. intuition congruence.
    + apply (IH H).
Qed.

Lemma build_graph_spec : forall ds g n b,
  In b (lookup_callees (build_graph ds g) n) <->
  In b (lookup_callees g n) \/ exists d, In d ds /\ d_name d = n /\ In b (d_callees d).
Proof.
  induction ds as [|d r IH]; intros g n b; cbn [build_graph].
  - split; [auto | intros [H|[d [[] _]]]; exact H].
  - destruct (d_callees d) as [|c cs] eqn:C.
    + rewrite IH. split.
      * intros [H|[y [Hy R]]]; [auto | right; exists y; intuition (auto with datatypes)].
      * intros [H|[y [[<-|Hy] [Hn Hb]]]]; [auto | rewrite C in Hb; destruct Hb | right; exists y; intuition (auto with datatypes)].
    + destruct (existsb (fun kv => Nat.eqb (fst kv) (d_name d)) g) eqn:Ex.
      * rewrite IH. rewrite (lookup_extend g (d_name d) (c :: cs) n Ex). split.
        -- intros [[H|[Hn Hb]]|[y [Hy R]]]; [auto | right; exists d; rewrite C; intuition (auto with datatypes) | right; exists y; intuition (auto with datatypes)].
        -- intros [H|[y [[<-|Hy] [Hn Hb]]]]; [auto | rewrite C in Hb; left; right; auto | right; exists y; intuition (auto with datatypes)].
      * rewrite IH. rewrite lookup_app.
        destruct (existsb (fun kv => Nat.eqb (fst kv) n) g) eqn:Ex2.
        -- split.
           ++ intros [H|[y [Hy R]]]; [auto | right; exists y; intuition (auto with datatypes)].
           ++ intros [H|[y [[<-|Hy] [Hn Hb]]]]; [auto | | right; exists y; intuition (auto with datatypes)].
              subst n. congruence.
        -- rewrite (lookup_nokey g n Ex2). destruct (Nat.eqb (d_name d) n) eqn:E.
           ++ apply Nat.eqb_eq in E. split.
              ** intros [H|[y [Hy R]]]; [right; exists d; rewrite C; intuition (auto with datatypes) | right; exists y; intuition (auto with datatypes)].
              ** intros [[]|[y [[<-|Hy] [Hn Hb]]]]; [rewrite C in Hb; auto | right; exists y; intuition (auto with datatypes)].
           ++ apply Nat.eqb_neq in E. split.
              ** intros [[]|[y [Hy R]]]. right. exists y. intuition (auto with datatypes).
              ** intros [[]|[y [[<-|Hy] [Hn Hb]]]]; [congruence | right; exists y; intuition (auto with datatypes)].
Qed.

(* ---- the inputs of the inference for a permuted declaration list *)
Definition consistent (ds : list decl) : Prop :=
  forall d d', In d ds -> In d' ds -> d_name d = d_name d' -> d_scope d = d_scope d'.

Section Perm.
Variables ds ds' : list decl.
Hypothesis HP : Permutation ds ds'.
Hypothesis HC : consistent ds.

Let reg := register ds [].
Let reg' := register ds' [].

Lemma reg_in n d : find_decl n reg = Some d -> In d ds /\ d_name d = n.
Proof.
  intros H. destruct (register_spec ds [] n) as [A _]. destruct (A d H) as [[[]|Hin] Hn]. auto.
Qed.
Lemma reg_in' n d : find_decl n reg' = Some d -> In d ds /\ d_name d = n.
Proof.
  intros H. destruct (register_spec ds' [] n) as [A _]. destruct (A d H) as [[[]|Hin] Hn].
  split; [|exact Hn]. eapply Permutation_in; [apply Permutation_sym; exact HP | exact Hin].
Qed.

Lemma reg_none_iff n : find_decl n reg = None <-> find_decl n reg' = None.
Proof.
  destruct (register_spec ds [] n) as [_ B]. destruct (register_spec ds' [] n) as [_ B'].
  unfold reg, reg'. rewrite B, B'. cbn. split; intros [_ H]; split; auto; intros d Hd Hr; apply H; auto.
  - eapply Permutation_in; [apply Permutation_sym; exact HP | exact Hd].
  - eapply Permutation_in; [exact HP | exact Hd].
Qed.

Lemma present_perm n : is_present reg n = is_present reg' n.
Proof.
  unfold is_present. pose proof (reg_none_iff n) as H.
  destruct (find_decl n reg), (find_decl n reg'); try reflexivity.
  - destruct H as [_ H]. discriminate (H eq_refl).
  - destruct H as [H _]. discriminate (H eq_refl).
Qed.

Lemma scope_perm n d d' : find_decl n reg = Some d -> find_decl n reg' = Some d' -> d_scope d = d_scope d'.
Proof.
  intros H H'. destruct (reg_in _ _ H) as [I N]. destruct (reg_in' _ _ H') as [I' N'].
  apply HC; auto. congruence.
Qed.

Lemma init_perm n : init_state reg n = init_state reg' n.
Proof.
  unfold init_state. pose proof (reg_none_iff n) as H.
  destruct (find_decl n reg) eqn:F, (find_decl n reg') eqn:F'; try reflexivity.
  - eapply scope_perm; eauto.
  - destruct H as [_ H]. discriminate (H eq_refl).
  - destruct H as [H _]. discriminate (H eq_refl).
Qed.

Lemma explicit_perm n : is_explicit reg n = is_explicit reg' n.
Proof.
  unfold is_explicit. pose proof (reg_none_iff n) as H.
  destruct (find_decl n reg) eqn:F, (find_decl n reg') eqn:F'; try reflexivity.
  - rewrite (scope_perm n d d0 F F'). reflexivity.
  - destruct H as [_ H]. discriminate (H eq_refl).
  - destruct H as [H _]. discriminate (H eq_refl).
Qed.

Lemma callees_perm n b :
  In b (lookup_callees (build_graph ds []) n) <-> In b (lookup_callees (build_graph ds' []) n).
Proof.
  rewrite !build_graph_spec. cbn. split; intros [[]|[d [Hd R]]]; right; exists d; split; auto.
  - eapply Permutation_in; [exact HP | exact Hd].
  - eapply Permutation_in; [apply Permutation_sym; exact HP | exact Hd].
Qed.

Lemma lfp_perm r :
  is_lfp (is_present reg) (is_explicit reg) (lookup_callees (build_graph ds [])) (init_state reg) r ->
  is_lfp (is_present reg') (is_explicit reg') (lookup_callees (build_graph ds' [])) (init_state reg') r.
Proof.
  assert (Hcl : forall t, closed (is_present reg) (is_explicit reg) (lookup_callees (build_graph ds [])) t <->
                          closed (is_present reg') (is_explicit reg') (lookup_callees (build_graph ds' [])) t).
  { intro t. unfold closed. split; intros H a b Pa Hb Eb Pb.
    - apply H; [rewrite present_perm | apply callees_perm | rewrite explicit_perm | rewrite present_perm]; assumption.
    - apply H; [rewrite <- present_perm | apply callees_perm | rewrite <- explicit_perm | rewrite <- present_perm]; assumption. }
  assert (Hle : forall t, le (init_state reg) t <-> le (init_state reg') t).
  { intro t. unfold le. split; intros H n; [rewrite <- init_perm | rewrite init_perm]; apply H. }
  intros (L & C & M). repeat split.
  - apply Hle. exact L.
  - apply Hcl. exact C.
  - intros t Lt Ct. apply M; [apply Hle | apply Hcl]; assumption.
Qed.

(* the inferred scopes of the program and of the permuted program coincide, for any key orders *)
Theorem infer_decl_permutation :
  forall fuel fuel' orders orders' r r',
    (forall j, covers (lookup_callees (build_graph ds [])) (orders j)) ->
    (forall j, covers (lookup_callees (build_graph ds' [])) (orders' j)) ->
    infer (is_present reg) (is_explicit reg) (lookup_callees (build_graph ds [])) fuel orders 0 (init_state reg) = OK r ->
    infer (is_present reg') (is_explicit reg') (lookup_callees (build_graph ds' [])) fuel' orders' 0 (init_state reg') = OK r' ->
    forall n, r n = r' n.
Proof.
  intros fuel fuel' orders orders' r r' Hc Hc' H H'.
  apply (lfp_unique (is_present reg') (is_explicit reg') (lookup_callees (build_graph ds' [])) (init_state reg')).
  - apply lfp_perm. eapply infer_is_lfp; eauto.
  - eapply infer_is_lfp; eauto.
Qed.
End Perm.

(* the proviso is needed: two declarations of subroutine 1 with different explicit scopes (RECV = 1,
   FETCH = 1048576) calling subroutine 2; swapping them changes what subroutine 2 inherits *)
Definition dup_a : decl := {| d_name := 1; d_fastly := false; d_rejected := false; d_scope := 1; d_callees := [2] |}.
Definition dup_b : decl := {| d_name := 1; d_fastly := false; d_rejected := false; d_scope := 1048576; d_callees := [] |}.
Definition callee2 : decl := {| d_name := 2; d_fastly := false; d_rejected := false; d_scope := 0; d_callees := [] |}.

Theorem decl_permutation_refuted :
  exists ds ds', Permutation ds ds' /\
    infer_program 10 ds (fun _ k => k) <> infer_program 10 ds' (fun _ k => k).
Proof.
  exists [dup_a; dup_b; callee2], [dup_b; dup_a; callee2]. split.
  - apply perm_swap.
  - vm_compute. discriminate.
Qed.
