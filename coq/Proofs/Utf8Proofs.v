From Coq Require Import List NArith ZArith Lia Bool ZifyBool ZifyN ZifyNat.
From Falco Require Import Base.Bytes Base.Utf8.
Import ListNotations.
Local Open Scope N_scope.
Ltac Zify.zify_post_hook ::= Z.div_mod_to_equations.

Lemma enc_rune_len r : (1 <= length (enc_rune r) <= 4)%nat.
Proof. unfold enc_rune. repeat (destruct (_ <? _)); simpl; lia. Qed.

Lemma dec_enc_rune r rest :
  valid_scalar r = true ->
  dec_rune (enc_rune r ++ rest) = (r, length (enc_rune r)).
Proof.
  intros Hv. unfold enc_rune. rewrite Hv.
  unfold valid_scalar in Hv.
  destruct (r <? 128) eqn:H1.
  { cbn [app dec_rune]. rewrite b2n_n2b_small by lia. rewrite H1. reflexivity. }
  destruct (r <? 2048) eqn:H2.
  { cbn [app dec_rune length]. rewrite !b2n_n2b_small by lia.
    replace (192 + r / 64 <? 128) with false by lia.
    unfold in_rng.
    replace ((194 <=? 192 + r / 64) && (192 + r / 64 <=? 223)) with true by lia.
    replace ((128 <=? 128 + r mod 64) && (128 + r mod 64 <=? 191)) with true by lia.
    f_equal. lia. }
  destruct (r <? 65536) eqn:H3.
  { cbn [app dec_rune length]. rewrite !b2n_n2b_small by lia.
    replace (224 + r / 4096 <? 128) with false by lia.
    unfold in_rng.
    replace ((194 <=? 224 + r / 4096) && (224 + r / 4096 <=? 223)) with false by lia.
    replace ((224 <=? 224 + r / 4096) && (224 + r / 4096 <=? 239)) with true by lia.
    destruct (224 + r / 4096 =? 224) eqn:E1; destruct (224 + r / 4096 =? 237) eqn:E2;
      try (exfalso; lia).
    - replace ((160 <=? 128 + (r / 64) mod 64) && (128 + (r / 64) mod 64 <=? 191)) with true by lia.
      replace ((128 <=? 128 + r mod 64) && (128 + r mod 64 <=? 191)) with true by lia.
      f_equal. lia.
    - replace ((128 <=? 128 + (r / 64) mod 64) && (128 + (r / 64) mod 64 <=? 159)) with true by lia.
      replace ((128 <=? 128 + r mod 64) && (128 + r mod 64 <=? 191)) with true by lia.
      f_equal. lia.
    - replace ((128 <=? 128 + (r / 64) mod 64) && (128 + (r / 64) mod 64 <=? 191)) with true by lia.
      replace ((128 <=? 128 + r mod 64) && (128 + r mod 64 <=? 191)) with true by lia.
      f_equal. lia. }
  cbn [app dec_rune length]. rewrite !b2n_n2b_small by lia.
  replace (240 + r / 262144 <? 128) with false by lia.
  unfold in_rng.
  replace ((194 <=? 240 + r / 262144) && (240 + r / 262144 <=? 223)) with false by lia.
  replace ((224 <=? 240 + r / 262144) && (240 + r / 262144 <=? 239)) with false by lia.
  replace ((240 <=? 240 + r / 262144) && (240 + r / 262144 <=? 244)) with true by lia.
  destruct (240 + r / 262144 =? 240) eqn:E1; destruct (240 + r / 262144 =? 244) eqn:E2;
    try (exfalso; lia).
  - replace ((144 <=? 128 + (r / 4096) mod 64) && (128 + (r / 4096) mod 64 <=? 191)) with true by lia.
    replace ((128 <=? 128 + (r / 64) mod 64) && (128 + (r / 64) mod 64 <=? 191)) with true by lia.
    replace ((128 <=? 128 + r mod 64) && (128 + r mod 64 <=? 191)) with true by lia.
    f_equal. lia.
  - replace ((128 <=? 128 + (r / 4096) mod 64) && (128 + (r / 4096) mod 64 <=? 143)) with true by lia.
    replace ((128 <=? 128 + (r / 64) mod 64) && (128 + (r / 64) mod 64 <=? 191)) with true by lia.
    replace ((128 <=? 128 + r mod 64) && (128 + r mod 64 <=? 191)) with true by lia.
    f_equal. lia.
  - replace ((128 <=? 128 + (r / 4096) mod 64) && (128 + (r / 4096) mod 64 <=? 191)) with true by lia.
    replace ((128 <=? 128 + (r / 64) mod 64) && (128 + (r / 64) mod 64 <=? 191)) with true by lia.
    replace ((128 <=? 128 + r mod 64) && (128 + r mod 64 <=? 191)) with true by lia.
    f_equal. lia.
Qed.

Lemma dec_all_fuel_nil n : dec_all_fuel n [] = [].
Proof. destruct n; reflexivity. Qed.

Lemma dec_all_fuel_enc rs : forall n,
  forallb valid_scalar rs = true ->
  (length (enc_all rs) <= n)%nat ->
  dec_all_fuel n (enc_all rs) = rs.
Proof.
  induction rs as [|r rs IH]; intros n Hv Hn.
  - apply dec_all_fuel_nil.
  - simpl in Hv. apply andb_true_iff in Hv as [Hr Hrs].
    unfold enc_all in *. cbn [flat_map] in *. rewrite app_length in Hn.
    pose proof (enc_rune_len r) as Hl.
    destruct n as [|n]; [lia|].
    cbn [dec_all_fuel].
    destruct (enc_rune r ++ flat_map enc_rune rs) eqn:E.
    { destruct (enc_rune r); simpl in *; [lia|discriminate]. }
    rewrite <- E. rewrite dec_enc_rune by exact Hr.
    rewrite skipn_app, skipn_all, Nat.sub_diag. cbn [skipn app].
    rewrite IH by (try assumption; lia). reflexivity.
Qed.

Theorem dec_enc_all rs :
  forallb valid_scalar rs = true -> dec_all (enc_all rs) = rs.
Proof. intros Hv. unfold dec_all. apply dec_all_fuel_enc; [exact Hv|lia]. Qed.

(* every rune produced by the decoder is a valid scalar: the decoder's range is
   closed under re-encoding (used for string(ret) in bytesToString) *)
