(* program_roundtrip, part 5: backend declarations (nested .probe), Parse(), ParseVCL: the theorem. *)
From Coq Require Import String.
From Coq Require Import List NArith ZArith Bool Lia.
From Falco Require Import Base.Bytes Gen.TokenTypes Model.ParseKinds Gen.ParserTables
  Model.ParseBase Model.Ast Model.ParseLit Model.ParseExpr Model.ParseStmt Model.ParseDecl Model.Yield
  Proofs.ParseTables Proofs.ParseExprYield Proofs.ParseExprMono Proofs.ParseExprTotal
  Proofs.ParsePratt Proofs.ParseRoundtrip Proofs.ParseStmtYield Proofs.ParseStmtTotal Proofs.ParseDeclTotal
  Proofs.ParseStmtMono Proofs.ParseProgram Proofs.ParseProgram2 Proofs.ParseProgram3 Proofs.ParseProgram4.
Import ListNotations.
Local Open Scope parse_scope.

Section P.
Variable fok : str -> bool.
Notation cexpr := (cexpr fok).

(* ---------- fuel monotonicity of the backend property parser *)
Lemma pbprop_S n st :
  pbprop fok (S n) st =
  do st1 <- expect st T_DOT;
  do st2 <- expect st1 T_IDENT;
  do st3 <- expect st2 T_ASSIGN;
  let st4 := next st3 in
  if cur_is st4 T_LEFT_BRACE then
    do (ps, st5) <- pbprops fok n st4 [];
    let st6 := next st5 in
    POK (BProbe (cur st1) (cur st2) (cur st3) (cur st4) ps (cur st6), st6)
  else
    do (e, st5) <- parse_expr fok P_LOWEST st4;
    do st6 <- semi st5;
    POK (BProp (cur st1) (cur st2) (cur st3) e (cur st6), st6).
Proof. reflexivity. Qed.
Lemma pbprops_S n st acc :
  pbprops fok (S n) st acc =
  if peek_is st T_RIGHT_BRACE then POK (rev acc, st)
  else do (p, st1) <- pbprop fok n st; pbprops fok n st1 (p :: acc).
Proof. reflexivity. Qed.

Lemma bprop_mono_step : forall n,
  (forall st, le (pbprop fok n st) (pbprop fok (S n) st)) /\
  (forall st acc, le (pbprops fok n st acc) (pbprops fok (S n) st acc)).
Proof.
  induction n as [|n [IHp IHl]]; [split; intros; intros H; exfalso; apply H; reflexivity|].
  split.
  - intros st. rewrite !pbprop_S.
    apply le_bind; [apply le_refl|]. intros s1. apply le_bind; [apply le_refl|]. intros s2.
    apply le_bind; [apply le_refl|]. intros s3. cbn zeta. destruct (cur_is _ T_LEFT_BRACE); [|apply le_refl].
    apply le_bind; [apply IHl|]. intros [ps s5]. apply le_refl.
  - intros st acc. rewrite !pbprops_S. destruct (peek_is st T_RIGHT_BRACE); [apply le_refl|].
    apply le_bind; [apply IHp|]. intros [p s1]. apply IHl.
Qed.

Lemma pbprops_mono_any n m st acc : pbprops fok n st acc <> PFuel -> n <= m -> pbprops fok m st acc = pbprops fok n st acc.
Proof.
  intros H Hle. induction Hle; [reflexivity|].
  rewrite (proj2 (bprop_mono_step m) st acc); [exact IHHle | rewrite IHHle; exact H].
Qed.

Lemma cur_is_app pv (l r : list token) t : l <> [] -> cur_is (St pv (l ++ r)) t = ttype_eqb (typ (hdt l)) t.
Proof. intros H. destruct l; [congruence | reflexivity]. Qed.

(* ---------- canonical backend properties *)
Inductive cbprop : bprop -> Prop :=
| cbp_expr dot key eq v semi :
    typ dot = T_DOT -> typ key = T_IDENT -> typ eq = T_ASSIGN -> cexpr v -> typ semi = T_SEMICOLON ->
    cbprop (BProp dot key eq v semi)
| cbp_probe dot key eq lb ps rb :
    typ dot = T_DOT -> typ key = T_IDENT -> typ eq = T_ASSIGN -> typ lb = T_LEFT_BRACE -> cbprops ps ->
    typ rb = T_RIGHT_BRACE -> cbprop (BProbe dot key eq lb ps rb)
with cbprops : list bprop -> Prop :=
| cbs_nil : cbprops []
| cbs_cons p ps : cbprop p -> cbprops ps -> cbprops (p :: ps).
Scheme cbprop_mut := Minimality for cbprop Sort Prop with cbprops_mut := Minimality for cbprops Sort Prop.
Combined Scheme cbprop_all_ind from cbprop_mut, cbprops_mut.

Lemma ybprop_ne p : ybprop p <> []. Proof. destruct p; discriminate. Qed.
Lemma cbprop_hd p : cbprop p -> typ (hdt (ybprop p)) = T_DOT.
Proof. intros H; destruct H; cbn; assumption. Qed.

Definition Bp (p : bprop) : Prop :=
  forall x rest, evp (fun pv n => pbprop fok n (St pv (x :: ybprop p ++ rest))) p (lastt (ybprop p) :: rest).
Definition Bs (ps : list bprop) : Prop :=
  forall x rb rest acc, typ rb = T_RIGHT_BRACE ->
    evp (fun pv n => pbprops fok n (St pv (x :: flat_map ybprop ps ++ rb :: rest)) acc)
        (rev acc ++ ps) (lastt (x :: flat_map ybprop ps) :: rb :: rest).

Lemma bprop_rt_all : (forall p, cbprop p -> Bp p) /\ (forall ps, cbprops ps -> Bs ps).
Proof.
  apply cbprop_all_ind.
  - intros dot key eq v semi Hd Hk He Hv Hs x rest. exists 1. intros pv n Hn. destruct n; [lia|].
    rewrite pbprop_S. cbn [ybprop app]. rewrite <- app_assoc. cbn [app].
    rewrite (expect_cons _ _ _ _ _ Hd). cbn [pbind]. rewrite (expect_cons _ _ _ _ _ Hk). cbn [pbind].
    assert (Hnb : typ (hdt (yexpr v)) <> T_LEFT_BRACE) by (apply (cexpr_hd_not fok); auto).
    rewrite (expect_cons _ _ _ _ _ He). cbn [pbind]. cbn zeta. rewrite next_cons.
    rewrite cur_is_app by apply yexpr_nonempty.
    apply ttype_eqb_neq in Hnb. rewrite Hnb.
    destruct (pe_rt fok v (Some eq) semi rest Hv (closer_semi _ Hs)) as [pv' E]. rewrite E. cbn [pbind].
    rewrite (semi_cons _ _ _ _ Hs). cbn [pbind]. rewrite !cur_cons.
    replace (lastt (dot :: key :: eq :: yexpr v ++ [semi])) with semi.
    + eexists. reflexivity.
    + symmetry. apply (lastt_suffix1 _ (dot :: key :: eq :: yexpr v)). reflexivity.
  - intros dot key eq lb ps rb Hd Hk He Hlb _ IHs Hrb x rest.
    destruct (IHs lb rb rest [] Hrb) as [N HN]. exists (S N). intros pv n Hn. destruct n; [lia|].
    rewrite pbprop_S. cbn [ybprop app]. rewrite <- app_assoc. cbn [app].
    rewrite (expect_cons _ _ _ _ _ Hd). cbn [pbind]. rewrite (expect_cons _ _ _ _ _ Hk). cbn [pbind].
    rewrite (expect_cons _ _ _ _ _ He). cbn [pbind]. cbn zeta. rewrite next_cons.
    unfold cur_is. rewrite cur_cons, Hlb, ttype_eqb_refl.
    destruct (HN (Some eq) n ltac:(lia)) as [pv1 E1]. rewrite E1. cbn [pbind rev app]. rewrite next_cons, !cur_cons.
    replace (lastt (dot :: key :: eq :: lb :: flat_map ybprop ps ++ [rb])) with rb.
    + eexists. reflexivity.
    + symmetry. apply (lastt_suffix1 _ (dot :: key :: eq :: lb :: flat_map ybprop ps)). reflexivity.
  - intros x rb rest acc Hrb. exists 1. intros pv n Hn. destruct n; [lia|].
    rewrite pbprops_S. cbn [flat_map app]. rewrite peek_is_cons, Hrb, ttype_eqb_refl. rewrite app_nil_r.
    eexists. reflexivity.
  - intros p ps Hp IHp _ IHs x rb rest acc Hrb.
    destruct (IHp x (flat_map ybprop ps ++ rb :: rest)) as [N1 H1].
    destruct (IHs (lastt (ybprop p)) rb rest (p :: acc) Hrb) as [N2 H2].
    exists (S (Nat.max N1 N2)). intros pv n Hn. destruct n; [lia|].
    rewrite pbprops_S. cbn [flat_map]. rewrite <- app_assoc.
    rewrite peek_is_app by apply ybprop_ne. rewrite (cbprop_hd p Hp).
    replace (ttype_eqb T_DOT T_RIGHT_BRACE) with false by reflexivity.
    destruct (H1 pv n ltac:(lia)) as [pv1 E1]. rewrite E1. cbn [pbind].
    destruct (H2 pv1 n ltac:(lia)) as [pv2 E2]. rewrite E2. exists pv2.
    cbn [rev]. rewrite <- app_assoc. cbn [app].
    rewrite (lastt_x_app x (ybprop p) (flat_map ybprop ps)) by apply ybprop_ne. reflexivity.
Qed.

Lemma pbackend_rt kw name lb ps rb pv rest :
  typ name = T_IDENT -> typ lb = T_LEFT_BRACE -> cbprops ps -> typ rb = T_RIGHT_BRACE ->
  okst (pbackend fok (St pv (kw :: name :: lb :: flat_map ybprop ps ++ rb :: rest)))
       (DBackend kw name lb ps rb) (rb :: rest).
Proof.
  intros Hn Hlb Hps Hrb. unfold pbackend.
  rewrite (expect_cons _ _ _ _ _ Hn). cbn [pbind]. rewrite (expect_cons _ _ _ _ _ Hlb). cbn [pbind].
  set (st2 := St (Some name) (lb :: flat_map ybprop ps ++ rb :: rest)).
  destruct (proj2 bprop_rt_all ps Hps lb rb rest [] Hrb) as [N HN].
  assert (Hf : pbprops fok (stmt_fuel st2) st2 [] <> PFuel).
  { apply (proj2 (pbprop_GR_all fok (stmt_fuel st2))). unfold stmt_fuel. fold (L st2). rewrite L_next. lia. }
  rewrite <- (pbprops_mono_any (stmt_fuel st2) (Nat.max N (stmt_fuel st2)) st2 [] Hf) by lia.
  destruct (HN (Some name) (Nat.max N (stmt_fuel st2)) ltac:(lia)) as [pv1 E1]. fold st2 in E1. rewrite E1.
  cbn [pbind rev app]. rewrite next_cons. subst st2. rewrite !cur_cons. eexists. reflexivity.
Qed.

(* ---------- every declaration kind *)
Definition cdeclx (d : stmt) (nx : token) : Prop :=
  match d with
  | DAcl kw name lb cs rb =>
      typ kw = T_ACL /\ typ name = T_IDENT /\ typ lb = T_LEFT_BRACE /\ Forall ccidr cs /\ typ rb = T_RIGHT_BRACE
  | DBackend kw name lb ps rb =>
      typ kw = T_BACKEND /\ typ name = T_IDENT /\ typ lb = T_LEFT_BRACE /\ cbprops ps /\ typ rb = T_RIGHT_BRACE
  | DDirector kw name ty lb ps rb =>
      typ kw = T_DIRECTOR /\ typ name = T_IDENT /\ typ ty = T_IDENT /\ typ lb = T_LEFT_BRACE
      /\ Forall (cdprop fok) ps /\ typ rb = T_RIGHT_BRACE
  | DTable kw name ty lb ps rb =>
      typ kw = T_TABLE /\ typ name = T_IDENT /\ match ty with Some t => typ t = T_IDENT | None => True end
      /\ typ lb = T_LEFT_BRACE /\ ctprops fok ps /\ typ rb = T_RIGHT_BRACE
  | _ => cdecl fok d nx
  end.

Lemma parse_decl_rt d pv rest : cdeclx d (hdt rest) -> okst (parse_decl fok (St pv (ystmt d ++ rest))) d rest.
Proof.
  intros Hc. unfold parse_decl.
  assert (H : exists lst, okst (match typ (cur (St pv (ystmt d ++ rest))) with
        | T_ACL => pacl (St pv (ystmt d ++ rest))
        | T_IMPORT => pkw_ident SImport (St pv (ystmt d ++ rest))
        | T_INCLUDE => pinclude (St pv (ystmt d ++ rest))
        | T_BACKEND => pbackend fok (St pv (ystmt d ++ rest))
        | T_DIRECTOR => pdirector fok (St pv (ystmt d ++ rest))
        | T_TABLE => ptable fok (St pv (ystmt d ++ rest))
        | T_SUBROUTINE => psub fok (St pv (ystmt d ++ rest))
        | T_PENALTYBOX => pnamed_block fok DPenaltybox (St pv (ystmt d ++ rest))
        | T_RATECOUNTER => pnamed_block fok DRatecounter (St pv (ystmt d ++ rest))
        | _ => err_cur E_unexpected (St pv (ystmt d ++ rest))
        end) d (lst :: rest)).
  { destruct d; cbn [cdeclx cdecl] in Hc; try contradiction.
    - (* include *) destruct Hc as [Hk [H1 [H2 H3]]]. eexists.
      replace (typ (cur (St pv (ystmt (SInclude kw m v semi) ++ rest)))) with T_INCLUDE by (cbn; symmetry; exact Hk).
      apply pinclude_rt; auto.
    - (* import *) destruct Hc as [Hk [H1 H2]]. eexists. cbn [ystmt app]. rewrite cur_cons, Hk.
      apply pkw_ident_rt; auto.
    - (* acl *) destruct Hc as [Hk [H1 [H2 [H3 H4]]]]. eexists. cbn [ystmt app]. rewrite <- app_assoc. cbn [app].
      rewrite cur_cons, Hk. apply pacl_rt; auto.
    - (* backend *) destruct Hc as [Hk [H1 [H2 [H3 H4]]]]. eexists. cbn [ystmt app]. rewrite <- app_assoc. cbn [app].
      rewrite cur_cons, Hk. apply pbackend_rt; auto.
    - (* director *) destruct Hc as [Hk [H1 [H2 [H3 [H4 H5]]]]]. eexists. cbn [ystmt app]. rewrite <- app_assoc. cbn [app].
      rewrite cur_cons, Hk. apply (pdirector_rt fok); auto.
    - (* table *) destruct Hc as [Hk [H1 [H2 [H3 [H4 H5]]]]]. eexists.
      replace (typ (cur (St pv (ystmt (DTable kw name ty lb ps rb) ++ rest)))) with T_TABLE by (cbn; symmetry; exact Hk).
      apply (ptable_rt fok); auto.
    - (* sub *) destruct Hc as [Hk [H1 [H2 [H3 [H4 H5]]]]]. eexists.
      replace (typ (cur (St pv (ystmt (DSub kw name params ret lb b rb) ++ rest)))) with T_SUBROUTINE by (cbn; symmetry; exact Hk).
      apply (psub_rt fok); auto.
    - (* penaltybox *) destruct Hc as [Hk [H1 [H2 H3]]]. eexists. cbn [ystmt app]. rewrite <- app_assoc. cbn [app].
      rewrite cur_cons, Hk. apply (pnamed_block_rt fok); auto.
    - (* ratecounter *) destruct Hc as [Hk [H1 [H2 H3]]]. eexists. cbn [ystmt app]. rewrite <- app_assoc. cbn [app].
      rewrite cur_cons, Hk. apply (pnamed_block_rt fok); auto. }
  destruct H as [lst [pv1 E]]. rewrite E. cbn [pbind]. rewrite next_cons. eexists. reflexivity.
Qed.

(* a canonical program: canonical declarations, each followed by the first token of the next *)
Fixpoint cprog (ds : list stmt) : Prop :=
  match ds with
  | [] => True
  | d :: r => cdeclx d (hdt (flat_map ystmt r)) /\ cprog r
  end.

Lemma cdeclx_hd d nx : cdeclx d nx -> typ (hdt (ystmt d)) <> T_EOF.
Proof.
  destruct d; cbn [cdeclx cdecl csimple]; try contradiction; intros H; destruct H as [H _]; cbn; rewrite H; discriminate.
Qed.

Lemma pvcl_rt : forall ds n pv acc, cprog ds -> length ds < n ->
  okst (pvcl fok n (St pv (flat_map ystmt ds)) acc) (rev acc ++ ds) [].
Proof.
  induction ds as [|d ds IH]; intros n pv acc Hc Hn.
  - destruct n; [simpl in Hn; lia|]. cbn [pvcl flat_map]. rewrite app_nil_r. eexists. reflexivity.
  - destruct n; [simpl in Hn; lia|]. destruct Hc as [Hd Hds]. cbn [pvcl flat_map].
    rewrite cur_is_app by apply ystmt_ne.
    pose proof (cdeclx_hd d _ Hd) as Hh. apply ttype_eqb_neq in Hh. rewrite Hh.
    destruct (parse_decl_rt d pv (flat_map ystmt ds) Hd) as [pv1 E1]. rewrite E1. cbn [pbind].
    destruct (IH n pv1 (d :: acc) Hds ltac:(simpl in Hn; lia)) as [pv2 E2]. rewrite E2.
    exists pv2. cbn [rev]. rewrite <- app_assoc. reflexivity.
Qed.

(* program_roundtrip: ParseVCL on the tokens of a canonical program returns the program *)
Theorem program_roundtrip ds : cprog ds -> parse_vcl fok (flat_map ystmt ds) = POK (Vcl ds false).
Proof.
  intros Hc. unfold parse_vcl, start.
  destruct (pvcl_rt ds (S (length (flat_map ystmt ds))) None [] Hc) as [pv E].
  { pose proof (flat_map_len_ge ystmt ds ystmt_ne). lia. }
  rewrite E. reflexivity.
Qed.

End P.

(* ---------- a witness:
   sub f(STRING a) BOOL { esi; if (x == "1") { set req.http.A = a "b"; } elsif (!y) { } else { lbl: g(a); }
                          switch (req.http.A) { case "a": restart; fallthrough; case ~"b": break; default: break; }
                          return (true); }
   acl office { !"10.0.0.0"/8; } *)
Local Open Scope string_scope.
Definition k_ (t : ttype) (s : string) : token := tk t s.
Definition ex_prog : list stmt :=
  [ DSub (k_ T_SUBROUTINE "sub") (k_ T_IDENT "f")
      (Some (k_ T_LEFT_PAREN "(", [(k_ T_IDENT "STRING", k_ T_IDENT "a", None)], k_ T_RIGHT_PAREN ")"))
      (Some (k_ T_IDENT "BOOL")) (k_ T_LEFT_BRACE "{")
      [ SEsi (k_ T_ESI "esi") (k_ T_SEMICOLON ";");
        SIf (k_ T_IF "if") (k_ T_LEFT_PAREN "(")
            (EInfix (EIdent (k_ T_IDENT "x")) (k_ T_EQUAL "==") false (EString (tstr "1") (s2b "1")))
            (k_ T_RIGHT_PAREN ")") (k_ T_LEFT_BRACE "{")
            [ SSet (k_ T_SET "set") (k_ T_IDENT "req.http.A") (k_ T_ASSIGN "=")
                   (EConcat (EIdent (k_ T_IDENT "a")) (EString (tstr "b") (s2b "b"))) (k_ T_SEMICOLON ";") ]
            (k_ T_RIGHT_BRACE "}")
            [ Elif (k_ T_ELSIF "elsif") None (k_ T_LEFT_PAREN "(") (EPrefix (k_ T_NOT "!") (EIdent (k_ T_IDENT "y")))
                   (k_ T_RIGHT_PAREN ")") (k_ T_LEFT_BRACE "{") [] (k_ T_RIGHT_BRACE "}") ]
            (Some (k_ T_ELSE "else", k_ T_LEFT_BRACE "{",
                   [ SGotoDest (k_ T_IDENT "lbl:");
                     SFunCall (k_ T_IDENT "g") (k_ T_LEFT_PAREN "(") (ASome (EIdent (k_ T_IDENT "a")) ATNil)
                              (k_ T_RIGHT_PAREN ")") (k_ T_SEMICOLON ";") ],
                   k_ T_RIGHT_BRACE "}"));
        SSwitch (k_ T_SWITCH "switch") (k_ T_LEFT_PAREN "(") (EIdent (k_ T_IDENT "req.http.A")) (k_ T_RIGHT_PAREN ")")
                (k_ T_LEFT_BRACE "{")
                [ Case (CCase (k_ T_CASE "case") (CTEq (EString (tstr "a") (s2b "a")))) (k_ T_COLON ":")
                       [ SRestart (k_ T_RESTART "restart") (k_ T_SEMICOLON ";");
                         SFallthrough (k_ T_FALLTHROUGH "fallthrough") (k_ T_SEMICOLON ";") ] true;
                  Case (CCase (k_ T_CASE "case") (CTRegex (k_ T_REGEX_MATCH "~") (EString (tstr "b") (s2b "b")))) (k_ T_COLON ":")
                       [ SBreak (k_ T_BREAK "break") (k_ T_SEMICOLON ";") ] false;
                  Case (CDefault (k_ T_DEFAULT "default")) (k_ T_COLON ":")
                       [ SBreak (k_ T_BREAK "break") (k_ T_SEMICOLON ";") ] false ]
                2%Z (k_ T_RIGHT_BRACE "}");
        SReturn (k_ T_RETURN "return")
                (Some (Some (k_ T_LEFT_PAREN "("), EBool (k_ T_TRUE "true"), Some (k_ T_RIGHT_PAREN ")")))
                (k_ T_SEMICOLON ";") ]
      (k_ T_RIGHT_BRACE "}");
    DAcl (k_ T_ACL "acl") (k_ T_IDENT "office") (k_ T_LEFT_BRACE "{")
      [ Cidr (Some (k_ T_NOT "!")) (IpStr (tstr "10.0.0.0")) (Some (k_ T_SLASH "/", k_ T_INT "8", 8%Z)) (k_ T_SEMICOLON ";") ]
      (k_ T_RIGHT_BRACE "}") ].

Example ex_prog_canonical : cprog (fun _ => true) ex_prog.
Proof.
  cbn [cprog ex_prog]. split; [|split; [|exact I]].
  - cbn [cdeclx cdecl]. repeat split; try reflexivity.
    apply cb_cons; [apply c_simple; cbn; repeat split; reflexivity|].
    apply cb_cons.
    { apply c_if; try reflexivity.
      - vm_compute. repeat split; reflexivity.
      - apply cb_cons; [apply c_simple; vm_compute; repeat split; reflexivity | apply cb_nil; reflexivity].
      - apply cc_elif; try reflexivity.
        + right. reflexivity.
        + vm_compute. repeat split; reflexivity.
        + apply cb_nil. reflexivity.
        + apply cc_else; try reflexivity.
          apply cb_cons; [apply c_label; try reflexivity; vm_compute; discriminate|].
          apply cb_cons; [apply c_funcall; try reflexivity; vm_compute; repeat split; reflexivity|].
          apply cb_nil. reflexivity. }
    apply cb_cons.
    { apply c_switch; [reflexivity | reflexivity | reflexivity | reflexivity | reflexivity | | vm_compute; reflexivity | vm_compute; reflexivity].
      apply cs_cons; [vm_compute; repeat split; reflexivity | reflexivity | |].
      - apply cy_cons; [apply c_simple; vm_compute; repeat split; reflexivity|].
        apply cy_fall; try reflexivity. left. reflexivity.
      - apply cs_cons; [vm_compute; repeat split; try reflexivity; discriminate | reflexivity | |].
        + apply cy_break; try reflexivity. right. left. reflexivity.
        + apply cs_cons; [reflexivity | reflexivity | |].
          * apply cy_break; try reflexivity. right. right. reflexivity.
          * apply cs_nil. reflexivity. }
    apply cb_cons; [apply c_simple; vm_compute; repeat split; reflexivity|].
    apply cb_nil. reflexivity.
  - cbn [cdeclx]. repeat split; try reflexivity. constructor; [|constructor]. vm_compute. repeat split; reflexivity.
Qed.

Example ex_prog_parses : parse_vcl (fun _ => true) (flat_map ystmt ex_prog) = POK (Vcl ex_prog false).
Proof. vm_compute. reflexivity. Qed.

(* parser state across nesting: a switch nested in a case of a switch; the nested label "b" recurs
   in a LATER clause of the outer switch - the duplicate bookkeeping [book] is per switch:
   sub f { switch (x) { case "a": switch (x) { case "b": break; } break; case "b": break; } } *)
Definition brk : stmt := SBreak (k_ T_BREAK "break") (k_ T_SEMICOLON ";").
Definition case_ (l : string) (body : list stmt) : scase :=
  Case (CCase (k_ T_CASE "case") (CTEq (EString (tstr l) (s2b l)))) (k_ T_COLON ":") body false.
Definition sw (cases : list scase) : stmt :=
  SSwitch (k_ T_SWITCH "switch") (k_ T_LEFT_PAREN "(") (EIdent (k_ T_IDENT "x")) (k_ T_RIGHT_PAREN ")")
          (k_ T_LEFT_BRACE "{") cases (-1)%Z (k_ T_RIGHT_BRACE "}").
Definition ex_nested : list stmt :=
  [ DSub (k_ T_SUBROUTINE "sub") (k_ T_IDENT "f") None None (k_ T_LEFT_BRACE "{")
      [ sw [ case_ "a" [ sw [ case_ "b" [brk] ]; brk ]; case_ "b" [brk] ] ]
      (k_ T_RIGHT_BRACE "}") ].

Example ex_nested_canonical : cprog (fun _ => true) ex_nested.
Proof.
  cbn [cprog ex_nested]. split; [|exact I]. cbn [cdeclx cdecl]. repeat split; try reflexivity.
  apply cb_cons; [|apply cb_nil; reflexivity].
  apply c_switch; [reflexivity | reflexivity | reflexivity | reflexivity | reflexivity | | vm_compute; reflexivity | vm_compute; reflexivity].
  apply cs_cons; [vm_compute; repeat split; reflexivity | reflexivity | |].
  - apply cy_cons.
    + apply c_switch; [reflexivity | reflexivity | reflexivity | reflexivity | reflexivity | | vm_compute; reflexivity | vm_compute; reflexivity].
      apply cs_cons; [vm_compute; repeat split; reflexivity | reflexivity | | apply cs_nil; reflexivity].
      apply cy_break; try reflexivity. right. right. reflexivity.
    + apply cy_break; try reflexivity. left. reflexivity.
  - apply cs_cons; [vm_compute; repeat split; reflexivity | reflexivity | | apply cs_nil; reflexivity].
    apply cy_break; try reflexivity. right. right. reflexivity.
Qed.

Example ex_nested_parses : parse_vcl (fun _ => true) (flat_map ystmt ex_nested) = POK (Vcl ex_nested false).
Proof. apply program_roundtrip. exact ex_nested_canonical. Qed.
