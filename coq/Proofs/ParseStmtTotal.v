(* Statements: never out of fuel (4 * tokens + 8 for the recursive cluster), no Go fault point
   reachable on a lexer-shaped stream, and the state only moves forward. *)
From Coq Require Import String.
From Coq Require Import List NArith ZArith Bool Lia.
From Falco Require Import Base.Bytes Gen.TokenTypes Model.ParseKinds Gen.ParserTables
  Model.ParseBase Model.Ast Model.ParseLit Model.ParseExpr Model.ParseStmt Model.Yield
  Proofs.ParseTables Proofs.ParseLitTotal Proofs.ParseExprYield Proofs.ParseExprTotal
  Proofs.ParseExprLast Proofs.ParseStmtYield.
Import ListNotations.
Local Open Scope parse_scope.

(* result of a function started in state st: not out of fuel; no crash when the remaining stream
   is lexer-shaped; the returned state is st moved forward *)
Definition GR {A} (st : pstate) (r : pres (A * pstate)) : Prop :=
  r <> PFuel /\ (W st -> r <> PCrash) /\ (forall a s', r = POK (a, s') -> reach st s').
(* for helpers that return no state and cannot crash *)
Definition GV {A} (r : pres A) : Prop := r <> PFuel /\ r <> PCrash.

Lemma GR_ok {A} st (a : A) s' : reach st s' -> GR st (POK (a, s')).
Proof. intros H. repeat split; try discriminate. intros a0 s0 E. inversion E; subst. exact H. Qed.
Lemma GR_err {A} st k t n : GR st (@PErr (A * pstate) k t n).
Proof. repeat split; try discriminate. Qed.
Lemma GR_notok {A} st : GR st (@PErrNoTok (A * pstate)).
Proof. repeat split; try discriminate. Qed.
Lemma GR_err_cur {A} st k s : GR st (@err_cur (A * pstate) k s). Proof. apply GR_err. Qed.
Lemma GR_err_peek {A} st k s : GR st (@err_peek (A * pstate) k s). Proof. apply GR_err. Qed.

Lemma GR_reach {A} st s (r : pres (A * pstate)) : reach st s -> GR s r -> GR st r.
Proof.
  intros Hr [H1 [H2 H3]]. repeat split; [exact H1 | intros Hw; apply H2; eapply W_reach; eauto |].
  intros a s' E. eapply reach_trans; [exact Hr | eapply H3; eauto].
Qed.

Lemma GR_bind {A B} st (x : pres (A * pstate)) (f : A * pstate -> pres (B * pstate)) :
  GR st x -> (forall a s', x = POK (a, s') -> reach st s' -> GR s' (f (a, s'))) -> GR st (pbind x f).
Proof.
  intros [H1 [H2 H3]] Hf. destruct x as [[a s']| | | |]; cbn [pbind].
  - apply (GR_reach st s'); [eapply H3; reflexivity | apply Hf; [reflexivity | eapply H3; reflexivity]].
  - apply GR_err.
  - apply GR_notok.
  - repeat split; try discriminate. intros Hw. exfalso. apply (H2 Hw). reflexivity.
  - congruence.
Qed.

Lemma GR_bindv {A B} st (x : pres A) (f : A -> pres (B * pstate)) :
  GV x -> (forall a, GR st (f a)) -> GR st (pbind x f).
Proof.
  intros [H1 H2] Hf. destruct x; cbn [pbind]; try congruence; [apply Hf | apply GR_err | apply GR_notok].
Qed.

Lemma GR_expect {B} s t (f : pstate -> pres (B * pstate)) :
  GR (next s) (f (next s)) -> GR s (pbind (expect s t) f).
Proof.
  intros H. unfold expect, expect_peek. destruct (peek_is s t); cbn [pbind]; [|apply GR_err_peek].
  eapply GR_reach; [apply reach_next | exact H].
Qed.

Lemma GR_semi {B} s (f : pstate -> pres (B * pstate)) :
  GR (next s) (f (next s)) -> GR s (pbind (semi s) f).
Proof.
  intros H. unfold semi. destruct (peek_is s T_SEMICOLON); cbn [pbind]; [|apply GR_err].
  eapply GR_reach; [apply reach_next | exact H].
Qed.

Ltac rch_go :=
  first
  [ apply reach_refl
  | match goal with
    | |- reach _ (next _) => apply reach_next_r; rch_go
    | H : reach ?x ?t |- reach _ ?t => apply (reach_trans _ x t); [rch_go | exact H]
    end ].

Ltac at_ s2 := match goal with |- GR ?s _ => apply (GR_reach s s2); [solve [rch_go] | ] end.

Section T.
Variable fok : str -> bool.
Notation parse_expr := (parse_expr fok).
Notation parse_args := (parse_args fok).

Lemma parse_expr_GR p st : GR st (parse_expr p st).
Proof.
  repeat split.
  - apply parse_expr_total.
  - apply parse_expr_no_crash.
  - intros e s' H. eapply pexpr_reach; eauto.
Qed.

Lemma parse_args_GR st : GR st (parse_args st).
Proof.
  repeat split.
  - apply parse_args_total.
  - apply parse_args_no_crash.
  - intros e s' H. eapply pargs_reach; eauto.
Qed.

Lemma pstring_GV s : GV (pstring s).
Proof.
  unfold pstring, GV. destruct (off (cur s) =? 2)%N; [|split; discriminate].
  pose proof (decode_escapes_fine (lit (cur s))) as [H1 H2].
  destruct (decode_escapes (lit (cur s))); try congruence; split; discriminate.
Qed.

Lemma pint_GV s : GV (pint s).
Proof. unfold pint, GV. destruct (conv_integer _ _); split; discriminate. Qed.

Lemma pcallexpr_GR f st : GR st (pcallexpr fok f st).
Proof.
  unfold pcallexpr. apply GR_bind; [apply parse_args_GR|]. intros a s' _ _. apply GR_ok, reach_refl.
Qed.

Lemma passign_GR mk st : GR st (passign fok mk st).
Proof.
  unfold passign. apply GR_expect. destruct (negb _); [apply GR_err_peek|].
  at_ (next (next (next st))). apply GR_bind; [apply parse_expr_GR|]. intros e s3 _ _.
  apply GR_semi. apply GR_ok, reach_refl.
Qed.

Lemma pkw_ident_GR mk st : GR st (pkw_ident mk st).
Proof. unfold pkw_ident. apply GR_expect, GR_semi, GR_ok, reach_refl. Qed.
Lemma pkw_semi_GR mk st : GR st (pkw_semi mk st).
Proof. unfold pkw_semi. apply GR_semi, GR_ok, reach_refl. Qed.
Lemma pkw_expr_GR mk st : GR st (pkw_expr fok mk st).
Proof.
  unfold pkw_expr. at_ (next st). apply GR_bind; [apply parse_expr_GR|]. intros e s1 _ _.
  apply GR_semi, GR_ok, reach_refl.
Qed.

Lemma pcall_args_GR : forall n st acc, L (next st) < n -> GR st (pcall_args fok n st acc).
Proof.
  induction n as [|n IH]; intros st acc Hn; [lia|].
  cbn [pcall_args]. destruct (_ || _); [apply GR_ok, reach_refl|].
  at_ (next st). apply GR_bind; [apply parse_expr_GR|]. intros e s1 E _.
  assert (Hl : L (next s1) < L (next st)).
  { unfold ParseExpr.parse_expr in E. apply pexpr_consumes in E. exact E. }
  destruct (peek_is s1 T_COMMA).
  - at_ (next s1). apply IH. rewrite L_next. lia.
  - destruct (negb _); [apply GR_err_peek|]. apply IH. lia.
Qed.

Lemma pcall_GR st : GR st (pcall fok st).
Proof.
  unfold pcall. apply GR_expect. destruct (peek_is (next st) T_LEFT_PAREN).
  - at_ (next (next st)). apply GR_bind; [apply pcall_args_GR; rewrite L_next; unfold L; lia|]. intros items s3 _ _.
    destruct (negb _); [apply GR_err_peek|]. at_ (next s3). apply GR_semi, GR_ok, reach_refl.
  - apply GR_semi, GR_ok, reach_refl.
Qed.

Lemma pdeclare_GR st : GR st (pdeclare fok st).
Proof.
  unfold pdeclare. apply GR_expect. destruct (negb _); [apply GR_err_cur|].
  apply GR_expect, GR_expect. destruct (peek_is _ T_ASSIGN).
  - at_ (next (next (next (next (next st))))). apply GR_bind; [apply parse_expr_GR|]. intros e s5 _ _.
    apply GR_semi, GR_ok, reach_refl.
  - apply GR_semi, GR_ok, reach_refl.
Qed.

Lemma perror_GR st : GR st (perror fok st).
Proof.
  unfold perror. apply GR_bind.
  - destruct (typ (peek st)); try apply GR_err_peek.
    + (* IDENT *) destruct (peek_is (next st) T_LEFT_PAREN).
      * at_ (next (next st)). apply GR_bind; [apply pcallexpr_GR|]. intros e s' _ _. apply GR_ok, reach_refl.
      * apply GR_ok. rch_go.
    + (* INT *) at_ (next st). apply GR_bind.
      * unfold pinteger. apply GR_bindv; [apply pint_GV|]. intros v. apply GR_ok, reach_refl.
      * intros e s _ _. apply GR_ok, reach_refl.
    + (* SEMICOLON *) apply GR_ok, reach_refl.
  - intros code s1 _ _. apply GR_bind.
    + destruct (negb _); [|apply GR_ok, reach_refl].
      at_ (next s1). apply GR_bind; [apply parse_expr_GR|]. intros e s _ _. apply GR_ok, reach_refl.
    + intros arg s2 _ _. apply GR_semi, GR_ok, reach_refl.
Qed.

Lemma preturn_GR st : GR st (preturn fok st).
Proof.
  unfold preturn. destruct (peek_is st T_SEMICOLON); [apply GR_ok; rch_go|].
  destruct (peek_is st T_LEFT_PAREN).
  - at_ (next (next st)). apply GR_bind; [apply parse_expr_GR|]. intros e s2 _ _.
    destruct (peek_is s2 T_RIGHT_PAREN); cbn [xorb]; [|apply GR_err_cur].
    at_ (next s2). apply GR_semi, GR_ok, reach_refl.
  - at_ (next st). apply GR_bind; [apply parse_expr_GR|]. intros e s2 _ _.
    destruct (peek_is s2 T_RIGHT_PAREN); cbn [xorb]; [apply GR_err_cur|].
    apply GR_semi, GR_ok, reach_refl.
Qed.

Lemma pinclude_GR st : GR st (pinclude st).
Proof.
  unfold pinclude. apply GR_expect. apply GR_bindv; [apply pstring_GV|]. intros v.
  destruct (peek_is _ T_SEMICOLON); apply GR_ok; rch_go.
Qed.

Lemma pfuncall_GR st : GR st (pfuncall fok st).
Proof.
  unfold pfuncall. at_ (next st). apply GR_bind; [apply parse_args_GR|]. intros a s2 _ _.
  apply GR_semi, GR_ok, reach_refl.
Qed.

Lemma psimple_GR st r : psimple fok st = Some r -> GR st r.
Proof.
  unfold psimple. destruct (typ (cur st)); try discriminate; intros H; inversion H; subst;
    first [ apply pkw_expr_GR | apply pkw_ident_GR | apply passign_GR | apply pcall_GR
          | apply pdeclare_GR | apply perror_GR | apply pkw_semi_GR | apply pinclude_GR
          | apply preturn_GR ].
Qed.

End T.
