(* Statements: never out of fuel (4 * tokens + 8 for the recursive cluster), no Go fault point
   reachable on a lexer-shaped stream, and the state only moves forward. *)
From Coq Require Import String.
From Coq Require Import List NArith ZArith Bool Lia.
From Falco Require Import Base.Bytes Gen.TokenTypes Model.ParseKinds Gen.ParserTables
  Model.ParseBase Model.Ast Model.ParseLit Model.ParseExpr Model.ParseStmt Model.Yield
  Proofs.ParseTables Proofs.ParseLitTotal Proofs.ParseExprYield Proofs.ParseExprTotal
  Proofs.ParseExprLast Proofs.ParseStmtYield.
Import ListNotations.
Local Open Scope parse_scope.

(* result of a function started in state st: not out of fuel; no crash when the remaining stream
   is lexer-shaped; the returned state is st moved forward *)
Definition GR {A} (st : pstate) (r : pres (A * pstate)) : Prop :=
  r <> PFuel /\ (W st -> r <> PCrash) /\ (forall a s', r = POK (a, s') -> reach st s').
(* for helpers that return no state and cannot crash *)
Definition GV {A} (r : pres A) : Prop := r <> PFuel /\ r <> PCrash.

Lemma GR_ok {A} st (a : A) s' : reach st s' -> GR st (POK (a, s')).
Proof. intros H. repeat split; try discriminate. intros a0 s0 E. inversion E; subst. exact H. Qed.
Lemma GR_err {A} st k t n : GR st (@PErr (A * pstate) k t n).
Proof. repeat split; try discriminate. Qed.
Lemma GR_notok {A} st : GR st (@PErrNoTok (A * pstate)).
Proof. repeat split; try discriminate. Qed.
Lemma GR_err_cur {A} st k s : GR st (@err_cur (A * pstate) k s). Proof. apply GR_err. Qed.
Lemma GR_err_peek {A} st k s : GR st (@err_peek (A * pstate) k s). Proof. apply GR_err. Qed.

Lemma GR_reach {A} st s (r : pres (A * pstate)) : reach st s -> GR s r -> GR st r.
Proof.
  intros Hr [H1 [H2 H3]]. repeat split; [exact H1 | intros Hw; apply H2; eapply W_reach; eauto |].
  intros a s' E. eapply reach_trans; [exact Hr | eapply H3; eauto].
Qed.

Lemma GR_bind {A B} st (x : pres (A * pstate)) (f : A * pstate -> pres (B * pstate)) :
  GR st x -> (forall a s', x = POK (a, s') -> reach st s' -> GR s' (f (a, s'))) -> GR st (pbind x f).
Proof.
  intros [H1 [H2 H3]] Hf. destruct x as [[a s']| | | |]; cbn [pbind].
  - apply (GR_reach st s'); [eapply H3; reflexivity | apply Hf; [reflexivity | eapply H3; reflexivity]].
  - apply GR_err.
  - apply GR_notok.
  - repeat split; try discriminate. intros Hw. exfalso. apply (H2 Hw). reflexivity.
  - congruence.
Qed.

Lemma GR_bindv {A B} st (x : pres A) (f : A -> pres (B * pstate)) :
  GV x -> (forall a, GR st (f a)) -> GR st (pbind x f).
Proof.
  intros [H1 H2] Hf. destruct x; cbn [pbind]; try congruence; [apply Hf | apply GR_err | apply GR_notok].
Qed.

Lemma GR_expect {B} s t (f : pstate -> pres (B * pstate)) :
  GR (next s) (f (next s)) -> GR s (pbind (expect s t) f).
Proof.
  intros H. unfold expect, expect_peek. destruct (peek_is s t); cbn [pbind]; [|apply GR_err_peek].
  eapply GR_reach; [apply reach_next | exact H].
Qed.

Lemma GR_semi {B} s (f : pstate -> pres (B * pstate)) :
  GR (next s) (f (next s)) -> GR s (pbind (semi s) f).
Proof.
  intros H. unfold semi. destruct (peek_is s T_SEMICOLON); cbn [pbind]; [|apply GR_err].
  eapply GR_reach; [apply reach_next | exact H].
Qed.

Ltac rch_go :=
  first
  [ apply reach_refl
  | match goal with
    | |- reach _ (next _) => apply reach_next_r; rch_go
    | H : reach ?x ?t |- reach _ ?t => apply (reach_trans _ x t); [rch_go | exact H]
    end ].

Ltac at_ s2 := match goal with |- GR ?s _ => apply (GR_reach s s2); [solve [rch_go] | ] end.

Section T.
Variable fok : str -> bool.
Notation parse_expr := (parse_expr fok).
Notation parse_args := (parse_args fok).

Lemma parse_expr_GR p st : GR st (parse_expr p st).
Proof.
  repeat split.
  - apply parse_expr_total.
  - apply parse_expr_no_crash.
  - intros e s' H. eapply pexpr_reach; eauto.
Qed.

Lemma parse_args_GR st : GR st (parse_args st).
Proof.
  repeat split.
  - apply parse_args_total.
  - apply parse_args_no_crash.
  - intros e s' H. eapply pargs_reach; eauto.
Qed.

Lemma pstring_GV s : GV (pstring s).
Proof.
  unfold pstring, GV. destruct (off (cur s) =? 2)%N; [|split; discriminate].
  pose proof (decode_escapes_fine (lit (cur s))) as [H1 H2].
  destruct (decode_escapes (lit (cur s))); try congruence; split; discriminate.
Qed.

Lemma pint_GV s : GV (pint s).
Proof. unfold pint, GV. destruct (conv_integer _ _); split; discriminate. Qed.

Lemma pcallexpr_GR f st : GR st (pcallexpr fok f st).
Proof.
  unfold pcallexpr. apply GR_bind; [apply parse_args_GR|]. intros a s' _ _. apply GR_ok, reach_refl.
Qed.

Lemma passign_GR mk st : GR st (passign fok mk st).
Proof.
  unfold passign. apply GR_expect. destruct (negb _); [apply GR_err_peek|].
  at_ (next (next (next st))). apply GR_bind; [apply parse_expr_GR|]. intros e s3 _ _.
  apply GR_semi. apply GR_ok, reach_refl.
Qed.

Lemma pkw_ident_GR mk st : GR st (pkw_ident mk st).
Proof. unfold pkw_ident. apply GR_expect, GR_semi, GR_ok, reach_refl. Qed.
Lemma pkw_semi_GR mk st : GR st (pkw_semi mk st).
Proof. unfold pkw_semi. apply GR_semi, GR_ok, reach_refl. Qed.
Lemma pkw_expr_GR mk st : GR st (pkw_expr fok mk st).
Proof.
  unfold pkw_expr. at_ (next st). apply GR_bind; [apply parse_expr_GR|]. intros e s1 _ _.
  apply GR_semi, GR_ok, reach_refl.
Qed.

Lemma pcall_args_GR : forall n st acc, L (next st) < n -> GR st (pcall_args fok n st acc).
Proof.
  induction n as [|n IH]; intros st acc Hn; [lia|].
  cbn [pcall_args]. destruct (_ || _); [apply GR_ok, reach_refl|].
  at_ (next st). apply GR_bind; [apply parse_expr_GR|]. intros e s1 E _.
  assert (Hl : L (next s1) < L (next st)).
  { unfold ParseExpr.parse_expr in E. apply pexpr_consumes in E. exact E. }
  destruct (peek_is s1 T_COMMA).
  - at_ (next s1). apply IH. rewrite L_next. lia.
  - destruct (negb _); [apply GR_err_peek|]. apply IH. lia.
Qed.

Lemma pcall_GR st : GR st (pcall fok st).
Proof.
  unfold pcall. apply GR_expect. destruct (peek_is (next st) T_LEFT_PAREN).
  - at_ (next (next st)). apply GR_bind; [apply pcall_args_GR; rewrite L_next; unfold L; lia|]. intros items s3 _ _.
    destruct (negb _); [apply GR_err_peek|]. at_ (next s3). apply GR_semi, GR_ok, reach_refl.
  - apply GR_semi, GR_ok, reach_refl.
Qed.

Lemma pdeclare_GR st : GR st (pdeclare fok st).
Proof.
  unfold pdeclare. apply GR_expect. destruct (negb _); [apply GR_err_cur|].
  apply GR_expect, GR_expect. destruct (peek_is _ T_ASSIGN).
  - at_ (next (next (next (next (next st))))). apply GR_bind; [apply parse_expr_GR|]. intros e s5 _ _.
    apply GR_semi, GR_ok, reach_refl.
  - apply GR_semi, GR_ok, reach_refl.
Qed.

Lemma perror_GR st : GR st (perror fok st).
Proof.
  unfold perror. apply GR_bind.
  - destruct (typ (peek st)); try apply GR_err_peek.
    + (* IDENT *) destruct (peek_is (next st) T_LEFT_PAREN).
      * at_ (next (next st)). apply GR_bind; [apply pcallexpr_GR|]. intros e s' _ _. apply GR_ok, reach_refl.
      * apply GR_ok. rch_go.
    + (* INT *) at_ (next st). apply GR_bind.
      * unfold pinteger. apply GR_bindv; [apply pint_GV|]. intros v. apply GR_ok, reach_refl.
      * intros e s _ _. apply GR_ok, reach_refl.
    + (* SEMICOLON *) apply GR_ok, reach_refl.
  - intros code s1 _ _. apply GR_bind.
    + destruct (negb _); [|apply GR_ok, reach_refl].
      at_ (next s1). apply GR_bind; [apply parse_expr_GR|]. intros e s _ _. apply GR_ok, reach_refl.
    + intros arg s2 _ _. apply GR_semi, GR_ok, reach_refl.
Qed.

Lemma preturn_GR st : GR st (preturn fok st).
Proof.
  unfold preturn. destruct (peek_is st T_SEMICOLON); [apply GR_ok; rch_go|].
  destruct (peek_is st T_LEFT_PAREN).
  - at_ (next (next st)). apply GR_bind; [apply parse_expr_GR|]. intros e s2 _ _.
    destruct (peek_is s2 T_RIGHT_PAREN); cbn [xorb]; [|apply GR_err_cur].
    at_ (next s2). apply GR_semi, GR_ok, reach_refl.
  - at_ (next st). apply GR_bind; [apply parse_expr_GR|]. intros e s2 _ _.
    destruct (peek_is s2 T_RIGHT_PAREN); cbn [xorb]; [apply GR_err_cur|].
    apply GR_semi, GR_ok, reach_refl.
Qed.

Lemma pinclude_GR st : GR st (pinclude st).
Proof.
  unfold pinclude. apply GR_expect. apply GR_bindv; [apply pstring_GV|]. intros v.
  destruct (peek_is _ T_SEMICOLON); apply GR_ok; rch_go.
Qed.

Lemma pfuncall_GR st : GR st (pfuncall fok st).
Proof.
  unfold pfuncall. at_ (next st). apply GR_bind; [apply parse_args_GR|]. intros a s2 _ _.
  apply GR_semi, GR_ok, reach_refl.
Qed.

Lemma psimple_GR st r : psimple fok st = Some r -> GR st r.
Proof.
  unfold psimple. destruct (typ (cur st)); try discriminate; intros H; inversion H; subst;
    first [ apply pkw_expr_GR | apply pkw_ident_GR | apply passign_GR | apply pcall_GR
          | apply pdeclare_GR | apply perror_GR | apply pkw_semi_GR | apply pinclude_GR
          | apply preturn_GR ].
Qed.

(* ---------- the recursive cluster *)
Notation pstmt := (pstmt fok).
Notation pblock := (pblock fok).
Notation pblock_loop := (pblock_loop fok).
Notation pif := (pif fok).
Notation pif_chain := (pif_chain fok).
Notation pelif := (pelif fok).
Notation pswitch := (pswitch fok).
Notation pcases := (pcases fok).
Notation pcase := (pcase fok).
Notation pcase_body := (pcase_body fok).

Lemma ystmt_nonempty s : ystmt s <> [].
Proof. destruct s; simpl; discriminate. Qed.

Lemma prev_after_next st s : reach (next st) s -> prev s <> None.
Proof. intros [k H]. subst. destruct k; simpl; discriminate. Qed.

Lemma pstmt_consumes n st s st' : pstmt n st = POK (s, st') -> L (next st') < L (next st).
Proof.
  intros H. apply (proj1 (yield_stmt_all fok n)) in H.
  pose proof (ystmt_nonempty s) as Hne.
  assert (E : length (after st) = length (ystmt s ++ after st')) by (rewrite <- H; reflexivity).
  rewrite app_length in E. unfold L, after in *. simpl. destruct (ystmt s); [congruence | simpl in E; lia].
Qed.

(* a case body that ParseCaseStatement accepted is not empty *)
Lemma pcase_body_nil : forall n st acc ss st',
  pcase_body n st acc = POK (ss, st') ->
  (ss = rev acc /\ st' = st) \/ (length acc < length ss)%nat.
Proof.
  induction n as [|n IH]; intros st acc ss st' H; [discriminate|].
  cbn [ParseStmt.pcase_body] in H.
  destruct (_ || _). { inversion H; subst. left. split; reflexivity. }
  bi H x H1. destruct x as [s0 s1]. apply IH in H. right.
  destruct H as [[H _]|H]; [subst; rewrite rev_length; simpl; lia | simpl in H; lia].
Qed.

Lemma pcase_nonempty n st h colon body ft st' :
  pcase n st = POK (Case h colon body ft, st') -> body <> [].
Proof.
  destruct n; [discriminate|]. intros H. cbn [ParseStmt.pcase] in H.
  bi H x H1. destruct x as [h0 s1].
  assert (Hk : typ (cur s1) <> T_BREAK /\ typ (cur s1) <> T_FALLTHROUGH).
  { destruct (typ (cur st)) eqn:Et; try discriminate.
    - destruct (typ (cur (next st))) eqn:Et2; try discriminate.
      + bi H1 x H2. destruct x as [e s']. inversion H1; subst.
        apply parse_expr_last in H2. apply expr_end_not_kw. exact H2.
      + bi H1 x H2. destruct x as [e s']. inversion H1; subst.
        apply parse_expr_last in H2. apply expr_end_not_kw. exact H2.
    - inversion H1; subst. rewrite Et. split; discriminate. }
  destruct (expect_peek s1 T_COLON) as [s2|] eqn:Ee; [|discriminate].
  assert (Es2 : s2 = next s1).
  { unfold expect_peek in Ee. destruct (peek_is s1 T_COLON); inversion Ee. reflexivity. }
  bi H x H3. destruct x as [body0 s3].
  apply pcase_body_nil in H3. intros Hb.
  assert (Hs3 : s3 = s2 /\ body0 = []).
  { destruct (prev_is s3 T_BREAK) as [[]|]; try discriminate.
    - inversion H; subst. destruct H3 as [[_ H3]|H3]; [split; auto | simpl in H3; lia].
    - destruct (prev_is s3 T_FALLTHROUGH) as [[]|]; try (unfold err_prev in H; destruct (prev s3); discriminate).
      inversion H; subst. destruct H3 as [[_ H3]|H3]; [split; auto | simpl in H3; lia]. }
  destruct Hs3 as [Hs3 _]. subst s3 s2.
  unfold prev_is in H. cbn [prev next] in H. destruct Hk as [K1 K2].
  apply ttype_eqb_neq in K1. apply ttype_eqb_neq in K2. rewrite K1, K2 in H.
  unfold err_prev in H. cbn [prev next] in H. discriminate.
Qed.

Definition case_ok (c : scase) : Prop := match c with Case _ _ body _ => body <> [] end.

Lemma pcases_bodies : forall n st acc d cases d' st',
  pcases n st acc d = POK ((cases, d'), st') -> Forall case_ok acc -> Forall case_ok cases.
Proof.
  induction n as [|n IH]; intros st acc d cases d' st' H Ha; [discriminate|].
  cbn [ParseStmt.pcases] in H. destruct (peek_is st T_RIGHT_BRACE).
  { inversion H; subst. apply Forall_rev. exact Ha. }
  bi H x H1. destruct x as [cl s2]. bi H dd Hd. destruct (existsb _ acc); [discriminate|].
  eapply IH; [exact H|]. constructor; [|exact Ha].
  destruct cl as [h c b ft]. simpl. eapply pcase_nonempty; eauto.
Qed.

(* bounds: M = number of tokens from the construct's first token *)
Definition Ts n := forall st0, 3 * L (next st0) + 2 <= n -> GR (next st0) (pstmt n st0).
Definition Tb n := forall st, toks st <> [] -> 3 * L st + 1 <= n -> GR st (pblock n st).
Definition Tbl n := forall st acc, 3 * L (next st) + 3 <= n -> GR st (pblock_loop n st acc).
Definition Tif n := forall st, toks st <> [] -> 3 * L st + 1 <= n -> GR st (pif n st).
Definition Tch n := forall st acc, 3 * L (next st) + 2 <= n -> GR st (pif_chain n st acc).
Definition Tel n := forall k1 k2 st, toks st <> [] -> 3 * L st + 1 <= n -> GR st (pelif n k1 k2 st).
Definition Tsw n := forall st, toks st <> [] -> 3 * L st + 1 <= n -> GR st (pswitch n st).
Definition Tcs n := forall st acc d, prev st <> None -> 3 * L (next st) + 2 <= n -> GR st (pcases n st acc d).
Definition Tca n := forall st, prev st <> None -> toks st <> [] -> 3 * L st + 1 <= n -> GR st (pcase n st).
Definition Tcb n := forall st acc, 3 * L (next st) + 3 <= n -> GR st (pcase_body n st acc).
Definition Tall n := Ts n /\ Tb n /\ Tbl n /\ Tif n /\ Tch n /\ Tel n /\ Tsw n /\ Tcs n /\ Tca n /\ Tcb n.

Lemma L_next_lt st : toks st <> [] -> L (next st) < L st.
Proof. intros H. rewrite L_next. unfold L. destruct (toks st); [congruence | simpl; lia]. Qed.

Lemma expect_nonempty s t : peek_is s t = true -> t <> T_EOF -> toks (next s) <> [].
Proof.
  intros H Ht E. apply peek_is_true in H. unfold peek in H. change (tl (toks s)) with (toks (next s)) in H.
  rewrite E in H. simpl in H. congruence.
Qed.

(* expect + continue, keeping what the continuation may use *)
Lemma GR_expect' {B} s t (f : pstate -> pres (B * pstate)) :
  t <> T_EOF -> (toks (next s) <> [] -> GR (next s) (f (next s))) -> GR s (pbind (expect s t) f).
Proof.
  intros Ht H. unfold expect, expect_peek. destruct (peek_is s t) eqn:E; cbn [pbind]; [|apply GR_err_peek].
  eapply GR_reach; [apply reach_next | apply H]. eapply expect_nonempty; eauto.
Qed.

Lemma stmt_total_all : forall n, Tall n.
Proof.
  induction n as [|n IH].
  { unfold Tall, Ts, Tb, Tbl, Tif, Tch, Tel, Tsw, Tcs, Tca, Tcb. repeat split; intros; lia. }
  destruct IH as [IHs [IHb [IHbl [IHif [IHch [IHel [IHsw [IHcs [IHca IHcb]]]]]]]]].
  assert (Hs : Ts (S n)).
  { red. intros st0 Hbd. cbn [ParseStmt.pstmt]. set (st := next st0) in *.
    destruct (psimple fok st) as [r|] eqn:Eps; [apply psimple_GR; exact Eps|].
    destruct (typ (cur st)) eqn:Et; try apply GR_err_cur;
      assert (Hne : toks st <> []) by (intros E; unfold cur in Et; rewrite E in Et; discriminate).
    - (* IDENT *) destruct (peek_is st T_LEFT_PAREN); [apply pfuncall_GR|].
      destruct (pgotodest st) as [[s0 s1]|] eqn:Eg; [|apply GR_err_cur].
      unfold pgotodest in Eg. destruct (is_goto_dest (cur st)); inversion Eg; subst. apply GR_ok, reach_refl.
    - (* LEFT_BRACE *) apply GR_bind; [apply IHb; [exact Hne | lia]|].
      intros [[lb ss] rb] s' _ _. apply GR_ok, reach_refl.
    - (* IF *) apply IHif; [exact Hne | lia].
    - (* SWITCH *) apply IHsw; [exact Hne | lia].
    - (* BREAK *) apply pkw_semi_GR.
    - (* FALLTHROUGH *) apply pkw_semi_GR. }
  assert (Hb : Tb (S n)).
  { red. intros st Hne Hbd. cbn [ParseStmt.pblock].
    pose proof (L_next_lt st Hne).
    apply GR_bind; [apply IHbl; lia|]. intros ss s1 _ _. apply GR_ok. rch_go. }
  assert (Hbl : Tbl (S n)).
  { red. intros st acc Hbd. cbn [ParseStmt.pblock_loop].
    destruct (peek_is st T_RIGHT_BRACE); [apply GR_ok, reach_refl|].
    apply GR_bind; [eapply GR_reach; [apply reach_next | apply IHs; lia]|].
    intros s0 s1 E R.
    pose proof (pstmt_consumes _ _ _ _ E) as Hc.
    destruct (is_break_or_fallthrough s0).
    + (* prev = nil is impossible: ParseStatement moved at least one token *)
      assert (Hp : prev s1 <> None).
      { destruct (IHs st ltac:(lia)) as [_ [_ R3]]. eapply prev_after_next. eapply R3. exact E. }
      unfold err_prev. destruct (prev s1); [apply GR_err | congruence].
    + apply IHbl. lia. }
  assert (Hel : Tel (S n)).
  { red. intros k1 k2 st Hne Hbd. cbn [ParseStmt.pelif].
    pose proof (L_next_lt st Hne) as H0.
    apply GR_expect. at_ (next (next st)). apply GR_bind; [apply parse_expr_GR|]. intros c s2 _ R2.
    apply reach_L in R2. rewrite !L_next in R2.
    apply GR_expect. apply GR_expect'; [discriminate|]. intros Hn4.
    apply GR_bind; [apply IHb; [exact Hn4 | rewrite !L_next; lia]|].
    intros [[lb ss] rb] s5 _ _. apply GR_ok, reach_refl. }
  assert (Hch : Tch (S n)).
  { red. intros st acc Hbd. cbn [ParseStmt.pif_chain].
    destruct (typ (peek st)) eqn:Et; try (apply GR_ok, reach_refl);
      assert (Hne : toks (next st) <> []) by
        (intros E; unfold peek in Et; change (tl (toks st)) with (toks (next st)) in Et; rewrite E in Et; discriminate);
      pose proof (L_next_lt _ Hne) as H1.
    - (* ELSE *)
      destruct (peek_is (next st) T_IF) eqn:Ei.
      + pose proof (expect_nonempty _ _ Ei ltac:(discriminate)) as Hn2.
        pose proof (L_next_lt _ Hn2) as H2.
        at_ (next (next st)). apply GR_bind; [apply IHel; [exact Hn2 | lia]|].
        intros e s3 _ R3. apply reach_L in R3. apply IHch. rewrite L_next. lia.
      + at_ (next st). apply GR_expect'; [discriminate|]. intros Hn2.
        apply GR_bind; [apply IHb; [exact Hn2 | rewrite L_next; lia]|].
        intros [[lb ss] rb] s3 _ _. apply GR_ok, reach_refl.
    - (* ELSEIF *)
      at_ (next st). apply GR_bind; [apply IHel; [exact Hne | lia]|].
      intros e s2 _ R2. apply reach_L in R2. apply IHch. rewrite L_next. lia.
    - (* ELSIF *)
      at_ (next st). apply GR_bind; [apply IHel; [exact Hne | lia]|].
      intros e s2 _ R2. apply reach_L in R2. apply IHch. rewrite L_next. lia. }
  assert (Hif : Tif (S n)).
  { red. intros st Hne Hbd. cbn [ParseStmt.pif].
    pose proof (L_next_lt st Hne) as H0.
    apply GR_expect. at_ (next (next st)). apply GR_bind; [apply parse_expr_GR|]. intros c s2 _ R2.
    apply reach_L in R2. rewrite !L_next in R2.
    apply GR_expect. apply GR_expect'; [discriminate|]. intros Hn4.
    apply GR_bind; [apply IHb; [exact Hn4 | rewrite !L_next; lia]|].
    intros [[lb ss] rb] s5 _ R5. apply reach_L in R5. rewrite !L_next in R5.
    apply GR_bind; [apply IHch; rewrite L_next; lia|].
    intros r s6 _ _. apply GR_ok, reach_refl. }
  assert (Hcb : Tcb (S n)).
  { red. intros st acc Hbd. cbn [ParseStmt.pcase_body].
    destruct (_ || _); [apply GR_ok, reach_refl|].
    apply GR_bind; [eapply GR_reach; [apply reach_next | apply IHs; lia]|].
    intros s0 s1 E _. pose proof (pstmt_consumes _ _ _ _ E) as Hc. apply IHcb. lia. }
  assert (Hca : Tca (S n)).
  { red. intros st Hpv Hne Hbd. cbn [ParseStmt.pcase].
    pose proof (L_next_lt st Hne) as H0.
    apply GR_bind.
    - destruct (typ (cur st)); try apply GR_err_cur.
      + (* CASE *) destruct (typ (cur (next st))); try apply GR_err_cur.
        * at_ (next st). apply GR_bind; [apply parse_expr_GR|]. intros e s' _ _. apply GR_ok, reach_refl.
        * at_ (next (next st)). apply GR_bind; [apply parse_expr_GR|]. intros e s' _ _. apply GR_ok, reach_refl.
      + (* DEFAULT *) apply GR_ok, reach_refl.
    - intros h s1 _ R1. pose proof (reach_L _ _ R1) as L1.
      destruct (expect_peek s1 T_COLON) as [s2|] eqn:Ee; [|apply GR_err_cur].
      assert (Es2 : s2 = next s1).
      { unfold expect_peek in Ee. destruct (peek_is s1 T_COLON); inversion Ee. reflexivity. }
      subst s2. at_ (next s1).
      apply GR_bind; [apply IHcb; rewrite !L_next; lia|].
      intros body s3 _ R3.
      assert (Hp3 : prev s3 <> None) by (eapply prev_after_next; eauto).
      unfold prev_is, err_prev. destruct (prev s3) as [pt|]; [|congruence].
      destruct (ttype_eqb (typ pt) T_BREAK); [apply GR_ok, reach_refl|].
      destruct (ttype_eqb (typ pt) T_FALLTHROUGH); [apply GR_ok, reach_refl | apply GR_err]. }
  assert (Hcs : Tcs (S n)).
  { red. intros st acc d Hpv Hbd. cbn [ParseStmt.pcases].
    destruct (peek_is st T_RIGHT_BRACE); [apply GR_ok, reach_refl|].
    destruct (toks (next st)) eqn:Et.
    { (* no token left: ParseCaseStatement fails on EOF *)
      at_ (next st). destruct n; [lia|]. cbn [ParseStmt.pcase]. unfold cur. rewrite Et. cbn. apply GR_err. }
    assert (Hne : toks (next st) <> []) by (rewrite Et; discriminate).
    pose proof (L_next_lt _ Hne) as H1.
    at_ (next st). apply GR_bind; [apply IHca; [simpl; discriminate | exact Hne | lia]|].
    intros cl s2 _ R2. pose proof (reach_L _ _ R2) as L2.
    assert (Hp2 : prev s2 <> None) by (eapply prev_after_next; eauto).
    apply GR_bindv.
    { destruct (is_default cl); [|split; discriminate].
      destruct (negb _); split; discriminate. }
    intros d'. destruct (existsb _ acc); [apply GR_err_peek|].
    apply IHcs; [exact Hp2 | rewrite L_next; lia]. }
  assert (Hsw : Tsw (S n)).
  { red. intros st Hne Hbd. cbn [ParseStmt.pswitch].
    pose proof (L_next_lt st Hne) as H0.
    apply GR_expect.
    apply GR_bind.
    - destruct (peek_is (next (next st)) T_LEFT_PAREN).
      + at_ (next (next (next st))). apply pcallexpr_GR.
      + destruct (cur_is (next (next st)) T_IDENT); [apply GR_ok; rch_go|].
        destruct (_ && _); [apply GR_err_cur|]. at_ (next (next st)). apply parse_expr_GR.
    - intros ctl s3 _ R3. apply reach_L in R3. rewrite !L_next in R3.
      apply GR_expect. apply GR_expect.
      assert (Hp5 : prev (next (next s3)) <> None) by (simpl; discriminate).
      apply GR_bind; [apply IHcs; [exact Hp5 | rewrite !L_next; lia]|].
      intros [cases dflt] s6 E6 R6.
      apply pcases_bodies in E6; [|constructor].
      destruct (rev cases) as [|[h0 c0 body0 ft0] rc] eqn:Er; [apply GR_err_peek|].
      assert (Hb0 : body0 <> []).
      { assert (In (Case h0 c0 body0 ft0) cases) by (apply in_rev; rewrite Er; left; reflexivity).
        rewrite Forall_forall in E6. apply (E6 _ H). }
      destruct (rev body0) as [|ls rb0] eqn:Erb.
      { exfalso. apply Hb0. rewrite <- (rev_involutive body0), Erb. reflexivity. }
      destruct (is_fallthrough ls).
      + unfold err_prev. assert (Hp6 : prev s6 <> None) by (eapply prev_after_next; eapply reach_trans; [|exact R6]; rch_go).
        destruct (prev s6); [apply GR_err | congruence].
      + apply GR_ok. rch_go. }
  unfold Tall. tauto.
Qed.

End T.
