(* The first-token dispatch of the model's statement / snippet / declaration parsers is the one
   written in the Go source: Gen/ParserDispatch.v is regenerated from the switch statements of
   ParseStatement, ParseSnippetVCL and Parse on every run, and the theorems below say that the model
   selects, for EVERY token type, the model function standing for the method the Go switch selects
   (and reports the default error for exactly the token types that have no case). *)
From Coq Require Import String.
From Coq Require Import List NArith ZArith Bool Lia.
From Falco Require Import Base.Bytes Gen.TokenTypes Model.ParseKinds Gen.ParserTables Gen.ParserDispatch
  Model.ParseBase Model.Ast Model.ParseLit Model.ParseExpr Model.ParseStmt Model.ParseDecl Model.Yield
  Proofs.ParseProgram3.
Import ListNotations.
Local Open Scope parse_scope.

Section D.
Variable fok : str -> bool.

(* the model function standing for each parse method.  [n] is the fuel of the nested statement
   parsers, [dflt] what the caller does when the IDENT case finds neither `name(` nor `name:`. *)
Definition run_method (n : nat) (dflt : pres (stmt * pstate)) (m : stmt_method) (st : pstate)
  : pres (stmt * pstate) :=
  match m with
  | SM_ParseBlockStatement =>
      do (b, st') <- pblock fok n st; let '(lb, ss, rb) := b in POK (SBlock lb ss rb, st')
  | SM_ParseSetStatement => passign fok SSet st
  | SM_ParseUnsetStatement => pkw_ident SUnset st
  | SM_ParseRemoveStatement => pkw_ident SRemove st
  | SM_ParseAddStatement => passign fok SAdd st
  | SM_ParseCallStatement => pcall fok st
  | SM_ParseDeclareStatement => pdeclare fok st
  | SM_ParseErrorStatement => perror fok st
  | SM_ParseEsiStatement => pkw_semi SEsi st
  | SM_ParseLogStatement => pkw_expr fok SLog st
  | SM_ParseRestartStatement => pkw_semi SRestart st
  | SM_ParseReturnStatement => preturn fok st
  | SM_ParseSyntheticStatement => pkw_expr fok SSynthetic st
  | SM_ParseSyntheticBase64Statement => pkw_expr fok SSyntheticB64 st
  | SM_ParseIfStatement => pif fok n st
  | SM_ParseSwitchStatement => pswitch fok n st
  | SM_ParseGotoStatement => pkw_ident SGoto st
  | SM_ParseIncludeStatement => pinclude st
  | SM_ParseBreakStatement => pkw_semi SBreak st
  | SM_ParseFallthroughStatement => pkw_semi SFallthrough st
  | SM_ident_dispatch =>
      if peek_is st T_LEFT_PAREN then pfuncall fok st
      else match pgotodest st with Some r => POK r | None => dflt end
  | SM_ParseAclDeclaration => pacl st
  | SM_ParseImportStatement => pkw_ident SImport st
  | SM_ParseBackendDeclaration => pbackend fok st
  | SM_ParseDirectorDeclaration => pdirector fok st
  | SM_ParseTableDeclaration => ptable fok st
  | SM_ParseSubroutineDeclaration => psub fok st
  | SM_ParsePenaltyboxDeclaration => pnamed_block fok DPenaltybox st
  | SM_ParseRatecounterDeclaration => pnamed_block fok DRatecounter st
  end.

Definition dispatch (tab : list (ttype * stmt_method)) (n : nat) (dflt : pres (stmt * pstate)) (st : pstate) :=
  match assoc (typ (cur st)) tab with
  | Some m => run_method n dflt m st
  | None => dflt
  end.

(* ParseStatement *)
Theorem pstmt_dispatch n st0 :
  pstmt fok (S n) st0 =
  dispatch statement_dispatch n (err_cur E_unexpected (next st0)) (next st0).
Proof.
  rewrite pstmt_S. cbn zeta. unfold dispatch, psimple.
  destruct (typ (cur (next st0))); reflexivity.
Qed.

(* the loop body of ParseSnippetVCL *)
Theorem snippet_stmt_dispatch st :
  snippet_stmt fok st =
  do (s, st1) <- dispatch snippet_dispatch (stmt_fuel st) (err_peek E_unexpected st) st;
  POK (s, next st1).
Proof.
  unfold snippet_stmt, dispatch, psimple.
  destruct (typ (cur st)); reflexivity.
Qed.

(* Parse (one declaration of ParseVCL) *)
Theorem parse_decl_dispatch st :
  parse_decl fok st =
  do (d, st1) <- dispatch declaration_dispatch 0 (err_cur E_unexpected st) st;
  POK (d, next st1).
Proof.
  unfold parse_decl, dispatch.
  destruct (typ (cur st)); reflexivity.
Qed.

(* no token type is listed twice in a switch (Go would reject it; assoc takes the first) *)
Fixpoint nodup_keys (l : list (ttype * stmt_method)) : bool :=
  match l with
  | [] => true
  | (k, _) :: r => negb (existsb (fun e => ttype_eqb k (fst e)) r) && nodup_keys r
  end.
Lemma dispatch_keys_unique :
  nodup_keys statement_dispatch = true /\ nodup_keys snippet_dispatch = true
  /\ nodup_keys declaration_dispatch = true.
Proof. repeat split; vm_compute; reflexivity. Qed.

(* every declaration token of token.go has a case in Parse, and vice versa *)
Lemma declaration_dispatch_complete t :
  mem t declaration_tokens = match assoc t declaration_dispatch with Some _ => true | None => false end.
Proof. destruct t; reflexivity. Qed.

End D.

(* non-vacuity: the dispatch really distinguishes methods *)
Example ex_dispatch_set :
  assoc T_SET statement_dispatch = Some SM_ParseSetStatement
  /\ assoc T_BREAK statement_dispatch = Some SM_ParseBreakStatement
  /\ assoc T_BREAK snippet_dispatch = None
  /\ assoc T_PENALTYBOX declaration_dispatch = Some SM_ParsePenaltyboxDeclaration
  /\ assoc T_SET declaration_dispatch = None.
Proof. repeat split. Qed.
