(* C20 - end to end for generated backends and directors: sanitised names, the F_ prefix,
   the address, the type, retries, quorum and the membership. *)
From Coq Require Import List NArith ZArith Bool Lia Arith ZifyBool ZifyN ZifyNat.
From Coq Require Import Strings.Byte.
From Falco Require Import Base.Res Base.Bytes Base.Utf8 Proofs.Utf8Proofs Gen.Tokens Model.Lex Model.Pump
  Proofs.LexProgress Proofs.C20Classes Proofs.C20Lex Proofs.C20Chain Proofs.C20Table Proofs.C20Acl.
From Falco Require Model.Escape Proofs.EscapeProofs Gen.TokenTypes Model.ParseBase Model.ParseLit Model.Ast Model.Yield
  Model.ParseDecl Model.LexParse Proofs.ParsePratt Proofs.ParseLitFacts Proofs.ParseProgram Proofs.ParseProgram4 Proofs.ParseProgram5.
Import ListNotations.
Local Open Scope N_scope.

(* ---- names made by the templates ---- *)
Lemma sanitize_idchar s : forallb idchar (E.sanitize s) = true.
Proof.
  unfold E.sanitize. induction (dec_all s) as [|r rs IH]; [reflexivity|].
  cbn [map forallb]. rewrite IH, andb_true_r.
  destruct (E.word_rune r) eqn:W; [|reflexivity].
  unfold E.word_rune in W. unfold idchar, letterb, contb; cls.
  rewrite b2n_n2b_small by lia. lia.
Qed.

Definition fname (name : list byte) : list byte := x46 :: x5f :: E.sanitize name.

Lemma spanb_cons_true p c t : p c = true -> fst (spanb p (c :: t)) = c :: fst (spanb p t).
Proof. intros H. cbn [spanb]. rewrite H. destruct (spanb p t). reflexivity. Qed.

Lemma fname_ok name : name_ok (fname name) = true.
Proof.
  unfold name_ok, fname. cbn [forallb]. rewrite sanitize_idchar.
  change (idchar x46) with true. change (idchar x5f) with true. change (letterb x46) with true. cbn [andb].
  apply negb_true_iff. rewrite (spanb_cons_true letterb x46 _ eq_refl). cbn [map].
  destruct (str_eqb (b2n x46 :: map b2n (fst (spanb letterb (x5f :: E.sanitize name)))) L_default) eqn:Eq; [|reflexivity].
  apply str_eqb_app_nil_false in Eq. discriminate Eq.
Qed.

Lemma fname_ident name : lookup_ident (map b2n (fname name)) = T_IDENT.
Proof. unfold fname. cbn [map]. change (b2n x46) with 70. change (b2n x5f) with 95. generalize (map b2n (E.sanitize name)). intros l. reflexivity. Qed.

Lemma fname_ident_name name : ident_name (fname name).
Proof. split; [apply fname_ok | apply fname_ident]. Qed.

(* ---- more token steps ---- *)
Lemma step_dot ws after : forallb blank ws = true -> step (ws ++ [x2e]) after (T_DOT, [46], 0).
Proof. intros H. apply (step_of_cstep ws [x2e] after); [exact H | cbn; starter_tac | apply cstep_dot]. Qed.
Lemma step_assign ws c t : forallb blank ws = true -> b2n c <> 61 -> step (ws ++ [x3d]) (c :: t) (T_ASSIGN, [61], 0).
Proof. intros H Hc. apply (step_of_cstep ws [x3d] (c :: t)); [exact H | cbn; starter_tac | apply cstep_assign; exact Hc]. Qed.
Lemma step_percent c t : b2n c <> 61 -> step [x25] (c :: t) (T_PERCENT, [37], 0).
Proof. intros Hc. apply (step_of_cstep [] [x25] (c :: t)); [reflexivity | cbn; starter_tac | apply cstep_percent; exact Hc]. Qed.
Lemma step_lf_ws ws after : forallb blank ws = true -> step (ws ++ [x0a]) after (T_LF, [10], 0).
Proof. intros H. apply (step_of_cstep ws [x0a] after); [exact H | cbn; starter_tac | apply cstep_lf]. Qed.

(* ---- the backend ---- *)
Definition b_backend : list byte := [x62; x61; x63; x6b; x65; x6e; x64].
Definition b_host : list byte := [x68; x6f; x73; x74].

Definition p_lbrace : ptok := (T_LEFT_BRACE, [123], 0).
Definition p_semi : ptok := (T_SEMICOLON, [59], 0).
Definition p_dot : ptok := (T_DOT, [46], 0).
Definition p_assign : ptok := (T_ASSIGN, [61], 0).

Definition backend_specs (name : list byte) (addr : option (list byte)) : list tokspec :=
  [Exact p_lf; Exact (T_BACKEND, map b2n b_backend, 0); Exact (T_IDENT, map b2n (fname name), 0); Exact p_lbrace; Exact p_lf] ++
  (match addr with
   | Some a => [Exact p_dot; Exact (T_IDENT, map b2n b_host, 0); Exact p_assign; Exact (T_STRING, qrunes a, 2); Exact p_semi]
   | None => []
   end) ++ map Exact tail_ps.

Theorem chain_backend name addr :
  match addr with Some a => EP.text_ok a | None => True end ->
  chain (E.render_backend name addr) (map spec_pred (backend_specs name addr)).
Proof.
  intros Ha. unfold E.render_backend, E.bs_close, backend_specs. cbn [app].
  eapply (chain_spec_eq _ [x0a]); [seg_eq | discriminate | reflexivity | apply step_lf|].
  eapply (chain_spec_eq _ ([] ++ b_backend) (x20 :: _)); [seg_eq | discriminate | reflexivity | |].
  { exact (step_ident [] b_backend _ eq_refl eq_refl (id_end_space _)). }
  eapply (chain_spec_eq _ ([x20] ++ fname name) (x20 :: _)); [seg_eq | discriminate | reflexivity | |].
  { cbn [spec_pred]. rewrite <- (fname_ident name). apply step_ident; [reflexivity | apply fname_ok | apply id_end_space]. }
  eapply (chain_spec_eq _ ([x20] ++ [x7b]) (x0a :: _)); [seg_eq | discriminate | reflexivity | |].
  { apply step_lbrace; [reflexivity | reflexivity | cbn; lia]. }
  eapply (chain_spec_eq _ [x0a]); [seg_eq | discriminate | reflexivity | apply step_lf|].
  destruct addr as [a|].
  - rewrite (quote_runes a Ha). cbn [app].
    eapply (chain_spec_eq _ ([x09] ++ [x2e])); [seg_eq | discriminate | reflexivity | apply step_dot; reflexivity|].
    eapply (chain_spec_eq _ ([] ++ b_host) (x20 :: _)); [seg_eq | discriminate | reflexivity | |].
    { exact (step_ident [] b_host _ eq_refl eq_refl (id_end_space _)). }
    eapply (chain_spec_eq _ ([x20] ++ [x3d]) (x20 :: _)); [seg_eq | discriminate | reflexivity | |].
    { apply step_assign; [reflexivity | cbn; lia]. }
    eapply (chain_spec_eq _ ([x20] ++ x22 :: enc_all (qrunes a) ++ [x22])); [seg_eq | discriminate | reflexivity | |].
    { apply step_string; [reflexivity | apply qrunes_body; exact Ha]. }
    eapply (chain_spec_eq _ ([] ++ [x3b])); [seg_eq | discriminate | reflexivity | apply step_semi; reflexivity|].
    exact chain_tail_specs.
  - cbn [app].
    change (map spec_pred (map Exact tail_ps)) with (map spec_pred [Exact p_lf; Exact (T_RIGHT_BRACE, [125], 0); Exact p_lf]).
    eapply (chain_spec_eq _ ([x09] ++ [x0a])); [seg_eq | discriminate | reflexivity | apply step_lf_ws; reflexivity|].
    eapply (chain_spec_eq _ ([] ++ [x7d])); [seg_eq | discriminate | reflexivity | apply step_rbrace; reflexivity|].
    eapply (chain_spec_eq _ [x0a] []); [seg_eq | discriminate | reflexivity | apply step_lf|].
    apply ch_nil.
Qed.

(* ---- the parser side of the backend ---- *)
Definition tk_backend : PB.token := PB.Tok TT.T_BACKEND b_backend 0.
Definition tk_dot : PB.token := PB.Tok TT.T_DOT [x2e] 0.
Definition tk_assign : PB.token := PB.Tok TT.T_ASSIGN [x3d] 0.

Definition host_prop (a : list byte) : Ast.bprop :=
  Ast.BProp tk_dot (tk_ident b_host) tk_assign (Ast.EString (tk_string a) a) tk_semi.
Definition backend_decl (name : list byte) (addr : option (list byte)) : Ast.stmt :=
  Ast.DBackend tk_backend (tk_ident (fname name)) tk_lbrace
    (match addr with Some a => [host_prop a] | None => [] end) tk_rbrace.

Lemma exacts_tail : map pconv (exacts (map Exact tail_ps)) = [tk_rbrace].
Proof. reflexivity. Qed.

Lemma ptoks_backend name addr :
  match addr with Some a => EP.text_ok a | None => True end ->
  map pconv (exacts (backend_specs name addr)) = Yield.ystmt (backend_decl name addr).
Proof.
  intros Ha. unfold backend_specs, backend_decl. cbn [app].
  rewrite exacts_lf, !exacts_keep by reflexivity. rewrite exacts_lf. cbn [map Yield.ystmt].
  rewrite (pconv_ascii _ b_backend _ ltac:(repeat constructor; unfold ascii; cbn; lia)).
  rewrite (pconv_ascii _ (fname name) _ (name_ascii _ (fname_ok name))).
  destruct addr as [a|].
  - cbn [app]. rewrite !exacts_keep by reflexivity. cbn [map flat_map Yield.ybprop host_prop Yield.yexpr app].
    rewrite exacts_tail.
    rewrite (pconv_ascii _ b_host _ ltac:(repeat constructor; unfold ascii; cbn; lia)).
    unfold pconv. cbn [fst snd]. rewrite <- (quote_runes a Ha). reflexivity.
  - cbn [app flat_map]. rewrite exacts_tail. reflexivity.
Qed.

Lemma backend_canonical fok name addr :
  match addr with Some a => EP.text_ok a | None => True end ->
  ParseProgram5.cprog fok [backend_decl name addr].
Proof.
  intros Ha. cbn [ParseProgram5.cprog]. split; [|exact I].
  unfold backend_decl. cbn [ParseProgram5.cdeclx]. repeat split; try reflexivity.
  destruct addr as [a|]; [|constructor]. destruct Ha as [H1 H2].
  constructor; [|constructor]. unfold host_prop. constructor; try reflexivity.
  split; [|reflexivity]. cbn [ParsePratt.canon]. split; [reflexivity|].
  unfold ParsePratt.string_value, tk_string. cbn [PB.off PB.lit]. rewrite (pdecode_escape a H1 H2). reflexivity.
Qed.

(* what the parsed program says: the declared name and the decoded host *)
Definition bprop_view (p : Ast.bprop) : list byte * list byte :=
  match p with
  | Ast.BProp _ key _ (Ast.EString _ v) _ => (PB.lit key, v)
  | _ => ([], [])
  end.
Definition backend_of (v : Ast.vcl) : list byte * list (list byte * list byte) :=
  match Ast.vstmts v with [Ast.DBackend _ nm _ ps _] => (PB.lit nm, map bprop_view ps) | _ => ([], []) end.

Theorem backend_parses_real fok name addr :
  match addr with Some a => EP.text_ok a | None => True end ->
  exists v, LexParse.parse_source fok LexParse.MVcl (E.render_backend name addr) = PB.POK v /\
            backend_of v = (x46 :: x5f :: E.sanitize name, match addr with Some a => [(b_host, a)] | None => [] end).
Proof.
  intros Ha.
  destruct (ptoks_of_specs _ _ (chain_backend name addr Ha)) as (ms & Hp & HT).
  { unfold backend_specs. destruct addr; reflexivity. }
  exists (Ast.Vcl [backend_decl name addr] false). unfold LexParse.parse_source. rewrite Hp. unfold LexParse.parse_mode.
  rewrite HT, (ptoks_backend name addr Ha).
  pose proof (ParseProgram5.program_roundtrip fok [backend_decl name addr] (backend_canonical fok name addr Ha)) as R.
  cbn [flat_map] in R. rewrite app_nil_r in R. rewrite R.
  split; [reflexivity|]. destruct addr; reflexivity.
Qed.

(* =================================================================== the director *)
Definition b_director : list byte := [x64; x69; x72; x65; x63; x74; x6f; x72].
Definition b_retries : list byte := [x72; x65; x74; x72; x69; x65; x73].
Definition b_quorum : list byte := [x71; x75; x6f; x72; x75; x6d].
Definition b_weight : list byte := [x77; x65; x69; x67; x68; x74].
Definition p_rbrace : ptok := (T_RIGHT_BRACE, [125], 0).
Definition p_percent : ptok := (T_PERCENT, [37], 0).

Lemma id_end_semi t : id_end (x3b :: t).
Proof. cbn. repeat split; try reflexivity; try (unfold ascii; cbn; lia); cbn; lia. Qed.
Lemma int_end_percent t : int_end (x25 :: t).
Proof. cbn. split; [unfold ascii; cbn; lia|]. split; [reflexivity|]. cbn. intros H. repeat (destruct H as [H|H]; [discriminate H|]). exact H. Qed.

Lemma decimal_digits m : E.decimal m <> [] /\ forallb digitb (E.decimal m) = true.
Proof. destruct (dec_fuel_digits 40 m ltac:(lia)) as (A & B & _). split; assumption. Qed.

Definition type_ok (ty : N) : Prop := ty = 1 \/ ty = 2 \/ ty = 3 \/ ty = 4.
Lemma print_type_ident ty : type_ok ty -> ident_name (E.print_type ty).
Proof. intros [-> | [-> | [-> | ->]]]; split; reflexivity. Qed.

Definition member_text (b : list byte) : list byte :=
  [x0a; x09; x7b; x20; x2e; x62; x61; x63; x6b; x65; x6e; x64; x20; x3d; x20; x46; x5f] ++ E.sanitize b ++
  [x3b; x20; x2e; x77; x65; x69; x67; x68; x74; x20; x3d; x20; x31; x3b; x20; x7d].
Definition member_specs (b : list byte) : list tokspec :=
  [Exact p_lf; Exact p_lbrace; Exact p_dot; Exact (T_BACKEND, map b2n b_backend, 0); Exact p_assign;
   Exact (T_IDENT, map b2n (fname b), 0); Exact p_semi; Exact p_dot; Exact (T_IDENT, map b2n b_weight, 0); Exact p_assign;
   Exact (T_INT, map b2n [x31], 0); Exact p_semi; Exact p_rbrace].

Lemma chain_member b t specs :
  chain (x0a :: t) (map spec_pred specs) ->
  chain (member_text b ++ x0a :: t) (map spec_pred (member_specs b ++ specs)).
Proof.
  intros Hc. unfold member_text, member_specs. cbn [app]. rewrite <- !app_assoc. cbn [app].
  eapply (chain_spec_eq _ [x0a]); [seg_eq | discriminate | reflexivity | apply step_lf|].
  eapply (chain_spec_eq _ ([x09] ++ [x7b]) (x20 :: _)); [seg_eq | discriminate | reflexivity | |].
  { apply step_lbrace; [reflexivity | reflexivity | cbn; lia]. }
  eapply (chain_spec_eq _ ([x20] ++ [x2e])); [seg_eq | discriminate | reflexivity | apply step_dot; reflexivity|].
  eapply (chain_spec_eq _ ([] ++ b_backend) (x20 :: _)); [seg_eq | discriminate | reflexivity | |].
  { exact (step_ident [] b_backend _ eq_refl eq_refl (id_end_space _)). }
  eapply (chain_spec_eq _ ([x20] ++ [x3d]) (x20 :: _)); [seg_eq | discriminate | reflexivity | |].
  { apply step_assign; [reflexivity | cbn; lia]. }
  eapply (chain_spec_eq _ ([x20] ++ fname b) (x3b :: _)); [seg_eq | discriminate | reflexivity | |].
  { cbn [spec_pred]. rewrite <- (fname_ident b). apply step_ident; [reflexivity | apply fname_ok | apply id_end_semi]. }
  eapply (chain_spec_eq _ ([] ++ [x3b])); [seg_eq | discriminate | reflexivity | apply step_semi; reflexivity|].
  eapply (chain_spec_eq _ ([x20] ++ [x2e])); [seg_eq | discriminate | reflexivity | apply step_dot; reflexivity|].
  eapply (chain_spec_eq _ ([] ++ b_weight) (x20 :: _)); [seg_eq | discriminate | reflexivity | |].
  { exact (step_ident [] b_weight _ eq_refl eq_refl (id_end_space _)). }
  eapply (chain_spec_eq _ ([x20] ++ [x3d]) (x20 :: _)); [seg_eq | discriminate | reflexivity | |].
  { apply step_assign; [reflexivity | cbn; lia]. }
  eapply (chain_spec_eq _ ([x20] ++ [x31]) (x3b :: _)); [seg_eq | discriminate | reflexivity | |].
  { apply (step_of_cstep [x20] [x31] (x3b :: _)); [reflexivity | cbn; starter_tac|].
    apply cstep_int; [discriminate | reflexivity | apply int_end_semi]. }
  eapply (chain_spec_eq _ ([] ++ [x3b])); [seg_eq | discriminate | reflexivity | apply step_semi; reflexivity|].
  eapply (chain_spec_eq _ ([x20] ++ [x7d])); [seg_eq | discriminate | reflexivity | apply step_rbrace; reflexivity|].
  exact Hc.
Qed.

Lemma chain_members bs :
  chain (flat_map member_text bs ++ [x0a; x7d; x0a]) (map spec_pred (flat_map member_specs bs ++ map Exact tail_ps)) /\
  exists t, flat_map member_text bs ++ [x0a; x7d; x0a] = x0a :: t.
Proof.
  induction bs as [|b bs [Hc (t & Ht)]].
  - split; [exact chain_tail_specs | eexists; reflexivity].
  - cbn [flat_map]. rewrite <- !app_assoc. rewrite Ht in *. split.
    + apply chain_member. exact Hc.
    + unfold member_text. cbn [app]. eexists. reflexivity.
Qed.

(* a property line: LF TAB . key = digits [%] ; *)
Definition intprop_text (key : list byte) (m : N) (pct : bool) : list byte :=
  [x0a; x09; x2e] ++ key ++ [x20; x3d; x20] ++ E.decimal m ++ (if pct then [x25; x3b] else [x3b]).
Definition intprop_specs (key : list byte) (m : N) (pct : bool) : list tokspec :=
  [Exact p_lf; Exact p_dot; Exact (T_IDENT, map b2n key, 0); Exact p_assign; Exact (T_INT, map b2n (E.decimal m), 0)] ++
  (if pct then [Exact p_percent; Exact p_semi] else [Exact p_semi]).

Lemma chain_intprop key m pct t specs : ident_name key ->
  chain (x0a :: t) (map spec_pred specs) ->
  chain (intprop_text key m pct ++ x0a :: t) (map spec_pred (intprop_specs key m pct ++ specs)).
Proof.
  intros [Hk Hl] Hc. unfold intprop_text, intprop_specs. destruct (decimal_digits m) as [Hne Hdig].
  cbn [app]. rewrite <- !app_assoc. cbn [app].
  eapply (chain_spec_eq _ [x0a]); [seg_eq | discriminate | reflexivity | apply step_lf|].
  eapply (chain_spec_eq _ ([x09] ++ [x2e])); [seg_eq | discriminate | reflexivity | apply step_dot; reflexivity|].
  eapply (chain_spec_eq _ ([] ++ key) (x20 :: _)); [seg_eq | | reflexivity | |].
  { destruct key; [discriminate Hk | discriminate]. }
  { cbn [spec_pred]. rewrite <- Hl. apply step_ident; [reflexivity | exact Hk | apply id_end_space]. }
  eapply (chain_spec_eq _ ([x20] ++ [x3d]) (x20 :: _)); [seg_eq | discriminate | reflexivity | |].
  { apply step_assign; [reflexivity | cbn; lia]. }
  destruct pct.
  - eapply (chain_spec_eq _ ([x20] ++ E.decimal m) (x25 :: _)); [seg_eq | discriminate | reflexivity | |].
    { apply (step_of_cstep [x20] (E.decimal m) (x25 :: _)); [reflexivity | |apply cstep_int; [exact Hne | exact Hdig | apply int_end_percent]].
      destruct (E.decimal m) as [|d ds]; [congruence|]. cbn [app]. simpl in Hdig. apply andb_true_iff in Hdig. destruct Hdig as [Hd _].
      unfold digitb in Hd; cls in Hd. split; [unfold ascii; lia|]. cls. lia. }
    cbn [app].
    eapply (chain_spec_eq _ [x25] (x3b :: _)); [seg_eq | discriminate | reflexivity | apply step_percent; cbn; lia|].
    eapply (chain_spec_eq _ ([] ++ [x3b])); [seg_eq | discriminate | reflexivity | apply step_semi; reflexivity|].
    exact Hc.
  - eapply (chain_spec_eq _ ([x20] ++ E.decimal m) (x3b :: _)); [seg_eq | discriminate | reflexivity | |].
    { apply (step_of_cstep [x20] (E.decimal m) (x3b :: _)); [reflexivity | |apply cstep_int; [exact Hne | exact Hdig | apply int_end_semi]].
      destruct (E.decimal m) as [|d ds]; [congruence|]. cbn [app]. simpl in Hdig. apply andb_true_iff in Hdig. destruct Hdig as [Hd _].
      unfold digitb in Hd; cls in Hd. split; [unfold ascii; lia|]. cls. lia. }
    cbn [app].
    eapply (chain_spec_eq _ ([] ++ [x3b])); [seg_eq | discriminate | reflexivity | apply step_semi; reflexivity|].
    exact Hc.
Qed.

(* ---- the whole director ---- *)
Definition director_body (r' q : N) (bs : list (list byte)) : list byte :=
  (if r' =? 0 then [] else intprop_text b_retries r' false) ++ intprop_text b_quorum q true ++
  flat_map member_text bs ++ [x0a; x7d; x0a].
Definition director_body_specs (r' q : N) (bs : list (list byte)) : list tokspec :=
  (if r' =? 0 then [] else intprop_specs b_retries r' false) ++ intprop_specs b_quorum q true ++
  flat_map member_specs bs ++ map Exact tail_ps.
Definition director_specs (name : list byte) (ty r' q : N) (bs : list (list byte)) : list tokspec :=
  [Exact p_lf; Exact (T_DIRECTOR, map b2n b_director, 0); Exact (T_IDENT, map b2n (E.sanitize name), 0);
   Exact (T_IDENT, map b2n (E.print_type ty), 0); Exact p_lbrace] ++ director_body_specs r' q bs.

Lemma render_director_eq name ty retries quorum bs :
  E.render_director name ty retries quorum bs =
  [x0a] ++ b_director ++ [x20] ++ E.sanitize name ++ [x20] ++ E.print_type ty ++ [x20; x7b] ++
  director_body (if ty =? 1 then retries else 0) quorum bs.
Proof.
  unfold E.render_director, director_body, intprop_text, E.bs_close, member_text, b_director, b_retries, b_quorum. cbv zeta.
  destruct ((if ty =? 1 then retries else 0) =? 0); cbn [app]; rewrite <- ?app_assoc; cbn [app]; reflexivity.
Qed.

Lemma chain_director_body r' q bs :
  chain (director_body r' q bs) (map spec_pred (director_body_specs r' q bs)) /\
  exists t, director_body r' q bs = x0a :: t.
Proof.
  unfold director_body, director_body_specs. destruct (chain_members bs) as [Hm (t & Ht)].
  assert (Hq : chain (intprop_text b_quorum q true ++ flat_map member_text bs ++ [x0a; x7d; x0a])
                     (map spec_pred (intprop_specs b_quorum q true ++ flat_map member_specs bs ++ map Exact tail_ps))).
  { rewrite Ht in *. apply chain_intprop; [split; reflexivity | exact Hm]. }
  destruct (r' =? 0).
  - split; [exact Hq | unfold intprop_text; cbn [app]; eexists; reflexivity].
  - split; [| unfold intprop_text; cbn [app]; eexists; reflexivity].
    assert (Hx : exists t', intprop_text b_quorum q true ++ flat_map member_text bs ++ [x0a; x7d; x0a] = x0a :: t')
      by (unfold intprop_text; cbn [app]; eexists; reflexivity).
    destruct Hx as (t' & Ht'). rewrite Ht' in *. apply chain_intprop; [split; reflexivity | exact Hq].
Qed.

Theorem chain_director name ty retries quorum bs :
  ident_name (E.sanitize name) -> type_ok ty ->
  chain (E.render_director name ty retries quorum bs)
        (map spec_pred (director_specs name ty (if ty =? 1 then retries else 0) quorum bs)).
Proof.
  intros [Hn Hl] Hty. rewrite render_director_eq. unfold director_specs.
  destruct (chain_director_body (if ty =? 1 then retries else 0) quorum bs) as [Hb (t & Ht)].
  destruct (print_type_ident ty Hty) as [Hpn Hpl].
  cbn [app].
  eapply (chain_spec_eq _ [x0a]); [seg_eq | discriminate | reflexivity | apply step_lf|].
  eapply (chain_spec_eq _ ([] ++ b_director) (x20 :: _)); [seg_eq | discriminate | reflexivity | |].
  { exact (step_ident [] b_director _ eq_refl eq_refl (id_end_space _)). }
  eapply (chain_spec_eq _ ([x20] ++ E.sanitize name) (x20 :: _)); [seg_eq | discriminate | reflexivity | |].
  { cbn [spec_pred]. rewrite <- Hl. apply step_ident; [reflexivity | exact Hn | apply id_end_space]. }
  eapply (chain_spec_eq _ ([x20] ++ E.print_type ty) (x20 :: _)); [seg_eq | discriminate | reflexivity | |].
  { cbn [spec_pred]. rewrite <- Hpl. apply step_ident; [reflexivity | exact Hpn | apply id_end_space]. }
  rewrite Ht in *.
  eapply (chain_spec_eq _ ([x20] ++ [x7b]) (x0a :: t)); [seg_eq | discriminate | reflexivity | |].
  { apply step_lbrace; [reflexivity | reflexivity | cbn; lia]. }
  exact Hb.
Qed.

(* ---- the parser side of the director ---- *)
Definition tk_director : PB.token := PB.Tok TT.T_DIRECTOR b_director 0.
Definition tk_percent : PB.token := PB.Tok TT.T_PERCENT [x25] 0.
Definition tk_one : PB.token := PB.Tok TT.T_INT [x31] 0.

Definition int_expr (m : N) (pct : bool) : Ast.expr :=
  if pct then Ast.EPostfix (Ast.EInt (tk_int m) (Z.of_N m)) tk_percent else Ast.EInt (tk_int m) (Z.of_N m).
Definition int_field (key : list byte) (m : N) (pct : bool) : Ast.dfield :=
  Ast.DField tk_dot (tk_ident key) tk_assign (int_expr m pct) tk_semi.
Definition member_obj (b : list byte) : Ast.dprop :=
  Ast.DBackendObj tk_lbrace
    [Ast.DField tk_dot tk_backend tk_assign (Ast.EIdent (tk_ident (fname b))) tk_semi;
     Ast.DField tk_dot (tk_ident b_weight) tk_assign (Ast.EInt tk_one 1%Z) tk_semi] tk_rbrace.
Definition director_props (r' q : N) (bs : list (list byte)) : list Ast.dprop :=
  (if r' =? 0 then [] else [Ast.DProp (int_field b_retries r' false)]) ++ [Ast.DProp (int_field b_quorum q true)] ++
  map member_obj bs.
Definition director_decl (name : list byte) (ty r' q : N) (bs : list (list byte)) : Ast.stmt :=
  Ast.DDirector tk_director (tk_ident (E.sanitize name)) (tk_ident (E.print_type ty)) tk_lbrace
    (director_props r' q bs) tk_rbrace.

Lemma ascii_const l : forallb (fun b => b2n b <? 128) l = true -> Forall ascii l.
Proof. induction l as [|b l IH]; simpl; intros H; [constructor|]. apply andb_true_iff in H. destruct H as [A B]. constructor; [unfold ascii; lia | exact (IH B)]. Qed.

Lemma exacts_intprop key m pct rest : Forall ascii key ->
  map pconv (exacts (intprop_specs key m pct ++ rest)) = Yield.ydfield (int_field key m pct) ++ map pconv (exacts rest).
Proof.
  intros Hk. unfold intprop_specs, int_field, int_expr. destruct pct; cbn [app];
    rewrite exacts_lf, !exacts_keep by reflexivity; cbn [map Yield.ydfield Yield.yexpr app];
    rewrite (pconv_ascii _ key _ Hk), (pconv_ascii _ (E.decimal m) _ (decimal_ascii m)); reflexivity.
Qed.

Lemma exacts_member b rest :
  map pconv (exacts (member_specs b ++ rest)) = Yield.ydprop (member_obj b) ++ map pconv (exacts rest).
Proof.
  unfold member_specs, member_obj. cbn [app]. rewrite exacts_lf, !exacts_keep by reflexivity.
  cbn [map Yield.ydprop Yield.ydfield Yield.yexpr flat_map app].
  rewrite (pconv_ascii _ (fname b) _ (name_ascii _ (fname_ok b))).
  rewrite (pconv_ascii _ b_backend _ (ascii_const b_backend eq_refl)), (pconv_ascii _ b_weight _ (ascii_const b_weight eq_refl)),
          (pconv_ascii _ [x31] _ (ascii_const [x31] eq_refl)).
  reflexivity.
Qed.

Lemma exacts_members bs :
  map pconv (exacts (flat_map member_specs bs ++ map Exact tail_ps)) = flat_map Yield.ydprop (map member_obj bs) ++ [tk_rbrace].
Proof.
  induction bs as [|b bs IH]; [reflexivity|]. cbn [flat_map map]. rewrite <- !app_assoc, exacts_member, IH. reflexivity.
Qed.

Lemma ptoks_director name ty r' q bs : ident_name (E.sanitize name) -> type_ok ty ->
  map pconv (exacts (director_specs name ty r' q bs)) = Yield.ystmt (director_decl name ty r' q bs).
Proof.
  intros [Hn _] Hty. destruct (print_type_ident ty Hty) as [Hpn _].
  unfold director_specs, director_decl, director_body_specs, director_props. cbn [app].
  rewrite exacts_lf, !exacts_keep by reflexivity. cbn [map Yield.ystmt].
  rewrite (pconv_ascii _ b_director _ (ascii_const b_director eq_refl)), (pconv_ascii _ (E.sanitize name) _ (name_ascii _ Hn)),
          (pconv_ascii _ (E.print_type ty) _ (name_ascii _ Hpn)).
  assert (Hq : map pconv (exacts (intprop_specs b_quorum q true ++ flat_map member_specs bs ++ map Exact tail_ps)) =
               flat_map Yield.ydprop ([Ast.DProp (int_field b_quorum q true)] ++ map member_obj bs) ++ [tk_rbrace]).
  { rewrite (exacts_intprop b_quorum q true _ (ascii_const b_quorum eq_refl)), exacts_members.
    cbn [app flat_map Yield.ydprop]. rewrite <- app_assoc. reflexivity. }
  destruct (r' =? 0).
  - cbn [app]. rewrite Hq. reflexivity.
  - rewrite <- ?app_assoc. rewrite (exacts_intprop b_retries r' false _ (ascii_const b_retries eq_refl)), Hq.
    cbn [app flat_map Yield.ydprop]. rewrite <- !app_assoc. reflexivity.
Qed.

Lemma int_expr_canon fok m pct : m < ParseLit.two63 -> ParseProgram.cexpr fok (int_expr m pct).
Proof.
  intros Hm. unfold ParseProgram.cexpr, int_expr. destruct pct; cbn [ParsePratt.canon ParsePratt.minprec].
  - repeat split; try reflexivity. apply decimal_conv. exact Hm.
  - repeat split; try reflexivity. apply decimal_conv. exact Hm.
Qed.

Lemma int_field_canon fok key m pct : m < ParseLit.two63 -> ParseProgram4.cdprop fok (Ast.DProp (int_field key m pct)).
Proof.
  intros Hm. unfold int_field. cbn [ParseProgram4.cdprop ParseProgram4.cdfield].
  split; [reflexivity|]. split; [left; reflexivity|]. split; [reflexivity|]. split; [apply int_expr_canon; exact Hm | reflexivity].
Qed.

Lemma director_canonical fok name ty r' q bs : r' < ParseLit.two63 -> q < ParseLit.two63 ->
  ParseProgram5.cprog fok [director_decl name ty r' q bs].
Proof.
  intros Hr Hq. cbn [ParseProgram5.cprog]. split; [|exact I].
  unfold director_decl. cbn [ParseProgram5.cdeclx]. repeat split; try reflexivity.
  unfold director_props. apply Forall_app. split; [|apply Forall_app; split].
  - destruct (r' =? 0); constructor; [|constructor]. apply int_field_canon. exact Hr.
  - constructor; [|constructor]. apply int_field_canon. exact Hq.
  - induction bs as [|b bs IH]; [constructor|]. cbn [map]. constructor; [|exact IH].
    unfold member_obj. cbn [ParseProgram4.cdprop]. split; [reflexivity|]. split; [|reflexivity].
    constructor; [|constructor; [|constructor]]; cbn [ParseProgram4.cdfield].
    + split; [reflexivity|]. split; [right; reflexivity|]. split; [reflexivity|]. split; [|reflexivity].
      split; reflexivity.
    + split; [reflexivity|]. split; [left; reflexivity|]. split; [reflexivity|]. split; [|reflexivity].
      split; [|reflexivity]. cbn [ParsePratt.canon]. split; reflexivity.
Qed.

(* what the parsed program says *)
Inductive eview := VInt (z : Z) | VPct (z : Z) | VId (s : list byte) | VOther.
Definition expr_view (e : Ast.expr) : eview :=
  match e with
  | Ast.EInt _ z => VInt z
  | Ast.EPostfix (Ast.EInt _ z) _ => VPct z
  | Ast.EIdent t => VId (PB.lit t)
  | _ => VOther
  end.
Definition dfield_view (f : Ast.dfield) : list byte * eview :=
  match f with Ast.DField _ key _ v _ => (PB.lit key, expr_view v) end.
Definition dprop_view (p : Ast.dprop) : (list byte * eview) + list (list byte * eview) :=
  match p with Ast.DProp f => inl (dfield_view f) | Ast.DBackendObj _ fs _ => inr (map dfield_view fs) end.
Definition director_of (v : Ast.vcl) :=
  match Ast.vstmts v with
  | [Ast.DDirector _ nm ty _ ps _] => (PB.lit nm, PB.lit ty, map dprop_view ps)
  | _ => ([], [], [])
  end.
Definition director_view (name : list byte) (ty retries quorum : N) (bs : list (list byte)) :=
  let r' := if ty =? 1 then retries else 0 in
  (E.sanitize name, E.print_type ty,
   (if r' =? 0 then [] else [inl (b_retries, VInt (Z.of_N r'))]) ++ [inl (b_quorum, VPct (Z.of_N quorum))] ++
   map (fun b => inr [(b_backend, VId (x46 :: x5f :: E.sanitize b)); (b_weight, VInt 1%Z)]) bs).

Theorem director_parses_real fok name ty retries quorum bs :
  ident_name (E.sanitize name) -> type_ok ty -> retries < ParseLit.two63 -> quorum < ParseLit.two63 ->
  exists v, LexParse.parse_source fok LexParse.MVcl (E.render_director name ty retries quorum bs) = PB.POK v /\
            director_of v = director_view name ty retries quorum bs.
Proof.
  intros Hn Hty Hr Hq.
  set (r' := if ty =? 1 then retries else 0).
  assert (Hr' : r' < ParseLit.two63) by (unfold r'; destruct (ty =? 1); [exact Hr | unfold ParseLit.two63; lia]).
  destruct (ptoks_of_specs _ _ (chain_director name ty retries quorum bs Hn Hty)) as (ms & Hp & HT).
  { fold r'. unfold director_specs, director_body_specs. rewrite !forallb_app.
    assert (Hm : forallb spec_ok (flat_map member_specs bs) = true).
    { clear. induction bs as [|b bs IH]; [reflexivity|]. cbn [flat_map]. rewrite forallb_app, IH. reflexivity. }
    rewrite Hm. destruct (r' =? 0); reflexivity. }
  fold r' in HT.
  exists (Ast.Vcl [director_decl name ty r' quorum bs] false). unfold LexParse.parse_source. rewrite Hp. unfold LexParse.parse_mode.
  rewrite HT, (ptoks_director name ty r' quorum bs Hn Hty).
  pose proof (ParseProgram5.program_roundtrip fok [director_decl name ty r' quorum bs] (director_canonical fok name ty r' quorum bs Hr' Hq)) as R.
  cbn [flat_map] in R. rewrite app_nil_r in R. rewrite R.
  split; [reflexivity|].
  unfold director_of, director_view, director_decl, director_props. cbn [Ast.vstmts]. fold r'. cbv zeta. fold r'.
  rewrite !map_app, map_map. destruct (r' =? 0); reflexivity.
Qed.
