(* C10 - coverage instrumentation preserves the behaviour of a program whose if() conditions
   are quiet (evaluate without effect and without raising); without that hypothesis it does not. *)
From Coq Require Import List NArith Bool Lia.
From Falco Require Import Base.Res Model.TestRunCover.
Import ListNotations.

Section CoverP.
Variable cond prim ctl : Type.
Variable St cval : Type.
Variable ev : cond -> St -> res (bool * St).
Variable run_prim : prim -> St -> res (out * St).
Variable ifconds : prim -> list cond.
Variable has_marker : prim -> bool.
Variable sw_ctl : ctl -> St -> res (cval * St).
Variable sw_test : ctl -> nat -> cval -> St -> res (bool * St).

Notation stmt := (stmt cond prim ctl).
Notation block := (block cond prim ctl).
Notation alt := (alt cond prim ctl).
Notation cases := (cases cond prim ctl).
Notation exec_stmt := (exec_stmt cond prim ctl St cval ev run_prim sw_ctl sw_test).
Notation exec_block := (exec_block cond prim ctl St cval ev run_prim sw_ctl sw_test).
Notation exec_alt := (exec_alt cond prim ctl St cval ev run_prim sw_ctl sw_test).
Notation exec_from := (exec_from cond prim ctl St cval ev run_prim sw_ctl sw_test).
Notation exec_try := (exec_try cond prim ctl St cval ev run_prim sw_ctl sw_test).
Notation exec_nth := (exec_nth cond prim ctl St cval ev run_prim sw_ctl sw_test).
Notation instr_stmt := (instr_stmt cond prim ctl ifconds has_marker).
Notation instr_block := (instr_block cond prim ctl ifconds has_marker).
Notation instr_alt := (instr_alt cond prim ctl ifconds has_marker).
Notation instr_cases := (instr_cases cond prim ctl ifconds has_marker).

(* "evaluating the condition is invisible": it yields a truth value, raises nothing, and leaves
   the (observable) state as it was *)
Variable quiet : cond -> bool.
Hypothesis quiet_law : forall c, quiet c = true -> forall σ, exists b, ev c σ = OK (b, σ).

(* every if() condition that the instrumentation pre-evaluates is quiet *)
Fixpoint okq_stmt (s : stmt) : bool :=
  match s with
  | Prim p => forallb quiet (ifconds p)
  | Marker => true
  | If _ th el => okq_block th && okq_alt el
  | Switch _ cs _ => okq_cases cs
  | Block b => okq_block b
  end
with okq_block (b : block) : bool :=
  match b with BNil => true | BCons s r => okq_stmt s && okq_block r end
with okq_alt (a : alt) : bool :=
  match a with ANone => true | AElse b => okq_block b | AElif _ th rest => okq_block th && okq_alt rest end
with okq_cases (cs : cases) : bool :=
  match cs with CNil => true | CCons body _ rest => okq_block body && okq_cases rest end.

Scheme stmt_mind := Induction for TestRunCover.stmt Sort Prop
  with block_mind := Induction for TestRunCover.block Sort Prop
  with alt_mind := Induction for TestRunCover.alt Sort Prop
  with cases_mind := Induction for TestRunCover.cases Sort Prop.
Combined Scheme lang_mutind from stmt_mind, block_mind, alt_mind, cases_mind.

(* one-step unfoldings *)
Lemma xs_prim p σ : exec_stmt (Prim p) σ = run_prim p σ. Proof. reflexivity. Qed.
Lemma xs_marker σ : exec_stmt Marker σ = OK (PNext, σ). Proof. reflexivity. Qed.
Lemma xs_if c th el σ :
  exec_stmt (If c th el) σ = (do (b, σ1) <- ev c σ; if b then exec_block th σ1 else exec_alt el σ1).
Proof. reflexivity. Qed.
Lemma xs_switch x cs d σ :
  exec_stmt (Switch x cs d) σ =
  (do (v, σ1) <- sw_ctl x σ;
   do (r, σ2) <- exec_try x v d 0 cs σ1;
   match r with
   | Some o => OK (o, σ2)
   | None => match d with Some n => exec_nth n cs σ2 | None => OK (PNext, σ2) end
   end).
Proof. reflexivity. Qed.
Lemma xs_block b σ : exec_stmt (Block b) σ = exec_block b σ. Proof. reflexivity. Qed.
Lemma xb_nil σ : exec_block BNil σ = OK (PNext, σ). Proof. reflexivity. Qed.
Lemma xb_cons s r σ :
  exec_block (BCons s r) σ =
  (do (o, σ1) <- exec_stmt s σ; match o with PNext => exec_block r σ1 | PStop => OK (PStop, σ1) end).
Proof. reflexivity. Qed.
Lemma xa_none σ : exec_alt ANone σ = OK (PNext, σ). Proof. reflexivity. Qed.
Lemma xa_else b σ : exec_alt (AElse b) σ = exec_block b σ. Proof. reflexivity. Qed.
Lemma xa_elif c th rest σ :
  exec_alt (AElif c th rest) σ = (do (b, σ1) <- ev c σ; if b then exec_block th σ1 else exec_alt rest σ1).
Proof. reflexivity. Qed.
Definition after_body (ft : bool) (rest : cases) (r : res (out * St)) : res (out * St) :=
  do (o, σ1) <- r;
  match o with PNext => if ft then exec_from rest σ1 else OK (PNext, σ1) | PStop => OK (PStop, σ1) end.
Lemma xf_cons body ft rest σ :
  exec_from (CCons body ft rest) σ = after_body ft rest (exec_block body σ).
Proof. reflexivity. Qed.
Lemma xn_cons body ft rest n σ :
  exec_nth n (CCons body ft rest) σ =
  match n with O => after_body ft rest (exec_block body σ) | S n' => exec_nth n' rest σ end.
Proof. destruct n; reflexivity. Qed.
Lemma xt_cons x v d i body ft rest σ :
  exec_try x v d i (CCons body ft rest) σ =
  if is_dflt d i then exec_try x v d (S i) rest σ
  else do (m, σ1) <- sw_test x i v σ;
       if m then
         do (o, σ2) <- exec_block body σ1;
         match o with
         | PNext => if ft then do (o', σ3) <- exec_from rest σ2; OK (Some o', σ3) else OK (Some PNext, σ2)
         | PStop => OK (Some PStop, σ2)
         end
       else exec_try x v d (S i) rest σ1.
Proof. reflexivity. Qed.

Lemma res_eta (r : res (out * St)) :
  (do (o, σ1) <- r; match o with PNext => OK (PNext, σ1) | PStop => OK (PStop, σ1) end) = r.
Proof. destruct r as [[[|] σ]| | |]; reflexivity. Qed.

Lemma exec_marks cs tail σ :
  forallb quiet cs = true ->
  exec_block (marks cond prim ctl cs tail) σ = exec_block tail σ.
Proof.
  induction cs as [|c r IH]; intros H; simpl in H; auto.
  apply andb_prop in H. destruct H as [Hc Hr].
  destruct (quiet_law c Hc σ) as [b Hb].
  change (marks cond prim ctl (c :: r) tail) with (BCons (ifmark cond prim ctl c) (marks cond prim ctl r tail)).
  unfold ifmark. rewrite xb_cons, xs_if, Hb. simpl bind.
  destruct b; [|rewrite xa_else]; rewrite xb_cons, xs_marker; simpl bind; rewrite ?xb_nil; simpl bind; auto.
Qed.

Lemma exec_pre s tail σ :
  okq_stmt s = true -> exec_block (pre cond prim ctl ifconds has_marker s tail) σ = exec_block tail σ.
Proof.
  intros H. destruct s; unfold pre; auto.
  simpl in H. destruct (has_marker p).
  - rewrite xb_cons, xs_marker. simpl bind. apply exec_marks; auto.
  - apply exec_marks; auto.
Qed.

Theorem instrument_equiv_all :
  (forall s, okq_stmt s = true -> forall σ, exec_stmt (instr_stmt s) σ = exec_stmt s σ) /\
  (forall b, okq_block b = true -> forall σ, exec_block (instr_block b) σ = exec_block b σ) /\
  (forall a, okq_alt a = true -> forall σ, exec_alt (instr_alt a) σ = exec_alt a σ) /\
  (forall cs, okq_cases cs = true ->
     (forall σ, exec_from (instr_cases cs) σ = exec_from cs σ) /\
     (forall x v d i σ, exec_try x v d i (instr_cases cs) σ = exec_try x v d i cs σ) /\
     (forall n σ, exec_nth n (instr_cases cs) σ = exec_nth n cs σ)).
Proof.
  apply lang_mutind.
  - (* Prim *) reflexivity.
  - (* Marker *) reflexivity.
  - (* If *) intros c th IHth el IHel H σ. simpl in H. apply andb_prop in H. destruct H as [H1 H2].
    change (instr_stmt (If c th el)) with (If c (BCons Marker (instr_block th)) (instr_alt el)).
    rewrite !xs_if. destruct (ev c σ) as [[b σ1]| | |]; simpl bind; auto. destruct b.
    + rewrite xb_cons, xs_marker. simpl bind. auto.
    + auto.
  - (* Switch *) intros x cs IH d H σ. simpl in H. destruct (IH H) as (A & B & C).
    change (instr_stmt (Switch x cs d)) with (Switch x (instr_cases cs) d).
    rewrite !xs_switch. destruct (sw_ctl x σ) as [[v σ1]| | |]; simpl bind; auto. rewrite B.
    destruct (exec_try x v d 0 cs σ1) as [[r σ2]| | |]; simpl bind; auto.
    destruct r; auto. destruct d; auto.
  - (* Block *) intros b IH H σ. simpl in H.
    change (instr_stmt (Block b)) with (Block (instr_block b)). rewrite !xs_block. auto.
  - (* BNil *) reflexivity.
  - (* BCons *) intros s IHs r IHr H σ. simpl in H. apply andb_prop in H. destruct H as [H1 H2].
    change (instr_block (BCons s r))
      with (pre cond prim ctl ifconds has_marker s (BCons (instr_stmt s) (instr_block r))).
    rewrite exec_pre by auto. rewrite !xb_cons. rewrite IHs by auto.
    destruct (exec_stmt s σ) as [[o σ1]| | |]; simpl bind; auto. destruct o; auto.
  - (* ANone *) reflexivity.
  - (* AElse *) intros b IH H σ. simpl in H.
    change (instr_alt (AElse b)) with (AElse (BCons Marker (instr_block b))).
    rewrite !xa_else, xb_cons, xs_marker. simpl bind. auto.
  - (* AElif *) intros c th IHth rest IHrest H σ. simpl in H. apply andb_prop in H. destruct H as [H1 H2].
    change (instr_alt (AElif c th rest))
      with (AElse (BCons Marker (BCons (If c (BCons Marker (instr_block th)) (instr_alt rest)) BNil))).
    rewrite xa_else, xa_elif, xb_cons, xs_marker. simpl bind. rewrite xb_cons, xs_if.
    destruct (ev c σ) as [[b σ1]| | |]; simpl bind; auto.
    destruct b.
    + rewrite xb_cons, xs_marker. simpl bind. rewrite IHth by auto.
      destruct (exec_block th σ1) as [[[|] σ2]| | |]; reflexivity.
    + rewrite IHrest by auto. destruct (exec_alt rest σ1) as [[[|] σ2]| | |]; reflexivity.
  - (* CNil *) intros _. repeat split; reflexivity.
  - (* CCons *) intros body IHb ft rest IHr H. simpl in H. apply andb_prop in H. destruct H as [H1 H2].
    destruct (IHr H2) as (A & B & C).
    assert (E : forall σ, exec_block (BCons Marker (BCons Marker (instr_block body))) σ = exec_block body σ).
    { intros σ. rewrite xb_cons, xs_marker. simpl bind. rewrite xb_cons, xs_marker. simpl bind. auto. }
    assert (AB : forall r, after_body ft (instr_cases rest) r = after_body ft rest r).
    { intros r. unfold after_body. destruct r as [[o σ1]| | |]; simpl bind; auto. destruct o; auto. destruct ft; auto. }
    change (instr_cases (CCons body ft rest))
      with (CCons (BCons Marker (BCons Marker (instr_block body))) ft (instr_cases rest)).
    repeat split.
    + intros σ. rewrite !xf_cons, E, AB. reflexivity.
    + intros x v d i σ. rewrite !xt_cons. destruct (is_dflt d i); auto.
      destruct (sw_test x i v σ) as [[m σ1]| | |]; simpl bind; auto. destruct m; auto.
      rewrite E. destruct (exec_block body σ1) as [[o σ2]| | |]; simpl bind; auto.
      destruct o; auto. destruct ft; auto. rewrite A. reflexivity.
    + intros n σ. rewrite !xn_cons. destruct n; auto. rewrite E, AB. reflexivity.
Qed.

(* running an instrumented subroutine body = running the body *)
Theorem instrument_equiv body σ :
  okq_block body = true ->
  exec_block (instr_sub cond prim ctl ifconds has_marker body) σ = exec_block body σ.
Proof.
  intros H. unfold instr_sub. rewrite xb_cons, xs_marker. simpl bind.
  destruct instrument_equiv_all as (_ & B & _). apply B; auto.
Qed.

End CoverP.

(* ---- without quietness the instrumentation is visible: the statement reads re.group.1 and THEN
   evaluates an if() whose condition matches (and so overwrites re.group.1).
   state = (re.group.1, log); the condition sets the group to 1; the statement logs the group it
   sees first and then evaluates its own if() *)
Definition rg_ev (c : unit) (σ : nat * list nat) : res (bool * (nat * list nat)) := OK (true, (1, snd σ)).
Definition rg_prim (p : unit) (σ : nat * list nat) : res (out * (nat * list nat)) :=
  OK (PNext, (1, snd σ ++ [fst σ])).

Theorem instrument_regroup_refuted :
  exists (body : block unit unit unit) (σ : nat * list nat),
    exec_block unit unit unit _ unit rg_ev rg_prim (fun _ σ => OK (tt, σ)) (fun _ _ _ σ => OK (false, σ))
      (instr_sub unit unit unit (fun _ => [tt]) (fun _ => true) body) σ
    <> exec_block unit unit unit _ unit rg_ev rg_prim (fun _ σ => OK (tt, σ)) (fun _ _ _ σ => OK (false, σ)) body σ.
Proof.
  exists (BCons (Prim tt) BNil), (0, []). vm_compute. discriminate.
Qed.
