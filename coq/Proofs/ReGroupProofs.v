(* C07 - laws of re.group.N (Model/ReGroup.v), for every history of matches and calls. *)
From Coq Require Import List NArith Bool Lia.
From Falco Require Import Base.Res Base.Bytes Model.Val Model.ReGroup.
Import ListNotations.

(* a failing match keeps every group as it was *)
Theorem regroup_kept_on_failure : forall g n, read (snd (trace_op g (RMatch None))) n = read g n.
Proof. reflexivity. Qed.

(* a successful match replaces ALL groups: group n is the n-th of this match, groups the match does not
   have are not set any more - whatever an earlier match left *)
Theorem regroup_replaced_on_success : forall g l n,
  read (snd (trace_op g (RMatch (Some l)))) n =
  match nth_error l n with Some s => VStr s false | None => VStr [] true end.
Proof. reflexivity. Qed.

(* a called subroutine cannot change the caller's groups, whatever it matches (also in nested calls) *)
Theorem regroup_call_frame : forall g body, snd (trace_op g (RCall body)) = g.
Proof. reflexivity. Qed.

(* ... and it starts without groups: its first read sees nothing of the caller's *)
Theorem regroup_callee_starts_empty : forall g a rest n,
  nth_error (fst (trace_op g (RCall (RMatch a :: rest)))) 0 = Some (after_match [] a) /\
  read (after_match [] None) n = VStr [] true.
Proof. intros. split; [reflexivity|]. unfold read. cbn. now destruct n. Qed.

(* the groups at the end of a sequence are those of the last successful top-level match *)
Theorem regroup_last_success_wins : forall g pre l post,
  Forall (fun o => match o with RMatch None => True | RCall _ => True | _ => False end) post ->
  final g (pre ++ RMatch (Some l) :: post) = l.
Proof.
  intros g pre l post H. revert g. induction pre as [|x pre IH]; intros g.
  - cbn. induction H as [|o post Ho Hp IHp]; [reflexivity|].
    destruct o as [[a|]|b]; try contradiction; cbn; exact IHp.
  - cbn. apply IH.
Qed.

Example ex_regroup :
  map (fun g => (read g 0, read g 2))
      (trace [] [RMatch (Some [[Byte.x61; Byte.x62]; [Byte.x61]; [Byte.x62]]); RMatch None;
                 RCall [RMatch None; RMatch (Some [[Byte.x7a]])]; RMatch (Some [[Byte.x63]])])
  = [(VStr [Byte.x61; Byte.x62] false, VStr [Byte.x62] false);     (* matched: three groups *)
     (VStr [Byte.x61; Byte.x62] false, VStr [Byte.x62] false);     (* failed: kept *)
     (VStr [] true, VStr [] true);                                 (* inside the callee: nothing *)
     (VStr [Byte.x7a] false, VStr [] true);                        (* the callee's own match *)
     (VStr [Byte.x61; Byte.x62] false, VStr [Byte.x62] false);     (* back in the caller *)
     (VStr [Byte.x63] false, VStr [] true)].                       (* one group: group 2 is gone *)
Proof. reflexivity. Qed.
