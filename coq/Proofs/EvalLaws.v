(* C07 - laws of the operators of Model/Oper.v and Model/Assign.v, for all values. *)
From Coq Require Import List NArith ZArith Bool Lia Floats.SpecFloat.
From Falco Require Import Base.Res Base.Bytes Model.Float Model.Acl Model.Val Model.Assign Model.Oper.
Import ListNotations.
Local Open Scope Z_scope.

(* ---------------------------------------------------------------- float comparison is antisymmetric *)
Lemma fcmp_swap a b :
  fcmp b a = match fcmp a b with Some c => Some (CompOpp c) | None => None end.
Proof.
  unfold fcmp, SFcompare. destruct a as [sa|sa| |sa ma ea], b as [sb|sb| |sb mb eb]; try reflexivity;
    try (destruct sa; reflexivity); try (destruct sb; reflexivity); try (destruct sa, sb; reflexivity).
  destruct sa, sb; try reflexivity.
  - rewrite (Z.compare_antisym ea eb). destruct (ea ?= eb) eqn:E; cbn; try reflexivity.
    change (Pos.compare_cont Eq mb ma) with (Pos.compare mb ma).
    change (Pos.compare_cont Eq ma mb) with (Pos.compare ma mb).
    now rewrite (Pos.compare_antisym ma mb).
  - rewrite (Z.compare_antisym ea eb). destruct (ea ?= eb) eqn:E; cbn; try reflexivity.
    change (Pos.compare_cont Eq mb ma) with (Pos.compare mb ma).
    change (Pos.compare_cont Eq ma mb) with (Pos.compare ma mb).
    now rewrite (Pos.compare_antisym ma mb).
Qed.

Definition kswap (k : ckind) : ckind :=
  match k with CLt => CGt | CGt => CLt | CLe => CGe | CGe => CLe end.

Lemma ctest_swap k c : ctest (kswap k) (match c with Some x => Some (CompOpp x) | None => None end) = ctest k c.
Proof. destruct k, c as [[]|]; reflexivity. Qed.

Lemma zc_swap k a b : zc (kswap k) b a = zc k a b.
Proof. unfold zc. rewrite (Z.compare_antisym a b). exact (ctest_swap k (Some (a ?= b))). Qed.

Lemma fc_swap k a b : fc (kswap k) b a = fc k a b.
Proof. unfold fc. rewrite fcmp_swap. apply ctest_swap. Qed.

Lemma time_cmp_swap e1 n1 e2 n2 : time_cmp e2 n2 e1 n1 = CompOpp (time_cmp e1 n1 e2 n2).
Proof.
  unfold time_cmp. rewrite (Z.compare_antisym e1 e2). destruct (e1 ?= e2); cbn; try reflexivity.
  apply Z.compare_antisym.
Qed.

(* a < b  exactly when  b > a  (and <= / >=), whenever both comparisons are defined *)
Theorem compare_dual : forall k a b x y,
  compare_op k a b = OK x -> compare_op (kswap k) b a = OK y -> x = y.
Proof.
  intros k [av al] [bv bl] x y. unfold compare_op. cbn [oval olit].
  destruct av, bv; try discriminate;
    repeat match goal with
           | |- context [if ?c then _ else _] => destruct c
           end; intros H1 H2; try discriminate; try congruence.
  all: injection H1 as <-; injection H2 as <-.
  all: try (symmetry; apply zc_swap); try (symmetry; apply fc_swap).
  rewrite (time_cmp_swap ext nsec ext0 nsec0). symmetry. exact (ctest_swap k (Some (time_cmp ext nsec ext0 nsec0))).
Qed.

Theorem lt_gt : forall a b x y, compare_op CLt a b = OK x -> compare_op CGt b a = OK y -> x = y.
Proof. intros a b. exact (compare_dual CLt a b). Qed.

Theorem le_ge : forall a b x y, compare_op CLe a b = OK x -> compare_op CGe b a = OK y -> x = y.
Proof. intros a b. exact (compare_dual CLe a b). Qed.

Section Laws.
Variable parse_ip : str -> option addr.
Variable re_match : str -> str -> option bool.

(* != is the negation of ==, !~ of ~ (same errors) *)
Theorem ne_not_eq : forall l r,
  not_equal parse_ip l r = match equal parse_ip l r with OK b => OK (negb b) | e => e end.
Proof. reflexivity. Qed.

Theorem ne_not_eq_val : forall l r b, equal parse_ip l r = OK b -> not_equal parse_ip l r = OK (negb b).
Proof. intros l r b H. unfold not_equal. now rewrite H. Qed.

Theorem nmatch_not_match : forall l r b,
  regex parse_ip re_match l r = OK b -> not_regex parse_ip re_match l r = OK (negb b).
Proof. intros l r b H. unfold not_regex. now rewrite H. Qed.

(* ---------------------------------------------------------------- not-set strings *)

(* a not-set STRING variable is falsy *)
Theorem notset_falsy : forall s, truthy (mkOp (VStr s true) false) = OK false.
Proof. reflexivity. Qed.

Theorem notset_and_or : forall s r b, truthy r = OK b ->
  logical andb (mkOp (VStr s true) false) r = OK false /\ logical orb (mkOp (VStr s true) false) r = OK b.
Proof. intros s r b H. unfold logical. cbn. rewrite H. split; reflexivity. Qed.

(* a not-set STRING equals nothing - whatever is on the other side, on either side.  On the
   right of an IP the string is first converted (IP = STRING): the hypothesis says that its bytes
   do not spell an address, which holds for the empty value every not-set string read from a
   header or a fresh local has (net.ParseIP("") = nil). *)
Theorem notset_equals_nothing : forall s o b,
  (equal parse_ip (mkOp (VStr s true) false) o = OK b -> b = false) /\
  (parse_ip s = None -> equal parse_ip o (mkOp (VStr s true) false) = OK b -> b = false).
Proof.
  intros s [ov ol] b. split.
  - unfold equal. cbn [oval olit]. destruct ov; try discriminate. intros H. now injection H as <-.
  - intros Hp. unfold equal. cbn [oval olit]. destruct ol; [discriminate|].
    destruct ov; try discriminate; cbn [same_type type_of].
    + destruct notset; cbn; intros H; now injection H as <-.
    + destruct notset; cbn; [intros H; now injection H as <-|].
      rewrite Hp. intros H; now injection H as <-.
Qed.

(* ... and reads as the empty, set string once it has been assigned to a local STRING *)
Theorem notset_reads_empty_after_local_assign : forall s0 ns0 lit,
  local_set parse_ip OpSet (VStr s0 ns0) (mkOp (VStr [] true) lit) = AOk (VStr [] false).
Proof. reflexivity. Qed.

End Laws.

(* ---------------------------------------------------------------- int64 arithmetic within range *)

Lemma wrap64_id z : in64 z = true -> wrap64 z = z.
Proof.
  unfold in64, min64, max64, wrap64. intros H. apply andb_prop in H as [H1 H2].
  apply Z.leb_le in H1. apply Z.leb_le in H2.
  rewrite Z.mod_small by lia. lia.
Qed.

Definition noflag (v : Z) : val := VInt v false false false.
Definition rint (v : Z) (nan lit : bool) : operand := mkOp (VInt v nan false false) lit.

Section Arith.
Variable parse_ip : str -> option addr.

Theorem add_in_range : forall a n ni pi b bn lit, in64 (a + b) = true ->
  assign parse_ip OpAdd (VInt a n ni pi) (rint b bn lit) = AOk (VInt (a + b) n ni pi).
Proof. intros. cbn. now rewrite wrap64_id. Qed.

Theorem sub_in_range : forall a n ni pi b bn lit, in64 (a - b) = true ->
  assign parse_ip OpSub (VInt a n ni pi) (rint b bn lit) = AOk (VInt (a - b) n ni pi).
Proof. intros. cbn. now rewrite wrap64_id. Qed.

Theorem mul_in_range : forall a n ni pi b bn lit, in64 (a * b) = true ->
  assign parse_ip OpMul (VInt a n ni pi) (rint b bn lit) = AOk (VInt (a * b) n ni pi).
Proof. intros. cbn. now rewrite wrap64_id. Qed.

(* truncated division; by zero it is an error that marks the variable NaN *)
Theorem div_in_range : forall a n ni pi b bn lit, b <> 0 -> in64 (Z.quot a b) = true ->
  assign parse_ip OpDiv (VInt a n ni pi) (rint b bn lit) = AOk (VInt (Z.quot a b) n ni pi).
Proof.
  intros. cbn. unfold godiv. apply Z.eqb_neq in H. rewrite H. cbn. now rewrite wrap64_id.
Qed.

Theorem div_by_zero : forall a n ni pi bn lit,
  assign parse_ip OpDiv (VInt a n ni pi) (rint 0 bn lit) = AErr (VInt a true ni pi).
Proof. reflexivity. Qed.

Theorem rem_spec : forall a n b bn lit, b <> 0 ->
  assign parse_ip OpRem (VInt a n false false) (rint b bn lit) = AOk (VInt (Z.rem a b) n false false).
Proof.
  intros. cbn. unfold gorem. apply Z.eqb_neq in H. now rewrite H.
Qed.

(* RTIME: nanoseconds; an INTEGER operand counts seconds *)
Theorem rtime_add_in_range : forall a b lit, in64 (a + b) = true ->
  assign parse_ip OpAdd (VRTime a) (mkOp (VRTime b) lit) = AOk (VRTime (a + b)).
Proof. intros. cbn. now rewrite wrap64_id. Qed.

Theorem rtime_sub_in_range : forall a b lit, in64 (a - b) = true ->
  assign parse_ip OpSub (VRTime a) (mkOp (VRTime b) lit) = AOk (VRTime (a - b)).
Proof. intros. cbn. now rewrite wrap64_id. Qed.

Theorem rtime_add_seconds_in_range : forall a s sn, in64 (s * Second) = true -> in64 (a + s * Second) = true ->
  assign parse_ip OpAdd (VRTime a) (rint s sn false) = AOk (VRTime (a + s * Second)).
Proof. intros. cbn. rewrite (wrap64_id (s * Second)) by assumption. now rewrite wrap64_id. Qed.

Theorem rtime_set_seconds_in_range : forall a s sn, in64 (s * Second) = true ->
  assign parse_ip OpSet (VRTime a) (rint s sn false) = AOk (VRTime (s * Second)).
Proof. intros. cbn. now rewrite wrap64_id. Qed.

Theorem rtime_mul_in_range : forall a k kn lit, in64 (a * k) = true ->
  assign parse_ip OpMul (VRTime a) (rint k kn lit) = AOk (VRTime (a * k)).
Proof. intros. cbn. now rewrite wrap64_id. Qed.

Theorem rtime_div_in_range : forall a k kn lit, k <> 0 -> in64 (Z.quot a k) = true ->
  assign parse_ip OpDiv (VRTime a) (rint k kn lit) = AOk (VRTime (Z.quot a k)).
Proof.
  intros. cbn. apply Z.eqb_neq in H. rewrite H. unfold godiv. rewrite H. cbn. now rewrite wrap64_id.
Qed.

End Arith.

(* ---------------------------------------------------------------- recorded disagreement with the documentation *)

(* RTIME is a duration in seconds with fractions; INTEGER operands are seconds ([rtime_set_seconds_in_range]),
   and so should FLOAT operands be: set var.rtime = var.float with 1.5 should give 1.500.  The code
   converts the float to time.Duration directly (nanoseconds): 1.5 becomes 1 ns, printed 0.000.
   Not repaired: interpreter/assign/assign_test.go pins this behaviour (known_findings.txt). *)
Definition f_1_5 : float := S754_finite false 6755399441055744 (-52).
Theorem rtime_set_float_refuted :
  assign (fun _ => None) OpSet (VRTime 0) (mkOp (VFloat f_1_5 false false false) false) = AOk (VRTime 1) /\
  f_to_int (fmul f_1_5 (f_of_int Second)) = 1500000000 /\
  rtime_string 1 = map (fun c => n2b (Z.to_N c)) [48; 46; 48; 48; 48].
Proof. repeat split; vm_compute; reflexivity. Qed.
