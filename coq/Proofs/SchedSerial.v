(* C18: locked_serialisable, the sequential schedule, and the plugin append corollaries. *)
From Coq Require Import List Arith Bool Lia Permutation.
From Falco Require Import Model.Sched Proofs.SchedProofs.
Import ListNotations.

Section Serial.
  Variables (S R : Type).
  Notation step := (step S R).
  Variable bodies : list (list step).
  Hypothesis Hb : Forall (fun b => forallb is_body_step b = true) bodies.
  Variable s0 : S.
  Let n := length bodies.
  Let B := fun i => nth i bodies [].
  Let threads := map handler bodies.

  Lemma inv_exec sched : forall c c',
    Inv S R bodies s0 c -> exec sched c = Some c' -> Inv S R bodies s0 c'.
  Proof.
    induction sched as [|i t IH]; intros c c' Hi He; cbn [exec] in He.
    - inversion He; subst; exact Hi.
    - destruct (tick i c) as [c1|] eqn:Et; [|discriminate].
      eapply IH; [|exact He]. eapply inv_tick; eauto.
  Qed.

  (* the statement of the property, with perm = the order in which the lock was acquired *)
  Lemma locked_serialisable sched c :
    respects_lock threads s0 sched c ->
    Permutation (acq c) (seq 0 n) /\ lock c = None /\
    st c = seq_final B (acq c) s0 /\
    forall i, i < n -> resp c i = seq_resp B (acq c) s0 i.
  Proof.
    intros [He Hf]. unfold threads in Hf. rewrite map_length in Hf. fold n in Hf.
    pose proof (inv_exec sched _ _ (inv_init S R bodies s0) He) as (Hnd & Hlt & Hout & Hl).
    assert (Hall : forall i, i < n -> In i (acq c)).
    { intros i Hi. destruct (in_dec Nat.eq_dec i (acq c)) as [H|H]; [exact H|].
      destruct (Hout i H) as [Hc _]. rewrite (Hf i Hi) in Hc.
      rewrite (full_lt S R bodies i Hi) in Hc. discriminate. }
    destruct (lock c) as [h|] eqn:El.
    - exfalso. destruct Hl as (o' & pre & suf & Ha & _ & Hc & _).
      assert (Hh : h < n) by (apply Hlt; rewrite Ha; apply in_or_app; right; left; reflexivity).
      rewrite (Hf h Hh) in Hc. destruct suf; discriminate.
    - destruct Hl as (Hin & Hs). split; [|split; [reflexivity|split; [exact Hs|]]].
      + apply NoDup_Permutation; [exact Hnd | apply seq_NoDup |].
        intros x. rewrite in_seq. split; [intros H; split; [lia|apply Hlt; exact H] | intros [_ H]; apply Hall; exact H].
      + intros i Hi. apply Hin. apply Hall. exact Hi.
  Qed.

  (* ---- the one-at-a-time schedule is itself a lock-respecting schedule ---- *)
  Lemma run_section i : forall suf (c : config S R),
    forallb is_body_step suf = true -> lock c = Some i -> code c i = suf ++ [Release] ->
    exists c', exec (repeat i (length suf + 1)) c = Some c' /\ lock c' = None /\ acq c' = acq c /\
               code c' i = [] /\ forall j, j <> i -> code c' j = code c j.
  Proof.
    induction suf as [|x suf IH]; intros c Hs Hl Hc.
    - cbn [length Nat.add repeat exec]. unfold tick. rewrite Hc. cbn [app]. rewrite Hl, Nat.eqb_refl.
      eexists. split; [reflexivity|]. cbn [lock acq code]. repeat split; auto.
      + apply upd_same.
      + intros j Hj. apply upd_other. exact Hj.
    - cbn [forallb] in Hs. apply andb_true_iff in Hs. destruct Hs as [Hx Hs].
      cbn [length Nat.add repeat exec]. unfold tick. rewrite Hc. cbn [app].
      destruct x as [| |f|g]; try discriminate Hx.
      + match goal with |- context [exec _ ?c1] => destruct (IH c1 Hs) as (c' & He & H1 & H2 & H3 & H4) end;
          [exact Hl | apply upd_same |].
        exists c'. split; [exact He|]. cbn [acq code] in *. repeat split; auto.
        intros j Hj. rewrite (H4 j Hj). apply upd_other. exact Hj.
      + match goal with |- context [exec _ ?c1] => destruct (IH c1 Hs) as (c' & He & H1 & H2 & H3 & H4) end;
          [exact Hl | apply upd_same |].
        exists c'. split; [exact He|]. cbn [acq code] in *. repeat split; auto.
        intros j Hj. rewrite (H4 j Hj). apply upd_other. exact Hj.
  Qed.

  Lemma exec_app (a b : list nat) (c : config S R) :
    exec (a ++ b) c = match exec a c with Some c' => exec b c' | None => None end.
  Proof.
    revert c. induction a as [|i a IH]; intros c; [reflexivity|].
    cbn [app exec]. destruct (tick i c); [apply IH|reflexivity].
  Qed.

  Lemma B_body' i : forallb is_body_step (B i) = true.
  Proof. exact (B_body S R bodies Hb i). Qed.

  Lemma run_order : forall order (c : config S R),
    lock c = None -> NoDup order -> (forall i, In i order -> i < n /\ code c i = handler (B i)) ->
    exists c', exec (sequential threads order) c = Some c' /\ lock c' = None /\ acq c' = acq c ++ order /\
               (forall i, In i order -> code c' i = []) /\ (forall j, ~ In j order -> code c' j = code c j).
  Proof.
    induction order as [|i order IH]; intros c Hl Hnd Hin.
    - exists c. cbn. rewrite app_nil_r. repeat split; auto. intros i [].
    - inversion Hnd as [|? ? Hni Hnd']; subst.
      destruct (Hin i (or_introl eq_refl)) as [Hi Hc].
      cbn [sequential flat_map]. fold (sequential threads order).
      assert (Hlen : length (nth i threads []) = Datatypes.S (length (B i) + 1)).
      { unfold threads. rewrite (full_lt S R bodies i Hi). unfold handler. cbn [length]. rewrite app_length. reflexivity. }
      rewrite Hlen. cbn [repeat app exec]. unfold tick at 1. rewrite Hc. cbn [handler]. rewrite Hl.
      match goal with |- context [exec _ ?c1] =>
        destruct (run_section i (B i) c1 (B_body' i) eq_refl (upd_same _ _ _)) as (c2 & He & H1 & H2 & H3 & H4) end.
      cbn [acq code] in *.
      destruct (IH c2 H1 Hnd') as (c3 & He3 & G1 & G2 & G3 & G4).
      { intros j Hj. split; [apply Hin; right; exact Hj|].
        assert (j <> i) by (intros ->; exact (Hni Hj)).
        rewrite (H4 j H), upd_other by exact H. apply Hin. right. exact Hj. }
      exists c3. split.
      { rewrite exec_app. rewrite He. exact He3. }
      split; [exact G1|]. split; [rewrite G2, H2, <- app_assoc; reflexivity|]. split.
      + intros j [<-|Hj]; [|apply G3; exact Hj]. rewrite G4 by exact Hni. exact H3.
      + intros j Hj. rewrite G4 by (intros H; apply Hj; right; exact H).
        assert (j <> i) by (intros ->; apply Hj; left; reflexivity).
        rewrite (H4 j H). apply upd_other. exact H.
  Qed.
End Serial.

(* the statement in the shape of the property: every lock-respecting interleaving ends in the state,
   and gives every request the response, of the one-at-a-time schedule in lock-acquisition order *)
Theorem locked_serialisable_sched (S R : Type) (bodies : list (list (step S R))) (s0 : S) sched c :
  Forall (fun b => forallb is_body_step b = true) bodies ->
  respects_lock (map handler bodies) s0 sched c ->
  exists perm c',
    perm = acq c /\ Permutation perm (seq 0 (length bodies)) /\
    respects_lock (map handler bodies) s0 (sequential (map handler bodies) perm) c' /\
    st c = st c' /\ forall i, i < length bodies -> resp c i = resp c' i.
Proof.
  intros Hb Hr.
  destruct (locked_serialisable S R bodies Hb s0 sched c Hr) as (Hp & Hl & Hs & Hrs).
  assert (Hnd : NoDup (acq c)) by (apply (Permutation_NoDup (Permutation_sym Hp)); apply seq_NoDup).
  assert (Hlt : forall i, In i (acq c) -> i < length bodies).
  { intros i Hi. apply (Permutation_in _ Hp) in Hi. apply in_seq in Hi. lia. }
  destruct (run_order S R bodies Hb (acq c) (init (map handler bodies) s0) eq_refl Hnd) as (c' & He & G1 & G2 & G3 & G4).
  { intros i Hi. split; [apply Hlt; exact Hi|]. cbn [init code]. apply full_lt. apply Hlt. exact Hi. }
  cbn [init acq app] in G2.
  assert (Hr' : respects_lock (map handler bodies) s0 (sequential (map handler bodies) (acq c)) c').
  { split; [exact He|]. intros i Hi. rewrite map_length in Hi. apply G3.
    apply (Permutation_in _ (Permutation_sym Hp)). apply in_seq. lia. }
  destruct (locked_serialisable S R bodies Hb s0 _ c' Hr') as (_ & _ & Hs' & Hrs').
  exists (acq c), c'. split; [reflexivity|]. split; [exact Hp|]. split; [exact Hr'|].
  rewrite G2 in Hs', Hrs'. split; [congruence|]. intros i Hi. rewrite Hrs, Hrs' by exact Hi. reflexivity.
Qed.

(* ---- plugin reporting under a mutex: nothing is lost, under every interleaving ---- *)
Section AppendLocked.
  Variable D : Type.
  Variable ds : list D.
  Let m := length ds.
  Let bodies : list (list (step (astate D) unit)) :=
    map (fun p => [RD D (fst p) ; WR D (fst p) (snd p)]) (combine (seq 0 m) ds).
  Let B := fun i => nth i bodies [].

  Lemma reports_locked_eq : reports D (report_locked D) ds = map handler bodies.
  Proof. unfold reports, bodies, report_locked. rewrite map_map. reflexivity. Qed.

  Lemma bodies_ok : Forall (fun b => forallb is_body_step b = true) bodies.
  Proof. unfold bodies. apply Forall_forall. intros b Hb. apply in_map_iff in Hb. destruct Hb as (p & <- & _). reflexivity. Qed.

  Lemma bodies_length : length bodies = m.
  Proof. unfold bodies. rewrite map_length, combine_length, seq_length. apply Nat.min_id. Qed.

  Lemma body_shape i : B i = [] \/ exists j d, B i = [RD D j; WR D j d].
  Proof.
    unfold B. destruct (lt_dec i (length bodies)) as [H|H]; [|left; apply nth_overflow; lia].
    right. pose proof (nth_In bodies [] H) as Hin. unfold bodies in Hin at 2. apply in_map_iff in Hin.
    destruct Hin as ([j d] & He & _). exists j, d. symmetry. exact He.
  Qed.

  Lemma body_k k d0 : k < m -> B k = [RD D k; WR D k (nth k ds d0)].
  Proof.
    intros Hk. unfold B, bodies.
    set (g := fun p : nat * D => [RD D (fst p); WR D (fst p) (snd p)]).
    rewrite (nth_indep _ [] (g (0, d0)))
      by (rewrite map_length, combine_length, seq_length, Nat.min_id; exact Hk).
    rewrite (map_nth g), combine_nth by (rewrite seq_length; reflexivity).
    unfold g. cbn [fst snd]. rewrite seq_nth by exact Hk. reflexivity.
  Qed.

  Lemma run_report j d s : fst (fst (run_body [RD D j; WR D j d] s None)) = fst s ++ [d].
  Proof. destruct s as [sh regs]. cbn. unfold upd. rewrite Nat.eqb_refl. reflexivity. Qed.

  Lemma seq_final_mono order : forall s x, In x (fst s) -> In x (fst (seq_final B order s)).
  Proof.
    induction order as [|i order IH]; intros s x Hx; [exact Hx|].
    cbn [seq_final fold_left]. apply IH.
    destruct (body_shape i) as [->|(j & d & ->)]; [exact Hx|].
    rewrite run_report. apply in_or_app. left. exact Hx.
  Qed.

  Lemma seq_final_has order k d0 : forall s, In k order -> k < m -> In (nth k ds d0) (fst (seq_final B order s)).
  Proof.
    induction order as [|i order IH]; intros s Hk Hm; [destruct Hk|].
    cbn [seq_final fold_left]. destruct Hk as [->|Hk].
    - apply seq_final_mono. rewrite (body_k k d0 Hm), run_report. apply in_or_app. right. left. reflexivity.
    - apply IH; assumption.
  Qed.

  Theorem append_locked_complete sched c :
    respects_lock (reports D (report_locked D) ds) (astate0 D) sched c ->
    forall d, In d ds -> In d (fst (st c)).
  Proof.
    rewrite reports_locked_eq. intros Hr d Hd.
    destruct (locked_serialisable _ _ bodies bodies_ok (astate0 D) sched c Hr) as (Hp & _ & Hs & _).
    rewrite bodies_length in Hp.
    destruct (In_nth ds d d Hd) as (k & Hk & Hn). rewrite Hs, <- Hn.
    apply seq_final_has; [|exact Hk].
    apply (Permutation_in _ (Permutation_sym Hp)). apply in_seq. fold m in Hk. lia.
  Qed.
End AppendLocked.

(* ---- without the mutex an update is lost: two reports, schedule read-read-write-write ---- *)
Theorem append_unlocked_refuted :
  exists (ds : list nat) sched c,
    exec sched (init (reports nat (report_unlocked nat) ds) (astate0 nat)) = Some c /\
    finished (length ds) c /\ exists d, In d ds /\ ~ In d (fst (st c)).
Proof.
  exists [10; 20], [0; 1; 0; 1]. eexists. split; [reflexivity|]. split.
  - intros i Hi. destruct i as [|[|i]]; [reflexivity|reflexivity|cbn in Hi; lia].
  - exists 10. split; [left; reflexivity|]. cbn. intros [H|[]]. discriminate.
Qed.

(* a concrete non-trivial witness for the hypotheses of locked_serialisable: three requests that
   increment a shared counter and answer with its value, interleaved as the lock permits *)
Example ex_three_requests :
  let body := [Act (fun s : nat => s + 1); Respond (fun s : nat => s)] in
  match exec [1; 1; 1; 1; 2; 2; 2; 2; 0; 0; 0; 0]
             (init (map handler [body; body; body]) 0) with
  | Some c => acq c = [1; 2; 0] /\ st c = 3 /\ resp c 1 = Some 1 /\ resp c 2 = Some 2 /\ resp c 0 = Some 3
  | None => False
  end.
Proof. vm_compute. repeat split; reflexivity. Qed.
