(* C11 - T tie: the name-suffix rule (getSubroutineCallScope) and the annotation names (annotationToScope),
   regenerated from linter/helper.go, agree with the fastlyScopes table: "_x" and "X" give the scope of "vcl_x";
   vcl_pipe has neither a suffix rule nor an annotation *)
From Coq Require Import List NArith Bool String.
From Falco Require Import Gen.InferScopes.
Import ListNotations.

Definition scope_rule_tables_statement : Prop :=
  forallb (fun kv => existsb (fun fv => String.eqb (fst fv) (String.append "vcl" (fst kv)) && N.eqb (snd fv) (snd kv)) fastly_scopes)
          suffix_scopes = true /\
  map snd suffix_scopes = map snd annotation_scopes /\
  List.length suffix_scopes = 9 /\ existsb (fun kv => N.eqb (snd kv) SC_PIPE) suffix_scopes = false.

Lemma scope_rule_tables : scope_rule_tables_statement.
Proof. unfold scope_rule_tables_statement. repeat split; vm_compute; reflexivity. Qed.
