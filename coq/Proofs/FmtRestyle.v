(* comment_style: the rewrite touches the leading marker run only, keeps a comment a comment,
   and is idempotent. *)
From Coq Require Import List Bool NArith Arith Lia Strings.String.
From Coq Require Import Strings.Byte.
From Falco Require Import Base.Bytes Model.FmtTok Model.FmtNorm.
Import ListNotations.

Definition is_marker (b : byte) : bool := byte_eqb b c_sharp || byte_eqb b c_slash.

(* the text of a comment behind its leading run of # and / *)
Fixpoint strip_marker (t : bytes) : bytes :=
  match t with
  | x :: r => if is_marker x then strip_marker r else t
  | [] => []
  end.

Lemma byte_eqb_refl b : byte_eqb b b = true.
Proof. now apply byte_eqb_eq. Qed.

Lemma count_prefix_split b t :
  t = repeat b (count_prefix b t) ++ skipn (count_prefix b t) t.
Proof.
  induction t as [|x r IH]; simpl; auto.
  destruct (byte_eqb x b) eqn:E; simpl; auto.
  apply byte_eqb_eq in E. subst x. now rewrite <- IH.
Qed.

Lemma strip_marker_repeat b n r : is_marker b = true -> strip_marker (repeat b n ++ r) = strip_marker r.
Proof. intros H. induction n; simpl; auto. now rewrite H. Qed.

Lemma count_prefix_head b r : count_prefix b (b :: r) = S (count_prefix b r).
Proof. simpl. now rewrite byte_eqb_refl. Qed.

Lemma starts_with_cons_neq x y p s : byte_eqb x y = false -> starts_with (x :: p) (y :: s) = false.
Proof. intros H. simpl. now rewrite H. Qed.

(* 1. only the marker run changes *)
Theorem restyle_text_marker_only cs t : strip_marker (restyle_text cs t) = strip_marker t.
Proof.
  unfold restyle_text. destruct (starts_with (bs "#FASTLY"%string) t); auto.
  destruct cs; auto.
  - destruct t as [|a [|b r]]; auto.
    destruct (byte_eqb a c_slash && negb (byte_eqb b c_star)) eqn:E; auto.
    apply andb_true_iff in E as [Ea _]. apply byte_eqb_eq in Ea. subst a.
    cbv zeta. set (t := c_slash :: b :: r).
    rewrite (strip_marker_repeat c_sharp) by reflexivity.
    rewrite (count_prefix_split c_slash t) at 3.
    now rewrite (strip_marker_repeat c_slash) by reflexivity.
  - destruct t as [|a r]; auto.
    destruct (byte_eqb a c_sharp) eqn:E; auto.
    apply byte_eqb_eq in E. subst a.
    cbv zeta. set (t := c_sharp :: r).
    rewrite (strip_marker_repeat c_slash) by reflexivity.
    rewrite (count_prefix_split c_sharp t) at 3.
    now rewrite (strip_marker_repeat c_sharp) by reflexivity.
Qed.

(* 2. a comment stays a comment: "#...", "//..." or "/*..." *)
Definition is_comment_text (t : bytes) : bool :=
  match t with
  | a :: r => byte_eqb a c_sharp
              || (byte_eqb a c_slash && match r with b :: _ => byte_eqb b c_slash || byte_eqb b c_star | [] => false end)
  | [] => false
  end.

Theorem restyle_text_comment cs t : is_comment_text t = true -> is_comment_text (restyle_text cs t) = true.
Proof.
  intros H. unfold restyle_text. destruct (starts_with (bs "#FASTLY"%string) t); auto.
  destruct cs; auto.
  - destruct t as [|a [|b r]]; auto.
    destruct (byte_eqb a c_slash && negb (byte_eqb b c_star)) eqn:E; auto.
    apply andb_true_iff in E as [Ea _]. apply byte_eqb_eq in Ea. subst a.
    rewrite count_prefix_head. simpl. reflexivity.
  - destruct t as [|a r]; auto.
    destruct (byte_eqb a c_sharp) eqn:E; auto.
    apply byte_eqb_eq in E. subst a. rewrite count_prefix_head.
    destruct (count_prefix c_sharp r); reflexivity.
Qed.

(* 3. idempotent *)
Lemma restyle_shape cs t :
  restyle_text cs t = t
  \/ (cs = CSharp /\ exists x, restyle_text cs t = c_sharp :: x)
  \/ (cs = CSlash /\ exists x, restyle_text cs t = c_slash :: c_slash :: x).
Proof.
  unfold restyle_text. destruct (starts_with (bs "#FASTLY"%string) t); auto.
  destruct cs; auto.
  - destruct t as [|a [|b r]]; auto.
    destruct (byte_eqb a c_slash && negb (byte_eqb b c_star)) eqn:E; auto.
    apply andb_true_iff in E as [Ea _]. apply byte_eqb_eq in Ea. subst a.
    right. left. split; auto. cbv zeta. rewrite count_prefix_head. simpl. eauto.
  - destruct t as [|a r]; auto.
    destruct (byte_eqb a c_sharp) eqn:E; auto.
    apply byte_eqb_eq in E. subst a.
    right. right. split; auto. cbv zeta. rewrite count_prefix_head.
    destruct (count_prefix c_sharp r); simpl; eauto.
Qed.

Theorem restyle_text_idem cs t : restyle_text cs (restyle_text cs t) = restyle_text cs t.
Proof.
  destruct (restyle_shape cs t) as [H|[[Hc [x H]]|[Hc [x H]]]]; rewrite H; auto.
  - subst cs. unfold restyle_text.
    destruct (starts_with (bs "#FASTLY"%string) (c_sharp :: x)); auto.
    destruct x; reflexivity.
  - subst cs. reflexivity.
Qed.

Lemma restyle_idem c x : restyle c (restyle c x) = restyle c x.
Proof. unfold restyle. simpl. now rewrite restyle_text_idem. Qed.

(* the #FASTLY macro (and with it every text the linter and the simulator match by that prefix) is untouched *)
Theorem restyle_text_macro cs t : starts_with (bs "#FASTLY"%string) t = true -> restyle_text cs t = t.
Proof. intros H. unfold restyle_text. now rewrite H. Qed.

(* block comments are untouched *)
Theorem restyle_text_block cs r : restyle_text cs (c_slash :: c_star :: r) = c_slash :: c_star :: r.
Proof. destruct cs; reflexivity. Qed.
