(* Uniqueness of parse on canonical trees ("operators group as the precedence table states,
   parentheses overriding").  falco keeps parentheses as GroupedExpression nodes, so the
   statement is: for every CANONICAL tree e (canon: defined from the DOCUMENTED precedence
   table only - the left operand of an operator does not end in a looser operator, the right
   operand binds strictly tighter, the operand of a prefix operator is prefix-level, the right
   operand of a juxtaposition starts with a juxtaposable token), parsing the tokens of e
   returns exactly e, at any depth, with any continuation that cannot extend the expression. *)
From Coq Require Import List NArith ZArith Bool Lia.
From Falco Require Import Base.Bytes Gen.TokenTypes Model.ParseKinds Gen.ParserTables
  Model.ParseBase Model.Ast Model.ParseLit Model.ParseExpr Model.Yield
  Proofs.ParseTables Proofs.ParseExprYield Proofs.ParseExprMono.
Import ListNotations.
Local Open Scope parse_scope.
Local Open Scope N_scope.

(* ---------- the specification side: documented precedences only *)

(* the Pratt loop stops in front of [rest] when the caller's precedence is p *)
Definition stops (p : N) (rest : list token) : bool :=
  let t := hd eof_tok rest in
  ttype_eqb (typ t) T_SEMICOLON || negb (p <? doc_prec (typ t)).

(* loosest top-level operator of a tree (11 = none) *)
Definition minprec (e : expr) : N :=
  match e with
  | EInfix _ op _ _ => doc_prec (typ op)
  | EConcat _ _ => 7
  | EPostfix _ _ => 9
  | ECall _ _ _ _ => 10
  | _ => 11
  end.

(* what must follow a tree whose last component was parsed by a nested ParseExpression *)
Definition follow_ok (e : expr) (rest : list token) : bool :=
  match e with
  | EInfix _ op _ _ => stops (doc_prec (typ op)) rest
  | EConcat _ _ => stops 7 rest
  | EPrefix _ _ => stops 8 rest
  | _ => true
  end.

Definition string_value (t : token) : option str :=
  if (off t =? 2) then match decode_escapes (lit t) with POK v => Some v | _ => None end
  else Some (lit t).

Section P.
Variable fok : str -> bool.
Notation pexpr := (pexpr fok).
Notation ploop := (ploop fok).
Notation pargs := (pargs fok).
Notation pargtail := (pargtail fok).

Fixpoint canon (e : expr) : Prop :=
  match e with
  | EIdent t => doc_prefix (typ t) = Some PK_ParseIdent
  | EBool t => doc_prefix (typ t) = Some PK_ParseBoolean
  | EInt t v => typ t = T_INT /\ conv_integer false (lit t) = Some v
  | EFloat t => typ t = T_FLOAT /\ fok (float_arg (lit t)) = true
  | ERTime t => typ t = T_RTIME /\ exists v, rtime_value (lit t) = Some v /\ fok v = true
  | EString t v => typ t = T_STRING /\ string_value t = Some v
  | ELong o s c v =>
      typ o = T_OPEN_LONG_STRING /\ typ s = T_STRING /\ typ c = T_CLOSE_LONG_STRING
      /\ string_value s = Some v /\ str_eqb (lit o) (lit c) = true
  | EPrefix op r =>
      doc_prefix (typ op) = Some PK_ParsePrefixExpression /\ canon r /\ 8 < minprec r
  | EGroup lp r rp =>
      typ lp = T_LEFT_PAREN /\ typ rp = T_RIGHT_PAREN /\ canon r /\ 1 < minprec r
  | EIfExp kw lp c c1 t c2 e rp =>
      typ kw = T_IF /\ typ lp = T_LEFT_PAREN /\ typ c1 = T_COMMA /\ typ c2 = T_COMMA
      /\ typ rp = T_RIGHT_PAREN
      /\ (canon c /\ 1 < minprec c) /\ (canon t /\ 1 < minprec t) /\ (canon e /\ 1 < minprec e)
  | EInfix l op ex r =>
      doc_infix (typ op) = Some (if ex then IK_ParseInfixStringConcatExpression true else IK_ParseInfixExpression)
      /\ canon l /\ canon r
      /\ follow_ok l [op] = true             (* the left operand does not end in a looser operator *)
      /\ doc_prec (typ op) < minprec r        (* the right operand binds strictly tighter *)
  | EConcat l r =>
      canon l /\ canon r
      /\ follow_ok l (yexpr r) = true
      /\ 7 < minprec r
      /\ doc_infix (typ (hd eof_tok (yexpr r))) = Some (IK_ParseInfixStringConcatExpression false)
  | EPostfix l op =>
      doc_postfix (typ op) = Some QK_ParsePostfixExpression /\ canon l /\ follow_ok l [op] = true
  | ECall f lp a rp =>
      doc_prefix (typ f) = Some PK_ParseIdent /\ typ lp = T_LEFT_PAREN /\ typ rp = T_RIGHT_PAREN
      /\ canon_args a
  end
with canon_args (a : args) : Prop :=
  match a with
  | ANone => True
  | ASome e more => (canon e /\ 1 < minprec e) /\ canon_tail more
  end
with canon_tail (m : argtail) : Prop :=
  match m with
  | ATNil => True
  | ATCons c e more => typ c = T_COMMA /\ (canon e /\ 1 < minprec e) /\ canon_tail more
  end.

(* ---------- states *)
(* the state with cur = last token of l (l <> []), having consumed the earlier ones *)
Fixpoint endst (pv : option token) (l : list token) (rest : list token) : pstate :=
  match l with
  | [] => St pv rest
  | [x] => St pv (x :: rest)
  | x :: l' => endst (Some x) l' rest
  end.

Lemma endst_cons pv x l rest : l <> [] -> endst pv (x :: l) rest = endst (Some x) l rest.
Proof. destruct l; [congruence | reflexivity]. Qed.

Lemma endst_next : forall l pv rest, l <> [] ->
  next (endst pv l rest) = St (Some (last l eof_tok)) rest.
Proof.
  induction l as [|x l IH]; intros pv rest H; [congruence|].
  destruct l as [|y l']; [reflexivity|].
  rewrite endst_cons by discriminate. rewrite IH by discriminate. reflexivity.
Qed.

Lemma endst_after l pv rest : l <> [] -> after (endst pv l rest) = rest.
Proof. intros H. rewrite <- after_next, endst_next by exact H. reflexivity. Qed.

Lemma endst_app : forall l1 pv l2 rest, l1 <> [] -> l2 <> [] ->
  endst pv (l1 ++ l2) rest = endst (Some (last l1 eof_tok)) l2 rest.
Proof.
  induction l1 as [|x l1 IH]; intros pv l2 rest H1 H2; [congruence|].
  destruct l1 as [|y l1'].
  - simpl. apply endst_cons. exact H2.
  - change ((x :: y :: l1') ++ l2) with (x :: ((y :: l1') ++ l2)).
    rewrite endst_cons by (simpl; discriminate).
    rewrite IH by (try discriminate; exact H2). reflexivity.
Qed.

Lemma endst_peek l pv x rest : l <> [] -> peek (endst pv l (x :: rest)) = x.
Proof. intros H. unfold peek. fold (after (endst pv l (x :: rest))). rewrite endst_after by exact H. reflexivity. Qed.

Lemma endst_snoc l pv x rest : l <> [] -> endst pv (l ++ [x]) rest = next (endst pv l (x :: rest)).
Proof.
  intros H. rewrite endst_app by (try discriminate; exact H). rewrite endst_next by exact H. reflexivity.
Qed.

(* ---------- stops / follow_ok facts *)
Lemma stops_mono p q rest : stops p rest = true -> p <= q -> stops q rest = true.
Proof.
  unfold stops. intros H Hle. apply orb_true_iff in H. apply orb_true_iff.
  destruct H as [H|H]; [left; exact H | right].
  apply negb_true_iff in H. apply negb_true_iff. apply N.ltb_ge in H. apply N.ltb_ge. lia.
Qed.

Lemma stops_closer p x rest : 1 <= p -> doc_prec (typ x) = 1 -> stops p (x :: rest) = true.
Proof.
  intros Hp Hx. unfold stops. simpl. rewrite Hx. apply orb_true_iff. right.
  apply negb_true_iff. apply N.ltb_ge. exact Hp.
Qed.

Lemma follow_closer e x rest : doc_prec (typ x) = 1 -> follow_ok e (x :: rest) = true.
Proof.
  intros Hx. destruct e; simpl; try reflexivity; apply stops_closer; try exact Hx; try lia.
  apply doc_prec_range.
Qed.

Lemma follow_hd e x r1 r2 : follow_ok e (x :: r1) = follow_ok e (x :: r2).
Proof. destruct e; reflexivity. Qed.

(* a continuation that stops the caller at q also satisfies what a tighter tree requires *)
Lemma follow_from_stops r q rest :
  stops q rest = true -> q < minprec r -> q <= 8 -> follow_ok r rest = true.
Proof.
  intros Hs Hq H8. destruct r; simpl in *; try reflexivity; eapply stops_mono; eauto; lia.
Qed.

Lemma ploop_stop n p l st : stops p (after st) = true -> ploop (S n) p l st = POK (l, st).
Proof.
  intros H. cbn [ParseExpr.ploop]. unfold stops in H. unfold peek_is.
  rewrite prec_of_doc. unfold peek. fold (after st). rewrite H. reflexivity.
Qed.

(* ---------- "for all sufficiently large fuel" *)
Definition ev {A} (f : nat -> pres A) (v : A) : Prop := exists N, forall n, (N <= n)%nat -> f n = POK v.

Lemma ev_S {A} (f : nat -> pres A) v : ev (fun n => f (S n)) v -> ev f v.
Proof.
  intros [N H]. exists (S N). intros n Hn. destruct n; [lia|]. apply H. lia.
Qed.

Lemma ev_both {A B} (f : nat -> pres A) (g : nat -> pres B) v w :
  ev f v -> ev g w -> exists N, forall n, (N <= n)%nat -> f n = POK v /\ g n = POK w.
Proof.
  intros [N1 H1] [N2 H2]. exists (Nat.max N1 N2). intros n Hn. split; [apply H1 | apply H2]; lia.
Qed.

(* ---------- the key lemma and the round trip, by mutual induction on the tree *)
Definition Kp (e : expr) : Prop :=
  canon e -> forall p pv rest v,
    p < minprec e -> follow_ok e rest = true ->
    ev (fun n => ploop n p e (endst pv (yexpr e) rest)) v ->
    ev (fun n => pexpr n p (St pv (yexpr e ++ rest))) v.

Definition Rp (e : expr) : Prop :=
  canon e -> forall p pv rest,
    p < minprec e -> follow_ok e rest = true -> stops p rest = true ->
    ev (fun n => pexpr n p (St pv (yexpr e ++ rest))) (e, endst pv (yexpr e) rest).

Lemma K_to_R e : Kp e -> Rp e.
Proof.
  intros HK Hc p pv rest Hp Hf Hs. apply HK; auto.
  exists 1%nat. intros n Hn. destruct n; [lia|]. apply ploop_stop.
  rewrite endst_after by apply yexpr_nonempty. exact Hs.
Qed.

(* arguments: pargs entered with cur = lp; pargtail entered with cur = x, the last token so far *)
Definition Ka (a : args) : Prop :=
  canon_args a -> forall pv lp rp rest,
    typ rp = T_RIGHT_PAREN ->
    ev (fun n => pargs n (St pv (lp :: yargs a ++ rp :: rest)))
       (a, St (Some (last (lp :: yargs a) eof_tok)) (rp :: rest)).
Definition Kt (m : argtail) : Prop :=
  canon_tail m -> forall pv x rp rest,
    typ rp = T_RIGHT_PAREN ->
    ev (fun n => pargtail n (St pv (x :: ytail m ++ rp :: rest)))
       (m, endst pv (x :: ytail m) (rp :: rest)).

(* one step of pexpr on a state whose cur token is given *)
Lemma pexpr_S n p st k :
  doc_prefix (typ (cur st)) = Some k ->
  pexpr (S n) p st = (do (lft, st1) <- pprefix fok (pexpr n) k st; ploop n p lft st1).
Proof. intros H. cbn [ParseExpr.pexpr]. rewrite prefix_doc, H. reflexivity. Qed.

(* leaves: the prefix method returns the leaf without moving *)
Lemma K_leaf e t k :
  yexpr e = [t] -> doc_prefix (typ t) = Some k ->
  (forall rec pv rest, pprefix fok rec k (St pv (t :: rest)) = POK (e, St pv (t :: rest))) ->
  forall p pv rest v,
    ev (fun n => ploop n p e (endst pv (yexpr e) rest)) v ->
    ev (fun n => pexpr n p (St pv (yexpr e ++ rest))) v.
Proof.
  intros Hy Hk Hpre p pv rest v [N H]. rewrite Hy in *. simpl in *.
  exists (S N). intros n Hn. destruct n; [lia|].
  rewrite (pexpr_S _ _ _ k) by exact Hk. rewrite Hpre. cbn [pbind]. apply H. lia.
Qed.

Lemma pstring_value pv t rest v :
  string_value t = Some v -> pstring (St pv (t :: rest)) = POK v.
Proof.
  unfold string_value, pstring. change (cur (St pv (t :: rest))) with t. destruct (off t =? 2).
  - destruct (decode_escapes (lit t)); try discriminate. intros H. inversion H. reflexivity.
  - intros H. inversion H. reflexivity.
Qed.

Lemma conv_integer_any b l v : conv_integer false l = Some v -> conv_integer b l = Some v.
Proof.
  unfold conv_integer. destruct (int_split l) as [base digits].
  destruct (parse_int base digits); [auto|].
  destruct (parse_uint base digits); [|discriminate].
  rewrite andb_false_r. discriminate.
Qed.

Lemma binop_le7 (t : ttype) (ex : bool) :
  doc_infix t = Some (if ex then IK_ParseInfixStringConcatExpression true else IK_ParseInfixExpression) ->
  doc_prec t <= 7 /\ t <> T_SEMICOLON.
Proof. destruct t, ex; simpl; intros H; try discriminate; split; try discriminate; vm_compute; discriminate. Qed.

Lemma juxta_prec t :
  doc_infix t = Some (IK_ParseInfixStringConcatExpression false) -> doc_prec t = 7 /\ t <> T_SEMICOLON.
Proof. destruct t; simpl; intros H; try discriminate; split; try discriminate; reflexivity. Qed.

Lemma postfix_prec t :
  doc_postfix t = Some QK_ParsePostfixExpression -> doc_prec t = 9 /\ t <> T_SEMICOLON /\ doc_infix t = None.
Proof. destruct t; simpl; intros H; try discriminate; repeat split; discriminate. Qed.

(* the loop continues through an operator token x in peek position *)
Lemma ploop_S_infix n p l st k :
  typ (peek st) <> T_SEMICOLON -> p < doc_prec (typ (peek st)) ->
  doc_infix (typ (peek st)) = Some k ->
  ploop (S n) p l st = (do (l2, st2) <- pinfix (pexpr n) (pargs n) k l (next st); ploop n p l2 st2).
Proof.
  intros H1 H2 H3. cbn [ParseExpr.ploop]. unfold peek_is.
  apply ttype_eqb_neq in H1. rewrite H1, prec_of_doc. apply N.ltb_lt in H2. rewrite H2.
  cbn [orb negb]. rewrite infix_doc, H3. reflexivity.
Qed.

Lemma ploop_S_postfix n p l st :
  p < 9 -> doc_postfix (typ (peek st)) = Some QK_ParsePostfixExpression ->
  ploop (S n) p l st = ploop n p (EPostfix l (cur (next st))) (next st).
Proof.
  intros H2 H3. destruct (postfix_prec _ H3) as [Hp [Hs Hi]].
  cbn [ParseExpr.ploop]. unfold peek_is.
  apply ttype_eqb_neq in Hs. rewrite Hs, prec_of_doc, Hp.
  apply N.ltb_lt in H2. rewrite H2. cbn [orb negb]. rewrite infix_doc, Hi, postfix_doc, H3. reflexivity.
Qed.

Lemma pargs_S n st :
  pargs (S n) st =
  if peek_is st T_RIGHT_PAREN then POK (ANone, next st)
  else do (e, st1) <- pexpr n P_LOWEST (next st);
       do (more, st2) <- pargtail n st1;
       do st3 <- expect st2 T_RIGHT_PAREN; POK (ASome e more, st3).
Proof. reflexivity. Qed.

Lemma pargtail_S n st :
  pargtail (S n) st =
  if peek_is st T_COMMA then
    do (e, st2) <- pexpr n P_LOWEST (next (next st));
    do (more, st3) <- pargtail n st2; POK (ATCons (cur (next st)) e more, st3)
  else POK (ATNil, st).
Proof. reflexivity. Qed.

Lemma last_app_ne {A} (l1 l2 : list A) d : l2 <> [] -> last (l1 ++ l2) d = last l2 d.
Proof.
  intros H. induction l1 as [|x l1 IH]; [reflexivity|].
  simpl. destruct (l1 ++ l2) eqn:E; [|exact IH].
  apply app_eq_nil in E. destruct E. contradiction.
Qed.

Lemma hd_app_ne (l1 l2 : list token) : l1 <> [] -> hd eof_tok (l1 ++ l2) = hd eof_tok l1.
Proof. destruct l1; [congruence | reflexivity]. Qed.

Lemma endst_form : forall l pv rest, l <> [] ->
  exists pv', endst pv l rest = St pv' (last l eof_tok :: rest).
Proof.
  induction l as [|x l IH]; intros pv rest H; [congruence|].
  destruct l as [|y l']; [exists pv; reflexivity|].
  rewrite endst_cons by discriminate. apply IH. discriminate.
Qed.

Lemma endst_resume : forall l1 pv l2 R pv' x',
  l1 <> [] -> endst pv l1 (l2 ++ R) = St pv' (x' :: l2 ++ R) ->
  endst pv (l1 ++ l2) R = endst pv' (x' :: l2) R.
Proof.
  induction l1 as [|a l1 IH]; intros pv l2 R pv' x' H E; [congruence|].
  destruct l1 as [|b l1'].
  - simpl in E. inversion E; subst. reflexivity.
  - rewrite endst_cons in E by discriminate.
    change ((a :: b :: l1') ++ l2) with (a :: ((b :: l1') ++ l2)).
    rewrite endst_cons by (simpl; discriminate). apply IH; [discriminate | exact E].
Qed.

Lemma follow_left_prec l x rs p :
  follow_ok l (x :: rs) = true -> typ x <> T_SEMICOLON -> p < doc_prec (typ x) -> doc_prec (typ x) <= 9 ->
  p < minprec l.
Proof.
  intros Hf Hs Hp H9. apply ttype_eqb_neq in Hs.
  destruct l; simpl in *; try lia; unfold stops in Hf; simpl in Hf; rewrite Hs in Hf; simpl in Hf;
    apply negb_true_iff in Hf; apply N.ltb_ge in Hf; lia.
Qed.

Lemma canon_hd_prefix e : canon e -> exists k, doc_prefix (typ (hd eof_tok (yexpr e))) = Some k.
Proof.
  induction e; cbn [canon yexpr hd]; intros Hc.
  - eexists; exact Hc.
  - eexists; exact Hc.
  - destruct Hc as [Hc _]. rewrite Hc. eexists; reflexivity.
  - destruct Hc as [Hc _]. rewrite Hc. eexists; reflexivity.
  - destruct Hc as [Hc _]. rewrite Hc. eexists; reflexivity.
  - destruct Hc as [Hc _]. rewrite Hc. eexists; reflexivity.
  - destruct Hc as [Hc _]. rewrite Hc. eexists; reflexivity.
  - destruct Hc as [Hc _]. eexists; exact Hc.
  - destruct Hc as [Hc _]. rewrite Hc. eexists; reflexivity.
  - destruct Hc as [Hc _]. rewrite Hc. eexists; reflexivity.
  - destruct Hc as [_ [Hl _]]. rewrite hd_app_ne by apply yexpr_nonempty. auto.
  - destruct Hc as [Hl _]. rewrite hd_app_ne by apply yexpr_nonempty. auto.
  - destruct Hc as [_ [Hl _]]. rewrite hd_app_ne by apply yexpr_nonempty. auto.
  - destruct Hc as [Hc _]. eexists; exact Hc.
Qed.

Scheme expr_mut := Induction for expr Sort Prop
  with args_mut := Induction for args Sort Prop
  with argtail_mut := Induction for argtail Sort Prop.
Combined Scheme expr_args_ind from expr_mut, args_mut, argtail_mut.

Ltac ev_intro N := 
  match goal with |- ev _ _ => exists N end.

(* combine "eventually" facts and step the fuel once *)
Ltac use_ev H n := let X := fresh "X" in pose proof (H n ltac:(lia)) as X.

Lemma K_all : (forall e, Kp e) /\ (forall a, Ka a) /\ (forall m, Kt m).
Proof.
  apply expr_args_ind.
  - (* EIdent *) intros t Hc p pv rest v _ _. apply (K_leaf _ t PK_ParseIdent); auto.
  - (* EBool *) intros t Hc p pv rest v _ _. apply (K_leaf _ t PK_ParseBoolean); auto.
  - (* EInt *) intros t v0 [Ht Hv] p pv rest v _ _. apply (K_leaf _ t PK_ParseInteger); auto.
    + rewrite Ht. reflexivity.
    + intros rec pv0 rest0. cbn [pprefix]. unfold pinteger, pint.
      change (cur (St pv0 (t :: rest0))) with t.
      rewrite (conv_integer_any _ _ _ Hv). reflexivity.
  - (* EFloat *) intros t [Ht Hv] p pv rest v _ _. apply (K_leaf _ t PK_ParseFloat); auto.
    + rewrite Ht. reflexivity.
    + intros rec pv0 rest0. cbn [pprefix]. unfold pfloat.
      change (cur (St pv0 (t :: rest0))) with t. rewrite Hv. reflexivity.
  - (* ERTime *) intros t [Ht [v0 [Hv Hf]]] p pv rest v _ _. apply (K_leaf _ t PK_ParseRTime); auto.
    + rewrite Ht. reflexivity.
    + intros rec pv0 rest0. cbn [pprefix]. unfold prtime.
      change (cur (St pv0 (t :: rest0))) with t. rewrite Hv, Hf. reflexivity.
  - (* EString *) intros t v0 [Ht Hv] p pv rest v _ _. apply (K_leaf _ t PK_ParseString); auto.
    + rewrite Ht. reflexivity.
    + intros rec pv0 rest0. cbn [pprefix]. rewrite (pstring_value _ _ _ _ Hv). reflexivity.
  - (* ELong *) intros o s c v0 [Ho [Hs [Hcl [Hv Heq]]]] p pv rest v _ _ [N Hl].
    exists (S N). intros n Hn. destruct n; [lia|].
    cbn [yexpr app]. rewrite (pexpr_S _ _ _ PK_ParseLongString) by (change (cur _) with o; rewrite Ho; reflexivity).
    cbn [pprefix]. unfold plong, peek_is.
    change (peek (St pv (o :: s :: c :: rest))) with s.
    change (next (St pv (o :: s :: c :: rest))) with (St (Some o) (s :: c :: rest)).
    rewrite Hs, ttype_eqb_refl. cbn [negb].
    rewrite (pstring_value _ _ _ _ Hv).
    change (peek (St (Some o) (s :: c :: rest))) with c.
    rewrite Hcl, ttype_eqb_refl. cbn [negb].
    change (cur (St pv (o :: s :: c :: rest))) with o. rewrite Heq. cbn [negb pbind].
    apply Hl. lia.
  - (* EPrefix *) intros op r IHr [Hop [Cr Hr]] p pv rest v _ Hf Hl.
    simpl in Hf.
    assert (Rr := K_to_R r IHr Cr 8 (Some op) rest Hr
                    (follow_from_stops r 8 rest Hf Hr ltac:(lia)) Hf).
    destruct (ev_both _ _ _ _ Rr Hl) as [N HN].
    exists (S N). intros n Hn. destruct n; [lia|]. destruct (HN n ltac:(lia)) as [X1 X2].
    cbn [yexpr]. change ((op :: yexpr r) ++ rest) with (op :: yexpr r ++ rest).
    rewrite (pexpr_S _ _ _ PK_ParsePrefixExpression) by exact Hop.
    cbn [pprefix]. rewrite P_PREFIX_doc.
    change (next (St pv (op :: yexpr r ++ rest))) with (St (Some op) (yexpr r ++ rest)).
    rewrite X1. cbn [pbind]. change (cur (St pv (op :: yexpr r ++ rest))) with op.
    cbn [yexpr] in X2. rewrite endst_cons in X2 by apply yexpr_nonempty. exact X2.
  - (* EGroup *) intros lp r IHr rp [Hlp [Hrp [Cr Hr]]] p pv rest v _ _ Hl.
    assert (Hc1 : doc_prec (typ rp) = 1) by (rewrite Hrp; reflexivity).
    assert (Rr := K_to_R r IHr Cr 1 (Some lp) (rp :: rest) Hr
                    (follow_closer r rp rest Hc1) (stops_closer 1 rp rest ltac:(lia) Hc1)).
    destruct (ev_both _ _ _ _ Rr Hl) as [N HN].
    exists (S N). intros n Hn. destruct n; [lia|]. destruct (HN n ltac:(lia)) as [X1 X2].
    cbn [yexpr]. change ((lp :: yexpr r ++ [rp]) ++ rest) with (lp :: (yexpr r ++ [rp]) ++ rest).
    rewrite <- app_assoc. cbn [app].
    rewrite (pexpr_S _ _ _ PK_ParseGroupedExpression) by (change (cur _) with lp; rewrite Hlp; reflexivity).
    cbn [pprefix]. rewrite P_LOWEST_doc.
    change (next (St pv (lp :: yexpr r ++ rp :: rest))) with (St (Some lp) (yexpr r ++ rp :: rest)).
    rewrite X1. cbn [pbind]. unfold expect, expect_peek, peek_is.
    rewrite endst_peek by apply yexpr_nonempty. rewrite Hrp, ttype_eqb_refl. cbn [pbind].
    change (cur (St pv (lp :: yexpr r ++ rp :: rest))) with lp.
    rewrite endst_next by apply yexpr_nonempty.
    change (cur (St (Some (last (yexpr r) eof_tok)) (rp :: rest))) with rp.
    cbn [yexpr] in X2. rewrite endst_cons in X2 by (destruct (yexpr r); discriminate).
    rewrite endst_snoc, endst_next in X2 by apply yexpr_nonempty. exact X2.
  - (* EIfExp *)
    intros kw lp c IHc c1 t IHt c2 e IHe rp [Hkw [Hlp [Hc1 [Hc2 [Hrp [[Cc Mc] [[Ct Mt] [Ce Me]]]]]]]] p pv rest v _ _ Hl.
    assert (D1 : doc_prec (typ c1) = 1) by (rewrite Hc1; reflexivity).
    assert (D2 : doc_prec (typ c2) = 1) by (rewrite Hc2; reflexivity).
    assert (D3 : doc_prec (typ rp) = 1) by (rewrite Hrp; reflexivity).
    set (r3 := rp :: rest). set (r2 := c2 :: yexpr e ++ r3). set (r1 := c1 :: yexpr t ++ r2).
    assert (R1 := K_to_R c IHc Cc 1 (Some lp) r1 Mc (follow_closer c c1 _ D1) (stops_closer 1 c1 _ ltac:(lia) D1)).
    assert (R2 := K_to_R t IHt Ct 1 (Some c1) r2 Mt (follow_closer t c2 _ D2) (stops_closer 1 c2 _ ltac:(lia) D2)).
    assert (R3 := K_to_R e IHe Ce 1 (Some c2) r3 Me (follow_closer e rp _ D3) (stops_closer 1 rp _ ltac:(lia) D3)).
    destruct (ev_both _ _ _ _ R1 R2) as [N1 HN1]. destruct (ev_both _ _ _ _ R3 Hl) as [N2 HN2].
    exists (S (Nat.max N1 N2)). intros n Hn. destruct n; [lia|].
    destruct (HN1 n ltac:(lia)) as [X1 X2]. destruct (HN2 n ltac:(lia)) as [X3 X4].
    assert (Ey : yexpr (EIfExp kw lp c c1 t c2 e rp) ++ rest = kw :: lp :: yexpr c ++ r1).
    { cbn [yexpr]. subst r1 r2 r3. cbn [app]. repeat (rewrite <- app_assoc; cbn [app]). reflexivity. }
    rewrite Ey.
    rewrite (pexpr_S _ _ _ PK_ParseIfExpression) by (change (cur _) with kw; rewrite Hkw; reflexivity).
    cbn [pprefix]. rewrite P_LOWEST_doc. unfold expect at 1, expect_peek, peek_is.
    change (peek (St pv (kw :: lp :: yexpr c ++ r1))) with lp. rewrite Hlp, ttype_eqb_refl. cbn [pbind].
    change (next (next (St pv (kw :: lp :: yexpr c ++ r1)))) with (St (Some lp) (yexpr c ++ r1)).
    rewrite X1. cbn [pbind]. unfold expect at 1, expect_peek, peek_is.
    unfold r1 at 1. rewrite endst_peek by apply yexpr_nonempty. rewrite Hc1, ttype_eqb_refl. cbn [pbind].
    unfold r1 at 1. rewrite endst_next by apply yexpr_nonempty.
    change (next (St (Some (last (yexpr c) eof_tok)) (c1 :: yexpr t ++ r2))) with (St (Some c1) (yexpr t ++ r2)).
    rewrite X2. cbn [pbind]. unfold expect at 1, expect_peek, peek_is.
    unfold r2 at 1. rewrite endst_peek by apply yexpr_nonempty. rewrite Hc2, ttype_eqb_refl. cbn [pbind].
    unfold r2 at 1. rewrite endst_next by apply yexpr_nonempty.
    change (next (St (Some (last (yexpr t) eof_tok)) (c2 :: yexpr e ++ r3))) with (St (Some c2) (yexpr e ++ r3)).
    rewrite X3. cbn [pbind]. unfold expect, expect_peek, peek_is.
    unfold r3 at 1. rewrite endst_peek by apply yexpr_nonempty. rewrite Hrp, ttype_eqb_refl. cbn [pbind].
    unfold r1, r2, r3. rewrite ?endst_next by apply yexpr_nonempty.
    cbn [cur next toks hd tl prev].
    assert (Ee : endst pv (yexpr (EIfExp kw lp c c1 t c2 e rp)) rest = St (Some (last (yexpr e) eof_tok)) (rp :: rest)).
    { cbn [yexpr].
      replace (kw :: lp :: yexpr c ++ c1 :: yexpr t ++ c2 :: yexpr e ++ [rp])
        with ((kw :: lp :: yexpr c ++ c1 :: yexpr t ++ c2 :: yexpr e) ++ [rp])
        by (cbn [app]; repeat (rewrite <- app_assoc; cbn [app]); reflexivity).
      rewrite endst_snoc by discriminate. rewrite endst_next by discriminate. f_equal. f_equal.
      change (kw :: lp :: yexpr c ++ c1 :: yexpr t ++ c2 :: yexpr e)
        with ((kw :: lp :: yexpr c) ++ (c1 :: yexpr t) ++ c2 :: yexpr e).
      rewrite !last_app_ne by (try discriminate; destruct (yexpr t); discriminate).
      change (c2 :: yexpr e) with ([c2] ++ yexpr e). apply last_app_ne. apply yexpr_nonempty. }
    rewrite Ee in X4. exact X4.
  - (* EInfix *)
    intros l IHl op ex r IHr [Hop [Cl [Cr [Fl Hr]]]] p pv rest v Hp Hf Hl.
    simpl in Hp, Hf. set (q := doc_prec (typ op)) in *.
    destruct (binop_le7 _ _ Hop) as [Hq7 Hns].
    assert (Rr := K_to_R r IHr Cr q (Some op) rest Hr
                    (follow_from_stops r q rest Hf Hr ltac:(lia)) Hf).
    cbn [yexpr]. rewrite <- app_assoc. cbn [app].
    apply (IHl Cl p pv (op :: yexpr r ++ rest) v).
    + eapply follow_left_prec; [exact Fl | exact Hns | exact Hp | fold q; lia].
    + rewrite (follow_hd l op _ []). exact Fl.
    + destruct (ev_both _ _ _ _ Rr Hl) as [N HN].
      exists (S N). intros n Hn. destruct n; [lia|]. destruct (HN n ltac:(lia)) as [X1 X2].
      pose proof (yexpr_nonempty l) as Hnl.
      rewrite (ploop_S_infix n p l _ (if ex then IK_ParseInfixStringConcatExpression true else IK_ParseInfixExpression)); rewrite ?endst_peek by exact Hnl; [| exact Hns | exact Hp | exact Hop].
      rewrite endst_next by exact Hnl.
      assert (E2 : endst pv (yexpr (EInfix l op ex r)) rest = endst (Some op) (yexpr r) rest).
      { cbn [yexpr]. rewrite endst_app by (try discriminate; exact Hnl).
        apply endst_cons. apply yexpr_nonempty. }
      rewrite E2 in X2.
      destruct ex; cbn [pinfix];
        change (cur (St (Some (last (yexpr l) eof_tok)) (op :: yexpr r ++ rest))) with op;
        rewrite prec_of_doc; fold q;
        change (next (St (Some (last (yexpr l) eof_tok)) (op :: yexpr r ++ rest))) with (St (Some op) (yexpr r ++ rest));
        rewrite X1; cbn [pbind]; exact X2.
  - (* EConcat *)
    intros l IHl r IHr [Cl [Cr [Fl [Hr Hj]]]] p pv rest v Hp Hf Hl.
    simpl in Hp, Hf.
    pose proof (yexpr_nonempty l) as Hnl. pose proof (yexpr_nonempty r) as Hnr.
    destruct (yexpr r) as [|x yr] eqn:Eyr; [congruence|]. cbn [hd] in Hj.
    destruct (juxta_prec _ Hj) as [Hx7 Hxs].
    assert (Rr : ev (fun n => pexpr n 7 (St (Some (last (yexpr l) eof_tok)) (yexpr r ++ rest)))
                    (r, endst (Some (last (yexpr l) eof_tok)) (yexpr r) rest)).
    { apply (K_to_R r IHr Cr 7 _ rest Hr (follow_from_stops r 7 rest Hf Hr ltac:(lia)) Hf). }
    cbn [yexpr]. rewrite Eyr. rewrite <- app_assoc.
    apply (IHl Cl p pv ((x :: yr) ++ rest) v).
    + eapply follow_left_prec; [exact Fl | exact Hxs | rewrite Hx7; exact Hp | rewrite Hx7; lia].
    + cbn [app]. rewrite (follow_hd l x _ yr). exact Fl.
    + rewrite Eyr in Rr. destruct (ev_both _ _ _ _ Rr Hl) as [N HN].
      exists (S N). intros n Hn. destruct n; [lia|]. destruct (HN n ltac:(lia)) as [X1 X2].
      cbn [app].
      rewrite (ploop_S_infix n p l _ (IK_ParseInfixStringConcatExpression false)); rewrite ?endst_peek by exact Hnl; [| exact Hxs | rewrite Hx7; exact Hp | exact Hj].
      rewrite endst_next by exact Hnl. cbn [pinfix].
      change (cur (St (Some (last (yexpr l) eof_tok)) (x :: yr ++ rest))) with x.
      rewrite prec_of_doc, Hx7.
      change (x :: yr ++ rest) with ((x :: yr) ++ rest). rewrite X1. cbn [pbind].
      cbn [yexpr] in X2. rewrite Eyr in X2. rewrite endst_app in X2 by (try discriminate; exact Hnl). exact X2.
  - (* EPostfix *)
    intros l IHl op [Hop [Cl Fl]] p pv rest v Hp _ Hl. simpl in Hp.
    destruct (postfix_prec _ Hop) as [H9 [Hns Hni]].
    pose proof (yexpr_nonempty l) as Hnl.
    cbn [yexpr]. rewrite <- app_assoc. cbn [app].
    apply (IHl Cl p pv (op :: rest) v).
    + eapply follow_left_prec; [exact Fl | exact Hns | rewrite H9; exact Hp | rewrite H9; lia].
    + rewrite (follow_hd l op _ []). exact Fl.
    + destruct Hl as [N Hl]. exists (S N). intros n Hn. destruct n; [lia|].
      rewrite ploop_S_postfix; rewrite ?endst_peek by exact Hnl; [| exact Hp | exact Hop].
      rewrite endst_next by exact Hnl.
      change (cur (St (Some (last (yexpr l) eof_tok)) (op :: rest))) with op.
      specialize (Hl n ltac:(lia)). cbn [yexpr] in Hl.
      rewrite endst_snoc, endst_next in Hl by exact Hnl. exact Hl.
  - (* ECall *)
    intros f lp a IHa rp [Hf [Hlp [Hrp Ca]]] p pv rest v Hp _ Hl. simpl in Hp.
    assert (Ra := IHa Ca (Some f) lp rp rest Hrp).
    destruct (ev_both _ _ _ _ Ra Hl) as [N HN].
    exists (S (S N)). intros n Hn. destruct n; [lia|]. destruct n; [lia|].
    destruct (HN n ltac:(lia)) as [X1 X2].
    assert (Ey : yexpr (ECall f lp a rp) ++ rest = f :: lp :: yargs a ++ rp :: rest).
    { cbn [yexpr app]. rewrite <- app_assoc. reflexivity. }
    rewrite Ey. rewrite (pexpr_S _ _ _ PK_ParseIdent) by exact Hf.
    cbn [pprefix pbind]. change (cur (St pv (f :: lp :: yargs a ++ rp :: rest))) with f.
    rewrite (ploop_S_infix n p _ _ IK_ParseFunctionCallExpression);
      change (peek (St pv (f :: lp :: yargs a ++ rp :: rest))) with lp; rewrite ?Hlp;
      [| discriminate | exact Hp | reflexivity].
    cbn [pinfix].
    change (next (St pv (f :: lp :: yargs a ++ rp :: rest))) with (St (Some f) (lp :: yargs a ++ rp :: rest)).
    rewrite X1. cbn [pbind].
    change (cur (St (Some f) (lp :: yargs a ++ rp :: rest))) with lp.
    change (cur (St (Some (last (lp :: yargs a) eof_tok)) (rp :: rest))) with rp.
    assert (Ee : endst pv (yexpr (ECall f lp a rp)) rest = St (Some (last (lp :: yargs a) eof_tok)) (rp :: rest)).
    { cbn [yexpr]. rewrite endst_cons by discriminate.
      change (lp :: yargs a ++ [rp]) with ((lp :: yargs a) ++ [rp]).
      rewrite endst_snoc, endst_next by discriminate. reflexivity. }
    rewrite Ee in X2. exact X2.
  - (* ANone *)
    intros _ pv lp rp rest Hrp. exists 1%nat. intros n Hn. destruct n; [lia|].
    rewrite pargs_S. cbn [yargs app]. unfold peek_is.
    change (peek (St pv (lp :: rp :: rest))) with rp. rewrite Hrp, ttype_eqb_refl. reflexivity.
  - (* ASome *)
    intros e IHe more IHm [[Ce Me] Cm] pv lp rp rest Hrp.
    pose proof (yexpr_nonempty e) as Hne.
    set (R := rp :: rest). set (rest' := ytail more ++ R).
    assert (Hhd : exists x r0, rest' = x :: r0 /\ doc_prec (typ x) = 1).
    { subst rest' R. destruct more as [|c e' m']; cbn [ytail app].
      - exists rp, rest. split; [reflexivity | rewrite Hrp; reflexivity].
      - destruct Cm as [Hc _]. eexists c, _. split; [reflexivity | rewrite Hc; reflexivity]. }
    destruct Hhd as [x0 [r0 [Er D0]]].
    assert (Re : ev (fun n => pexpr n 1 (St (Some lp) (yexpr e ++ rest'))) (e, endst (Some lp) (yexpr e) rest')).
    { apply (K_to_R e IHe Ce 1 (Some lp) rest' Me); rewrite Er; [apply follow_closer | apply stops_closer]; auto; lia. }
    destruct (endst_form (yexpr e) (Some lp) rest' Hne) as [pv' Ef].
    assert (Rm := IHm Cm pv' (last (yexpr e) eof_tok) rp rest Hrp). fold R in Rm. fold rest' in Rm.
    destruct (ev_both _ _ _ _ Re Rm) as [N HN].
    exists (S N). intros n Hn. destruct n; [lia|]. destruct (HN n ltac:(lia)) as [X1 X2].
    assert (Ey : lp :: yargs (ASome e more) ++ R = lp :: yexpr e ++ rest').
    { cbn [yargs]. subst rest' R. rewrite <- app_assoc. reflexivity. }
    rewrite Ey.
    rewrite pargs_S. unfold peek_is.
    destruct (canon_hd_prefix e Ce) as [k Hk].
    assert (Hnr : ttype_eqb (typ (peek (St pv (lp :: yexpr e ++ rest')))) T_RIGHT_PAREN = false).
    { change (peek (St pv (lp :: yexpr e ++ rest'))) with (hd eof_tok (yexpr e ++ rest')).
      rewrite hd_app_ne by exact Hne. apply ttype_eqb_neq. intros E. rewrite E in Hk. discriminate. }
    rewrite Hnr. rewrite P_LOWEST_doc.
    change (next (St pv (lp :: yexpr e ++ rest'))) with (St (Some lp) (yexpr e ++ rest')).
    rewrite X1. cbn [pbind]. rewrite Ef, X2. cbn [pbind].
    unfold expect, expect_peek, peek_is. unfold R at 1.
    rewrite endst_peek by discriminate. rewrite Hrp, ttype_eqb_refl. cbn [pbind].
    unfold R. rewrite endst_next by discriminate. f_equal. f_equal. f_equal. f_equal.
    cbn [yargs].
    change (lp :: yexpr e ++ ytail more) with ((lp :: yexpr e) ++ ytail more).
    destruct (ytail more) as [|y0 yt] eqn:Et.
    + rewrite app_nil_r. cbn [last]. destruct (yexpr e); [congruence | reflexivity].
    + rewrite last_app_ne by discriminate.
      change (last (yexpr e) eof_tok :: y0 :: yt) with ([last (yexpr e) eof_tok] ++ y0 :: yt).
      rewrite last_app_ne by discriminate. reflexivity.
  - (* ATNil *)
    intros _ pv x rp rest Hrp. exists 1%nat. intros n Hn. destruct n; [lia|].
    rewrite pargtail_S. cbn [ytail app]. unfold peek_is.
    change (peek (St pv (x :: rp :: rest))) with rp. rewrite Hrp. reflexivity.
  - (* ATCons *)
    intros c e IHe more IHm [Hc [[Ce Me] Cm]] pv x rp rest Hrp.
    pose proof (yexpr_nonempty e) as Hne.
    set (R := rp :: rest). set (rest' := ytail more ++ R).
    assert (Hhd : exists x0 r0, rest' = x0 :: r0 /\ doc_prec (typ x0) = 1).
    { subst rest' R. destruct more as [|c' e' m']; cbn [ytail app].
      - exists rp, rest. split; [reflexivity | rewrite Hrp; reflexivity].
      - destruct Cm as [Hc' _]. eexists c', _. split; [reflexivity | rewrite Hc'; reflexivity]. }
    destruct Hhd as [x0 [r0 [Er D0]]].
    assert (Re : ev (fun n => pexpr n 1 (St (Some c) (yexpr e ++ rest'))) (e, endst (Some c) (yexpr e) rest')).
    { apply (K_to_R e IHe Ce 1 (Some c) rest' Me); rewrite Er; [apply follow_closer | apply stops_closer]; auto; lia. }
    destruct (endst_form (yexpr e) (Some c) rest' Hne) as [pv' Ef].
    assert (Rm := IHm Cm pv' (last (yexpr e) eof_tok) rp rest Hrp). fold R in Rm. fold rest' in Rm.
    destruct (ev_both _ _ _ _ Re Rm) as [N HN].
    exists (S N). intros n Hn. destruct n; [lia|]. destruct (HN n ltac:(lia)) as [X1 X2].
    assert (Ey : x :: ytail (ATCons c e more) ++ R = x :: c :: yexpr e ++ rest').
    { cbn [ytail]. subst rest' R. cbn [app]. rewrite <- app_assoc. reflexivity. }
    rewrite Ey.
    rewrite pargtail_S. unfold peek_is.
    change (peek (St pv (x :: c :: yexpr e ++ rest'))) with c. rewrite Hc, ttype_eqb_refl.
    rewrite P_LOWEST_doc.
    change (next (next (St pv (x :: c :: yexpr e ++ rest')))) with (St (Some c) (yexpr e ++ rest')).
    rewrite X1. cbn [pbind]. rewrite Ef, X2. cbn [pbind].
    change (cur (next (St pv (x :: c :: yexpr e ++ rest')))) with c.
    f_equal. f_equal.
    (* the end states agree *)
    cbn [ytail].
    change (x :: c :: yexpr e ++ ytail more) with ((x :: c :: yexpr e) ++ ytail more).
    symmetry. apply endst_resume; [discriminate|].
    rewrite endst_cons by discriminate. rewrite endst_cons by exact Hne.
    fold R. fold rest'. exact Ef.
Qed.

End P.
