(* The shape of the lexer's output around long strings: an OPEN_LONG_STRING token is always
   followed at once by a STRING token whose Offset is not 2 (it is 2 + 2 * len(delimiter + quote)).
   This is the `long_ok` fact the parser model (Proofs/ParseExprTotal.v) needs for crash freedom. *)
From Coq Require Import List NArith Bool Lia Arith.
From Falco Require Import Base.Res Base.Bytes Base.Utf8 Gen.Tokens Model.Lex Model.LexSpec
  Proofs.LexTables Proofs.LexProgress Proofs.LexToken Proofs.LexView Proofs.PumpTotal Proofs.LexLocated.
Import ListNotations.
Local Open Scope N_scope.

Definition is_open (t : token) : bool := str_eqb (ttype t) T_OPEN_LONG_STRING.
Definition strok (a : token) : Prop := str_eqb (ttype a) T_STRING = true /\ toff a <> 2.

(* OPEN_LONG_STRING -> the next token exists?, is a STRING and has Offset <> 2 *)
Fixpoint raw_ok (ts : list token) : Prop :=
  match ts with
  | o :: ((s :: _) as rest) => (is_open o = true -> strok s) /\ raw_ok rest
  | _ => True
  end.

Definition nopen (r : res (token * lexer)) : Prop :=
  match r with OK (t, _) => is_open t = false | _ => True end.

Lemma finish_nopen t st : is_open t = false -> nopen (finish t st).
Proof. intros H. exact H. Qed.

Lemma nopen_bind {A} (r : res A) (k : A -> res (token * lexer)) :
  (forall x, nopen (k x)) -> nopen (bind r k).
Proof. intros H. destruct r; cbn; auto. Qed.

Definition no (ty : str) : Prop := str_eqb ty T_OPEN_LONG_STRING = false.

Lemma single_nopen st ln i ty : no ty -> nopen (single st ln i ty).
Proof. intros H. exact H. Qed.

Lemma op_eq_nopen st ln i a b : no a -> no b -> nopen (op_eq st ln i a b).
Proof. intros Ha Hb. unfold op_eq. destruct (peek_char st =? 61); assumption. Qed.

Lemma no_illegal : no T_ILLEGAL. Proof. reflexivity. Qed.

Lemma op_dbl_nopen st ln i a b c : no a -> no b -> no c -> nopen (op_dbl st ln i a b c).
Proof.
  intros Ha Hb Hc. unfold op_dbl.
  destruct (peek_char st =? ch st); [destruct (peek_char (read_char st) =? 61); assumption|].
  destruct (peek_char st =? 61); [assumption|exact no_illegal].
Qed.

Lemma op_shift_nopen st ln i a b c : no a -> no b -> no c -> nopen (op_shift st ln i a b c).
Proof.
  intros Ha Hb Hc. unfold op_shift.
  destruct (peek_char st =? ch st); [destruct (peek_char (read_char st) =? 61); [assumption|exact no_illegal]|].
  destruct (peek_char st =? 61); assumption.
Qed.

Lemma lex_bang_nopen st ln i : nopen (lex_bang st ln i).
Proof.
  unfold lex_bang. destruct (peek_char st =? 61); [reflexivity|].
  destruct (peek_char st =? 126); reflexivity.
Qed.

Lemma lex_slash_nopen n st ln i : nopen (lex_slash n st ln i).
Proof.
  unfold lex_slash. destruct (peek_char st =? 61); [reflexivity|].
  destruct (peek_char st =? 47); [apply nopen_bind; intros [l s]; reflexivity|].
  destruct (peek_char st =? 42); [apply nopen_bind; intros [l s]; reflexivity|reflexivity].
Qed.

Lemma plain_no ty : plain_b ty = true -> no ty.
Proof.
  unfold plain_b, no. intros H. repeat (apply andb_true_iff in H as [H ?]).
  apply negb_true_iff. assumption.
Qed.

Lemma lex_ident_nopen n st ln i : nopen (lex_ident n st ln i).
Proof.
  unfold lex_ident. apply nopen_bind. intros [l0 s1].
  destruct (str_eqb l0 Lit.L_default); [reflexivity|].
  apply nopen_bind. intros [m s2].
  destruct (str_eqb (l0 ++ m) L_rol && (ch s2 =? 61)); [reflexivity|].
  destruct (str_eqb (l0 ++ m) L_ror && (ch s2 =? 61)); [reflexivity|].
  cbn. apply plain_no, lookup_plain.
Qed.

Lemma lex_number_nopen n st ln i : nopen (lex_number n st ln i).
Proof.
  unfold lex_number. apply nopen_bind. intros [[[num isf] rt] s1].
  destruct (rt && (ch s1 =? 109)); [destruct (peek_char s1 =? 115); reflexivity|].
  destruct (rt && _); [reflexivity|]. destruct isf; reflexivity.
Qed.

Lemma lex_default_nopen n st ln i : nopen (lex_default n st ln i).
Proof.
  unfold lex_default. destruct (_ && _); [reflexivity|].
  destruct (is_letter (ch st)); [apply lex_ident_nopen|].
  destruct (is_digit (ch st)); [apply lex_number_nopen|reflexivity].
Qed.

Lemma is_eof_not_open t : is_eof t = true -> is_open t = false.
Proof. unfold is_eof, is_open. intros H. apply str_eqb_eq in H. rewrite H. reflexivity. Qed.

Lemma lex_eof_nopen st ln i : wf st -> nopen (lex_eof st ln i).
Proof.
  intros [_ W]. unfold lex_eof. destruct (iseof st) eqn:E; [|reflexivity].
  cbn. apply is_eof_not_open. apply (W eq_refl).
Qed.

Lemma lex_char_nopen n st : wf st -> ch st <> 123 -> nopen (lex_char n st).
Proof.
  intros W H123. unfold lex_char.
  branch E. { apply op_eq_nopen; reflexivity. }
  clear E. branch E. { apply op_eq_nopen; reflexivity. }
  clear E. branch E. { congruence. }
  clear E. branch E. { reflexivity. }
  clear E. branch E. { reflexivity. }
  clear E. branch E. { reflexivity. }
  clear E. branch E. { reflexivity. }
  clear E. branch E. { reflexivity. }
  clear E. branch E. { apply nopen_bind. intros [l s]. reflexivity. }
  clear E. branch E. { reflexivity. }
  clear E. branch E. { reflexivity. }
  clear E. branch E. { reflexivity. }
  clear E. branch E. { apply lex_slash_nopen. }
  clear E. branch E. { apply nopen_bind. intros [l s]. reflexivity. }
  clear E. branch E. { apply op_dbl_nopen; reflexivity. }
  clear E. branch E. { apply op_dbl_nopen; reflexivity. }
  clear E. branch E. { apply op_eq_nopen; reflexivity. }
  clear E. branch E. { apply op_eq_nopen; reflexivity. }
  clear E. branch E. { apply op_shift_nopen; reflexivity. }
  clear E. branch E. { apply op_shift_nopen; reflexivity. }
  clear E. branch E. { apply op_eq_nopen; reflexivity. }
  clear E. branch E. { reflexivity. }
  clear E. branch E. { reflexivity. }
  clear E. branch E. { apply lex_bang_nopen. }
  clear E. branch E. { apply op_eq_nopen; reflexivity. }
  clear E. branch E. { apply lex_eof_nopen. exact W. }
  clear E. branch E. { reflexivity. }
  apply lex_default_nopen.
Qed.

(* the left brace: either not a long string (nothing queued) or OPEN with STRING, CLOSE queued *)
Definition qtok (a : token) : Prop := typed a /\ is_open a = false.

Lemma lex_brace_shape n st ln i t st' :
  peeks st = [] -> lex_brace n st ln i = OK (t, st') ->
  (is_open t = false /\ peeks st' = []) \/
  (exists a b, peeks st' = [a; b] /\ strok a /\ is_open a = false /\ is_open b = false).
Proof.
  intros Hpk F. unfold lex_brace in F.
  assert (Plain : forall c, finish (mkTok T_LEFT_BRACE [c] ln i) st = OK (t, st') ->
                  is_open t = false /\ peeks st' = []).
  { intros c F'. pose proof (finish_peeks _ _ _ _ F') as Pk. rewrite Hpk in Pk.
    unfold finish in F'. injection F' as <- _. split; [reflexivity|exact Pk]. }
  destruct (peek_until st) as [d|] eqn:P; [|left; eapply Plain; exact F].
  destruct (last_byte d) as [q|] eqn:LB; [|discriminate].
  assert (Hd : d <> []) by (intros ->; discriminate).
  destruct (negb (b2n q =? 34)); [left; eapply Plain; exact F|].
  set (st1 := skip_bytes (length d) st) in *.
  destruct (read_bracket_string (removelast d) n st1) as [[body st2]| | |] eqn:R; cbn [bind] in F; try discriminate.
  right. unfold read_bracket_string in R.
  pose proof (read_bracket_loop_peeks _ _ _ _ _ R) as Pk2.
  rewrite (proj1 (read_char_aux _)) in Pk2. unfold st1, skip_bytes in Pk2. cbn [peeks] in Pk2.
  rewrite Hpk in Pk2.
  pose proof (finish_peeks _ _ _ _ F) as Pk3.
  unfold push_tokens, set_peeks in Pk3. cbn [peeks] in Pk3. rewrite Pk2 in Pk3. cbn [app] in Pk3.
  eexists _, _. split; [exact Pk3|]. split; [|split; reflexivity].
  split; [reflexivity|]. cbn [toff]. destruct d; [congruence|]. cbn [length]. lia.
Qed.

(* one NextToken: an OPEN token leaves its STRING at the head of the queue *)
Definition qinv (st : lexer) : Prop := Forall (fun a => is_open a = false) (peeks st).

Lemma next_token_open n st t st' :
  (nu st < n)%nat -> wf st -> qinv st -> next_token n st = OK (t, st') ->
  qinv st' /\ (is_open t = true -> exists a r, peeks st' = a :: r /\ strok a) /\
  (forall a r, peeks st = a :: r -> t = a).
Proof.
  intros Hn W Q F. unfold next_token in F. destruct (peeks st) as [|a ps] eqn:P.
  - destruct (skip_whitespace_ok n st Hn) as (st1 & R & L). rewrite R in F. cbn [bind] in F.
    destruct L as [Ln (A1 & A2 & A3)].
    assert (W1 : wf st1). { destruct W as [W1 W2]. unfold wf. rewrite A1, A2, A3. auto. }
    assert (P1 : peeks st1 = []) by congruence.
    split; [|split; [|discriminate]].
    + destruct (lex_char_ok n st1 ltac:(lia) P1 W1) as (t0 & st0 & F0 & K).
      rewrite F in F0. injection F0 as <- <-. unfold qinv.
      destruct K as [(_ & _ & _ & _ & Pk & _)|(_ & _ & _ & _ & _ & K)].
      * rewrite Pk, P1. constructor.
      * destruct K as [->|[H123 _]]; [constructor|].
        unfold lex_char in F. rewrite H123 in F. cbn in F.
        destruct (lex_brace_shape _ _ _ _ _ _ P1 F) as [[_ ->]|(a & b & -> & _ & Ha & Hb)]; [constructor|].
        constructor; [exact Ha|constructor; [exact Hb|constructor]].
    + intros Ho. destruct (N.eq_dec (ch st1) 123) as [H123|H123].
      * unfold lex_char in F. rewrite H123 in F. cbn in F.
        destruct (lex_brace_shape _ _ _ _ _ _ P1 F) as [[Hn0 _]|(a & b & -> & Sa & _)]; [congruence|].
        eauto.
      * pose proof (lex_char_nopen n st1 W1 H123) as N0. rewrite F in N0. cbn in N0. congruence.
  - injection F as <- <-. unfold qinv in *. rewrite P in Q. inversion Q; subst.
    split; [exact H2|]. split; [congruence|]. intros a0 r0 [= <- <-]. reflexivity.
Qed.

Lemma lex_loop_raw inner : forall outer st ts,
  (nu st < inner)%nat -> wf st -> qinv st -> lex_loop outer inner st = OK ts ->
  raw_ok ts /\ (forall a r, peeks st = a :: r -> exists ts', ts = a :: ts').
Proof.
  induction outer as [|o IH]; intros st ts Hn W Q R; [discriminate|].
  cbn [lex_loop] in R.
  destruct (next_token_ok inner st Hn W) as (t & st' & F & _ & W' & N' & _).
  rewrite F in R. cbn [bind] in R.
  destruct (next_token_open inner st t st' Hn W Q F) as (Q' & O & H).
  destruct (is_eof t) eqn:E.
  - injection R as <-. split; [exact I|]. intros a r P. rewrite (H a r P). eauto.
  - destruct (lex_loop o inner st') as [ts'| | |] eqn:R'; try discriminate.
    injection R as <-.
    destruct (IH st' ts' ltac:(lia) W' Q' R') as (RO & HD).
    split.
    + destruct ts' as [|s rest]; [exact I|]. split; [|exact RO].
      intros Ho. destruct (O Ho) as (a & r & P & S).
      destruct (HD a r P) as (ts2 & E2). injection E2 as <- _. exact S.
    + intros a r P. rewrite (H a r P). eauto.
Qed.

Theorem tokens_raw_ok s ts : tokens s = OK ts -> raw_ok ts.
Proof.
  intros R. unfold tokens, lex_all in R.
  destruct (init_facts s) as (Hn & Hp & W).
  apply (lex_loop_raw (lex_fuel s) (lex_fuel s) (init s) ts); try assumption.
  - unfold lex_fuel. lia.
  - unfold qinv. rewrite Hp. constructor.
Qed.
