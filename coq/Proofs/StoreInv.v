(* C13 - the invariant of the REPAIRED interpreter, by induction on fuel over the mutually
   recursive eval / exec / call:
     an expression without user calls overwrites no existing cell;
     any expression and any subroutine call overwrite at most cells of ctx variables;
     a statement overwrites at most cells of the executing frame's locals and of ctx variables;
   all of them keep the state well formed (names in range, no two names on one cell). *)
From Coq Require Import List NArith ZArith Bool Lia Arith.
From Falco Require Import Base.Res Base.Bytes Model.StoreSyntax Model.Store Proofs.StoreHeap.
Import ListNotations.

(* no user-defined function is called (built-ins are pure functions of the argument values) *)
Fixpoint pure (e : expr) : bool :=
  match e with
  | EVar _ | ELit _ | EConcat _ => true
  | ENot a | ENeg a | EPos a | EGroup a => pure a
  | EBin _ a b => pure a && pure b
  | EMatch _ a _ => pure a
  | EIf c a b => pure c && pure a && pure b
  | EBuiltin _ args => forallb pure args
  | ECall _ _ => false
  end.

(* no regular-expression match in the expression itself (callee bodies do not count) *)
Fixpoint nomatch (e : expr) : bool :=
  match e with
  | EVar _ | ELit _ | EConcat _ => true
  | ENot a | ENeg a | EPos a | EGroup a => nomatch a
  | EBin _ a b => nomatch a && nomatch b
  | EMatch _ _ _ => false
  | EIf c a b => nomatch c && nomatch a && nomatch b
  | EBuiltin _ args | ECall _ args => forallb nomatch args
  end.

Definition wmb (b : bool) : wmode := if b then WNone else WGlob.
Definition wm (e : expr) : wmode := wmb (pure e).

Lemma wle_wmb a b : (b = true -> a = true) -> wle (wmb a) (wmb b) = true.
Proof. destruct a, b; simpl; auto. Qed.
Lemma wle_any_glob w : w <> WLG -> wle w WGlob = true.
Proof. destruct w; simpl; congruence. Qed.
Lemma wle_wmb_lg b : wle (wmb b) WLG = true.
Proof. destruct b; reflexivity. Qed.
Lemma wle_none w : wle WNone w = true.
Proof. destruct w; reflexivity. Qed.

Ltac splits := repeat match goal with |- _ /\ _ => split end.

Tactic Notation "bind_inv" hyp(H) "as" simple_intropattern(pat) ident(Hb) :=
  apply bind_ok in H; destruct H as [pat [Hb H]].

Section Inv.
Variable Os : ops.
Variable P : program.

Definition eval_good (ev : expr -> state -> res (nat * state)) : Prop :=
  forall e σ l σ', wf σ -> ev e σ = OK (l, σ') ->
    ext (wm e) σ σ' /\ l < length (heap σ') /\ wf σ' /\ (nomatch e = true -> groups σ' = groups σ).

Definition exec_good {A} (st : A -> state -> res (outcome * state)) : Prop :=
  forall s σ o σ', wf σ -> st s σ = OK (o, σ') ->
    ext WLG σ σ' /\ wf σ' /\ (forall l d, o = OVal l d -> l < length (heap σ')).

Definition call_good (cl : sub -> list nat -> state -> res (cres * state)) : Prop :=
  forall sb args σ r σ', wf σ -> cl sb args σ = OK (r, σ') ->
    ext WGlob σ σ' /\ groups σ' = groups σ /\ wf σ' /\ (forall l, r = CVal l -> l < length (heap σ')).

(* ---- allocation *)
Lemma alloc_good w v σ l σ' :
  wf σ -> @OK (nat * state) (alloc v σ) = OK (l, σ') ->
  ext w σ σ' /\ l < length (heap σ') /\ wf σ' /\ groups σ' = groups σ /\ l = length (heap σ).
Proof.
  intros W H. rewrite alloc_spec in H. inversion H; subst.
  split; [apply ext_grow|]. split; [simpl; rewrite app_length; simpl; lia|].
  split; [apply wf_grow; auto|]. split; reflexivity.
Qed.

(* ---- variables *)
Lemma eval_var_good x σ l σ' :
  wf σ -> eval_var x σ = OK (l, σ') ->
  ext WNone σ σ' /\ l < length (heap σ') /\ wf σ' /\ groups σ' = groups σ.
Proof.
  intros W H. destruct x; simpl in H.
  - destruct (lookup k (locals σ)) eqn:E; inversion H; subst.
    splits; auto using ext_refl. destruct W as [W1 _]. apply (W1 (NLocal k)); auto.
    all: destruct W; auto.
  - destruct (lookup k (globals σ)) eqn:E; inversion H; subst.
    splits; auto using ext_refl. destruct W as [W1 _]. apply (W1 (NGlobal k)); auto.
    all: destruct W; auto.
  - destruct (alloc_good WNone _ _ _ _ W H) as (A & B & C & D & _). auto.
  - destruct (alloc_good WNone _ _ _ _ W H) as (A & B & C & D & _). auto.
  - destruct (nth_error (groups σ) j) eqn:E; inversion H; subst.
    + splits; auto using ext_refl. destruct W as [W1 _]. apply (W1 (NGroup j)); auto.
      all: destruct W; auto.
    + destruct (alloc_good WNone _ _ _ _ W H) as (A & B & C & D & _). auto.
Qed.

(* ---- concatenation *)
Lemma concat_fold_good m xs : forall acc σ s σ',
  wf σ -> concat_fold Os m xs acc σ = OK (s, σ') ->
  ext WNone σ σ' /\ wf σ' /\ groups σ' = groups σ.
Proof.
  induction xs as [|a r IH]; intros acc σ s σ' W H; simpl in H.
  - inversion H; subst. auto using ext_refl.
  - destruct a as [lit|x].
    + eauto.
    + bind_inv H as [l1 s1] Hb. bind_inv H as a Hv.
      destruct (eval_var_good _ _ _ _ W Hb) as (E1 & _ & W1 & G1).
      assert (K : forall acc', concat_fold Os m r acc' s1 = OK (s, σ') ->
                  ext WNone σ σ' /\ wf σ' /\ groups σ' = groups σ).
      { intros acc' H'. destruct (IH _ _ _ _ W1 H') as (E2 & W2 & G2).
        splits; auto. eapply ext_trans; eauto. congruence. }
      destruct a; try (destruct (is_lit _); [discriminate|]); eauto.
      destruct (m_lvar m && notset); eauto.
Qed.

Lemma eval_concat_good m xs σ l σ' :
  wf σ -> eval_concat Os m xs σ = OK (l, σ') ->
  ext WNone σ σ' /\ l < length (heap σ') /\ wf σ' /\ groups σ' = groups σ.
Proof.
  intros W H. unfold eval_concat in H.
  destruct (negb (forallb (atom_defined σ) xs)); [discriminate|].
  destruct (forallb (atom_notset σ) xs).
  - destruct (alloc_good WNone _ _ _ _ W H) as (A & B & C & D & _). auto.
  - bind_inv H as [s1 σ1] Hb.
    destruct (concat_fold_good _ _ _ _ _ _ W Hb) as (E1 & W1 & G1).
    destruct (alloc_good WNone _ _ _ _ W1 H) as (A & B & C & D & _).
    splits; auto. eapply ext_trans; eauto. congruence.
Qed.

(* ---- argument lists *)
Lemma eval_list_good ev : eval_good ev -> forall es σ ls σ',
  wf σ -> eval_list ev es σ = OK (ls, σ') ->
  ext (wmb (forallb pure es)) σ σ' /\ Forall (fun l => l < length (heap σ')) ls /\ wf σ' /\
  (forallb nomatch es = true -> groups σ' = groups σ).
Proof.
  intros G. induction es as [|e r IH]; intros σ ls σ' W H; simpl in H.
  - inversion H; subst. splits; auto using ext_refl.
  - bind_inv H as [l1 σ1] Hb. bind_inv H as [ls1 σ2] Hb0. inversion H; subst.
    destruct (G _ _ _ _ W Hb) as (E1 & L1 & W1 & G1).
    destruct (IH _ _ _ W1 Hb0) as (E2 & L2 & W2 & G2).
    splits; auto.
    + eapply ext_trans.
      * eapply ext_weaken; [|exact E1]. unfold wm. apply wle_wmb. simpl. intros Hp. apply andb_prop in Hp. tauto.
      * eapply ext_weaken; [|exact E2]. apply wle_wmb. simpl. intros Hp. apply andb_prop in Hp. tauto.
    + constructor; auto. destruct E2. lia.
    + simpl. intros Hp. apply andb_prop in Hp. destruct Hp. rewrite G2, G1; auto.
Qed.

Lemma loads_ok σ ls vs : loads σ ls = OK vs -> True.
Proof. auto. Qed.

(* ---- blocks *)
Lemma run_block_good st : exec_good st -> exec_good (run_block st).
Proof.
  intros G ss. induction ss as [|s r IH]; intros σ o σ' W H; simpl in H.
  - inversion H; subst. splits; auto using ext_refl. discriminate.
  - bind_inv H as [o0 s0] Hb.
    destruct (G _ _ _ _ (wf_snap _ W) Hb) as (E1 & W1 & L1).
    assert (E0 : ext WLG σ s0) by (eapply ext_trans; [apply ext_snap | exact E1]).
    destruct o0.
    + destruct (IH _ _ _ W1 H) as (E2 & W2 & L2). splits; auto. eapply ext_trans; eauto.
    + inversion H; subst. auto.
    + inversion H; subst. auto.
    + inversion H; subst. auto.
Qed.

Lemma run_elifs_good ev rb : eval_good ev -> exec_good rb ->
  forall elifs el σ o σ', wf σ -> run_elifs ev rb elifs el σ = OK (o, σ') ->
  ext WLG σ σ' /\ wf σ' /\ (forall l d, o = OVal l d -> l < length (heap σ')).
Proof.
  intros GE GB. induction elifs as [|[c b] r IH]; intros el σ o σ' W H; simpl in H.
  - destruct el.
    + eapply GB; eauto.
    + inversion H; subst. splits; auto using ext_refl. discriminate.
  - bind_inv H as [lc s] Hb. bind_inv H as a Hv.
    destruct (GE _ _ _ _ (wf_snap _ W) Hb) as (E1 & L1 & W1 & _).
    assert (E0 : ext WLG σ s) by
      (eapply ext_trans; [apply ext_snap | eapply ext_weaken; [|exact E1]; apply wle_wmb_lg]).
    destruct (truthy a) as [[|]|]; try discriminate.
    + destruct (GB _ _ _ _ W1 H) as (E2 & W2 & L2). splits; auto. eapply ext_trans; eauto.
    + destruct (IH _ _ _ _ W1 H) as (E2 & W2 & L2). splits; auto. eapply ext_trans; eauto.
Qed.

(* ---- convertValueToType *)
Lemma convert_good t l σ l' σ' :
  wf σ -> convert Os t l σ = OK (l', σ') ->
  ext WNone σ σ' /\ l' < length (heap σ') /\ wf σ' /\ groups σ' = groups σ /\
  (l' = l /\ σ' = σ \/ l' = length (heap σ)).
Proof.
  intros W H. unfold convert in H. bind_inv H as a Hb. apply load_ok in Hb. destruct Hb as [_ Hl].
  destruct (ty_eqb (type_of a) t && negb (is_lit a)).
  - inversion H; subst. splits; auto using ext_refl.
  - destruct (conv_forbidden t (type_of a)); [discriminate|].
    bind_inv H as r Hr.
    destruct (alloc_good WNone _ _ _ _ W H) as (A & B & C & D & F). splits; auto.
Qed.

(* ---- validateAndSetParameters, repaired: every parameter gets a cell of its own *)
Lemma bind_params_good ps : forall args σ σ',
  wf σ -> bind_params repaired Os ps args σ = OK σ' ->
  length (heap σ) <= length (heap σ') /\ globals σ' = globals σ /\ depth σ' = depth σ /\
  groups σ' = groups σ /\ hdrs σ' = hdrs σ /\
  (forall l, l < length (heap σ) -> cell_eq σ σ' l) /\ wf σ' /\
  (forall k l, lookup k (locals σ') = Some l -> lookup k (locals σ) = Some l \/ length (heap σ) <= l).
Proof.
  induction ps as [|[p t] ps IH]; intros args σ σ' W H; destruct args as [|a args]; simpl in H; try discriminate.
  - inversion H; subst. splits; auto. unfold cell_eq; auto.
  - bind_inv H as [n s] Hb. bind_inv H as a0 Hb0.
    destruct (convert_good _ _ _ _ _ W Hb) as (E1 & L1 & W1 & G1 & Hfresh).
    apply load_ok in Hb0. destruct Hb0 as [_ Hn].
    assert (Cont : forall l2 s2, ext WNone s s2 -> wf s2 -> groups s2 = groups s ->
              l2 < length (heap s2) -> length (heap σ) <= l2 -> (forall x, loc_of s2 x <> Some l2) ->
              bind_params repaired Os ps args (set_locals ((p, l2) :: locals s2) s2) = OK σ' ->
              length (heap σ) <= length (heap σ') /\ globals σ' = globals σ /\ depth σ' = depth σ /\
              groups σ' = groups σ /\ hdrs σ' = hdrs σ /\
              (forall l, l < length (heap σ) -> cell_eq σ σ' l) /\ wf σ' /\
              (forall k l, lookup k (locals σ') = Some l -> lookup k (locals σ) = Some l \/ length (heap σ) <= l)).
    { intros l2 s2 E2 W2 G2 L2 F2 U2 H2.
      assert (W3 : wf (set_locals ((p, l2) :: locals s2) s2)) by (apply wf_bind; auto).
      destruct (IH _ _ _ W3 H2) as (A1 & A2 & A3 & A4 & A5 & A6 & A7 & A8).
      simpl in *.
      assert (E12 : ext WNone σ s2) by (eapply ext_trans; eauto).
      destruct E12 as [B1 B2 B3 B4 B5 B6 B7].
      destruct (B7 eq_refl) as [B8 B9].
      splits; auto; try congruence; try lia.
      - intros l Hl. unfold cell_eq in *. rewrite A6 by lia. apply B5; auto.
      - intros k l Hk. destruct (A8 _ _ Hk) as [Hk'|Hk']; [|right; lia].
        destruct (N.eqb_spec k p).
        + inversion Hk'; subst. right. auto.
        + left. rewrite <- B6; [auto | discriminate]. }
    destruct (Nat.eqb_spec n a) as [e|ne]; simpl in H.
    + eapply Cont; [| | | | | |exact H].
      * apply ext_grow.
      * apply wf_grow; auto.
      * reflexivity.
      * simpl. rewrite app_length; simpl; lia.
      * destruct E1; simpl; lia.
      * intros x Hx. rewrite loc_of_set_heap in Hx. destruct W1 as [Q _]. apply Q in Hx. lia.
    + destruct Hfresh as [[? ?]|Hf]; [congruence|].
      eapply Cont; [| | | | | |exact H]; auto using ext_refl.
      * lia.
      * intros x Hx.
        assert (Q : loc_of s x = loc_of σ x).
        { destruct E1 as [_ Eg _ _ _ El _]. destruct x; simpl; try congruence.
          rewrite El; auto. discriminate. }
        rewrite Q in Hx. destruct W as [Q1 _]. apply Q1 in Hx. lia.
Qed.

(* ---- doAssign on a cell *)
Lemma assign_cell_good w fx l op r σ σ' :
  wf σ -> may_write w σ l -> assign_cell Os fx l op r σ = OK σ' ->
  ext w σ σ' /\ wf σ' /\ groups σ' = groups σ /\ locals σ' = locals σ.
Proof.
  intros W M H. unfold assign_cell in H. bind_inv H as lv H1. bind_inv H as rv H2. bind_inv H as nv H3. inversion H; subst.
  splits; auto using ext_write, wf_write.
Qed.

Lemma store_header_good o h v σ :
  wf σ -> ext WLG σ (store_header Os o h v σ) /\ wf (store_header Os o h v σ).
Proof.
  intros W. unfold store_header.
  assert (K : forall x, ext WLG σ (set_hdrs x σ) /\ wf (set_hdrs x σ)).
  { intros x. split.
    - constructor; simpl; auto; try discriminate. intros; unfold cell_eq; auto.
    - eapply wf_same; eauto. }
  destruct v; auto. destruct notset; auto.
Qed.

(* ---- switch *)
Lemma case_test_good t ctl σ m σ' :
  wf σ -> case_test Os t ctl σ = OK (m, σ') -> ext WLG σ σ' /\ wf σ'.
Proof.
  intros W H. destruct t; simpl in H.
  - inversion H; subst. auto using ext_refl.
  - bind_inv H as r Hr. destruct r; try discriminate. inversion H; subst.
    split; [apply ext_grow | apply wf_grow; auto].
  - destruct (re_match Os p ctl); inversion H; subst; auto using ext_refl, ext_set_caps, wf_set_caps.
Qed.

Lemma sw_from_good rb : exec_good rb -> exec_good (sw_from rb).
Proof.
  intros G cs. induction cs as [|[[t body] ft] r IH]; intros σ o σ' W H; simpl in H; [discriminate|].
  bind_inv H as [o1 σ1] H1.
  destruct (G _ _ _ _ W H1) as (E1 & W1 & L1).
  destruct o1; try (inversion H; subst; auto; fail).
  destruct ft.
  - destruct (IH _ _ _ W1 H) as (E2 & W2 & L2). splits; auto. eapply ext_trans; eauto.
  - inversion H; subst. auto.
Qed.

Lemma sw_try_good rb ctl d : exec_good rb -> forall cs i σ r σ',
  wf σ -> sw_try Os rb ctl d i cs σ = OK (r, σ') ->
  ext WLG σ σ' /\ wf σ' /\ (forall o l b, r = Some o -> o = OVal l b -> l < length (heap σ')).
Proof.
  intros G. induction cs as [|[[t body] ft] rest IH]; intros i σ r σ' W H; simpl in H.
  - inversion H; subst. splits; auto using ext_refl. discriminate.
  - destruct (is_dflt d i); [eapply IH; eauto|].
    bind_inv H as [m σ1] H1.
    destruct (case_test_good _ _ _ _ _ W H1) as (E1 & W1).
    destruct m.
    + bind_inv H as [o σ2] H2. inversion H; subst.
      destruct (sw_from_good _ G ((t, body, ft) :: rest) _ _ _ W1 H2) as (E2 & W2 & L2).
      splits; auto. eapply ext_trans; eauto.
      intros o0 l b Ho Hv. inversion Ho; subst. eapply L2; eauto.
    + destruct (IH _ _ _ _ W1 H) as (E2 & W2 & L2). splits; auto. eapply ext_trans; eauto.
Qed.

Lemma sw_nth_good rb : exec_good rb -> forall cs n σ o σ',
  wf σ -> sw_nth rb n cs σ = OK (o, σ') ->
  ext WLG σ σ' /\ wf σ' /\ (forall l d, o = OVal l d -> l < length (heap σ')).
Proof.
  intros G. induction cs as [|c rest IH]; intros n σ o σ' W H; destruct n; try discriminate.
  - exact (sw_from_good _ G (c :: rest) σ o σ' W H).
  - eapply IH; eauto.
Qed.

Lemma set_hdrs_good x σ : wf σ -> ext WLG σ (set_hdrs x σ) /\ wf (set_hdrs x σ).
Proof.
  intros W. split.
  - constructor; simpl; auto; try discriminate. intros; unfold cell_eq; auto.
  - eapply wf_same; eauto.
Qed.

Lemma store_field_good o h k v σ :
  wf σ -> ext WLG σ (store_field Os o h k v σ) /\ wf (store_field Os o h k v σ).
Proof. intros W. unfold store_field. apply set_hdrs_good; auto. Qed.

Lemma unset_field_good o h k σ :
  wf σ -> ext WLG σ (unset_field_of o h k σ) /\ wf (unset_field_of o h k σ).
Proof.
  intros W. unfold unset_field_of.
  destruct (HdrField.unset_field (hdr_text σ o h) (key_text k)); apply set_hdrs_good; auto.
Qed.

End Inv.
