(* More fuel never changes a result that is not "out of fuel". *)
From Coq Require Import List NArith ZArith Bool Lia.
From Falco Require Import Base.Bytes Gen.TokenTypes Model.ParseKinds Gen.ParserTables
  Model.ParseBase Model.Ast Model.ParseLit Model.ParseExpr.
Import ListNotations.
Local Open Scope parse_scope.

(* r' refines r: equal unless r ran out of fuel *)
Definition le {A} (r r' : pres A) : Prop := r <> PFuel -> r' = r.

Lemma le_refl {A} (r : pres A) : le r r. Proof. intros _. reflexivity. Qed.

Lemma le_bind {A B} (x x' : pres A) (f f' : A -> pres B) :
  le x x' -> (forall a, le (f a) (f' a)) -> le (pbind x f) (pbind x' f').
Proof.
  intros Hx Hf Hne. destruct x; cbn [pbind] in *; try (rewrite Hx by discriminate; reflexivity).
  - rewrite Hx by discriminate. cbn [pbind]. apply Hf. exact Hne.
  - congruence.
Qed.

Ltac le_auto H :=
  repeat first
  [ apply le_refl
  | apply H
  | apply le_bind
  | (let a := fresh "a" in intro a; repeat match goal with p : (_ * _)%type |- _ => destruct p end;
     cbn beta iota) ].

Section M.
Variable fok : str -> bool.
Notation pexpr := (pexpr fok).
Notation ploop := (ploop fok).
Notation pargs := (pargs fok).
Notation pargtail := (pargtail fok).

Lemma pprefix_le rec rec' k st :
  (forall p s, le (rec p s) (rec' p s)) -> le (pprefix fok rec k st) (pprefix fok rec' k st).
Proof. intros H. destruct k; cbn [pprefix]; le_auto H. Qed.

Lemma pinfix_le rec rec' ra ra' k l st :
  (forall p s, le (rec p s) (rec' p s)) -> (forall s, le (ra s) (ra' s)) ->
  le (pinfix rec ra k l st) (pinfix rec' ra' k l st).
Proof.
  intros H Ha. destruct k as [|ex|]; [| destruct ex |]; cbn [pinfix].
  - le_auto H.
  - le_auto H.
  - le_auto H.
  - destruct l; try apply le_refl. apply le_bind; [apply Ha|]. intros [? ?]. apply le_refl.
Qed.

Lemma mono_step : forall n,
  (forall p st, le (pexpr n p st) (pexpr (S n) p st)) /\
  (forall p l st, le (ploop n p l st) (ploop (S n) p l st)) /\
  (forall st, le (pargs n st) (pargs (S n) st)) /\
  (forall st, le (pargtail n st) (pargtail (S n) st)).
Proof.
  induction n as [|n [IHe [IHl [IHa IHt]]]].
  { repeat split; intros; intros H; exfalso; apply H; reflexivity. }
  split; [|split; [|split]].
  - intros p st. cbn [ParseExpr.pexpr].
    destruct (assoc _ prefix_parsers); [|apply le_refl].
    apply le_bind; [apply pprefix_le; exact IHe|]. intros [lft st1]. apply IHl.
  - intros p l st.
    change (ploop (S n) p l st) with
      (if peek_is st T_SEMICOLON || negb (p <? prec_of (peek st))%N then POK (l, st)
       else match assoc (typ (peek st)) infix_parsers with
            | None => match assoc (typ (peek st)) postfix_parsers with
                      | Some QK_ParsePostfixExpression => ploop n p (EPostfix l (cur (next st))) (next st)
                      | None => POK (l, st)
                      end
            | Some k => do (l2, st2) <- pinfix (pexpr n) (pargs n) k l (next st); ploop n p l2 st2
            end).
    change (ploop (S (S n)) p l st) with
      (if peek_is st T_SEMICOLON || negb (p <? prec_of (peek st))%N then POK (l, st)
       else match assoc (typ (peek st)) infix_parsers with
            | None => match assoc (typ (peek st)) postfix_parsers with
                      | Some QK_ParsePostfixExpression => ploop (S n) p (EPostfix l (cur (next st))) (next st)
                      | None => POK (l, st)
                      end
            | Some k => do (l2, st2) <- pinfix (pexpr (S n)) (pargs (S n)) k l (next st); ploop (S n) p l2 st2
            end).
    destruct (_ || _); [apply le_refl|].
    destruct (assoc _ infix_parsers).
    + apply le_bind; [apply pinfix_le; assumption|]. intros [l2 st2]. apply IHl.
    + destruct (assoc _ postfix_parsers) as [[]|]; [apply IHl | apply le_refl].
  - intros st.
    change (pargs (S n) st) with
      (if peek_is st T_RIGHT_PAREN then POK (ANone, next st)
       else do (e, st1) <- pexpr n P_LOWEST (next st);
            do (more, st2) <- pargtail n st1;
            do st3 <- expect st2 T_RIGHT_PAREN; POK (ASome e more, st3)).
    change (pargs (S (S n)) st) with
      (if peek_is st T_RIGHT_PAREN then POK (ANone, next st)
       else do (e, st1) <- pexpr (S n) P_LOWEST (next st);
            do (more, st2) <- pargtail (S n) st1;
            do st3 <- expect st2 T_RIGHT_PAREN; POK (ASome e more, st3)).
    destruct (peek_is st T_RIGHT_PAREN); [apply le_refl|].
    apply le_bind; [apply IHe|]. intros [e st1].
    apply le_bind; [apply IHt|]. intros [m st2]. apply le_refl.
  - intros st.
    change (pargtail (S n) st) with
      (if peek_is st T_COMMA then
         do (e, st2) <- pexpr n P_LOWEST (next (next st));
         do (more, st3) <- pargtail n st2; POK (ATCons (cur (next st)) e more, st3)
       else POK (ATNil, st)).
    change (pargtail (S (S n)) st) with
      (if peek_is st T_COMMA then
         do (e, st2) <- pexpr (S n) P_LOWEST (next (next st));
         do (more, st3) <- pargtail (S n) st2; POK (ATCons (cur (next st)) e more, st3)
       else POK (ATNil, st)).
    destruct (peek_is st T_COMMA); [|apply le_refl].
    apply le_bind; [apply IHe|]. intros [e st2].
    apply le_bind; [apply IHt|]. intros [m st3]. apply le_refl.
Qed.

Lemma pexpr_mono n m p st v : pexpr n p st = POK v -> n <= m -> pexpr m p st = POK v.
Proof.
  intros H Hle. induction Hle; [exact H|].
  rewrite (proj1 (mono_step m) p st); [exact IHHle | rewrite IHHle; discriminate].
Qed.

Lemma pexpr_mono_any n m p st : pexpr n p st <> PFuel -> n <= m -> pexpr m p st = pexpr n p st.
Proof.
  intros H Hle. induction Hle; [reflexivity|].
  rewrite (proj1 (mono_step m) p st); [exact IHHle | rewrite IHHle; exact H].
Qed.

Lemma ploop_mono n m p l st v : ploop n p l st = POK v -> n <= m -> ploop m p l st = POK v.
Proof.
  intros H Hle. induction Hle; [exact H|].
  rewrite (proj1 (proj2 (mono_step m)) p l st); [exact IHHle | rewrite IHHle; discriminate].
Qed.

Lemma pargs_mono n m st v : pargs n st = POK v -> n <= m -> pargs m st = POK v.
Proof.
  intros H Hle. induction Hle; [exact H|].
  rewrite (proj1 (proj2 (proj2 (mono_step m))) st); [exact IHHle | rewrite IHHle; discriminate].
Qed.

Lemma pargtail_mono n m st v : pargtail n st = POK v -> n <= m -> pargtail m st = POK v.
Proof.
  intros H Hle. induction Hle; [exact H|].
  rewrite (proj2 (proj2 (proj2 (mono_step m))) st); [exact IHHle | rewrite IHHle; discriminate].
Qed.

End M.

Section M2.
Variable fok : str -> bool.
Lemma pargs_mono_any n m st : pargs fok n st <> PFuel -> n <= m -> pargs fok m st = pargs fok n st.
Proof.
  intros H Hle. induction Hle; [reflexivity|].
  rewrite (proj1 (proj2 (proj2 (mono_step fok m))) st); [exact IHHle | rewrite IHHle; exact H].
Qed.
End M2.
