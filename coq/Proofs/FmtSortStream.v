(* sort_declaration at the level of the stream: the declarations of the rewritten stream are
   permuted as blocks; tokens and comments stay inside their declaration. *)
From Coq Require Import List Bool NArith Arith Lia Permutation.
From Falco Require Import Base.Bytes Model.FmtTok Model.FmtNorm
  Proofs.FmtComments Proofs.FmtSig Proofs.FmtSort.
Import ListNotations.

Lemma chunks_concat : forall its d acc gs r,
  chunks d acc its = (gs, r) -> concat gs ++ r = rev acc ++ its.
Proof.
  induction its as [|[cs t] rest IH]; intros d acc gs r; simpl.
  - intros E; inversion E; subst. simpl. now rewrite app_nil_r.
  - set (d' := match tk t with KLBrace => S d | KRBrace => Nat.pred d | _ => d end).
    destruct ((kis (tk t) KRBrace || kis (tk t) KSemi) && (d' =? 0)).
    + destruct (chunks d' [] rest) as [gs' r'] eqn:E'. intros E; inversion E; subst.
      apply IH in E'. simpl in E'. simpl. rewrite <- !app_assoc. simpl. now rewrite E'.
    + intros E. apply IH in E. rewrite E. simpl. now rewrite <- app_assoc.
Qed.

Lemma chunks_nonempty : forall its d acc gs r,
  chunks d acc its = (gs, r) -> Forall (fun g => g <> []) gs.
Proof.
  induction its as [|[cs t] rest IH]; intros d acc gs r; simpl.
  - intros E; inversion E; subst. constructor.
  - set (d' := match tk t with KLBrace => S d | KRBrace => Nat.pred d | _ => d end).
    destruct ((kis (tk t) KRBrace || kis (tk t) KSemi) && (d' =? 0)).
    + destruct (chunks d' [] rest) as [gs' r'] eqn:E'. intros E; inversion E; subst.
      constructor; [|eapply IH; eauto].
      intros H. apply (f_equal (@length item)) in H. rewrite app_length in H. simpl in H. lia.
    + intros E. eapply IH; eauto.
Qed.

Definition prepend (p : list com) (g : list item) : list item :=
  match g with (cs, t) :: more => (p ++ cs, t) :: more | [] => [] end.

Lemma strip_prepend g : g <> [] -> prepend (fst (strip g)) (snd (strip g)) = g /\ snd (strip g) <> [].
Proof.
  destruct g as [|[cs t] more]; [congruence|]. intros _. unfold strip.
  pose proof (split_lf0_app cs) as H. destruct (split_lf0 cs) as [tr lead]. simpl in *.
  rewrite H. split; [reflexivity|discriminate].
Qed.

(* joining without marking undoes the detaching *)
Lemma join_detach_from : forall rest cur tail p,
  cur <> [] -> Forall (fun g => g <> []) rest ->
  join_groups p false (detach_from cur rest tail) = (prepend p cur ++ concat rest, tail).
Proof.
  induction rest as [|g rest IH]; intros cur tail p Hc Hr; simpl.
  - destruct cur as [|[cs t] more]; [congruence|]. simpl. now rewrite !app_nil_r.
  - inversion Hr as [|? ? Hg Hr']; subst.
    destruct (strip_prepend g Hg) as [Hp Hne]. destruct (strip g) as [tr g']. simpl in Hp, Hne.
    simpl. rewrite (IH g' tail tr Hne Hr'). rewrite Hp.
    destruct cur as [|[cs t] more]; [congruence|]. simpl. reflexivity.
Qed.

Lemma join_detach gs tail :
  Forall (fun g => g <> []) gs -> gs <> [] ->
  join_groups [] false (detach gs tail) = (concat gs, tail).
Proof.
  destruct gs as [|g0 rest]; [congruence|]. intros H _. inversion H; subst.
  simpl detach. rewrite join_detach_from; auto.
  destruct g0 as [|[cs t] more]; [congruence|]. reflexivity.
Qed.

(* what a group contributes *)
Definition group_toks (g : group) : list tok := item_toks (g_items g).
Definition group_texts (g : group) : list bytes := map ctx (item_comments (g_items g) ++ g_trail g).

Lemma detach_from_nonempty : forall rest cur tail,
  cur <> [] -> Forall (fun g => g <> []) rest ->
  Forall (fun g => g_items g <> []) (detach_from cur rest tail).
Proof.
  induction rest as [|g rest IH]; intros cur tail Hc Hr; simpl.
  - constructor; auto.
  - inversion Hr as [|? ? Hg Hr']; subst.
    destruct (strip_prepend g Hg) as [_ Hne]. destruct (strip g) as [tr g']. simpl in Hne.
    constructor; auto.
Qed.

Lemma join_toks : forall gs p m,
  item_toks (fst (join_groups p m gs)) = concat (map group_toks gs).
Proof.
  induction gs as [|g r IH]; intros p m; simpl; auto.
  specialize (IH (g_trail g) m). destruct (join_groups (g_trail g) m r) as [o tl]. simpl in *.
  rewrite item_toks_app, IH. f_equal. unfold group_toks.
  destruct (g_items g) as [|[cs t] more]; reflexivity.
Qed.

Lemma map_ctx_set_lf l : map ctx (map set_lf l) = map ctx l.
Proof. induction l; simpl; auto. now rewrite IHl. Qed.

Lemma join_texts : forall gs p m,
  Forall (fun g => g_items g <> []) gs ->
  map ctx (item_comments (fst (join_groups p m gs)) ++ snd (join_groups p m gs))
  = map ctx p ++ concat (map group_texts gs).
Proof.
  induction gs as [|g r IH]; intros p m H; simpl.
  - now rewrite app_nil_r.
  - inversion H as [|? ? Hg Hr]; subst.
    specialize (IH (g_trail g) m Hr). destruct (join_groups (g_trail g) m r) as [o tl]. simpl in *.
    rewrite item_comments_app, <- app_assoc, map_app, IH.
    unfold group_texts. destruct (g_items g) as [|[cs t] more]; [congruence|].
    unfold item_comments. simpl. rewrite !map_app.
    destruct m; rewrite ?map_ctx_set_lf; now rewrite <- !app_assoc.
Qed.

Lemma concat_map_perm {A B} (f : A -> list B) l l' :
  Permutation l l' -> Permutation (concat (map f l)) (concat (map f l')).
Proof.
  induction 1; simpl; auto.
  - now apply Permutation_app_head.
  - rewrite !app_assoc. apply Permutation_app_tail. apply Permutation_app_comm.
  - etransitivity; eauto.
Qed.

(* ---------------------------------------------------------------- norm, declarations sorted or not *)
(* the significant tokens of [norm c ts]: those of [ts] rewritten, then - only when
   sort_declaration is set and the stream ends with a complete declaration - the declarations
   permuted as blocks by Declarations.Sort *)
Theorem norm_significant_sorted c ts :
  exists l, rewrites c (significant ts) l /\
    (significant (norm c ts) = l
     \/ exists G, l = concat (map group_toks G)
                  /\ significant (norm c ts) = concat (map group_toks (sort_groups G))).
Proof.
  unfold norm, norm_items.
  destruct (to_items [] ts) as [its tail] eqn:Et.
  destruct (run c st0 [] (map (restyle_item c) its)) as [out tl1] eqn:Er.
  destruct (keep_tail out (tl1 ++ map (restyle c) tail)) as [tr rest].
  apply run_rewrites in Er; [|apply ret_ok_st0].
  rewrite item_toks_restyle in Er.
  apply to_items_significant in Et. rewrite <- Et.
  exists (item_toks out). split; [exact Er|].
  destruct (chunks 0 [] out) as [gs r0] eqn:Ec.
  destruct r0 as [|x r0]; [|left; now rewrite significant_of_items].
  destruct (sort_declaration c); [|left; now rewrite significant_of_items].
  right. exists (detach gs tr).
  pose proof (chunks_concat _ _ _ _ _ Ec) as Hcc. simpl in Hcc. rewrite app_nil_r in Hcc.
  pose proof (chunks_nonempty _ _ _ _ _ Ec) as Hne.
  split.
  - destruct gs as [|g0 gs'].
    + simpl in Hcc. subst out. reflexivity.
    + rewrite <- (join_toks (detach (g0 :: gs') tr) [] false).
      rewrite join_detach by (auto; discriminate). cbn [fst]. now rewrite <- Hcc.
  - destruct (join_groups [] true (sort_groups (detach gs tr))) as [o t2] eqn:Ej.
    rewrite significant_of_items.
    pose proof (join_toks (sort_groups (detach gs tr)) [] true) as H. rewrite Ej in H. exact H.
Qed.

Corollary norm_significant_perm c ts :
  exists l, rewrites c (significant ts) l /\ Permutation l (significant (norm c ts)).
Proof.
  destruct (norm_significant_sorted c ts) as (l & Hr & [H|(G & Hl & Hs)]); exists l; split; auto.
  - now rewrite H.
  - rewrite Hl, Hs. apply concat_map_perm. symmetry. apply sort_groups_perm.
Qed.

Lemma detach_nonempty gs tail :
  Forall (fun g => g <> []) gs -> Forall (fun g => g_items g <> []) (detach gs tail).
Proof.
  destruct gs as [|g0 rest]; [constructor|]. intros H. inversion H; subst.
  now apply detach_from_nonempty.
Qed.

(* every comment of the source is in [norm c ts] exactly once - as a multiset of texts when the
   declarations are sorted (inside a declaration the order is kept: [join_texts]) *)
Theorem norm_comments_perm c ts :
  Permutation (map ctx (comments (norm c ts))) (map ctx (map (restyle c) (comments ts))).
Proof.
  destruct (sort_declaration c) eqn:Hs.
  2:{ rewrite <- (norm_comments c ts Hs). reflexivity. }
  unfold norm, norm_items.
  destruct (to_items [] ts) as [its tail] eqn:Et.
  destruct (run c st0 [] (map (restyle_item c) its)) as [out tl1] eqn:Er.
  pose proof (keep_tail_app out (tl1 ++ map (restyle c) tail)) as Hsp.
  destruct (keep_tail out (tl1 ++ map (restyle c) tail)) as [tr rest] eqn:Es. simpl in Hsp.
  apply run_comments in Er. simpl in Er. rewrite item_comments_restyle in Er.
  apply to_items_comments in Et. simpl in Et.
  assert (Hall : item_comments out ++ tr ++ rest = map (restyle c) (comments ts)).
  { rewrite Hsp, app_assoc, Er, <- map_app, Et. reflexivity. }
  destruct (chunks 0 [] out) as [gs r0] eqn:Ec.
  destruct r0 as [|x r0].
  2:{ rewrite comments_of_items, <- Hall. reflexivity. }
  rewrite Hs.
  pose proof (chunks_concat _ _ _ _ _ Ec) as Hcc. simpl in Hcc. rewrite app_nil_r in Hcc.
  pose proof (chunks_nonempty _ _ _ _ _ Ec) as Hne.
  destruct gs as [|g0 gs'].
  { simpl in Hcc. subst out. simpl in Es. inversion Es; subst. simpl. rewrite comments_of_items, <- Hall. reflexivity. }
  set (G := detach (g0 :: gs') tr).
  assert (HG : Forall (fun g => g_items g <> []) G) by now apply detach_nonempty.
  assert (HGs : Forall (fun g => g_items g <> []) (sort_groups G)).
  { eapply Permutation_Forall; [symmetry; apply sort_groups_perm|exact HG]. }
  pose proof (join_texts (sort_groups G) [] true HGs) as H1.
  pose proof (join_texts G [] false HG) as H2.
  unfold G in H2 at 1 2. rewrite join_detach in H2 by (auto; discriminate). simpl in H1, H2.
  destruct (join_groups [] true (sort_groups G)) as [o t2]. simpl in H1.
  rewrite comments_of_items, app_assoc, map_app, H1. rewrite <- Hall. rewrite app_assoc, (map_app _ _ rest).
  apply Permutation_app_tail. rewrite <- Hcc. simpl concat. rewrite H2.
  apply concat_map_perm. apply sort_groups_perm.
Qed.
