(* Proofs about Model/VerdictExt.v *)
From Coq Require Import List Bool Arith Lia.
From Coq Require Strings.String.
From Falco Require Import Base.Bytes Gen.LintGen Model.Verdict Model.VerdictExt Proofs.VerdictProofs.
Import ListNotations.
Open Scope list_scope.

(* ------------------------------------------------------------------ the verdict is a function of the effective severities *)
Lemma count_map c s ds :
  count c s ds = List.length (filter (fun e => sev_eqb e s) (map (effective c) ds)).
Proof.
  unfold count. induction ds as [|d ds IH]; cbn [filter map length]; auto.
  destruct (sev_eqb (effective c d) s); cbn [length]; rewrite IH; reflexivity.
Qed.

Theorem verdict_function_of_effective c c' x x' :
  parse_error_main x = parse_error_main x' -> parse_error_included x = parse_error_included x' ->
  map (effective c) (diags x) = map (effective c') (diags x') ->
  exit (run_lint c x) = exit (run_lint c' x') /\ summary (run_lint c x) = summary (run_lint c' x').
Proof.
  intros Hm Hi He. rewrite !exit_char, !summary_char. unfold parse_failed. rewrite Hm, Hi.
  rewrite !count_map, He. auto.
Qed.

(* ------------------------------------------------------------------ an override to IGNORE removes exactly the rule's diagnostics *)
Lemma bytes_eqb_true a b : bytes_eqb a b = true -> a = b.
Proof.
  revert b. induction a as [|x a IH]; destruct b as [|y b]; cbn; intros H; try discriminate; auto.
  apply andb_true_iff in H. destruct H as [H1 H2]. apply byte_eqb_eq in H1. rewrite H1, (IH b H2). reflexivity.
Qed.

Lemma effective_with_ignore c r d :
  effective (with_ignore c r) d = if bytes_eqb r (fst d) then SevIgnore else effective c d.
Proof. unfold effective, with_ignore. cbn [overrides]. destruct (bytes_eqb r (fst d)); reflexivity. Qed.

Lemma step_with_ignore c r s d :
  step (with_ignore c r) s d = if bytes_eqb r (fst d) then s else step c s d.
Proof.
  unfold step. rewrite effective_with_ignore. destruct (bytes_eqb r (fst d)) eqn:E.
  - cbn [sev_eqb negb andb]. rewrite andb_false_r. reflexivity.
  - unfold print_linter_error, show, with_ignore. cbn [json verbosity]. reflexivity.
Qed.

Lemma fold_with_ignore c r ds : forall s,
  fold_left (step (with_ignore c r)) ds s =
  fold_left (step c) (filter (fun d => negb (bytes_eqb r (fst d))) ds) s.
Proof.
  induction ds as [|d ds IH]; intros s; cbn [fold_left filter]; auto.
  rewrite step_with_ignore. unfold rule, diag in *.
  destruct (bytes_eqb r (@fst (list byte) severity d)); cbn [negb fold_left]; apply IH.
Qed.

(* the whole outcome - exit status, summary, -json document, terminal - is the outcome of the program
   without the diagnostics of that rule *)
Theorem ignore_override_removes_exactly c r x :
  run_lint (with_ignore c r) x = run_lint c (without r x).
Proof.
  unfold run_lint, Run, run, without, record_parse_error, with_ignore.
  cbn [parse_error_main parse_error_included diags json].
  destruct (parse_error_main x); [reflexivity|].
  destruct (parse_error_included x); [reflexivity|].
  change {| json := json c; verbosity := verbosity c;
            overrides := fun q => if bytes_eqb r q then Some SevIgnore else overrides c q |} with (with_ignore c r).
  rewrite fold_with_ignore. reflexivity.
Qed.

(* ------------------------------------------------------------------ the configuration cascade *)
Lemma has_ext f fl fl' : (forall g, In g fl <-> In g fl') -> has f fl = has f fl'.
Proof.
  intros H. unfold has.
  destruct (existsb (flag_eqb f) fl) eqn:E1, (existsb (flag_eqb f) fl') eqn:E2; auto.
  - apply existsb_exists in E1. destruct E1 as (g & Hg & Eg). apply H in Hg.
    assert (existsb (flag_eqb f) fl' = true) by (apply existsb_exists; eauto). congruence.
  - apply existsb_exists in E2. destruct E2 as (g & Hg & Eg). apply H in Hg.
    assert (existsb (flag_eqb f) fl = true) by (apply existsb_exists; eauto). congruence.
Qed.

(* order and repetition of the flags do not matter *)
Theorem cfg_of_flag_set yv rules fl fl' :
  (forall g, In g fl <-> In g fl') -> cfg_of yv rules fl = cfg_of yv rules fl'.
Proof.
  intros H. unfold cfg_of. rewrite (has_ext FJson fl fl' H), (has_ext FV fl fl' H), (has_ext FVV fl fl' H). reflexivity.
Qed.

(* exit status and counts depend on the rules of the yaml file only: not on its verbose level, not on any flag *)
Theorem cascade_irrelevant yv yv' rules fl fl' x :
  exit (run_lint (cfg_of yv rules fl) x) = exit (run_lint (cfg_of yv' rules fl') x) /\
  summary (run_lint (cfg_of yv rules fl) x) = summary (run_lint (cfg_of yv' rules fl') x).
Proof. apply flags_irrelevant. intros r. reflexivity. Qed.

(* what the cascade does decide: -vv or `verbose: info` show everything, -v or `verbose: warning` show warnings *)
Theorem cascade_verbosity yv rules fl :
  verbosity (cfg_of yv rules fl) =
  if has FVV fl || match yv with YInfo => true | _ => false end then 2
  else if has FV fl || match yv with YWarning => true | _ => false end then 1 else 0.
Proof. reflexivity. Qed.

(* ------------------------------------------------------------------ the -json document per file *)
Lemma bytes_eqb_refl' a : bytes_eqb a a = true.
Proof.
  induction a as [|x a IH]; cbn; auto. rewrite IH.
  replace (byte_eqb x x) with true; auto. symmetry. apply byte_eqb_eq. reflexivity.
Qed.

Lemma lookup_add f g e m :
  lookup f (add_entry g e m) =
  if bytes_eqb g f then Some (match lookup f m with Some l => l ++ [e] | None => [e] end) else lookup f m.
Proof.
  induction m as [|[h l] m IH]; cbn [add_entry lookup].
  - destruct (bytes_eqb g f); reflexivity.
  - destruct (bytes_eqb h g) eqn:E; cbn [lookup].
    + apply bytes_eqb_true in E. subst h. destruct (bytes_eqb g f); reflexivity.
    + destruct (bytes_eqb h f) eqn:E2.
      * destruct (bytes_eqb g f) eqn:E3; auto.
        apply bytes_eqb_true in E2. apply bytes_eqb_true in E3. subst. rewrite bytes_eqb_refl' in E. discriminate.
      * exact IH.
Qed.

Definition app_opt (o : option (list diag)) (l : list diag) : option (list diag) :=
  match o, l with
  | None, [] => None
  | None, _ => Some l
  | Some a, _ => Some (a ++ l)
  end.

Lemma fold_lookup c f fds : forall m,
  lookup f (fold_left (step_file c) fds m) = app_opt (lookup f m) (listed c (of_file f fds)).
Proof.
  induction fds as [|[g d] fds IH]; intros m; cbn [fold_left].
  - unfold of_file, listed. cbn. destruct (lookup f m); cbn; rewrite ?app_nil_r; reflexivity.
  - rewrite IH. unfold step_file. cbn [fst snd]. unfold of_file. cbn [filter fst].
    destruct (bytes_eqb g f) eqn:E.
    + cbn [map snd]. unfold listed. cbn [filter].
      destruct (sev_eqb (effective c d) SevIgnore) eqn:Ei; cbn [negb map fst].
      * reflexivity.
      * rewrite lookup_add, E.
        destruct (lookup f m) as [l|]; cbn [app_opt]; [rewrite <- app_assoc; reflexivity | reflexivity].
    + destruct (sev_eqb (effective c d) SevIgnore); [reflexivity|].
      rewrite lookup_add, E. reflexivity.
Qed.

(* one entry per file with a (non-ignored) diagnostic, holding exactly that file's diagnostics, in order,
   each with its effective severity; a file without such a diagnostic has no entry *)
Theorem doc_files_spec c fds f :
  lookup f (doc_files c fds) =
  match listed c (of_file f fds) with [] => None | l => Some l end.
Proof.
  unfold doc_files. rewrite fold_lookup. cbn [lookup app_opt].
  destruct (listed c (of_file f fds)); reflexivity.
Qed.

(* nothing is dropped and nothing is listed twice: the entries of all files together are as many as the
   non-ignored diagnostics *)
Lemma add_entry_total f e m : List.length (concat (map snd (add_entry f e m))) = S (List.length (concat (map snd m))).
Proof.
  induction m as [|[g l] m IH]; cbn [add_entry map concat snd]; auto.
  destruct (bytes_eqb g f); cbn [map concat snd]; rewrite ?app_length.
  - rewrite ?app_length. cbn [length]. lia.
  - rewrite IH. rewrite ?app_length. lia.
Qed.

Theorem doc_files_total c fds :
  List.length (concat (map snd (doc_files c fds))) = List.length (listed c (map snd fds)).
Proof.
  unfold doc_files.
  assert (G : forall m, List.length (concat (map snd (fold_left (step_file c) fds m)))
                        = List.length (concat (map snd m)) + List.length (listed c (map snd fds))).
  { induction fds as [|[g d] fds IH]; intros m; cbn [fold_left map].
    - unfold listed. cbn. lia.
    - rewrite IH. unfold step_file, listed. cbn [fst snd filter map].
      destruct (sev_eqb (effective c d) SevIgnore); cbn [negb map length].
      + lia.
      + rewrite add_entry_total. lia. }
  rewrite G. cbn. reflexivity.
Qed.

(* ------------------------------------------------------------------ the other sub-commands *)
Theorem stats_exit_iff x : run_stats x <> 0 <-> parse_error_main x = true \/ parse_error_included x = true.
Proof.
  unfold run_stats. destruct (parse_error_main x), (parse_error_included x); cbn; split; auto; intros [H|H]; discriminate.
Qed.

(* ------------------------------------------------------------------ regenerated spellings *)
Lemma spellings_ok :
  NoDup Gen.LintGen.severity_strings /\
  map (fun p => parse_level (fst p)) Gen.LintGen.override_words = [Some SevError; Some SevWarning; Some SevInfo; Some SevIgnore] /\
  map sev_of_string Gen.LintGen.severity_strings = [Some SevError; Some SevWarning; Some SevInfo; Some SevIgnore].
Proof.
  split; [|split; vm_compute; reflexivity].
  repeat constructor; cbn; intros H; repeat (destruct H as [H|H]; try discriminate); auto.
Qed.

(* the exit status (and the counts) for one input and one override table: the same whatever -json / -v / -vv say *)
Theorem json_plain_same_exit ov x j v j' v' :
  exit (run_lint {| json := j; verbosity := v; overrides := ov |} x) = exit (run_lint {| json := j'; verbosity := v'; overrides := ov |} x) /\
  summary (run_lint {| json := j; verbosity := v; overrides := ov |} x) = summary (run_lint {| json := j'; verbosity := v'; overrides := ov |} x).
Proof. apply flags_irrelevant. intros r. reflexivity. Qed.

Lemma config_spellings_ok :
  map flag_of_name [flag_json; flag_verbose_warning; flag_verbose_info] = [Some FJson; Some FV; Some FVV] /\
  map (fun p => yverbose_of (Some (fst p))) yaml_verbose_levels = [YWarning; YInfo] /\
  yverbose_of None = YNone.
Proof. vm_compute. repeat split; reflexivity. Qed.

(* ------------------------------------------------------------------ witnesses *)
Section Witness.
Import Coq.Strings.String.
Local Open Scope string_scope.
Local Open Scope list_scope.
Definition ex_fds : list fdiag :=
  let r := Strings.String.list_byte_of_string in
  [(r "main.vcl", (r "a/err", SevError)); (r "mod.vcl", (r "b/warn", SevWarning)); (r "main.vcl", (r "c/info", SevInfo));
   (r "mod.vcl", (r "c/info", SevInfo)); (r "other.vcl", (r "c/info", SevInfo))].

Example ex_doc_files :
  let r := Strings.String.list_byte_of_string in
  let c := with_ignore {| json := true; verbosity := 0; overrides := ex_overrides |} (r "b/warn") in
  doc_files c ex_fds = [(r "main.vcl", [(r "a/err", SevWarning)])] /\
  lookup (r "other.vcl") (doc_files c ex_fds) = None.
Proof. vm_compute. split; reflexivity. Qed.

(* an include graph with diagnostics in two modules and in the main file, one module fully ignored by an override *)
Example ex_doc_files_modules :
  let r := Strings.String.list_byte_of_string in
  let c := {| json := true; verbosity := 0; overrides := overrides_of [(r "c/info", r "IGNORE")] |} in
  let fds := [(r "main.vcl", (r "a/err", SevError)); (r "m1.vcl", (r "b/warn", SevWarning)); (r "m2.vcl", (r "a/err", SevError));
              (r "m1.vcl", (r "a/err", SevError)); (r "m3.vcl", (r "c/info", SevInfo)); (r "main.vcl", (r "c/info", SevInfo))] in
  doc_files c fds = [(r "main.vcl", [(r "a/err", SevError)]); (r "m1.vcl", [(r "b/warn", SevWarning); (r "a/err", SevError)]);
                     (r "m2.vcl", [(r "a/err", SevError)])].
Proof. vm_compute. reflexivity. Qed.

Example ex_json_plain_same_exit :
  forall j v j' v', exit (run_lint {| json := j; verbosity := v; overrides := ex_overrides |} ex_input)
                  = exit (run_lint {| json := j'; verbosity := v'; overrides := ex_overrides |} ex_input).
Proof. intros. apply json_plain_same_exit. Qed.

Example ex_ignore_override :
  let r := Strings.String.list_byte_of_string in
  forall j v, run_lint (with_ignore {| json := j; verbosity := v; overrides := ex_overrides |} (r "e/y")) ex_input
              = run_lint {| json := j; verbosity := v; overrides := ex_overrides |} (without (r "e/y") ex_input)
           /\ exit (run_lint (with_ignore {| json := j; verbosity := v; overrides := ex_overrides |} (r "e/y")) ex_input) = 1.
Proof. intros r j v. split; [apply ignore_override_removes_exactly|]. destruct j; destruct v as [|[|v]]; reflexivity. Qed.

Example ex_cascade :
  verbosity (cfg_of YWarning [] [FJson; FJson]) = 1 /\ verbosity (cfg_of YWarning [] [FV; FVV; FV]) = 2 /\
  verbosity (cfg_of YOther [] []) = 0 /\ json (cfg_of YInfo [] [FV; FJson; FV]) = true /\
  cfg_of YNone [] [FV; FJson; FV] = cfg_of YNone [] [FJson; FV].
Proof. repeat split; reflexivity. Qed.
End Witness.
