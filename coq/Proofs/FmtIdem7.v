(* C14 core, part 7: [norm] is idempotent with sort_declaration too. *)
From Coq Require Import List Bool NArith Arith Lia Permutation.
From Falco Require Import Base.Bytes Model.FmtTok Model.FmtNorm
  Proofs.FmtComments Proofs.FmtRestyle Proofs.FmtSort Proofs.FmtSortStream
  Proofs.FmtIdem1 Proofs.FmtIdem2 Proofs.FmtIdem3 Proofs.FmtIdem4 Proofs.FmtIdem5 Proofs.FmtIdem6.
Import ListNotations.

(* ---------------------------------------------------------------- per declaration *)
Lemma quiet_chunks c : forall gs,
  Forall (fun g => chunk_ok 0 (map snd g) = true) gs ->
  quiet_seq c st0 (concat gs) None = true ->
  Forall (fun g => forall nk, quiet_seq c st0 g nk = true) gs.
Proof.
  induction gs as [|g r IH]; intros Hok Hq; constructor.
  - inversion Hok as [|? ? Hg Hr]; subst. simpl in Hq. rewrite quiet_seq_app in Hq.
    apply andb_true_iff in Hq as [Hq _]. intros nk.
    rewrite (quiet_seq_chunk_nk c g st0 nk (next_of (concat r) None)); auto.
  - inversion Hok as [|? ? Hg Hr]; subst. simpl in Hq. rewrite quiet_seq_app in Hq.
    apply andb_true_iff in Hq as [_ Hq]. rewrite (fold_chunk c _ st0 Hg) in Hq. auto.
Qed.

Lemma quiet_concat c : forall gs,
  Forall (fun g => chunk_ok 0 (map snd g) = true /\ forall nk, quiet_seq c st0 g nk = true) gs ->
  forall nk, quiet_seq c st0 (concat gs) nk = true.
Proof.
  induction gs as [|g r IH]; intros H nk; simpl; auto.
  inversion H as [|? ? [Hg Hq] Hr]; subst.
  rewrite quiet_seq_app, Hq. simpl. rewrite (fold_chunk c _ st0 Hg). auto.
Qed.

(* ---------------------------------------------------------------- the groups of [detach] *)
Definition lf0 (l : list com) : Prop := Forall (fun x => clf x = false) l.

(* what we know of every group: one declaration, quiet from the initial state, its trailing
   comments sit on the last token's line *)
Definition good (c : fmt_config) (g : group) : Prop :=
  chunk_ok 0 (map snd (g_items g)) = true
  /\ (forall nk, quiet_seq c st0 (g_items g) nk = true)
  /\ lf0 (g_trail g).

Lemma strip_toks g : map snd (snd (strip g)) = map snd g.
Proof. destruct g as [|[cs t] more]; simpl; auto. destruct (split_lf0 cs). reflexivity. Qed.

Lemma strip_lf0 g : lf0 (fst (strip g)).
Proof.
  destruct g as [|[cs t] more]; simpl; [constructor|].
  pose proof (split_lf0_fst_lf0 cs) as H. destruct (split_lf0 cs). exact H.
Qed.

Definition good_chunk (c : fmt_config) (g : list item) : Prop :=
  chunk_ok 0 (map snd g) = true /\ (forall nk, quiet_seq c st0 g nk = true).

Lemma good_chunk_toks c g g' : map snd g = map snd g' -> good_chunk c g -> good_chunk c g'.
Proof.
  intros H [H1 H2]. split; [now rewrite <- H|]. intros nk.
  rewrite <- (quiet_seq_toks c g g' st0 nk H). apply H2.
Qed.

Lemma detach_from_good c : forall rest cur tail,
  good_chunk c cur -> Forall (good_chunk c) rest -> lf0 tail ->
  Forall (good c) (detach_from cur rest tail).
Proof.
  induction rest as [|g rest IH]; intros cur tail [Hc1 Hc2] Hr Ht; simpl.
  - constructor; [|constructor]. repeat split; auto.
  - inversion Hr as [|? ? Hg Hr']; subst.
    pose proof (strip_toks g) as Hst. pose proof (strip_lf0 g) as Hlf.
    destruct (strip g) as [tr g']. simpl in *.
    constructor; [repeat split; auto|].
    apply IH; auto. eapply good_chunk_toks; [symmetry; exact Hst|exact Hg].
Qed.

Lemma detach_good c gs tail :
  Forall (good_chunk c) gs -> lf0 tail -> Forall (good c) (detach gs tail).
Proof.
  destruct gs as [|g0 rest]; [constructor|]. intros H Ht. inversion H; subst.
  now apply detach_from_good.
Qed.

(* ---------------------------------------------------------------- joining, seen as a list of chunks *)
Definition jitems (p : list com) (g : group) : list item :=
  match g_items g with
  | (cs, t) :: more => (p ++ map set_lf cs, t) :: more
  | [] => []
  end.

Fixpoint jlist (p : list com) (S : list group) : list (list item) :=
  match S with [] => [] | g :: r => jitems p g :: jlist (g_trail g) r end.

Fixpoint last_trail (p : list com) (S : list group) : list com :=
  match S with [] => p | g :: r => last_trail (g_trail g) r end.

Lemma join_jlist : forall S p, join_groups p true S = (concat (jlist p S), last_trail p S).
Proof.
  induction S as [|g r IH]; intros p; simpl; auto.
  rewrite IH. reflexivity.
Qed.

Lemma jitems_toks p g : map snd (jitems p g) = map snd (g_items g).
Proof. unfold jitems. destruct (g_items g) as [|[cs t] more]; reflexivity. Qed.

Lemma jlist_good c : forall S p, Forall (good c) S -> Forall (good_chunk c) (jlist p S).
Proof.
  induction S as [|g r IH]; intros p H; simpl; constructor; inversion H as [|? ? [H1 [H2 H3]] Hr]; subst.
  - eapply good_chunk_toks; [symmetry; apply jitems_toks|]. split; auto.
  - now apply IH.
Qed.

Lemma chunks_concat_good c : forall L, Forall (good_chunk c) L -> chunks 0 [] (concat L) = (L, []).
Proof.
  induction L as [|g r IH]; intros H; [reflexivity|].
  inversion H as [|? ? [Hg _] Hr]; subst.
  change (concat (g :: r)) with (g ++ concat r).
  etransitivity; [exact (chunks_app g (concat r) 0 [] Hg)|]. rewrite (IH Hr). reflexivity.
Qed.

(* ---------------------------------------------------------------- detaching what was joined *)
Definition mark_items (its : list item) : list item :=
  match its with (cs, t) :: more => (map set_lf cs, t) :: more | [] => [] end.
Definition markg (g : group) : group := Group (mark_items (g_items g)) (g_trail g).

Lemma split_lf0_marked : forall p cs, lf0 p -> split_lf0 (p ++ map set_lf cs) = (p, map set_lf cs).
Proof.
  induction p as [|y p IH]; intros cs H; simpl.
  - destruct cs as [|x r]; reflexivity.
  - inversion H as [|? ? Hy Hp]; subst. rewrite Hy. rewrite (IH cs Hp). reflexivity.
Qed.

Lemma strip_jitems p g : lf0 p -> g_items g <> [] -> strip (jitems p g) = (p, mark_items (g_items g)).
Proof.
  intros Hp Hne. unfold jitems. destruct (g_items g) as [|[cs t] more]; [congruence|].
  simpl. now rewrite (split_lf0_marked p cs Hp).
Qed.

Lemma good_items_nonempty c g : good c g -> g_items g <> [].
Proof. intros [H _]. destruct (g_items g); [discriminate|discriminate]. Qed.

Lemma detach_from_jlist c : forall S p cur,
  Forall (good c) S -> lf0 p ->
  detach_from cur (jlist p S) (last_trail p S) = Group cur p :: map markg S.
Proof.
  induction S as [|g r IH]; intros p cur H Hp; simpl; auto.
  inversion H as [|? ? Hg Hr]; subst.
  rewrite (strip_jitems p g Hp (good_items_nonempty c g Hg)).
  destruct Hg as (_ & _ & Ht). rewrite (IH (g_trail g) (mark_items (g_items g)) Hr Ht). reflexivity.
Qed.

Lemma detach_jlist c S : Forall (good c) S -> detach (jlist [] S) (last_trail [] S) = map markg S.
Proof.
  destruct S as [|g r]; [reflexivity|]. intros H. inversion H as [|? ? Hg Hr]; subst.
  simpl. destruct Hg as (Hg1 & _ & Ht).
  rewrite (detach_from_jlist c r (g_trail g) (jitems [] g) Hr Ht).
  reflexivity.
Qed.

Lemma markg_kind g : g_kind (markg g) = g_kind g.
Proof. unfold g_kind, markg, mark_items. simpl. destruct (g_items g) as [|[cs t] more]; reflexivity. Qed.

Lemma markg_name g : g_name (markg g) = g_name g.
Proof.
  unfold g_name, markg, mark_items. simpl. destruct (g_items g) as [|[cs t] [|[cs2 t2] more]]; reflexivity.
Qed.

Lemma map_set_lf_idem l : map set_lf (map set_lf l) = map set_lf l.
Proof. induction l; simpl; auto. now rewrite IHl. Qed.

Lemma join_markg : forall S p, join_groups p true (map markg S) = join_groups p true S.
Proof.
  induction S as [|g r IH]; intros p; simpl; auto.
  rewrite IH. unfold mark_items. destruct (g_items g) as [|[cs t] more]; simpl; auto.
  now rewrite map_set_lf_idem.
Qed.

(* the comments of the joined stream are those of the groups: still restyled *)
Lemma jlist_styled c : forall S p,
  Forall (styled c) p -> Forall (fun g => Forall (styled c) (item_comments (g_items g) ++ g_trail g)) S ->
  Forall (styled c) (item_comments (concat (jlist p S)) ++ last_trail p S).
Proof.
  assert (Hset : forall l, Forall (styled c) l -> Forall (styled c) (map set_lf l)).
  { intros l H. induction H as [|x l Hx Hl IHl]; simpl; constructor; auto.
    destruct x as [lf tx]. unfold styled, restyle in *. simpl in *.
    injection Hx as Hx. now rewrite Hx. }
  induction S as [|g r IH]; intros p Hp H; simpl.
  - exact Hp.
  - inversion H as [|? ? Hg Hr]; subst. apply Forall_app in Hg as [Hg1 Hg2].
    rewrite item_comments_app, <- app_assoc. apply Forall_app. split; [|now apply IH].
    unfold jitems. destruct (g_items g) as [|[cs t] more]; simpl; [constructor|].
    unfold item_comments in *. simpl in *. apply Forall_app in Hg1 as [Hc Hm].
    rewrite <- app_assoc. apply Forall_app. split; auto. apply Forall_app. split; auto.
Qed.

(* ---------------------------------------------------------------- the theorem *)
Definition gcoms (g : group) : list com := item_comments (g_items g) ++ g_trail g.

Lemma join_coms : forall gs p,
  Forall (fun g => g_items g <> []) gs ->
  item_comments (fst (join_groups p false gs)) ++ snd (join_groups p false gs) = p ++ concat (map gcoms gs).
Proof.
  induction gs as [|g r IH]; intros p H; simpl.
  - now rewrite app_nil_r.
  - inversion H as [|? ? Hg Hr]; subst.
    specialize (IH (g_trail g) Hr). destruct (join_groups (g_trail g) false r) as [o tl]. simpl in *.
    rewrite item_comments_app, <- app_assoc, IH. unfold gcoms.
    destruct (g_items g) as [|[cs t] more]; [congruence|].
    unfold item_comments. simpl. now rewrite <- !app_assoc.
Qed.

Lemma Forall_concat {A} (P : A -> Prop) (L : list (list A)) : Forall P (concat L) -> Forall (Forall P) L.
Proof.
  induction L as [|l r IH]; simpl; intros H; constructor.
  - now apply Forall_app in H as [H _].
  - apply IH. now apply Forall_app in H as [_ H].
Qed.

Lemma last_trail_lf0 c : forall S p, Forall (good c) S -> lf0 p -> lf0 (last_trail p S).
Proof.
  induction S as [|g r IH]; intros p H Hp; simpl; auto.
  inversion H as [|? ? (_ & _ & Ht) Hr]; subst. now apply IH.
Qed.

Lemma split_lf0_snd_again t : split_lf0 (snd (split_lf0 t)) = ([], snd (split_lf0 t)).
Proof.
  induction t as [|x r IH]; simpl; [reflexivity|].
  destruct (clf x) eqn:E; simpl; [now rewrite E|].
  destruct (split_lf0 r) as [a b]; simpl in *. exact IH.
Qed.

Lemma split_lf0_lf0_app L r : lf0 L -> split_lf0 (L ++ r) = (L ++ fst (split_lf0 r), snd (split_lf0 r)).
Proof.
  induction 1 as [|x L Hx HL IH]; simpl.
  - now destruct (split_lf0 r).
  - rewrite Hx, IH. reflexivity.
Qed.

Lemma detach_nil gs tail : detach gs tail = [] -> gs = [].
Proof.
  destruct gs as [|g0 rest]; [reflexivity|]. simpl.
  destruct rest as [|g r]; simpl; [discriminate|]. destruct (strip g); discriminate.
Qed.

(* the tail written by the first pass (comments on the last line, then the rest as it was split)
   is split in the same way by the second pass *)
Lemma keep_tail_resplit out t tr rest out2 L :
  keep_tail out t = (tr, rest) -> lf0 L ->
  (out = [] -> out2 = [] /\ L = []) -> (out <> [] -> out2 <> []) ->
  keep_tail out2 (L ++ rest) = (L, rest).
Proof.
  intros Ek HL H0 H1. destruct out as [|o1 out].
  - destruct (H0 eq_refl) as [-> ->]. reflexivity.
  - assert (Hne : out2 <> []) by (apply H1; discriminate).
    destruct out2 as [|o2 out2]; [congruence|]. simpl in *.
    rewrite (split_lf0_lf0_app L rest HL).
    assert (Hr : rest = snd (split_lf0 t)) by now rewrite Ek.
    rewrite Hr, split_lf0_snd_again. simpl. now rewrite app_nil_r.
Qed.

Theorem norm_idem c ts : norm c (norm c ts) = norm c ts.
Proof.
  destruct (sort_declaration c) eqn:Hsd; [|now apply norm_idem_unsorted].
  remember (norm c ts) as n eqn:Hn.
  unfold norm, norm_items in Hn.
  destruct (to_items [] ts) as [its tail].
  destruct (run c st0 [] (map (restyle_item c) its)) as [out tl1] eqn:Er.
  pose proof (keep_tail_app out (tl1 ++ map (restyle c) tail)) as Hsp.
  pose proof (keep_tail_fst_lf0 out (tl1 ++ map (restyle c) tail)) as Hlf.
  destruct (keep_tail out (tl1 ++ map (restyle c) tail)) as [tr rest] eqn:Ek. simpl in Hsp, Hlf.
  assert (Hst : Forall (styled c) (item_comments out ++ tl1)).
  { pose proof (run_comments c _ _ _ _ _ Er) as Hc. simpl in Hc. rewrite Hc, item_comments_restyle.
    apply Forall_forall. intros x Hx. apply in_map_iff in Hx as [y [<- _]]. apply styled_restyle. }
  apply Forall_app in Hst as [Hst1 Hst2].
  assert (Hst4 : Forall (styled c) (tr ++ rest)).
  { rewrite Hsp. apply Forall_app. split; auto.
    apply Forall_forall. intros x Hx. apply in_map_iff in Hx as [y [<- _]]. apply styled_restyle. }
  assert (Hst3 : Forall (styled c) tr) by now apply Forall_app in Hst4 as [H _].
  assert (Hst5 : Forall (styled c) rest) by now apply Forall_app in Hst4 as [_ H].
  assert (Hk2 : keep_tail out (tr ++ rest) = (tr, rest)) by (rewrite Hsp; exact Ek).
  pose proof (run_replay c _ st0 st0 [] out tl1 inv_st0 rel_st0 ltac:(intros F; destruct F) ltac:(intros F; destruct F) Er) as Hrun.
  destruct (chunks 0 [] out) as [gs r0] eqn:Ec.
  destruct r0 as [|x r0].
  2:{ (* unfinished declaration: nothing is sorted, as in the unsorted case *)
    subst n. unfold norm. rewrite to_items_of_items. unfold norm_items.
    rewrite (restyle_items_styled c out Hst1), Hrun. simpl app.
    rewrite (map_restyle_styled c _ Hst4), Hk2, Ec. reflexivity. }
  rewrite Hsd in Hn.
  (* the declarations *)
  pose proof (run_quiet c _ st0 st0 [] out tl1 inv_st0 rel_st0 ltac:(intros F; destruct F) ltac:(intros F; destruct F) Er) as Q.
  pose proof (chunks_ok out 0 [] gs [] eq_refl Ec) as Hok.
  pose proof (chunks_concat _ _ _ _ _ Ec) as Hcc. simpl in Hcc. rewrite app_nil_r in Hcc.
  pose proof (chunks_nonempty _ _ _ _ _ Ec) as Hne.
  rewrite <- Hcc in Q.
  pose proof (quiet_chunks c gs Hok Q) as Hq.
  assert (Hgc : Forall (good_chunk c) gs).
  { apply Forall_forall. intros g Hg. split.
    - rewrite Forall_forall in Hok. now apply Hok.
    - rewrite Forall_forall in Hq. now apply Hq. }
  set (G := detach gs tr) in *.
  assert (HG : Forall (good c) G) by now apply detach_good.
  set (S := sort_groups G) in *.
  assert (HS : Forall (good c) S).
  { eapply Permutation_Forall; [symmetry; apply sort_groups_perm|exact HG]. }
  rewrite join_jlist in Hn. subst n.
  (* comments of the groups are restyled *)
  assert (HGst : Forall (fun g => Forall (styled c) (gcoms g)) G).
  { assert (HGne : Forall (fun g => g_items g <> []) G) by now apply detach_nonempty.
    destruct gs as [|g0 gs'].
    - constructor.
    - pose proof (join_coms G [] HGne) as Hj. unfold G in Hj at 1 2.
      rewrite join_detach in Hj by (auto; discriminate). simpl in Hj.
      assert (Hall : Forall (styled c) (concat (map gcoms G))).
      { rewrite <- Hj. change (g0 ++ concat gs') with (concat (g0 :: gs')). rewrite Hcc.
        apply Forall_app. split; auto. }
      apply Forall_forall. intros g Hg.
      rewrite Forall_forall in Hall. apply Forall_forall. intros x Hx. apply Hall.
      apply in_concat. exists (gcoms g). split; auto. now apply in_map. }
  assert (HSst : Forall (fun g => Forall (styled c) (gcoms g)) S).
  { eapply Permutation_Forall; [symmetry; apply sort_groups_perm|exact HGst]. }
  pose proof (jlist_styled c S [] (Forall_nil _) HSst) as Hjs.
  apply Forall_app in Hjs as [Hjs1 Hjs2].
  pose proof (jlist_good c S [] HS) as Hjg.
  (* second application *)
  unfold norm. rewrite to_items_of_items. unfold norm_items.
  rewrite (restyle_items_styled c _ Hjs1).
  assert (Hrun2 : run c st0 [] (concat (jlist [] S)) = (concat (jlist [] S), [])).
  { pose proof (run_quiet_seq c (concat (jlist [] S)) st0 []) as H.
    rewrite app_nil_r in H. simpl in H. rewrite H.
    - now rewrite app_nil_r.
    - apply quiet_concat. exact Hjg. }
  rewrite Hrun2. simpl app.
  rewrite (map_restyle_styled c (last_trail [] S ++ rest)) by (apply Forall_app; split; auto).
  rewrite (keep_tail_resplit out _ tr rest _ (last_trail [] S) Ek).
  2:{ apply (last_trail_lf0 c); auto. constructor. }
  2:{ intros Ho. assert (Hgs : gs = []).
      { destruct gs as [|g0 gs']; [reflexivity|]. exfalso. inversion Hne as [|? ? Hg0 _]; subst.
        simpl in Ho. destruct g0; [congruence|discriminate]. }
      unfold S, G. rewrite Hgs. split; reflexivity. }
  2:{ intros Ho Hj. apply Ho.
      assert (HS0 : S = []).
      { destruct S as [|g r]; [reflexivity|]. exfalso.
        inversion HS as [|? ? Hg _]; subst. pose proof (good_items_nonempty c g Hg) as Hne'.
        simpl in Hj. unfold jitems in Hj. destruct (g_items g) as [|[cs t] more]; [congruence|discriminate]. }
      assert (HG0 : G = []).
      { apply Permutation_nil. rewrite <- HS0. unfold S. apply sort_groups_perm. }
      unfold G in HG0. apply detach_nil in HG0. rewrite <- Hcc, HG0. reflexivity. }
  rewrite (chunks_concat_good c _ Hjg). rewrite Hsd.
  rewrite (detach_jlist c S HS).
  rewrite (sort_groups_map markg markg_kind markg_name).
  unfold S at 1. rewrite sort_groups_idem. fold S.
  rewrite join_markg, join_jlist. reflexivity.
Qed.
