(* UTF-8 as Go's unicode/utf8 implements it: DecodeRune (RuneError = U+FFFD, size 1
   on any ill-formed sequence) and EncodeRune.  Runes are N. *)
From Coq Require Import List NArith ZArith Lia Bool.
From Falco Require Import Base.Bytes.
Import ListNotations.
Local Open Scope N_scope.

Definition rune := N.
Definition rune_error : rune := 65533.

Definition valid_scalar (r : rune) : bool :=
  (r <? 55296) || ((57343 <? r) && (r <=? 1114111)).

Definition in_rng (lo hi b : N) : bool := (lo <=? b) && (b <=? hi).

(* EncodeRune *)
Definition enc_rune (r0 : rune) : list byte :=
  let r := if valid_scalar r0 then r0 else rune_error in
  if r <? 128 then [n2b r]
  else if r <? 2048 then [n2b (192 + r / 64); n2b (128 + r mod 64)]
  else if r <? 65536 then
    [n2b (224 + r / 4096); n2b (128 + (r / 64) mod 64); n2b (128 + r mod 64)]
  else
    [n2b (240 + r / 262144); n2b (128 + (r / 4096) mod 64);
     n2b (128 + (r / 64) mod 64); n2b (128 + r mod 64)].

(* DecodeRune on a non-empty slice: (rune, size) *)
Definition dec_rune (bs : list byte) : rune * nat :=
  match bs with
  | [] => (rune_error, 1%nat)
  | c0 :: t =>
    let p0 := b2n c0 in
    if p0 <? 128 then (p0, 1%nat)
    else if in_rng 194 223 p0 then
      match t with
      | c1 :: _ => let b1 := b2n c1 in
          if in_rng 128 191 b1 then ((p0 - 192) * 64 + (b1 - 128), 2%nat)
          else (rune_error, 1%nat)
      | _ => (rune_error, 1%nat)
      end
    else if in_rng 224 239 p0 then
      match t with
      | c1 :: c2 :: _ =>
          let b1 := b2n c1 in let b2 := b2n c2 in
          let lo := if p0 =? 224 then 160 else 128 in
          let hi := if p0 =? 237 then 159 else 191 in
          if in_rng lo hi b1 then
            if in_rng 128 191 b2 then
              ((p0 - 224) * 4096 + (b1 - 128) * 64 + (b2 - 128), 3%nat)
            else (rune_error, 1%nat)
          else (rune_error, 1%nat)
      | _ => (rune_error, 1%nat)
      end
    else if in_rng 240 244 p0 then
      match t with
      | c1 :: c2 :: c3 :: _ =>
          let b1 := b2n c1 in let b2 := b2n c2 in let b3 := b2n c3 in
          let lo := if p0 =? 240 then 144 else 128 in
          let hi := if p0 =? 244 then 143 else 191 in
          if in_rng lo hi b1 then
            if in_rng 128 191 b2 then
              if in_rng 128 191 b3 then
                ((p0 - 240) * 262144 + (b1 - 128) * 4096 + (b2 - 128) * 64 + (b3 - 128), 4%nat)
              else (rune_error, 1%nat)
            else (rune_error, 1%nat)
          else (rune_error, 1%nat)
      | _ => (rune_error, 1%nat)
      end
    else (rune_error, 1%nat)
  end.

Definition enc_all (rs : list rune) : list byte := flat_map enc_rune rs.

(* bytesToString: for len(b) > 0 { r, size := DecodeRune(b); b = b[size:] } *)
Fixpoint dec_all_fuel (n : nat) (bs : list byte) : list rune :=
  match n with
  | O => []
  | S n' =>
    match bs with
    | [] => []
    | _ => let '(r, sz) := dec_rune bs in r :: dec_all_fuel n' (skipn sz bs)
    end
  end.
Definition dec_all (bs : list byte) : list rune := dec_all_fuel (length bs) bs.
