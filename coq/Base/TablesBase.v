(* Shapes of the regenerated C05 tables (coq/Gen/Lint*.v, Ref*.v, InterpFuncs.v, Obs*.v) and
   small list / mask helpers.  No proofs about falco here. *)
From Coq Require Import NArith List String Bool.
Import ListNotations.
Local Open Scope N_scope.

(* linter/context.Accessor: Get, Set, Unset, Scopes, Deprecated (types and masks as the Go constants) *)
Record accessor := Acc { a_get : N; a_set : N; a_unset : bool; a_scopes : N; a_depr : bool }.
(* linter/context.Object *)
Inductive vobj := VObj (items : list (string * vobj)) (value : option accessor).
(* linter/context.BuiltinFunction: Arguments, Return, Scopes, Extra <> nil *)
Record bfunc := BF { f_args : list (list N); f_ret : N; f_scopes : N; f_extra : bool }.
Inductive fobj := FObj (items : list (string * fobj)) (value : option bfunc).
(* __generator__/predefined.yml entry: get, set, unset, on, deprecated *)
Record refvar := RV { r_get : string; r_set : string; r_unset : bool; r_on : list string; r_depr : bool }.
(* __generator__/builtin.yml entry: arguments, return, on, extra *)
Record reffunc := RF { rf_args : list (list string); rf_ret : string; rf_on : list string; rf_extra : string }.
(* interpreter/function.Function: Scope, CanStatementCall, indices i < 16 with IsIdentArgument(i) *)
Record ifunc := IFn { if_scope : N; if_stmt : bool; if_ident : list N }.

Definition vitems (o : vobj) := match o with VObj i _ => i end.
Definition vvalue (o : vobj) := match o with VObj _ v => v end.
Definition fitems (o : fobj) := match o with FObj i _ => i end.
Definition fvalue (o : fobj) := match o with FObj _ v => v end.

Fixpoint assoc {A} (k : string) (l : list (string * A)) : option A :=
  match l with
  | [] => None
  | (k', v) :: r => if String.eqb k k' then Some v else assoc k r
  end.

Fixpoint assocN {A} (k : N) (l : list (N * A)) : option A :=
  match l with
  | [] => None
  | (k', v) :: r => if N.eqb k k' then Some v else assocN k r
  end.

Definition join_dot (p s : string) : string := (p ++ "." ++ s)%string.

(* depth-first flattening, a node's own value before its children (the order of implrun c05 listvars) *)
Fixpoint vflatten (fuel : nat) (prefix : string) (o : vobj) : list (string * accessor) :=
  match fuel with
  | O => []
  | S n =>
    (match vvalue o with Some a => [(prefix, a)] | None => [] end)
    ++ flat_map (fun kv => vflatten n (join_dot prefix (fst kv)) (snd kv)) (vitems o)
  end.
Definition vflatten_top (t : list (string * vobj)) : list (string * accessor) :=
  flat_map (fun kv => vflatten 8 (fst kv) (snd kv)) t.

Fixpoint fflatten (fuel : nat) (prefix : string) (o : fobj) : list (string * bfunc) :=
  match fuel with
  | O => []
  | S n =>
    (match fvalue o with Some a => [(prefix, a)] | None => [] end)
    ++ flat_map (fun kv => fflatten n (join_dot prefix (fst kv)) (snd kv)) (fitems o)
  end.
Definition fflatten_top (t : list (string * fobj)) : list (string * bfunc) :=
  flat_map (fun kv => fflatten 8 (fst kv) (snd kv)) t.

Fixpoint vdepth (o : vobj) : nat :=
  match o with VObj items _ => S (fold_right (fun kv m => Nat.max (vdepth (snd kv)) m) O items) end.
Fixpoint fdepth (o : fobj) : nat :=
  match o with FObj items _ => S (fold_right (fun kv m => Nat.max (fdepth (snd kv)) m) O items) end.

(* list helpers *)
Fixpoint list_eqb {A B} (eqb : A -> B -> bool) (a : list A) (b : list B) : bool :=
  match a, b with
  | [], [] => true
  | x :: a', y :: b' => eqb x y && list_eqb eqb a' b'
  | _, _ => false
  end.

Definition mem_str (s : string) (l : list string) : bool := existsb (String.eqb s) l.
Definition mem_N (s : N) (l : list N) : bool := existsb (N.eqb s) l.

Fixpoint nodup_str (l : list string) : bool :=
  match l with
  | [] => true
  | x :: r => negb (mem_str x r) && nodup_str r
  end.

(* ---- strings as the Go code handles them (bytes; ASCII case folding only: every name of the domain is ASCII) *)
From Coq Require Import Ascii.

Fixpoint split_on (c : ascii) (s : string) : list string :=
  match s with
  | EmptyString => [EmptyString]
  | String a r =>
    if Ascii.eqb a c then EmptyString :: split_on c r
    else match split_on c r with
         | [] => [String a EmptyString]
         | h :: t => String a h :: t
         end
  end.

Fixpoint join_with (sep : string) (l : list string) : string :=
  match l with
  | [] => EmptyString
  | [x] => x
  | x :: r => (x ++ sep ++ join_with sep r)%string
  end.

(* strings.SplitN(s, ".", n) for n >= 1: at most n pieces, the last one unsplit *)
Fixpoint splitn_dot_aux (n : nat) (pieces : list string) : list string :=
  match n, pieces with
  | _, [] => []
  | O, _ => pieces
  | S O, _ => [join_with "." pieces]
  | S n', p :: r => p :: splitn_dot_aux n' r
  end.
Definition splitn_dot (n : nat) (s : string) : list string := splitn_dot_aux n (split_on "." s).

Fixpoint contains_char (c : ascii) (s : string) : bool :=
  match s with
  | EmptyString => false
  | String a r => Ascii.eqb a c || contains_char c r
  end.

Definition lower_ascii (a : ascii) : ascii :=
  let n := nat_of_ascii a in
  if (Nat.leb 65 n && Nat.leb n 90)%bool then ascii_of_nat (n + 32) else a.
Fixpoint lower (s : string) : string :=
  match s with
  | EmptyString => EmptyString
  | String a r => String (lower_ascii a) (lower r)
  end.

Fixpoint is_prefix (p s : string) : bool :=
  match p, s with
  | EmptyString, _ => true
  | String a p', String b s' => Ascii.eqb a b && is_prefix p' s'
  | _, _ => false
  end.

Definition is_nil {A} (l : list A) : bool := match l with [] => true | _ => false end.
Definition is_some {A} (o : option A) : bool := match o with Some _ => true | None => false end.

Fixpoint set_assoc {A} (k : string) (v : A) (l : list (string * A)) : list (string * A) :=
  match l with
  | [] => [(k, v)]
  | (k', v') :: r => if String.eqb k k' then (k, v) :: r else (k', v') :: set_assoc k v r
  end.

Fixpoint index_of (s : string) (l : list string) (i : N) : option N :=
  match l with
  | [] => None
  | x :: r => if String.eqb s x then Some i else index_of s r (i + 1)
  end.

Lemma assoc_in : forall A (k : string) (l : list (string * A)) v, assoc k l = Some v -> In (k, v) l.
Proof.
  induction l as [|[k' v'] r IH]; simpl; intros v H; [discriminate|].
  destruct (String.eqb k k') eqn:E.
  - apply String.eqb_eq in E. subst. inversion H. subst. left. reflexivity.
  - right. apply IH. exact H.
Qed.

(* interpreter/variable dispatch, one method or dispatcher function: names of the case labels of `switch name`,
   dispatcher functions called with name, regular expressions name is matched against, methods called on v.base,
   own methods called, switch on strings.ToLower(name) *)
Record ivmethod := IVM { iv_cases : list string; iv_calls : list string; iv_regexes : list string;
                         iv_base : list string; iv_self : list string; iv_lower : bool }.

(* ---- lifting of boolean checks over finite tables; lazily evaluated connectives *)
Lemma forallb2_lift : forall A B (f : A -> B -> bool) (la : list A) (lb : list B),
  forallb (fun a => forallb (f a) lb) la = true -> forall a b, In a la -> In b lb -> f a b = true.
Proof.
  intros A B f la lb H a b Ha Hb.
  rewrite forallb_forall in H. specialize (H a Ha). rewrite forallb_forall in H. exact (H b Hb).
Qed.

(* lazily evaluated connectives (vm_compute is call-by-value: `a || b` would evaluate b on every cell) *)
Definition lor_ (a : bool) (b : unit -> bool) : bool := if a then true else b tt.
Definition limp (a b : bool) (c : unit -> bool) : bool := if a then (if b then true else c tt) else true.
Lemma lor_true : forall a b, lor_ a b = true -> a = true \/ b tt = true.
Proof. intros [] b; simpl; auto. Qed.
Lemma limp_or : forall a b c, limp a b c = true -> a = true -> b = true \/ c tt = true.
Proof. intros [] [] c; simpl; intros; auto; discriminate. Qed.

Lemma forallb_assoc_lift : forall A (f : string -> A -> bool) (l : list (string * A)) name a,
  forallb (fun kv => f (fst kv) (snd kv)) l = true -> assoc name l = Some a -> f name a = true.
Proof.
  intros A f l name a H E. rewrite forallb_forall in H. exact (H (name, a) (assoc_in _ _ _ _ E)).
Qed.

