(* Vocabulary of the request state machine (C06): lifecycle scopes, the states a
   `return (...)` can name, and the actions a lifecycle subroutine can end with.
   Shared by Gen/SMConst.v (regenerated from the Go sources), Gen/ObsEdges.v (observed on
   the real interpreter) and Model/SM.v. *)
From Coq Require Import List Bool.
Import ListNotations.

Inductive scope := Recv | Hash | Hit | Miss | Pass | Fetch | Error | Deliver | Log.

(* what `return (<ident>);` can name: the State constants of interpreter/state.go that the
   parser accepts as an identifier, plus [SUpgrade] (`return (upgrade)`: Fastly's websocket hand-over, not a State of the simulator, not in
   the linter's lists) and [SOther] for any other identifier *)
Inductive rstate :=
  SLookup | SPass | SHash | SError | SRestart | SDeliver | SFetch | SDeliverStale | SHitForPass | SEnd | SUpgrade | SOther.

(* how the body of a lifecycle subroutine ends *)
Inductive action :=
| ANone                 (* falls off the end *)
| ARet (r : rstate)     (* return (r); *)
| ABare                 (* return; *)
| AErrorStmt            (* error ...; *)
| ARestartStmt          (* restart; *)
| AFail                 (* a statement raises a runtime exception *)
| AAbsent.              (* the subroutine is not defined at all: the built-in default runs, no flow entry *)

Definition scope_eqb (a b : scope) : bool :=
  match a, b with
  | Recv, Recv | Hash, Hash | Hit, Hit | Miss, Miss | Pass, Pass | Fetch, Fetch
  | Error, Error | Deliver, Deliver | Log, Log => true
  | _, _ => false
  end.

Definition rstate_eqb (a b : rstate) : bool :=
  match a, b with
  | SLookup, SLookup | SPass, SPass | SHash, SHash | SError, SError | SRestart, SRestart
  | SDeliver, SDeliver | SFetch, SFetch | SDeliverStale, SDeliverStale
  | SHitForPass, SHitForPass | SEnd, SEnd | SUpgrade, SUpgrade | SOther, SOther => true
  | _, _ => false
  end.

Definition action_eqb (a b : action) : bool :=
  match a, b with
  | ANone, ANone | ABare, ABare | AErrorStmt, AErrorStmt | ARestartStmt, ARestartStmt | AFail, AFail
  | AAbsent, AAbsent => true
  | ARet x, ARet y => rstate_eqb x y
  | _, _ => false
  end.

Definition all_scopes : list scope := [Recv; Hash; Hit; Miss; Pass; Fetch; Error; Deliver; Log].
Definition all_rstates : list rstate :=
  [SLookup; SPass; SHash; SError; SRestart; SDeliver; SFetch; SDeliverStale; SHitForPass; SEnd; SUpgrade; SOther].
Definition all_actions : list action :=
  ANone :: ABare :: AErrorStmt :: ARestartStmt :: AFail :: AAbsent :: map ARet all_rstates.

Definition mem_scope (s : scope) (l : list scope) : bool := existsb (scope_eqb s) l.
Definition mem_rstate (s : rstate) (l : list rstate) : bool := existsb (rstate_eqb s) l.

(* what is observed after one (scope, action) step on the real interpreter *)
Inductive outcome :=
| OGo (s : scope)   (* the next lifecycle subroutine in the flow *)
| OLookup           (* vcl_hit when an object is stored under the hash, vcl_miss when not *)
| OEnd              (* the request ends without a reported error *)
| OErr.             (* the request ends with a reported error *)

Definition outcome_eqb (a b : outcome) : bool :=
  match a, b with
  | OGo x, OGo y => scope_eqb x y
  | OLookup, OLookup | OEnd, OEnd | OErr, OErr => true
  | _, _ => false
  end.

(* the lifecycle positions; vcl_hash is split by how vcl_recv left (lookup / pass) *)
Inductive dnode := DRecv | DHashL | DHashP | DHit | DMiss | DPass | DFetch | DError | DDeliver | DLog.
Definition scope_of (n : dnode) : scope :=
  match n with
  | DRecv => Recv | DHashL | DHashP => Hash | DHit => Hit | DMiss => Miss | DPass => Pass
  | DFetch => Fetch | DError => Error | DDeliver => Deliver | DLog => Log
  end.
Definition dnode_eqb (a b : dnode) : bool :=
  match a, b with
  | DRecv, DRecv | DHashL, DHashL | DHashP, DHashP | DHit, DHit | DMiss, DMiss | DPass, DPass
  | DFetch, DFetch | DError, DError | DDeliver, DDeliver | DLog, DLog => true
  | _, _ => false
  end.
