(* Bytes are Coq's 256-constructor [Byte.byte]; arithmetic goes through N. *)
From Coq Require Import List NArith ZArith Lia.
From Coq Require Import Strings.Byte.
Import ListNotations.

Notation byte := Byte.byte.
Definition b2n (b : byte) : N := Byte.to_N b.
Definition n2b (n : N) : byte :=
  match Byte.of_N (n mod 256) with Some b => b | None => x00 end.

Lemma b2n_lt b : (b2n b < 256)%N.
Proof. unfold b2n. pose proof (Byte.to_N_bounded b). lia. Qed.

Lemma b2n_n2b n : b2n (n2b n) = (n mod 256)%N.
Proof.
  unfold n2b, b2n. destruct (Byte.of_N (n mod 256)) eqn:E.
  - apply Byte.to_of_N in E. exact E.
  - apply Byte.of_N_None_iff in E. pose proof (N.mod_upper_bound n 256). lia.
Qed.

Lemma b2n_n2b_small n : (n < 256)%N -> b2n (n2b n) = n.
Proof. intros H. rewrite b2n_n2b. apply N.mod_small; exact H. Qed.

Lemma n2b_b2n b : n2b (b2n b) = b.
Proof.
  unfold n2b, b2n. rewrite N.mod_small by (pose proof (Byte.to_N_bounded b); lia).
  rewrite Byte.of_to_N. reflexivity.
Qed.

Lemma b2n_inj a b : b2n a = b2n b -> a = b.
Proof. intros H. rewrite <- (n2b_b2n a), <- (n2b_b2n b), H. reflexivity. Qed.

Definition byte_eqb (a b : byte) : bool := N.eqb (b2n a) (b2n b).
Lemma byte_eqb_eq a b : byte_eqb a b = true <-> a = b.
Proof. unfold byte_eqb. rewrite N.eqb_eq. split; [apply b2n_inj | congruence]. Qed.
