(* Result monad shared by every model: Crash and OutOfFuel are VALUES, so that
   "never crashes / never hangs" are non-vacuous statements about the model. *)
From Coq Require Import List.
Import ListNotations.

Inductive res (A : Type) : Type :=
| OK (a : A)
| Err            (* an error *returned* by the Go code (error value) *)
| Crash          (* a point where the Go code panics / faults *)
| OutOfFuel.     (* the Go loop / recursion did not finish within the fuel *)
Arguments OK {A} a.
Arguments Err {A}.
Arguments Crash {A}.
Arguments OutOfFuel {A}.

Definition bind {A B} (r : res A) (f : A -> res B) : res B :=
  match r with
  | OK a => f a
  | Err => Err
  | Crash => Crash
  | OutOfFuel => OutOfFuel
  end.

Notation "'do' x <- e ; k" := (bind e (fun x => k))
  (at level 200, x pattern, e at level 100, k at level 200, right associativity).

Definition is_ok {A} (r : res A) : bool := match r with OK _ => true | _ => false end.

Lemma bind_ok {A B} (r : res A) (f : A -> res B) b :
  bind r f = OK b -> exists a, r = OK a /\ f a = OK b.
Proof. destruct r; simpl; intros H; try discriminate; eauto. Qed.
