(* Interleaving model for C18: threads are lists of atomic steps over one shared state; a mutex;
   a schedule is a list of thread ids (who makes the next step).  [exec] is defined exactly on the
   schedules that respect the lock (Acquire fires only when the lock is free, Release only by the
   holder, nobody is scheduled past its end).  No proofs here.

   interpreter/handler.go  ServeHTTP = Acquire; body...; Release   (i.lock.Lock(); defer i.lock.Unlock())
   linter/linter.go        Linter.Error = read slice header; append; write slice header,
                           with or without a mutex around it (custom_linter.go goroutines) *)
From Coq Require Import List Arith Bool.
Import ListNotations.

Section Sched.
  Variable S : Type.     (* the shared state: interpreter fields, cache, counters ... *)
  Variable R : Type.     (* what a thread hands back: the HTTP response *)

  Inductive step :=
  | Acquire
  | Release
  | Act (f : S -> S)          (* one atomic access to the shared state *)
  | Respond (g : S -> R).     (* the thread's response, computed from the shared state *)

  Definition is_body_step (x : step) : bool :=
    match x with Act _ | Respond _ => true | _ => false end.

  Definition handler (body : list step) : list step := Acquire :: body ++ [Release].

  Definition upd {A} (f : nat -> A) (i : nat) (x : A) : nat -> A :=
    fun j => if Nat.eqb j i then x else f j.

  Record config := mkCfg {
    st : S;
    lock : option nat;              (* who holds the mutex *)
    code : nat -> list step;        (* what each thread still has to do *)
    resp : nat -> option R;
    acq : list nat                  (* ghost: the order in which the lock was acquired *)
  }.

  Definition tick (i : nat) (c : config) : option config :=
    match code c i with
    | [] => None
    | Acquire :: rest =>
        match lock c with
        | None => Some (mkCfg (st c) (Some i) (upd (code c) i rest) (resp c) (acq c ++ [i]))
        | Some _ => None
        end
    | Release :: rest =>
        match lock c with
        | Some j => if Nat.eqb j i then Some (mkCfg (st c) None (upd (code c) i rest) (resp c) (acq c)) else None
        | None => None
        end
    | Act f :: rest => Some (mkCfg (f (st c)) (lock c) (upd (code c) i rest) (resp c) (acq c))
    | Respond g :: rest =>
        Some (mkCfg (st c) (lock c) (upd (code c) i rest) (upd (resp c) i (Some (g (st c)))) (acq c))
    end.

  Fixpoint exec (sched : list nat) (c : config) : option config :=
    match sched with
    | [] => Some c
    | i :: t => match tick i c with Some c' => exec t c' | None => None end
    end.

  Definition init (threads : list (list step)) (s0 : S) : config :=
    mkCfg s0 None (fun i => nth i threads []) (fun _ => None) [].

  Definition finished (n : nat) (c : config) : Prop := forall i, i < n -> code c i = [].

  (* a schedule respects the lock and runs every thread to its end *)
  Definition respects_lock (threads : list (list step)) (s0 : S) (sched : list nat) (c : config) : Prop :=
    exec sched (init threads s0) = Some c /\ finished (length threads) c.

  (* ---- the one-at-a-time reference ---- *)
  Fixpoint run_body (b : list step) (s : S) (r : option R) : S * option R :=
    match b with
    | [] => (s, r)
    | Act f :: t => run_body t (f s) r
    | Respond g :: t => run_body t s (Some (g s))
    | _ :: t => run_body t s r
    end.

  Section Seq.
    Variable B : nat -> list step.     (* the body of request i *)
    Definition seq_final (order : list nat) (s : S) : S :=
      fold_left (fun s i => fst (run_body (B i) s None)) order s.
    Fixpoint seq_resp (order : list nat) (s : S) (i : nat) : option R :=
      match order with
      | [] => None
      | j :: t => if Nat.eqb j i then snd (run_body (B j) s None)
                  else seq_resp t (fst (run_body (B j) s None)) i
      end.
  End Seq.

  (* the schedule that serves the requests one after the other in the given order *)
  Definition sequential (threads : list (list step)) (order : list nat) : list nat :=
    flat_map (fun i => repeat i (length (nth i threads []))) order.
End Sched.

Arguments st {S R} c.
Arguments lock {S R} c.
Arguments code {S R} c.
Arguments resp {S R} c.
Arguments acq {S R} c.
Arguments mkCfg {S R}.
Arguments tick {S R} i c.
Arguments exec {S R} sched c.
Arguments init {S R} threads s0.
Arguments finished {S R} n c.
Arguments respects_lock {S R} threads s0 sched c.
Arguments run_body {S R} b s r.
Arguments seq_final {S R} B order s.
Arguments seq_resp {S R} B order s i.
Arguments handler {S R} body.
Arguments is_body_step {S R} x.
Arguments sequential {S R} threads order.
Arguments Acquire {S R}.
Arguments Release {S R}.
Arguments Act {S R} f.
Arguments Respond {S R} g.

(* ---- plugin reporting: l.Errors = append(l.Errors, e) ----
   shared state = (the slice, one register per thread holding the slice header it has read) *)
Section Append.
  Variable D : Type.      (* a diagnostic *)
  Definition astate := (list D * (nat -> list D))%type.
  Definition RD (i : nat) : step astate unit :=
    Act (fun s => (fst s, upd (snd s) i (fst s))).
  Definition WR (i : nat) (d : D) : step astate unit :=
    Act (fun s => (snd s i ++ [d], snd s)).
  (* one call of Linter.Error by the goroutine that reports diagnostic number i *)
  Definition report_unlocked (i : nat) (d : D) : list (step astate unit) := [RD i; WR i d].
  Definition report_locked (i : nat) (d : D) : list (step astate unit) := handler [RD i; WR i d].
  Definition reports (mk : nat -> D -> list (step astate unit)) (ds : list D) : list (list (step astate unit)) :=
    map (fun p => mk (fst p) (snd p)) (combine (seq 0 (length ds)) ds).
  Definition astate0 : astate := ([], fun _ => []).

  (* custom_linter.go literally: plugin goroutine k calls Linter.Error once for EACH diagnostic of its
     response, in order (for i := range resp.Errors { l.Error(...) }); all goroutines share l.Errors *)
  Definition plugin_code (mk : nat -> D -> list (step astate unit)) (k : nat) (ds : list D) : list (step astate unit) :=
    flat_map (mk k) ds.
  Definition plugin_threads (mk : nat -> D -> list (step astate unit)) (dss : list (list D))
    : list (list (step astate unit)) :=
    map (fun p => plugin_code mk (fst p) (snd p)) (combine (seq 0 (length dss)) dss).
End Append.

(* ---- plugin results as custom_linter.go collects them now: results[idx] is filled by goroutine idx only
   (report := func(e) { results[idx] = append(results[idx], e) }), and after wg.Wait() the slots are
   reported in annotation order.  A plugin either answers with its diagnostics or fails (not found, non-zero
   exit, timeout, unreadable answer), which is reported as ONE diagnostic in its place. ---- *)
Section Collect.
  Variable D : Type.
  Inductive outcome := Answered (ds : list D) | Failed (d : D).
  Definition diags (o : outcome) : list D := match o with Answered ds => ds | Failed d => [d] end.
  Definition slots := nat -> list D.
  Definition slot_step (i : nat) (d : D) : step slots unit := Act (fun s => upd s i (s i ++ [d])).
  Definition slot_thread (i : nat) (o : outcome) : list (step slots unit) := map (slot_step i) (diags o).
  Definition collect_threads (os : list outcome) : list (list (step slots unit)) :=
    map (fun p => slot_thread (fst p) (snd p)) (combine (seq 0 (length os)) os).
  Definition slots0 : slots := fun _ => [].
  (* for i := range results { for _, e := range results[i] { l.Error(e) } } *)
  Definition collected (n : nat) (s : slots) : list D := flat_map s (seq 0 n).
End Collect.
Arguments Answered {D} ds.
Arguments Failed {D} d.
