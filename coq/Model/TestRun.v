(* C10 - the test runner: tester/tester.go (run: one FRESH interpreter per ungrouped test
   subroutine, the scopes of one test share it; @skip; error => Counter.Fail),
   tester/shared/counter.go, tester/function/functions.go (assertion wrappers: Counter.Pass /
   Counter.Fail around every assertion), cmd/falco/main.go runTest (exit status from
   Statistics.Fails).  No proofs here. *)
From Coq Require Import List NArith Bool.
Import ListNotations.

Inductive verdict := Pass | FailAssert | FailRuntime.
Definition failed (v : verdict) : bool := match v with Pass => false | _ => true end.

(* tester/shared/counter.go *)
Record counter := { asserts : nat; passes : nat; fails : nat; skips : nat }.
Definition c0 : counter := {| asserts := 0; passes := 0; fails := 0; skips := 0 |}.
Definition c_pass (k : nat) (c : counter) : counter :=
  {| asserts := asserts c + k; passes := passes c + k; fails := fails c; skips := skips c |}.
Definition c_fail (k : nat) (c : counter) : counter :=
  {| asserts := asserts c + k; passes := passes c; fails := fails c + k; skips := skips c |}.
Definition c_skip (c : counter) : counter :=
  {| asserts := asserts c; passes := passes c; fails := fails c; skips := skips c + 1 |}.

Section Runner.
Variable scope : Type.
Variable logline : Type.
Variable istate : Type.       (* everything one interpreter holds *)
Variable body : Type.         (* a test subroutine *)
(* ProcessTestSubroutine in one scope: number of assertions that held before the end,
   verdict, Debugger.stack, interpreter afterwards *)
Variable run_body : scope -> body -> istate -> nat * verdict * list logline * istate.
Variable init : istate.       (* setupInterpreter + TestProcessInit *)

Record test := { t_name : N; t_scopes : list scope; t_skip : bool; t_body : body }.
(* a TestCase: one (test, scope) *)
Record tcase := { tc_name : N; tc_scope : scope; tc_skip : bool; tc_verdict : verdict;
                  tc_logs : list logline }.

(* the loop `for _, s := range metadata.Scopes` of Tester.run for ONE subroutine *)
Fixpoint run_scopes (t : test) (ss : list scope) (σ : istate) (c : counter) : list tcase * counter :=
  match ss with
  | [] => ([], c)
  | s :: r =>
      if t_skip t then
        let (cs, c') := run_scopes t r σ (c_skip c) in
        ({| tc_name := t_name t; tc_scope := s; tc_skip := true; tc_verdict := Pass; tc_logs := [] |} :: cs, c')
      else
        match run_body s (t_body t) σ with
        | (k, v, lg, σ') =>
            (* k assertions called Counter.Pass; a failing assertion called Counter.Fail and the
               runner calls it again; a runtime error: the runner's Fail only *)
            let c1 := c_pass k c in
            let c2 := match v with Pass => c1 | FailAssert => c_fail 2 c1 | FailRuntime => c_fail 1 c1 end in
            let (cs, c') := run_scopes t r σ' c2 in
            ({| tc_name := t_name t; tc_scope := s; tc_skip := false; tc_verdict := v; tc_logs := lg |} :: cs, c')
        end
  end.

Definition run_test (t : test) (c : counter) : list tcase * counter :=
  run_scopes t (t_scopes t) init c.

(* one test file: `for _, stmt := range vcl.Statements` *)
Fixpoint run_file (ts : list test) (c : counter) : list tcase * counter :=
  match ts with
  | [] => ([], c)
  | t :: r => let (cs1, c1) := run_test t c in
              let (cs2, c2) := run_file r c1 in (cs1 ++ cs2, c2)
  end.

(* ---- describe groups (runDescribedTests): ONE interpreter for the whole group; for every
   (test, scope): a new Debugger, the before_<scope> hook, the test, the after_<scope> hook, all on
   that interpreter in order.  A hook that raises (or whose assertion fails) makes runDescribedTests
   return an error: Tester.Run fails and there is no report at all ([None]).  Log lines of the
   before hook are part of the case's logs; those of the after hook come after the case was
   recorded and are lost. *)
Record group := { g_name : N; g_before : scope -> option body; g_after : scope -> option body;
                  g_tests : list test }.

Definition run_hook (h : option body) (s : scope) (σ : istate) (c : counter)
  : option (list logline * istate * counter) :=
  match h with
  | None => Some ([], σ, c)
  | Some b => match run_body s b σ with
              | (k, Pass, lg, σ') => Some (lg, σ', c_pass k c)
              | _ => None
              end
  end.

Fixpoint grp_scopes (g : group) (t : test) (ss : list scope) (σ : istate) (c : counter)
  : option (list tcase * istate * counter) :=
  match ss with
  | [] => Some ([], σ, c)
  | s :: r =>
      if t_skip t then
        match grp_scopes g t r σ (c_skip c) with
        | Some (cs, σ', c') =>
            Some ({| tc_name := t_name t; tc_scope := s; tc_skip := true; tc_verdict := Pass; tc_logs := [] |} :: cs, σ', c')
        | None => None
        end
      else
        match run_hook (g_before g s) s σ c with
        | None => None
        | Some (lg0, σ0, c0') =>
          match run_body s (t_body t) σ0 with
          | (k, v, lg, σ1) =>
            let c1 := c_pass k c0' in
            let c2 := match v with Pass => c1 | FailAssert => c_fail 2 c1 | FailRuntime => c_fail 1 c1 end in
            match run_hook (g_after g s) s σ1 c2 with
            | None => None
            | Some (_, σ2, c3) =>
              match grp_scopes g t r σ2 c3 with
              | Some (cs, σ', c') =>
                  Some ({| tc_name := t_name t; tc_scope := s; tc_skip := false; tc_verdict := v;
                           tc_logs := lg0 ++ lg |} :: cs, σ', c')
              | None => None
              end
            end
          end
        end
  end.

Fixpoint grp_tests (g : group) (ts : list test) (σ : istate) (c : counter)
  : option (list tcase * istate * counter) :=
  match ts with
  | [] => Some ([], σ, c)
  | t :: r =>
      match grp_scopes g t (t_scopes t) σ c with
      | None => None
      | Some (cs1, σ1, c1) =>
        match grp_tests g r σ1 c1 with
        | None => None
        | Some (cs2, σ2, c2) => Some (cs1 ++ cs2, σ2, c2)
        end
      end
  end.

(* a statement of the test file: an ungrouped test subroutine, or a describe group *)
Inductive item := ISingle (t : test) | IGroup (g : group).
Definition gcase := (option N * tcase)%type.          (* the group a case belongs to *)

Definition run_item (i : item) (c : counter) : option (list gcase * counter) :=
  match i with
  | ISingle t => let (cs, c') := run_test t c in Some (map (fun x => (None, x)) cs, c')
  | IGroup g =>
      match grp_tests g (g_tests g) init c with
      (* the TestCase of a skipped test carries no Group *)
      | Some (cs, _, c') => Some (map (fun x => (if tc_skip x then None else Some (g_name g), x)) cs, c')
      | None => None
      end
  end.

Fixpoint run_items (is : list item) (c : counter) : option (list gcase * counter) :=
  match is with
  | [] => Some ([], c)
  | i :: r =>
      match run_item i c with
      | None => None
      | Some (cs1, c1) =>
        match run_items r c1 with
        | None => None
        | Some (cs2, c2) => Some (cs1 ++ cs2, c2)
        end
      end
  end.

(* runTest: `if factory.Statistics.Fails > 0 { return ErrExit }` *)
Definition exit_status (c : counter) : nat := match fails c with O => 0 | S _ => 1 end.

(* Tester.Run over the test FILES of one invocation: `for i := range targetFiles { result, err := t.run(f);
   if err != nil { return nil, err } ... }` with ONE counter.  A file that cannot be resolved / lexed / parsed
   (or whose run times out) fails in t.run before any of its tests runs: [FBroken].  The error leaves Run
   without a factory: no result of ANY file is reported. *)
Inductive tfile := FBroken | FOk (is : list item).
Fixpoint run_files (fs : list tfile) (c : counter) : option (list gcase * counter) :=
  match fs with
  | [] => Some ([], c)
  | FBroken :: _ => None
  | FOk is :: r =>
      match run_items is c with
      | None => None
      | Some (cs1, c1) =>
        match run_files r c1 with
        | None => None
        | Some (cs2, c2) => Some (cs1 ++ cs2, c2)
        end
      end
  end.
(* cmd/falco runTest: an error of runner.Test is printed and the process ends with ErrExit (1) without a
   report; otherwise the report is printed and the exit status follows the fail count.
   (exit status, reported cases, reported counter) *)
Definition cli_outcome (fs : list tfile) : nat * list gcase * counter :=
  match run_files fs c0 with
  | None => (1, [], c0)
  | Some (cs, c) => (exit_status c, cs, c)
  end.

(* what the text report counts *)
Definition is_skipped (x : tcase) : bool := tc_skip x.
Definition is_failed (x : tcase) : bool := negb (tc_skip x) && failed (tc_verdict x).
Definition is_passed (x : tcase) : bool := negb (tc_skip x) && negb (failed (tc_verdict x)).
Definition count (p : tcase -> bool) (l : list tcase) : nat := length (filter p l).

Definition expand_scopes (ts : list test) : list (test * scope) :=
  flat_map (fun t => map (fun s => (t, s)) (t_scopes t)) ts.

End Runner.

(* ---- @tag filtering (tester/metadata.go MatchTags, tester.go: a tagged test runs exactly when its tags
   match the -t option; an untagged test always runs; a test that does not run is recorded as skipped) *)
Definition tag := (N * bool)%type.                 (* name, inverse (`!name`) *)

Definition tag_hit (cli : N) (v : tag) : bool :=
  if N.eqb (fst v) cli then negb (snd v) else snd v.
Definition match_tags (tags : list tag) (cli : list N) : bool :=
  match tags with
  | [] => false
  | _ => match cli with
         | [] => forallb (fun v => snd v) tags            (* no -t: only when every tag is inverted *)
         | _ => existsb (fun c => existsb (tag_hit c) tags) cli
         end
  end.
Definition tag_runs (tags : list tag) (cli : list N) : bool :=
  match tags with [] => true | _ => match_tags tags cli end.


(* ---- test bodies as straight-line steps *)
Section Steps.
Variable scope : Type.
Variable logline : Type.
Variable istate : Type.

Inductive step :=
| Act (f : scope -> istate -> istate * list logline * bool)     (* a statement: state and log lines it
                                                                   leaves, false when it raised *)
| Assert (holds : scope -> istate -> bool).                     (* an assert.* call *)

Fixpoint run_steps (sc : scope) (b : list step) (σ : istate) (k : nat) (lg : list logline)
  : nat * verdict * list logline * istate :=
  match b with
  | [] => (k, Pass, lg, σ)
  | Act f :: r =>
      match f sc σ with
      | (σ', l, true) => run_steps sc r σ' k (lg ++ l)
      | (σ', l, false) => (k, FailRuntime, lg ++ l, σ')
      end
  | Assert h :: r => if h sc σ then run_steps sc r σ (S k) lg else (k, FailAssert, lg, σ)
  end.

Definition run_body_steps (sc : scope) (b : list step) (σ : istate) := run_steps sc b σ 0 [].

End Steps.

Arguments g_name {scope body}.
Arguments g_before {scope body}.
Arguments g_after {scope body}.
Arguments g_tests {scope body}.
Arguments ISingle {scope body}.
Arguments FBroken {scope body}.
Arguments FOk {scope body}.
Arguments IGroup {scope body}.
Arguments t_name {scope body}.
Arguments t_scopes {scope body}.
Arguments t_skip {scope body}.
Arguments t_body {scope body}.
Arguments tc_name {scope logline}.
Arguments tc_scope {scope logline}.
Arguments tc_skip {scope logline}.
Arguments tc_verdict {scope logline}.
Arguments tc_logs {scope logline}.
Arguments is_skipped {scope logline}.
Arguments is_failed {scope logline}.
Arguments is_passed {scope logline}.
Arguments count {scope logline}.
Arguments expand_scopes {scope body}.
Arguments Act {scope logline istate}.
Arguments Assert {scope logline istate}.

Section Tags.
Variable scope body : Type.
(* what the runner does with a tagged test under -t cli: the test, skipped when filtered out *)
Definition untag (cli : list N) (tt : list tag * test scope body) : test scope body :=
  let (tg, t) := tt in
  {| t_name := t_name t; t_scopes := t_scopes t; t_skip := t_skip t || negb (tag_runs tg cli); t_body := t_body t |}.
End Tags.
Arguments untag {scope body}.
