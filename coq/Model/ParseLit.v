(* Literal conversion: parser/vcl_type_parser.go (ParseInteger, ParseFloat, ParseRTime,
   ParseString) and parser/string_escape.go (decodeStringEscapes).  strconv.ParseInt /
   ParseUint are modelled (base 10 / 16, 64 bits); strconv.ParseFloat is external: its
   accept/reject answer is the oracle [fok] (the float VALUE is not part of the model, a
   FLOAT node keeps its source literal).  No proofs here. *)
From Coq Require Import List NArith ZArith Bool.
From Falco Require Import Base.Bytes Base.Utf8 Gen.TokenTypes Model.ParseBase.
Import ListNotations.
Local Open Scope N_scope.

Definition is_c (c : N) (b : byte) : bool := b2n b =? c.

(* ---------- strconv.ParseUint(s, base, 64) / ParseInt(s, base, 64), base given (10 or 16) *)
Definition digit_val (b : byte) : option N :=
  let c := b2n b in
  if (48 <=? c) && (c <=? 57) then Some (c - 48)
  else if (97 <=? c) && (c <=? 122) then Some (c - 97 + 10)
  else if (65 <=? c) && (c <=? 90) then Some (c - 65 + 10)
  else None.

Definition two64 : N := 18446744073709551616.
Definition two63 : N := 9223372036854775808.

Fixpoint uint_loop (base acc : N) (s : str) : option N :=
  match s with
  | [] => Some acc
  | c :: s' =>
    match digit_val c with
    | None => None
    | Some d =>
      if base <=? d then None
      else let acc' := acc * base + d in
           if two64 <=? acc' then None else uint_loop base acc' s'
    end
  end.

Definition parse_uint (base : N) (s : str) : option N :=
  match s with [] => None | _ => uint_loop base 0 s end.

Definition parse_int (base : N) (s : str) : option Z :=
  match s with
  | [] => None
  | c :: s' =>
    let '(neg, body) := if is_c 43 c then (false, s') else if is_c 45 c then (true, s') else (false, s) in
    match parse_uint base body with
    | None => None
    | Some u =>
      if neg then (if two63 <? u then None else Some (- Z.of_N u)%Z)
      else (if two63 <=? u then None else Some (Z.of_N u))
    end
  end.

(* ParseInteger: base 16 only behind 0x/0X (len > 2); the magnitude must fit int64, except
   2^63 directly behind a unary minus (prevToken is MINUS), which wraps to -2^63 *)
Definition int_split (l : str) : N * str :=
  match l with
  | c0 :: c1 :: ((_ :: _) as rest) =>
      if is_c 48 c0 && (is_c 120 c1 || is_c 88 c1) then (16, rest) else (10, l)
  | _ => (10, l)
  end.

Definition conv_integer (negated : bool) (l : str) : option Z :=
  let '(base, digits) := int_split l in
  match parse_int base digits with
  | Some i => Some i
  | None =>
    match parse_uint base digits with
    | Some u => if (u =? two63) && negated then Some (- Z.of_N two63)%Z else None
    | None => None
    end
  end.

(* ---------- ParseFloat: the string handed to strconv.ParseFloat *)
Definition contains_c (c : N) (l : str) : bool := existsb (is_c c) l.
Definition float_arg (l : str) : str :=
  match l with
  | c0 :: c1 :: _ :: _ =>
      if is_c 48 c0 && (is_c 120 c1 || is_c 88 c1) && negb (contains_c 112 l)
      then l ++ [n2b 112; n2b 48] else l
  | _ => l
  end.

(* ---------- ParseRTime: ms, s, m, h, d, y (in this order); the rest must be a float *)
Definition rtime_value (l : str) : option str :=
  match rev l with
  | c :: r =>
      if is_c 115 c then
        match r with
        | m :: r' => if is_c 109 m then Some (rev r') else Some (rev r)
        | [] => Some []
        end
      else if is_c 109 c || is_c 104 c || is_c 100 c || is_c 121 c then Some (rev r)
      else None
  | [] => None
  end.

(* ---------- decodeStringEscapes *)
Definition is_hex (b : byte) : bool :=
  let c := b2n b in
  ((48 <=? c) && (c <=? 57)) || ((97 <=? c) && (c <=? 102)) || ((65 <=? c) && (c <=? 70)).
Definition hex_val (b : byte) : N :=
  let c := b2n b in
  if c <=? 57 then c - 48 else if 97 <=? c then c - 97 + 10 else c - 65 + 10.

Inductive esc_res :=
| EscOK (out : list byte) (rest : list byte)
| EscNull          (* NULLbyte sentinel: stop processing the string *)
| EscErr.

(* readByte: two runes, both hex digits *)
Definition read_byte (s : list byte) : option (N * list byte) :=
  match s with
  | a :: b :: rest => if is_hex a && is_hex b then Some (hex_val a * 16 + hex_val b, rest) else None
  | _ => None
  end.

(* the i = 1 .. n-1 continuation escapes `%XX` *)
Fixpoint more_bytes (k : nat) (s : list byte) (acc : list byte) : option (list byte * list byte) :=
  match k with
  | O => Some (acc, s)
  | S k' =>
    match s with
    | p :: s1 =>
      if is_c 37 p then
        match read_byte s1 with
        | Some (b, s2) => more_bytes k' s2 (acc ++ [n2b b])
        | None => None
        end
      else None
    | [] => None
    end
  end.

Definition utf8_escape (s : list byte) : esc_res :=
  match read_byte s with
  | None => EscErr
  | Some (b1, s1) =>
    if b1 <? 128 then (if b1 =? 0 then EscNull else EscOK [n2b b1] s1)
    else
      let n := if (192 <=? b1) && (b1 <=? 223) then 2%nat
               else if (224 <=? b1) && (b1 <=? 239) then 3%nat
               else if (240 <=? b1) && (b1 <=? 247) then 4%nat else 0%nat in
      match n with
      | O => EscErr
      | S k =>
        match more_bytes k s1 [n2b b1] with
        | None => EscErr
        | Some (bs, s2) =>
          let '(r, _) := dec_rune bs in
          if r =? rune_error then EscErr else EscOK (enc_rune r) s2
        end
      end
  end.

(* up to [k] hex digits *)
Fixpoint hex_run (k : nat) (s : list byte) (x : N) (cnt : nat) : N * nat * list byte :=
  match k with
  | O => (x, cnt, s)
  | S k' =>
    match s with
    | c :: s' => if is_hex c then hex_run k' s' (x * 16 + hex_val c) (S cnt) else (x, cnt, s)
    | [] => (x, cnt, s)
    end
  end.

Definition code_point_result (x : N) (s : list byte) : esc_res :=
  if x =? 0 then EscNull
  else if 1114111 <? x then EscErr
  else if (55296 <=? x) && (x <=? 57343) then EscErr
  else EscOK (enc_rune x) s.

(* after `%u` *)
Definition code_point_escape (s : list byte) : esc_res :=
  match s with
  | b :: s1 =>
    if is_c 123 b then
      let '(x, cnt, s2) := hex_run 6 s1 0 0 in
      if (cnt <? 1)%nat then EscErr
      else match s2 with
           | c :: s3 => if is_c 125 c then code_point_result x s3 else EscErr
           | [] => EscErr
           end
    else
      let '(x, cnt, s2) := hex_run 4 s 0 0 in
      if (cnt <? 4)%nat then EscErr else code_point_result x s2
  | [] => EscErr
  end.

(* the main loop, one rune per iteration (the decoded text is built front to back: linear time) *)
Definition pcons (out : list byte) (r : pres str) : pres str :=
  match r with POK t => POK (out ++ t) | e => e end.

Fixpoint dec_esc (fuel : nat) (s : list byte) : pres str :=
  match fuel with
  | O => PFuel
  | S f =>
    match s with
    | [] => POK []
    | _ =>
      let '(c, sz) := dec_rune s in
      let s1 := skipn sz s in
      if c =? 0 then POK []
      else if c =? 37 then
        let r := match s1 with
                 | u :: s2 => if is_c 117 u then code_point_escape s2 else utf8_escape s1
                 | [] => utf8_escape s1
                 end in
        match r with
        | EscOK out s' => pcons out (dec_esc f s')
        | EscNull => POK []
        | EscErr => PErrNoTok
        end
      else pcons (enc_rune c) (dec_esc f s1)
    end
  end.

Definition decode_escapes (s : str) : pres str := dec_esc (S (length s)) s.
