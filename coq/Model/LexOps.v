(* The operator / punctuation part of NextToken as a decision table: the interpreter of the table
   regenerated from the Go switch (Gen/LexOps.v op_table) and the documented table it must equal.
   Proofs/LexOps.v shows that Model/Lex.v lex_char IS this interpreter on every table entry
   that is free of special (non-table) actions. *)
From Coq Require Import List NArith Bool.
From Coq Require Strings.String Strings.Ascii.
From Falco Require Import Base.Res Base.Bytes Base.Utf8 Gen.Tokens Gen.LexOps Model.Lex.
Import ListNotations.
Local Open Scope N_scope.

(* newToken(ty, l.char, line, index) [; t.Literal = lit], then the common tail of NextToken *)
Definition leaf (ty lit : str) (st : lexer) (ln i : N) : res (token * lexer) :=
  finish (mkTok ty (match lit with [] => [ch st] | _ => lit end) ln i) st.

Fixpoint interp (t : optree) (st : lexer) (ln i : N) : res (token * lexer) :=
  match t with
  | OLeaf ty lit => leaf ty lit st ln i
  | OCall _ _ => Err
  | OSpecial _ => Err
  | OPeek cases d =>
    (fix go (cs : list (N * bool * optree)) : res (token * lexer) :=
       match cs with
       | [] => interp d st ln i
       | (k, reads, sub) :: r =>
         if peek_char st =? k then interp sub (if reads then read_char st else st) ln i
         else go r
       end) cases
  end.

Fixpoint simple (t : optree) : bool :=
  match t with
  | OLeaf _ _ => true
  | OCall _ _ => false
  | OSpecial _ => false
  | OPeek cases d =>
    (fix all (cs : list (N * bool * optree)) : bool :=
       match cs with [] => true | (_, _, sub) :: r => simple sub && all r end) cases && simple d
  end.

(* the table interpreter with the two comment readers: fuelled as in Model/Lex.v *)
Module CallNames.
  Import Strings.String.
  Local Open Scope string_scope.
  Definition N_readEOL := Eval vm_compute in s2r "readEOL".
  Definition N_readMultiComment := Eval vm_compute in s2r "readMultiComment".
End CallNames.
Export CallNames.

Definition call (n : nat) (ty fn : str) (st : lexer) (ln i : N) : res (token * lexer) :=
  if str_eqb fn N_readEOL then do (l, st1) <- read_eol n st; finish (mkTok ty l ln i) st1
  else if str_eqb fn N_readMultiComment then do (l, st1) <- read_multi_comment n st; finish (mkTok ty l ln i) st1
  else Err.

Fixpoint interp_c (n : nat) (t : optree) (st : lexer) (ln i : N) : res (token * lexer) :=
  match t with
  | OLeaf ty lit => leaf ty lit st ln i
  | OCall ty fn => call n ty fn st ln i
  | OSpecial _ => Err
  | OPeek cases d =>
    (fix go (cs : list (N * bool * optree)) : res (token * lexer) :=
       match cs with
       | [] => interp_c n d st ln i
       | (k, reads, sub) :: r =>
         if peek_char st =? k then interp_c n sub (if reads then read_char st else st) ln i
         else go r
       end) cases
  end.

(* no OSpecial, and only the two known readers *)
Fixpoint simple_c (t : optree) : bool :=
  match t with
  | OLeaf _ _ => true
  | OCall _ fn => str_eqb fn N_readEOL || str_eqb fn N_readMultiComment
  | OSpecial _ => false
  | OPeek cases d =>
    (fix all (cs : list (N * bool * optree)) : bool :=
       match cs with [] => true | (_, _, sub) :: r => simple_c sub && all r end) cases && simple_c d
  end.

(* special actions compare equal whatever the translator calls them *)
Fixpoint erase (t : optree) : optree :=
  match t with
  | OLeaf ty lit => OLeaf ty lit
  | OCall ty fn => OCall ty fn
  | OSpecial _ => OSpecial []
  | OPeek cases d =>
    OPeek ((fix m (cs : list (N * bool * optree)) : list (N * bool * optree) :=
              match cs with [] => [] | (k, b, sub) :: r => (k, b, erase sub) :: m r end) cases) (erase d)
  end.

(* ---- the documented table: every operator and punctuation token of Fastly VCL as falco spells it ---- *)
Module OpRef.
  Import Strings.String.
  Local Open Scope string_scope.
  Definition chr (s : string) : N := hd 0 (s2r s).
  Definition L (ty : str) (s : string) : optree := OLeaf ty (s2r s).     (* a token with an explicit spelling *)
  Definition L1 (ty : str) : optree := OLeaf ty [].                      (* the character itself *)
  Definition SP : optree := OSpecial [].
  Definition CALL (ty : str) (fn : string) : optree := OCall ty (s2r fn).   (* the literal is read by a loop of reader.go *)
  Definition on (s : string) (t : optree) : N * bool * optree := (chr s, true, t).
  Definition ref_op_table : list (N * optree) := Eval vm_compute in [
    (chr "=", OPeek [on "=" (L T_EQUAL "==")] (L1 T_ASSIGN));
    (chr "-", OPeek [on "=" (L T_SUBTRACTION "-=")] (L1 T_MINUS));
    (chr "{", SP);                                            (* long string or LEFT_BRACE *)
    (chr "}", L1 T_RIGHT_BRACE);
    (chr "(", L1 T_LEFT_PAREN);
    (chr ")", L1 T_RIGHT_PAREN);
    (chr "[", L1 T_LEFT_BRACKET);
    (chr "]", L1 T_RIGHT_BRACKET);
    (34, SP);                                                 (* string *)
    (chr ";", L1 T_SEMICOLON);
    (chr ".", L1 T_DOT);
    (chr ",", L1 T_COMMA);
    (chr "/", OPeek [on "=" (L T_DIVISION "/="); (chr "/", false, CALL T_COMMENT "readEOL"); (chr "*", false, CALL T_COMMENT "readMultiComment")] (L1 T_SLASH));
    (chr "#", CALL T_COMMENT "readEOL");                      (* comment *)
    (chr "|", OPeek [on "|" (OPeek [on "=" (L T_LOGICAL_OR "||=")] (L T_OR "||")); on "=" (L T_BITWISE_OR "|=")] (L1 T_ILLEGAL));
    (chr "&", OPeek [on "&" (OPeek [on "=" (L T_LOGICAL_AND "&&=")] (L T_AND "&&")); on "=" (L T_BITWISE_AND "&=")] (L1 T_ILLEGAL));
    (chr "^", OPeek [on "=" (L T_BITWISE_XOR "^=")] (L1 T_ILLEGAL));
    (chr "+", OPeek [on "=" (L T_ADDITION "+=")] (L1 T_PLUS));
    (chr ">", OPeek [on ">" (OPeek [on "=" (L T_RIGHT_SHIFT ">>=")] (L T_ILLEGAL ">>")); on "=" (L T_GREATER_THAN_EQUAL ">=")] (L1 T_GREATER_THAN));
    (chr "<", OPeek [on "<" (OPeek [on "=" (L T_LEFT_SHIFT "<<=")] (L T_ILLEGAL "<<")); on "=" (L T_LESS_THAN_EQUAL "<=")] (L1 T_LESS_THAN));
    (chr "%", OPeek [on "=" (L T_REMAINDER "%=")] (L1 T_PERCENT));
    (chr ":", L1 T_COLON);
    (chr "~", L1 T_REGEX_MATCH);
    (chr "!", OPeek [on "=" (L T_NOT_EQUAL "!="); on "~" (L T_NOT_REGEX_MATCH "!~")] (L1 T_NOT));
    (chr "*", OPeek [on "=" (L T_MULTIPLICATION "*=")] (L1 T_ILLEGAL));
    (0, SP);                                                  (* EOF *)
    (10, L1 T_LF) ].
End OpRef.
Export OpRef.
