(* C20 - where the VCL snippets of a service go (snippet/fetch.go fetchVCLSnippets, repaired):
   all snippets are sorted by ascending priority with sort.SliceStable, then distributed in that
   order: a snippet of type none is stored in a map under its name as written (no sanitising; a
   later one of the same name replaces the earlier), every other snippet is appended to the list of
   its type.  Definitions only. *)
From Coq Require Import List ZArith Bool.
From Falco Require Import Base.Bytes Model.HdrField.
Import ListNotations.
Local Open Scope Z_scope.

Record snip := { s_name : bytes; s_type : bytes; s_prio : Z; s_content : bytes }.

(* the text none *)
Definition t_none : bytes := [Byte.x6e; Byte.x6f; Byte.x6e; Byte.x65].

(* sort.SliceStable(snippets, Priority <): stable insertion *)
Fixpoint insert (x : snip) (l : list snip) : list snip :=
  match l with
  | [] => [x]
  | y :: t => if s_prio x <=? s_prio y then x :: y :: t else y :: insert x t
  end.
Definition sort_stable (l : list snip) : list snip := fold_right insert [] l.

Definition has_type (ty : bytes) (s : snip) : bool := beq ty (s_type s).
Definition is_none (s : snip) : bool := has_type t_none s.

(* scoped[ty] for a type other than none: the snippets of that type in sorted order *)
Definition scoped (ty : bytes) (l : list snip) : list snip := filter (has_type ty) (sort_stable l).

(* include[name]: the last snippet of type none stored under exactly that name *)
Definition include_of (name : bytes) (l : list snip) : option snip :=
  last (map Some (filter (fun s => is_none s && beq name (s_name s)) (sort_stable l))) None.
