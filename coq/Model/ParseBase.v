(* Tokens, the two-token window and the result type of the parser model (parser/parser.go).
   A token is (type, literal, offset): positions are not part of the model (they are
   carried on the Go side only); `Offset` is kept because ParseString tests `Offset == 2`.
   The parser state is the not yet consumed significant tokens (cur = head, peek = second;
   past the end the lexer keeps answering EOF) and prevToken.  No proofs here. *)
From Coq Require Import String.
From Coq Require Import List NArith ZArith Bool.
From Falco Require Import Base.Bytes Gen.TokenTypes.
Import ListNotations.

Definition str := list byte.
Definition s2b (s : string) : str := list_byte_of_string s.

Fixpoint str_eqb (a b : str) : bool :=
  match a, b with
  | [], [] => true
  | x :: a', y :: b' => byte_eqb x y && str_eqb a' b'
  | _, _ => false
  end.

Definition ttype_eqb (a b : ttype) : bool := N.eqb (tcode a) (tcode b).

Record token := Tok { typ : ttype; lit : str; off : N }.

Definition eof_tok : token := Tok T_EOF [] 0.

(* prevToken (nil before the first NextToken moved a token into cur) and the remaining tokens *)
Record pstate := St { prev : option token; toks : list token }.

Definition cur (st : pstate) : token := hd eof_tok (toks st).
Definition peek (st : pstate) : token := hd eof_tok (tl (toks st)).
(* NextToken: prev := cur; cur := peek; peek := next significant token *)
Definition next (st : pstate) : pstate := St (Some (cur st)) (tl (toks st)).
Definition cur_is (st : pstate) (t : ttype) : bool := ttype_eqb (typ (cur st)) t.
Definition peek_is (st : pstate) (t : ttype) : bool := ttype_eqb (typ (peek st)) t.
Definition prev_is (st : pstate) (t : ttype) : option bool :=
  match prev st with Some p => Some (ttype_eqb (typ p) t) | None => None end.

Definition start (ts : list token) : pstate := St None ts.

(* error classes = the constructors of parser/error.go *)
Inductive perr :=
| E_unexpected | E_missing_semi | E_missing_colon | E_undef_prefix | E_conversion | E_escape
| E_dup_case | E_multi_default | E_final_fallthrough | E_empty_switch | E_paren_mismatch
| E_fname.          (* "Function name must be IDENT": a call parenthesis behind something that is no identifier *)

(* POK | a *ParseError on token t, [rem] = number of tokens from t to the end of the stream
   (t included; 0 = the EOF after the last token) | a plain `error` without token |
   a Go fault (panic) | the fuel of a loop ran out *)
Inductive pres (A : Type) : Type :=
| POK (a : A)
| PErr (k : perr) (t : token) (rem : nat)
| PErrNoTok
| PCrash
| PFuel.
Arguments POK {A} a.
Arguments PErr {A} k t rem.
Arguments PErrNoTok {A}.
Arguments PCrash {A}.
Arguments PFuel {A}.

Definition pbind {A B} (r : pres A) (f : A -> pres B) : pres B :=
  match r with
  | POK a => f a
  | PErr k t n => PErr k t n
  | PErrNoTok => PErrNoTok
  | PCrash => PCrash
  | PFuel => PFuel
  end.

Declare Scope parse_scope.
Delimit Scope parse_scope with parse.
Notation "'do' x <- e ; k" := (pbind e (fun x => k))
  (at level 200, x pattern, e at level 100, k at level 200, right associativity) : parse_scope.

Definition err_cur {A} (k : perr) (st : pstate) : pres A := PErr k (cur st) (length (toks st)).
Definition err_peek {A} (k : perr) (st : pstate) : pres A := PErr k (peek st) (pred (length (toks st))).
(* an error on prevToken; prevToken == nil would be a nil dereference *)
Definition err_prev {A} (k : perr) (st : pstate) : pres A :=
  match prev st with
  | Some t => PErr k t (S (length (toks st)))
  | None => PCrash
  end.

(* ExpectPeek *)
Definition expect_peek (st : pstate) (t : ttype) : option pstate :=
  if peek_is st t then Some (next st) else None.

Fixpoint assoc {A} (t : ttype) (l : list (ttype * A)) : option A :=
  match l with
  | [] => None
  | (k, v) :: l' => if ttype_eqb t k then Some v else assoc t l'
  end.
Definition mem (t : ttype) (l : list ttype) : bool := existsb (ttype_eqb t) l.
