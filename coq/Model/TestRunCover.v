(* C10 - coverage instrumentation (interpreter/coverage.go) over a small statement language.
   Expressions and expression-statements are parameters: [ev] evaluates a condition (to its
   truth value), [run_prim] runs a statement that has no sub-statements (set / add / log /
   declare / return / break ...), [ifconds p] lists the conditions of the if() expressions that
   instrumentExpression finds in p (its traversal order), [has_marker p] is false for a function
   call statement (instrumentFunctionCallStatement emits no statement marker).
   Markers (coverage.subroutine / statement / branch calls) are no-ops on the state.  No proofs here. *)
From Coq Require Import List NArith Bool.
From Falco Require Import Base.Res.
Import ListNotations.

Inductive out := PNext | PStop.     (* state NONE / anything else (return, restart, error, a value) *)

Section Lang.
Variable cond prim ctl : Type.

Inductive stmt :=
| Prim (p : prim)
| Marker
| If (c : cond) (th : block) (el : alt)
| Switch (x : ctl) (cs : cases) (dflt : option nat)
| Block (b : block)
with block := BNil | BCons (s : stmt) (b : block)
with alt :=                                        (* what follows the consequence of an if *)
| ANone
| AElse (b : block)
| AElif (c : cond) (th : block) (rest : alt)
with cases := CNil | CCons (body : block) (ft : bool) (rest : cases).   (* ft: ends with fallthrough *)

Variable St : Type.
Variable cval : Type.
Variable ev : cond -> St -> res (bool * St).
Variable run_prim : prim -> St -> res (out * St).
Variable ifconds : prim -> list cond.
Variable has_marker : prim -> bool.
Variable sw_ctl : ctl -> St -> res (cval * St).                  (* control expression, evaluated once *)
Variable sw_test : ctl -> nat -> cval -> St -> res (bool * St).  (* test of case #n *)

Definition is_dflt (d : option nat) (i : nat) : bool :=
  match d with Some n => Nat.eqb n i | None => false end.

(* ProcessBlockStatement / ProcessIfStatement / ProcessSwitchStatement / ProcessCaseStatement *)
Fixpoint exec_stmt (s : stmt) (σ : St) {struct s} : res (out * St) :=
  match s with
  | Prim p => run_prim p σ
  | Marker => OK (PNext, σ)
  | If c th el => do (b, σ1) <- ev c σ; if b then exec_block th σ1 else exec_alt el σ1
  | Switch x cs d =>
      do (v, σ1) <- sw_ctl x σ;
      do (r, σ2) <- exec_try x v d 0 cs σ1;
      match r with
      | Some o => OK (o, σ2)
      | None => match d with Some n => exec_nth n cs σ2 | None => OK (PNext, σ2) end
      end
  | Block b => exec_block b σ
  end
with exec_block (b : block) (σ : St) {struct b} : res (out * St) :=
  match b with
  | BNil => OK (PNext, σ)
  | BCons s r =>
      do (o, σ1) <- exec_stmt s σ;
      match o with PNext => exec_block r σ1 | PStop => OK (PStop, σ1) end
  end
with exec_alt (a : alt) (σ : St) {struct a} : res (out * St) :=
  match a with
  | ANone => OK (PNext, σ)
  | AElse b => exec_block b σ
  | AElif c th rest => do (b, σ1) <- ev c σ; if b then exec_block th σ1 else exec_alt rest σ1
  end
(* run the body of the first case and fall through while asked to; falling off the end raises *)
with exec_from (cs : cases) (σ : St) {struct cs} : res (out * St) :=
  match cs with
  | CNil => Err
  | CCons body ft rest =>
      do (o, σ1) <- exec_block body σ;
      match o with
      | PNext => if ft then exec_from rest σ1 else OK (PNext, σ1)
      | PStop => OK (PStop, σ1)
      end
  end
(* the non-default cases in order: first matching test wins *)
with exec_try (x : ctl) (v : cval) (d : option nat) (i : nat) (cs : cases) (σ : St) {struct cs}
  : res (option out * St) :=
  match cs with
  | CNil => OK (None, σ)
  | CCons body ft rest =>
      if is_dflt d i then exec_try x v d (S i) rest σ
      else
        do (m, σ1) <- sw_test x i v σ;
        if m then
          do (o, σ2) <- exec_block body σ1;
          match o with
          | PNext => if ft then do (o', σ3) <- exec_from rest σ2; OK (Some o', σ3) else OK (Some PNext, σ2)
          | PStop => OK (Some PStop, σ2)
          end
        else exec_try x v d (S i) rest σ1
  end
with exec_nth (n : nat) (cs : cases) (σ : St) {struct cs} : res (out * St) :=
  match cs with
  | CNil => Err
  | CCons body ft rest =>
      match n with
      | O =>
          do (o, σ1) <- exec_block body σ;
          match o with
          | PNext => if ft then exec_from rest σ1 else OK (PNext, σ1)
          | PStop => OK (PStop, σ1)
          end
      | S n' => exec_nth n' rest σ
      end
  end.

(* ---- interpreter/coverage.go *)
(* instrumentIfExpression: if (cond) { marker } else { marker } *)
Definition ifmark (c : cond) : stmt := If c (BCons Marker BNil) (AElse (BCons Marker BNil)).
Fixpoint marks (cs : list cond) (tail : block) : block :=
  match cs with [] => tail | c :: r => BCons (ifmark c) (marks r tail) end.

(* instrumentStatement: the statements put BEFORE s *)
Definition pre (s : stmt) (tail : block) : block :=
  match s with
  | Prim p => if has_marker p then BCons Marker (marks (ifconds p) tail) else marks (ifconds p) tail
  | If _ _ _ | Switch _ _ _ => BCons Marker tail
  | Block _ | Marker => tail
  end.

Fixpoint instr_stmt (s : stmt) : stmt :=
  match s with
  | Prim p => Prim p
  | Marker => Marker
  | If c th el => If c (BCons Marker (instr_block th)) (instr_alt el)    (* instrumentIfStatement *)
  | Switch x cs d => Switch x (instr_cases cs) d                        (* instrumentSwitchStatement *)
  | Block b => Block (instr_block b)
  end
with instr_block (b : block) : block :=                                  (* instrumentStatements *)
  match b with
  | BNil => BNil
  | BCons s r => pre s (BCons (instr_stmt s) (instr_block r))
  end
with instr_alt (a : alt) : alt :=
  match a with
  | ANone => ANone
  | AElse b => AElse (BCons Marker (instr_block b))
  (* else-if becomes `else { marker; if (c) {...} <rest> }` *)
  | AElif c th rest => AElse (BCons Marker (BCons (If c (BCons Marker (instr_block th)) (instr_alt rest)) BNil))
  end
with instr_cases (cs : cases) : cases :=
  match cs with
  | CNil => CNil
  | CCons body ft rest => CCons (BCons Marker (BCons Marker (instr_block body))) ft (instr_cases rest)
  end.

(* instrumentSubroutine *)
Definition instr_sub (body : block) : block := BCons Marker (instr_block body).

End Lang.

Arguments Prim {cond prim ctl}.
Arguments Marker {cond prim ctl}.
Arguments If {cond prim ctl}.
Arguments Switch {cond prim ctl}.
Arguments Block {cond prim ctl}.
Arguments BNil {cond prim ctl}.
Arguments BCons {cond prim ctl}.
Arguments ANone {cond prim ctl}.
Arguments AElse {cond prim ctl}.
Arguments AElif {cond prim ctl}.
Arguments CNil {cond prim ctl}.
Arguments CCons {cond prim ctl}.
