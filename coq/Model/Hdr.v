(* C17 - the header store: interpreter/http/http.go (headerKeyStore, repaired: keyed by the
   canonical name), net/http Header.{Get,Set,Add,Del} with textproto.CanonicalMIMEHeaderKey,
   and interpreter/variable/header.go get/set/unset of `obj.http.Name` and `obj.http.Name:key`
   as reached from Variable.Get/Set/Add/Unset (protected-header refusal included).

   State = the Go header map (canonical name -> value list) + the assigned-key set.
   [name] everywhere below is the text after <obj>.http. exactly as written in VCL. *)
From Coq Require Import List NArith Bool.
From Coq Require Import Strings.Byte.
From Falco Require Import Base.Bytes Model.HdrField Model.HdrCookie Gen.HdrTables.
Import ListNotations.
Local Open Scope N_scope.

Definition c_colon : byte := x3a.
Definition c_star : byte := x2a.
Definition c_dash : byte := x2d.

(* ---- textproto.CanonicalMIMEHeaderKey ---- *)
(* validHeaderFieldByte: RFC 7230 tchar *)
Definition tchar (c : byte) : bool :=
  let n := b2n c in
  ((48 <=? n) && (n <=? 57)) || ((65 <=? n) && (n <=? 90)) || ((97 <=? n) && (n <=? 122)) ||
  existsb (N.eqb n) [33; 35; 36; 37; 38; 39; 42; 43; 45; 46; 94; 95; 96; 124; 126].

Definition upper (c : byte) : byte :=
  let n := b2n c in if (97 <=? n) && (n <=? 122) then n2b (n - 32) else c.

Fixpoint canon_go (up : bool) (s : bytes) : bytes :=
  match s with
  | [] => []
  | c :: t => let c' := if up then upper c else lower c in c' :: canon_go (byte_eqb c' c_dash) t
  end.

(* a name with a byte outside tchar is returned unchanged *)
Definition canon (s : bytes) : bytes := if forallb tchar s then canon_go true s else s.

(* ---- Go maps as association lists ---- *)
Definition hmap_t := list (bytes * list bytes).

Fixpoint map_get (k : bytes) (m : hmap_t) : option (list bytes) :=
  match m with
  | [] => None
  | (k', v) :: t => if beq k k' then Some v else map_get k t
  end.
Definition map_del (k : bytes) (m : hmap_t) : hmap_t := filter (fun kv => negb (beq k (fst kv))) m.
Definition map_set (k : bytes) (v : list bytes) (m : hmap_t) : hmap_t := (k, v) :: map_del k m.

Definition mem (k : bytes) (l : list bytes) : bool := existsb (beq k) l.
Definition set_add (k : bytes) (l : list bytes) : list bytes := if mem k l then l else k :: l.
Definition set_del (k : bytes) (l : list bytes) : list bytes := filter (fun x => negb (beq k x)) l.

Record hstate := { hmap : hmap_t; akeys : list bytes }.
Definition st0 : hstate := {| hmap := []; akeys := [] |}.

(* http.Header *)
Definition header_get (st : hstate) (name : bytes) : bytes :=
  match map_get (canon name) (hmap st) with Some (v :: _) => v | _ => [] end.
Definition header_set (st : hstate) (name v : bytes) : hstate :=
  {| hmap := map_set (canon name) [v] (hmap st); akeys := akeys st |}.
Definition header_add (st : hstate) (name v : bytes) : hstate :=
  let old := match map_get (canon name) (hmap st) with Some l => l | None => [] end in
  {| hmap := map_set (canon name) (old ++ [v]) (hmap st); akeys := akeys st |}.
Definition header_del (st : hstate) (name : bytes) : hstate :=
  {| hmap := map_del (canon name) (hmap st); akeys := akeys st |}.

Definition header_lines (st : hstate) (name : bytes) : list bytes :=
  match map_get (canon name) (hmap st) with Some l => l | None => [] end.
Definition header_set_lines (st : hstate) (name : bytes) (l : list bytes) : hstate :=
  {| hmap := map_set (canon name) l (hmap st); akeys := akeys st |}.

(* headerKeyStore (repaired) *)
Definition is_assigned (st : hstate) (name : bytes) : bool := mem (canon name) (akeys st).
Definition assign (st : hstate) (name : bytes) : hstate :=
  {| hmap := hmap st; akeys := set_add (canon name) (akeys st) |}.
Definition unassign (st : hstate) (name : bytes) : hstate :=
  {| hmap := hmap st; akeys := set_del (canon name) (akeys st) |}.

(* strings.Cut(name, `:`) *)
Fixpoint cut_colon (s : bytes) : bytes * bytes * bool :=
  match s with
  | [] => ([], [], false)
  | c :: t => if byte_eqb c c_colon then ([], t, true)
              else let '(a, b, f) := cut_colon t in (c :: a, b, f)
  end.

(* limitations.CheckProtectedHeader: on the whole text after http., lower-cased *)
Definition protected (name : bytes) : bool :=
  existsb (beq (map lower name)) (map (map n2b) protected_headers).

Definition cookie_name : bytes := [x63; x6f; x6f; x6b; x69; x65].
Definition is_cookie (name : bytes) : bool := beq (map lower name) cookie_name.

(* request objects (req, bereq) route `Cookie:key` through net/http cookies *)
Inductive kind := KReq | KResp.

Inductive outcome :=
| Done (st : hstate)
| Refused                (* Variable.Set/Add/Unset returns an error; state unchanged *)
| Unmodelled.            (* not produced any more: the Cookie:key paths are modelled (Model/HdrCookie.v) *)

(* getRequestHeaderValue / getResponseHeaderValue (repaired: an empty header has no sub-field) *)
Definition h_get (kd : kind) (st : hstate) (name : bytes) : option rd :=
  let '(n, key, _) := cut_colon name in
  let v := header_get st n in
  if is_nil v then
    Some (if negb (is_nil key) || negb (is_assigned st n) then RNotSet else RStr [])
  else if is_nil key then Some (RStr v)
  else match kd with
       | KReq => if is_cookie n then
                   Some (match cookie_get (header_lines st n) key with
                         | Some c => RStr c
                         | None => get_field v key
                         end)
                 else Some (get_field v key)
       | KResp => Some (get_field v key)
       end.

(* value.String.String(): the not-set string prints as the text (null) *)
Definition val_string (v : val) : bytes :=
  match v with VNotSet => [x28; x6e; x75; x6c; x6c; x29] | VStr s => s end.

(* Variable.Set(scope, <obj>.http.<name>, `=`, v) *)
Definition h_set (kd : kind) (st : hstate) (name : bytes) (v : val) : outcome :=
  if protected name then Refused else
  let '(n, key, found) := cut_colon name in
  if negb found then
    match v with
    | VNotSet => Done (unassign (header_del st n) n)
    | VStr s => Done (assign (header_set st n (cut_lf s)) n)
    end
  else
    match kd with
    | KReq => if is_cookie n then Done (header_set_lines st n (cookie_set (header_lines st n) key (val_string v)))
              else Done (assign (header_set st n (set_field (header_get st n) key v)) n)
    | KResp => Done (assign (header_set st n (set_field (header_get st n) key v)) n)
    end.

(* Variable.Add: Header.Add(<name as written>, val.String()) - no truncation, no bookkeeping *)
Definition h_add (kd : kind) (st : hstate) (name : bytes) (v : val) : outcome :=
  if protected name then Refused else Done (header_add st name (val_string v)).

(* http.HasPrefixFold: prefix test, ASCII letters compared without case (header names are
   case-insensitive) *)
Fixpoint is_prefix (p s : bytes) : bool :=
  match p, s with
  | [], _ => true
  | x :: p', y :: s' => byte_eqb (lower x) (lower y) && is_prefix p' s'
  | _, [] => false
  end.

(* strings.CutSuffix(name, `*`) *)
Definition cut_star (name : bytes) : option bytes :=
  match rev name with
  | c :: r => if byte_eqb c c_star then Some (rev r) else None
  | [] => None
  end.

Definition unset_sub (st : hstate) (n key : bytes) : hstate :=
  let t := unset_field (header_get st n) key in
  if is_nil t then unassign (header_del st n) n
  else unassign (header_set st n t) n.

(* removeCookieByName *)
Definition cookie_unset_sub (st : hstate) (n key : bytes) : hstate :=
  match header_lines st n with
  | [] => st
  | lines => match remove_cookie lines key with
             | [] => header_del st n
             | l => header_set_lines st n l
             end
  end.

(* the header.get built-in: a read path that knows neither not-set nor the field grammar *)
Definition h_getfn (st : hstate) (name : bytes) : rd :=
  if negb (fn_name_ok name) then RStr []
  else let '(n, key, found) := cut_colon name in
       if negb found then RStr (header_get st name) else RStr (fn_lookup (header_lines st n) key).

(* Variable.Unset *)
Definition h_unset (kd : kind) (st : hstate) (name : bytes) : outcome :=
  if protected name then Refused else
  match cut_star name with
  | Some p =>
    (* wildcard (repaired): deletes the map entries whose key starts with the prefix, letters compared
       without case, and forgets that those headers were assigned *)
    Done {| hmap := filter (fun kv => negb (is_prefix p (fst kv))) (hmap st);
            akeys := filter (fun k => negb (is_prefix p k)) (akeys st) |}
  | None =>
    let '(n, key, found) := cut_colon name in
    if negb found then Done (unassign (header_del st n) n)
    else match kd with
         | KReq => if is_cookie n then Done (cookie_unset_sub st n key) else Done (unset_sub st n key)
         | KResp => Done (unset_sub st n key)
         end
  end.

(* ---- histories ---- *)
Inductive op :=
| OGet (name : bytes)
| OSet (name : bytes) (v : val)
| OAdd (name : bytes) (v : val)
| OUnset (name : bytes).

Inductive obs :=
| ORead (r : rd)
| OOk
| OErr
| OUnmodelled.

Definition of_outcome (st : hstate) (o : outcome) : hstate * obs :=
  match o with
  | Done st' => (st', OOk)
  | Refused => (st, OErr)
  | Unmodelled => (st, OUnmodelled)
  end.

Definition step (kd : kind) (st : hstate) (o : op) : hstate * obs :=
  match o with
  | OGet n => (st, match h_get kd st n with Some r => ORead r | None => OUnmodelled end)
  | OSet n v => of_outcome st (h_set kd st n v)
  | OAdd n v => of_outcome st (h_add kd st n v)
  | OUnset n => of_outcome st (h_unset kd st n)
  end.

Fixpoint run (kd : kind) (st : hstate) (h : list op) : hstate * list obs :=
  match h with
  | [] => (st, [])
  | o :: t => let (st1, x) := step kd st o in
              let (st2, xs) := run kd st1 t in (st2, x :: xs)
  end.
