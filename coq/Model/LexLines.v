(* Specification of the source line: what Lexer.GetLine(k) must return (checked against the
   real GetLine on every input by implrun getline) - the k-th line of the decoded input, without
   its line feed.  Used by C01_get_line_spec: a located token's text starts at its column of its line. *)
From Coq Require Import List NArith Bool.
From Falco Require Import Base.Bytes Base.Utf8 Model.Lex Model.LexSpec.
Import ListNotations.
Local Open Scope N_scope.

(* the lines of a rune sequence; [cur] = the current line so far, reversed *)
Fixpoint split_lines (rs : list rune) (cur : list rune) : list (list rune) :=
  match rs with
  | [] => [rev cur]
  | r :: t => if r =? 10 then rev cur :: split_lines t [] else split_lines t (r :: cur)
  end.

Definition get_line (rs : list rune) (l : N) : option (list rune) :=
  if l =? 0 then None else nth_error (split_lines rs []) (N.to_nat (l - 1)).

(* the part of a text up to (not including) its first line feed *)
Fixpoint line_head (rs : list rune) : list rune :=
  match rs with
  | [] => []
  | r :: t => if r =? 10 then [] else r :: line_head t
  end.
