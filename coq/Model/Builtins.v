(* C08 - built-in functions whose loops / allocations are driven by an argument
   (interpreter/function/builtin/std_strrep.go, std_strpad.go, randomstr.go after the repairs):
   executable models with the size guard of the code (limit = limitations.MaxRequestWorkspaceSize,
   regenerated into Gen/EvalConst.v).  Counts are int64 (Z); nothing iterates more than [limit] times.
   [std.replaceall] is modelled to state its (unbounded) output size: recorded finding.  No proofs here. *)
From Coq Require Import List NArith ZArith Bool.
From Falco Require Import Base.Res Base.Bytes Model.Float Model.Val.
Import ListNotations.
Local Open Scope Z_scope.

Fixpoint rep (n : nat) (s : str) : str := match n with O => [] | S k => s ++ rep k s end.

Definition zlen (s : str) : Z := Z.of_nat (length s).

(* std.strrep(s, count) *)
Definition strrep (limit : Z) (s : str) (count : Z) : res str :=
  let c := Z.max count 0 in
  match s with
  | [] => OK []
  | _ => if limit / zlen s <? c then Err else OK (rep (Z.to_nat c) s)
  end.

(* std.strpad(s, width, pad): |width| through float64 as the code does; left pad for width >= 0, right pad for < 0 *)
Definition strpad (limit : Z) (s : str) (width : Z) (pad : str) : res str :=
  let w := f_to_int (f_of_int (Z.abs width)) in
  match pad with
  | [] => OK s
  | _ =>
      if w <=? zlen s then OK s
      else if limit <? w then Err
      else
        let need := w - zlen s in
        let p := firstn (Z.to_nat need) (rep (Z.to_nat (need / zlen pad + 1)) pad) in
        OK (if width <? 0 then s ++ p else p ++ s)
  end.

(* randomstr(length [, characters]): [pick i] is the random index drawn for position i (oracle) *)
Definition randomstr (limit : Z) (pick : nat -> nat) (n : Z) (chars : str) : res (option str) :=
  match chars with
  | [] => OK None                                    (* not set *)
  | c0 :: _ =>
      if n <? 0 then OK (Some [])
      else if limit <? n then Err
      else let len := length chars in
           OK (Some (map (fun i => nth (pick i mod len) chars c0) (seq 0 (Z.to_nat n))))
  end.

(* std.replaceall(s, "", r): one copy of r in front of every byte and one at the end (strings.ReplaceAll with an
   empty target) - no size guard in the code *)
Fixpoint interleave (r : str) (s : str) : str :=
  match s with [] => r | b :: t => r ++ b :: interleave r t end.
