(* C07/C08 - runtime values of the simulator (interpreter/value/value.go) and their String()
   conversions.  INTEGER is an int64 as Z (every arithmetic result is passed through [wrap64])
   with falco's NaN / -inf / +inf flags; FLOAT is Model/Float.v; STRING is a byte string with
   the not-set flag; RTIME is a time.Duration in nanoseconds (int64); TIME is Go's wall time
   without monotonic reading: seconds since 0001-01-01T00:00:00Z (int64, [ext]) and nanoseconds
   in [0, 1e9), plus falco's OutOfBounds flag; IP is an optional address (None = nil net.IP) with
   the not-set flag.  No proofs in this file. *)
From Coq Require Import List NArith ZArith Bool Floats.SpecFloat.
From Falco Require Import Base.Res Base.Bytes Model.Float Model.Acl.
Import ListNotations.
Local Open Scope Z_scope.

Definition str := list byte.

Inductive val :=
| VInt (v : Z) (nan ninf pinf : bool)
| VFloat (f : float) (nan ninf pinf : bool)
| VStr (s : str) (notset : bool)
| VBool (b : bool)
| VRTime (ns : Z)
| VTime (ext nsec : Z) (oob : bool)
| VIp (a : option addr) (notset : bool)
| VBackend (name : option str)
| VAcl (name : str) (entries : acl).

Inductive vtype := TInt | TFloat | TStr | TBool | TRTime | TTime | TIp | TBackend | TAcl.

Definition type_of (v : val) : vtype :=
  match v with
  | VInt _ _ _ _ => TInt | VFloat _ _ _ _ => TFloat | VStr _ _ => TStr | VBool _ => TBool
  | VRTime _ => TRTime | VTime _ _ _ => TTime | VIp _ _ => TIp | VBackend _ => TBackend | VAcl _ _ => TAcl
  end.

(* value.Create: what `declare local var.x T;` stores *)
Definition create (t : vtype) : val :=
  match t with
  | TInt => VInt 0 false false false
  | TFloat => VFloat fzero false false false
  | TStr => VStr [] true
  | TBool => VBool false
  | TRTime => VRTime 0
  | TTime => VTime 62135596800 0 false        (* 1970-01-01T00:00:00Z *)
  | TIp => VIp None true
  | TBackend => VBackend None
  | TAcl => VAcl [] []
  end.

(* ---------------------------------------------------------------- int64 / Duration / Time *)

Definition wrap64 (z : Z) : Z := (z + 2 ^ 63) mod 2 ^ 64 - 2 ^ 63.
Definition Second : Z := 1000000000.

(* Go's / and % on int64: truncated; a zero divisor is a runtime panic ("integer divide by zero") *)
Definition godiv (a b : Z) : res Z := if b =? 0 then Crash else OK (wrap64 (Z.quot a b)).
Definition gorem (a b : Z) : res Z := if b =? 0 then Crash else OK (Z.rem a b).

(* x << n and x >> n on int64 with a signed count: a negative count is a runtime panic
   ("negative shift amount"); a count >= 64 gives 0, resp. the sign *)
Definition shl64 (x n : Z) : Z := if 64 <=? n then 0 else wrap64 (Z.shiftl x n).
Definition sar64 (x n : Z) : Z := if 64 <=? n then (if x <? 0 then -1 else 0) else Z.shiftr x n.
Definition goshl (x n : Z) : res Z := if n <? 0 then Crash else OK (shl64 x n).
Definition goshr (x n : Z) : res Z := if n <? 0 then Crash else OK (sar64 x n).

(* math/bits.RotateLeft64(uint64(x), k) as int64, 0 <= k < 64 *)
Definition rotl64 (x k : Z) : Z :=
  let u := x mod 2 ^ 64 in
  wrap64 (Z.lor ((Z.shiftl u k) mod 2 ^ 64) (Z.shiftr u (64 - k))).

(* time.Duration.Seconds(): float64(d/Second) + float64(d%Second)/1e9 *)
Definition dur_seconds (ns : Z) : float :=
  fadd (f_of_int (Z.quot ns Second)) (fdiv (f_of_int (Z.rem ns Second)) (f_of_int Second)).

Definition unix_to_internal : Z := 62135596800.
Definition time_unix_sec (ext : Z) : Z := wrap64 (ext - unix_to_internal).       (* Time.Unix() *)
Definition time_of_unix (sec : Z) : Z := wrap64 (sec + unix_to_internal).        (* time.Unix(sec, 0) *)

(* Time.Add(d) without monotonic reading: (ext, nsec) *)
Definition time_add (ext nsec d : Z) : Z * Z :=
  let dsec := Z.quot d Second in
  let ns := nsec + Z.rem d Second in
  let '(dsec, ns) :=
    if Second <=? ns then (dsec + 1, ns - Second)
    else if ns <? 0 then (dsec - 1, ns + Second) else (dsec, ns) in
  let sum := wrap64 (ext + dsec) in
  let ext' := if Bool.eqb (ext <? sum) (0 <? dsec) then sum
              else if 0 <? dsec then max64 else - max64 in
  (ext', ns).

(* Time.Compare *)
Definition time_cmp (e1 n1 e2 n2 : Z) : comparison :=
  match Z.compare e1 e2 with Eq => Z.compare n1 n2 | c => c end.

(* ---------------------------------------------------------------- String() *)

Definition ascii (l : list Z) : str := map (fun c => n2b (Z.to_N c)) l.

Definition s_NAN := ascii [78; 65; 78].                      (* "NAN" *)
Definition s_inf := ascii [105; 110; 102].                   (* "inf" *)
Definition s_ninf := ascii [45; 105; 110; 102].              (* "-inf" *)
Definition s_null := ascii [40; 110; 117; 108; 108; 41].     (* "(null)" *)
Definition s_nil := ascii [60; 110; 105; 108; 62].           (* "<nil>" *)
Definition s_none := ascii [40; 110; 111; 110; 101; 41].     (* "(none)" *)
Definition s_oob := ascii [91; 111; 117; 116; 32; 111; 102; 32; 98; 111; 117; 110; 100; 115; 93]. (* "[out of bounds]" *)

Definition flag_string (nan ninf pinf : bool) (dflt : str) : str :=
  if nan then s_NAN else if ninf then s_ninf else if pinf then s_inf else dflt.

Definition int_string (v : Z) (nan ninf pinf : bool) : str := flag_string nan ninf pinf (dec_int v).
Definition float_string (f : float) (nan ninf pinf : bool) : str := flag_string nan ninf pinf (fmt3 f).

(* RTime.String(): FormatFloat(float64(d.Milliseconds())/1000, 'f', 3, 64) *)
Definition rtime_string (ns : Z) : str :=
  fmt3 (fdiv (f_of_int (Z.quot ns 1000000)) (f_of_int 1000)).

Definition bool_string (b : bool) : str := ascii [if b then 49 else 48].

(* net.IP.String(): dotted quad, or RFC 5952 text (longest run of >= 2 zero groups becomes "::") *)
Definition hexdigit (d : Z) : byte := n2b (Z.to_N (if d <? 10 then 48 + d else 87 + d)).
Fixpoint hex_fuel (fuel : nat) (n : Z) (acc : str) : str :=
  match fuel with
  | O => acc
  | S k => if n <? 16 then hexdigit n :: acc else hex_fuel k (n / 16) (hexdigit (n mod 16) :: acc)
  end.
Definition hex4 (n : Z) : str := hex_fuel 4 n [].

Definition colon : byte := n2b 58.

Definition groups (b : Z) : list Z :=
  map (fun i => (b / 2 ^ (16 * (7 - Z.of_nat i))) mod 65536) (seq 0 8).

(* longest run of zero groups: (start, length), first one on ties (Go: j-i > e1-e0) *)
Fixpoint zero_run (l : list Z) : nat :=
  match l with 0 :: t => S (zero_run t) | _ => O end.
Fixpoint best_run (l : list Z) (i : nat) (best : nat * nat) : nat * nat :=
  match l with
  | [] => best
  | _ :: t =>
      let r := zero_run l in
      best_run t (S i) (if (snd best <? r)%nat then (i, r) else best)
  end.

Fixpoint join_groups (l : list Z) : str :=
  match l with
  | [] => []
  | [g] => hex4 g
  | g :: t => hex4 g ++ colon :: join_groups t
  end.

Definition ip6_string (b : Z) : str :=
  let gs := groups b in
  let '(st, len) := best_run gs 0%nat (0%nat, 0%nat) in
  if (len <? 2)%nat then join_groups gs
  else join_groups (firstn st gs) ++ colon :: colon :: join_groups (skipn (st + len) gs).

Definition ip4_string (b : Z) : str :=
  dec_nat ((b / 2 ^ 24) mod 256) ++ dot :: dec_nat ((b / 2 ^ 16) mod 256) ++ dot ::
  dec_nat ((b / 2 ^ 8) mod 256) ++ dot :: dec_nat (b mod 256).

Definition addr_string (a : option addr) : str :=
  match a with
  | None => s_nil
  | Some a => match afam a with V4 => ip4_string (Z.of_N (abits a)) | V6 => ip6_string (Z.of_N (abits a)) end
  end.

(* Time.Format(http.TimeFormat) = "Mon, 02 Jan 2006 15:04:05 GMT" in the proleptic Gregorian
   calendar; ext = seconds since 0001-01-01 (a Monday) *)
Definition civil (days : Z) : Z * Z * Z :=      (* days since 0001-01-01 -> (year, month, day) *)
  let z := days + 306 in                          (* days since 0000-03-01 *)
  let era := z / 146097 in
  let doe := z - era * 146097 in
  let yoe := (doe - doe / 1460 + doe / 36524 - doe / 146096) / 365 in
  let doy := doe - (365 * yoe + yoe / 4 - yoe / 100) in
  let mp := (5 * doy + 2) / 153 in
  let d := doy - (153 * mp + 2) / 5 + 1 in
  let m := if mp <? 10 then mp + 3 else mp - 9 in
  let y := yoe + era * 400 + (if m <=? 2 then 1 else 0) in
  (y, m, d).

Definition day_names : list str :=
  [ascii [77;111;110]; ascii [84;117;101]; ascii [87;101;100]; ascii [84;104;117]; ascii [70;114;105]; ascii [83;97;116]; ascii [83;117;110]].
Definition month_names : list str :=
  [ascii [74;97;110]; ascii [70;101;98]; ascii [77;97;114]; ascii [65;112;114]; ascii [77;97;121]; ascii [74;117;110];
   ascii [74;117;108]; ascii [65;117;103]; ascii [83;101;112]; ascii [79;99;116]; ascii [78;111;118]; ascii [68;101;99]].

Definition pad_int (w : nat) (z : Z) : str :=
  if z <? 0 then minus_sign :: pad0 w (dec_nat (- z)) else pad0 w (dec_nat z).

Definition http_time (ext : Z) : str :=
  let days := ext / 86400 in
  let secs := ext mod 86400 in
  let '(y, m, d) := civil days in
  nth (Z.to_nat (days mod 7)) day_names [] ++ ascii [44; 32] ++ pad_int 2 d ++ ascii [32] ++
  nth (Z.to_nat (m - 1)) month_names [] ++ ascii [32] ++ pad_int 4 y ++ ascii [32] ++
  pad_int 2 (secs / 3600) ++ colon :: pad_int 2 ((secs / 60) mod 60) ++ colon :: pad_int 2 (secs mod 60) ++
  ascii [32; 71; 77; 84].

(* Value.String() *)
Definition string_of (v : val) : str :=
  match v with
  | VInt v nan ninf pinf => int_string v nan ninf pinf
  | VFloat f nan ninf pinf => float_string f nan ninf pinf
  | VStr s notset => if notset then s_null else s
  | VBool b => bool_string b
  | VRTime ns => rtime_string ns
  | VTime ext _ oob => if oob then s_oob else http_time ext
  | VIp a notset => if notset then s_null else addr_string a
  | VBackend None => s_none
  | VBackend (Some n) => n
  | VAcl n _ => n
  end.

(* right operand of an assignment / operator: the value and value.IsLiteral() *)
Record operand := mkOp { oval : val; olit : bool }.
