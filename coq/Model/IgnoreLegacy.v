(* The ignore machinery as it was BEFORE the six repairs of C12 (repository commit 06bf344):
   kept to state, on concrete programs, what the unrepaired code reported (Props/C12.v,
   the C12_unrepaired theorems).  It is not used by the C12 theorems.  It was validated once against the
   unrepaired linter (notes/C12.md).  No proofs here. *)
From Coq Require Import List Bool Arith.
From Coq Require Import Strings.Byte.
From Falco Require Import Base.Bytes Model.Ignore.
Import ListNotations.

(* parseIgnoreComment without the block-comment terminator handling *)
Definition parse_legacy (c : list byte) : option (dkind * list rule) :=
  let body := trim_left_cut c in
  let '(w, rest) := cut_space body in
  match kind_of w with
  | None => None
  | Some k => Some (k, filter nonempty (map trim_space (split_comma rest)))
  end.

(* a rule list reset `all` *)
Definition ignore_rules_legacy (s : irules) (L : list rule) : irules :=
  match L with
  | [] => {| all := true; rules := [] |}
  | _ => {| all := false; rules := rules s ++ L |}
  end.

Record lstate := { lnl : irules; ltl : irules; lrg : irules }.
Definition linit : lstate := {| lnl := rules0; ltl := rules0; lrg := rules0 |}.

Definition l_apply_leading (s : lstate) (c : list byte) : lstate :=
  match parse_legacy c with
  | Some (NextLine, L) => {| lnl := ignore_rules_legacy (lnl s) L; ltl := ltl s; lrg := lrg s |}
  | Some (Start, L) => {| lnl := lnl s; ltl := ltl s; lrg := ignore_rules_legacy (lrg s) L |}
  | Some (End, L) => {| lnl := lnl s; ltl := ltl s; lrg := unignore_rules (lrg s) L |}
  | _ => s
  end.

Definition l_apply_trailing (s : lstate) (c : list byte) : lstate :=
  match parse_legacy c with
  | Some (ThisLine, L) => {| lnl := lnl s; ltl := ignore_rules_legacy (ltl s) L; lrg := lrg s |}
  | _ => s
  end.

(* teardown cleared what the node's own comments had set - and with it whatever an enclosing
   node had set in the same record *)
Definition l_undo_leading (s : lstate) (c : list byte) : lstate :=
  match parse_legacy c with
  | Some (NextLine, L) => {| lnl := unignore_rules (lnl s) L; ltl := ltl s; lrg := lrg s |}
  | _ => s
  end.

Definition l_undo_trailing (s : lstate) (c : list byte) : lstate :=
  match parse_legacy c with
  | Some (ThisLine, L) => {| lnl := lnl s; ltl := unignore_rules (ltl s) L; lrg := lrg s |}
  | _ => s
  end.

Definition l_block_trailing (s : lstate) (c : list byte) : lstate :=
  match parse_legacy c with
  | Some (ThisLine, L) => {| lnl := lnl s; ltl := unignore_rules (ltl s) L; lrg := lrg s |}
  | Some (End, L) => {| lnl := lnl s; ltl := ltl s; lrg := unignore_rules (lrg s) L |}
  | _ => s
  end.

(* LBare: a node linted without any setup / teardown (else-if / else branches, the statements of
   a switch case) *)
Inductive lwrap := LStmt | LBlock | LBare.

Definition lsetup (w : lwrap) (m : meta) (s : lstate) : lstate :=
  match w with
  | LStmt => fold_left l_apply_trailing (trailing m) (fold_left l_apply_leading (leading m) s)
  | LBlock => fold_left l_apply_leading (leading m) s
  | LBare => s
  end.

Definition lteardown (w : lwrap) (m : meta) (s : lstate) : lstate :=
  match w with
  | LStmt => fold_left l_undo_trailing (trailing m) (fold_left l_undo_leading (leading m) s)
  | LBlock => fold_left l_block_trailing (trailing m) (fold_left l_undo_leading (leading m) s)   (* infix never read *)
  | LBare => s
  end.

Definition l_enable (r : rule) (s : lstate) : bool :=
  all (lnl s) || all (ltl s) || all (lrg s)
  || mem r (rules (lnl s)) || mem r (rules (ltl s)) || mem r (rules (lrg s)).

Inductive lnode :=
| LNode (w : lwrap) (m : meta) (flush : bool) (pre lsub lprog : list rule) (kids : list lnode).

Definition l_emit (p : path) (rs : list rule) (s : lstate) : list diag :=
  map (pair p) (filter (fun r => negb (l_enable r s)) rs).

Definition lres := (lstate * list diag * list diag * list diag)%type.

Definition lkids_with (runf : lnode -> path -> lstate -> list diag -> list diag -> lres) :=
  fix go (ks : list lnode) (p : path) (i : nat) (s : lstate) (qv qp : list diag) {struct ks} : lres :=
    match ks with
    | [] => (s, qv, qp, [])
    | k :: ks' =>
        let '(s', qv', qp', o') := runf k (p ++ [i]) s qv qp in
        let '(s'', qv'', qp'', o'') := go ks' p (S i) s' qv' qp' in
        (s'', qv'', qp'', o' ++ o'')
    end.

Fixpoint lrun (n : lnode) (p : path) (s : lstate) (qv qp : list diag) {struct n} : lres :=
  match n with
  | LNode w m fl pre lsub lprog kids =>
      let s1 := lsetup w m s in
      let o1 := l_emit p pre s1 in
      let '(s2, qv2, qp2, o2) := lkids_with lrun kids p 0 s1 (if fl then [] else qv) qp in
      let o3 := if fl then filter (fun d => negb (l_enable (snd d) s2)) qv2 else [] in
      (* unused variables were queued whatever the ignore state at their declare statement *)
      let qv3 := (if fl then qv else qv2) ++ map (pair p) lsub in
      let qp3 := qp2 ++ l_emit p lprog s2 in
      (lteardown w m s2, qv3, qp3, o1 ++ o2 ++ o3)
  end.

Definition lreport (t : list lnode) : list diag :=
  let '(s, qv, qp, o) := lkids_with lrun t [] 0 linit [] [] in
  o ++ filter (fun d => negb (l_enable (snd d) s)) qv ++ filter (fun d => negb (l_enable (snd d) s)) qp.

Definition bare (n : lnode) : lnode :=
  match n with LNode _ m fl pre lsub lprog kids => LNode LBare m fl pre lsub lprog kids end.

Fixpoint lnode_of_stmt (s : stmt) : lnode :=
  match s with
  | SSimple m now later => LNode LStmt m false now later [] []
  | SIf m cond csq another alt =>
      LNode LStmt m false cond [] []
        (lnode_of_block csq
         :: map lnode_of_branch another
         ++ match alt with Some b => [lnode_of_branch b] | None => [] end)
  | SSwitch m ctrl cases => LNode LStmt m false ctrl [] [] (map lnode_of_case cases)
  end
with lnode_of_block (b : sblock) : lnode :=
  match b with SBlock m ss => LNode LBlock m false [] [] [] (map lnode_of_stmt ss) end
with lnode_of_branch (b : sbranch) : lnode :=
  match b with SBranch m cond blk => LNode LBare m false cond [] [] [lnode_of_block blk] end
with lnode_of_case (c : scase) : lnode :=
  match c with SCase m ss => LNode LBare m false [] [] [] (map (fun s => bare (lnode_of_stmt s)) ss) end.

Definition lnode_of_decl (d : decl) : lnode :=
  match d with
  | DSub m pre later b => LNode LStmt m true pre [] later [lnode_of_block b]
  | DOther m now later => LNode LStmt m false now [] later []
  end.

Definition report_vcl_unrepaired (ds : list decl) : list diag := lreport (map lnode_of_decl ds).
