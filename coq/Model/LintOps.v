(* Hand model of linter/operator.go (lintAssignOperator, lintAddSubOperator, lintArithmeticOperator,
   lintBitwiseOperator, lintLogicalOperator), of the comparison part of lintInfixExpression
   (linter/expression_linter.go) and of the dispatch in lintSetStatement, as functions of the
   operand types; and the reference assignment table written as data.  No proofs here. *)
From Coq Require Import NArith List String Bool.
From Falco Require Import Base.TablesBase Model.ScopeMask Model.LintTables.
From Falco Require Import Gen.LintConsts.
Import ListNotations.
Local Open Scope N_scope.
Local Open Scope string_scope.

(* linter/types.Type, decoded from the Go constant value through its Go name *)
Inductive ty := TNever | TAcl | TBackend | TBool | TFloat | TID | TInteger | TIP | TRTime | TString | TTime
              | TReqBackend | TRegex | TOther.

Definition go_type_name (v : N) : string :=
  match find (fun kv => N.eqb (snd kv) v) lint_type_consts with Some kv => fst kv | None => "" end.

Definition ty_of (v : N) : ty :=
  let n := go_type_name v in
  if String.eqb n "NeverType" then TNever else if String.eqb n "AclType" then TAcl
  else if String.eqb n "BackendType" then TBackend else if String.eqb n "BoolType" then TBool
  else if String.eqb n "FloatType" then TFloat else if String.eqb n "IDType" then TID
  else if String.eqb n "IntegerType" then TInteger else if String.eqb n "IPType" then TIP
  else if String.eqb n "RTimeType" then TRTime else if String.eqb n "StringType" then TString
  else if String.eqb n "TimeType" then TTime else if String.eqb n "ReqBackendType" then TReqBackend
  else if String.eqb n "RegexType" then TRegex else TOther.

Definition ty_eqb (a b : ty) : bool :=
  match a, b with
  | TNever, TNever | TAcl, TAcl | TBackend, TBackend | TBool, TBool | TFloat, TFloat | TID, TID
  | TInteger, TInteger | TIP, TIP | TRTime, TRTime | TString, TString | TTime, TTime
  | TReqBackend, TReqBackend | TRegex, TRegex | TOther, TOther => true
  | _, _ => false
  end.

(* true = no diagnostic *)
Definition lint_assign_operator (left right : ty) (is_literal : bool) : bool :=
  match left with
  | TInteger =>
    match right with
    | TInteger => true
    | TFloat | TRTime | TTime => negb is_literal
    | _ => false
    end
  | TFloat =>
    match right with
    | TInteger | TFloat => true
    | TRTime | TTime => negb is_literal
    | _ => false
    end
  | TString =>
    match right with
    | TString | TBool => true
    | TInteger | TFloat | TRTime | TTime | TIP | TReqBackend => negb is_literal
    | _ => false
    end
  | TRTime | TTime =>
    match right with
    | TRTime | TTime => true
    | TInteger | TFloat => negb is_literal
    | _ => false
    end
  | TIP => match right with TString | TIP => true | _ => false end
  | TBackend => match right with TBackend | TReqBackend => true | _ => false end
  | TReqBackend => match right with TBackend | TReqBackend => true | _ => false end
  | _ => ty_eqb left right
  end.

Definition lint_addsub_operator (op : string) (left right : ty) (is_literal : bool) : bool :=
  match left with
  | TInteger =>
    match right with
    | TInteger => true
    | TFloat | TRTime | TTime => negb is_literal
    | _ => false
    end
  | TFloat =>
    match right with
    | TInteger | TFloat => true
    | TRTime | TTime => negb is_literal
    | _ => false
    end
  | TRTime =>
    match right with
    | TRTime => true
    | TInteger | TFloat | TTime => negb is_literal
    | _ => false
    end
  | TTime =>
    match right with
    | TRTime => true
    | TInteger | TFloat => negb is_literal
    | _ => false
    end
  | TString =>
    if negb (String.eqb op "+=") then false
    else
      match right with
      | TString | TBool => true
      | TInteger | TFloat | TRTime | TTime | TIP | TReqBackend => negb is_literal
      | _ => false
      end
  | _ => false
  end.

Definition lint_arithmetic_operator (left right : ty) (is_literal : bool) : bool :=
  match left with
  | TInteger =>
    match right with
    | TInteger => true
    | TFloat => negb is_literal
    | _ => false
    end
  | TFloat | TRTime => match right with TInteger | TFloat => true | _ => false end
  | _ => false
  end.

Definition lint_bitwise_operator (left right : ty) : bool :=
  match left with TInteger => ty_eqb right TInteger | _ => false end.

Definition lint_logical_operator (left right : ty) : bool :=
  match left with TBool => ty_eqb right TBool | _ => false end.

(* the switch of lintSetStatement *)
Definition lint_set_operator (op : string) (left right : ty) (is_literal : bool) : bool :=
  if String.eqb op "+=" || String.eqb op "-=" then lint_addsub_operator op left right is_literal
  else if mem_str op ["*="; "/="; "%="] then lint_arithmetic_operator left right is_literal
  else if mem_str op ["|="; "&="; "^="; "<<="; ">>="; "rol="; "ror="] then lint_bitwise_operator left right
  else if mem_str op ["||="; "&&="] then lint_logical_operator left right
  else lint_assign_operator left right is_literal.

Definition is_num_or_rtime (t : ty) : bool := match t with TInteger | TFloat | TRTime => true | _ => false end.

(* comparison operators of lintInfixExpression: true = no diagnostic of severity ERROR.
   right_is_literal is isLiteralExpression(exp.Right) *)
Definition lint_infix_compare (op : string) (left right : ty) (right_is_literal : bool) : bool :=
  if mem_str op ["=="; "!="] then
    let l := match left with TReqBackend => TBackend | t => t end in
    let r := match right with TReqBackend => TBackend | t => t end in
    (* an IP is compared with a STRING through the implicit STRING to IP conversion *)
    (ty_eqb l TIP && ty_eqb r TString) || ty_eqb l r
  else if mem_str op [">"; ">="; "<"; "<="] then
    (match left with
     | TInteger => match right with TInteger | TRTime => true | _ => false end
     | TFloat | TRTime => match right with TInteger | TFloat | TRTime => true | _ => false end
     | _ => false
     end)
    (* RTIME against INTEGER/FLOAT (either way): the right operand must not be a literal *)
    && negb (negb (Bool.eqb (ty_eqb left TRTime) (ty_eqb right TRTime)) && right_is_literal
             && is_num_or_rtime left && is_num_or_rtime right)
  else if mem_str op ["~"; "!~"] then
    (match left with
     | TString => match right with TString | TAcl | TRegex => true | _ => false end
     | TIP => match right with TAcl => true | _ => false end     (* an IP matches ACLs only *)
     | _ => false
     end)
    && negb (ty_eqb right TString && negb right_is_literal)
  else false.

(* ---- operands of the observation cells (harness/cmd/implrun/tables.go tOperand) as the linter types them *)
Definition recv_mode : N := scopec "RECV".

Definition predef_name (t : string) : string :=
  if String.eqb t "INTEGER" then "client.socket.cwnd" else if String.eqb t "FLOAT" then "math.PI"
  else if String.eqb t "STRING" then "req.url" else if String.eqb t "BOOL" then "req.is_ssl"
  else if String.eqb t "RTIME" then "req.grace" else if String.eqb t "TIME" then "now"
  else if String.eqb t "IP" then "server.ip" else if String.eqb t "BACKEND" then "req.backend"
  else if String.eqb t "header" then "req.http.Host" else "".

Definition declared_type (t : string) : ty :=
  match assoc t lint_value_type_map with Some v => ty_of v | None => TOther end.

Definition plain_ctx : lint_ctx := LC Gen.LintVars.lint_var_tree [].

(* type of a value written directly and isLiteralExpression; None when the form does not exist for the type *)
Definition base_operand (t form : string) : option (ty * bool) :=
  if String.eqb form "lit" then
    if String.eqb t "INTEGER" then Some (TInteger, true) else if String.eqb t "FLOAT" then Some (TFloat, true)
    else if String.eqb t "STRING" then Some (TString, true) else if String.eqb t "BOOL" then Some (TBool, false)
    else if String.eqb t "RTIME" then Some (TRTime, true) else if String.eqb t "BACKEND" then Some (TBackend, false)
    else if String.eqb t "ACL" then Some (TAcl, false) else None
  else if String.eqb form "local" then
    if String.eqb t "header" then
      match lint_get plain_ctx "req.http.X-Verif-r" recv_mode with Some v => Some (ty_of v, false) | None => None end
    else Some (declared_type t, false)
  else if String.eqb form "predef" then
    if String.eqb (predef_name t) "" then None
    else match lint_get plain_ctx (predef_name t) recv_mode with Some v => Some (ty_of v, false) | None => None end
  else None.

Definition param_base (form : string) : string :=
  if String.eqb form "plit" then "lit" else if String.eqb form "plocal" then "local"
  else if String.eqb form "ppredef" then "predef" else "".

(* the value in one of the eight forms: (type, isLiteralExpression, the binding at the call site is accepted).
   A parameter (plit / plocal / ppredef) and the result of a functional subroutine (call) have the declared type;
   lintFunctionCallExpression accepts an argument only when its type EQUALS the parameter type;
   if(c, a, b) has the type of its consequence *)
Definition right_operand_ex (t form : string) : option (ty * bool * bool) :=
  if mem_str form ["lit"; "local"; "predef"] then
    match base_operand t form with Some (a, l) => Some (a, l, true) | None => None end
  else if mem_str form ["plit"; "plocal"; "ppredef"] then
    if String.eqb t "header" then None
    else match base_operand t (param_base form) with
         | Some (a, _) => Some (declared_type t, false, ty_eqb a (declared_type t))
         | None => None
         end
  else if String.eqb form "call" then
    if String.eqb t "header" then None else Some (declared_type t, false, true)
  else if String.eqb form "ifexp" then
    match base_operand t "local" with Some (a, _) => Some (a, false, true) | None => None end
  else if mem_str form ["dinit"; "dexpr"; "copy"; "compound"; "default"; "inif"] then
    (* a local variable, however it got its value, is an identifier of its declared type *)
    if String.eqb t "header" then None else Some (declared_type t, false, true)
  else None.

Definition right_operand (t form : string) : option (ty * bool) :=
  match right_operand_ex t form with Some (a, l, _) => Some (a, l) | None => None end.

(* type the linter gives to the assignment target (Context.Set) / to the left operand of a comparison (Context.Get) *)
Definition left_set_type (t : string) : ty :=
  if String.eqb t "header" then
    match lint_set plain_ctx "req.http.X-Verif-l" recv_mode with Some v => ty_of v | None => TNever end
  else declared_type t.
Definition left_get_type (t : string) : ty :=
  if String.eqb t "header" then
    match lint_get plain_ctx "req.http.X-Verif-l" recv_mode with Some v => ty_of v | None => TNever end
  else declared_type t.

Definition assign_ops : list string :=
  ["="; "+="; "-="; "*="; "/="; "%="; "|="; "&="; "^="; "<<="; ">>="; "rol="; "ror="; "&&="; "||="].
Definition compare_ops : list string := ["=="; "!="; "<"; ">"; "<="; ">="; "~"; "!~"].

(* the linter's verdict on the one-statement program of an operator cell *)
Definition lint_op_model (op lty rty form : string) : bool :=
  match right_operand_ex rty form with
  | None => false
  | Some (r, lit, bound) =>
    bound &&
    (if mem_str op assign_ops then lint_set_operator op (left_set_type lty) r lit
     else lint_infix_compare op (left_get_type lty) r lit)
  end.

(* ---- a value where a type is expected: linter/function.go implicitCoersionTable (built-in arguments and, in
   lintReturnStatement, return values); parameters of functional subroutines need the exact type *)
Definition implicit_coercions (expected : ty) : option (list ty) :=
  match expected with
  | TTime => Some [TString]
  | TRTime => Some [TTime; TString]
  | TIP => Some [TString]
  | TID => Some [TString]
  | TString => Some [TString; TReqBackend; TBackend; TInteger; TFloat; TBool; TID; TRTime; TIP; TTime]
  | _ => None
  end.
Definition lint_coerces (expected actual : ty) : bool :=
  ty_eqb expected actual ||
  match implicit_coercions expected with Some l => existsb (ty_eqb actual) l | None => false end.

(* isLiteralOfNonStringType: a literal INTEGER / FLOAT / RTIME or a declared backend name has no implicit
   conversion to STRING *)
Definition literal_of_non_string_type (a : ty) (is_literal : bool) (form : string) : bool :=
  negb (ty_eqb a TString || ty_eqb a TBool)
  && (is_literal || (ty_eqb a TBackend && String.eqb form "lit")).

Definition lint_coerce_model (ctx e t form : string) : bool :=
  match right_operand_ex t form with
  | None => false
  | Some (a, lit, bound) =>
    bound &&
    (if String.eqb ctx "par" then ty_eqb (declared_type e) a
     else lint_coerces (declared_type e) a
          && negb (ty_eqb (declared_type e) TString && literal_of_non_string_type a lit form))
  end.

(* ---- the Fastly assignment type table, written as data:
   for each operator group and target type: value types accepted as literal or variable, and value
   types accepted from a variable only.  "REQBACKEND" stands for the req.backend variable. *)
Definition ref_rows_assign : list (string * (list string * list string)) :=
  [ ("INTEGER", (["INTEGER"], ["FLOAT"; "RTIME"; "TIME"]));
    ("FLOAT",   (["INTEGER"; "FLOAT"], ["RTIME"; "TIME"]));
    ("STRING",  (["STRING"; "BOOL"], ["INTEGER"; "FLOAT"; "RTIME"; "TIME"; "IP"; "REQBACKEND"]));
    ("BOOL",    (["BOOL"], []));
    ("RTIME",   (["RTIME"; "TIME"], ["INTEGER"; "FLOAT"]));
    ("TIME",    (["RTIME"; "TIME"], ["INTEGER"; "FLOAT"]));
    ("IP",      (["STRING"; "IP"], []));
    ("BACKEND", (["BACKEND"; "REQBACKEND"], []));
    ("ACL",     (["ACL"], [])) ].
Definition ref_rows_addsub : list (string * (list string * list string)) :=
  [ ("INTEGER", (["INTEGER"], ["FLOAT"; "RTIME"; "TIME"]));
    ("FLOAT",   (["INTEGER"; "FLOAT"], ["RTIME"; "TIME"]));
    ("RTIME",   (["RTIME"], ["INTEGER"; "FLOAT"; "TIME"]));
    ("TIME",    (["RTIME"], ["INTEGER"; "FLOAT"])) ].
Definition ref_rows_muldiv : list (string * (list string * list string)) :=
  [ ("INTEGER", (["INTEGER"], ["FLOAT"]));
    ("FLOAT",   (["INTEGER"; "FLOAT"], []));
    ("RTIME",   (["INTEGER"; "FLOAT"], [])) ].
Definition ref_rows_bitwise : list (string * (list string * list string)) := [ ("INTEGER", (["INTEGER"], [])) ].
Definition ref_rows_logical : list (string * (list string * list string)) := [ ("BOOL", (["BOOL"], [])) ].

Definition ref_rows (op : string) : list (string * (list string * list string)) :=
  if String.eqb op "=" then ref_rows_assign
  else if String.eqb op "+=" then
    ref_rows_addsub ++ [("STRING", (["STRING"; "BOOL"], ["INTEGER"; "FLOAT"; "RTIME"; "TIME"; "IP"; "REQBACKEND"]))]
  else if String.eqb op "-=" then ref_rows_addsub
  else if mem_str op ["*="; "/="; "%="] then ref_rows_muldiv
  else if mem_str op ["|="; "&="; "^="; "<<="; ">>="; "rol="; "ror="] then ref_rows_bitwise
  else if mem_str op ["&&="; "||="] then ref_rows_logical
  else [].

(* a header is a STRING target and a STRING value; the predefined BACKEND variable of the cells is req.backend;
   a literal is a source literal of type INTEGER, FLOAT, STRING or RTIME (true/false and backend / ACL
   names are identifiers) *)
Definition ref_assign (op lty rty form : string) : bool :=
  let l := if String.eqb lty "header" then "STRING" else lty in
  let r := if String.eqb rty "header" then "STRING"
           else if String.eqb rty "BACKEND" && String.eqb form "predef" then "REQBACKEND" else rty in
  let is_literal := String.eqb form "lit" && mem_str rty ["INTEGER"; "FLOAT"; "STRING"; "RTIME"] in
  match assoc l (ref_rows op) with
  | None => false
  | Some (both, var_only) => mem_str r both || (mem_str r var_only && negb is_literal)
  end.

(* ---- scope-restricted statements according to the Fastly documentation (scope index 0..8) *)
Definition ref_stmt_scopes (kind : string) : list string :=
  if String.eqb kind "restart" then ["RECV"; "HIT"; "FETCH"; "ERROR"; "DELIVER"]
  else if String.eqb kind "error" then ["RECV"; "HIT"; "MISS"; "PASS"; "FETCH"]
  else if String.eqb kind "esi" then ["FETCH"]
  else if String.eqb kind "synthetic" then ["ERROR"]
  else if String.eqb kind "synthetic.base64" then ["ERROR"]
  else if String.eqb kind "return:lookup" then ["RECV"]
  else if String.eqb kind "return:pass" then ["RECV"; "HIT"; "MISS"; "PASS"; "FETCH"]
  else if String.eqb kind "return:error" then ["RECV"; "HIT"; "MISS"; "FETCH"]
  else if String.eqb kind "return:restart" then ["RECV"; "HIT"; "FETCH"; "ERROR"; "DELIVER"]
  else if String.eqb kind "return:hash" then ["HASH"]
  else if String.eqb kind "return:deliver" then ["HIT"; "FETCH"; "ERROR"; "DELIVER"; "LOG"]
  else if String.eqb kind "return:deliver_stale" then ["MISS"; "FETCH"; "ERROR"]
  else if String.eqb kind "return:fetch" then ["MISS"]
  else if String.eqb kind "return:hit_for_pass" then ["FETCH"]
  else [].
Definition ref_stmt (kind : string) (scope : N) : bool := mem_str (scope_name scope) (ref_stmt_scopes kind).
