(* C07 - string concatenation series: interpreter/expression.go ProcessStringConcatInfixExpression
   (toSeriesExpression flattens `a b + c ...` into a series of operands, each with the explicit
   sign written in front of it; isNotSetExpressionSeries; the loop over the series calling
   operator.Concat, with the special cases for STRING / IP (not-set handling by context), TIME
   followed by an RTIME literal ("time calculation") and signed RTIME after TIME).
   [local] = ExpressionOption.IsLocalVariable(): the series is the right-hand side of an assignment
   to a local variable (not-set reads as ""); otherwise (header assignment, log, condition) a
   not-set operand reads as "(null)".
   Operand kinds follow the Go type switch on the AST node: string literal, identifier (its
   current value), RTIME literal, anything else (INTEGER / FLOAT / BOOL / IP literals, grouped
   expressions: "Cannot use ... for string concatenation").  if() expressions and function calls
   as operands are not modelled.  No proofs in this file. *)
From Coq Require Import List NArith ZArith Bool.
From Falco Require Import Base.Res Base.Bytes Model.Float Model.Acl Model.Val Model.Assign Model.Oper.
Import ListNotations.
Local Open Scope Z_scope.

Inductive sign := SNone | SPlus | SMinus.

Inductive citem :=
| CLit (s : str)               (* "..." *)
| CVar (v : val)               (* var.x : the value it holds *)
| CRTimeLit (ns : Z)           (* 5m *)
| COther.                      (* not concatenable *)

Record sitem := mkItem { sop : sign; sit : citem }.

Definition signed (s : sign) : bool := match s with SNone => false | _ => true end.

Definition is_time_var (c : option citem) : bool :=
  match c with Some (CVar (VTime _ _ _)) => true | _ => false end.

(* isNotSetExpressionSeries: every operand is a not-set STRING / IP variable *)
Definition all_notset (l : list sitem) : bool :=
  forallb (fun x => match sit x with
                    | CVar (VStr _ true) => true
                    | CVar (VIp _ true) => true
                    | _ => false
                    end) l.

(* operator.Concat(rv, cv) where rv is the (set) string accumulated so far *)
Definition cat (rv : str) (o : operand) : res str := concat (mkOp (VStr rv false) false) o.

(* the operand an identifier hands to operator.Concat *)
Definition var_operand (local : bool) (v : val) : operand :=
  match v with
  | VStr _ ns => if local && ns then mkOp (VStr [] false) false else mkOp v false
  | VIp _ ns => if local && ns then mkOp (VStr [] false) false else mkOp v false
  | _ => mkOp v false
  end.

Definition next (r : res str) (k : str -> res str) : res str :=
  match r with OK s => k s | Err => Err | Crash => Crash | OutOfFuel => OutOfFuel end.

Fixpoint loop (local : bool) (prev : option citem) (l : list sitem) (rv : str) {struct l} : res str :=
  match l with
  | [] => OK rv
  | x :: rest =>
      let generic (v : val) := next (cat rv (var_operand local v)) (loop local (Some (sit x)) rest) in
      match sit x with
      | CLit s => next (cat rv (mkOp (VStr s false) true)) (loop local (Some (sit x)) rest)
      | CVar (VTime ext nsec oob) =>
          (* time calculation: the next operand is an RTIME literal; its sign decides (a bare or + literal adds) *)
          match rest with
          | nx :: rest2 =>
              match sit nx with
              | CRTimeLit d =>
                  let '(e, _) := time_add ext nsec (match sop nx with SMinus => wrap64 (- d) | _ => d end) in
                  next (cat rv (mkOp (VTime e 0 false) false)) (loop local (Some (sit nx)) rest2)
              | _ => generic (VTime ext nsec oob)
              end
          | [] => generic (VTime ext nsec oob)
          end
      | CVar (VRTime ns) =>
          if signed (sop x) && is_time_var prev then Err else generic (VRTime ns)
      | CVar v => generic v
      | CRTimeLit _ => Err
      | COther => Err
      end
  end.

Definition concat_series (local : bool) (l : list sitem) : res val :=
  if all_notset l then OK (VStr [] true)
  else match loop local None l [] with
       | OK s => OK (VStr s false)
       | Err => Err | Crash => Crash | OutOfFuel => OutOfFuel
       end.

(* ------------------------------------------------------------------ the binary step, for the fold law *)

(* what one operand contributes when no TIME variable is involved *)
Definition conv (local : bool) (x : sitem) : res operand :=
  match sit x with
  | CLit s => OK (mkOp (VStr s false) true)
  | CVar v => OK (var_operand local v)
  | _ => Err
  end.

Definition step (local : bool) (acc : res str) (x : sitem) : res str :=
  next acc (fun rv => match conv local x with OK o => cat rv o | Err => Err | Crash => Crash | OutOfFuel => OutOfFuel end).

Definition no_time (l : list sitem) : bool :=
  forallb (fun x => match sit x with CVar (VTime _ _ _) => false | _ => true end) l.
