(* Extensions of the lint-verdict model (Model/Verdict.v): the configuration cascade that produces
   [cfg] (config.New + NewRunner: .falco.yaml `linter.verbose`, the -json / -v / -vv flags, possibly
   repeated), the per-file grouping of the -json document (r.lintErrors[le.Token.File]), and the
   exit status of the other sub-commands on a file with a syntax error.  No proofs here. *)
From Coq Require Import List Bool Arith.
From Coq Require Import Strings.String Strings.Byte.
From Falco Require Import Base.Bytes Gen.LintGen Model.Verdict.
Import ListNotations.
Open Scope list_scope.

(* ------------------------------------------------------------------ configuration cascade *)
Inductive flag := FJson | FV | FVV.

Definition flag_eqb (a b : flag) : bool :=
  match a, b with FJson, FJson | FV, FV | FVV, FVV => true | _, _ => false end.

(* `linter: verbose:` of the yaml file: only "warning" and "info" mean something (config.New) *)
Inductive yverbose := YNone | YWarning | YInfo | YOther.

Definition has (f : flag) (fl : list flag) : bool := existsb (flag_eqb f) fl.

(* the command-line spelling of the flags and the values of the yaml key: regenerated from the struct tags of
   config/config.go and from the switch over c.Linter.VerboseLevel in config.New (Gen/LintGen.v) *)
Definition flag_of_name (n : list byte) : option flag :=
  if bytes_eqb n flag_json then Some FJson
  else if bytes_eqb n flag_verbose_info then Some FVV
  else if bytes_eqb n flag_verbose_warning then Some FV
  else None.

Definition f_verbose_warning : list byte := Eval compute in list_byte_of_string "VerboseWarning"%string.
Definition f_verbose_info : list byte := Eval compute in list_byte_of_string "VerboseInfo"%string.

Definition yverbose_of (v : option (list byte)) : yverbose :=
  match v with
  | None => YNone
  | Some w =>
      match find (fun p => bytes_eqb (fst p) w) yaml_verbose_levels with
      | Some (_, fld) => if bytes_eqb fld f_verbose_warning then YWarning
                         else if bytes_eqb fld f_verbose_info then YInfo else YOther
      | None => YOther
      end
  end.

(* config.New: VerboseWarning / VerboseInfo are set by the flag OR by the yaml level; NewRunner: info wins *)
Definition cfg_of (yv : yverbose) (rules : list (rule * list byte)) (fl : list flag) : cfg :=
  let vinfo := has FVV fl || match yv with YInfo => true | _ => false end in
  let vwarn := has FV fl || match yv with YWarning => true | _ => false end in
  {| json := has FJson fl;
     verbosity := if vinfo then 2 else if vwarn then 1 else 0;
     overrides := overrides_of rules |}.

(* overriding one more rule to IGNORE *)
Definition with_ignore (c : cfg) (r : rule) : cfg :=
  {| json := json c; verbosity := verbosity c;
     overrides := fun q => if bytes_eqb r q then Some SevIgnore else overrides c q |}.

Definition without (r : rule) (x : lint_input) : lint_input :=
  {| parse_error_main := parse_error_main x; parse_error_included := parse_error_included x;
     diags := filter (fun d => negb (bytes_eqb r (fst d))) (diags x) |}.

(* ------------------------------------------------------------------ the -json document, per file *)
Definition file := list byte.
Definition fdiag := (file * diag)%type.        (* le.Token.File, (rule, intrinsic severity) *)

(* r.lintErrors[file] = append(r.lintErrors[file], entry): a map, modelled as an association list in
   order of first appearance *)
Fixpoint add_entry (f : file) (e : diag) (m : list (file * list diag)) : list (file * list diag) :=
  match m with
  | [] => [(f, [e])]
  | (g, l) :: m' => if bytes_eqb g f then (g, l ++ [e]) :: m' else (g, l) :: add_entry f e m'
  end.

Definition step_file (c : cfg) (m : list (file * list diag)) (fd : fdiag) : list (file * list diag) :=
  let sev := effective c (snd fd) in
  if sev_eqb sev SevIgnore then m else add_entry (fst fd) (fst (snd fd), sev) m.

Definition doc_files (c : cfg) (fds : list fdiag) : list (file * list diag) :=
  fold_left (step_file c) fds [].

Fixpoint lookup (f : file) (m : list (file * list diag)) : option (list diag) :=
  match m with
  | [] => None
  | (g, l) :: m' => if bytes_eqb g f then Some l else lookup f m'
  end.

Definition of_file (f : file) (fds : list fdiag) : list diag :=
  map snd (filter (fun fd => bytes_eqb (fst fd) f) fds).

(* ------------------------------------------------------------------ the other sub-commands *)
(* falco stats: Runner.Stats -> run(ctx, main, RunModeStat); since the repair (fixed: property=C04) the
   FatalError of an included module is tested before the stat-mode return, so a syntax error in the main
   file or in an included module fails the command.  falco test parses through the interpreter, which
   fails on either (observed; not modelled further). *)
Definition run_stats (x : lint_input) : nat :=
  if parse_error_main x then 1 else if parse_error_included x then 1 else 0.
