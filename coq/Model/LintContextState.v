(* C11 - the mutable state of the linter context (linter/context.Context), audited against Gen/ContextState.v
   (regenerated with go/types).  Every field is classified; the classification is CHECKED against the regenerated
   write sets (context_state_audited in Props/C11.v), so that a field that is no longer reset when a subroutine
   is entered, a new field, or a new scope-entering method breaks an obligation by name.
     Construction   written only while the context is built (options, lazy defaults)
     ReadOnly       never written after construction
     RootRegistry   filled by factoryRootDeclarations / the declaration linters before / independently of the
                    subroutine bodies; keyed by name (registration order effects: Model/ScopeInfer.register)
     ScopeStack     curMode / prevMode: written by EVERY scope-entering method and by Restore
     ResetOnEntry   state carried between statements that EVERY scope-entering method resets
     PerSubroutine  state of one subroutine body, reset by Restore or by lintSubRoutineDeclaration when the body ends
     SetBeforeRead  written by the only scope-entering method after which it is read (curName: functional subroutines) *)
From Coq Require Import List String Bool.
From Falco Require Import Gen.ContextState.
Import ListNotations.
Local Open Scope string_scope.

Inductive state_class : Type :=
| Construction | ReadOnly | RootRegistry | ScopeStack | ResetOnEntry | PerSubroutine | SetBeforeRead.

Definition audited_fields : list (string * state_class) := [
  ("curMode", ScopeStack); ("prevMode", ScopeStack); ("curName", SetBeforeRead);
  ("functions", RootRegistry);
  (* root part: backend.* / director.* items (AddBackend, AddDirector); per-subroutine part: the locals "var"
     (Declare), deleted by Restore *)
  ("Variables", PerSubroutine);
  ("resolver", Construction); ("fastlySnippets", Construction);
  ("Acls", RootRegistry); ("Backends", RootRegistry); ("Tables", RootRegistry); ("Directors", RootRegistry);
  ("Subroutines", RootRegistry); ("Penaltyboxes", RootRegistry); ("Ratecounters", RootRegistry);
  ("Gotos", PerSubroutine); ("GotoDestinations", PerSubroutine);
  ("Identifiers", ReadOnly);
  ("RegexVariables", ResetOnEntry);
  ("ReturnType", PerSubroutine); ("CurrentSubroutine", PerSubroutine)
].

Definition mem (x : string) (l : list string) : bool := existsb (String.eqb x) l.
Definition writes_of (m : string) : list string :=
  match find (fun kv => String.eqb (fst kv) m) context_method_writes with Some kv => snd kv | None => [] end.

(* the scope-entering methods: those that set the current mode, other than Restore *)
Definition entry_methods : list string :=
  map fst (filter (fun kv => mem "curMode" (snd kv) && negb (String.eqb (fst kv) "Restore")) context_method_writes).

Definition written_somewhere (f : string) : bool :=
  existsb (fun kv => mem f (snd kv)) context_method_writes || existsb (fun kv => String.eqb (snd kv) f) linter_context_writes.

Definition class_ok (x : string * state_class) : bool :=
  let f := fst x in
  match snd x with
  | ReadOnly => negb (written_somewhere f)
  | ScopeStack => forallb (fun m => mem f (writes_of m)) entry_methods && mem f (writes_of "Restore")
  | ResetOnEntry => forallb (fun m => mem f (writes_of m)) entry_methods
  | PerSubroutine => mem f (writes_of "Restore")
                     || existsb (fun kv => String.eqb (fst kv) "lintSubRoutineDeclaration" && String.eqb (snd kv) f) linter_context_writes
  | Construction => forallb (fun kv => negb (mem f (snd kv)) || negb (mem "curMode" (snd kv))) context_method_writes
  | RootRegistry => forallb (fun m => negb (mem f (writes_of m))) ("Restore" :: entry_methods)
  | SetBeforeRead => existsb (fun m => mem f (writes_of m)) entry_methods
  end.

Definition expected_entry_methods : list string := ["Scope"; "UserDefinedFunctionScope"].
