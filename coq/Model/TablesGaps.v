(* The exact sets of disagreeing cells, computed from the regenerated tables: (kind, name, at, bits).
   This file proves nothing; checks/c05.py prints `all_gap_rows` with coqc and reports every row
   (a row that is not a `known:` line of known_findings.txt is a violation; the theorems of
   Proofs/TablesProofs.v fail on exactly those rows). *)
From Coq Require Import NArith List String Bool Ascii.
From Falco Require Import Base.TablesBase Model.ScopeMask Model.LintTables Model.LintOps Model.TablesDomain Model.InterpAssign Model.InterpVars.
From Falco Require Import Gen.KnownGaps.
From Falco Require Import Gen.LintConsts Gen.LintVars Gen.LintDyn Gen.LintFuncs Gen.RefVars Gen.RefFuncs Gen.InterpFuncs.
From Falco Require Import Gen.ObsVars Gen.ObsFuncs Gen.ObsStmts Gen.ObsOps Gen.ObsWide Gen.ObsCoerce Gen.ObsInferred Gen.ObsIdArgs.
Import ListNotations.
Local Open Scope N_scope.
Local Open Scope string_scope.
Local Open Scope list_scope.

Definition gap_row : Type := (string * string * string * N)%type.

Definition bits_of (f : N -> bool) (ps : list N) : N :=
  fold_right (fun p acc => if f p then N.lor (N.shiftl 1 p) acc else acc) 0 ps.
Definition row_if (kind name at_ : string) (bits : N) : list gap_row :=
  if N.eqb bits 0 then [] else [(kind, name, at_, bits)].

Definition gctx : lint_ctx := declared_ctx backend_names director_names ratecounter_names.
Definition digit (i : N) : string := String (ascii_of_N (48 + i)) "".

Definition gaps_vars : list gap_row :=
  flat_map (fun r => match r with (t, n, op, lint, interp, ctx) =>
    let model := bits_of (fun p => lint_var_op gctx n op (lint_mode (mask_at p))) positions45 in
    let refb := match assoc t ref_vars with
                | Some rv => bits_of (fun p => ref_var_allows rv op (mask_at p)) positions45
                | None => 0 end in
    let ib := fold_right (fun s acc => if interp_var_has n op s then N.lor (N.shiftl 1 s) acc else acc) 0 idx9 in
    let regen := bits_of (fun p => all_scopes_test ib (mask_at p)) positions45 in
    row_if "var-model" n op (N.lor (N.lxor model ctx) (N.lxor model lint))
    ++ row_if "var-interp-regen" n op
         (bits_of (fun p => if Bool.eqb (N.testbit regen p) (N.testbit interp p) then false else negb (gap_covers "var-interp" n op p)) positions45)
    ++ row_if "var-ref" n op (N.lxor lint refb)
    ++ row_if "var-interp" n op (N.ldiff lint interp) end) obs_vars.

Definition gaps_var_types : list gap_row :=
  flat_map (fun r => match r with (n, tys) =>
    (* one row per linter type name *)
    let cells := flat_map (fun s => match lint_get gctx n (lint_mode (N.shiftl 1 s)) with
        | None => []
        | Some t =>
          let it := nth (N.to_nat s) tys "-" in
          let lt := type_name t in
          if String.eqb it "-" || String.eqb it lt || (String.eqb lt "REQBACKEND" && String.eqb it "BACKEND") then []
          else [(lt, s)]
        end) idx9 in
    match cells with
    | [] => []
    | (lt, _) :: _ => row_if "var-type" n lt (bits_of (fun s => existsb (fun c => N.eqb (snd c) s) cells) idx9)
    end end) obs_var_types.

Definition gaps_funcs : list gap_row :=
  flat_map (fun r => match r with (n, i, lint, interp) =>
    let model := bits_of (fun p => is_some (lint_get_function n (lint_mode (mask_at p)))) positions45 in
    let refb := match assoc n ref_funcs with
                | Some rf => bits_of (fun p => ref_func_allows rf (mask_at p)) positions45
                | None => 0 end in
    row_if "func-model" n (digit i) (N.lxor model lint)
    ++ (if N.eqb i 0 then row_if "func-ref" n "" (N.lxor lint refb) else [])
    ++ row_if "func-interp" n (digit i) (N.ldiff lint interp) end) obs_funcs.

Definition gaps_stmts : list gap_row :=
  flat_map (fun r => match r with (k, lint, interp) =>
    let model := bits_of (fun p => lint_stmt k (lint_mode (mask_at p))) positions45 in
    let refb := bits_of (fun p => forallb (ref_stmt k) (scopes_of (mask_at p))) positions45 in
    row_if "stmt-model" k "" (N.lxor model lint)
    ++ row_if "stmt-ref" k "" (N.lxor lint refb)
    ++ row_if "stmt-interp" k "" (N.ldiff lint interp) end) obs_stmts.

Definition op_bits (f : string -> string -> bool) : N :=
  fold_right (fun c acc => match c with (p, rt, fm) => if f rt fm then N.lor (N.shiftl 1 p) acc else acc end) 0 op_cells_existing.

Definition base_positions : N :=
  fold_right (fun c acc => match c with (p, _, _) => N.lor (N.shiftl 1 p) acc end) 0 op_cells_base.

Definition gaps_ops : list gap_row :=
  flat_map (fun r => match r with (op, lty, lint, interp) =>
    let model := op_bits (lint_op_model op lty) in
    let refb := N.land (op_bits (ref_assign op lty)) base_positions in
    row_if "op-model" op lty (N.lxor model lint)
    ++ row_if "op-interp-model" op lty (N.lxor (op_bits (interp_op_model op lty)) interp)
    ++ (if mem_str op assign_ops then row_if "op-ref" op lty (N.lxor (N.land lint base_positions) refb) else [])
    ++ row_if "op-interp" op lty (N.ldiff lint interp) end) obs_ops.

(* T-level: linter table vs reference table, dynamic objects, simulator function table *)
Definition gaps_tables : list gap_row :=
  flat_map (fun kv => if option_rel var_entry_agrees (Some (snd kv)) (assoc (fst kv) ref_vars) then [] else [("var-table", fst kv, "", 1)]) lint_var_flat
  ++ flat_map (fun kv => if is_some (assoc (fst kv) lint_var_flat) then [] else [("var-table", fst kv, "only in the reference", 1)]) ref_vars
  ++ flat_map (fun kv => if option_rel func_entry_agrees (Some (snd kv)) (assoc (fst kv) ref_funcs) then [] else [("func-table-ref", fst kv, "", 1)]) lint_func_flat
  ++ flat_map (fun kv => if is_some (assoc (fst kv) lint_func_flat) then [] else [("func-table-ref", fst kv, "only in the reference", 1)]) ref_funcs
  ++ flat_map (fun kv => if option_rel var_entry_agrees (Some (snd kv)) (assoc (fst kv) ref_vars) then [] else [("dyn-ref", fst kv, "", 1)])
       (vflatten 3 "backend.%any%" lint_dyn_backend ++ vflatten 3 "director.%any%" lint_dyn_director).

Definition gaps_func_table : list gap_row :=
  flat_map (fun kv => match assoc (fst kv) interp_funcs with
                      | Some g => if interp_func_agrees (snd kv) g then [] else [("func-table", fst kv, "", 1)]
                      | None => [("func-table", fst kv, "", 1)] end) lint_func_flat.

(* annotations of any width: model vs real linter (and, for statements, vs the documented scopes) *)
Definition wide_bits (f : N -> bool) : N := bits_of f obs_wide_masks.
Definition wide_obs (bits : N) : N := bits_of (N.testbit bits) obs_wide_masks.
Definition gaps_wide : list gap_row :=
  flat_map (fun r => match r with (n, op, bits) =>
    row_if "var-wide-model" n op (N.lxor (wide_bits (fun m => lint_var_op gctx n op (lint_mode m))) (wide_obs bits)) end) obs_vars_wide
  ++ flat_map (fun r => match r with (n, bits) =>
    row_if "func-wide-model" n "" (N.lxor (wide_bits (fun m => is_some (lint_get_function n (lint_mode m)))) (wide_obs bits)) end) obs_funcs_wide
  ++ flat_map (fun r => match r with (k, bits) =>
    row_if "stmt-wide-model" k "" (N.lxor (wide_bits (fun m => lint_stmt k (lint_mode m))) (wide_obs bits))
    ++ row_if "stmt-wide-ref" k "" (N.lxor (wide_bits (fun m => forallb (ref_stmt k) (scopes_of m))) (wide_obs bits)) end) obs_stmts_wide.

(* literal spellings: same verdicts as the base cell of the type *)
Definition gaps_variants : list gap_row :=
  flat_map (fun r => match r with (op, lty, lint, interp) =>
    row_if "opv-lint" op lty
      (fold_right (fun v acc => match v with (i, _, t, f) =>
         if Bool.eqb (lint_op_model op lty t f) (N.testbit lint i) then acc else N.lor (N.shiftl 1 i) acc end) 0 lit_variants)
    ++ row_if "opv-interp" op lty
      (fold_right (fun v acc => match v with (i, _, t, f) =>
         if Bool.eqb (interp_op_model op lty t f) (N.testbit interp i) then acc else N.lor (N.shiftl 1 i) acc end) 0 lit_variants)
    end) obs_op_variants.

(* provenance of the left operand *)
Definition opl_bits (f : string -> string -> bool) : N :=
  fold_right (fun c acc => match c with (p, rt, fm) => if f rt fm then N.lor (N.shiftl 1 p) acc else acc end) 0 op_cells_left.
Definition gaps_ops_left : list gap_row :=
  flat_map (fun r => match r with (op, lty, lp, lint, interp) =>
    let at_ := String.append lty (String.append ":" lp) in
    row_if "opl-model" op at_ (N.lxor (opl_bits (lint_op_model op lty)) lint)
    ++ row_if "opl-interp-model" op at_ (N.lxor (opl_bits (interp_op_model_left op lty lp)) interp)
    ++ row_if "opl-interp" op at_ (N.ldiff lint interp) end) obs_ops_left.

(* identifier arguments: one row per (function, signature); bit 9 * identifier index + scope index *)
Definition gaps_idargs : list gap_row :=
  flat_map (fun r => match r with (fn, i, lint, interp) => row_if "idarg-interp" fn (digit i) (N.ldiff lint interp) end) obs_idargs.

(* a value where a type is expected *)
Definition gaps_coerce : list gap_row :=
  flat_map (fun r => match r with (cx, e, lint, interp) =>
    row_if "coerce-model" cx e (N.lxor (op_bits (lint_coerce_model cx e)) lint)
    ++ row_if "coerce-interp-model" cx e (N.lxor (op_bits (interp_coerce_model cx e)) interp)
    ++ row_if "coerce-interp" cx e (N.ldiff lint interp) end) obs_coerce.

(* scopes by call-graph inference: "<kind>:<depth>" in the at field; bits by compact mask value *)
Definition inferred_gap_rows (masks : list N) (rows : list (string * string * string * N * N * N)) : list gap_row :=
  flat_map (fun r => match r with (k, n, a, d, lint, interp) =>
    let model := bits_of (fun m => lint_use_model gctx k n a m) masks in
    let at_ := String.append k (String.append ":" (String.append a (String.append ":" (digit d)))) in
    row_if "inferred-model" n at_ (N.lxor model (bits_of (N.testbit lint) masks))
    ++ row_if "inferred-interp" n at_
         (bits_of (fun m => if N.testbit lint m then (if N.testbit interp m then false else negb (use_gap_covers k n a m)) else false) masks) end) rows.
Definition gaps_inferred : list gap_row :=
  inferred_gap_rows pair_masks obs_inferred ++ inferred_gap_rows triple_masks obs_inferred3.

Definition all_gap_rows : list gap_row :=
  gaps_tables ++ gaps_func_table ++ gaps_vars ++ gaps_var_types ++ gaps_funcs ++ gaps_stmts ++ gaps_ops ++ gaps_wide ++ gaps_variants ++ gaps_ops_left ++ gaps_coerce ++ gaps_idargs ++ gaps_inferred.

Definition domain_sizes : list (string * N) :=
  [("variables", N.of_nat (List.length lint_var_flat)); ("variable rows", N.of_nat (List.length obs_vars));
   ("functions", N.of_nat (List.length lint_func_flat)); ("function rows", N.of_nat (List.length obs_funcs));
   ("statement rows", N.of_nat (List.length obs_stmts)); ("operator rows", N.of_nat (List.length obs_ops));
   ("operator cells per row", N.of_nat (List.length op_cells_existing)); ("masks", N.of_nat (List.length masks45));
   ("wide masks", N.of_nat (List.length obs_wide_masks)); ("coercion rows", N.of_nat (List.length obs_coerce)); ("identifier-argument rows", N.of_nat (List.length obs_idargs));
   ("identifier-argument cells per row", N.of_nat (List.length idarg_cells)); ("left-provenance rows", N.of_nat (List.length obs_ops_left));
   ("left-provenance cells per row", N.of_nat (List.length op_cells_left));
   ("inferred-scope rows (x 36 pairs)", N.of_nat (List.length obs_inferred)); ("inferred-scope rows (x 84 triples)", N.of_nat (List.length obs_inferred3)); ("wide rows", N.of_nat (List.length obs_vars_wide + List.length obs_funcs_wide + List.length obs_stmts_wide))].
