(* C13 - the Fastly names of the built-ins 0, 1, 2 of Model/StoreOps.v ([std_builtin]).
   gen/storegen.py renders built-in k by this table (checks/c13.py compares the two lists);
   Proofs/StoreEffectsTie.v shows against the table read off the Go source (Gen/StoreEffects.v)
   that none of them touches the interpreter context or writes through an argument - which is
   what lets the model treat a call of them as an expression without effect ([pure]). *)
From Coq Require Import List String.
Import ListNotations.
Local Open Scope string_scope.

Definition std_builtin_names : list string := ["std.strlen"; "std.toupper"; "std.tolower"].

(* The implicit writes of the model, by the context field of the Go source.
   error: [SError] writes the two cells gs / gr it is given besides evaluating its operands;
   match: [set_caps] after `~` (also `case ~`) rewrites re.group.N - ctx.RegexMatchedValues - and the
          implementation may record EREGRECUR in ctx.FastlyError (observed by the check as @fastly.error);
   set / add: the implementation also charges ctx.RequestWorkspaceBytes for request headers (an accounting
          counter no VCL variable of the model reads; observed by the check as @workspace);
   every other statement kind of the model writes no context field itself. *)
Definition error_implicit : list string := ["ObjectResponse"; "ObjectStatus"].
Definition match_implicit : list string := ["FastlyError"; "RegexMatchedValues"].
Definition set_implicit : list string := ["RequestWorkspaceBytes"].
Definition silent_kinds : list string := ["Call"; "Declare"; "If"; "Log"; "Remove"; "Return"; "Switch"; "Unset"].
