(* C05 - which predefined variables the simulator can read / write / unset in which scope, as a function over the
   REGENERATED dispatch tables Gen.InterpVars (translator: case labels of `switch name`, dispatcher functions,
   regular expressions, delegation to the all-scope base) of interpreter/variable/*.go; SetScope of
   interpreter/interpreter.go selects the <Scope>ScopeVariables type.  No proofs here. *)
From Coq Require Import NArith List String Bool Ascii.
From Falco Require Import Base.TablesBase Model.LintTables.
From Falco Require Import Gen.InterpVars.
Import ListNotations.
Local Open Scope string_scope.

Fixpoint drop_str (n : nat) (s : string) : string :=
  match n, s with O, _ => s | S k, String _ r => drop_str k r | S _, EmptyString => EmptyString end.
(* the maximal run of characters satisfying p at the head of s, and the rest *)
Fixpoint span_str (p : ascii -> bool) (s : string) : string * string :=
  match s with
  | EmptyString => (EmptyString, EmptyString)
  | String a r => if p a then let (x, y) := span_str p r in (String a x, y) else (EmptyString, s)
  end.
Definition not_dot (a : ascii) : bool := negb (Ascii.eqb a ".").
Definition is_digit (a : ascii) : bool := let n := nat_of_ascii a in Nat.leb 48 n && Nat.leb n 57.

(* does some suffix of s satisfy f (unanchored match) *)
Fixpoint any_suffix (f : string -> bool) (s : string) : bool :=
  f s || match s with EmptyString => false | String _ r => any_suffix f r end.

(* <pre>([^\.]+)<post> at the head of s; post starts with a dot, so the group is the maximal dot-free run *)
Definition seg_then (pre : string) (posts : list string) (s : string) : option string :=
  if is_prefix pre s then
    let (seg, rest) := span_str not_dot (drop_str (String.length pre) s) in
    if String.eqb seg "" then None
    else match find (fun post => is_prefix post rest) posts with
         | Some post => Some (drop_str (String.length post) rest)
         | None => None
         end
  else None.

(* the regular expressions of interpreter/variable/variable.go, by their source text *)
Definition regex_matches (pat name : string) : bool :=
  if String.eqb pat "^req\.http\.(.+)" then is_prefix "req.http." name && negb (String.eqb (drop_str 9 name) "")
  else if String.eqb pat "^bereq\.http\.(.+)" then is_prefix "bereq.http." name && negb (String.eqb (drop_str 11 name) "")
  else if String.eqb pat "^beresp\.http\.(.+)" then is_prefix "beresp.http." name && negb (String.eqb (drop_str 12 name) "")
  else if String.eqb pat "^resp\.http\.(.+)" then is_prefix "resp.http." name && negb (String.eqb (drop_str 10 name) "")
  else if String.eqb pat "^obj\.http\.(.+)" then is_prefix "obj.http." name && negb (String.eqb (drop_str 9 name) "")
  else if String.eqb pat "backend\.([^\.]+)\.connections_open" then any_suffix (fun s => is_some (seg_then "backend." [".connections_open"] s)) name
  else if String.eqb pat "backend\.([^\.]+)\.connections_used" then any_suffix (fun s => is_some (seg_then "backend." [".connections_used"] s)) name
  else if String.eqb pat "backend\.([^\.]+)\.healthy" then any_suffix (fun s => is_some (seg_then "backend." [".healthy"] s)) name
  else if String.eqb pat "director\.([^\.]+)\.healthy" then any_suffix (fun s => is_some (seg_then "director." [".healthy"] s)) name
  else if String.eqb pat "ratecounter\.([^\.]+)\.(bucket|rate)\.([^\.]+)" then
    any_suffix (fun s => match seg_then "ratecounter." [".bucket."; ".rate."] s with
                         | Some rest => negb (String.eqb (fst (span_str not_dot rest)) "")
                         | None => false end) name
  else if String.eqb pat "re\.group\.([0-9]+)" then
    any_suffix (fun s => is_prefix "re.group." s && negb (String.eqb (fst (span_str is_digit (drop_str 9 s))) "")) name
  else false.
Definition known_regexes : list string :=
  ["^req\.http\.(.+)"; "^bereq\.http\.(.+)"; "^beresp\.http\.(.+)"; "^resp\.http\.(.+)"; "^obj\.http\.(.+)";
   "backend\.([^\.]+)\.connections_open"; "backend\.([^\.]+)\.connections_used"; "backend\.([^\.]+)\.healthy";
   "director\.([^\.]+)\.healthy"; "ratecounter\.([^\.]+)\.(bucket|rate)\.([^\.]+)"; "re\.group\.([0-9]+)"].

Definition regex_var_matches (re_var name : string) : bool :=
  match assoc re_var interp_var_regexes with Some pat => regex_matches pat name | None => false end.

(* interpreter/variable/all.go geoipAlias: geoip.<x> is client.geo.<x>, except geoip.use_x_forwarded_for *)
Definition geoip_alias (name : string) : string :=
  if is_prefix "geoip." name && negb (String.eqb name "geoip.use_x_forwarded_for")
  then "client.geo." ++ drop_str 6 name else name.

Definition entry_has (m : ivmethod) (name : string) : bool :=
  mem_str (if iv_lower m then lower name else name) (iv_cases m)
  || existsb (fun r => regex_var_matches r name) (iv_regexes m).

Definition helper_has (f name : string) : bool :=
  match assoc f interp_var_helpers with Some m => entry_has m name | None => false end.

Fixpoint method_has (fuel : nat) (ty meth name : string) : bool :=
  match fuel with
  | O => false
  | S n =>
    match assoc (ty ++ "." ++ meth) interp_var_methods with
    | None => false
    | Some m =>
      let name := if mem_str "geoipAlias" (iv_calls m) then geoip_alias name else name in
      entry_has m name
      || existsb (fun f => helper_has f name) (iv_calls m)
      || existsb (fun sm => method_has n ty sm name) (iv_self m)
      || existsb (fun bm => method_has n "All" bm name) (iv_base m)
    end
  end.

(* interpreter.go SetScope *)
Definition scope_type (s : N) : string :=
  nth (N.to_nat s) ["Recv"; "Hash"; "Hit"; "Miss"; "Pass"; "Fetch"; "Error"; "Deliver"; "Log"] "All".

(* log <name>; / set <name> = v; (ProcessSetStatement reads the target first) / unset <name>; in the scope *)
Definition interp_var_has (name op : string) (s : N) : bool :=
  let ty := scope_type s in
  if String.eqb op "get" then method_has 4 ty "Get" name
  else if String.eqb op "set" then method_has 4 ty "Get" name && method_has 4 ty "Set" name
  else method_has 4 ty "Unset" name.
