(* C17 - sub-fields of a header value: interpreter/variable/field.go (GetField, unsetField,
   setField) transcribed on byte strings.

   The Go code works with ONE regular expression (Gen.HdrTables.field_pattern)

     (?i)(?:^|,)\s*KEY(?:(?:\s+)?=(?:\s+)?((?:(?:DQ(?:(?:\\DQ)|[^DQ])+)?DQ)|(?:(?:[^,\s]+)?)))?(?:,|$|\s+)

   (DQ stands for the double quote) matched leftmost-first (Go regexp, Perl-like priorities).  [match_at] is that expression from
   just after the (?:^|,) anchor, written as the deterministic scanner it is equivalent to:
   the only real backtracking is inside the quoted alternative ([qscan]); the unquoted
   alternative [^,\s]* always reaches a terminator, so once '=' has been seen the optional group
   never has to be given up.  No proofs here.  ASCII case folding only (see notes/C17.md). *)
From Coq Require Import List NArith Bool.
From Coq Require Import Strings.Byte.
From Falco Require Import Base.Bytes.
Import ListNotations.
Local Open Scope N_scope.

Definition bytes := list byte.

Definition c_comma : byte := x2c.
Definition c_eq : byte := x3d.
Definition c_dq : byte := x22.
Definition c_bs : byte := x5c.
Definition c_lf : byte := x0a.

(* Go regexp \s = [\t\n\f\r ] *)
Definition is_ws (c : byte) : bool :=
  let n := b2n c in (n =? 9) || (n =? 10) || (n =? 12) || (n =? 13) || (n =? 32).

Definition is_nil {A} (l : list A) : bool := match l with [] => true | _ => false end.

Fixpoint span (p : byte -> bool) (s : bytes) : bytes * bytes :=
  match s with
  | [] => ([], [])
  | c :: t => if p c then let (a, b) := span p t in (c :: a, b) else ([], s)
  end.

(* ASCII lower case: what (?i) folds on the key alphabet *)
Definition lower (c : byte) : byte :=
  let n := b2n c in if (65 <=? n) && (n <=? 90) then n2b (n + 32) else c.

Fixpoint beq (a b : bytes) : bool :=
  match a, b with
  | [], [] => true
  | x :: a', y :: b' => byte_eqb x y && beq a' b'
  | _, _ => false
  end.

(* (?i)QuoteMeta(key) as a prefix of s: (text matched, rest) *)
Fixpoint strip_key (k s : bytes) : option (bytes * bytes) :=
  match k with
  | [] => Some ([], s)
  | c :: k' =>
    match s with
    | d :: s' =>
      if byte_eqb (lower c) (lower d) then
        match strip_key k' s' with Some (m, r) => Some (d :: m, r) | None => None end
      else None
    | [] => None
    end
  end.

(* (?:,|$|\s+) : (text consumed, rest) *)
Definition term (s : bytes) : option (bytes * bytes) :=
  match s with
  | [] => Some ([], [])
  | c :: t => if byte_eqb c c_comma then Some ([c], t)
              else if is_ws c then Some (span is_ws s) else None
  end.
Definition term_ok (s : bytes) : bool := match term s with Some _ => true | None => false end.

(* after an opening quote: (?:\\DQ|[^DQ])+DQ followed by a terminator, in the engine's priority
   order: prefer the escape, prefer to go on, fall back to closing at an escaped quote.
   [ne] = at least one body character consumed.  Result: (body ++ closing quote, rest). *)
Fixpoint qscan (ne : bool) (s : bytes) : option (bytes * bytes) :=
  match s with
  | [] => None
  | c :: t =>
    if byte_eqb c c_dq then (if ne && term_ok t then Some ([c], t) else None)
    else if byte_eqb c c_bs then
      match t with
      | d :: t' =>
        if byte_eqb d c_dq then
          match qscan true t' with
          | Some (m, r) => Some (c :: d :: m, r)
          | None => if term_ok t' then Some ([c; d], t') else None
          end
        else match qscan true t with Some (m, r) => Some (c :: m, r) | None => None end
      | [] => None
      end
    else match qscan true t with Some (m, r) => Some (c :: m, r) | None => None end
  end.

Definition nonsep (c : byte) : bool := negb (byte_eqb c c_comma) && negb (is_ws c).

(* capture group 1 after '=' and optional blanks: (captured text, rest) *)
Definition capture (s : bytes) : bytes * bytes :=
  match s with
  | c :: t =>
    if byte_eqb c c_dq then
      match qscan false t with
      | Some (m, r) => (c :: m, r)
      | None => if term_ok t then ([c], t) else span nonsep s
      end
    else span nonsep s
  | [] => ([], [])
  end.

(* the expression after the key: optional `= value`, then the terminator.
   [w0] blanks before the key, [km] the key text as matched, [s2] what follows it *)
Definition after_key (w0 km s2 : bytes) : option (bytes * bytes * bytes) :=
  let (w1, s3) := span is_ws s2 in
  let nogroup :=
    match term s2 with
    | Some (tm, post) => Some (w0 ++ km ++ tm, post, [])
    | None => None
    end in
  match s3 with
  | c :: s4 =>
    if byte_eqb c c_eq then
      let (w2, s5) := span is_ws s4 in
      let (cap, s6) := capture s5 in
      match term s6 with
      | Some (tm, post) => Some (w0 ++ km ++ w1 ++ c :: w2 ++ cap ++ tm, post, cap)
      | None => None   (* not reachable: the unquoted alternative always stops at a terminator *)
      end
    else nogroup
  | [] => nogroup
  end.

(* the expression after the anchor: (text matched, rest, capture group 1) *)
Definition match_at (k s : bytes) : option (bytes * bytes * bytes) :=
  let (w0, s1) := span is_ws s in
  match strip_key k s1 with
  | None => None
  | Some (km, s2) => after_key w0 km s2
  end.

(* leftmost match: (before, matched, after, capture) *)
Fixpoint find_comma (k s : bytes) : option (bytes * bytes * bytes * bytes) :=
  match s with
  | [] => None
  | c :: t =>
    let skip (_ : unit) :=
      match find_comma k t with
      | Some (pre, mid, post, cap) => Some (c :: pre, mid, post, cap)
      | None => None
      end in
    if byte_eqb c c_comma then
      match match_at k t with
      | Some (m, post, cap) => Some ([], c :: m, post, cap)
      | None => skip tt
      end
    else skip tt
  end.

Definition find_field (k s : bytes) : option (bytes * bytes * bytes * bytes) :=
  match match_at k s with
  | Some (m, post, cap) => Some ([], m, post, cap)
  | None => find_comma k s
  end.

(* strings.ReplaceAll(v, `\DQ`, `DQ`) *)
Fixpoint unesc (s : bytes) : bytes :=
  match s with
  | [] => []
  | c :: t =>
    match t with
    | d :: t' => if byte_eqb c c_bs && byte_eqb d c_dq then d :: unesc t' else c :: unesc t
    | [] => [c]
    end
  end.

(* strings.ReplaceAll(v, `DQ`, `\DQ`) *)
Fixpoint esc (s : bytes) : bytes :=
  match s with
  | [] => []
  | c :: t => if byte_eqb c c_dq then c_bs :: c :: esc t else c :: esc t
  end.

Definition last_is (x : byte) (s : bytes) : bool :=
  match rev s with c :: _ => byte_eqb c x | [] => false end.
Definition first_is (x : byte) (s : bytes) : bool :=
  match s with c :: _ => byte_eqb c x | [] => false end.

(* val[1:len(val)-1] for len >= 2 *)
Definition middle (s : bytes) : bytes := removelast (tl s).

Definition strip_quotes (v : bytes) : bytes :=
  if (2 <=? N.of_nat (length v)) && first_is c_dq v && last_is c_dq v then unesc (middle v) else v.

(* what a read returns *)
Inductive rd := RNotSet | RStr (s : bytes).

Definition get_field (s k : bytes) : rd :=
  match find_field k s with
  | None => RNotSet
  | Some (_, _, _, cap) => RStr (strip_quotes cap)
  end.

(* unsetField (repaired: a match that ends in blanks keeps what follows it) *)
Definition unset_field (s k : bytes) : bytes :=
  match find_field k s with
  | None => s
  | Some (pre, mid, post, _) =>
    if is_nil pre then post
    else if last_is c_comma mid then pre ++ c_comma :: post
    else pre ++ post
  end.

(* a STRING operand: not set, or a byte string *)
Inductive val := VNotSet | VStr (s : bytes).

(* [\s=@()\[\]{}?/\\;:'<>,]  (Gen.HdrTables.quote_class pins the text) *)
Definition special (c : byte) : bool :=
  is_ws c ||
  existsb (byte_eqb c) [x3d; x40; x28; x29; x5b; x5d; x7b; x7d; x3f; x2f; x5c; x3b; x3a; x27; x3c; x3e; x2c].
Definition needs_quote (s : bytes) : bool := existsb special s.

(* strings.Cut(s, LF) : the part before the first LF *)
Fixpoint cut_lf (s : bytes) : bytes :=
  match s with
  | [] => []
  | c :: t => if byte_eqb c c_lf then [] else c :: cut_lf t
  end.

Definition join_field (subject kv : bytes) : bytes :=
  if is_nil subject then kv else subject ++ c_comma :: kv.

Definition set_field (s k : bytes) (v : val) : bytes :=
  let subject := unset_field s k in
  match v with
  | VNotSet =>
    if is_nil subject && (Nat.eqb (length k) 1) then subject else join_field subject k
  | VStr sv =>
    let sv' := if needs_quote sv then cut_lf (c_dq :: esc sv ++ [c_dq]) else sv in
    let kv := if is_nil sv' then k else k ++ c_eq :: sv' in
    join_field subject kv
  end.
