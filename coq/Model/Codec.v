(* Executable model of ast/codec (encoder.go, decoder.go, frame.go, *_encode.go,
   *_decode.go) byte for byte.  No proofs here. *)
From Coq Require Import List NArith ZArith Bool.
From Falco Require Import Base.Res Base.Bytes Base.Utf8 Gen.CodecFrames Model.CodecAst.
Import ListNotations.
Local Open Scope N_scope.

(* ---------- frames ---------- *)
(* Frame.Encode: type, byte(size>>8), byte(size&0xFF), payload *)
Definition enc_frame (t : N) (payload : list byte) : list byte :=
  let sz := N.of_nat (length payload) in
  n2b t :: n2b (sz / 256) :: n2b sz :: payload.

Definition enc_str (s : str) : list byte := enc_all s.
Definition leaf (t : N) (s : str) : list byte := enc_frame t (enc_str s).
Definition be64 (v : Z) : list byte :=
  let n := Z.to_N v in
  [n2b (n / 72057594037927936); n2b (n / 281474976710656); n2b (n / 1099511627776);
   n2b (n / 4294967296); n2b (n / 16777216); n2b (n / 65536); n2b (n / 256); n2b n].
Definition enc_bool (b : bool) : list byte := enc_frame FT_BOOL_VALUE [n2b (if b then 1 else 0)].
Definition enc_int (v : Z) (lit : str) : list byte := enc_frame FT_INTEGER_VALUE (be64 v ++ enc_str lit).
Definition enc_float (v : Z) (lit : str) : list byte := enc_frame FT_FLOAT_VALUE (be64 v ++ enc_str lit).
Definition enc_op (op : str) : list byte := leaf FT_OPERATOR op.
Definition enc_ident (s : str) : list byte := leaf FT_IDENT_VALUE s.
Definition END_B : list byte := [n2b FT_END].
Definition FIN_B : list byte := [n2b FT_FIN].

Definition opt {A} (f : A -> list byte) (o : option A) : list byte :=
  match o with Some a => f a | None => [] end.

(* ---------- encoder ---------- *)
Fixpoint enc_expr (e : expr) : list byte :=
  match e with
  | EIdent v => leaf FT_IDENT_VALUE v
  | EString v => leaf FT_STRING_VALUE v
  | EIp v => leaf FT_IP_VALUE v
  | ERTime v => leaf FT_RTIME_VALUE v
  | EBool b => enc_bool b
  | EInt v lit => enc_int v lit
  | EFloat v lit => enc_float v lit
  | EGroup r => enc_frame FT_GROUPED_EXPRESSION (enc_expr r)
  | EInfix l op r =>
      enc_frame FT_INFIX_EXPRESSION (opt enc_expr l ++ enc_op op ++ enc_expr r)
  | EPostfix l op => enc_frame FT_POSTFIX_EXPRESSION (enc_expr l ++ enc_op op)
  | EPrefix op r => enc_frame FT_PREFIX_EXPRESSION (enc_op op ++ enc_expr r)
  | EIfExp c t e => enc_frame FT_IF_EXPRESSION (enc_expr c ++ enc_expr t ++ enc_expr e)
  | ECall f args =>
      enc_frame FT_FUNCTIONCALL_EXPRESSION (enc_ident f ++ flat_map enc_expr args ++ END_B)
  | EUnknown => enc_frame FT_UNKNOWN []
  end.

Definition enc_infix (i : infix) : list byte :=
  let '(l, op, r) := i in
  enc_frame FT_INFIX_EXPRESSION (opt enc_expr l ++ enc_op op ++ enc_expr r).

Definition enc_kv (t : N) (kv : str * expr) : list byte :=
  enc_frame t (enc_ident (fst kv) ++ enc_expr (snd kv)).

Definition enc_cidr (c : cidr) : list byte :=
  let '(Cidr inv ip mask) := c in
  enc_frame FT_ACL_CIDR
    (opt enc_bool inv ++ leaf FT_IP_VALUE ip ++ opt (fun m => enc_int (fst m) (snd m)) mask).

Definition enc_bprop (p : bprop) : list byte :=
  match p with
  | BProp k v => enc_frame FT_BACKEND_PROPERTY (enc_ident k ++ enc_expr v)
  | BProbe k vs =>
      enc_frame FT_BACKEND_PROBE (enc_ident k ++ flat_map (enc_kv FT_BACKEND_PROPERTY) vs ++ END_B)
  end.

Definition enc_dprop (p : dprop) : list byte :=
  match p with
  | DProp k v => enc_frame FT_DIRECTOR_PROPERTY (enc_ident k ++ enc_expr v)
  | DBackendObj vs =>
      enc_frame FT_DIRECTOR_BACKEND (flat_map (enc_kv FT_DIRECTOR_PROPERTY) vs ++ END_B)
  end.

Definition enc_param (p : str * str) : list byte :=
  enc_frame FT_SUBROUTINE_PARAMETER (enc_ident (fst p) ++ enc_ident (snd p)).

Definition enc_tprop (p : str * expr) : list byte :=
  enc_frame FT_TABLE_PROPERTY (leaf FT_STRING_VALUE (fst p) ++ enc_expr (snd p)).

(* Encoder.encode returns an error for an unknown node; inside blocks the error is
   dropped and frame == nil is dereferenced (frame.Encode() on nil *Frame): Crash *)
Fixpoint enc_stmt (s : stmt) : res (list byte) :=
  let block (b : list stmt) : res (list byte) :=
    (fix go (l : list stmt) : res (list byte) :=
       match l with
       | [] => OK END_B
       | x :: xs =>
           match enc_stmt x with
           | OK bx => do r <- go xs; OK (bx ++ r)
           | Err => Crash   (* frame, _ := c.encode(s); frame.Encode() with frame == nil *)
           | Crash => Crash
           | OutOfFuel => OutOfFuel
           end
       end) b in
  match s with
  | SAdd id op v => OK (enc_frame FT_ADD_STATEMENT (enc_ident id ++ enc_op op ++ enc_expr v))
  | SSet id op v => OK (enc_frame FT_SET_STATEMENT (enc_ident id ++ enc_op op ++ enc_expr v))
  | SBlock b => do p <- block b; OK (enc_frame FT_BLOCK_STATEMENT p)
  | SBreak => OK (enc_frame FT_BREAK_STATEMENT [])
  | SEsi => OK (enc_frame FT_ESI_STATEMENT [])
  | SFallthrough => OK (enc_frame FT_FALLTHROUGH_STATEMENT [])
  | SRestart => OK (enc_frame FT_RESTART_STATEMENT [])
  | SCall sub args =>
      OK (enc_frame FT_CALL_STATEMENT
            (enc_ident sub ++ match args with [] => [] | _ => flat_map enc_expr args ++ END_B end))
  | SCase c => enc_cas c
  | SDeclare name ty v =>
      OK (enc_frame FT_DECLARE_STATEMENT (enc_ident name ++ enc_ident ty ++ opt enc_expr v))
  | SError code arg => OK (enc_frame FT_ERROR_STATEMENT (opt enc_expr code ++ opt enc_expr arg))
  | SFunCall f args =>
      OK (enc_frame FT_FUNCTIONCALL_STATEMENT (enc_ident f ++ flat_map enc_expr args ++ END_B))
  | SGoto d => OK (enc_frame FT_GOTO_STATEMENT (enc_ident d))
  | SGotoDest n => OK (enc_frame FT_GOTO_DESTINATION_STATEMENT (enc_ident n))
  | SIf i => enc_ifs i
  | SImport n => OK (enc_frame FT_IMPORT_STATEMENT (enc_ident n))
  | SInclude m => OK (enc_frame FT_INCLUDE_STATEMENT (leaf FT_STRING_VALUE m))
  | SLog v => OK (enc_frame FT_LOG_STATEMENT (enc_expr v))
  | SRemove id => OK (enc_frame FT_REMOVE_STATEMENT (enc_ident id))
  | SUnset id => OK (enc_frame FT_UNSET_STATEMENT (enc_ident id))
  | SReturn paren v => OK (enc_frame FT_RETURN_STATEMENT (enc_bool paren ++ opt enc_expr v))
  | SSwitch ctl cases dflt =>
      do cs <- (fix go (l : list cas) : res (list byte) :=
                  match l with
                  | [] => OK []
                  | x :: xs => do bx <- enc_cas x; do r <- go xs; OK (bx ++ r)
                  end) cases;
      OK (enc_frame FT_SWITCH_STATEMENT (enc_expr ctl ++ cs ++ END_B ++ enc_int dflt []))
  | SSynthetic v => OK (enc_frame FT_SYNTHETIC_STATEMENT (enc_expr v))
  | SSyntheticB64 v => OK (enc_frame FT_SYNTHETIC_BASE64_STATEMENT (enc_expr v))
  | DAcl name cidrs => OK (enc_frame FT_ACL_DECLARATION (enc_ident name ++ flat_map enc_cidr cidrs ++ END_B))
  | DBackend name props =>
      OK (enc_frame FT_BACKEND_DECLARATION (enc_ident name ++ flat_map enc_bprop props ++ END_B))
  | DDirector name ty props =>
      OK (enc_frame FT_DIRECTOR_DECLARATION
            (enc_ident name ++ enc_ident ty ++ flat_map enc_dprop props ++ END_B))
  | DPenaltybox name => OK (enc_frame FT_PENALTYBOX_DECLARATION (enc_ident name))
  | DRatecounter name => OK (enc_frame FT_RATECOUNTER_DECLARATION (enc_ident name))
  | DSub name params ret b =>
      do p <- block b;
      OK (enc_frame FT_SUBROUTINE_DECLARATION
            (enc_ident name ++ flat_map enc_param params ++ opt enc_ident ret
             ++ enc_frame FT_BLOCK_STATEMENT p))
  | DTable name ty props =>
      OK (enc_frame FT_TABLE_DECLARATION
            (enc_ident name ++ opt enc_ident ty ++ flat_map enc_tprop props ++ END_B))
  | SUnknownStmt => Err
  end
with enc_ifs (i : ifs) : res (list byte) :=
  let block (b : list stmt) : res (list byte) :=
    (fix go (l : list stmt) : res (list byte) :=
       match l with
       | [] => OK END_B
       | x :: xs =>
           match enc_stmt x with
           | OK bx => do r <- go xs; OK (bx ++ r)
           | Err => Crash
           | Crash => Crash
           | OutOfFuel => OutOfFuel
           end
       end) b in
  let '(IfS kw c csq another alt) := i in
  do pc <- block csq;
  do pa <- (fix go (l : list ifs) : res (list byte) :=
              match l with
              | [] => OK []
              | x :: xs => do bx <- enc_ifs x; do r <- go xs; OK (bx ++ r)
              end) another;
  do pe <- match alt with
           | None => OK []
           | Some b => do pb <- block b;
                       OK (enc_frame FT_ELSE_STATEMENT (enc_frame FT_BLOCK_STATEMENT pb))
           end;
  OK (enc_frame FT_IF_STATEMENT
        (leaf FT_STRING_VALUE kw ++ enc_expr c ++ enc_frame FT_BLOCK_STATEMENT pc
         ++ pa ++ END_B ++ pe))
with enc_cas (c : cas) : res (list byte) :=
  let block (b : list stmt) : res (list byte) :=
    (fix go (l : list stmt) : res (list byte) :=
       match l with
       | [] => OK END_B
       | x :: xs =>
           match enc_stmt x with
           | OK bx => do r <- go xs; OK (bx ++ r)
           | Err => Crash
           | Crash => Crash
           | OutOfFuel => OutOfFuel
           end
       end) b in
  let '(Cas test b ft) := c in
  do pb <- block b;
  OK (enc_frame FT_CASE_STATEMENT
        (opt enc_infix test ++ pb ++ (if ft then enc_bool true else []))).

(* Encoder.Encodes: every statement, then FIN; an unknown node is an error *)
Fixpoint enc_stmts_top (l : list stmt) : res (list byte) :=
  match l with
  | [] => OK FIN_B
  | x :: xs => do bx <- enc_stmt x; do r <- enc_stmts_top xs; OK (bx ++ r)
  end.
Definition encode (l : list stmt) : res (list byte) := enc_stmts_top l.

(* ---------- decoder ---------- *)
Record frame := Frame { ftype : N; fsize : nat }.
Record dstate := DState { fin : bool; rest : list byte }.
Definition UNKNOWN_F := Frame FT_UNKNOWN 0.

(* Decoder.nextFrame *)
Definition next_frame (st : dstate) : frame * dstate :=
  if fin st then (Frame FT_FIN 0, st)
  else match rest st with
       | [] => (UNKNOWN_F, st)
       | t :: r =>
         let ty := b2n t in
         if ty =? FT_END then (Frame FT_END 0, DState false r)
         else if ty =? FT_FIN then (Frame FT_FIN 0, DState true r)
         else match r with
              | hi :: lo :: r' => (Frame ty (N.to_nat (b2n hi * 256 + b2n lo)), DState false r')
              | _ => (UNKNOWN_F, DState false [])      (* io.ReadFull consumed what was left *)
              end
       end.

(* Decoder.peekFrame (bufio Peek: does not look at c.fin) *)
Definition peek_frame (st : dstate) : frame :=
  match rest st with
  | [] => UNKNOWN_F
  | t :: r =>
    let ty := b2n t in
    if (ty =? FT_END) || (ty =? FT_FIN) then Frame ty 0
    else match r with
         | hi :: lo :: _ => Frame ty (N.to_nat (b2n hi * 256 + b2n lo))
         | _ => UNKNOWN_F
         end
  end.
Definition peek_is (t : N) (st : dstate) : bool := ftype (peek_frame st) =? t.

(* Frame.Read *)
Definition read_payload (f : frame) (st : dstate) : res (list byte * dstate) :=
  if Nat.leb (fsize f) (length (rest st))
  then OK (firstn (fsize f) (rest st), DState (fin st) (skipn (fsize f) (rest st)))
  else Err.

Definition is_expr_type (t : N) : bool :=
  existsb (N.eqb t)
    [FT_GROUPED_EXPRESSION; FT_INFIX_EXPRESSION; FT_POSTFIX_EXPRESSION; FT_PREFIX_EXPRESSION;
     FT_IF_EXPRESSION; FT_FUNCTIONCALL_EXPRESSION; FT_FLOAT_VALUE; FT_IP_VALUE; FT_IDENT_VALUE;
     FT_BOOL_VALUE; FT_INTEGER_VALUE; FT_RTIME_VALUE; FT_STRING_VALUE].

Definition dec_str (bs : list byte) : str := dec_all bs.

(* decodeIdent / decodeString / decodeIP / decodeRTime / decodeOperator *)
Definition dec_leaf (t : N) (f : frame) (st : dstate) : res (str * dstate) :=
  if ftype f =? t then
    do (buf, st') <- read_payload f st; OK (dec_str buf, st')
  else Err.

(* Go slice prefix buf[:n] and index buf[0]: fault when out of range *)
Definition go_prefix (n : nat) (l : list byte) : res (list byte) :=
  if Nat.ltb (length l) n then Crash else OK (firstn n l).
Definition go_index0 (l : list byte) : res byte :=
  match l with [] => Crash | b :: _ => OK b end.

Definition un_be64 (l : list byte) : Z :=
  Z.of_N (fold_left (fun acc b => acc * 256 + b2n b) l 0).

(* decodeInteger / decodeFloat : (bits, literal) *)
Definition dec_num (t : N) (f : frame) (st : dstate) : res ((Z * str) * dstate) :=
  if ftype f =? t then
    do (buf, st') <- read_payload f st;
    if Nat.ltb (length buf) 8 then Err
    else do p <- go_prefix 8 buf; OK ((un_be64 p, dec_str (skipn 8 buf)), st')
  else Err.

Definition dec_bool (f : frame) (st : dstate) : res (bool * dstate) :=
  if ftype f =? FT_BOOL_VALUE then
    do (buf, st') <- read_payload f st;
    if Nat.ltb (length buf) 1 then Err
    else do b <- go_index0 buf; OK (N.eqb (b2n b) 1, st')
  else Err.

Definition nf {A} (st : dstate) (k : frame -> dstate -> res A) : res A :=
  let '(f, st') := next_frame st in k f st'.

Section Decoder.
Fixpoint dec_expr (n : nat) (f : frame) (st : dstate) {struct n} : res (expr * dstate) :=
  match n with
  | O => OutOfFuel
  | S n =>
    let t := ftype f in
    if t =? FT_GROUPED_EXPRESSION then
      do (r, st) <- nf st (dec_expr n); OK (EGroup r, st)
    else if t =? FT_INFIX_EXPRESSION then
      do ((l, op, r), st) <- dec_infix n st; OK (EInfix l op r, st)
    else if t =? FT_POSTFIX_EXPRESSION then
      do (l, st) <- nf st (dec_expr n);
      do (op, st) <- nf st (dec_leaf FT_OPERATOR);
      OK (EPostfix l op, st)
    else if t =? FT_PREFIX_EXPRESSION then
      do (op, st) <- nf st (dec_leaf FT_OPERATOR);
      do (r, st) <- nf st (dec_expr n);
      OK (EPrefix op r, st)
    else if t =? FT_IF_EXPRESSION then
      do (c, st) <- nf st (dec_expr n);
      do (t1, st) <- nf st (dec_expr n);
      do (e, st) <- nf st (dec_expr n);
      OK (EIfExp c t1 e, st)
    else if t =? FT_FUNCTIONCALL_EXPRESSION then
      do (fn, st) <- nf st (dec_leaf FT_IDENT_VALUE);
      do (args, st) <- dec_args n st;
      OK (ECall fn args, st)
    else if t =? FT_FLOAT_VALUE then
      do ((v, lit), st) <- dec_num FT_FLOAT_VALUE f st; OK (EFloat v lit, st)
    else if t =? FT_IP_VALUE then
      do (v, st) <- dec_leaf FT_IP_VALUE f st; OK (EIp v, st)
    else if t =? FT_IDENT_VALUE then
      do (v, st) <- dec_leaf FT_IDENT_VALUE f st; OK (EIdent v, st)
    else if t =? FT_BOOL_VALUE then
      do (v, st) <- dec_bool f st; OK (EBool v, st)
    else if t =? FT_INTEGER_VALUE then
      do ((v, lit), st) <- dec_num FT_INTEGER_VALUE f st; OK (EInt v lit, st)
    else if t =? FT_RTIME_VALUE then
      do (v, st) <- dec_leaf FT_RTIME_VALUE f st; OK (ERTime v, st)
    else if t =? FT_STRING_VALUE then
      do (v, st) <- dec_leaf FT_STRING_VALUE f st; OK (EString v, st)
    else Err
  end
with dec_infix (n : nat) (st : dstate) {struct n} : res (infix * dstate) :=
  match n with
  | O => OutOfFuel
  | S n =>
    do (l, st) <- (if is_expr_type (ftype (peek_frame st))
                    then do (l, st) <- nf st (dec_expr n); OK (Some l, st)
                    else OK (None, st));
    do (op, st) <- nf st (dec_leaf FT_OPERATOR);
    do (r, st) <- nf st (dec_expr n);
    OK ((l, op, r), st)
  end
with dec_args (n : nat) (st : dstate) {struct n} : res (list expr * dstate) :=
  match n with
  | O => OutOfFuel
  | S n =>
    let '(f, st) := next_frame st in
    if ftype f =? FT_END then OK ([], st)
    else if ftype f =? FT_FIN then Err
    else do (e, st) <- dec_expr n f st;
         do (es, st) <- dec_args n st;
         OK (e :: es, st)
  end.

Definition dec_opt_expr (n : nat) (st : dstate) : res (option expr * dstate) :=
  if is_expr_type (ftype (peek_frame st))
  then do (e, st) <- nf st (dec_expr n); OK (Some e, st)
  else OK (None, st).

(* generic "loop until END" over a key/value property frame of type t:
   END -> stop, FIN -> error, t -> key ident, value expr, anything else -> error *)
Fixpoint dec_kvs (t : N) (n : nat) (st : dstate) {struct n} : res (list (str * expr) * dstate) :=
  match n with
  | O => OutOfFuel
  | S n =>
    let '(f, st) := next_frame st in
    if ftype f =? FT_END then OK ([], st)
    else if ftype f =? FT_FIN then Err
    else if ftype f =? t then
      do (k, st) <- nf st (dec_leaf FT_IDENT_VALUE);
      do (v, st) <- nf st (dec_expr n);
      do (r, st) <- dec_kvs t n st;
      OK ((k, v) :: r, st)
    else Err
  end.

Definition dec_cidr (n : nat) (st : dstate) : res (cidr * dstate) :=
  do (inv, st) <- (if peek_is FT_BOOL_VALUE st
                    then do (b, st) <- nf st dec_bool; OK (Some b, st)
                    else OK (None, st));
  do (ip, st) <- nf st (dec_leaf FT_IP_VALUE);
  do (mask, st) <- (if peek_is FT_INTEGER_VALUE st
                     then do (m, st) <- nf st (dec_num FT_INTEGER_VALUE); OK (Some m, st)
                     else OK (None, st));
  OK (Cidr inv ip mask, st).

Fixpoint dec_cidrs (n : nat) (st : dstate) {struct n} : res (list cidr * dstate) :=
  match n with
  | O => OutOfFuel
  | S n =>
    let '(f, st) := next_frame st in
    if ftype f =? FT_END then OK ([], st)
    else if ftype f =? FT_FIN then Err
    else if ftype f =? FT_ACL_CIDR then
      do (c, st) <- dec_cidr n st;
      do (r, st) <- dec_cidrs n st;
      OK (c :: r, st)
    else Err
  end.

Fixpoint dec_bprops (n : nat) (st : dstate) {struct n} : res (list bprop * dstate) :=
  match n with
  | O => OutOfFuel
  | S n =>
    let '(f, st) := next_frame st in
    if ftype f =? FT_END then OK ([], st)
    else if ftype f =? FT_FIN then Err
    else if ftype f =? FT_BACKEND_PROPERTY then
      do (k, st) <- nf st (dec_leaf FT_IDENT_VALUE);
      do (v, st) <- nf st (dec_expr n);
      do (r, st) <- dec_bprops n st;
      OK (BProp k v :: r, st)
    else if ftype f =? FT_BACKEND_PROBE then
      do (k, st) <- nf st (dec_leaf FT_IDENT_VALUE);
      do (vs, st) <- dec_kvs FT_BACKEND_PROPERTY n st;
      do (r, st) <- dec_bprops n st;
      OK (BProbe k vs :: r, st)
    else Err
  end.

Fixpoint dec_dprops (n : nat) (st : dstate) {struct n} : res (list dprop * dstate) :=
  match n with
  | O => OutOfFuel
  | S n =>
    let '(f, st) := next_frame st in
    if ftype f =? FT_END then OK ([], st)
    else if ftype f =? FT_FIN then Err
    else if ftype f =? FT_DIRECTOR_PROPERTY then
      do (k, st) <- nf st (dec_leaf FT_IDENT_VALUE);
      do (v, st) <- nf st (dec_expr n);
      do (r, st) <- dec_dprops n st;
      OK (DProp k v :: r, st)
    else if ftype f =? FT_DIRECTOR_BACKEND then
      do (vs, st) <- dec_kvs FT_DIRECTOR_PROPERTY n st;
      do (r, st) <- dec_dprops n st;
      OK (DBackendObj vs :: r, st)
    else Err
  end.

Fixpoint dec_tprops (n : nat) (st : dstate) {struct n} : res (list (str * expr) * dstate) :=
  match n with
  | O => OutOfFuel
  | S n =>
    let '(f, st) := next_frame st in
    if ftype f =? FT_END then OK ([], st)
    else if ftype f =? FT_FIN then Err
    else if ftype f =? FT_TABLE_PROPERTY then
      do (k, st) <- nf st (dec_leaf FT_STRING_VALUE);
      do (v, st) <- nf st (dec_expr n);
      do (r, st) <- dec_tprops n st;
      OK ((k, v) :: r, st)
    else Err
  end.

(* for c.peekFrameIs(SUBROUTINE_PARAMETER) { ... } *)
Fixpoint dec_params (n : nat) (st : dstate) {struct n} : res (list (str * str) * dstate) :=
  match n with
  | O => OutOfFuel
  | S n =>
    if peek_is FT_SUBROUTINE_PARAMETER st then
      let '(_, st) := next_frame st in
      do (ty, st) <- nf st (dec_leaf FT_IDENT_VALUE);
      do (nm, st) <- nf st (dec_leaf FT_IDENT_VALUE);
      do (r, st) <- dec_params n st;
      OK ((ty, nm) :: r, st)
    else OK ([], st)
  end.

Definition dec_opt_leaf (t : N) (st : dstate) : res (option str * dstate) :=
  if peek_is t st then do (v, st) <- nf st (dec_leaf t); OK (Some v, st) else OK (None, st).

Fixpoint dec_stmt (n : nat) (f : frame) (st : dstate) {struct n} : res (stmt * dstate) :=
  match n with
  | O => OutOfFuel
  | S n =>
    let t := ftype f in
    let ident1 (k : str -> stmt) :=
      do (v, st) <- nf st (dec_leaf FT_IDENT_VALUE); OK (k v, st) in
    let expr1 (k : expr -> stmt) :=
      do (v, st) <- nf st (dec_expr n); OK (k v, st) in
    let id_op_expr (k : str -> str -> expr -> stmt) :=
      do (id, st) <- nf st (dec_leaf FT_IDENT_VALUE);
      do (op, st) <- nf st (dec_leaf FT_OPERATOR);
      do (v, st) <- nf st (dec_expr n);
      OK (k id op v, st) in
    if t =? FT_ACL_DECLARATION then
      do (name, st) <- nf st (dec_leaf FT_IDENT_VALUE);
      do (cs, st) <- dec_cidrs n st; OK (DAcl name cs, st)
    else if t =? FT_BACKEND_DECLARATION then
      do (name, st) <- nf st (dec_leaf FT_IDENT_VALUE);
      do (ps, st) <- dec_bprops n st; OK (DBackend name ps, st)
    else if t =? FT_DIRECTOR_DECLARATION then
      do (name, st) <- nf st (dec_leaf FT_IDENT_VALUE);
      do (ty, st) <- nf st (dec_leaf FT_IDENT_VALUE);
      do (ps, st) <- dec_dprops n st; OK (DDirector name ty ps, st)
    else if t =? FT_PENALTYBOX_DECLARATION then ident1 DPenaltybox
    else if t =? FT_RATECOUNTER_DECLARATION then ident1 DRatecounter
    else if t =? FT_SUBROUTINE_DECLARATION then
      do (name, st) <- nf st (dec_leaf FT_IDENT_VALUE);
      do (params, st) <- dec_params n st;
      do (ret, st) <- dec_opt_leaf FT_IDENT_VALUE st;
      if peek_is FT_BLOCK_STATEMENT st then
        let '(_, st) := next_frame st in
        do (b, st) <- dec_stmts n st; OK (DSub name params ret b, st)
      else Err
    else if t =? FT_TABLE_DECLARATION then
      do (name, st) <- nf st (dec_leaf FT_IDENT_VALUE);
      do (ty, st) <- dec_opt_leaf FT_IDENT_VALUE st;
      do (ps, st) <- dec_tprops n st; OK (DTable name ty ps, st)
    else if t =? FT_ADD_STATEMENT then id_op_expr SAdd
    else if t =? FT_BLOCK_STATEMENT then
      do (b, st) <- dec_stmts n st; OK (SBlock b, st)
    else if t =? FT_BREAK_STATEMENT then OK (SBreak, st)
    else if t =? FT_CALL_STATEMENT then
      do (name, st) <- nf st (dec_leaf FT_IDENT_VALUE);
      if is_expr_type (ftype (peek_frame st)) then
        do (args, st) <- dec_args n st; OK (SCall name args, st)
      else OK (SCall name [], st)
    else if t =? FT_CASE_STATEMENT then
      do (c, st) <- dec_cas n st; OK (SCase c, st)
    else if t =? FT_DECLARE_STATEMENT then
      do (name, st) <- nf st (dec_leaf FT_IDENT_VALUE);
      do (ty, st) <- nf st (dec_leaf FT_IDENT_VALUE);
      do (v, st) <- dec_opt_expr n st; OK (SDeclare name ty v, st)
    else if t =? FT_ERROR_STATEMENT then
      do (code, st) <- dec_opt_expr n st;
      do (arg, st) <- dec_opt_expr n st; OK (SError code arg, st)
    else if t =? FT_ESI_STATEMENT then OK (SEsi, st)
    else if t =? FT_FALLTHROUGH_STATEMENT then OK (SFallthrough, st)
    else if t =? FT_FUNCTIONCALL_STATEMENT then
      do (fn, st) <- nf st (dec_leaf FT_IDENT_VALUE);
      do (args, st) <- dec_args n st; OK (SFunCall fn args, st)
    else if t =? FT_GOTO_STATEMENT then ident1 SGoto
    else if t =? FT_GOTO_DESTINATION_STATEMENT then ident1 SGotoDest
    else if t =? FT_IF_STATEMENT then
      do (i, st) <- dec_ifs n st; OK (SIf i, st)
    else if t =? FT_IMPORT_STATEMENT then ident1 SImport
    else if t =? FT_INCLUDE_STATEMENT then
      do (m, st) <- nf st (dec_leaf FT_STRING_VALUE); OK (SInclude m, st)
    else if t =? FT_LOG_STATEMENT then expr1 SLog
    else if t =? FT_REMOVE_STATEMENT then ident1 SRemove
    else if t =? FT_RESTART_STATEMENT then OK (SRestart, st)
    else if t =? FT_RETURN_STATEMENT then
      do (hp, st) <- nf st dec_bool;
      do (v, st) <- dec_opt_expr n st; OK (SReturn hp v, st)
    else if t =? FT_SET_STATEMENT then id_op_expr SSet
    else if t =? FT_SWITCH_STATEMENT then
      do (ctl, st) <- nf st (dec_expr n);
      do (cs, st) <- dec_cases n st;
      if peek_is FT_INTEGER_VALUE st then
        do ((d, _), st) <- nf st (dec_num FT_INTEGER_VALUE); OK (SSwitch ctl cs d, st)
      else OK (SSwitch ctl cs 0%Z, st)
    else if t =? FT_SYNTHETIC_STATEMENT then expr1 SSynthetic
    else if t =? FT_SYNTHETIC_BASE64_STATEMENT then expr1 SSyntheticB64
    else if t =? FT_UNSET_STATEMENT then ident1 SUnset
    else Err
  end
with dec_stmts (n : nat) (st : dstate) {struct n} : res (list stmt * dstate) :=
  match n with
  | O => OutOfFuel
  | S n =>
    let '(f, st) := next_frame st in
    if ftype f =? FT_END then OK ([], st)
    else if ftype f =? FT_FIN then Err
    else do (s, st) <- dec_stmt n f st;
         do (r, st) <- dec_stmts n st;
         OK (s :: r, st)
  end
with dec_ifs (n : nat) (st : dstate) {struct n} : res (ifs * dstate) :=
  match n with
  | O => OutOfFuel
  | S n =>
    do (kw, st) <- nf st (dec_leaf FT_STRING_VALUE);
    do (c, st) <- nf st (dec_expr n);
    if peek_is FT_BLOCK_STATEMENT st then
      let '(_, st) := next_frame st in
      do (csq, st) <- dec_stmts n st;
      do (another, st) <- dec_anothers n st;
      if peek_is FT_ELSE_STATEMENT st then
        let '(_, st) := next_frame st in
        if peek_is FT_BLOCK_STATEMENT st then
          let '(_, st) := next_frame st in
          do (alt, st) <- dec_stmts n st;
          OK (IfS kw c csq another (Some alt), st)
        else Err
      else OK (IfS kw c csq another None, st)
    else Err
  end
with dec_anothers (n : nat) (st : dstate) {struct n} : res (list ifs * dstate) :=
  match n with
  | O => OutOfFuel
  | S n =>
    let '(f, st) := next_frame st in
    if ftype f =? FT_END then OK ([], st)
    else if ftype f =? FT_FIN then Err
    else if ftype f =? FT_IF_STATEMENT then
      do (i, st) <- dec_ifs n st;
      do (r, st) <- dec_anothers n st;
      OK (i :: r, st)
    else Err
  end
with dec_cas (n : nat) (st : dstate) {struct n} : res (cas * dstate) :=
  match n with
  | O => OutOfFuel
  | S n =>
    do (test, st) <- (if peek_is FT_INFIX_EXPRESSION st
                       then let '(_, st) := next_frame st in
                            do (i, st) <- dec_infix n st; OK (Some i, st)
                       else OK (None, st));
    do (b, st) <- dec_stmts n st;
    if peek_is FT_BOOL_VALUE st then
      do (ft, st) <- nf st dec_bool; OK (Cas test b ft, st)
    else OK (Cas test b false, st)
  end
with dec_cases (n : nat) (st : dstate) {struct n} : res (list cas * dstate) :=
  match n with
  | O => OutOfFuel
  | S n =>
    let '(f, st) := next_frame st in
    if ftype f =? FT_END then OK ([], st)
    else if ftype f =? FT_FIN then Err
    else if ftype f =? FT_CASE_STATEMENT then
      do (c, st) <- dec_cas n st;
      do (r, st) <- dec_cases n st;
      OK (c :: r, st)
    else Err
  end.
End Decoder.

(* Decoder.Decode *)
Fixpoint dec_top (n : nat) (st : dstate) {struct n} : res (list stmt) :=
  match n with
  | O => OutOfFuel
  | S n =>
    let '(f, st) := next_frame st in
    if ftype f =? FT_FIN then OK []
    else do (s, st) <- dec_stmt n f st;
         do r <- dec_top n st;
         OK (s :: r)
  end.

Definition decode_fuel (bs : list byte) : nat := 8 * length bs + 12.
Definition decode (bs : list byte) : res (list stmt) :=
  dec_top (decode_fuel bs) (DState false bs).
