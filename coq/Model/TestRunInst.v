(* C10 - the instance of the runner / coverage models that is RUN against `falco test`:
   the interpreter state a generated test can see is the set of request headers f<k> that are
   set (they all carry "1") ; main-VCL subroutines are programs of the small language of
   Model/TestRunCover.v over these flags; test bodies are straight-line steps.  No proofs here. *)
From Coq Require Import List NArith Bool.
From Falco Require Import Base.Res Model.TestRun Model.TestRunCover.
Import ListNotations.

Definition flags := list N.
Definition has (f : N) (fl : flags) : bool := existsb (N.eqb f) fl.
Definition add (f : N) (fl : flags) : flags := if has f fl then fl else f :: fl.
Definition del (f : N) (fl : flags) : flags := filter (fun g => negb (N.eqb f g)) fl.

(* conditions: `req.http.f<k>`, `!req.http.f<k>`, `req.http.f<k> == "1"`, `true` / `false` *)
Inductive icond := CFlag (f : N) | CNotFlag (f : N) | CEq (f : N) | CConst (b : bool).
(* statements without sub-statements; cs: the conditions of the if() expressions written in them *)
Inductive iprim :=
| PSet (f : N) (cs : list icond)      (* set req.http.f<f> = <an expression worth "1"> *)
| PLog (m : N) (cs : list icond)      (* log <an expression worth "m<m>"> *)
| PUnset (f : N)                      (* unset req.http.f<f> *)
| PRet                                (* return; *)
| PRaise.                             (* a statement that raises: set var.undeclared = "1"; *)
(* switch (req.http.f<f>): case #i is `case "1"` when nth i = true, another literal otherwise *)
Definition ictl := (N * list bool)%type.

(* flags, log lines of the running case, "a runtime error was raised" (a raise stops every
   enclosing block exactly as `return` does, and what was done before it stays done) *)
Definition ist := (flags * list N * bool)%type.
Definition ifl (σ : ist) : flags := fst (fst σ).
Definition ilg (σ : ist) : list N := snd (fst σ).

Definition iev (c : icond) (σ : ist) : res (bool * ist) :=
  OK (match c with
      | CFlag f | CEq f => has f (ifl σ)
      | CNotFlag f => negb (has f (ifl σ))
      | CConst b => b
      end, σ).
Definition irun (p : iprim) (σ : ist) : res (out * ist) :=
  match p with
  | PSet f _ => OK (PNext, (add f (ifl σ), ilg σ, snd σ))
  | PLog m _ => OK (PNext, (ifl σ, ilg σ ++ [m], snd σ))
  | PUnset f => OK (PNext, (del f (ifl σ), ilg σ, snd σ))
  | PRet => OK (PStop, σ)
  | PRaise => OK (PStop, (ifl σ, ilg σ, true))
  end.
Definition iconds (p : iprim) : list icond :=
  match p with PSet _ cs | PLog _ cs => cs | _ => [] end.
Definition imarker (p : iprim) : bool := true.
Definition ictl_val (x : ictl) (σ : ist) : res (bool * ist) := OK (has (fst x) (ifl σ), σ).
Definition itest_case (x : ictl) (i : nat) (v : bool) (σ : ist) : res (bool * ist) :=
  OK (v && nth i (snd x) false, σ).

Notation iblock := (block icond iprim ictl).
Definition iexec (b : iblock) (σ : ist) : res (out * ist) :=
  exec_block icond iprim ictl ist bool iev irun ictl_val itest_case b σ.
Definition iinstr (b : iblock) : iblock := instr_sub icond iprim ictl iconds imarker b.

(* ---- test bodies *)
Inductive tstep :=
| TSet (f : N) | TUnset (f : N) | TLog (m : N)
| TCall (k : N)                       (* call s<k>; / testing.call_subroutine("s<k>"); *)
| TRaise
| TAssertFlag (f : N) (want : bool)   (* assert.equal(req.http.f, "1") / assert.is_notset(req.http.f) *)
| TAssertConst (holds : bool)         (* an assertion of any kind over constants *)
(* per-test state behind the testing.* helpers (tables, injected variables, mocks, fixed time, host,
   backend health, access rate, req.backend): resource r holds a small number, 0 = untouched *)
| TRes (r v : N)                      (* a helper / statement that puts resource r in state v *)
| TAssertRes (r v : N).               (* an assertion that observes resource r to be in state v *)

Definition rstore := list (N * N).
Fixpoint rget (r : N) (s : rstore) : N :=
  match s with [] => 0%N | (k, v) :: t => if N.eqb r k then v else rget r t end.
Definition tstate := (flags * rstore)%type.

Definition program := list (N * iblock).
Fixpoint find_sub (k : N) (p : program) : option iblock :=
  match p with [] => None | (g, b) :: r => if N.eqb k g then Some b else find_sub k r end.

Section Inst.
Variable cov : bool.                  (* --coverage: the main VCL is instrumented *)
Variable P : program.

Definition interp (s : tstep) : step N N tstate :=
  match s with
  | TSet f => Act (fun _ σ => ((add f (fst σ), snd σ), [], true))
  | TUnset f => Act (fun _ σ => ((del f (fst σ), snd σ), [], true))
  | TLog m => Act (fun _ σ => (σ, [m], true))
  | TCall k => Act (fun _ σ =>
      match find_sub k P with
      | None => (σ, [], false)
      | Some b => match iexec (if cov then iinstr b else b) (fst σ, [], false) with
                  | OK (_, (fl', lg, raised)) => ((fl', snd σ), lg, negb raised)
                  | _ => (σ, [], false)          (* falling through the last case of a switch *)
                  end
      end)
  | TRaise => Act (fun _ σ => (σ, [], false))
  | TAssertFlag f want => Assert (fun _ σ => Bool.eqb (has f (fst σ)) want)
  | TAssertConst h => Assert (fun _ _ => h)
  | TRes r v => Act (fun _ σ => ((fst σ, (r, v) :: snd σ), [], true))
  | TAssertRes r v => Assert (fun _ σ => N.eqb (rget r (snd σ)) v)
  end.

(* scopes are numbers (only the hooks of a describe group look at them) *)
Definition irun_body (sc : N) (b : list tstep) (σ : tstate) :=
  run_body_steps N N tstate sc (map interp b) σ.

Definition itest := test N (list tstep).
Definition irun_file (ts : list itest) : list (tcase N N) * counter :=
  run_file N N tstate (list tstep) irun_body ([], []) ts c0.

Definition iitem := item N (list tstep).
Definition irun_items (is : list iitem) : option (list (gcase N N) * counter) :=
  run_items N N tstate (list tstep) irun_body ([], []) is c0.

End Inst.
