(* Hand models of the linter's table lookups and scope guards (linter/context/context.go Get / Set /
   Unset / GetFunction with splitName and resolveVariablePath; linter/statement_linter.go
   lintRestartStatement, lintErrorStatement, lintEsiStatement, lintSynthetic*Statement,
   lintReturnStatement) over the regenerated tables Gen.LintVars / LintDyn / LintFuncs / LintConsts.
   No proofs here. *)
From Coq Require Import NArith List String Bool Ascii.
From Falco Require Import Base.TablesBase Model.ScopeMask.
From Falco Require Import Gen.LintConsts Gen.LintVars Gen.LintDyn Gen.LintFuncs.
Import ListNotations.
Local Open Scope N_scope.
Local Open Scope string_scope.

(* ---- constants by their Go names *)
Definition tyc (go_name : string) : N := match assoc go_name lint_type_consts with Some v => v | None => 0 end.
Definition scopec (go_name : string) : N := match assoc go_name lint_scope_consts with Some v => v | None => 0 end.
Definition type_name (t : N) : string := match assocN t lint_type_names with Some s => s | None => "UNKNOWN" end.

Definition T_Never := tyc "NeverType".
Definition T_String := tyc "StringType".

(* the nine scopes in the order used by every observed table; 9-bit "compact" masks use bit i for scope i *)
Definition scope_names : list string := ["RECV"; "HASH"; "HIT"; "MISS"; "PASS"; "FETCH"; "ERROR"; "DELIVER"; "LOG"].
Definition idx9 : list N := [0; 1; 2; 3; 4; 5; 6; 7; 8].
Definition scope_name (i : N) : string := nth (N.to_nat i) scope_names "".
Definition lint_scope_bit (i : N) : N := scopec (scope_name i).
(* compact mask -> the linter's curMode *)
Definition lint_mode (m : N) : N :=
  fold_right (fun i acc => if N.testbit m i then N.lor (lint_scope_bit i) acc else acc) 0 idx9.

(* ---- splitName *)
Definition split_name (name : string) : string * list string :=
  match splitn_dot 4 name with
  | [] => ("", [])
  | first :: rest =>
    (first,
     (fix go (l : list string) : list string :=
        match l with
        | [] => []
        | v :: r => if contains_char ":" v then [join_with "." (v :: r)] else v :: go r
        end) rest)
  end.

(* ---- resolveVariablePath (the persist flag only caches objects that carry the same Value) *)
Fixpoint resolve (obj : vobj) (remains : list string) : option vobj :=
  match remains with
  | [] => Some obj
  | key :: rest =>
    match assoc "%any%" (vitems obj) with
    | Some anyslot =>
      if is_nil (vitems anyslot) then
        (* header container: the rest of the path is one flat, lower-cased name *)
        match assoc (lower (join_with "." remains)) (vitems obj) with
        | Some r => Some r
        | None => Some (VObj [] (vvalue anyslot))
        end
      else
        match assoc key (vitems obj) with
        | Some v => resolve v rest
        | None => resolve (VObj [] (vvalue anyslot)) rest
        end
    | None =>
      match assoc key (vitems obj) with
      | Some v => resolve v rest
      | None => None
      end
    end
  end.

(* the linter context after the declarations of the observation preamble: AddBackend / AddDirector
   install dynamicBackend() / dynamicDirector() under the declared names; AddRatecounter registers names *)
Record lint_ctx := LC { lc_vars : list (string * vobj); lc_ratecounters : list string }.

Definition add_named (top : string) (names : list string) (o : vobj) (t : list (string * vobj)) : list (string * vobj) :=
  match assoc top t with
  | Some (VObj items v) => set_assoc top (VObj (fold_left (fun its n => set_assoc n o its) names items) v) t
  | None => t
  end.

Definition declared_ctx (backends directors ratecounters : list string) : lint_ctx :=
  LC (add_named "director" directors lint_dyn_director (add_named "backend" backends lint_dyn_backend lint_var_tree))
     ratecounters.

Definition can_access (a : accessor) (mode : N) : bool := all_scopes_test (a_scopes a) mode.

(* Context.GetRatecounterVariable (no scope test, no NeverType test in the code) *)
Definition lint_get_ratecounter (c : lint_ctx) (name : string) : option N :=
  match split_on "." name with
  | [c0; c1; c2; c3] =>
    if mem_str c1 (lc_ratecounters c) then
      match assoc c0 (lc_vars c) with
      | Some o0 =>
        match assoc "%any%" (vitems o0) with
        | Some o1 =>
          match assoc c2 (vitems o1) with
          | Some o2 =>
            match assoc c3 (vitems o2) with
            | Some o3 => match vvalue o3 with Some a => Some (a_get a) | None => None end
            | None => None
            end
          | None => None
          end
        | None => None
        end
      | None => None
      end
    else None
  | _ => None
  end.

(* Context.Get: Some type = no error (ErrDeprecated and the two regex-variable notices are not errors
   of severity ERROR in lintIdent) *)
Definition lint_get (c : lint_ctx) (name : string) (mode : N) : option N :=
  let '(first, remains) := split_name name in
  if String.eqb first "re" then Some T_String
  else if String.eqb first "ratecounter" then lint_get_ratecounter c name
  else
    match assoc first (lc_vars c) with
    | None => None
    | Some obj =>
      match resolve obj remains with
      | None => None
      | Some o =>
        match vvalue o with
        | None => None
        | Some a =>
          if negb (can_access a mode) then None
          else if N.eqb (a_get a) T_Never then None
          else Some (a_get a)
        end
      end
    end.

Definition lint_set (c : lint_ctx) (name : string) (mode : N) : option N :=
  let '(first, remains) := split_name name in
  if String.eqb first "re" then None
  else
    match assoc first (lc_vars c) with
    | None => None
    | Some obj =>
      match resolve obj remains with
      | None => None
      | Some o =>
        match vvalue o with
        | None => None
        | Some a =>
          if negb (can_access a mode) then None
          else if N.eqb (a_set a) T_Never then None
          else Some (a_set a)
        end
      end
    end.

(* Context.Unset: true = no error (an object without a Value is accepted by the code) *)
Definition lint_unset (c : lint_ctx) (name : string) (mode : N) : bool :=
  let '(first, remains) := split_name name in
  if String.eqb first "re" then false
  else
    match assoc first (lc_vars c) with
    | None => false
    | Some obj =>
      match resolve obj remains with
      | None => false
      | Some o =>
        match vvalue o with
        | None => true
        | Some a => can_access a mode && a_unset a
        end
      end
    end.

Definition lint_var_op (c : lint_ctx) (name op : string) (mode : N) : bool :=
  if String.eqb op "get" then is_some (lint_get c name mode)
  else if String.eqb op "set" then is_some (lint_set c name mode)
  else lint_unset c name mode.

(* ---- Context.GetFunction (after the repair: every scope of the current mode) *)
Fixpoint fwalk (obj : fobj) (remains : list string) : option fobj :=
  match remains with
  | [] => Some obj
  | key :: rest => match assoc key (fitems obj) with Some v => fwalk v rest | None => None end
  end.

Definition lint_get_function (name : string) (mode : N) : option bfunc :=
  let '(first, remains) := split_name name in
  match assoc first lint_func_tree with
  | None => None
  | Some obj =>
    match fwalk obj remains with
    | None => None
    | Some o =>
      match fvalue o with
      | None => None
      | Some f => if all_scopes_test (f_scopes f) mode then Some f else None
      end
    end
  end.

(* ---- scope guards of the scope-restricted statements (after the repairs) *)
Definition mask_of_names (names : list string) : N := fold_right (fun n acc => N.lor (scopec n) acc) 0 names.

Definition return_actions_in_scope (scope : N) : list string :=
  if N.eqb scope (scopec "RECV") then ["lookup"; "pass"; "error"; "restart"]
  else if N.eqb scope (scopec "HASH") then ["hash"]
  else if N.eqb scope (scopec "HIT") then ["deliver"; "pass"; "error"; "restart"]
  else if N.eqb scope (scopec "MISS") then ["fetch"; "deliver_stale"; "pass"; "error"]
  else if N.eqb scope (scopec "PASS") then ["pass"]
  else if N.eqb scope (scopec "FETCH") then ["deliver"; "deliver_stale"; "hit_for_pass"; "pass"; "error"; "restart"]
  else if N.eqb scope (scopec "ERROR") then ["deliver"; "deliver_stale"; "restart"]
  else if N.eqb scope (scopec "DELIVER") then ["deliver"; "restart"]
  else if N.eqb scope (scopec "LOG") then ["deliver"]
  else [].

(* the loop `for scope := RECV; scope <= LOG; scope <<= 4` intersecting the action lists *)
Definition lint_return_expects (mode : N) : list string :=
  snd (fold_left
         (fun (st : bool * list string) i =>
            let scope := lint_scope_bit i in
            if N.eqb (N.land mode scope) 0 then st
            else if fst st then (false, return_actions_in_scope scope)
            else (false, filter (fun a => mem_str a (return_actions_in_scope scope)) (snd st)))
         idx9 (true, [])).

Definition lint_stmt (kind : string) (mode : N) : bool :=
  if String.eqb kind "restart" then all_scopes_test (mask_of_names ["RECV"; "HIT"; "FETCH"; "ERROR"; "DELIVER"]) mode
  else if String.eqb kind "error" then all_scopes_test (mask_of_names ["RECV"; "HIT"; "MISS"; "PASS"; "FETCH"]) mode
  else if String.eqb kind "esi" then all_scopes_test (scopec "FETCH") mode
  else if String.eqb kind "synthetic" then all_scopes_test (scopec "ERROR") mode
  else if String.eqb kind "synthetic.base64" then all_scopes_test (scopec "ERROR") mode
  else if is_prefix "return:" kind then mem_str (substring 7 (String.length kind - 7) kind) (lint_return_expects mode)
  else false.
