(* Comment-free syntax tree built by parser/*.go, as the model builds it.
   Every node keeps the tokens it was built from (keywords and punctuation included), so
   that [yield] (Model/Yield.v) returns exactly the token sequence a node was parsed from;
   the Go AST is the projection printed by ocaml/parse_main.ml (names, operators, literal
   values, explicit-concat flag, parenthesis nodes; no positions, no comments). *)
From Coq Require Import List NArith ZArith.
From Falco Require Import Base.Bytes Gen.TokenTypes Model.ParseBase.
Import ListNotations.

Inductive expr :=
| EIdent (t : token)                       (* ast.Ident: Value = lit t  (IDENT, and ERROR/RESTART/BACKEND keywords used as names) *)
| EBool (t : token)                        (* ast.Boolean: Value = (typ t = TRUE) *)
| EInt (t : token) (v : Z)                 (* ast.Integer: Value = v, source literal lit t *)
| EFloat (t : token)                       (* ast.Float: the value is strconv.ParseFloat of the literal (not modelled) *)
| ERTime (t : token)                       (* ast.RTime: Value = lit t *)
| EString (t : token) (v : str)            (* ast.String: Value = v (escapes decoded iff off t = 2) *)
| ELong (o s c : token) (v : str)          (* ast.String{LongString: true, Delimiter: lit o}: {delim" ... "delim} *)
| EPrefix (op : token) (r : expr)          (* ast.PrefixExpression: Operator = lit op *)
| EGroup (lp : token) (r : expr) (rp : token)
| EIfExp (kw lp : token) (c : expr) (c1 : token) (t : expr) (c2 : token) (e : expr) (rp : token)
| EInfix (l : expr) (op : token) (explicit : bool) (r : expr)
    (* operator token consumed: ParseInfixExpression (Operator = lit op, Explicit = false) or
       explicit concatenation (Operator = "+", Explicit = true) *)
| EConcat (l r : expr)                     (* juxtaposition: InfixExpression{Operator: "+", Explicit: false} *)
| EPostfix (l : expr) (op : token)
| ECall (f lp : token) (a : args) (rp : token)   (* FunctionCallExpression: Function = Ident(lit f) *)
with args :=
| ANone
| ASome (e : expr) (more : argtail)
with argtail :=
| ATNil
| ATCons (comma : token) (e : expr) (more : argtail).

(* test of a case clause: `case "s"` (Operator "==") / `case ~ "re"` (Operator "~") *)
Inductive ctest :=
| CTEq (e : expr)
| CTRegex (op : token) (e : expr).

Inductive chead :=
| CCase (kw : token) (t : ctest)
| CDefault (kw : token).

(* acl entry address: "1.2.3.4" or {"1.2.3.4"} *)
Inductive ipnode :=
| IpStr (t : token)
| IpLong (o s c : token) (v : str).

Inductive cidr :=
| Cidr (inv : option token) (ip : ipnode) (mask : option (token * token * Z)) (semi : token).

(* .key = value ;   (director property, director backend object field) *)
Inductive dfield := DField (dot key eq : token) (v : expr) (semi : token).
Inductive dprop :=
| DProp (f : dfield)
| DBackendObj (lb : token) (fs : list dfield) (rb : token).

Inductive tprop := TProp (key : expr) (colon : token) (v : expr) (comma : option token).

(* backend property: .key = expr ;  or  .key = { properties } *)
Inductive bprop :=
| BProp (dot key eq : token) (v : expr) (semi : token)
| BProbe (dot key eq lb : token) (ps : list bprop) (rb : token).

Inductive stmt :=
| SSet (kw id op : token) (v : expr) (semi : token)
| SAdd (kw id op : token) (v : expr) (semi : token)
| SUnset (kw id semi : token)
| SRemove (kw id semi : token)
| SDeclare (kw loc name ty : token) (v : option (token * expr)) (semi : token)
| SCall (kw sub : token) (a : option (token * list (expr * option token) * token)) (semi : token)
| SError (kw : token) (code : option expr) (arg : option expr) (semi : token)
| SEsi (kw semi : token)
| SRestart (kw semi : token)
| SBreak (kw semi : token)
| SFallthrough (kw semi : token)
| SReturn (kw : token) (v : option (option token * expr * option token)) (semi : token)
| SLog (kw : token) (v : expr) (semi : token)
| SSynthetic (kw : token) (v : expr) (semi : token)
| SSyntheticB64 (kw : token) (v : expr) (semi : token)
| SGoto (kw dst semi : token)
| SGotoDest (name : token)
| SInclude (kw m : token) (v : str) (semi : option token)
| SImport (kw name semi : token)
| SBlock (lb : token) (b : list stmt) (rb : token)
| SFunCall (f lp : token) (a : args) (rp semi : token)
| SIf (kw lp : token) (c : expr) (rp lb : token) (b : list stmt) (rb : token)
      (another : list elif) (els : option (token * token * list stmt * token))
| SSwitch (kw lp : token) (ctl : expr) (rp lb : token) (cases : list scase) (dflt : Z) (rb : token)
(* declarations *)
| DAcl (kw name lb : token) (cs : list cidr) (rb : token)
| DBackend (kw name lb : token) (ps : list bprop) (rb : token)
| DDirector (kw name ty lb : token) (ps : list dprop) (rb : token)
| DTable (kw name : token) (ty : option token) (lb : token) (ps : list tprop) (rb : token)
| DSub (kw name : token) (params : option (token * list (token * token * option token) * token))
       (ret : option token) (lb : token) (b : list stmt) (rb : token)
| DPenaltybox (kw name lb : token) (b : list stmt) (rb : token)
| DRatecounter (kw name lb : token) (b : list stmt) (rb : token)
(* `else if` (k2 = Some IF) / `elseif` / `elsif`: Keyword = "else if" or lit k1 *)
with elif :=
| Elif (k1 : token) (k2 : option token) (lp : token) (c : expr) (rp lb : token) (b : list stmt) (rb : token)
with scase :=
| Case (h : chead) (colon : token) (b : list stmt) (ft : bool).

(* ast.VCL *)
Record vcl := Vcl { vstmts : list stmt; vsnippet : bool }.
