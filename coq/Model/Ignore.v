(* Model of linter/ignore.go and of its setup/teardown call sites
   (linter/linter.go lintStatement, linter/statement_linter.go lintBlockStatement,
   lintIfStatement, lintSwitchStatement, linter/declaration_linter.go lintSubRoutineDeclaration,
   lintDeclareStatement) - the code as it stands in the repository worktree, i.e. WITH the
   repairs recorded in known_findings.txt (fixed: property=C12 ...).  No proofs here. *)
From Coq Require Import List Bool Arith.
From Coq Require Import Strings.String Strings.Byte.
From Falco Require Import Base.Bytes Gen.LintGen.
Import ListNotations.

(* ------------------------------------------------------------------ strings *)

Fixpoint bytes_eqb (a b : list byte) : bool :=
  match a, b with
  | [], [] => true
  | x :: a', y :: b' => byte_eqb x y && bytes_eqb a' b'
  | _, _ => false
  end.

Definition rule := list byte.            (* linter.Rule is a Go string *)

(* the four keywords: regenerated from the const block of linter/ignore.go (Gen/LintGen.v) *)
Definition s_next_line : list byte := falcoIgnoreNextLine.
Definition s_this_line : list byte := falcoIgnoreThisLine.
Definition s_start     : list byte := falcoIgnoreStart.
Definition s_end       : list byte := falcoIgnoreEnd.

Inductive dkind := NextLine | ThisLine | Start | End.

(* supportedIgnoreTypes lookup *)
Definition kind_of (w : list byte) : option dkind :=
  if bytes_eqb w s_next_line then Some NextLine
  else if bytes_eqb w s_this_line then Some ThisLine
  else if bytes_eqb w s_start then Some Start
  else if bytes_eqb w s_end then Some End
  else None.

(* strings.TrimLeft(comment, "#@*/ ") *)
Definition in_cutset (b : byte) : bool := existsb (byte_eqb b) ignore_cutset.   (* cutset regenerated from the source *)

Fixpoint trim_left_cut (s : list byte) : list byte :=
  match s with
  | b :: s' => if in_cutset b then trim_left_cut s' else s
  | [] => []
  end.

Fixpoint has_prefix (p s : list byte) : bool :=
  match p, s with
  | [], _ => true
  | x :: p', y :: s' => byte_eqb x y && has_prefix p' s'
  | _ :: _, [] => false
  end.

(* strings.TrimSuffix(s, "*/") *)
Definition trim_suffix_close (s : list byte) : list byte :=
  match rev s with
  | x2f :: x2a :: r => rev r
  | _ => s
  end.

(* strings.Cut(s, " ") : before, after (after = "" when there is no space) *)
Fixpoint cut_space (s : list byte) : list byte * list byte :=
  match s with
  | [] => ([], [])
  | b :: s' =>
      if byte_eqb b x20 then ([], s')
      else let '(a, r) := cut_space s' in (b :: a, r)
  end.

(* strings.Split(s, ",") : always at least one element *)
Fixpoint split_comma (s : list byte) : list (list byte) :=
  match s with
  | [] => [[]]
  | b :: s' =>
      if byte_eqb b x2c then [] :: split_comma s'
      else match split_comma s' with
           | h :: t => (b :: h) :: t
           | [] => [[b]]          (* unreachable: split_comma never returns [] *)
           end
  end.

(* strings.TrimSpace restricted to ASCII white space (generated inputs are ASCII; U+0085 and
   U+00A0, which Go also trims, are outside the modelled domain) *)
Definition is_space (b : byte) : bool :=
  match b with
  | x09 | x0a | x0b | x0c | x0d | x20 => true
  | _ => false
  end.

Fixpoint drop_space (s : list byte) : list byte :=
  match s with
  | b :: s' => if is_space b then drop_space s' else s
  | [] => []
  end.

Definition trim_space (s : list byte) : list byte := rev (drop_space (rev (drop_space s))).

Definition nonempty (s : list byte) : bool := match s with [] => false | _ => true end.

(* parseIgnoreComment *)
Definition parse_ignore_comment (c0 : list byte) : option (dkind * list rule) :=
  let c := trim_space c0 in       (* a line comment of a CRLF file carries the carriage return *)
  let body := trim_left_cut c in
  let body := if has_prefix [x2f; x2a] c then trim_suffix_close body else body in
  let '(w, rest) := cut_space body in
  match kind_of w with
  | None => None
  | Some k => Some (k, filter nonempty (map trim_space (split_comma rest)))
  end.

(* ------------------------------------------------------------------ ignoredRules *)

Record irules := { all : bool; rules : list rule }.    (* rules: the key set of map[Rule]bool *)

Definition mem (r : rule) (l : list rule) : bool := existsb (bytes_eqb r) l.

Definition ignore_rules (s : irules) (L : list rule) : irules :=
  match L with
  | [] => {| all := true; rules := [] |}
  | _ => {| all := all s; rules := rules s ++ L |}
  end.

Definition unignore_rules (s : irules) (L : list rule) : irules :=
  match L with
  | [] => {| all := false; rules := [] |}
  | _ => {| all := false; rules := filter (fun x => negb (mem x L)) (rules s) |}
  end.

Definition den (s : irules) (r : rule) : bool := all s || mem r (rules s).

Definition rules0 : irules := {| all := false; rules := [] |}.

(* ------------------------------------------------------------------ the ignore state *)

Record istate := {
  nl : irules;                       (* ignoreNextLine *)
  tl : irules;                       (* ignoreThisLine *)
  rg : irules;                       (* ignoreRange *)
  stack : list (irules * irules)     (* saved (ignoreNextLine, ignoreThisLine) of the open statements *)
}.

Definition init : istate := {| nl := rules0; tl := rules0; rg := rules0; stack := [] |}.

Definition set_nl (s : istate) a := {| nl := a; tl := tl s; rg := rg s; stack := stack s |}.
Definition set_tl (s : istate) a := {| nl := nl s; tl := a; rg := rg s; stack := stack s |}.
Definition set_rg (s : istate) a := {| nl := nl s; tl := tl s; rg := a; stack := stack s |}.

Definition push (s : istate) : istate :=
  {| nl := nl s; tl := tl s; rg := rg s; stack := (nl s, tl s) :: stack s |}.

Definition pop (s : istate) : istate :=
  match stack s with
  | [] => s
  | (a, b) :: st => {| nl := a; tl := b; rg := rg s; stack := st |}
  end.

Record meta := { leading : list (list byte); trailing : list (list byte); infix : list (list byte) }.

Definition apply_leading (s : istate) (c : list byte) : istate :=
  match parse_ignore_comment c with
  | Some (NextLine, L) => set_nl s (ignore_rules (nl s) L)
  | Some (Start, L) => set_rg s (ignore_rules (rg s) L)
  | Some (End, L) => set_rg s (unignore_rules (rg s) L)
  | _ => s
  end.

Definition apply_trailing (s : istate) (c : list byte) : istate :=
  match parse_ignore_comment c with
  | Some (ThisLine, L) => set_tl s (ignore_rules (tl s) L)
  | _ => s
  end.

Definition apply_block_end (s : istate) (c : list byte) : istate :=
  match parse_ignore_comment c with
  | Some (End, L) => set_rg s (unignore_rules (rg s) L)
  | _ => s
  end.

Definition setup_statement (m : meta) (s : istate) : istate :=
  fold_left apply_trailing (trailing m) (fold_left apply_leading (leading m) (push s)).

Definition teardown_statement (m : meta) (s : istate) : istate := pop s.

Definition setup_block (m : meta) (s : istate) : istate :=
  fold_left apply_leading (leading m) (push s).

Definition teardown_block (m : meta) (s : istate) : istate :=
  fold_left apply_block_end (trailing m) (fold_left apply_block_end (infix m) (pop s)).

Definition is_enable (r : rule) (s : istate) : bool :=
  all (nl s) || all (tl s) || all (rg s)
  || mem r (rules (nl s)) || mem r (rules (tl s)) || mem r (rules (rg s)).

(* ------------------------------------------------------------------ the walk *)

(* WStmt: a node linted between SetupStatement / TeardownStatement (statements of a block, root
   declarations, else-if / else branches, switch cases and their statements);
   WBlock: a *ast.BlockStatement (SetupBlockStatement / TeardownBlockStatement). *)
Inductive wrap := WStmt | WBlock.

Definition setup (w : wrap) := match w with WStmt => setup_statement | WBlock => setup_block end.
Definition teardown (w : wrap) := match w with WStmt => teardown_statement | WBlock => teardown_block end.

(* A node of the lint walk:
     pre   : rules of the diagnostics passed to Linter.Error while the node itself is linted
             (before its children);
     lsub  : diagnostics decided by IsEnable when the node has been linted but emitted when the
             enclosing subroutine has been linted (unused/variable: the variable is marked used
             when the rule is ignored at its declare statement);
     lprog : the same, emitted by the lintUnused* passes after the whole program
             (unused/declaration: the declaration is marked used when the rule is ignored);
     flush : a subroutine declaration: the unused-variable diagnostics queued inside it are
             emitted when it has been linted (deferred lintUnusedVariables). *)
Inductive node :=
| Node (w : wrap) (m : meta) (flush : bool) (pre lsub lprog : list rule) (kids : list node).

Definition path := list nat.
Definition diag := (path * rule)%type.

Definition emit (p : path) (rs : list rule) (s : istate) : list diag :=
  map (pair p) (filter (fun r => negb (is_enable r s)) rs).

Definition flush_queue (q : list diag) (s : istate) : list diag :=
  filter (fun d => negb (is_enable (snd d) s)) q.

(* the walk threads: the ignore state, the subroutine-level queue, the program-level queue;
   it returns them with the diagnostics appended to l.Errors *)
Definition rres := (istate * list diag * list diag * list diag)%type.

Definition kids_with (runf : node -> path -> istate -> list diag -> list diag -> rres) :=
  fix go (ks : list node) (p : path) (i : nat) (s : istate) (qv qp : list diag) {struct ks} : rres :=
    match ks with
    | [] => (s, qv, qp, [])
    | k :: ks' =>
        let '(s', qv', qp', o') := runf k (p ++ [i]) s qv qp in
        let '(s'', qv'', qp'', o'') := go ks' p (S i) s' qv' qp' in
        (s'', qv'', qp'', o' ++ o'')
    end.

(* what happens between the setup and the teardown of a node.  The local-variable table
   (ctx.Variables["var"]) is deleted by Restore() after every subroutine, so a subroutine starts
   with an empty table: a flush node gives its children a fresh subroutine-level queue, reports
   it when they are done, and hands the incoming queue on untouched. *)
Definition run_inner (runf : node -> path -> istate -> list diag -> list diag -> rres)
    (fl : bool) (pre lsub lprog : list rule) (kids : list node)
    (p : path) (s1 : istate) (qv qp : list diag) : rres :=
  let o1 := emit p pre s1 in
  let '(s2, qv2, qp2, o2) := kids_with runf kids p 0 s1 (if fl then [] else qv) qp in
  (* whether a deferred diagnostic is ignored is decided when its node is entered (state s1: the variable / the
     declaration is marked as used); the queue of a subroutine is reported when it ends WITHOUT consulting the ignore
     state again (repaired: an ignore range opened after the declaration and still open must not hide it) *)
  let o3 := if fl then qv2 else [] in
  let qv3 := (if fl then qv else qv2) ++ emit p lsub s1 in
  let qp3 := qp2 ++ emit p lprog s1 in
  (s2, qv3, qp3, o1 ++ o2 ++ o3).

Fixpoint run (n : node) (p : path) (s : istate) (qv qp : list diag) {struct n} : rres :=
  match n with
  | Node w m fl pre lsub lprog kids =>
      let '(s2, qv3, qp3, o) := run_inner run fl pre lsub lprog kids p (setup w m s) qv qp in
      (teardown w m s2, qv3, qp3, o)
  end.

Definition run_kids := kids_with run.

(* lintVCL + the lintUnused* passes of Linter.Lint.  Lint resets the ignore state before the lintUnused* passes
   (a range left open at the end of the file ends there), so everything still queued is reported. *)
Definition report (t : list node) : list diag :=
  let '(s, qv, qp, o) := run_kids t [] 0 init [] [] in
  o ++ qv ++ qp.

(* ------------------------------------------------------------------ VCL-shaped trees *)

Inductive stmt :=
| SSimple (m : meta) (now later : list rule)       (* set/unset/declare/call/break/... *)
| SIf (m : meta) (cond : list rule) (csq : sblock) (another : list sbranch) (alt : option sbranch)
| SSwitch (m : meta) (ctrl : list rule) (cases : list scase)
with sblock := SBlock (m : meta) (ss : list stmt)
with sbranch := SBranch (m : meta) (cond : list rule) (b : sblock)
with scase := SCase (m : meta) (ss : list stmt).

Inductive decl :=
| DSub (m : meta) (pre later : list rule) (b : sblock)
| DOther (m : meta) (now later : list rule).

Fixpoint node_of_stmt (s : stmt) : node :=
  match s with
  | SSimple m now later => Node WStmt m false now later [] []
  | SIf m cond csq another alt =>
      (* lintIfStatement: condition, consequence block, each else-if, the else block *)
      Node WStmt m false cond [] []
        (node_of_block csq
         :: map node_of_branch another
         ++ match alt with Some b => [node_of_branch b] | None => [] end)
  | SSwitch m ctrl cases =>
      Node WStmt m false ctrl [] [] (map node_of_case cases)
  end
with node_of_block (b : sblock) : node :=
  match b with SBlock m ss => Node WBlock m false [] [] [] (map node_of_stmt ss) end
with node_of_branch (b : sbranch) : node :=
  match b with SBranch m cond blk => Node WStmt m false cond [] [] [node_of_block blk] end
with node_of_case (c : scase) : node :=
  match c with SCase m ss => Node WStmt m false [] [] [] (map node_of_stmt ss) end.

Definition node_of_decl (d : decl) : node :=
  match d with
  | DSub m pre later b => Node WStmt m true pre [] later [node_of_block b]
  | DOther m now later => Node WStmt m false now [] later []
  end.

Definition report_vcl (ds : list decl) : list diag := report (map node_of_decl ds).

(* ------------------------------------------------------------------ editing a tree *)

Fixpoint upd_nth {A} (i : nat) (f : A -> A) (l : list A) : list A :=
  match l, i with
  | [], _ => []
  | x :: l', O => f x :: l'
  | x :: l', S i' => x :: upd_nth i' f l'
  end.

Fixpoint upd (p : path) (f : node -> node) (n : node) : node :=
  match p with
  | [] => f n
  | i :: p' =>
      match n with
      | Node w m fl pre lsub lprog kids => Node w m fl pre lsub lprog (upd_nth i (upd p' f) kids)
      end
  end.

Definition upd_prog (p : path) (f : node -> node) (t : list node) : list node :=
  match p with
  | [] => t
  | i :: p' => upd_nth i (upd p' f) t
  end.

Fixpoint insert_at {A} (k : nat) (x : A) (l : list A) : list A :=
  match k, l with
  | O, _ => x :: l
  | S k', y :: l' => y :: insert_at k' x l'
  | S _, [] => [x]
  end.

Definition add_leading (k : nat) (c : list byte) (n : node) : node :=
  match n with
  | Node w m fl pre lsub lprog kids =>
      Node w {| leading := insert_at k c (leading m); trailing := trailing m; infix := infix m |}
           fl pre lsub lprog kids
  end.

Definition add_trailing (k : nat) (c : list byte) (n : node) : node :=
  match n with
  | Node w m fl pre lsub lprog kids =>
      Node w {| leading := leading m; trailing := insert_at k c (trailing m); infix := infix m |}
           fl pre lsub lprog kids
  end.

Definition add_infix (k : nat) (c : list byte) (n : node) : node :=
  match n with
  | Node w m fl pre lsub lprog kids =>
      Node w {| leading := leading m; trailing := trailing m; infix := insert_at k c (infix m) |}
           fl pre lsub lprog kids
  end.

Fixpoint get_node (p : path) (n : node) : option node :=
  match p with
  | [] => Some n
  | i :: p' => match n with Node _ _ _ _ _ _ kids =>
                 match nth_error kids i with Some k => get_node p' k | None => None end end
  end.

Definition get_prog (p : path) (t : list node) : option node :=
  match p with
  | [] => None
  | i :: p' => match nth_error t i with Some k => get_node p' k | None => None end
  end.

Fixpoint is_prefix (p q : path) : bool :=
  match p, q with
  | [], _ => true
  | x :: p', y :: q' => Nat.eqb x y && is_prefix p' q'
  | _ :: _, [] => false
  end.

(* the rules a directive names: every rule when the list is empty *)
Definition named (L : list rule) (r : rule) : bool :=
  match L with [] => true | _ => mem r L end.

(* rendering of a directive, for the three comment markers *)
Inductive marker := MHash | MSlash | MBlock.

Definition kind_str (k : dkind) : list byte :=
  match k with NextLine => s_next_line | ThisLine => s_this_line | Start => s_start | End => s_end end.

Fixpoint join_rules (L : list rule) : list byte :=
  match L with
  | [] => []
  | [r] => r
  | r :: L' => r ++ [x2c; x20] ++ join_rules L'
  end.

Definition render (mk : marker) (k : dkind) (L : list rule) : list byte :=
  let body := kind_str k ++ match L with [] => [] | _ => x20 :: join_rules L end in
  match mk with
  | MHash => [x23; x20] ++ body
  | MSlash => [x2f; x2f; x20] ++ body
  | MBlock => [x2f; x2a; x20] ++ body ++ [x20; x2a; x2f]
  end.
