(* C05 - the ACCEPT / REJECT (type error) decision of the simulator for one assignment or comparison:
   interpreter/assign/{assign,addition,subtraction,multiplication,division,remainder,bitwise,bitshift,
   bitrotate,logical}.go, dispatched by interpreter/variable/variable.go doAssign from
   LocalVariables.Set (local target) and AllScopeVariables.Set -> assignHeaderValue (req.http.* target);
   interpreter/operator/operator.go Equal / NotEqual / GreaterThan / LessThan / GreaterThanEqual /
   LessThanEqual / Regex / NotRegex, dispatched by ProcessInfixExpression.
   Each function mirrors the Go type switch: which (left type, right type, right-is-literal) cases run and
   which return a type error.  Errors that depend on the VALUE (division by zero, an unparsable address,
   a regular expression that does not compile) are not type errors and are not modelled here
   (Model/Assign.v, builder eval, models the computed values of the scalar types; Proofs/InterpAssignProofs.v
   checks that the two agree on acceptance).  No proofs in this file. *)
From Coq Require Import NArith List String Bool.
From Falco Require Import Base.TablesBase Model.LintTables Model.LintOps Model.TablesDomain.
From Falco Require Import Gen.ObsVars.
Import ListNotations.
Local Open Scope string_scope.

(* interpreter/value.Type *)
Inductive vt := SInteger | SFloat | SString | SBool | SRTime | STime | SIp | SBackend | SAcl | SRegex | SUnknown.

Definition vt_of_name (s : string) : vt :=
  if String.eqb s "INTEGER" then SInteger else if String.eqb s "FLOAT" then SFloat
  else if String.eqb s "STRING" then SString else if String.eqb s "BOOL" then SBool
  else if String.eqb s "RTIME" then SRTime else if String.eqb s "TIME" then STime
  else if String.eqb s "IP" then SIp else if String.eqb s "BACKEND" then SBackend
  else if String.eqb s "ACL" then SAcl else if String.eqb s "REGEX" then SRegex else SUnknown.

Definition vt_eqb (a b : vt) : bool :=
  match a, b with
  | SInteger, SInteger | SFloat, SFloat | SString, SString | SBool, SBool | SRTime, SRTime | STime, STime
  | SIp, SIp | SBackend, SBackend | SAcl, SAcl | SRegex, SRegex | SUnknown, SUnknown => true
  | _, _ => false
  end.

(* ---- assign.Assign ("=") *)
Definition assign_ok (l r : vt) (lit : bool) : bool :=
  match l with
  | SInteger => match r with SInteger => true | SFloat | SRTime | STime => negb lit | _ => false end
  | SFloat => match r with SInteger | SFloat => true | SRTime | STime => negb lit | _ => false end
  | SString =>
    match r with
    | SString | SBool | SIp | SRegex => true
    | SInteger | SFloat | SRTime | STime | SBackend => negb lit
    | _ => false
    end
  | SRTime => match r with SRTime => true | SInteger | SFloat | STime => negb lit | _ => false end
  | STime => match r with SRTime => true | SInteger | SFloat | STime => negb lit | _ => false end
  | SBackend => match r with SBackend => true | _ => false end
  | SBool => match r with SBool => true | _ => false end
  | SIp => match r with SString | SIp => true | _ => false end      (* STRING: value error if a literal does not parse *)
  | SRegex => match r with SString | SRegex => true | _ => false end (* STRING: value error if it does not compile *)
  | SAcl => match r with SAcl => true | _ => false end
  | SUnknown => false
  end.

(* ---- assign.Addition ("+=") and assign.Subtraction ("-=") *)
Definition addsub_numeric_ok (l r : vt) (lit : bool) : bool :=
  match l with
  | SInteger => match r with SInteger => true | SFloat | SRTime | STime => negb lit | _ => false end
  | SFloat => match r with SInteger | SFloat => true | SRTime | STime => negb lit | _ => false end
  | SRTime => match r with SRTime => true | SInteger | SFloat | STime => negb lit | _ => false end
  | STime => match r with SRTime => true | SInteger | SFloat => negb lit | _ => false end
  | _ => false
  end.
Definition addition_ok (l r : vt) (lit : bool) : bool :=
  match l with
  | SString => true                      (* lv.Value += right.String() for every right value *)
  | _ => addsub_numeric_ok l r lit
  end.
Definition subtraction_ok (l r : vt) (lit : bool) : bool := addsub_numeric_ok l r lit.

(* ---- assign.Multiplication, Division, Remainder *)
Definition muldiv_ok (l r : vt) (lit : bool) : bool :=
  match l with
  | SInteger => match r with SInteger => true | SFloat => negb lit | _ => false end
  | SFloat | SRTime => match r with SInteger | SFloat => true | _ => false end
  | _ => false
  end.

(* ---- bitwise.go, bitshift.go, bitrotate.go; logical.go *)
Definition int_only_ok (l r : vt) : bool := vt_eqb l SInteger && vt_eqb r SInteger.
Definition bool_only_ok (l r : vt) : bool := vt_eqb l SBool && vt_eqb r SBool.

(* ---- variable.go doAssign *)
Definition do_assign_ok (op : string) (l r : vt) (lit : bool) : bool :=
  if String.eqb op "+=" then addition_ok l r lit
  else if String.eqb op "-=" then subtraction_ok l r lit
  else if mem_str op ["*="; "/="; "%="] then muldiv_ok l r lit
  else if mem_str op ["|="; "&="; "^="; "<<="; ">>="; "rol="; "ror="] then int_only_ok l r
  else if mem_str op ["||="; "&&="] then bool_only_ok l r
  else assign_ok l r lit.

(* ---- operator.Equal / NotEqual (the left operand of the cells is a variable, never a literal) *)
Definition equal_ok (l r : vt) : bool :=
  match l with
  | SInteger | SFloat | SString | STime => vt_eqb l r
  | SIp => assign_ok SIp r false          (* assign.Assign(&rv, right) "performs all necessary type coercions" *)
  | SUnknown => false
  | _ => vt_eqb l r
  end.

(* ---- operator.GreaterThan / LessThan / GreaterThanEqual / LessThanEqual (one type table, four copies) *)
Definition order_ok (l r : vt) (lit : bool) : bool :=
  match l with
  | SInteger => match r with SInteger => true | SRTime => negb lit | _ => false end
  | SFloat => match r with SInteger | SFloat => true | SRTime => negb lit | _ => false end
  | SRTime => match r with SRTime => true | SInteger | SFloat => negb lit | _ => false end
  | STime => match r with STime => true | _ => false end
  | _ => false
  end.

(* ---- operator.Regex / NotRegex *)
Definition regex_ok (l r : vt) (lit : bool) : bool :=
  match l with
  | SString => match r with SString => lit | SRegex | SAcl => true | _ => false end
  | SIp => match r with SAcl => true | _ => false end
  | _ => false
  end.

(* ---- the operands of the observation cells as the simulator sees them:
   a source literal (and a declared backend / ACL name) is a Literal value; a local variable holds
   value.Create(type); a predefined variable has the type the simulator was OBSERVED to yield in RECV
   (Gen.ObsVars.obs_var_types, tie O) *)
Definition observed_type (name : string) : vt :=
  match assoc name obs_var_types with
  | Some tys => vt_of_name (nth 0 tys "-")
  | None => SUnknown
  end.

Definition sim_base_operand (t form : string) : option (vt * bool) :=
  if String.eqb form "lit" then
    if mem_str t ["INTEGER"; "FLOAT"; "STRING"; "BOOL"; "RTIME"; "BACKEND"; "ACL"] then Some (vt_of_name t, true) else None
  else if String.eqb form "local" then
    Some (if String.eqb t "header" then SString else vt_of_name t, false)
  else if String.eqb form "predef" then
    if String.eqb (predef_name t) "" then None
    else if String.eqb t "header" then Some (SString, false)
    else Some (observed_type (predef_name t), false)
  else None.

(* interpreter/subroutine.go convertValueToType: binding of an argument to a typed parameter and conversion of the
   value returned by a functional subroutine: extra restrictions on top of assign.Assign *)
Definition convert_ok (expected actual : vt) (lit : bool) : bool :=
  if vt_eqb actual expected && negb lit then true
  else
    negb (match expected with
          | SInteger => match actual with SFloat | SRTime | STime => true | _ => false end
          | SFloat => match actual with SRTime | STime => true | _ => false end
          | SRTime => match actual with SInteger | SFloat | STime => true | _ => false end
          | STime => match actual with SInteger | SFloat | SRTime => true | _ => false end
          | SIp => negb lit && vt_eqb actual SString
          | _ => false
          end)
    && assign_ok expected actual lit.

(* the value in one of the eight forms: (type, Literal flag, the binding at the call site succeeds).
   convertValueToType gives the parameter a non-literal value of the declared type *)
Definition sim_right_operand_ex (t form : string) : option (vt * bool * bool) :=
  if mem_str form ["lit"; "local"; "predef"] then
    match sim_base_operand t form with Some (a, l) => Some (a, l, true) | None => None end
  else if mem_str form ["plit"; "plocal"; "ppredef"] then
    if String.eqb t "header" then None
    else match sim_base_operand t (param_base form) with
         | Some (a, l) => Some (vt_of_name t, false, convert_ok (vt_of_name t) a l)
         | None => None
         end
  else if String.eqb form "call" then
    if String.eqb t "header" then None else Some (vt_of_name t, false, true)
  else if String.eqb form "ifexp" then
    match sim_base_operand t "local" with Some (a, _) => Some (a, false, true) | None => None end
  else if mem_str form ["dinit"; "dexpr"; "copy"; "compound"; "default"; "inif"] then
    (* LocalVariables.Set / ProcessDeclareStatement store the value through assign.Assign, which copies the
       payload and never the Literal flag: a variable is not a literal, however it got its value *)
    if String.eqb t "header" then None else Some (vt_of_name t, false, true)
  else None.

Definition sim_right_operand (t form : string) : option (vt * bool) :=
  match sim_right_operand_ex t form with Some (a, l, _) => Some (a, l) | None => None end.

(* ProcessSetStatement: a local target goes through LocalVariables.Set -> doAssign; a req.http.* target
   through AllScopeVariables.Set: a BACKEND literal is refused, "=" stores any value, a compound operator
   is doAssign on the current STRING value *)
Definition sim_set_model (op lty : string) (r : vt) (lit : bool) : bool :=
  if String.eqb lty "header" then
    negb (vt_eqb r SBackend && lit) && (if String.eqb op "=" then true else do_assign_ok op SString r lit)
  else do_assign_ok op (vt_of_name lty) r lit.

(* set var.b = (L op R): ProcessInfixExpression, then BOOL = BOOL *)
Definition sim_compare_model (op lty : string) (r : vt) (lit : bool) : bool :=
  let l := if String.eqb lty "header" then SString else vt_of_name lty in
  if mem_str op ["=="; "!="] then equal_ok l r
  else if mem_str op [">"; ">="; "<"; "<="] then order_ok l r lit
  else if mem_str op ["~"; "!~"] then regex_ok l r lit
  else false.

(* the simulator's decision on the one-statement program of an operator cell *)
Definition interp_op_model (op lty rty form : string) : bool :=
  match sim_right_operand_ex rty form with
  | None => false
  | Some (r, lit, bound) =>
    bound && (if mem_str op assign_ops then sim_set_model op lty r lit else sim_compare_model op lty r lit)
  end.

(* ---- a value where a type is expected.
   arg: the generated wrapper of the built-in (stringifyVariableArguments for STRING positions) and its *_Validate
        (exact type) - std.toupper for STRING, table.lookup_<type> / time.add for the other types;
   ret: convertValueToType on the returned value; par: convertValueToType on the argument *)
Definition sim_arg_ok (expected actual : vt) (lit : bool) : bool :=
  match expected with
  | SString =>
    match actual with
    | SString | SIp => true
    | SAcl => false
    | SBool => true
    | _ => negb lit
    end
  | _ => vt_eqb expected actual
  end.

Definition interp_coerce_model (ctx e t form : string) : bool :=
  match sim_right_operand_ex t form with
  | None => false
  | Some (a, lit, bound) =>
    bound &&
    (if String.eqb ctx "arg" then sim_arg_ok (vt_of_name e) a lit else convert_ok (vt_of_name e) a lit)
  end.

(* the same with a provenance of the left operand.  The provenance of a variable does not matter, with one
   value-dependent exception in the code: operator.Equal answers false for a NOT-SET left IP (declared, never
   assigned) before it looks at the right operand, so no type error can arise there *)
Definition interp_op_model_left (op lty lprov rty form : string) : bool :=
  if String.eqb lty "IP" && String.eqb lprov "default" && mem_str op ["=="; "!="] then
    match sim_right_operand_ex rty form with Some (_, _, bound) => bound | None => false end
  else interp_op_model op lty rty form.
