(* Model of the lint command's verdict: cmd/falco/runner.go (NewRunner's override table and
   verbosity level, Run, run, printLinterError - counting happens while printing) and
   cmd/falco/main.go (runLint, the exit status of main) - the code as it stands in the
   repository worktree, i.e. WITH the repair recorded in known_findings.txt (fixed: property=C04).
   The linter is an input: [lint_input] is what the Go API yields for a program (parse error in
   the main file, FatalError = parse error in an included module, l.Errors with rule and intrinsic
   severity, ignore comments already applied).  No proofs here. *)
From Coq Require Import List Bool Arith NArith.
From Coq Require Import Strings.String Strings.Byte.
From Falco Require Import Base.Bytes Gen.LintGen.
Import ListNotations.
Open Scope list_scope.

Inductive severity := SevError | SevWarning | SevInfo | SevIgnore.

Definition sev_eqb (a b : severity) : bool :=
  match a, b with
  | SevError, SevError | SevWarning, SevWarning | SevInfo, SevInfo | SevIgnore, SevIgnore => true
  | _, _ => false
  end.

Definition rule := list byte.
Definition diag := (rule * severity)%type.

Fixpoint bytes_eqb (a b : list byte) : bool :=
  match a, b with
  | [], [] => true
  | x :: a', y :: b' => byte_eqb x y && bytes_eqb a' b'
  | _, _ => false
  end.

(* ------------------------------------------------------------------ NewRunner *)

(* strings.ToUpper on ASCII letters (the four accepted words are ASCII) *)
Definition upper (b : byte) : byte :=
  let n := b2n b in
  if andb (N.leb 97 n) (N.leb n 122) then n2b (n - 32)%N else b.

(* the Go identifiers of the linter.Severity constants *)
Definition c_error   : list byte := Eval compute in list_byte_of_string "ERROR".
Definition c_warning : list byte := Eval compute in list_byte_of_string "WARNING".
Definition c_info    : list byte := Eval compute in list_byte_of_string "INFO".
Definition c_ignore  : list byte := Eval compute in list_byte_of_string "IGNORE".
Definition sev_of_const (n : list byte) : option severity :=
  if bytes_eqb n c_error then Some SevError
  else if bytes_eqb n c_warning then Some SevWarning
  else if bytes_eqb n c_info then Some SevInfo
  else if bytes_eqb n c_ignore then Some SevIgnore
  else None.

(* the switch of NewRunner over strings.ToUpper(value): its case labels and the constant each one selects are
   regenerated from cmd/falco/runner.go (Gen/LintGen.v override_words); None = "invalid value, skipping" *)
Definition parse_level (v : list byte) : option severity :=
  let u := map upper v in
  match find (fun p => bytes_eqb (fst p) u) override_words with
  | Some (_, n) => sev_of_const n
  | None => None
  end.

(* a linter.Severity as it is printed / encoded in JSON (regenerated spellings) *)
Definition sev_of_string (s : list byte) : option severity :=
  if bytes_eqb s severity_ERROR then Some SevError
  else if bytes_eqb s severity_WARNING then Some SevWarning
  else if bytes_eqb s severity_INFO then Some SevInfo
  else if bytes_eqb s severity_IGNORE then Some SevIgnore
  else None.

(* c.Linter.Rules (a map: keys are unique) -> r.overrides *)
Fixpoint overrides_of (rules : list (rule * list byte)) (r : rule) : option severity :=
  match rules with
  | [] => None
  | (k, v) :: rest =>
      if bytes_eqb k r then parse_level v else overrides_of rest r
  end.

Inductive level := LevelError | LevelWarning | LevelInfo.

(* verbosity: 0 = no flag, 1 = -v, 2 = -vv (VerboseInfo wins) *)
Definition level_of (verbosity : nat) : level :=
  match verbosity with
  | O => LevelError
  | S O => LevelWarning
  | _ => LevelInfo
  end.

Definition level_lt (a b : level) : bool :=
  match a, b with
  | LevelError, LevelWarning | LevelError, LevelInfo | LevelWarning, LevelInfo => true
  | _, _ => false
  end.

Record cfg := {
  json : bool;
  verbosity : nat;
  overrides : rule -> option severity
}.

Record lint_input := {
  parse_error_main : bool;
  parse_error_included : bool;
  diags : list diag
}.

(* ------------------------------------------------------------------ Runner *)

Record runner := {
  errors : nat;
  warnings : nat;
  infos : nat;
  shown : list diag;        (* diagnostics written to the terminal (r.message not suppressed) *)
  json_lint : list diag;    (* r.lintErrors, flattened: each error with the severity it is counted with *)
  json_parse : nat          (* len(r.parseErrors) *)
}.

Definition runner0 : runner :=
  {| errors := 0; warnings := 0; infos := 0; shown := []; json_lint := []; json_parse := 0 |}.

Definition show (c : cfg) (d : diag) (sev : severity) (r : runner) : runner :=
  if json c then r
  else {| errors := errors r; warnings := warnings r; infos := infos r;
          shown := shown r ++ [(fst d, sev)]; json_lint := json_lint r; json_parse := json_parse r |}.

(* printLinterError: the counters move before the verbosity test *)
Definition print_linter_error (c : cfg) (sev : severity) (d : diag) (r : runner) : runner :=
  match sev with
  | SevError =>
      show c d sev {| errors := S (errors r); warnings := warnings r; infos := infos r;
                      shown := shown r; json_lint := json_lint r; json_parse := json_parse r |}
  | SevWarning =>
      let r' := {| errors := errors r; warnings := S (warnings r); infos := infos r;
                   shown := shown r; json_lint := json_lint r; json_parse := json_parse r |} in
      if level_lt (level_of (verbosity c)) LevelWarning then r' else show c d sev r'
  | SevInfo =>
      let r' := {| errors := errors r; warnings := warnings r; infos := S (infos r);
                   shown := shown r; json_lint := json_lint r; json_parse := json_parse r |} in
      if level_lt (level_of (verbosity c)) LevelInfo then r' else show c d sev r'
  | SevIgnore => r
  end.

Definition effective (c : cfg) (d : diag) : severity :=
  match overrides c (fst d) with
  | Some s => s
  | None => snd d
  end.

(* the loop over lt.Errors in run *)
Definition step (c : cfg) (r : runner) (d : diag) : runner :=
  let sev := effective c d in
  let r1 := if json c && negb (sev_eqb sev SevIgnore)
            then {| errors := errors r; warnings := warnings r; infos := infos r; shown := shown r;
                    json_lint := json_lint r ++ [(fst d, sev)]; json_parse := json_parse r |}
            else r in
  print_linter_error c sev d r1.

Definition record_parse_error (c : cfg) (r : runner) : runner :=
  if json c
  then {| errors := errors r; warnings := warnings r; infos := infos r; shown := shown r;
          json_lint := json_lint r; json_parse := S (json_parse r) |}
  else r.

(* (r *Runner).run : the runner afterwards, and whether ErrParser was returned *)
Definition run (c : cfg) (x : lint_input) : runner * bool :=
  if parse_error_main x then (record_parse_error c runner0, true)
  else if parse_error_included x then (record_parse_error c runner0, true)
  else (fold_left (step c) (diags x) runner0, false).

(* RunnerResult; [failed] is the unexported mark of the repair *)
Record result := {
  res_errors : nat; res_warnings : nat; res_infos : nat;
  res_lint : list diag; res_parse : nat; failed : bool
}.

(* (r *Runner).Run : None = (nil, err) *)
Definition Run (c : cfg) (x : lint_input) : option result * list diag :=
  let '(r, err) := run c x in
  if err && negb (json c) then (None, shown r)
  else (Some {| res_errors := errors r; res_warnings := warnings r; res_infos := infos r;
                res_lint := json_lint r; res_parse := json_parse r; failed := err |}, shown r).

Record outcome := {
  exit : nat;                                  (* process exit status *)
  summary : option (nat * nat * nat);          (* the "N errors, N warnings, N recommendations" line *)
  doc : option result;                         (* the JSON document on stdout *)
  terminal : list diag                         (* diagnostics printed before the summary *)
}.

(* runLint + the exit status of main *)
Definition run_lint (c : cfg) (x : lint_input) : outcome :=
  match Run c x with
  | (None, t) => {| exit := 1; summary := None; doc := None; terminal := t |}
  | (Some res, t) =>
      let d := if json c then Some res else None in
      if failed res then {| exit := 1; summary := None; doc := d; terminal := t |}
      else {| exit := if Nat.ltb 0 (res_errors res) then 1 else 0;
              summary := Some (res_errors res, res_warnings res, res_infos res);
              doc := d; terminal := t |}
  end.

(* ------------------------------------------------------------------ specification vocabulary *)
Definition count (c : cfg) (s : severity) (ds : list diag) : nat :=
  List.length (filter (fun d => sev_eqb (effective c d) s) ds).

(* the entries of the -json document: the non-ignored diagnostics, each with its effective severity *)
Definition listed (c : cfg) (ds : list diag) : list diag :=
  map (fun d => (fst d, effective c d)) (filter (fun d => negb (sev_eqb (effective c d) SevIgnore)) ds).

(* what the verbosity lets through to the terminal *)
Definition visible (v : nat) (s : severity) : bool :=
  match s with
  | SevError => true
  | SevWarning => negb (level_lt (level_of v) LevelWarning)
  | SevInfo => negb (level_lt (level_of v) LevelInfo)
  | SevIgnore => false
  end.

(* the code BEFORE the repair (kept to state why it was needed): Run swallowed the error in -json
   mode and runLint had nothing to look at *)
Definition run_lint_unrepaired (c : cfg) (x : lint_input) : outcome :=
  match Run c x with
  | (None, t) => {| exit := 1; summary := None; doc := None; terminal := t |}
  | (Some res, t) =>
      {| exit := if Nat.ltb 0 (res_errors res) then 1 else 0;
         summary := Some (res_errors res, res_warnings res, res_infos res);
         doc := if json c then Some res else None; terminal := t |}
  end.
