(* Expression parser: parser/expression_parser.go + the leaf parsers of
   parser/vcl_type_parser.go, transcribed with the Go cursor convention:
   a parse function is entered with cur = first token of the construct and returns with
   cur = LAST token of the construct (peek = what follows).  The precedence table and the
   prefix / infix / postfix registrations are read from Gen/ParserTables.v (regenerated
   from the Go sources on every run).  Loops and the recursion are fuelled.  No proofs. *)
From Coq Require Import List NArith ZArith Bool.
From Falco Require Import Base.Bytes Gen.TokenTypes Model.ParseKinds Gen.ParserTables
  Model.ParseBase Model.Ast Model.ParseLit.
Import ListNotations.
Local Open Scope parse_scope.

(* curPrecedence / peekPrecedence *)
Definition prec_of (t : token) : N :=
  match assoc (typ t) precedences with Some v => v | None => P_LOWEST end.

Section Expr.
(* strconv.ParseFloat(s, 64) returns no error *)
Variable fok : str -> bool.

(* ParseString on cur: escapes only when Offset == 2 (double-quoted) *)
Definition pstring (st : pstate) : pres str :=
  let t := cur st in
  if (off t =? 2)%N then
    match decode_escapes (lit t) with
    | POK v => POK v
    | PFuel => PFuel
    | PCrash => PCrash
    | _ => err_cur E_escape st
    end
  else POK (lit t).

(* ParseLongString, cur = OPEN_LONG_STRING; result: open, string, close tokens and the value *)
Definition plong (st : pstate) : pres (token * token * token * str * pstate) :=
  if negb (peek_is st T_STRING) then err_peek E_unexpected st
  else
    let o := cur st in
    let st1 := next st in
    match pstring st1 with
    | POK v =>
        if negb (peek_is st1 T_CLOSE_LONG_STRING) then err_peek E_unexpected st1
        else if negb (str_eqb (lit o) (lit (peek st1))) then err_peek E_unexpected st1
        else let st2 := next st1 in POK (o, cur st1, cur st2, v, st2)
    | PFuel => PFuel
    | _ => PCrash      (* str, err := p.ParseString(); str.LongString = true  with str == nil *)
    end.

Definition pint (st : pstate) : pres Z :=
  let negated := match prev st with Some p => ttype_eqb (typ p) T_MINUS | None => false end in
  match conv_integer negated (lit (cur st)) with
  | Some v => POK v
  | None => err_cur E_conversion st
  end.
Definition pinteger (st : pstate) : pres (expr * pstate) :=
  do v <- pint st; POK (EInt (cur st) v, st).

Definition pfloat (st : pstate) : pres (expr * pstate) :=
  if fok (float_arg (lit (cur st))) then POK (EFloat (cur st), st) else err_cur E_conversion st.

Definition prtime (st : pstate) : pres (expr * pstate) :=
  match rtime_value (lit (cur st)) with
  | Some v => if fok v then POK (ERTime (cur st), st) else err_cur E_conversion st
  | None => err_cur E_conversion st
  end.

Definition expect (st : pstate) (t : ttype) : pres pstate :=
  match expect_peek st t with Some st' => POK st' | None => err_peek E_unexpected st end.

(* the registered prefix methods; [rec] is ParseExpression (the recursive call) *)
Definition pprefix (rec : N -> pstate -> pres (expr * pstate)) (k : prefix_kind) (st : pstate)
  : pres (expr * pstate) :=
  match k with
  | PK_ParseIdent => POK (EIdent (cur st), st)
  | PK_ParseString => do v <- pstring st; POK (EString (cur st) v, st)
  | PK_ParseLongString =>
      do (o, s, c, v, st') <- plong st; POK (ELong o s c v, st')
  | PK_ParseInteger => pinteger st
  | PK_ParseFloat => pfloat st
  | PK_ParseRTime => prtime st
  | PK_ParseBoolean => POK (EBool (cur st), st)
  | PK_ParsePrefixExpression =>
      do (r, st') <- rec P_PREFIX (next st); POK (EPrefix (cur st) r, st')
  | PK_ParseGroupedExpression =>
      do (r, st') <- rec P_LOWEST (next st);
      do st'' <- expect st' T_RIGHT_PAREN;
      POK (EGroup (cur st) r (cur st''), st'')
  | PK_ParseIfExpression =>
      do st1 <- expect st T_LEFT_PAREN;
      do (c, st2) <- rec P_LOWEST (next st1);
      do st3 <- expect st2 T_COMMA;
      do (t, st4) <- rec P_LOWEST (next st3);
      do st5 <- expect st4 T_COMMA;
      do (e, st6) <- rec P_LOWEST (next st5);
      do st7 <- expect st6 T_RIGHT_PAREN;
      POK (EIfExp (cur st) (cur st1) c (cur st3) t (cur st5) e (cur st7), st7)
  end.

(* the registered infix methods, entered with cur = the operator token (p.NextToken() done by
   the loop); [rec] is ParseExpression, [recargs] ParseFunctionArgumentExpressions *)
Definition pinfix (rec : N -> pstate -> pres (expr * pstate)) (recargs : pstate -> pres (args * pstate))
  (k : infix_kind) (lft : expr) (st1 : pstate) : pres (expr * pstate) :=
  match k with
  | IK_ParseInfixExpression =>
      do (r, st') <- rec (prec_of (cur st1)) (next st1);
      POK (EInfix lft (cur st1) false r, st')
  | IK_ParseInfixStringConcatExpression explicit =>
      if explicit then
        do (r, st') <- rec (prec_of (cur st1)) (next st1);
        POK (EInfix lft (cur st1) true r, st')
      else
        do (r, st') <- rec (prec_of (cur st1)) st1;
        POK (EConcat lft r, st')
  | IK_ParseFunctionCallExpression =>
      match lft with
      | EIdent f => do (a, st') <- recargs st1; POK (ECall f (cur st1) a (cur st'), st')
      | _ => err_cur E_fname st1      (* ParseError{Token: p.curToken.Token, "Function name must be IDENT"} *)
      end
  end.

Fixpoint pexpr (n : nat) (prec : N) (st : pstate) {struct n} : pres (expr * pstate) :=
  match n with
  | O => PFuel
  | S n' =>
    match assoc (typ (cur st)) prefix_parsers with
    | None => err_cur E_undef_prefix st
    | Some k =>
      do (lft, st1) <- pprefix (pexpr n') k st;
      ploop n' prec lft st1
    end
  end
(* the `for !p.PeekTokenIs(SEMICOLON) && precedence < p.peekPrecedence()` loop *)
with ploop (n : nat) (prec : N) (lft : expr) (st : pstate) {struct n} : pres (expr * pstate) :=
  match n with
  | O => PFuel
  | S n' =>
    if peek_is st T_SEMICOLON || negb (prec <? prec_of (peek st))%N then POK (lft, st)
    else
      match assoc (typ (peek st)) infix_parsers with
      | None =>
        match assoc (typ (peek st)) postfix_parsers with
        | Some QK_ParsePostfixExpression =>
            let st1 := next st in ploop n' prec (EPostfix lft (cur st1)) st1
        | None => POK (lft, st)
        end
      | Some k =>
        do (l2, st2) <- pinfix (pexpr n') (pargs n') k lft (next st);
        ploop n' prec l2 st2
      end
  end
(* ParseFunctionArgumentExpressions, cur = LEFT_PAREN; returns with cur = RIGHT_PAREN *)
with pargs (n : nat) (st : pstate) {struct n} : pres (args * pstate) :=
  match n with
  | O => PFuel
  | S n' =>
    if peek_is st T_RIGHT_PAREN then POK (ANone, next st)
    else
      do (e, st1) <- pexpr n' P_LOWEST (next st);
      do (more, st2) <- pargtail n' st1;
      do st3 <- expect st2 T_RIGHT_PAREN;
      POK (ASome e more, st3)
  end
with pargtail (n : nat) (st : pstate) {struct n} : pres (argtail * pstate) :=
  match n with
  | O => PFuel
  | S n' =>
    if peek_is st T_COMMA then
      let st1 := next st in
      do (e, st2) <- pexpr n' P_LOWEST (next st1);
      do (more, st3) <- pargtail n' st2;
      POK (ATCons (cur st1) e more, st3)
    else POK (ATNil, st)
  end.

(* fuel that always suffices (Proofs/ParseExprTotal.v) *)
Definition expr_fuel (st : pstate) : nat := 2 * length (toks st) + 4.

Definition parse_expr (prec : N) (st : pstate) : pres (expr * pstate) :=
  pexpr (expr_fuel st) prec st.
Definition parse_args (st : pstate) : pres (args * pstate) :=
  pargs (expr_fuel st) st.

(* ParseFunctionCallExpression(ident) entered with cur = LEFT_PAREN, from statements *)
Definition pcallexpr (f : token) (st : pstate) : pres (expr * pstate) :=
  do (a, st') <- parse_args st; POK (ECall f (cur st) a (cur st'), st').

End Expr.
