(* The parse methods that parser/expression_parser.go registers per token type.  The
   constructor names are `PK_`/`IK_`/`QK_` + the Go method name; Gen/ParserTables.v
   (regenerated from the registration maps) refers to them, so a registration of a
   method the model does not know stops the build. *)
Inductive prefix_kind :=
| PK_ParseIdent | PK_ParseString | PK_ParseLongString | PK_ParseInteger | PK_ParseFloat
| PK_ParseRTime | PK_ParsePrefixExpression | PK_ParseBoolean | PK_ParseGroupedExpression
| PK_ParseIfExpression.

Inductive infix_kind :=
| IK_ParseInfixExpression
| IK_ParseInfixStringConcatExpression (explicit : bool)
| IK_ParseFunctionCallExpression.

Inductive postfix_kind := QK_ParsePostfixExpression.

(* the parse methods selected by the first token of a statement / declaration
   (Gen/ParserDispatch.v, regenerated from the switch statements of ParseStatement,
   ParseSnippetVCL and Parse) *)
Inductive stmt_method :=
| SM_ParseBlockStatement | SM_ParseSetStatement | SM_ParseUnsetStatement | SM_ParseRemoveStatement
| SM_ParseAddStatement | SM_ParseCallStatement | SM_ParseDeclareStatement | SM_ParseErrorStatement
| SM_ParseEsiStatement | SM_ParseLogStatement | SM_ParseRestartStatement | SM_ParseReturnStatement
| SM_ParseSyntheticStatement | SM_ParseSyntheticBase64Statement | SM_ParseIfStatement
| SM_ParseSwitchStatement | SM_ParseGotoStatement | SM_ParseIncludeStatement | SM_ParseBreakStatement
| SM_ParseFallthroughStatement | SM_ident_dispatch
| SM_ParseAclDeclaration | SM_ParseImportStatement | SM_ParseBackendDeclaration
| SM_ParseDirectorDeclaration | SM_ParseTableDeclaration | SM_ParseSubroutineDeclaration
| SM_ParsePenaltyboxDeclaration | SM_ParseRatecounterDeclaration.
