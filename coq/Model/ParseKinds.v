(* The parse methods that parser/expression_parser.go registers per token type.  The
   constructor names are `PK_`/`IK_`/`QK_` + the Go method name; Gen/ParserTables.v
   (regenerated from the registration maps) refers to them, so a registration of a
   method the model does not know stops the build. *)
Inductive prefix_kind :=
| PK_ParseIdent | PK_ParseString | PK_ParseLongString | PK_ParseInteger | PK_ParseFloat
| PK_ParseRTime | PK_ParsePrefixExpression | PK_ParseBoolean | PK_ParseGroupedExpression
| PK_ParseIfExpression.

Inductive infix_kind :=
| IK_ParseInfixExpression
| IK_ParseInfixStringConcatExpression (explicit : bool)
| IK_ParseFunctionCallExpression.

Inductive postfix_kind := QK_ParsePostfixExpression.
