(* C13 - executable semantics of expressions, statements and subroutine calls over the heap
   model (Model/StoreSyntax.v).  Transcribes interpreter/expression.go (processExpression,
   ProcessPrefixExpression, ProcessGroupedExpression, ProcessIfExpression,
   ProcessFunctionCallExpression, ProcessInfixExpression, ProcessStringConcatInfixExpression),
   statement.go (ProcessBlockStatement, ProcessDeclareStatement, ProcessSetStatement[LocalVariable],
   ProcessUnsetStatement, ProcessLogStatement, ProcessIfStatement, ProcessCallStatement),
   subroutine.go (ProcessSubroutine, ProcessFunctionSubroutine, validateAndSetParameters,
   convertValueToType), variable/local.go and variable/header.go (whole headers).
   [C : cfg] selects the repaired code (the tree as it is now) or the code before the two
   repairs.  Recursion is on explicit fuel in the shape of the Go recursion.  No proofs here. *)
From Coq Require Import List NArith ZArith Bool.
From Coq Require Import Strings.Byte.
From Falco Require Import Base.Res Base.Bytes Model.HdrField Model.StoreSyntax.
Import ListNotations.

Section Sem.
Variable C : cfg.
Variable Os : ops.
Variable P : program.

Fixpoint find_sub (f : N) (p : program) : option sub :=
  match p with [] => None | (g, s) :: r => if N.eqb f g then Some s else find_sub f r end.

(* IdentValue *)
Definition eval_var (x : name) (σ : state) : res (nat * state) :=
  match x with
  | NLocal k => match lookup k (locals σ) with Some l => OK (l, σ) | None => Err end
  | NGlobal k => match lookup k (globals σ) with Some l => OK (l, σ) | None => Err end
  | NHeader o h => OK (alloc (header_val σ o h) σ)
  | NField o h k => OK (alloc (field_val σ o h k) σ)
  | NGroup j => match nth_error (groups σ) j with
                | Some l => OK (l, σ)
                | None => OK (alloc (VStr [] true false) σ)
                end
  end.

(* operator.Regex on a match: ctx.RegexMatchedValues = make(map); one fresh String per capture *)
Fixpoint alloc_caps (caps : list str) (σ : state) : list nat * state :=
  match caps with
  | [] => ([], σ)
  | c :: r => let (l, σ1) := alloc (VStr c false false) σ in
              let (ls, σ2) := alloc_caps r σ1 in (l :: ls, σ2)
  end.
Definition set_caps (caps : list str) (σ : state) : state :=
  let (ls, σ1) := alloc_caps caps σ in set_groups ls σ1.

(* ---- string concatenation (ProcessStringConcatInfixExpression over literals and variables) *)
Definition atom_defined (σ : state) (a : atom) : bool :=
  match a with ALit _ => true | AVar x => match read σ x with Some _ => true | None => false end end.
Definition atom_notset (σ : state) (a : atom) : bool :=
  match a with
  | AVar x => match read σ x with Some (VStr _ true _) => true | _ => false end
  | ALit _ => false
  end.
Fixpoint concat_fold (m : mode) (xs : list atom) (acc : str) (σ : state) : res (str * state) :=
  match xs with
  | [] => OK (acc, σ)
  | ALit s :: r => concat_fold m r (acc ++ s) σ
  | AVar x :: r =>
      do (l, σ1) <- eval_var x σ;
      do v <- load σ1 l;
      match v with
      | VStr _ ns _ =>
          if m_lvar m && ns then concat_fold m r acc σ1 else concat_fold m r (acc ++ render Os v) σ1
      | VBool _ _ => concat_fold m r (acc ++ render Os v) σ1
      | _ => if is_lit v then Err else concat_fold m r (acc ++ render Os v) σ1
      end
  end.
Definition eval_concat (m : mode) (xs : list atom) (σ : state) : res (nat * state) :=
  if negb (forallb (atom_defined σ) xs) then Err
  else if forallb (atom_notset σ) xs then OK (alloc (VStr [] true false) σ)
  else do (s, σ1) <- concat_fold m xs [] σ; OK (alloc (VStr s false false) σ1).

Fixpoint eval_list (ev : expr -> state -> res (nat * state)) (es : list expr) (σ : state)
  : res (list nat * state) :=
  match es with
  | [] => OK ([], σ)
  | e :: r => do (l, σ1) <- ev e σ; do (ls, σ2) <- eval_list ev r σ1; OK (l :: ls, σ2)
  end.
Fixpoint loads (σ : state) (ls : list nat) : res (list val) :=
  match ls with [] => OK [] | l :: r => do v <- load σ l; do vs <- loads σ r; OK (v :: vs) end.

(* isValidStatementExpression *)
Definition valid_stmt_expr (t : ty) (e : expr) : bool :=
  match e with
  | ENot _ => false
  | EBin _ _ _ | EMatch _ _ _ => false
  | EGroup _ => ty_eqb t TBool
  | _ => true
  end.

(* convertValueToType: the caller's own cell when no conversion is needed *)
Definition conv_forbidden (want have : ty) : bool :=
  match want, have with
  | TInt, (TFloat | TRTime) => true
  | TFloat, TRTime => true
  | TRTime, (TInt | TFloat) => true
  | _, _ => false
  end.
Definition convert (t : ty) (l : nat) (σ : state) : res (nat * state) :=
  do v <- load σ l;
  if ty_eqb (type_of v) t && negb (is_lit v) then OK (l, σ)
  else if conv_forbidden t (type_of v) then Err
  else do r <- assign_val Os AEq (default_val t) v; OK (alloc r σ).

(* validateAndSetParameters *)
Fixpoint bind_params (ps : list (N * ty)) (args : list nat) (σ : state) : res state :=
  match ps, args with
  | [], [] => OK σ
  | (p, t) :: ps', a :: args' =>
      do (l, σ1) <- convert t a σ;
      do v <- load σ1 l;
      let (l', σ2) := if Nat.eqb l a && param_copies C then alloc v σ1 else (l, σ1) in
      bind_params ps' args' (set_locals ((p, l') :: locals σ2) σ2)
  | _, _ => Err
  end.

(* doAssign on a cell; fixns: LocalVariables.Set clears IsNotSet of a STRING *)
Definition assign_cell (fixns : bool) (l : nat) (op : aop) (r : nat) (σ : state) : res state :=
  do lv <- load σ l;
  do rv <- load σ r;
  do nv <- assign_val Os op lv rv;
  OK (write l (if fixns then unset_notset nv else nv) σ).

(* setRequestHeaderValue / setResponseHeaderValue (whole header) *)
Fixpoint cut_nl (s : str) : str :=
  match s with [] => [] | c :: r => if byte_eqb c x0a then [] else c :: cut_nl r end.
Definition store_header (o h : N) (v : val) (σ : state) : state :=
  match v with
  | VStr _ true _ => set_hdrs (hdel (o, h) (hdrs σ)) σ
  | _ => set_hdrs (hset (o, h) (cut_nl (render Os v)) (hdrs σ)) σ
  end.

(* setRequestHeaderValue / setResponseHeaderValue with a sub-field key: the header becomes
   setField(<current value>, key, val) and is marked assigned *)
Definition field_operand (v : val) : HdrField.val :=
  match v with
  | StoreSyntax.VStr _ true _ => VNotSet
  | _ => HdrField.VStr (render Os v)
  end.
Definition store_field (o h k : N) (v : val) (σ : state) : state :=
  set_hdrs (hset (o, h) (set_field (hdr_text σ o h) (key_text k) (field_operand v)) (hdrs σ)) σ.
(* unsetRequestHeaderValue with a sub-field key *)
Definition unset_field_of (o h k : N) (σ : state) : state :=
  match unset_field (hdr_text σ o h) (key_text k) with
  | [] => set_hdrs (hdel (o, h) (hdrs σ)) σ
  | t => set_hdrs (hset (o, h) t (hdrs σ)) σ
  end.

Fixpoint run_block (step : stmt -> state -> res (outcome * state)) (ss : list stmt) (σ : state)
  : res (outcome * state) :=
  match ss with
  | [] => OK (ONorm, σ)
  | s :: r =>
      do (o, σ1) <- step s (snap σ);           (* Debugger.Run(stmt) is where the harness looks *)
      match o with ONorm => run_block step r σ1 | _ => OK (o, σ1) end
  end.

Fixpoint run_elifs (ev : expr -> state -> res (nat * state))
                   (rb : list stmt -> state -> res (outcome * state))
                   (elifs : list (expr * list stmt)) (el : option (list stmt)) (σ : state)
  : res (outcome * state) :=
  match elifs with
  | [] => match el with Some b => rb b σ | None => OK (ONorm, σ) end
  | (c, b) :: rest =>
      do (lc, σ1) <- ev c (snap σ);            (* Debugger.Run(ei) *)
      do vc <- load σ1 lc;
      match truthy vc with
      | None => Err
      | Some true => rb b σ1
      | Some false => run_elifs ev rb rest el σ1
      end
  end.

(* ---- switch: ProcessSwitchStatement / ProcessCaseStatement *)
Definition scase := (ctest * list stmt * bool)%type.
Definition is_dflt (d : option nat) (i : nat) : bool :=
  match d with Some n => Nat.eqb n i | None => false end.

(* the test of a non-default case against the control string *)
Definition case_test (t : ctest) (ctl : str) (σ : state) : res (bool * state) :=
  match t with
  | CDefault => OK (true, σ)
  | CStr s =>
      let (lr, σ1) := alloc (VStr s false true) σ in
      do r <- binop_val Os BEq (VStr ctl false false) (VStr s false true);
      match r with VBool b _ => OK (b, σ1) | _ => Crash end      (* Unwrap[*Boolean](match).Value *)
  | CMatch p =>
      match re_match Os p ctl with
      | Some caps => OK (true, set_caps caps σ)
      | None => OK (false, σ)
      end
  end.

(* run the body of the first case; while it ends normally and says fallthrough, go on with the next *)
Fixpoint sw_from (rb : list stmt -> state -> res (outcome * state)) (cs : list scase) (σ : state)
  : res (outcome * state) :=
  match cs with
  | [] => Err                                   (* "Fallthrough not allowed in final case" *)
  | (_, body, ft) :: rest =>
      do (o, σ1) <- rb body σ;
      match o with
      | ONorm => if ft then sw_from rb rest σ1 else OK (ONorm, σ1)
      | _ => OK (o, σ1)
      end
  end.
Fixpoint sw_try (rb : list stmt -> state -> res (outcome * state)) (ctl : str) (d : option nat)
                (i : nat) (cs : list scase) (σ : state) : res (option outcome * state) :=
  match cs with
  | [] => OK (None, σ)
  | (t, body, ft) :: rest =>
      if is_dflt d i then sw_try rb ctl d (S i) rest σ
      else
        do (m, σ1) <- case_test t ctl σ;
        if m then do (o, σ2) <- sw_from rb ((t, body, ft) :: rest) σ1; OK (Some o, σ2)
        else sw_try rb ctl d (S i) rest σ1
  end.
Fixpoint sw_nth (rb : list stmt -> state -> res (outcome * state)) (n : nat) (cs : list scase) (σ : state)
  : res (outcome * state) :=
  match cs, n with
  | [], _ => Err
  | _ :: _, O => sw_from rb cs σ
  | _ :: rest, S n' => sw_nth rb n' rest σ
  end.

(* what a call hands back to its caller *)
Inductive cres := CNone | CVal (l : nat) | CState (st : N).

Definition max_call_stack : nat := 100.

Fixpoint eval (n : nat) (m : mode) (e : expr) (σ : state) {struct n} : res (nat * state) :=
  match n with
  | O => OutOfFuel
  | S n' =>
    match e with
    | EVar x => eval_var x σ
    | ELit v => OK (alloc v σ)
    | ENot e1 =>
        do (l, σ1) <- eval n' m e1 σ;
        do v <- load σ1 l;
        match v with
        | VBool b _ => OK (alloc (VBool (negb b) false) σ1)
        | VStr _ ns _ => if m_cond m then OK (alloc (VBool ns false) σ1) else Err
        | _ => Err
        end
    | ENeg e1 =>
        do (l, σ1) <- eval n' m e1 σ;
        do v <- load σ1 l;
        match neg_val v with
        | Some v' => if neg_copies C then OK (alloc v' σ1) else OK (l, write l v' σ1)
        | None => Err
        end
    | EPos e1 => eval n' m e1 σ
    | EGroup e1 => eval n' cond_mode e1 σ
    | EBin op a b =>
        do (la, σ1) <- eval n' m a σ;
        do (lb, σ2) <- eval n' m b σ1;
        do va <- load σ2 la;
        do vb <- load σ2 lb;
        do r <- binop_val Os op va vb;
        OK (alloc r σ2)
    | EMatch neg a p =>
        do (la, σ1) <- eval n' m a σ;
        do va <- load σ1 la;
        match va with
        | VStr s _ false =>
            match re_match Os p s with
            | Some caps => OK (alloc (VBool (negb neg) false) (set_caps caps σ1))
            | None => OK (alloc (VBool neg false) σ1)
            end
        | _ => Err
        end
    | EConcat xs => eval_concat m xs σ
    | EIf c a b =>
        do (lc, σ1) <- eval n' cond_mode c σ;
        do vc <- load σ1 lc;
        match truthy vc with
        | Some true => eval n' dflt_mode a σ1
        | Some false => eval n' dflt_mode b σ1
        | None => Err
        end
    | EBuiltin f args =>
        do (ls, σ1) <- eval_list (eval n' (arg_mode m)) args σ;
        do vs <- loads σ1 ls;
        do r <- builtin_val Os f vs;
        OK (alloc r σ1)
    | ECall f args =>
        do (ls, σ1) <- eval_list (eval n' lvar_mode) args σ;
        match find_sub f P with
        | Some sb =>
            match s_ret sb with
            | Some _ =>
                do (r, σ2) <- call n' sb ls σ1;
                match r with CVal l => OK (l, σ2) | _ => Err end   (* a state / no value: value.Null *)
            | None => Err
            end
        | None => Err
        end
    end
  end

with exec (n : nat) (fn : bool) (s : stmt) (σ : state) {struct n} : res (outcome * state) :=
  match n with
  | O => OutOfFuel
  | S n' =>
    match s with
    | SDeclare k t init =>
        let (l, σ1) := alloc (default_val t) σ in
        let σ2 := set_locals ((k, l) :: locals σ1) σ1 in
        match init with
        | None => OK (ONorm, σ2)
        | Some e =>
            do (r, σ3) <- eval n' dflt_mode e σ2;
            do σ4 <- assign_cell true l AEq r σ3;
            OK (ONorm, σ4)
        end
    | SSet x op e =>
        match x with
        | NLocal k =>
            match lookup k (locals σ) with
            | None => Err
            | Some l =>
                do lv <- load σ l;
                if valid_stmt_expr (type_of lv) e then
                  do (r, σ1) <- eval n' lvar_mode e σ;
                  do σ2 <- assign_cell true l op r σ1;
                  OK (ONorm, σ2)
                else Err
            end
        | NGlobal k =>
            match lookup k (globals σ) with
            | None => Err
            | Some l =>
                do lv <- load σ l;
                if valid_stmt_expr (type_of lv) e then
                  do (r, σ1) <- eval n' dflt_mode e σ;
                  do σ2 <- assign_cell false l op r σ1;
                  OK (ONorm, σ2)
                else Err
            end
        | NHeader o h =>
            if valid_stmt_expr TStr e then
              do (r, σ1) <- eval n' dflt_mode e σ;
              do rv <- load σ1 r;
              do hv <- match op with
                       | AEq => OK rv
                       | _ => do nv <- assign_val Os op (header_val σ1 o h) rv; OK (unset_notset nv)
                       end;
              OK (ONorm, store_header o h hv σ1)
            else Err
        | NField o h k =>
            if valid_stmt_expr TStr e then
              do (r, σ1) <- eval n' lvar_mode e σ;          (* isHeaderFieldIdent: LocalVariable mode *)
              do rv <- load σ1 r;
              do hv <- match op with
                       | AEq => OK rv
                       | _ => do nv <- assign_val Os op (field_val σ1 o h k) rv; OK (unset_notset nv)
                       end;
              OK (ONorm, store_field o h k hv σ1)
            else Err
        | NGroup _ => Err
        end
    | SUnset x =>
        match x with
        | NHeader o h => OK (ONorm, set_hdrs (hdel (o, h) (hdrs σ)) σ)
        | NField o h k => OK (ONorm, unset_field_of o h k σ)
        | _ => Err
        end
    | SLog e =>
        do (l, σ1) <- eval n' dflt_mode e σ;
        do v <- load σ1 l;
        OK (ONorm, set_logs (logs σ1 ++ [render Os v]) σ1)
    | SIf c th elifs el =>
        do (lc, σ1) <- eval n' cond_mode c σ;
        do vc <- load σ1 lc;
        do (o, σ2) <- match truthy vc with
                      | None => Err
                      | Some true => run_block (exec n' fn) th σ1
                      | Some false => run_elifs (eval n' cond_mode) (run_block (exec n' fn)) elifs el σ1
                      end;
        OK (demote o, σ2)
    | SCall f args =>
        do (ls, σ1) <- eval_list (eval n' lvar_mode) args σ;
        match find_sub f P with
        | Some sb =>
            do (r, σ2) <- call n' sb ls σ1;
            match r with CState st => OK (OState st, σ2) | _ => OK (ONorm, σ2) end
        | None => Err
        end
    | SReturn eo =>
        if fn then
          match eo with
          | Some e => do (l, σ1) <- eval n' dflt_mode e σ; OK (OVal l true, σ1)
          | None => Crash        (* ProcessExpression(nil).GetMeta() *)
          end
        else
          match eo with
          | None => OK (OBare, σ)
          | Some _ => Err        (* `return e;` in a procedure is written SReturnState *)
          end
    | SReturnState st =>
        if fn then Err           (* an identifier evaluated as an expression: outside this model *)
        else OK (OState st, σ)
    | SNop => OK (ONorm, σ)
    | SAdd o h e =>
        (* Variable.Add: Header.Add(name, val.String()) - a header that exists keeps its first value *)
        if valid_stmt_expr TStr e then
          do (r, σ1) <- eval n' dflt_mode e σ;
          do rv <- load σ1 r;
          OK (ONorm, match hget (o, h) (hdrs σ1), render Os rv with
                     | None, (_ :: _) as t => set_hdrs (hset (o, h) t (hdrs σ1)) σ1
                     | _, _ => σ1
                     end)
        else Err
    | SRestart allowed =>
        (* the scope guard of ProcessBlockStatement applies in procedures and functions alike *)
        if allowed then OK (OState st_restart, σ) else Err
    | SError allowed gs gr code arg =>
        if negb allowed then Err else
        (* assign.Assign(ctx.ObjectStatus, code); assign.Assign(ctx.ObjectResponse, arg) *)
        do σ1 <- match code with
                 | None => OK σ
                 | Some e => do (r, σ') <- eval n' dflt_mode e σ;
                             match lookup gs (globals σ') with
                             | Some l => assign_cell false l AEq r σ'
                             | None => Crash
                             end
                 end;
        do σ2 <- match arg with
                 | None => OK σ1
                 | Some e => do (r, σ') <- eval n' dflt_mode e σ1;
                             match lookup gr (globals σ') with
                             | Some l => assign_cell false l AEq r σ'
                             | None => Crash
                             end
                 end;
        OK (OState st_error, σ2)
    | SUnsetWild o pre =>
        (* variable/header.go: for key := range Header { if HasPrefixFold(key, name) { delete } }; UnassignPrefix *)
        OK (ONorm, set_hdrs (hdel_wild o pre (hdrs σ)) σ)
    | SSynthetic gb e =>
        (* assign.Assign(&value.String{}, val); ctx.Object.Body = reader of it *)
        do (r, σ1) <- eval n' dflt_mode e σ;
        match lookup gb (globals σ1) with
        | Some l => do σ2 <- assign_cell false l AEq r σ1; OK (ONorm, σ2)
        | None => Crash
        end
    | SSwitch c cases d =>
        do (lc, σ1) <- eval n' dflt_mode c σ;
        do vc <- load σ1 lc;
        (* control := &value.String{Value: expr.String()} *)
        let ctl := render Os vc in
        let (_, σ2) := alloc (VStr ctl false false) σ1 in
        do (r, σ3) <- sw_try (run_block (exec n' fn)) ctl d 0 cases σ2;
        do (o, σ4) <- match r with
                      | Some o => OK (o, σ3)
                      | None => match d with
                                | Some k => sw_nth (run_block (exec n' fn)) k cases σ3
                                | None => OK (ONorm, σ3)
                                end
                      end;
        OK (demote o, σ4)
    end
  end

(* ProcessSubroutine / ProcessFunctionSubroutine: new frame, parameters, body, restore *)
with call (n : nat) (sb : sub) (args : list nat) (σ : state) {struct n} : res (cres * state) :=
  match n with
  | O => OutOfFuel
  | S n' =>
    let saved_locals := locals σ in
    let saved_groups := groups σ in
    let d := depth σ in
    let σ0 := set_depth (S d) (set_groups [] (set_locals [] σ)) in
    do σ1 <- bind_params (s_params sb) args σ0;
    if Nat.ltb max_call_stack (S d) then Err else
    let isfn := match s_ret sb with Some _ => true | None => false end in
    do (o, σ2) <- run_block (exec n' isfn) (s_body sb) σ1;
    let σ3 := set_depth d (set_groups saved_groups (set_locals saved_locals σ2)) in
    match s_ret sb, o with
    | _, OState st => OK (CState st, σ3)       (* travels on through ProcessCallStatement *)
    | None, (ONorm | OBare) => OK (CNone, σ3)
    | None, OVal _ _ => Err
    | Some rt, OVal l true => do (l', σ4) <- convert rt l σ3; OK (CVal l', σ4)
    | Some rt, OVal l false => OK (CVal l, σ3)
    | Some _, _ => Err                (* "did not return any values" *)
    end
  end.

(* a whole program body (the harness runs the statements of sub t_main in a fresh frame) *)
Definition run_main (n : nat) (body : list stmt) (σ : state) : res (outcome * state) :=
  run_block (exec n false) body σ.

End Sem.

Definition init_state (globs : list val) : state :=
  {| heap := globs; locals := []; globals := combine (map N.of_nat (seq 0 (length globs))) (seq 0 (length globs));
     groups := []; hdrs := []; logs := []; depth := 0; trace := [] |}.
