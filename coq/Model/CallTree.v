(* C08 - interpreter/limitations/limitations.go CheckFastlyCallTreeLimit: the static pass that runs in
   ProcessInit before every request.  cost(name) = sum over the call statements of the subroutine of
   1 + cost(callee), memoised in [costs], with the [visiting] guard that cuts recursive programs; the
   subroutines are visited in name order and the first whose cost exceeds MaxSubroutineCallTree is
   reported ("Too many sub calls").  Go's int is 64-bit: sums wrap.
   The recursion of the Go closure is modelled with fuel in the shape of the code;
   Proofs/CallTreeProofs.v shows that (number of subroutines + 1) units always suffice: the walk ends
   for every call graph.  (That the memo table also keeps the walk polynomial is not a theorem; the
   supervised runs of checks/c08.py over large graphs watch the time.)  No proofs in this file. *)
From Coq Require Import List Arith ZArith Bool.
From Falco Require Import Base.Res Model.Val.
Import ListNotations.

Definition memo := list (nat * Z).

Fixpoint mlookup (n : nat) (m : memo) : option Z :=
  match m with [] => None | (k, v) :: t => if Nat.eqb k n then Some v else mlookup n t end.

Fixpoint nmem (n : nat) (l : list nat) : bool :=
  match l with [] => false | x :: t => Nat.eqb x n || nmem n t end.

(* subs: for every subroutine (by number, = position in name order) the callees of its call statements *)
Fixpoint cost (fuel : nat) (subs : list (list nat)) (visiting : list nat) (m : memo) (name : nat) {struct fuel}
  : res (Z * memo) :=
  match fuel with
  | O => OutOfFuel
  | S k =>
      match mlookup name m with
      | Some c => OK (c, m)
      | None =>
          match nth_error subs name with
          | None => OK (0%Z, m)                                   (* call of an undefined subroutine *)
          | Some calls =>
              if nmem name visiting then OK (0%Z, m)             (* recursive VCL: cut *)
              else
                match
                  (fix go (cs : list nat) (total : Z) (m : memo) : res (Z * memo) :=
                     match cs with
                     | [] => OK (total, m)
                     | c :: rest =>
                         match cost k subs (name :: visiting) m c with
                         | OK (v, m') => go rest (wrap64 (total + 1 + v)) m'
                         | Err => Err | Crash => Crash | OutOfFuel => OutOfFuel
                         end
                     end) calls 0%Z m
                with
                | OK (total, m') => OK (total, (name, total) :: m')
                | e => e
                end
          end
      end
  end.

(* the loop over the names: OK true = accepted, OK false = "Too many sub calls" *)
Fixpoint check_from (limit : Z) (subs : list (list nat)) (m : memo) (names : list nat) : res bool :=
  match names with
  | [] => OK true
  | n :: rest =>
      match cost (S (length subs)) subs [] m n with
      | OK (c, m') => if (limit <? c)%Z then OK false else check_from limit subs m' rest
      | Err => Err | Crash => Crash | OutOfFuel => OutOfFuel
      end
  end.

Definition check_call_tree (limit : Z) (subs : list (list nat)) : res bool :=
  check_from limit subs [] (seq 0 (length subs)).
