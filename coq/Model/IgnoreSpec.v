(* Predicates used in the statements of the C12 theorems (no proofs here). *)
From Coq Require Import List Bool Arith Strings.Byte.
From Falco Require Import Base.Bytes Model.Ignore.
Import ListNotations.

(* a comment that is a falco-ignore-start / falco-ignore-end directive *)
Definition is_range_comment (c : list byte) : bool :=
  match parse_ignore_comment c with
  | Some (Start, _) | Some (End, _) => true
  | _ => false
  end.

Definition range_free_meta (m : meta) : bool :=
  forallb (fun c => negb (is_range_comment c)) (leading m) &&
  forallb (fun c => negb (is_range_comment c)) (trailing m) &&
  forallb (fun c => negb (is_range_comment c)) (infix m).

(* no start / end directive anywhere in the subtree (any number of next-line / this-line ones) *)
Fixpoint range_free (n : node) : bool :=
  match n with
  | Node w m fl pre lsub lprog kids => range_free_meta m && forallb range_free kids
  end.

Definition node_wrap (n : node) : wrap := match n with Node w _ _ _ _ _ _ => w end.
Definition node_meta (n : node) : meta := match n with Node _ m _ _ _ _ _ => m end.

(* the diagnostics located in the statements number i .. i+len-1 of the list owned by path b *)
Definition in_region (b : path) (i len : nat) (q : path) : bool :=
  existsb (fun k => is_prefix (b ++ [k]) q) (seq i len).

(* the range set does not already ignore a rule the new pair names (nothing at all for a bare pair) *)
Definition rg_clear (L : list rule) (a : irules) : Prop :=
  all a = false /\ (forall r, mem r L = true -> mem r (rules a) = false) /\ (L = [] -> rules a = []).

(* rules a rule list can hold after rendering: non-empty, no white space, no comma *)
Definition plain_byte (b : byte) : bool := negb (is_space b) && negb (byte_eqb b x2c).
Definition plain_rule (r : rule) : bool := nonempty r && forallb plain_byte r.
