(* Predicates used in the statements of the C12 theorems (no proofs here). *)
From Coq Require Import List Bool Arith Strings.Byte.
From Falco Require Import Base.Bytes Model.Ignore.
Import ListNotations.

(* a comment that is a falco-ignore-start / falco-ignore-end directive *)
Definition is_range_comment (c : list byte) : bool :=
  match parse_ignore_comment c with
  | Some (Start, _) | Some (End, _) => true
  | _ => false
  end.

Definition range_free_meta (m : meta) : bool :=
  forallb (fun c => negb (is_range_comment c)) (leading m) &&
  forallb (fun c => negb (is_range_comment c)) (trailing m) &&
  forallb (fun c => negb (is_range_comment c)) (infix m).

(* no start / end directive anywhere in the subtree (any number of next-line / this-line ones) *)
Fixpoint range_free (n : node) : bool :=
  match n with
  | Node w m fl pre lsub lprog kids => range_free_meta m && forallb range_free kids
  end.

Definition node_wrap (n : node) : wrap := match n with Node w _ _ _ _ _ _ => w end.
Definition node_meta (n : node) : meta := match n with Node _ m _ _ _ _ _ => m end.

(* the diagnostics located in the statements number i .. i+len-1 of the list owned by path b *)
Definition in_region (b : path) (i len : nat) (q : path) : bool :=
  existsb (fun k => is_prefix (b ++ [k]) q) (seq i len).

(* the range set does not already ignore a rule the new pair names (nothing at all for a bare pair) *)
Definition rg_clear (L : list rule) (a : irules) : Prop :=
  all a = false /\ (forall r, mem r L = true -> mem r (rules a) = false) /\ (L = [] -> rules a = []).

(* ------------------------------------------------------------------ results of the walk *)
Definition r_st (r : rres) : istate := fst (fst (fst r)).
Definition r_qv (r : rres) : list diag := snd (fst (fst r)).
Definition r_qp (r : rres) : list diag := snd (fst r).
Definition r_out (r : rres) : list diag := snd r.

(* two runs end in the same state; the queues and the output of the first are those of the second
   filtered by F *)
Definition sim_eq (F : diag -> bool) (r' r : rres) : Prop :=
  r_st r' = r_st r /\ r_qv r' = filter F (r_qv r) /\ r_qp r' = filter F (r_qp r) /\ r_out r' = filter F (r_out r).

(* a diagnostic located in the subtree at p0 whose rule the list L names *)
Definition covers (P0 : path) (L : list rule) (d : diag) : bool := is_prefix P0 (fst d) && named L (snd d).

(* keeps every diagnostic except those located in the statements i .. i+len-1 of the list owned by b
   and named by L *)
Definition region_filter (b : path) (i len : nat) (L : list rule) (d : diag) : bool :=
  negb (in_region b i len (fst d) && named L (snd d)).

Definition free_list (l : list (list byte)) : bool := forallb (fun c => negb (is_range_comment c)) l.

Definition set_kids (ks : list node) (n : node) : node :=
  match n with Node w m fl pre lsub lprog _ => Node w m fl pre lsub lprog ks end.

(* rules a rule list can hold after rendering: non-empty, no white space, no comma *)
Definition plain_byte (b : byte) : bool := negb (is_space b) && negb (byte_eqb b x2c).
Definition plain_rule (r : rule) : bool := nonempty r && forallb plain_byte r.
