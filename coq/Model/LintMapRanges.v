(* C11 - the hand-audited list of `for ... range <map>` loops of linter/ (compared with Gen/MapRanges.v,
   regenerated with go/types, by map_ranges_audited) and the shape each has in Model/ScopeInfer.v:
     Report     one optional diagnostic per key, nothing written that another iteration reads
                (ScopeInfer.unused; multiset order free: unused_multiset_order_free)
     Pointwise  every iteration rewrites only the entry of its own key, from that entry and the key
                (pointwise_pass below; order free: pointwise_order_free)
     DfsStarts  one fresh depth-first search per key, results united (ScopeInfer.detect; cycle_set_order_free, detect_spec)
     FixpointRound  one round of the monotone propagation (ScopeInfer.infer; infer_lfp_order_free) *)
From Coq Require Import List String NArith.
From Falco Require Import Model.ScopeInfer.
Import ListNotations.
Local Open Scope string_scope.

Inductive loop_shape : Type := Report | Pointwise | DfsStarts | FixpointRound.

Definition audited_ranges : list ((string * string * string) * loop_shape) := [
  (("linter/linter.go", "lintUnusedTables", "ctx.Tables"), Report);
  (("linter/linter.go", "lintUnusedAcls", "ctx.Acls"), Report);
  (* reads ctx.Directors[...].IsUsed of another map, writes nothing *)
  (("linter/linter.go", "lintUnusedBackends", "ctx.Backends"), Report);
  (("linter/linter.go", "lintUnusedSubroutines", "ctx.Subroutines"), Report);
  (("linter/linter.go", "lintUnusedPenaltyboxes", "ctx.Penaltyboxes"), Report);
  (("linter/linter.go", "lintUnusedRatecounters", "ctx.Ratecounters"), Report);
  (("linter/linter.go", "lintUnusedVariables", "v.Items"), Report);
  (("linter/linter.go", "lintUnusedGotos", "ctx.Gotos"), Report);
  (("linter/scope_inference.go", "detectRecursion", "graph"), DfsStarts);
  (("linter/scope_inference.go", "detectRecursion", "inCycle"), Report);
  (* sub.Scopes = fastlyScopes[name] for the lifecycle subroutines that exist *)
  (("linter/scope_inference.go", "inferSubroutineScopes", "fastlyScopes"), Pointwise);
  (* if sub.Scopes == 0 { sub.Scopes = getSubroutineCallScope(sub.Decl) when > 0 } *)
  (("linter/scope_inference.go", "inferSubroutineScopes", "ctx.Subroutines"), Pointwise);
  (("linter/scope_inference.go", "inferSubroutineScopes", "graph"), FixpointRound)
]%list.

(* a pass that rewrites, for every key of the map in some order, the entry of that key from the key and
   the entry itself *)
Definition pointwise_pass (g : name -> N -> N) (order : list name) (s : state) : state :=
  fold_left (fun s k => upd s k (g k (s k))) order s.
