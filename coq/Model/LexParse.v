(* Bridge between the lexer / pump model (Model/Lex.v, Model/Pump.v: C01) and the parser model
   (Model/Parse*.v: C02): the significant tokens the pump lets through become the parser's
   (type, literal bytes, Offset) tokens; the final EOF meta is the parser's "EOF for ever behind
   the end".  [parse_source] = lexer.New + parser.New + one of the three entry points on a byte
   string.  No proofs here.  Both developments define token, str, T_EOF ...: names are qualified. *)
From Coq Require Import List NArith Bool.
From Coq Require Strings.String.
From Falco Require Import Base.Res Base.Bytes Base.Utf8.
From Falco Require Gen.Tokens Gen.TokenTypes Model.Lex Model.Pump Model.ParseBase Model.Ast Model.ParseDecl.
Import ListNotations.

(* the Go string value of a token type -> the parser model's constant; a name that is no constant
   behaves as ILLEGAL (it is in no table of the parser) *)
Definition type_table : list (Lex.str * TokenTypes.ttype) :=
  map (fun t => (Lex.s2r (TokenTypes.tname t), t)) TokenTypes.all_ttypes.

Definition ttype_of (s : Lex.str) : TokenTypes.ttype :=
  match find (fun p => Lex.str_eqb (fst p) s) type_table with
  | Some p => snd p
  | None => TokenTypes.T_ILLEGAL
  end.

(* the literal is the Go string: the UTF-8 encoding of the runes the lexer wrote *)
Definition conv (t : Lex.token) : ParseBase.token :=
  ParseBase.Tok (ttype_of (Lex.ttype t)) (enc_all (Lex.tlit t)) (Lex.toff t).

(* the pumped tokens before the first EOF *)
Fixpoint to_ptoks (ms : list Pump.meta) : list ParseBase.token :=
  match ms with
  | [] => []
  | m :: r => if Lex.is_eof (Pump.mtok m) then [] else conv (Pump.mtok m) :: to_ptoks r
  end.

Inductive pmode := MVcl | MSnippet | MAuto.

Definition parse_mode (fok : ParseBase.str -> bool) (mode : pmode) (ts : list ParseBase.token)
  : ParseBase.pres Ast.vcl :=
  match mode with
  | MVcl => ParseDecl.parse_vcl fok ts
  | MSnippet => ParseDecl.parse_snippet fok ts
  | MAuto => ParseDecl.parse_vcl_or_snippet fok ts
  end.

(* bytes -> lexer -> pump -> parser *)
Definition parse_source (fok : ParseBase.str -> bool) (mode : pmode) (s : list byte)
  : ParseBase.pres Ast.vcl :=
  match Pump.pump s with
  | OK ms => parse_mode fok mode (to_ptoks ms)
  | Err => ParseBase.PErrNoTok
  | Crash => ParseBase.PCrash
  | OutOfFuel => ParseBase.PFuel
  end.

(* the pumped token an error of the parser refers to: the EOF meta for an EOF token, otherwise
   the token [rem] places before the end of the significant stream *)
Definition err_meta (ms : list Pump.meta) (t : ParseBase.token) (rem : nat) : option Pump.meta :=
  if ParseBase.ttype_eqb (ParseBase.typ t) TokenTypes.T_EOF then nth_error ms (length (to_ptoks ms))
  else nth_error ms (length (to_ptoks ms) - rem).

(* what the driver prints: the outcome class and, for an error, the located token *)
Inductive outcome :=
| OOk (snippet : bool)
| OErr (k : ParseBase.perr) (m : option Pump.meta)
| ONoTok | OCrash | OFuel.

Definition parse_outcome (fok : ParseBase.str -> bool) (mode : pmode) (ms : list Pump.meta) : outcome :=
  match parse_mode fok mode (to_ptoks ms) with
  | ParseBase.POK v => OOk (Ast.vsnippet v)
  | ParseBase.PErr k t rem => OErr k (err_meta ms t rem)
  | ParseBase.PErrNoTok => ONoTok
  | ParseBase.PCrash => OCrash
  | ParseBase.PFuel => OFuel
  end.

Definition parse_outcomes (fok : ParseBase.str -> bool) (s : list byte) : res (outcome * outcome * outcome) :=
  match Pump.pump s with
  | OK ms => OK (parse_outcome fok MVcl ms, parse_outcome fok MSnippet ms, parse_outcome fok MAuto ms)
  | Err => Err | Crash => Crash | OutOfFuel => OutOfFuel
  end.
