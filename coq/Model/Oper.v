(* C07/C08 - the binary operators of interpreter/operator/operator.go
   (== != < > <= >= ~ !~ && ||  and Concat), transcribed case by case.
   Regular-expression matching and net.ParseIP are oracle parameters: [re_match pat subj] is
   None when the pattern does not compile, else whether it matches.  No proofs in this file. *)
From Coq Require Import List NArith ZArith Bool Floats.SpecFloat.
From Falco Require Import Base.Res Base.Bytes Model.Float Model.Acl Model.Val Model.Assign.
Import ListNotations.
Local Open Scope Z_scope.

Inductive bop := BEq | BNe | BLt | BGt | BLe | BGe | BMatch | BNMatch | BAnd | BOr | BConcat.

Definition all_bops : list bop := [BEq; BNe; BLt; BGt; BLe; BGe; BMatch; BNMatch; BAnd; BOr; BConcat].

Fixpoint str_eqb (a b : str) : bool :=
  match a, b with
  | [], [] => true
  | x :: a', y :: b' => byte_eqb x y && str_eqb a' b'
  | _, _ => false
  end.

Definition fam_eqb := family_eqb.
Definition addr_eqb (a b : addr) : bool := fam_eqb (afam a) (afam b) && N.eqb (abits a) (abits b).
Definition oaddr_eqb (a b : option addr) : bool :=
  match a, b with
  | Some x, Some y => addr_eqb x y
  | None, None => true
  | _, _ => false
  end.

Definition same_type (a b : val) : bool :=
  match type_of a, type_of b with
  | TInt, TInt | TFloat, TFloat | TStr, TStr | TBool, TBool | TRTime, TRTime
  | TTime, TTime | TIp, TIp | TBackend, TBackend | TAcl, TAcl => true
  | _, _ => false
  end.

Section WithOracles.
Variable parse_ip : str -> option addr.
Variable re_match : str -> str -> option bool.

(* ------------------------------------------------------------------ == *)
Definition equal (l r : operand) : res bool :=
  if olit l then Err else
  match oval l, oval r with
  | VInt a an _ _, VInt b bn _ _ => OK (if an || bn then false else a =? b)
  | VInt _ _ _ _, _ => Err
  | VFloat a an _ _, VFloat b bn _ _ => OK (if an || bn then false else feq a b)
  | VFloat _ _ _ _, _ => Err
  | VStr a ans, VStr b bns => OK (if ans || bns then false else str_eqb a b)
  | VStr _ _, _ => Err
  | VTime e1 n1 _, VTime e2 n2 _ => OK (match time_cmp e1 n1 e2 n2 with Eq => true | _ => false end)
  | VTime _ _ _, _ => Err
  | VIp a ans, rv =>
      if ans then OK false
      else match assign_set parse_ip (VIp None false) r with
           | AOk (VIp b bns) => OK (if bns then false else oaddr_eqb a b)
           | _ => Err
           end
  | lv, rv => if same_type lv rv then OK (str_eqb (string_of lv) (string_of rv)) else Err
  end.

Definition not_equal (l r : operand) : res bool :=
  match equal l r with OK b => OK (negb b) | e => e end.

(* ------------------------------------------------------------------ < > <= >= *)
Inductive ckind := CLt | CGt | CLe | CGe.

Definition ctest (k : ckind) (c : option comparison) : bool :=
  match k, c with
  | CLt, Some Lt => true
  | CGt, Some Gt => true
  | CLe, Some Lt | CLe, Some Eq => true
  | CGe, Some Gt | CGe, Some Eq => true
  | _, _ => false
  end.

Definition zc (k : ckind) (a b : Z) : bool := ctest k (Some (Z.compare a b)).
Definition fc (k : ckind) (a b : float) : bool := ctest k (fcmp a b).

Definition compare_op (k : ckind) (l r : operand) : res bool :=
  match oval l, oval r with
  | VInt a an _ _, VInt b bn _ _ =>
      if olit l then Err else OK (if an then false else if bn then false else zc k a b)
  | VInt a an _ _, VRTime ns =>
      if olit l then Err else if an then OK false else if olit r then Err else OK (zc k a (Z.quot ns Second))
  | VInt _ an _ _, _ => if olit l then Err else if an then OK false else Err
  | VFloat a an _ _, VInt b bn _ _ =>
      if olit l then Err else OK (if an then false else if bn then false else fc k a (f_of_int b))
  | VFloat a an _ _, VFloat b bn _ _ =>
      if olit l then Err else OK (if an then false else if bn then false else fc k a b)
  | VFloat a an _ _, VRTime ns =>
      if olit l then Err else if an then OK false else if olit r then Err
      else OK (fc k a (f_of_int (Z.quot ns Second)))
  | VFloat _ an _ _, _ => if olit l then Err else if an then OK false else Err
  | VRTime ns, VInt b bn _ _ =>
      if olit l then Err else if olit r then Err else OK (if bn then false else zc k (Z.quot ns Second) b)
  | VRTime ns, VFloat b bn _ _ =>
      if olit l then Err else if olit r then Err else OK (if bn then false else fc k (f_of_int (Z.quot ns Second)) b)
  | VRTime a, VRTime b => if olit l then Err else OK (zc k a b)
  | VRTime _, _ => Err
  | VTime e1 n1 _, VTime e2 n2 _ => OK (ctest k (Some (time_cmp e1 n1 e2 n2)))
  | _, _ => Err
  end.

(* ------------------------------------------------------------------ ~ !~ *)
Definition regex (l r : operand) : res bool :=
  match oval l, oval r with
  | VStr s _, VStr p _ =>
      if olit l then Err else if negb (olit r) then Err
      else match re_match p s with Some b => OK b | None => Err end
  | VStr s _, VAcl _ es =>
      if olit l then Err
      else match parse_ip s with
           | Some a => impl_match es a
           | None => Err
           end
  | VIp (Some a) _, VAcl _ es => impl_match es a
  | VIp None _, VAcl _ es => if forallb valid es then OK false else Err   (* nil net.IP is in no network *)
  | _, _ => Err
  end.

Definition not_regex (l r : operand) : res bool :=
  match regex l r with OK b => OK (negb b) | e => e end.

(* ------------------------------------------------------------------ && || *)
Definition truthy (o : operand) : res bool :=
  match oval o with
  | VBool b => OK b
  | VStr _ ns => if olit o then Err else OK (negb ns)
  | _ => Err
  end.

Definition logical (f : bool -> bool -> bool) (l r : operand) : res bool :=
  match truthy l with
  | OK a => match truthy r with OK b => OK (f a b) | e => e end
  | e => e
  end.

(* ------------------------------------------------------------------ Concat *)
Definition concat_ok (o : operand) : bool :=
  match type_of (oval o) with
  | TAcl => false
  | TStr | TBool => true
  | _ => negb (olit o)
  end.

Definition concat (l r : operand) : res str :=
  if concat_ok l && concat_ok r then OK (string_of (oval l) ++ string_of (oval r)) else Err.

(* ------------------------------------------------------------------ dispatch (ProcessInfixExpression) *)
Definition oper (op : bop) (l r : operand) : res val :=
  let b (x : res bool) : res val := match x with OK v => OK (VBool v) | Err => Err | Crash => Crash | OutOfFuel => OutOfFuel end in
  match op with
  | BEq => b (equal l r)
  | BNe => b (not_equal l r)
  | BLt => b (compare_op CLt l r)
  | BGt => b (compare_op CGt l r)
  | BLe => b (compare_op CLe l r)
  | BGe => b (compare_op CGe l r)
  | BMatch => b (regex l r)
  | BNMatch => b (not_regex l r)
  | BAnd => b (logical andb l r)
  | BOr => b (logical orb l r)
  | BConcat => match concat l r with OK s => OK (VStr s false) | Err => Err | Crash => Crash | OutOfFuel => OutOfFuel end
  end.

End WithOracles.
