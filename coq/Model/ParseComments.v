(* Parser.ReadPeek (parser/parser.go): what the parser makes of the RAW token stream of the lexer
   (LF, COMMENT, FASTLY_CONTROL and PRAGMA tokens included) before any grammar rule runs: the
   decorated tokens (ast.Meta pointers) that become peekToken / curToken, each with
     Leading             the comments read since the previous significant token, every one with
                         PrefixedLineFeed and PreviousEmptyLines,
     Nest                the brace level (a `{` already counts itself, a `}` no longer does),
     PreviousEmptyLines  the empty lines since the last comment (or the previous token).
   The token component of the decorated stream is the significant stream the grammar model
   (ParseExpr/ParseStmt/ParseDecl) runs on.  Also: Parser.Trailing() and the Swap helpers. *)
From Coq Require Import List NArith ZArith Bool.
From Falco Require Import Base.Bytes Gen.TokenTypes Model.ParseBase.
Import ListNotations.

Record comment := Cm { ctok : token; cplf : bool; cpel : N }.
Record dtok := D { dtk : token; dlead : list comment; dnest : Z; dpel : N }.

(* the locals of one ReadPeek call: leading (reversed), prefixedLineFeed, previousEmptyLines, and
   "the token just read was an LF" (the inner loop that counts the following LFs) *)
Record rp := RP { lead : list comment; plf : bool; pel : N; inlf : bool }.
Definition rp0 : rp := RP [] false 0 false.

(* [prag] = inside `pragma ... ;` (tokens skipped up to the SEMICOLON; an EOF ends the skip and is
   delivered again by the lexer) *)
Fixpoint decorate (level : Z) (s : rp) (prag : bool) (l : list token) : list dtok :=
  match l with
  | [] => []
  | t :: r =>
    if prag then
      match typ t with
      | T_SEMICOLON => decorate level (RP (lead s) (plf s) (pel s) false) false r
      | T_EOF => [D t (rev (lead s)) level (pel s)]
      | _ => decorate level s true r
      end
    else
      match typ t with
      | T_LF =>
          if inlf s then decorate level (RP (lead s) (plf s) (pel s + 1) true) false r
          else decorate level (RP (lead s) true (pel s) true) false r
      | T_COMMENT => decorate level (RP (Cm t (plf s) (pel s) :: lead s) (plf s) 0 false) false r
      | T_FASTLY_CONTROL => decorate level (RP (lead s) (plf s) (pel s) false) false r
      | T_PRAGMA => decorate level (RP (lead s) (plf s) (pel s) false) true r
      | T_EOF => [D t (rev (lead s)) level (pel s)]
      | T_LEFT_BRACE => D t (rev (lead s)) (level + 1) (pel s) :: decorate (level + 1) rp0 false r
      | T_RIGHT_BRACE => D t (rev (lead s)) (level - 1) (pel s) :: decorate (level - 1) rp0 false r
      | _ => D t (rev (lead s)) level (pel s) :: decorate level rp0 false r
      end
  end.

Definition read_peek_stream (raw : list token) : list dtok := decorate 0 rp0 false raw.

(* the same walk without the decoration: the significant tokens (up to and including the first EOF) *)
Fixpoint signif (prag : bool) (l : list token) : list token :=
  match l with
  | [] => []
  | t :: r =>
    if prag then
      match typ t with
      | T_SEMICOLON => signif false r
      | T_EOF => [t]
      | _ => signif true r
      end
    else
      match typ t with
      | T_LF | T_COMMENT | T_FASTLY_CONTROL => signif false r
      | T_PRAGMA => signif true r
      | T_EOF => [t]
      | _ => t :: signif false r
      end
  end.

(* the comment tokens ReadPeek sees (those outside `pragma ... ;`, before the first EOF) *)
Fixpoint visible_comments (prag : bool) (l : list token) : list token :=
  match l with
  | [] => []
  | t :: r =>
    if prag then
      match typ t with
      | T_SEMICOLON => visible_comments false r
      | T_EOF => []
      | _ => visible_comments true r
      end
    else
      match typ t with
      | T_COMMENT => t :: visible_comments false r
      | T_PRAGMA => visible_comments true r
      | T_EOF => []
      | _ => visible_comments false r
      end
  end.

(* every comment token before the first EOF *)
Fixpoint all_comments (l : list token) : list token :=
  match l with
  | [] => []
  | t :: r =>
    match typ t with
    | T_EOF => []
    | T_COMMENT => t :: all_comments r
    | _ => all_comments r
    end
  end.

Fixpoint has_eof (l : list token) : bool :=
  match l with [] => false | t :: r => ttype_eqb (typ t) T_EOF || has_eof r end.
Fixpoint has_pragma (l : list token) : bool :=
  match l with [] => false | t :: r => ttype_eqb (typ t) T_PRAGMA || has_pragma r end.

(* the comments attached to the decorated stream, in stream order *)
Definition attached (ds : list dtok) : list token := flat_map (fun d => map ctok (dlead d)) ds.

(* brace level after each significant token *)
Fixpoint nests (level : Z) (l : list token) : list Z :=
  match l with
  | [] => []
  | t :: r =>
    let lv := match typ t with T_LEFT_BRACE => (level + 1)%Z | T_RIGHT_BRACE => (level - 1)%Z | _ => level end in
    lv :: nests lv r
  end.

(* Parser.Trailing(): the leading comments of peekToken up to the first one that starts on a new line
   become the trailing comments of the current node, the rest stay leading comments *)
Fixpoint split_trailing (l : list comment) : list comment * list comment :=
  match l with
  | [] => ([], [])
  | c :: r => if cplf c then ([], l) else let (a, b) := split_trailing r in (c :: a, b)
  end.
