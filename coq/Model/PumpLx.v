(* Parser.ReadPeek exactly as the Go code runs it: on the LEXER (NextToken / PeekToken with the
   peek queue), not on a token list.  Proofs/PumpRefine.v shows that it delivers what
   Model/Pump.v delivers on the lexer's token list.  No proofs here. *)
From Coq Require Import List NArith ZArith Bool.
From Falco Require Import Base.Res Base.Bytes Base.Utf8 Gen.Tokens Model.Lex Model.Pump.
Import ListNotations.

Fixpoint skip_lf_lx (f n : nat) (st : lexer) (cnt : N) : res (N * lexer) :=
  match n with
  | O => OutOfFuel
  | S n' =>
    do (p, st1) <- peek_token f st;
    if is_type T_LF p then
      do (_, st2) <- next_token f st1; skip_lf_lx f n' st2 (cnt + 1)%N
    else OK (cnt, st1)
  end.

Fixpoint skip_pragma_lx (f n : nat) (st : lexer) : res lexer :=
  match n with
  | O => OutOfFuel
  | S n' =>
    do (t, st1) <- next_token f st;
    if is_type T_SEMICOLON t || is_type T_EOF t then OK st1
    else skip_pragma_lx f n' st1
  end.

Fixpoint read_peek_lx (f n : nat) (st : lexer) (level : Z)
         (lead : list comment) (lf : bool) (prev : N) : res (meta * lexer * Z) :=
  match n with
  | O => OutOfFuel
  | S n' =>
    do (t, st1) <- next_token f st;
    if is_type T_LF t then
      do (prev', st2) <- skip_lf_lx f n' st1 prev;
      read_peek_lx f n' st2 level lead true prev'
    else if is_type T_COMMENT t then
      read_peek_lx f n' st1 level (lead ++ [mkC t lf prev]) lf 0%N
    else if is_type T_FASTLY_CONTROL t then
      read_peek_lx f n' st1 level lead lf prev
    else if is_type T_PRAGMA t then
      do st2 <- skip_pragma_lx f n' st1;
      read_peek_lx f n' st2 level lead lf prev
    else
      let level' :=
        if is_type T_LEFT_BRACE t then (level + 1)%Z
        else if is_type T_RIGHT_BRACE t then (level - 1)%Z
        else level in
      OK (mkM t level' prev lead, st1, level')
  end.

Fixpoint pump_loop_lx (f outer inner : nat) (st : lexer) (level : Z) : res (list meta) :=
  match outer with
  | O => OutOfFuel
  | S o =>
    do (r, level') <- read_peek_lx f inner st level [] false 0%N;
    let '(m, st1) := r in
    if is_eof (mtok m) then OK [m]
    else match pump_loop_lx f o inner st1 level' with
         | OK ms => OK (m :: ms)
         | Err => Err | Crash => Crash | OutOfFuel => OutOfFuel
         end
  end.

(* lexer.New, parser.New ..., with the lexer fuel [f] for every NextToken and [k] ReadPeek steps *)
Definition pump_lx (f k : nat) (s : list byte) : res (list meta) :=
  pump_loop_lx f k k (init s) 0%Z.
