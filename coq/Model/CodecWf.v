(* Executable well-formedness checker for codec ASTs: the boolean mirror of the
   [wf_*] predicates of Proofs/CodecRT1.v (the hypothesis of the round-trip theorem).
   Extracted and run on every AST the real parser produces.  No proofs here. *)
From Coq Require Import List NArith ZArith Bool.
From Falco Require Import Base.Res Base.Bytes Base.Utf8 Model.CodecAst Model.Codec.
Import ListNotations.
Local Open Scope N_scope.

Definition wfb_str (s : str) : bool :=
  forallb valid_scalar s && (N.of_nat (length (enc_str s)) <? 65536).
Definition wfb_num (v : Z) (lit : str) : bool :=
  ((0 <=? v)%Z && (v <? 18446744073709551616)%Z)
  && (forallb valid_scalar lit && (N.of_nat (8 + length (enc_str lit)) <? 65536)).
Definition wfb_opt {A} (f : A -> bool) (o : option A) : bool :=
  match o with Some a => f a | None => true end.

Fixpoint wfb_expr (e : expr) : bool :=
  match e with
  | EIdent v | EString v | EIp v | ERTime v => wfb_str v
  | EBool _ => true
  | EInt v lit | EFloat v lit => wfb_num v lit
  | EGroup r => wfb_expr r
  | EInfix l op r => match l with Some l => wfb_expr l | None => true end && (wfb_str op && wfb_expr r)
  | EPostfix l op => wfb_expr l && wfb_str op
  | EPrefix op r => wfb_str op && wfb_expr r
  | EIfExp c t e => wfb_expr c && (wfb_expr t && wfb_expr e)
  | ECall f args =>
      wfb_str f && (fix go l := match l with [] => true | x :: xs => wfb_expr x && go xs end) args
  | EUnknown => false
  end.
Definition wfb_exprs (l : list expr) : bool :=
  (fix go l := match l with [] => true | x :: xs => wfb_expr x && go xs end) l.

Definition wfb_infix (i : infix) : bool :=
  let '(l, op, r) := i in
  match l with Some l => wfb_expr l | None => true end && (wfb_str op && wfb_expr r).
Definition wfb_oexpr (o : option expr) : bool := wfb_opt wfb_expr o.
Definition wfb_ostr (o : option str) : bool := wfb_opt wfb_str o.
Definition u64b (d : Z) : bool := (0 <=? d)%Z && (d <? 18446744073709551616)%Z.

Definition wfb_kv (kv : str * expr) : bool := wfb_str (fst kv) && wfb_expr (snd kv).
Fixpoint wfb_kvs (l : list (str * expr)) : bool :=
  match l with [] => true | x :: xs => wfb_kv x && wfb_kvs xs end.
Definition wfb_cidr (c : cidr) : bool :=
  let '(Cidr inv ip mask) := c in
  wfb_str ip && match mask with Some (v, lit) => wfb_num v lit | None => true end.
Fixpoint wfb_cidrs (l : list cidr) : bool :=
  match l with [] => true | x :: xs => wfb_cidr x && wfb_cidrs xs end.
Definition wfb_bprop (p : bprop) : bool :=
  match p with BProp k v => wfb_str k && wfb_expr v | BProbe k vs => wfb_str k && wfb_kvs vs end.
Fixpoint wfb_bprops (l : list bprop) : bool :=
  match l with [] => true | x :: xs => wfb_bprop x && wfb_bprops xs end.
Definition wfb_dprop (p : dprop) : bool :=
  match p with DProp k v => wfb_str k && wfb_expr v | DBackendObj vs => wfb_kvs vs end.
Fixpoint wfb_dprops (l : list dprop) : bool :=
  match l with [] => true | x :: xs => wfb_dprop x && wfb_dprops xs end.
Fixpoint wfb_tprops (l : list (str * expr)) : bool :=
  match l with [] => true | x :: xs => (wfb_str (fst x) && wfb_expr (snd x)) && wfb_tprops xs end.
Fixpoint wfb_params (l : list (str * str)) : bool :=
  match l with [] => true | x :: xs => (wfb_str (fst x) && wfb_str (snd x)) && wfb_params xs end.

(* `error;` without a code carries no argument *)
Definition err_shape (code arg : option expr) : bool :=
  match code, arg with None, Some _ => false | _, _ => true end.

Fixpoint wfb_stmt (s : stmt) : bool :=
  let wfb_block := fix go (l : list stmt) : bool :=
    match l with [] => true | x :: xs => wfb_stmt x && go xs end in
  match s with
  | SAdd id op v | SSet id op v => wfb_str id && (wfb_str op && wfb_expr v)
  | SBlock b => wfb_block b
  | SBreak | SEsi | SFallthrough | SRestart => true
  | SCall sub args => wfb_str sub && wfb_exprs args
  | SCase c => wfb_cas c
  | SDeclare name ty v => wfb_str name && (wfb_str ty && wfb_oexpr v)
  | SError code arg => wfb_oexpr code && (wfb_oexpr arg && err_shape code arg)
  | SFunCall f args => wfb_str f && wfb_exprs args
  | SGoto d | SGotoDest d | SImport d | SInclude d | SRemove d | SUnset d => wfb_str d
  | SIf i => wfb_ifs i
  | SLog v | SSynthetic v | SSyntheticB64 v => wfb_expr v
  | SReturn paren v => wfb_oexpr v
  | SSwitch ctl cases d =>
      wfb_expr ctl && ((fix go l := match l with [] => true | x :: xs => wfb_cas x && go xs end) cases && u64b d)
  | DAcl name cidrs => wfb_str name && wfb_cidrs cidrs
  | DBackend name props => wfb_str name && wfb_bprops props
  | DDirector name ty props => wfb_str name && (wfb_str ty && wfb_dprops props)
  | DPenaltybox name | DRatecounter name => wfb_str name
  | DSub name params ret b => wfb_str name && (wfb_params params && (wfb_ostr ret && wfb_block b))
  | DTable name ty props => wfb_str name && (wfb_ostr ty && wfb_tprops props)
  | SUnknownStmt => false
  end
with wfb_ifs (i : ifs) : bool :=
  let wfb_block := fix go (l : list stmt) : bool :=
    match l with [] => true | x :: xs => wfb_stmt x && go xs end in
  match i with
  | IfS kw c csq another alt =>
      wfb_str kw && (wfb_expr c && (wfb_block csq
      && ((fix go l := match l with [] => true | x :: xs => wfb_ifs x && go xs end) another
      && match alt with Some b => wfb_block b | None => true end)))
  end
with wfb_cas (c : cas) : bool :=
  let wfb_block := fix go (l : list stmt) : bool :=
    match l with [] => true | x :: xs => wfb_stmt x && go xs end in
  match c with
  | Cas test b ft => match test with Some i => wfb_infix i | None => true end && wfb_block b
  end.

Definition wfb_block : list stmt -> bool :=
  fix go (l : list stmt) : bool := match l with [] => true | x :: xs => wfb_stmt x && go xs end.
Definition wfb_anothers : list ifs -> bool :=
  fix go l := match l with [] => true | x :: xs => wfb_ifs x && go xs end.
Definition wfb_cases : list cas -> bool :=
  fix go l := match l with [] => true | x :: xs => wfb_cas x && go xs end.
