(* C11 - include expansion of the linter.
   Mirrors linter/linter.go resolveIncludeStatements / resolveFileInclusion (the repaired code:
   commit "fix: linter expands a self- or mutually-including module forever") together with
   resolver/file.go Resolve (a module file is found or not).

   A module file is identified by a number (the resolved file name module.Name).  A parsed file
   is a list of items: a statement that is not an include (kept, identified by a tag), or an
   `include "<m>";`.  The Go recursion
       resolveIncludeStatements -> resolveFileInclusion -> resolveIncludeStatements
   is recursion on explicit fuel: one unit per nested resolveIncludeStatements call.  The loop
   over the statements of one file is structural. *)
From Coq Require Import List Arith Bool.
From Falco Require Import Base.Res.
Import ListNotations.

Inductive item : Type :=
| Stmt (tag : nat)        (* any statement other than include: appended unchanged *)
| Inc (target : nat)      (* include "<target>"; *)
| Blk (body : list item). (* a statement with a nested block (if / switch / { }): the includes inside are
                             expanded only when that block is linted (lintBlockStatement); since commit "fix: a
                             statement-level module that includes itself inside a nested block ..." this happens
                             under the include stack of the module the statement was taken from, which is what
                             the model does by expanding the block in place under the current stack *)

Inductive modfile : Type :=
| Missing                  (* Resolve returns an error: no such file in any include path *)
| Broken                   (* file exists, loadVCL fails to parse: FatalError set, no statements *)
| Loaded (body : list item).

Definition modgraph := nat -> modfile.

(* what the expansion appends / reports, in order *)
Inductive ev : Type :=
| EStmt (tag : nat)
| EMissing (target : nat)   (* include/module-load-failed: "Failed to resolve include file" *)
| ECycle (target : nat)     (* include/module-load-failed: "Cyclic include detected" (the repair) *)
| EFatal (target : nat).    (* l.FatalError set by loadVCL *)

Definition memn (x : nat) (l : list nat) : bool := existsb (Nat.eqb x) l.

(* the statements of one list, in order *)
Definition seq_items (goi : item -> res (list ev)) : list item -> res (list ev) :=
  fix gol (l : list item) : res (list ev) :=
    match l with
    | [] => OK []
    | x :: r => do a <- goi x; do c <- gol r; OK (a ++ c)
    end.

(* the repaired expansion: [stack] = l.includeStack *)
Fixpoint resolve (fuel : nat) (g : modgraph) (stack : list nat) (items : list item) {struct fuel}
  : res (list ev) :=
  match fuel with
  | O => OutOfFuel
  | S f =>
    seq_items
      (fix goi (it : item) : res (list ev) :=
         match it with
         | Stmt t => OK [EStmt t]
         | Inc m =>
           match g m with
           | Missing => OK [EMissing m]
           | Broken => if memn m stack then OK [ECycle m] else OK [EFatal m]
           | Loaded b => if memn m stack then OK [ECycle m] else resolve f g (m :: stack) b
           end
         | Blk b => seq_items goi b
         end) items
  end.

(* the code before the repairs: no stack *)
Fixpoint resolve_unrepaired (fuel : nat) (g : modgraph) (items : list item) {struct fuel}
  : res (list ev) :=
  match fuel with
  | O => OutOfFuel
  | S f =>
    seq_items
      (fix goi (it : item) : res (list ev) :=
         match it with
         | Stmt t => OK [EStmt t]
         | Inc m =>
           match g m with
           | Missing => OK [EMissing m]
           | Broken => OK [EFatal m]
           | Loaded b => resolve_unrepaired f g b
           end
         | Blk b => seq_items goi b
         end) items
  end.

(* a module graph given as a finite table (what the harness sends); absent = Missing *)
Fixpoint lookup_mod (tbl : list (nat * modfile)) (m : nat) : modfile :=
  match tbl with
  | [] => Missing
  | (k, v) :: r => if Nat.eqb k m then v else lookup_mod r m
  end.

(* the fuel the totality theorem names: number of module files + 1 *)
Definition resolve_table (tbl : list (nat * modfile)) (main : list item) : res (list ev) :=
  resolve (S (length tbl)) (lookup_mod tbl) [] main.
