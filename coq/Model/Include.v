(* C11 - include expansion of the linter.
   Mirrors linter/linter.go resolveIncludeStatements / resolveFileInclusion (the repaired code:
   commit "fix: linter expands a self- or mutually-including module forever") together with
   resolver/file.go Resolve (a module file is found or not).

   A module file is identified by a number (the resolved file name module.Name).  A parsed file
   is a list of items: a statement that is not an include (kept, identified by a tag), or an
   `include "<m>";`.  The Go recursion
       resolveIncludeStatements -> resolveFileInclusion -> resolveIncludeStatements
   is recursion on explicit fuel: one unit per nested resolveIncludeStatements call.  The loop
   over the statements of one file is structural. *)
From Coq Require Import List Arith Bool.
From Falco Require Import Base.Res.
Import ListNotations.

Inductive item : Type :=
| Stmt (tag : nat)        (* any statement other than include: appended unchanged *)
| Inc (target : nat).     (* include "<target>"; *)

Inductive modfile : Type :=
| Missing                  (* Resolve returns an error: no such file in any include path *)
| Broken                   (* file exists, loadVCL fails to parse: FatalError set, no statements *)
| Loaded (body : list item).

Definition modgraph := nat -> modfile.

(* what the expansion appends / reports, in order *)
Inductive ev : Type :=
| EStmt (tag : nat)
| EMissing (target : nat)   (* include/module-load-failed: "Failed to resolve include file" *)
| ECycle (target : nat)     (* include/module-load-failed: "Cyclic include detected" (the repair) *)
| EFatal (target : nat).    (* l.FatalError set by loadVCL *)

Definition memn (x : nat) (l : list nat) : bool := existsb (Nat.eqb x) l.

(* the repaired expansion: [stack] = l.includeStack *)
Fixpoint resolve (fuel : nat) (g : modgraph) (stack : list nat) (items : list item) {struct fuel}
  : res (list ev) :=
  match fuel with
  | O => OutOfFuel
  | S f =>
    (fix go (items : list item) : res (list ev) :=
       match items with
       | [] => OK []
       | Stmt t :: r => do rest <- go r; OK (EStmt t :: rest)
       | Inc m :: r =>
         do here <- match g m with
                    | Missing => OK [EMissing m]
                    | Broken => if memn m stack then OK [ECycle m] else OK [EFatal m]
                    | Loaded b => if memn m stack then OK [ECycle m] else resolve f g (m :: stack) b
                    end;
         do rest <- go r; OK (here ++ rest)
       end) items
  end.

(* the code before the repair: no stack *)
Fixpoint resolve_unrepaired (fuel : nat) (g : modgraph) (items : list item) {struct fuel}
  : res (list ev) :=
  match fuel with
  | O => OutOfFuel
  | S f =>
    (fix go (items : list item) : res (list ev) :=
       match items with
       | [] => OK []
       | Stmt t :: r => do rest <- go r; OK (EStmt t :: rest)
       | Inc m :: r =>
         do here <- match g m with
                    | Missing => OK [EMissing m]
                    | Broken => OK [EFatal m]
                    | Loaded b => resolve_unrepaired f g b
                    end;
         do rest <- go r; OK (here ++ rest)
       end) items
  end.

(* a module graph given as a finite table (what the harness sends); absent = Missing *)
Fixpoint lookup_mod (tbl : list (nat * modfile)) (m : nat) : modfile :=
  match tbl with
  | [] => Missing
  | (k, v) :: r => if Nat.eqb k m then v else lookup_mod r m
  end.

(* the fuel the totality theorem names: number of module files + 1 *)
Definition resolve_table (tbl : list (nat * modfile)) (main : list item) : res (list ev) :=
  resolve (S (length tbl)) (lookup_mod tbl) [] main.
