(* C08 - interpreter/include.go resolveIncludeStatement (repaired: with the stack of modules whose
   expansion is in progress).  A module is a list of items: an include of a module (by number) or
   any other statement.  The Go function recurses into the included module; the recursion is
   modelled with fuel in the shape of the code, and Proofs/IncludeProofs.v shows that
   (number of modules + 1) units always suffice - a module that includes itself, directly or
   through others, ends in the "recursive include" error.  [resolve_old] is the function of the
   unchanged tree (no stack): it runs out of any fuel on a self-including module, which is how the
   stack overflow shows up.  No proofs in this file. *)
(* MODULE IDENTITY: a module number stands for an INCLUDE STRING AS WRITTEN (include.Module.Value), which is what the
   interpreter's recursion guard compares - not for the file or source the resolver returns.  Under the file resolver
   several strings designate one file ("m", "m.vcl", "sub/m", "m" through an include path): each spelling is its own
   module here, with the same body.  A cycle through different spellings of one file is therefore cut one level later
   than a cycle through one spelling, and still within fuel = number of spellings + 1 (include_total).  The tie
   (checks/c08.py run_include_resolvers) runs the same graphs through the in-memory resolver, a stub resolver whose
   source name differs from the include string, resolver.NewFileResolvers on files on disk and the falco test process. *)
From Coq Require Import List Arith Bool.
From Falco Require Import Base.Res.
Import ListNotations.

Inductive item := IInclude (m : nat) | IStmt (tag : nat).

Definition modules := list (list item).

Fixpoint mem (n : nat) (l : list nat) : bool :=
  match l with [] => false | x :: t => (x =? n) || mem n t end.

Fixpoint resolve (fuel : nat) (mods : modules) (including : list nat) (ss : list item) {struct fuel}
  : res (list nat) :=
  match fuel with
  | O => OutOfFuel
  | S k =>
      (fix go (ss : list item) : res (list nat) :=
         match ss with
         | [] => OK []
         | IStmt t :: rest => match go rest with OK out => OK (t :: out) | e => e end
         | IInclude m :: rest =>
             if mem m including then Err                                   (* recursive include *)
             else match nth_error mods m with
                  | None => Err                                            (* module not found *)
                  | Some body =>
                      match resolve k mods (m :: including) body with
                      | OK inner => match go rest with OK out => OK (inner ++ out) | e => e end
                      | e => e
                      end
                  end
         end) ss
  end.

(* the unchanged tree *)
Fixpoint resolve_old (fuel : nat) (mods : modules) (ss : list item) {struct fuel} : res (list nat) :=
  match fuel with
  | O => OutOfFuel
  | S k =>
      (fix go (ss : list item) : res (list nat) :=
         match ss with
         | [] => OK []
         | IStmt t :: rest => match go rest with OK out => OK (t :: out) | e => e end
         | IInclude m :: rest =>
             match nth_error mods m with
             | None => Err
             | Some body =>
                 match resolve_old k mods body with
                 | OK inner => match go rest with OK out => OK (inner ++ out) | e => e end
                 | e => e
                 end
             end
         end) ss
  end.
