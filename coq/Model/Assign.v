(* C07/C08 - the fifteen assignment operators (interpreter/assign/*.go, dispatched by
   interpreter/variable/variable.go doAssign and interpreter/variable/local.go Set), transcribed
   case by case from the (repaired) Go code.  The Go functions update the left value in place and
   may return an error AFTER updating it (division by zero sets IsNAN), so the result carries the
   left value in both cases.  [ACrash] marks the points where the Go code can panic: on the
   repaired tree there is none left (Props/C08.v ops_total); Model/AssignOld.v keeps the
   faulting versions for the refutation theorems.  [parse_ip] (net.ParseIP) is an oracle
   parameter: the harness supplies the answers Go obtained.  No proofs in this file. *)
From Coq Require Import List NArith ZArith Bool Floats.SpecFloat.
From Falco Require Import Base.Res Base.Bytes Model.Float Model.Acl Model.Val.
Import ListNotations.
Local Open Scope Z_scope.

Inductive ares :=
| AOk (v : val)        (* nil error; the left value is now v *)
| AErr (v : val)       (* an error was returned; the left value is now v *)
| ACrash.              (* Go runtime panic *)

(* continue with the result of a Go primitive that can panic *)
Definition lift (r : res Z) (k : Z -> ares) : ares :=
  match r with OK v => k v | _ => ACrash end.

Inductive aop :=
| OpSet | OpAdd | OpSub | OpMul | OpDiv | OpRem | OpOr | OpAnd | OpXor
| OpShl | OpShr | OpRol | OpRor | OpLOr | OpLAnd.

Definition all_aops : list aop :=
  [OpSet; OpAdd; OpSub; OpMul; OpDiv; OpRem; OpOr; OpAnd; OpXor; OpShl; OpShr; OpRol; OpRor; OpLOr; OpLAnd].

Section WithOracle.
Variable parse_ip : str -> option addr.

(* ------------------------------------------------------------------ "=" (assign.Assign) *)
Definition assign_set (l : val) (r : operand) : ares :=
  let lit := olit r in
  match l, oval r with
  (* INTEGER *)
  | VInt _ _ _ _, VInt v n ni pi => AOk (VInt v n ni pi)
  | VInt _ _ _ _, VFloat f n ni pi => if lit then AErr l else AOk (VInt (f_to_int f) n ni pi)
  | VInt _ n ni pi, VRTime ns =>
      if lit then AErr l
      else if is_pinf (dur_seconds ns) then AOk (VInt 0 n ni true)
      else AOk (VInt (f_to_int (dur_seconds ns)) n ni pi)
  | VInt _ n ni pi, VTime ext _ oob => AOk (VInt (if oob then 0 else time_unix_sec ext) n ni pi)
  (* FLOAT *)
  | VFloat _ _ _ _, VInt v n ni pi => AOk (VFloat (f_of_int v) n ni pi)
  | VFloat _ _ _ _, VFloat f n ni pi => AOk (VFloat f n ni pi)
  | VFloat _ n ni pi, VRTime ns =>
      if lit then AErr l
      else if is_pinf (dur_seconds ns) then AOk (VFloat fzero n ni true)
      else AOk (VFloat (dur_seconds ns) n ni pi)
  | VFloat _ n ni pi, VTime ext _ oob => AOk (VFloat (if oob then fzero else f_of_int (time_unix_sec ext)) n ni pi)
  (* STRING *)
  | VStr _ _, VStr s ns => AOk (VStr s ns)
  | VStr _ _, VInt v n ni pi => if lit then AErr l else AOk (VStr (int_string v n ni pi) false)
  | VStr _ _, VFloat f n ni pi => if lit then AErr l else AOk (VStr (float_string f n ni pi) false)
  | VStr _ _, VRTime ns => if lit then AErr l else AOk (VStr (rtime_string ns) false)
  | VStr _ _, VTime ext _ _ => AOk (VStr (http_time ext) false)
  | VStr _ _, VBackend b => if lit then AErr l else AOk (VStr (string_of (VBackend b)) false)
  | VStr _ _, VBool b => AOk (VStr (bool_string b) false)
  | VStr _ _, VIp a ns => AOk (VStr (if ns then [] else addr_string a) ns)
  (* RTIME *)
  | VRTime _, VInt v _ _ _ => if lit then AErr l else AOk (VRTime (wrap64 (v * Second)))
  (* KNOWN FINDING (known_findings.txt, Props/C07.v rtime_set_float_refuted): the FLOAT is taken as
     nanoseconds, not seconds; the repository's own test pins this, so it is recorded, not repaired *)
  | VRTime _, VFloat f _ _ _ => if lit then AErr l else AOk (VRTime (f_to_int f))
  | VRTime _, VRTime ns => AOk (VRTime ns)
  | VRTime _, VTime ext _ _ => AOk (VRTime (time_unix_sec ext))
  (* TIME *)
  | VTime _ _ oob, VInt v _ _ _ => if lit then AErr l else AOk (VTime (time_of_unix v) 0 oob)
  | VTime _ _ oob, VFloat f _ _ _ => if lit then AErr l else AOk (VTime (time_of_unix (f_to_int f)) 0 oob)
  | VTime _ _ oob, VRTime ns => AOk (VTime (time_of_unix (f_to_int (dur_seconds ns))) 0 oob)
  | VTime _ _ oob, VTime ext nsec _ => AOk (VTime ext nsec oob)
  (* BACKEND, BOOL *)
  | VBackend _, VBackend b => AOk (VBackend b)
  | VBool _, VBool b => AOk (VBool b)
  (* IP *)
  | VIp _ _, VStr s _ =>
      match parse_ip s with
      | Some a => AOk (VIp (Some a) false)
      | None => if lit then AErr l else AOk (VIp None true)
      end
  | VIp _ _, VIp a ns => AOk (VIp a ns)
  (* ACL = ACL: the local now designates the other declaration *)
  | VAcl _ _, VAcl n es => AOk (VAcl n es)
  | _, _ => AErr l
  end.

(* ------------------------------------------------------------------ "+=" *)
Definition addition (l : val) (r : operand) : ares :=
  let lit := olit r in
  match l, oval r with
  | VInt a n ni pi, VInt b _ rni rpi =>
      if rpi then AOk (VInt max64 n ni true)
      else if rni then AOk (VInt min64 n true pi)
      else AOk (VInt (wrap64 (a + b)) n ni pi)
  | VInt a n ni pi, VFloat f _ rni rpi =>
      if lit then AErr l
      else if rpi || is_pinf (fadd (f_of_int a) f) then AOk (VInt max64 n ni true)
      else if rni || is_ninf (fadd (f_of_int a) f) then AOk (VInt min64 n true pi)
      else AOk (VInt (wrap64 (a + f_to_int f)) n ni pi)
  | VInt a n ni pi, VRTime ns =>
      if lit then AErr l
      else if is_pinf (fadd (f_of_int a) (dur_seconds ns)) then AOk (VInt max64 n ni true)
      else AOk (VInt (wrap64 (a + f_to_int (dur_seconds ns))) n ni pi)
  | VInt a n ni pi, VTime ext _ _ =>
      if max64 <=? wrap64 (a + time_unix_sec ext) then AOk (VInt max64 n ni true)
      else AOk (VInt (wrap64 (a + time_unix_sec ext)) n ni pi)
  | VFloat a n ni pi, VInt b _ rni rpi =>
      if rpi || is_pinf (fadd a (f_of_int b)) then AOk (VFloat max_float n ni true)
      else if rni || is_ninf (fadd a (f_of_int b)) then AOk (VFloat min_float n true pi)
      else AOk (VFloat (fadd a (f_of_int b)) n ni pi)
  | VFloat a n ni pi, VFloat b _ rni rpi =>
      if rpi || is_pinf (fadd a b) then AOk (VFloat max_float n ni true)
      else if rni || is_ninf (fadd a b) then AOk (VFloat min_float n true pi)
      else AOk (VFloat (fadd a b) n ni pi)
  | VFloat a n ni pi, VRTime ns =>
      if lit then AErr l
      else if is_pinf (fadd a (dur_seconds ns)) then AOk (VFloat max_float n ni true)
      else AOk (VFloat (fadd a (dur_seconds ns)) n ni pi)
  | VFloat a n ni pi, VTime ext _ _ =>
      if is_pinf (fadd a (f_of_int (time_unix_sec ext))) then AOk (VFloat max_float n ni true)
      else AOk (VFloat (fadd a (f_of_int (time_unix_sec ext))) n ni pi)
  | VRTime a, VInt b _ _ _ => if lit then AErr l else AOk (VRTime (wrap64 (a + wrap64 (b * Second))))
  | VRTime a, VFloat f _ _ _ => if lit then AErr l else AOk (VRTime (wrap64 (a + f_to_int (fmul f (f_of_int Second)))))
  | VRTime a, VRTime b => AOk (VRTime (wrap64 (a + b)))
  | VRTime a, VTime ext _ _ => AOk (VRTime (wrap64 (a + time_unix_sec ext)))
  | VTime ext nsec oob, VInt b _ _ _ =>
      if lit then AErr l
      else let '(e, ns) := time_add ext nsec (wrap64 (b * Second)) in AOk (VTime e ns oob)
  | VTime ext nsec oob, VFloat f _ _ _ =>
      if lit then AErr l
      else if is_pinf (fadd (f_of_int (time_unix_sec ext)) f) then AOk (VTime ext nsec true)
      else let '(e, ns) := time_add ext nsec (wrap64 (f_to_int f * Second)) in AOk (VTime e ns oob)
  | VTime ext nsec oob, VRTime d => let '(e, ns) := time_add ext nsec d in AOk (VTime e ns oob)
  | VStr s ns, v => AOk (VStr (s ++ string_of v) ns)
  | _, _ => AErr l
  end.

(* ------------------------------------------------------------------ "-=" *)
Definition subtraction (l : val) (r : operand) : ares :=
  let lit := olit r in
  match l, oval r with
  | VInt a n ni pi, VInt b _ rni rpi =>
      if rpi then AOk (VInt max64 n ni true)
      else if rni then AOk (VInt min64 n true pi)
      else AOk (VInt (wrap64 (a - b)) n ni pi)
  | VInt a n ni pi, VFloat f _ rni rpi =>
      if lit then AErr l
      else if rpi || is_pinf (fadd (f_of_int a) f) then AOk (VInt max64 n ni true)
      else if rni || is_ninf (fadd (f_of_int a) f) then AOk (VInt min64 n true pi)
      else AOk (VInt (wrap64 (a - f_to_int f)) n ni pi)
  | VInt a n ni pi, VRTime ns =>
      if lit then AErr l
      else if is_ninf (fsub (f_of_int a) (dur_seconds ns)) then AOk (VInt min64 n true pi)
      else AOk (VInt (wrap64 (a - f_to_int (dur_seconds ns))) n ni pi)
  | VInt a n ni pi, VTime ext _ _ => AOk (VInt (wrap64 (a - time_unix_sec ext)) n ni pi)
  | VFloat a n ni pi, VInt b _ rni rpi =>
      if rpi || is_pinf (fadd a (f_of_int b)) then AOk (VFloat max_float n ni true)
      else if rni || is_ninf (fadd a (f_of_int b)) then AOk (VFloat min_float n true pi)
      else AOk (VFloat (fsub a (f_of_int b)) n ni pi)
  | VFloat a n ni pi, VFloat b _ rni rpi =>
      if rpi || is_pinf (fadd a b) then AOk (VFloat max_float n ni true)
      else if rni || is_ninf (fadd a b) then AOk (VFloat min_float n true pi)
      else AOk (VFloat (fsub a b) n ni pi)
  | VFloat a n ni pi, VRTime ns =>
      if lit then AErr l
      else if is_ninf (fsub a (dur_seconds ns)) then AOk (VFloat min_float n true pi)
      else AOk (VFloat (fsub a (dur_seconds ns)) n ni pi)
  | VFloat a n ni pi, VTime ext _ _ =>
      if is_ninf (fsub a (f_of_int (time_unix_sec ext))) then AOk (VFloat min_float n true pi)
      else AOk (VFloat (fsub a (f_of_int (time_unix_sec ext))) n ni pi)
  | VRTime a, VInt b _ _ _ => if lit then AErr l else AOk (VRTime (wrap64 (a - wrap64 (b * Second))))
  | VRTime a, VFloat f _ _ _ => if lit then AErr l else AOk (VRTime (wrap64 (a - f_to_int (fmul f (f_of_int Second)))))
  | VRTime a, VRTime b => AOk (VRTime (wrap64 (a - b)))
  | VRTime a, VTime ext _ _ => AOk (VRTime (wrap64 (a - time_unix_sec ext)))
  | VTime ext nsec oob, VInt b _ _ _ =>
      if lit then AErr l
      else let '(e, ns) := time_add ext nsec (wrap64 (- wrap64 (b * Second))) in AOk (VTime e ns oob)
  | VTime ext nsec oob, VFloat f _ _ _ =>
      if lit then AErr l
      else if is_ninf (fsub (f_of_int (time_unix_sec ext)) f) then AOk (VTime ext nsec true)
      else let '(e, ns) := time_add ext nsec (wrap64 (- wrap64 (f_to_int f * Second))) in AOk (VTime e ns oob)
  | VTime ext nsec oob, VRTime d => let '(e, ns) := time_add ext nsec (wrap64 (- d)) in AOk (VTime e ns oob)
  | _, _ => AErr l
  end.

(* ------------------------------------------------------------------ "*=" *)
Definition multiplication (l : val) (r : operand) : ares :=
  let lit := olit r in
  match l, oval r with
  | VInt a n ni pi, VInt b _ rni rpi =>
      if rpi then AOk (VInt max64 n ni true)
      else if rni then AOk (VInt min64 n true pi)
      else AOk (VInt (wrap64 (a * b)) n ni pi)
  | VInt a n ni pi, VFloat f _ rni rpi =>
      if lit then AErr l
      else if rpi || is_pinf (fmul (f_of_int a) f) then AOk (VInt max64 n ni true)
      else if rni || is_ninf (fmul (f_of_int a) f) then AOk (VInt min64 n true pi)
      else AOk (VInt (f_to_int (fmul (f_of_int a) f)) n ni pi)
  | VFloat a n ni pi, VInt b _ rni rpi =>
      if rpi || is_pinf (fmul a (f_of_int b)) then AOk (VFloat f_max_int n ni true)
      else if rni || is_ninf (fmul a (f_of_int b)) then AOk (VFloat f_min_int n true pi)
      else AOk (VFloat (fmul a (f_of_int b)) n ni pi)
  | VFloat a n ni pi, VFloat b _ rni rpi =>
      if rpi || is_pinf (fmul a b) then AOk (VFloat f_max_int n ni true)
      else if rni || is_ninf (fmul a b) then AOk (VFloat f_min_int n true pi)
      else AOk (VFloat (fmul a b) n ni pi)
  | VRTime a, VInt b _ _ _ => AOk (VRTime (wrap64 (a * b)))
  | VRTime a, VFloat f _ _ _ => AOk (VRTime (f_to_int (fmul (f_of_int a) f)))
  | _, _ => AErr l
  end.

(* ------------------------------------------------------------------ "/=" *)
Definition division (l : val) (r : operand) : ares :=
  let lit := olit r in
  match l, oval r with
  | VInt a n ni pi, VInt b _ rni rpi =>
      if b =? 0 then AErr (VInt a true ni pi)
      else if rpi then AOk (VInt max64 n ni true)
      else if rni then AOk (VInt min64 n true pi)
      else lift (godiv a b) (fun q => AOk (VInt q n ni pi))
  | VInt a n ni pi, VFloat f _ rni rpi =>
      if lit then AErr l
      else if is_fzero f then AErr (VInt a true ni pi)
      else if rpi || is_pinf (fdiv (f_of_int a) f) then AOk (VInt max64 n ni true)
      else if rni || is_ninf (fdiv (f_of_int a) f) then AOk (VInt min64 n true pi)
      else AOk (VInt (f_to_int (fdiv (f_of_int a) f)) n ni pi)
  | VFloat a n ni pi, VInt b _ rni rpi =>
      if b =? 0 then AErr (VFloat a true ni pi)
      else if rpi || is_pinf (fdiv a (f_of_int b)) then AOk (VFloat max_float n ni true)
      else if rni || is_ninf (fdiv a (f_of_int b)) then AOk (VFloat min_float n true pi)
      else AOk (VFloat (fdiv a (f_of_int b)) n ni pi)
  | VFloat a n ni pi, VFloat b _ rni rpi =>
      if is_fzero b then AErr (VFloat a true ni pi)
      else if rpi || is_pinf (fdiv a b) then AOk (VFloat max_float n ni true)
      else if rni || is_ninf (fdiv a b) then AOk (VFloat min_float n true pi)
      else AOk (VFloat (fdiv a b) n ni pi)
  | VRTime a, VInt b _ _ _ => if b =? 0 then AErr l else lift (godiv a b) (fun q => AOk (VRTime q))
  | VRTime a, VFloat f _ _ _ => if is_fzero f then AErr l else AOk (VRTime (f_to_int (fdiv (f_of_int a) f)))
  | _, _ => AErr l
  end.

(* ------------------------------------------------------------------ "%=" *)
Definition remainder (l : val) (r : operand) : ares :=
  let lit := olit r in
  match l, oval r with
  | VInt a n ni pi, VInt b _ rni rpi =>
      if pi || rpi then AOk (VInt 0 n ni true)
      else if ni || rni then AOk (VInt 0 n true pi)
      else if b =? 0 then AErr (VInt a true ni pi)
      else lift (gorem a b) (fun q => AOk (VInt q n ni pi))
  | VInt a n ni pi, VFloat f _ rni rpi =>
      if lit then AErr l
      else if pi || rpi then AOk (VInt 0 n ni true)
      else if ni || rni then AOk (VInt 0 n true pi)
      else if f_to_int f =? 0 then AErr (VInt a true ni pi)
      else lift (gorem a (f_to_int f)) (fun q => AOk (VInt q n ni pi))
  | VFloat a n ni pi, VInt b _ rni rpi =>
      if pi || rpi then AOk (VFloat fzero n ni true)
      else if ni || rni then AOk (VFloat fzero n true pi)
      else if b =? 0 then AErr (VFloat a true ni pi)
      else lift (gorem (f_to_int a) b) (fun q => AOk (VFloat (f_of_int q) n ni pi))
  | VFloat a n ni pi, VFloat b _ rni rpi =>
      if pi || rpi then AOk (VFloat fzero n ni true)
      else if ni || rni then AOk (VFloat fzero n true pi)
      else if f_to_int b =? 0 then AErr (VFloat a true ni pi)
      else lift (gorem (f_to_int a) (f_to_int b)) (fun q => AOk (VFloat (f_of_int q) n ni pi))
  | VRTime a, VInt b _ _ _ =>
      if wrap64 (b * Second) =? 0 then AErr l else lift (gorem a (wrap64 (b * Second))) (fun q => AOk (VRTime q))
  | VRTime a, VFloat f _ _ _ =>
      if f_to_int (fmul f (f_of_int Second)) =? 0 then AErr l
      else lift (gorem a (f_to_int (fmul f (f_of_int Second)))) (fun q => AOk (VRTime q))
  | _, _ => AErr l
  end.

(* ------------------------------------------------------------------ bitwise, shifts, rotates, logical *)
Definition int_binop (f : Z -> Z -> res Z) (l : val) (r : operand) : ares :=
  match l, oval r with
  | VInt a n ni pi, VInt b _ _ _ =>
      match f a b with
      | OK v => AOk (VInt v n ni pi)
      | Err => AErr l
      | _ => ACrash
      end
  | _, _ => AErr l
  end.

Definition bit_or := int_binop (fun a b => OK (Z.lor a b)).
Definition bit_and := int_binop (fun a b => OK (Z.land a b)).
Definition bit_xor := int_binop (fun a b => OK (Z.lxor a b)).
(* a negative count is a runtime error (it was a Go panic before the repair) *)
Definition shift_left := int_binop (fun a b => if b <? 0 then Err else goshl a b).
Definition shift_right := int_binop (fun a b => if b <? 0 then Err else goshr a b).
(* rotation of the 64-bit pattern by the count modulo 64 *)
Definition rotate_left := int_binop (fun a b => if b <? 0 then Err else OK (rotl64 a (b mod 64))).
Definition rotate_right := int_binop (fun a b => if b <? 0 then Err else OK (rotl64 a ((64 - b mod 64) mod 64))).

Definition bool_binop (f : bool -> bool -> bool) (l : val) (r : operand) : ares :=
  match l, oval r with
  | VBool a, VBool b => AOk (VBool (f a b))
  | _, _ => AErr l
  end.

(* ------------------------------------------------------------------ doAssign *)
Definition assign (op : aop) (l : val) (r : operand) : ares :=
  match op with
  | OpSet => assign_set l r
  | OpAdd => addition l r
  | OpSub => subtraction l r
  | OpMul => multiplication l r
  | OpDiv => division l r
  | OpRem => remainder l r
  | OpOr => bit_or l r
  | OpAnd => bit_and l r
  | OpXor => bit_xor l r
  | OpShl => shift_left l r
  | OpShr => shift_right l r
  | OpRol => rotate_left l r
  | OpRor => rotate_right l r
  | OpLOr => bool_binop orb l r
  | OpLAnd => bool_binop andb l r
  end.

(* LocalVariables.Set: after a successful assignment a local STRING is always "set" *)
Definition local_set (op : aop) (l : val) (r : operand) : ares :=
  match assign op l r with
  | AOk (VStr s _) => AOk (VStr s false)
  | x => x
  end.

End WithOracle.
