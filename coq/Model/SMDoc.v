(* The DOCUMENTED request state machine (C06), written from the Fastly VCL lifecycle
   (recv -> hash -> (hit | miss | pass) -> fetch -> deliver -> log; `error` enters vcl_error,
   then deliver; `restart` re-enters vcl_recv) and the per-subroutine return states of the
   Fastly reference (the linter's `expects` lists, Gen.SMConst.lint_expects, are the in-repo copy).
   Independent of the Go code: Model/SM.v does not use it.  No proofs here. *)
From Coq Require Import List Bool Arith ZArith NArith.
From Falco Require Import Base.Res Base.SMBase Gen.SMConst Model.SM.
Import ListNotations.

Inductive target :=
| TGo (n : dnode)   (* the named subroutine runs next *)
| TLookup           (* cache lookup: vcl_hit if an unexpired object is stored under the hash, else vcl_miss *)
| TRestart          (* vcl_recv again with req.restarts + 1 (refused beyond the limit) *)
| TEnd.             (* the request is complete *)

Definition doc_next (n : dnode) (a : action) : option target :=
  match n, a with
  | DRecv, (ANone | AAbsent | ARet SLookup) => Some (TGo DHashL)
  | DRecv, ARet SPass => Some (TGo DHashP)
  | DRecv, (ARet SError | AErrorStmt) => Some (TGo DError)
  | DRecv, (ARet SRestart | ARestartStmt) => Some TRestart
  | DHashL, (ANone | AAbsent | ARet SHash) => Some TLookup
  | DHashP, (ANone | AAbsent | ARet SHash) => Some (TGo DPass)
  | DHit, (ANone | AAbsent | ARet SDeliver) => Some (TGo DDeliver)
  | DHit, ARet SPass => Some (TGo DPass)
  | DHit, (ARet SError | AErrorStmt) => Some (TGo DError)
  | DHit, (ARet SRestart | ARestartStmt) => Some TRestart
  | DMiss, (ANone | AAbsent | ARet SFetch) => Some (TGo DFetch)
  | DMiss, ARet SDeliverStale => Some (TGo DDeliver)
  | DMiss, ARet SPass => Some (TGo DPass)
  | DMiss, (ARet SError | AErrorStmt) => Some (TGo DError)
  | DPass, (ANone | AAbsent | ARet SPass) => Some (TGo DFetch)
  | DPass, (ARet SError | AErrorStmt) => Some (TGo DError)
  | DFetch, (ANone | AAbsent | ARet SDeliver | ARet SDeliverStale | ARet SHitForPass | ARet SPass) => Some (TGo DDeliver)
  | DFetch, (ARet SError | AErrorStmt) => Some (TGo DError)
  | DFetch, (ARet SRestart | ARestartStmt) => Some TRestart
  | DError, (ANone | AAbsent | ARet SDeliver | ARet SDeliverStale) => Some (TGo DDeliver)
  | DError, (ARet SRestart | ARestartStmt) => Some TRestart
  | DDeliver, (ANone | AAbsent | ARet SDeliver) => Some (TGo DLog)
  | DDeliver, (ARet SRestart | ARestartStmt) => Some TRestart
  | DLog, (ANone | AAbsent | ARet SDeliver) => Some TEnd
  | _, _ => None
  end.

(* [n'] may come directly after a step whose documented target is [t] *)
Definition follows (t : target) (n' : dnode) : Prop :=
  match t with
  | TGo m => n' = m
  | TLookup => n' = DHit \/ n' = DMiss
  | TRestart => n' = DRecv
  | TEnd => False
  end.

(* two consecutive entries of a flow *)
Definition link (e1 e2 : event) : Prop :=
  let '(n1, r1, a1) := e1 in
  let '(n2, r2, _) := e2 in
  exists t, doc_next n1 a1 = Some t /\ follows t n2 /\
            r2 = (match t with TRestart => S r1 | _ => r1 end).

(* a flow (oldest first) is a path of the documented machine *)
Fixpoint is_path (tr : list event) : Prop :=
  match tr with
  | e1 :: ((e2 :: _) as rest) => link e1 e2 /\ is_path rest
  | _ => True
  end.

Definition starts_at_recv (tr : list event) : Prop :=
  match tr with
  | [] => True
  | (n, r, _) :: _ => n = DRecv /\ r = 0
  end.

Definition is_log (e : event) : bool := match fst (fst e) with DLog => true | _ => false end.
Definition count_log (tr : list event) : nat := length (filter is_log tr).

(* the branch a flow took last: HIT after vcl_hit, MISS after vcl_miss or a pass from vcl_recv *)
Fixpoint last_branch (tr : list event) (acc : xst) : xst :=
  match tr with
  | [] => acc
  | (DHit, _, _) :: t => last_branch t XHit
  | (DMiss, _, _) :: t | (DHashP, _, _) :: t => last_branch t XMiss
  | _ :: t => last_branch t acc
  end.

(* ---------- the finite edge table (O tie) ---------- *)
Definition all_dnodes : list dnode := [DRecv; DHashL; DHashP; DHit; DMiss; DPass; DFetch; DError; DDeliver; DLog].

(* a cell: lifecycle position, how the subroutine ends, and whether req.restarts is already at the limit *)
Definition cell := (dnode * action * bool)%type.
Definition all_cells : list cell :=
  flat_map (fun n => flat_map (fun a => [(n, a, false); (n, a, true)]) all_actions) all_dnodes.

Definition doc_outcome (c : cell) : outcome :=
  let '(n, a, at_limit) := c in
  match doc_next n a with
  | None => OErr
  | Some (TGo m) => OGo (scope_of m)
  | Some TLookup => OLookup
  | Some TRestart => if at_limit then OErr else OGo Recv
  | Some TEnd => OEnd
  end.

Definition doc_edges : list (cell * outcome) := map (fun c => (c, doc_outcome c)) all_cells.

Definition cell_eqb (x y : cell) : bool :=
  let '(n1, a1, b1) := x in let '(n2, a2, b2) := y in
  dnode_eqb n1 n2 && action_eqb a1 a2 && Bool.eqb b1 b2.

(* ---------- the same table as Model/SM.v computes it ----------
   exactly what the harness does on the real interpreter: a program whose other subroutines lead
   to the position, the action under test at the position, and the subroutine that runs next *)
Definition lead_action (n : dnode) (sc : scope) : action :=
  match n, sc with
  | (DHashP | DPass), Recv => ARet SPass
  | DError, Recv => AErrorStmt
  | _, _ => ANone
  end.
Definition edge_oracle (n : dnode) (a : action) : oracle :=
  fun sc _ => if scope_eqb sc (scope_of n) then a else lead_action n sc.
Definition edge_request : request :=
  mkQ 1000 (fun _ => 7%N) true (fun _ => Some (true, 60000%Z)) (fun _ => None) (fun _ => []) (fun _ _ => Some 601).
Definition warm : persistent := mkP [(7%N, mkItem 50000 0 0)] [] [].

Fixpoint after_node (n : dnode) (tr : list event) : option (option dnode) :=
  match tr with
  | [] => None
  | (m, _, _) :: t =>
      if dnode_eqb m n then Some (match t with [] => None | (m', _, _) :: _ => Some m' end)
      else after_node n t
  end.

Definition run_edge (n : dnode) (a : action) (at_limit : bool) (p : persistent) : option (option dnode * bool) :=
  let r := if at_limit then max_varnish_restarts else 0 in
  let c := mkC r XNone false false false None [] [] 0 false None 500 None None in
  match run sm_fuel (edge_oracle n a) edge_request NRecv c p with
  | OK (c', _, err) =>
      match after_node n (rev (c_trace c')) with
      | Some nx => Some (nx, err)
      | None => None
      end
  | _ => None
  end.

Definition needs_warm (n : dnode) : bool := match n with DHit => true | _ => false end.

Definition model_outcome (c : cell) : option outcome :=
  let '(n, a, at_limit) := c in
  match n with
  | DHashL =>
      match run_edge n a at_limit init, run_edge n a at_limit warm with
      | Some (Some DMiss, _), Some (Some DHit, _) => Some OLookup
      | Some (Some m, _), Some (Some m', _) => if dnode_eqb m m' then Some (OGo (scope_of m)) else None
      | Some (None, e), Some (None, e') => if Bool.eqb e e' then Some (if e then OErr else OEnd) else None
      | _, _ => None
      end
  | _ =>
      match run_edge n a at_limit (if needs_warm n then warm else init) with
      | Some (Some m, _) => Some (OGo (scope_of m))
      | Some (None, e) => Some (if e then OErr else OEnd)
      | None => None
      end
  end.
