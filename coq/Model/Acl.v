(* C07 - ACL matching.
   [spec_match]  : the documented meaning (Fastly: the most specific - longest prefix - entry
                   containing the address decides; it matches unless that entry is negated;
                   an entry without a mask is a single host: /32 for IPv4, /128 for IPv6),
                   written without reference to the Go code.
   [impl_match]  : transcription of interpreter/operator/operator.go matchesAcl (after the
                   repair recorded in known_findings.txt): one pass over the entries keeping
                   (best prefix length so far, verdict so far).
   Addresses are (family, N) with the family's bit width; an IPv4-mapped IPv6 address is an
   IPv4 address (what net.IP.To4 does) - the harness normalises it that way.
   No proofs in this file. *)
From Coq Require Import List NArith ZArith Bool.
From Falco Require Import Base.Res.
Import ListNotations.
Local Open Scope Z_scope.

Inductive family := V4 | V6.

Definition family_eqb (a b : family) : bool :=
  match a, b with V4, V4 => true | V6, V6 => true | _, _ => false end.

Definition width (f : family) : Z := match f with V4 => 32 | V6 => 128 end.

Record addr := mkAddr { afam : family; abits : N }.

Definition wf_addr (a : addr) : Prop := (Z.of_N (abits a) < 2 ^ width (afam a)).

(* one line of an acl declaration:  [!] "ip" [/mask] ;   the mask is the int64 the parser read *)
Record entry := mkEntry { eneg : bool; eaddr : addr; emask : option Z }.

Definition acl := list entry.

(* effective prefix length: the written mask, else the family's host length *)
Definition plen (e : entry) : Z :=
  match emask e with Some m => m | None => width (afam (eaddr e)) end.

(* net.ParseCIDR accepts 0 <= mask <= width *)
Definition valid (e : entry) : bool :=
  (0 <=? plen e) && (plen e <=? width (afam (eaddr e))).

(* the address lies in the entry's network: same family, same leading [plen] bits *)
Definition contains (e : entry) (ip : addr) : bool :=
  family_eqb (afam (eaddr e)) (afam ip) &&
  let sh := width (afam (eaddr e)) - plen e in
  (Z.shiftr (Z.of_N (abits (eaddr e))) sh =? Z.shiftr (Z.of_N (abits ip)) sh).

(* ------------------------------------------------------------------ specification *)

(* longest prefix among the entries containing ip; -1 when none contains it *)
Definition bestlen (l : acl) (ip : addr) : Z :=
  fold_right (fun e acc => if contains e ip then Z.max (plen e) acc else acc) (-1) l.

Definition spec_bool (l : acl) (ip : addr) : bool :=
  let b := bestlen l ip in
  (0 <=? b) &&
  forallb (fun e => implb (contains e ip && (plen e =? b)) (negb (eneg e))) l.

(* a declaration with an unparsable CIDR is a runtime error whatever the address *)
Definition spec_match (l : acl) (ip : addr) : res bool :=
  if forallb valid l then OK (spec_bool l ip) else Err.

(* the same, as a proposition (Proofs/AclProofs.v: spec_bool_iff) *)
Definition spec_matches (l : acl) (ip : addr) : Prop :=
  exists e, In e l /\ contains e ip = true /\
    (forall e', In e' l -> contains e' ip = true -> plen e' <= plen e) /\
    (forall e', In e' l -> contains e' ip = true -> plen e' = plen e -> eneg e' = false).

(* ------------------------------------------------------------------ implementation *)

(* loop state of matchesAcl: best prefix length seen (-1: none), verdict *)
Definition step (ip : addr) (st : Z * bool) (e : entry) : Z * bool :=
  let '(best, matched) := st in
  if contains e ip then
    if best <? plen e then (plen e, negb (eneg e))
    else if (plen e =? best) && eneg e then (best, false)
    else (best, matched)
  else (best, matched).

Fixpoint loop (ip : addr) (l : acl) (st : Z * bool) : res bool :=
  match l with
  | [] => OK (snd st)
  | e :: t => if valid e then loop ip t (step ip st e) else Err   (* net.ParseCIDR error *)
  end.

Definition impl_match (l : acl) (ip : addr) : res bool := loop ip l (-1, false).

(* ------------------------------------------------------------------ the unrepaired algorithm
   (kept for the refutation theorem and the corpus): first entry that contains the address OR
   is negated answers true; host default 32 for both families *)
Definition plen_old (e : entry) : Z := match emask e with Some m => m | None => 32 end.
Definition contains_old (e : entry) (ip : addr) : bool :=
  family_eqb (afam (eaddr e)) (afam ip) &&
  let sh := width (afam (eaddr e)) - plen_old e in
  (Z.shiftr (Z.of_N (abits (eaddr e))) sh =? Z.shiftr (Z.of_N (abits ip)) sh).
Fixpoint old_match (l : acl) (ip : addr) : res bool :=
  match l with
  | [] => OK false
  | e :: t =>
      if (0 <=? plen_old e) && (plen_old e <=? width (afam (eaddr e))) then
        if contains_old e ip then OK true
        else if eneg e then OK true
        else old_match t ip
      else Err
  end.
