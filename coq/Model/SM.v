(* Executable model of the request state machine of the simulator (C06):
     interpreter/interpreter.go   ProcessRecv ... ProcessLog, restart, updateCache
     interpreter/statement.go     restart / error / return statements (scope guards, restart limit)
     interpreter/cache/cache.go   Get / Set / CacheItem.Update
     interpreter/value/rate_limiting.go  Ratecounter.Increment/Bucket, Penaltybox.Add/Has
     interpreter/handler.go + process/process.go  the JSON process report
   as repaired by the `fix:` commits listed in notes/C06.md.  No proofs here.

   What a lifecycle subroutine does is an ORACLE: [oracle sc r] is how the body of vcl_<sc> ends
   when it runs with req.restarts = r.  Within one request every (scope, restarts) pair is visited
   at most once, so this covers every deterministic program.  Everything the environment decides
   (clock, request hash, backend answer and its cacheability/TTL as left by vcl_fetch, obj.ttl as
   left by vcl_hit, the rate-limit calls of vcl_recv) is a field of [request]. *)
From Coq Require Import List ZArith NArith Bool Arith.
From Falco Require Import Base.Res Base.SMBase Gen.SMConst.
Import ListNotations.

(* ---------- what ProcessSubroutine returns ---------- *)
Inductive state := NONE | BARE | St (r : rstate).

(* ProcessBlockStatement on a body ending with [a], in scope [sc] with req.restarts = [restarts];
   None = a runtime exception (the Process* caller returns it at once) *)
Definition run_sub (sc : scope) (restarts : nat) (a : action) : option state :=
  match a with
  | ANone => Some NONE
  | ARet r => Some (St r)
  | ABare => Some BARE
  | AErrorStmt => if mem_scope sc error_stmt_scopes then Some (St SError) else None
  | ARestartStmt =>
      if mem_scope sc restart_stmt_scopes
      then (if max_varnish_restarts <? restarts + 1 then None else Some (St SRestart))
      else None
  | AFail => None
  | AAbsent => Some NONE      (* every Process* function falls back to its default state *)
  end.

(* ---------- state that outlives a request ---------- *)
Definition key := N.
Record item := mkItem { expires : Z; entry : Z; hits : nat }.
Definition cache := list (key * item).

Fixpoint cache_find (k : key) (c : cache) : option item :=
  match c with
  | [] => None
  | (k', it) :: t => if N.eqb k k' then Some it else cache_find k t
  end.
Fixpoint cache_remove (k : key) (c : cache) : cache :=
  match c with
  | [] => []
  | (k', it) :: t => if N.eqb k k' then cache_remove k t else (k', it) :: cache_remove k t
  end.
Definition cache_store (k : key) (it : item) (c : cache) : cache := (k, it) :: cache_remove k c.

(* "an unexpired object is stored under k": Get's test is time.Now().After(item.Expires) *)
Definition stored_fresh (now : Z) (k : key) (c : cache) : bool :=
  match cache_find k c with
  | Some it => negb (expires it <? now)%Z
  | None => false
  end.

(* Cache.Get: expired objects are deleted, a fresh one gets Hits++ *)
Definition cache_get (now : Z) (k : key) (c : cache) : option item * cache :=
  match cache_find k c with
  | None => (None, c)
  | Some it =>
      if (expires it <? now)%Z then (None, cache_remove k c)
      else let it' := mkItem (expires it) (entry it) (S (hits it)) in (Some it', cache_store k it' c)
  end.

(* CacheItem.Update through ctx.CacheHitItem: Expires = EntryTime + d *)
Definition cache_retime (k : key) (d : Z) (c : cache) : cache :=
  match cache_find k c with
  | None => c
  | Some it => cache_store k (mkItem (entry it + d)%Z (entry it) (hits it)) c
  end.

(* one rate counter (entries: client key, timestamp, delta) and one penalty box (client key -> expiry) *)
Record persistent := mkP { p_cache : cache; p_rc : list (key * Z * Z); p_pb : list (key * Z) }.
Definition init : persistent := mkP [] [] [].

Definition rc_window : Z := 60000.   (* ratelimit.ratecounter_increment reports the last minute *)
Fixpoint rc_bucket (now : Z) (k : key) (es : list (key * Z * Z)) : Z :=
  match es with
  | [] => 0%Z
  | (k', ts, d) :: t => ((if N.eqb k k' && (now - ts <? rc_window)%Z then d else 0) + rc_bucket now k t)%Z
  end.
Fixpoint pb_find (k : key) (l : list (key * Z)) : option Z :=
  match l with
  | [] => None
  | (k', e) :: t => if N.eqb k k' then Some e else pb_find k t
  end.
Fixpoint pb_remove (k : key) (l : list (key * Z)) : list (key * Z) :=
  match l with
  | [] => []
  | (k', e) :: t => if N.eqb k k' then pb_remove k t else (k', e) :: pb_remove k t
  end.

Inductive op :=
| OIncr (k : key) (d : Z)        (* ratelimit.ratecounter_increment(rc, k, d): observes the new bucket *)
| OPbAdd (k : key) (ttl : Z)     (* ratelimit.penaltybox_add(pb, k, ttl) *)
| OPbHas (k : key)               (* ratelimit.penaltybox_has(pb, k): observes 1 / 0 *)
| OCheck (k kpb : key) (d window limit ttl : Z).
   (* ratelimit.check_rate(k, rc, d, window, limit, pb, ttl): increments, compares the rate over the window
      (seconds) with the limit, puts the client into the penalty box when exceeded; observes 1 / 0.
      [kpb] is the same client string as [k], as the penalty box knows it *)

(* Ratecounter.Rate: floor (sum of the increments younger than the window / window seconds) *)
Fixpoint rc_total (now : Z) (k : key) (win_ms : Z) (es : list (key * Z * Z)) : Z :=
  match es with
  | [] => 0%Z
  | (k', ts, d) :: t => ((if N.eqb k k' && (now - win_ms <? ts)%Z then d else 0) + rc_total now k win_ms t)%Z
  end.

Definition run_op (now : Z) (o : op) (p : persistent) : persistent * list Z :=
  match o with
  | OIncr k d =>
      let es := (k, now, d) :: p_rc p in
      (mkP (p_cache p) es (p_pb p), [rc_bucket now k es])
  | OPbAdd k ttl => (mkP (p_cache p) (p_rc p) ((k, now + ttl)%Z :: pb_remove k (p_pb p)), [])
  | OPbHas k =>
      match pb_find k (p_pb p) with
      | None => (p, [0%Z])
      | Some e => if (e <? now)%Z then (mkP (p_cache p) (p_rc p) (pb_remove k (p_pb p)), [0%Z]) else (p, [1%Z])
      end
  | OCheck k kpb d window limit ttl =>
      let es := (k, now, d) :: p_rc p in
      let rate := (rc_total now k (window * 1000) es / window)%Z in
      if (limit <? rate)%Z
      then (mkP (p_cache p) es ((kpb, now + ttl)%Z :: pb_remove kpb (p_pb p)), [1%Z])
      else (mkP (p_cache p) es (p_pb p), [0%Z])
  end.
Fixpoint run_ops (now : Z) (os : list op) (p : persistent) : persistent * list Z :=
  match os with
  | [] => (p, [])
  | o :: t => let (p1, o1) := run_op now o p in let (p2, o2) := run_ops now t p1 in (p2, o1 ++ o2)
  end.

(* ---------- one request ---------- *)
Definition oracle := scope -> nat -> action.

Record request := mkQ {
  q_now : Z;                               (* the clock reading of this request (milliseconds) *)
  q_hash : nat -> key;                     (* req.hash after vcl_hash, by req.restarts *)
  q_backend : bool;                        (* a backend is determined *)
  q_bresp : nat -> option (bool * Z);      (* backend answer: (beresp.cacheable, beresp.ttl) as vcl_fetch leaves them; None = fetch fails *)
  q_hit_ttl : nat -> option Z;             (* what vcl_hit assigns to obj.ttl, if it does *)
  q_ops : nat -> list op;                  (* rate-limit calls at the top of vcl_recv *)
  q_errcode : scope -> nat -> option nat   (* the status an `error <code>;` statement of that subroutine / round assigns to obj.status *)
}.

Inductive xst := XNone | XHit | XMiss.      (* ctx.State: "NONE" / "HIT" / "MISS" *)

Definition event := (dnode * nat * action)%type.   (* subroutine run, req.restarts, how it ended *)

Record ctx := mkC {
  c_restarts : nat;          (* ctx.Restarts *)
  c_state : xst;             (* ctx.State *)
  c_cached : bool;           (* process.Cached *)
  c_obj : bool;              (* ctx.Object != nil *)
  c_beresp : bool;           (* ctx.BackendResponse != nil *)
  c_resp : option (xst * nat); (* ctx.Response != nil, with its X-Cache and X-Cache-Hits headers *)
  c_trace : list event;      (* process.Flows, newest first *)
  c_obs : list Z;            (* values logged by the rate-limit calls, newest first *)
  c_objttl : Z;              (* ctx.ObjectTTL: stays for the rest of the request once vcl_hit has set it *)
  c_pass : bool;             (* Interpreter.passed: this restart round went through vcl_pass *)
  c_hit : option nat;        (* ctx.CacheHitItem != nil, with its Hits *)
  c_objstatus : nat;         (* ctx.ObjectStatus: 500 until an `error <code>` assigns it; stays for the request *)
  c_errobj : option nat;     (* ctx.Object is the synthetic object of ProcessError, with its status *)
  c_respstatus : option nat  (* status of ctx.Response when it was cloned from that synthetic object *)
}.
Definition ctx0 : ctx := mkC 0 XNone false false false None [] [] 0 false None 500 None None.

Definition call (orc : oracle) (q : request) (n : dnode) (c : ctx) : ctx * option state :=
  let a := orc (scope_of n) (c_restarts c) in
  (* ProcessErrorStatement: an `error <code>;` that passes its scope guard assigns obj.status *)
  let st := match a, q_errcode q (scope_of n) (c_restarts c) with
            | AErrorStmt, Some k => if mem_scope (scope_of n) error_stmt_scopes then k else c_objstatus c
            | _, _ => c_objstatus c
            end in
  (mkC (c_restarts c) (c_state c) (c_cached c) (c_obj c) (c_beresp c) (c_resp c)
       ((n, c_restarts c, a) :: c_trace c) (c_obs c) (c_objttl c) (c_pass c) (c_hit c) st (c_errobj c) (c_respstatus c),
   run_sub (scope_of n) (c_restarts c) a).

Inductive node := NRecv | NHit | NMiss | NPass | NFetch | NError | NDeliver | NLog.
Inductive next := Goto (n : node) | Done | Fail.

(* Interpreter.restart *)
Definition do_restart (c : ctx) : ctx * next :=
  if max_varnish_restarts <? c_restarts c + 1 then (c, Fail)
  else (mkC (S (c_restarts c)) (c_state c) (c_cached c) false false None (c_trace c) (c_obs c) (c_objttl c) (c_pass c) None (c_objstatus c) None None, Goto NRecv).

Definition set_branch (c : ctx) (x : xst) (cached : bool) : ctx :=
  mkC (c_restarts c) x cached (c_obj c) (c_beresp c) (c_resp c) (c_trace c) (c_obs c) (c_objttl c) (c_pass c) (c_hit c) (c_objstatus c) (c_errobj c) (c_respstatus c).
Definition set_obj (c : ctx) : ctx :=
  mkC (c_restarts c) (c_state c) (c_cached c) true (c_beresp c) (c_resp c) (c_trace c) (c_obs c) (c_objttl c) (c_pass c) (c_hit c) (c_objstatus c) (c_errobj c) (c_respstatus c).
Definition set_beresp (c : ctx) : ctx :=
  mkC (c_restarts c) (c_state c) (c_cached c) (c_obj c) true (c_resp c) (c_trace c) (c_obs c) (c_objttl c) (c_pass c) (c_hit c) (c_objstatus c) (c_errobj c) (c_respstatus c).
Definition set_resp (c : ctx) : ctx :=
  mkC (c_restarts c) (c_state c) (c_cached c) (c_obj c) (c_beresp c) (Some (c_state c, match c_hit c with Some h => h | None => 0 end)) (c_trace c) (c_obs c) (c_objttl c) (c_pass c) (c_hit c) (c_objstatus c) (c_errobj c) (if c_obj c then c_errobj c else None).
Definition add_obs (c : ctx) (o : list Z) : ctx :=
  mkC (c_restarts c) (c_state c) (c_cached c) (c_obj c) (c_beresp c) (c_resp c) (c_trace c) (rev o ++ c_obs c) (c_objttl c) (c_pass c) (c_hit c) (c_objstatus c) (c_errobj c) (c_respstatus c).
Definition set_objttl (c : ctx) (t : Z) : ctx :=
  mkC (c_restarts c) (c_state c) (c_cached c) (c_obj c) (c_beresp c) (c_resp c) (c_trace c) (c_obs c) t (c_pass c) (c_hit c) (c_objstatus c) (c_errobj c) (c_respstatus c).
Definition set_pass (c : ctx) (b : bool) : ctx :=
  mkC (c_restarts c) (c_state c) (c_cached c) (c_obj c) (c_beresp c) (c_resp c) (c_trace c) (c_obs c) (c_objttl c) b (c_hit c) (c_objstatus c) (c_errobj c) (c_respstatus c).
Definition set_hit (c : ctx) (h : option nat) : ctx :=
  mkC (c_restarts c) (c_state c) (c_cached c) (c_obj c) (c_beresp c) (c_resp c) (c_trace c) (c_obs c) (c_objttl c) (c_pass c) h (c_objstatus c) (if h then None else c_errobj c) (c_respstatus c).
Definition set_errobj (c : ctx) : ctx :=
  mkC (c_restarts c) (c_state c) (c_cached c) true (c_beresp c) (c_resp c) (c_trace c) (c_obs c) (c_objttl c) (c_pass c)
      (c_hit c) (c_objstatus c) (Some (c_objstatus c)) (c_respstatus c).
Definition set_cache (p : persistent) (cch : cache) : persistent := mkP cch (p_rc p) (p_pb p).

(* ProcessHash: only `hash` or falling off the end is accepted *)
Definition process_hash (orc : oracle) (q : request) (tag : dnode) (c : ctx) : ctx * bool :=
  let (c1, r) := call orc q tag c in
  match r with
  | Some NONE | Some (St SHash) => (c1, true)
  | _ => (c1, false)
  end.

Definition process_recv (orc : oracle) (q : request) (c : ctx) (p : persistent) : ctx * persistent * next :=
  let r0 := c_restarts c in
  let (p1, obs) := run_ops (q_now q) (q_ops q r0) p in
  let (c1, r) := call orc q DRecv (set_pass (add_obs c obs) false) in
  match r with
  | None => (c1, p1, Fail)
  | Some (St SPass) =>
      let (c3, ok) := process_hash orc q DHashP (set_branch c1 XMiss false) in
      (c3, p1, if ok then Goto NPass else Fail)
  | Some (St SError) => (c1, p1, Goto NError)
  | Some (St SRestart) => let (c2, n) := do_restart c1 in (c2, p1, n)
  | Some (St SLookup) | Some NONE =>
      let (c3, ok) := process_hash orc q DHashL c1 in
      if negb ok then (c3, p1, Fail)
      else match cache_get (q_now q) (q_hash q r0) (p_cache p1) with
           | (Some it, cch) => (set_hit (set_obj (set_branch c3 XHit true)) (Some (hits it)), set_cache p1 cch, Goto NHit)
           | (None, cch) => (set_branch c3 XMiss false, set_cache p1 cch, Goto NMiss)
           end
  | Some _ => (c1, p1, Fail)
  end.

Definition process_hit (orc : oracle) (q : request) (c : ctx) (p : persistent) : ctx * persistent * next :=
  let r0 := c_restarts c in
  let (c0, r) := call orc q DHit c in
  let c1 := match q_hit_ttl q r0 with Some t => set_objttl c0 t | None => c0 end in
  match r with
  | None => (c1, p, Fail)
  | Some st =>
      let p1 := if (0 <? c_objttl c1)%Z
                then set_cache p (cache_retime (q_hash q r0) (c_objttl c1) (p_cache p)) else p in
      match st with
      | NONE | St SDeliver => (c1, p1, Goto NDeliver)
      | St SPass => (c1, p1, Goto NPass)
      | St SError => (c1, p1, Goto NError)
      | St SRestart => let (c2, n) := do_restart c1 in (c2, p1, n)
      | _ => (c1, p1, Fail)
      end
  end.

Definition process_miss (orc : oracle) (q : request) (c : ctx) (p : persistent) : ctx * persistent * next :=
  if negb (q_backend q) then (c, p, Fail) else
  let (c1, r) := call orc q DMiss c in
  match r with
  | None => (c1, p, Fail)
  | Some NONE | Some (St SFetch) => (c1, p, Goto NFetch)
  | Some (St SDeliverStale) => (c1, p, Goto NDeliver)
  | Some (St SPass) => (c1, p, Goto NPass)
  | Some (St SError) => (c1, p, Goto NError)
  | Some _ => (c1, p, Fail)
  end.

Definition process_pass (orc : oracle) (q : request) (c0 : ctx) (p : persistent) : ctx * persistent * next :=
  let c := set_pass c0 true in
  if negb (q_backend q) then (c, p, Fail) else
  let (c1, r) := call orc q DPass c in
  match r with
  | None => (c1, p, Fail)
  | Some NONE | Some (St SPass) => (c1, p, Goto NFetch)
  | Some (St SError) => (c1, p, Goto NError)
  | Some _ => (c1, p, Fail)
  end.

(* ProcessFetch: the backend is asked first; updateCache runs only for a round that did not go through
   vcl_pass and whose vcl_fetch ended with deliver / deliver_stale (or fell off the end) *)
Definition process_fetch (orc : oracle) (q : request) (c : ctx) (p : persistent) : ctx * persistent * next :=
  let r0 := c_restarts c in
  match q_bresp q r0 with
  | None => (c, p, Fail)
  | Some (cacheable, ttl) =>
      let (c1, r) := call orc q DFetch (set_beresp c) in
      match r with
      | None => (c1, p, Fail)
      | Some st =>
          let accepted := match st with NONE | St SDeliver | St SDeliverStale => true | _ => false end in
          let p1 := if negb (c_pass c) && accepted && cacheable && (0 <? ttl)%Z
                    then set_cache p (cache_store (q_hash q r0) (mkItem (q_now q + ttl)%Z (q_now q) 0) (p_cache p))
                    else p in
          match st with
          | NONE | St SDeliver | St SDeliverStale | St SPass | St SHitForPass => (c1, p1, Goto NDeliver)
          | St SError => (c1, p1, Goto NError)
          | St SRestart => let (c2, n) := do_restart c1 in (c2, p1, n)
          | _ => (c1, p1, Fail)
          end
      end
  end.

Definition process_error (orc : oracle) (q : request) (c : ctx) (p : persistent) : ctx * persistent * next :=
  let (c1, r) := call orc q DError (set_errobj c) in
  match r with
  | None => (c1, p, Fail)
  | Some NONE | Some (St SDeliver) | Some (St SDeliverStale) => (c1, p, Goto NDeliver)
  | Some (St SRestart) => let (c2, n) := do_restart c1 in (c2, p, n)
  | Some _ => (c1, p, Fail)
  end.

(* ProcessDeliver: the response is the object or the backend response; X-Cache = ctx.State *)
Definition process_deliver (orc : oracle) (q : request) (c : ctx) (p : persistent) : ctx * persistent * next :=
  let c0 := if c_obj c || c_beresp c then set_resp c else c in
  match c_resp c0 with
  | None => (c0, p, Fail)
  | Some _ =>
      let (c1, r) := call orc q DDeliver c0 in
      match r with
      | None => (c1, p, Fail)
      | Some NONE | Some (St SDeliver) => (c1, p, Goto NLog)
      | Some (St SRestart) => let (c2, n) := do_restart c1 in (c2, p, n)
      | Some _ => (c1, p, Fail)
      end
  end.

Definition process_log (orc : oracle) (q : request) (c : ctx) (p : persistent) : ctx * persistent * next :=
  let (c1, r) := call orc q DLog c in
  match r with
  | Some NONE | Some (St SDeliver) => (c1, p, Done)
  | _ => (c1, p, Fail)
  end.

Definition step (orc : oracle) (q : request) (n : node) : ctx -> persistent -> ctx * persistent * next :=
  match n with
  | NRecv => process_recv orc q
  | NHit => process_hit orc q
  | NMiss => process_miss orc q
  | NPass => process_pass orc q
  | NFetch => process_fetch orc q
  | NError => process_error orc q
  | NDeliver => process_deliver orc q
  | NLog => process_log orc q
  end.

(* the Go code recurses (ProcessRecv -> ... -> restart -> ProcessRecv); the fuel is the recursion depth *)
Fixpoint run (fuel : nat) (orc : oracle) (q : request) (n : node) (c : ctx) (p : persistent)
  : res (ctx * persistent * bool) :=
  match fuel with
  | O => OutOfFuel
  | S f =>
      match step orc q n c p with
      | (c', p', Goto n') => run f orc q n' c' p'
      | (c', p', Done) => OK (c', p', false)
      | (c', p', Fail) => OK (c', p', true)
      end
  end.

(* the JSON process report (handler.go, process.Finalize) *)
Record report := mkR {
  r_trace : list event;        (* oldest first *)
  r_restarts : nat;
  r_cached : bool;
  r_xcache : option xst;       (* client_response.headers["x-cache"] *)
  r_xhits : option nat;        (* client_response.headers["x-cache-hits"] *)
  r_status : option nat;       (* client_response.status_code when the response is the synthetic object of vcl_error *)
  r_error : bool;
  r_obs : list Z
}.
(* process.Flows: a subroutine that is not defined leaves no entry *)
Definition is_absent (e : event) : bool := match snd e with AAbsent => true | _ => false end.
Definition r_flows (r : report) : list scope :=
  map (fun e => scope_of (fst (fst e))) (filter (fun e => negb (is_absent e)) (r_trace r)).

Definition sm_fuel : nat := 7 * (max_varnish_restarts + 1).

Definition run_request (orc : oracle) (p : persistent) (q : request) : res (report * persistent) :=
  match run sm_fuel orc q NRecv ctx0 p with
  | OK (c, p', err) =>
      OK (mkR (rev (c_trace c)) (c_restarts c) (c_cached c) (option_map fst (c_resp c)) (option_map snd (c_resp c))
              (match c_resp c with Some _ => c_respstatus c | None => None end) err (rev (c_obs c)), p')
  | Err => Err
  | Crash => Crash
  | OutOfFuel => OutOfFuel
  end.

(* a history: the state left by request k is the state request k+1 starts from *)
Fixpoint run_history (h : list (oracle * request)) (p : persistent) : res (list report * persistent) :=
  match h with
  | [] => OK ([], p)
  | (orc, q) :: t =>
      match run_request orc p q with
      | OK (r, p1) =>
          match run_history t p1 with
          | OK (rs, p2) => OK (r :: rs, p2)
          | Err => Err | Crash => Crash | OutOfFuel => OutOfFuel
          end
      | Err => Err | Crash => Crash | OutOfFuel => OutOfFuel
      end
  end.
