(* C13 - the instance of [ops] used for RUNNING the store model against the implementation.
   A deliberately small, exact fragment of operator/operator.go, assign/*.go, value.String(),
   three pure built-ins and two PCRE pattern shapes; everything outside the fragment is [Err]
   and the program generator stays inside it (a disagreement would show in the differential
   run).  The theorems of Props/C13.v quantify over EVERY instance of [ops]. *)
From Coq Require Import List NArith ZArith Bool.
From Coq Require Import Strings.Byte.
From Falco Require Import Base.Res Base.Bytes Model.Float Model.StoreSyntax.
Import ListNotations.
Local Open Scope Z_scope.

Fixpoint str_eqb (a b : str) : bool :=
  match a, b with
  | [], [] => true
  | x :: a', y :: b' => byte_eqb x y && str_eqb a' b'
  | _, _ => false
  end.

Fixpoint dec_digits (fuel : nat) (n : N) (acc : str) : str :=
  match fuel with
  | O => acc
  | S f =>
      let d := n2b (48 + n mod 10)%N in
      if (n / 10 =? 0)%N then d :: acc else dec_digits f (n / 10)%N (d :: acc)
  end.
Definition dec_of_N (n : N) : str := dec_digits 25 n [].
Definition dec_of_Z (z : Z) : str :=
  if z <? 0 then x2d :: dec_of_N (Z.to_N (- z)) else dec_of_N (Z.to_N z).
Definition pad3 (n : N) : str :=
  [n2b (48 + (n / 100) mod 10)%N; n2b (48 + (n / 10) mod 10)%N; n2b (48 + n mod 10)%N].

Definition null_text : str := [x28; x6e; x75; x6c; x6c; x29].      (* "(null)" *)
Definition float_text : str := [x3c; x66; x6c; x6f; x61; x74; x3e]. (* "<float>": formatting not modelled *)

(* value.String() *)
Definition std_render (v : val) : str :=
  match v with
  | VInt z _ => dec_of_Z z
  | VFloat b _ => fmt3 (sf_of_bits b)          (* strconv.FormatFloat(v, 'f', 3, 64), exact (Model/Float.v) *)
  | VStr s ns _ => if ns then null_text else s
  | VBool b _ => if b then [x31] else [x30]
  | VRTime ns _ =>
      (* strconv.FormatFloat(float64(d.Milliseconds())/1000, 'f', 3, 64) *)
      let ms := Z.quot ns 1000000 in
      let a := Z.to_N (Z.abs ms) in
      (if ms <? 0 then [x2d] else []) ++ dec_of_N (a / 1000)%N ++ [x2e] ++ pad3 (a mod 1000)%N
  | VOpaque _ s => s                             (* TIME / IP / BACKEND / ACL: the text it carries *)
  end.

Definition std_equal (a b : val) : res bool :=
  if is_lit a then Err else
  match a, b with
  | VInt x _, VInt y _ => OK (x =? y)
  | VStr s ns _, VStr t nt _ => OK (if ns || nt then false else str_eqb s t)
  | VBool x _, VBool y _ => OK (Bool.eqb x y)
  | VRTime x _, VRTime y _ => OK (Z.quot x 1000000 =? Z.quot y 1000000)
  | VFloat x _, VFloat y _ => OK (feq (sf_of_bits x) (sf_of_bits y))
  | _, _ => Err
  end.
Definition std_order (f : Z -> Z -> bool) (a b : val) : res bool :=
  match a, b with
  | VInt x false, VInt y _ => OK (f x y)
  | _, _ => Err
  end.
Definition std_falsy (v : val) : res bool :=
  match v with
  | VBool b _ => OK b
  | VStr _ ns false => OK (negb ns)
  | _ => Err
  end.
Definition bres (r : res bool) : res val := do b <- r; OK (VBool b false).

Definition std_binop (op : binop) (a b : val) : res val :=
  match op with
  | BEq => bres (std_equal a b)
  | BNe => bres (do r <- std_equal a b; OK (negb r))
  | BLt => bres (std_order Z.ltb a b)
  | BGt => bres (std_order Z.gtb a b)
  | BLe => bres (std_order Z.leb a b)
  | BGe => bres (std_order Z.geb a b)
  | BAnd => bres (do x <- std_falsy a; do y <- std_falsy b; OK (x && y))
  | BOr => bres (do x <- std_falsy a; do y <- std_falsy b; OK (x || y))
  end.

(* assign.Assign(left, right.Copy()) and the compound operators: the NEW left value.
   The left cell keeps its own Literal flag. *)
Definition std_assign (op : aop) (l r : val) : res val :=
  match op, l, r with
  | AEq, VInt _ ll, VInt y _ => OK (VInt y ll)
  | AEq, VFloat _ ll, VFloat y _ => OK (VFloat y ll)
  | AEq, VFloat _ ll, VInt y _ => OK (VFloat (bits_of_sf (f_of_int y)) ll)            (* float64(int64) *)
  | AEq, VInt _ ll, VFloat y false => OK (VInt (f_to_int (sf_of_bits y)) ll)          (* int64(float64), literal refused *)
  | AEq, VStr _ _ ll, VFloat y false => OK (VStr (fmt3 (sf_of_bits y)) false ll)
  | AAdd, VFloat x ll, VFloat y _ => OK (VFloat (bits_of_sf (fadd (sf_of_bits x) (sf_of_bits y))) ll)   (* finite, no overflow *)
  | ASub, VFloat x ll, VFloat y _ => OK (VFloat (bits_of_sf (fsub (sf_of_bits x) (sf_of_bits y))) ll)
  | AEq, VStr _ _ ll, VStr t nt _ => OK (VStr t nt ll)
  | AEq, VStr _ _ ll, VInt y false => OK (VStr (dec_of_Z y) false ll)
  | AEq, VStr _ _ ll, VBool b _ => OK (VStr (if b then [x31] else [x30]) false ll)
  | AEq, VStr _ _ ll, VRTime y false => OK (VStr (std_render (VRTime y false)) false ll)
  | AEq, VBool _ ll, VBool y _ => OK (VBool y ll)
  | AEq, VRTime _ ll, VRTime y _ => OK (VRTime y ll)
  | AEq, VOpaque j _, VOpaque k s => if (j =? k)%N then OK (VOpaque k s) else Err   (* a copy, same type only *)
  | AAdd, VInt x ll, VInt y _ => OK (VInt (wrap64 (x + y)) ll)
  | ASub, VInt x ll, VInt y _ => OK (VInt (wrap64 (x - y)) ll)
  | AAdd, VRTime x ll, VRTime y _ => OK (VRTime (wrap64 (x + y)) ll)
  | ALor, VBool x ll, VBool y _ => OK (VBool (x || y) ll)
  | ALand, VBool x ll, VBool y _ => OK (VBool (x && y) ll)
  | _, _, _ => Err
  end.

(* built-ins 0 = std.strlen, 1 = std.toupper, 2 = std.tolower (ASCII) *)
Definition up (b : byte) : byte :=
  let n := b2n b in if ((97 <=? n) && (n <=? 122))%N then n2b (n - 32)%N else b.
Definition low (b : byte) : byte :=
  let n := b2n b in if ((65 <=? n) && (n <=? 90))%N then n2b (n + 32)%N else b.
Definition std_builtin (f : N) (args : list val) : res val :=
  match f, args with
  | 0%N, [VStr s _ _] => OK (VInt (Z.of_nat (length s)) false)
  | 1%N, [VStr s _ _] => OK (VStr (map up s) false false)
  | 2%N, [VStr s _ _] => OK (VStr (map low s) false false)
  | _, _ => Err
  end.

(* the two pattern shapes the generator uses (rendered to PCRE text by gen/storegen.py) *)
Fixpoint strip_prefix (p s : str) : option str :=
  match p, s with
  | [], _ => Some s
  | x :: p', y :: s' => if byte_eqb x y then strip_prefix p' s' else None
  | _ :: _, [] => None
  end.
Fixpoint split_at (c : byte) (s acc : str) : option (str * str) :=
  match s with
  | [] => None
  | x :: r => if byte_eqb x c then Some (rev acc, r) else split_at c r (x :: acc)
  end.
Definition std_match (p : pat) (s : str) : option (list str) :=
  match p with
  | PPrefix lit => match strip_prefix lit s with Some rest => Some [s; lit; rest] | None => None end
  | PSplit c => match split_at c s [] with Some (a, b) => Some [s; a; b] | None => None end
  end.

Definition std_ops : ops :=
  {| binop_val := std_binop; assign_val := std_assign; builtin_val := std_builtin;
     re_match := std_match; render := std_render |}.

(* 64-bit patterns <-> signed numbers, for the driver *)
Definition of_bits64 (u : Z) : Z := if u <? 2 ^ 63 then u else u - 2 ^ 64.
Definition to_bits64 (z : Z) : Z := z mod 2 ^ 64.
