(* C09 - token streams with decorations, and what parser.ReadPeek makes of them.

   parser/parser.go ReadPeek, per significant token:
       leading := {}; prefixedLineFeed := false
       for { t := NextToken()
             LF      -> prefixedLineFeed = true (and swallow the following LFs); continue
             COMMENT -> leading = append(leading, Comment{t, PrefixedLineFeed: prefixedLineFeed}); continue
             other   -> peekToken = Meta{t, Leading: leading}; break }
   Comments are either ORDINARY or ANNOTATIONS (text that falco gives a meaning: `@scope`/`@plugin`
   annotations, falco-ignore directives, `#FASTLY <scope>` macros).  Blanks never reach the
   parser (the lexer skips them); they are tokens here so that layout changes are decorations.

   The parser core decides on the significant tokens; linter and interpreter additionally read
   the annotation comments attached to them, with their PrefixedLineFeed flag (Trailing() splits
   a leading list at the first comment whose flag is set). *)
From Coq Require Import List Bool NArith.
Import ListNotations.

Inductive tok (K A : Type) : Type :=
| Sig (s : K)        (* any token ReadPeek hands to the parser (K: kind + spelling; a hash in the harness,
                        the pair (type, literal) of the lexer model in Proofs/DecorReal.v) *)
| Cmt                (* ordinary comment *)
| Ann (a : A)        (* annotation comment *)
| LF                 (* line feed *)
| Blank.             (* blanks / tabs (and FASTLY_CONTROL tokens, which ReadPeek skips) *)
Arguments Sig {K A} s.
Arguments Cmt {K A}.
Arguments Ann {K A} a.
Arguments LF {K A}.
Arguments Blank {K A}.

Section Pump.
Context {K A : Type}.

(* what the parser receives for one significant token: the token and its annotation comments,
   each with the PrefixedLineFeed flag *)
Definition item : Type := (K * list (A * bool))%type.

Fixpoint pump_go (lf : bool) (acc : list (A * bool)) (ts : list (tok K A)) : list item :=
  match ts with
  | [] => []
  | Sig s :: r => (s, rev acc) :: pump_go false [] r
  | Cmt :: r => pump_go lf acc r
  | Blank :: r => pump_go lf acc r
  | LF :: r => pump_go true acc r
  | Ann a :: r => pump_go lf ((a, lf) :: acc) r
  end.

Definition pump (ts : list (tok K A)) : list item := pump_go false [] ts.
Definition significant (ts : list (tok K A)) : list K := map fst (pump ts).
Definition annotations (ts : list (tok K A)) : list (list (A * bool)) := map snd (pump ts).

(* the line-feed flag after a prefix *)
Fixpoint flag_after (lf : bool) (ts : list (tok K A)) : bool :=
  match ts with
  | [] => lf
  | Sig _ :: r => flag_after false r
  | LF :: r => flag_after true r
  | _ :: r => flag_after lf r
  end.

(* no annotation comment before the next significant token *)
Fixpoint no_ann_ahead (ts : list (tok K A)) : bool :=
  match ts with
  | [] => true
  | Sig _ :: _ => true
  | Ann _ :: _ => false
  | _ :: r => no_ann_ahead r
  end.

(* decorations: insert / remove (hence also move) ordinary comments and blanks anywhere; insert /
   remove line feeds anywhere except where that would change whether an ANNOTATION comment is
   preceded by a line feed since the last significant token (a `falco-ignore-next-line` at the
   end of a line is not the same directive as one on a line of its own) *)
Inductive decorate : list (tok K A) -> list (tok K A) -> Prop :=
| d_refl : forall ts, decorate ts ts
| d_sym : forall a b, decorate a b -> decorate b a
| d_trans : forall a b c, decorate a b -> decorate b c -> decorate a c
| d_cmt : forall t1 t2, decorate (t1 ++ t2) (t1 ++ Cmt :: t2)
| d_blank : forall t1 t2, decorate (t1 ++ t2) (t1 ++ Blank :: t2)
| d_lf_free : forall t1 t2, no_ann_ahead t2 = true -> decorate (t1 ++ t2) (t1 ++ LF :: t2)
| d_lf_seen : forall t1 t2, flag_after false t1 = true -> decorate (t1 ++ t2) (t1 ++ LF :: t2).

(* ---- rendered text (ast String()): a node's rendering includes the ORDINARY comments attached to
   it.  [rendered] keeps, for every significant token, the number of ordinary comments in front
   of it: the information a decision based on String() additionally depends on. *)
Fixpoint rendered_go (n : nat) (ts : list (tok K A)) : list (K * nat) :=
  match ts with
  | [] => []
  | Sig s :: r => (s, n) :: rendered_go 0 r
  | Cmt :: r => rendered_go (S n) r
  | _ :: r => rendered_go n r
  end.
Definition rendered (ts : list (tok K A)) : list (K * nat) := rendered_go 0 ts.
End Pump.

(* the duplicate-label test of ParseSwitchStatement before the repair: two case labels are the
   same when their renderings are equal *)
Definition same_label_rendered (x y : N * nat) : bool :=
  N.eqb (fst x) (fst y) && Nat.eqb (snd x) (snd y).
Definition same_label (x y : N) : bool := N.eqb x y.
