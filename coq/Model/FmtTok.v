(* Token-stream model of the formatter (C03, C14, C15) - data.

   A program is the sequence of tokens the Go lexer yields for it, WITHOUT layout: blanks,
   line feeds, indentation and alignment padding are not in the stream.  The only piece of
   layout a comment keeps is [clf]: "a line feed separates this comment from the preceding
   significant token" (ast.Comment.PrefixedLineFeed), because the parser uses exactly that bit
   to decide whether a comment trails the previous declaration or leads the next one.

   No proofs here. *)
From Coq Require Import List Bool NArith Strings.String.
From Coq Require Import Strings.Byte.
From Falco Require Import Base.Bytes.
Import ListNotations.

Definition bytes := list byte.
Definition bs (s : string) : bytes := list_byte_of_string s.

(* token kinds = token.TokenType of the Go lexer; the kinds the formatter's rewrites never look
   at are [KOther name] *)
Inductive kind :=
| KIdent | KString | KOpenLong | KCloseLong | KInt | KFloat | KRTime | KTrue | KFalse | KPercent
| KPlus | KLParen | KRParen | KLBrace | KRBrace | KSemi | KComma | KColon | KDot
| KAssign (name : bytes)          (* the fifteen assignment operators; [name] = Go token type *)
| KIf | KElse | KElseIf | KElsIf | KReturn | KRemove | KUnset | KSet | KAdd | KDeclare
| KError | KLog | KSynthetic | KSynthetic64 | KCall | KCase | KDefault | KSwitch
| KSub | KTable | KAcl | KBackend | KDirector | KPenaltybox | KRatecounter | KImport | KInclude
| KOther (name : bytes).

Record tok := Tok { tk : kind; tl : bytes }.           (* significant token: kind, literal *)
Record com := Com { clf : bool; ctx : bytes }.         (* comment: line-feed bit, text with its marker *)
Inductive elt := Sig (t : tok) | Cm (c : com).            (* element of the stream *)

Definition item := (list com * tok)%type.              (* a significant token with the comments before it *)

(* ---------------------------------------------------------------- bytes helpers *)
Fixpoint beq (a b : bytes) : bool :=
  match a, b with
  | [], [] => true
  | x :: a', y :: b' => byte_eqb x y && beq a' b'
  | _, _ => false
  end.

(* Go string comparison a < b: lexicographic on bytes *)
Fixpoint blt (a b : bytes) : bool :=
  match a, b with
  | _, [] => false
  | [], _ :: _ => true
  | x :: a', y :: b' =>
      if N.ltb (b2n x) (b2n y) then true
      else if N.ltb (b2n y) (b2n x) then false
      else blt a' b'
  end.

Fixpoint starts_with (p s : bytes) : bool :=
  match p, s with
  | [], _ => true
  | x :: p', y :: s' => byte_eqb x y && starts_with p' s'
  | _ :: _, [] => false
  end.

Fixpoint count_prefix (b : byte) (s : bytes) : nat :=
  match s with
  | x :: s' => if byte_eqb x b then S (count_prefix b s') else 0
  | [] => 0
  end.

Definition last_is (b : byte) (s : bytes) : bool :=
  match rev s with x :: _ => byte_eqb x b | [] => false end.

(* ---------------------------------------------------------------- kind predicates *)
Definition kind_tag (k : kind) : N :=
  match k with
  | KIdent => 1 | KString => 2 | KOpenLong => 3 | KCloseLong => 4 | KInt => 5 | KFloat => 6
  | KRTime => 7 | KTrue => 8 | KFalse => 9 | KPercent => 10 | KPlus => 11 | KLParen => 12
  | KRParen => 13 | KLBrace => 14 | KRBrace => 15 | KSemi => 16 | KComma => 17 | KColon => 18
  | KDot => 19 | KAssign _ => 20 | KIf => 21 | KElse => 22 | KElseIf => 23 | KElsIf => 24
  | KReturn => 25 | KRemove => 26 | KUnset => 27 | KSet => 28 | KAdd => 29 | KDeclare => 30
  | KError => 31 | KLog => 32 | KSynthetic => 33 | KSynthetic64 => 34 | KCall => 35
  | KCase => 36 | KDefault => 37 | KSwitch => 38 | KSub => 39 | KTable => 40 | KAcl => 41
  | KBackend => 42 | KDirector => 43 | KPenaltybox => 44 | KRatecounter => 45 | KImport => 46
  | KInclude => 47 | KOther _ => 48
  end%N.

(* same constructor (the name carried by KAssign / KOther is ignored) *)
Definition kis (a b : kind) : bool := N.eqb (kind_tag a) (kind_tag b).

Definition kind_eqb (a b : kind) : bool :=
  match a, b with
  | KAssign x, KAssign y => beq x y
  | KOther x, KOther y => beq x y
  | _, _ => kis a b
  end.

(* parser.infixParsers: the token kinds that continue an expression as a juxtaposed operand *)
Definition juxt (k : kind) : bool :=
  match k with KIdent | KString | KOpenLong | KIf => true | _ => false end.

(* the token kinds that end an operand *)
Definition opend (k : kind) : bool :=
  match k with
  | KIdent | KString | KCloseLong | KInt | KFloat | KRTime | KTrue | KFalse | KRParen | KPercent => true
  | _ => false
  end.

Definition terminator (k : kind) : bool :=
  match k with KSemi | KLBrace | KRBrace => true | _ => false end.

Definition tok_eqb (a b : tok) : bool := kind_eqb (tk a) (tk b) && beq (tl a) (tl b).

(* tokens the formatter inserts *)
Definition t_plus := Tok KPlus (bs "+").
Definition t_lparen := Tok KLParen (bs "(").
Definition t_rparen := Tok KRParen (bs ")").
Definition t_comma := Tok KComma (bs ",").
Definition t_else := Tok KElse (bs "else").
Definition t_if := Tok KIf (bs "if").
Definition t_unset := Tok KUnset (bs "unset").

(* ---------------------------------------------------------------- stream <-> items *)
(* [to_items acc ts] : items of [ts] in order; [acc] = comments seen since the last token (reversed) *)
Fixpoint to_items (acc : list com) (ts : list elt) : list item * list com :=
  match ts with
  | [] => ([], rev acc)
  | Cm c :: ts' => to_items (c :: acc) ts'
  | Sig t :: ts' => let (its, tail) := to_items [] ts' in ((rev acc, t) :: its, tail)
  end.

Definition of_item (it : item) : list elt := map Cm (fst it) ++ [Sig (snd it)].
Definition of_items (its : list item) (tail : list com) : list elt :=
  flat_map of_item its ++ map Cm tail.

(* observables *)
Fixpoint comments (ts : list elt) : list com :=
  match ts with [] => [] | Cm c :: r => c :: comments r | Sig _ :: r => comments r end.
Fixpoint significant (ts : list elt) : list tok :=
  match ts with [] => [] | Sig t :: r => t :: significant r | Cm _ :: r => significant r end.
Definition item_comments (its : list item) : list com := flat_map fst its.
Definition item_toks (its : list item) : list tok := map snd its.

(* ---------------------------------------------------------------- configuration *)
Inductive cstyle := CNone | CSharp | CSlash.
Inductive istyle := ISpace | ITab.

(* one field per option of config.FormatConfig (yaml name in the comment); Gen/FmtConfig.v carries
   the list regenerated from config/config.go and Proofs/FmtConfigTie.v compares the two *)
Record fmt_config := FmtConfig {
  indent_width : N;                      (* indent_width *)
  trailing_comment_width : N;            (* trailing_comment_width *)
  indent_style : istyle;                 (* indent_style *)
  line_width : option N;                 (* line_width; None = negative (disabled) *)
  explicit_string_concat : bool;         (* explicit_string_concat *)
  sort_declaration_property : bool;      (* sort_declaration_property *)
  align_declaration_property : bool;     (* align_declaration_property *)
  else_if : bool;                        (* else_if *)
  always_next_line_else_if : bool;       (* always_next_line_else_if *)
  return_statement_parenthesis : bool;   (* return_statement_parenthesis *)
  sort_declaration : bool;               (* sort_declaration *)
  align_trailing_comment : bool;         (* align_trailing_comment *)
  comment_style : cstyle;                (* comment_style *)
  should_use_unset : bool;               (* should_use_unset *)
  indent_case_labels : bool;             (* indent_case_labels *)
  break_compound_conditions : bool       (* break_compound_conditions *)
}.

Definition default_config : fmt_config :=
  FmtConfig 2 1 ISpace (Some 120%N) true false false false false true false false CNone false false true.

(* the model's view of the option list: yaml name, Go type, default (as written in the struct tag) *)
Definition model_fields : list (string * string * string) :=
  [ ("indent_width", "int", "2"); ("trailing_comment_width", "int", "1"); ("indent_style", "string", "space");
    ("line_width", "int", "120"); ("explicit_string_concat", "bool", "true");
    ("sort_declaration_property", "bool", "false"); ("align_declaration_property", "bool", "false");
    ("else_if", "bool", "false"); ("always_next_line_else_if", "bool", "false");
    ("return_statement_parenthesis", "bool", "true"); ("sort_declaration", "bool", "false");
    ("align_trailing_comment", "bool", "false"); ("comment_style", "string", "none");
    ("should_use_unset", "bool", "false"); ("indent_case_labels", "bool", "false");
    ("break_compound_conditions", "bool", "true") ]%string.
