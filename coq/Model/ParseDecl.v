(* Declaration parser and the three entry points: parser/declaration_parser.go,
   parser/parser.go (Parse, ParseVCL, ParseSnippetVCL, ParseVCLOrSnippet).  No proofs. *)
From Coq Require Import String.
From Coq Require Import List NArith ZArith Bool.
From Falco Require Import Base.Bytes Gen.TokenTypes Model.ParseKinds Gen.ParserTables
  Model.ParseBase Model.Ast Model.ParseLit Model.ParseExpr Model.ParseStmt.
Import ListNotations.
Local Open Scope parse_scope.

Section Decl.
Variable fok : str -> bool.
Notation parse_expr := (parse_expr fok).

(* fuel of the statement cluster that always suffices (Proofs/ParseStmtTotal.v) *)
Definition stmt_fuel (st : pstate) : nat := 4 * length (toks st) + 8.

(* ---------- acl *)
(* ParseAclCidr, cur = first token of the entry *)
Definition pcidr (st : pstate) : pres (cidr * pstate) :=
  let inv := if cur_is st T_NOT then Some (cur st) else None in
  let st1 := if cur_is st T_NOT then next st else st in
  do (ip, st2) <-
    match typ (cur st1) with
    | T_STRING => POK (IpStr (cur st1), st1)
    | T_OPEN_LONG_STRING =>
        do (o, s, c, v, st') <- plong st1; POK (IpLong o s c v, st')
    | _ => err_cur E_unexpected st1
    end;
  do (mask, st3) <-
    (if peek_is st2 T_SLASH then
       let s := next st2 in
       do s2 <- expect s T_INT;
       do v <- pint s2;
       POK (Some (cur s, cur s2, v), s2)
     else POK (None, st2));
  do st4 <- semi st3;
  POK (Cidr inv ip mask (cur st4), st4).

Fixpoint pcidrs (n : nat) (st : pstate) (acc : list cidr) : pres (list cidr * pstate) :=
  match n with
  | O => PFuel
  | S n' =>
    if peek_is st T_RIGHT_BRACE then POK (rev acc, st)
    else do (c, st1) <- pcidr (next st); pcidrs n' st1 (c :: acc)
  end.

Definition pacl (st : pstate) : pres (stmt * pstate) :=
  do st1 <- expect st T_IDENT;
  do st2 <- expect st1 T_LEFT_BRACE;
  do (cs, st3) <- pcidrs (S (length (toks st2))) st2 [];
  let st4 := next st3 in
  POK (DAcl (cur st) (cur st1) (cur st2) cs (cur st4), st4).

(* ---------- backend *)
Fixpoint pbprop (n : nat) (st : pstate) {struct n} : pres (bprop * pstate) :=
  match n with
  | O => PFuel
  | S n' =>
    do st1 <- expect st T_DOT;
    do st2 <- expect st1 T_IDENT;
    do st3 <- expect st2 T_ASSIGN;
    let st4 := next st3 in
    if cur_is st4 T_LEFT_BRACE then
      do (ps, st5) <- pbprops n' st4 [];
      let st6 := next st5 in
      POK (BProbe (cur st1) (cur st2) (cur st3) (cur st4) ps (cur st6), st6)
    else
      do (e, st5) <- parse_expr P_LOWEST st4;
      do st6 <- semi st5;
      POK (BProp (cur st1) (cur st2) (cur st3) e (cur st6), st6)
  end
with pbprops (n : nat) (st : pstate) (acc : list bprop) {struct n} : pres (list bprop * pstate) :=
  match n with
  | O => PFuel
  | S n' =>
    if peek_is st T_RIGHT_BRACE then POK (rev acc, st)
    else do (p, st1) <- pbprop n' st; pbprops n' st1 (p :: acc)
  end.

Definition pbackend (st : pstate) : pres (stmt * pstate) :=
  do st1 <- expect st T_IDENT;
  do st2 <- expect st1 T_LEFT_BRACE;
  do (ps, st3) <- pbprops (stmt_fuel st2) st2 [];
  let st4 := next st3 in
  POK (DBackend (cur st) (cur st1) (cur st2) ps (cur st4), st4).

(* ---------- director *)
(* `.key = expr ;` entered with cur = DOT *)
Definition pdfield (st : pstate) : pres (dfield * pstate) :=
  do st1 <-
    match expect_peek st T_IDENT with
    | Some s => POK s
    | None => match expect_peek st T_BACKEND with
              | Some s => POK s
              | None => err_peek E_unexpected st
              end
    end;
  do st2 <- expect st1 T_ASSIGN;
  do (e, st3) <- parse_expr P_LOWEST (next st2);
  do st4 <- semi st3;
  POK (DField (cur st) (cur st1) (cur st2) e (cur st4), st4).

Fixpoint pdfields (n : nat) (st : pstate) (acc : list dfield) : pres (list dfield * pstate) :=
  match n with
  | O => PFuel
  | S n' =>
    if peek_is st T_RIGHT_BRACE then POK (rev acc, st)
    else
      do st1 <- expect st T_DOT;
      do (f, st2) <- pdfield st1;
      pdfields n' st2 (f :: acc)
  end.

(* ParseDirectorBackend, cur = LEFT_BRACE *)
Definition pdbackend (st : pstate) : pres (dprop * pstate) :=
  do (fs, st1) <- pdfields (S (length (toks st))) st [];
  let st2 := next st1 in
  POK (DBackendObj (cur st) fs (cur st2), st2).

Fixpoint pdprops (n : nat) (st : pstate) (acc : list dprop) : pres (list dprop * pstate) :=
  match n with
  | O => PFuel
  | S n' =>
    if peek_is st T_RIGHT_BRACE then POK (rev acc, st)
    else
      do (p, st1) <-
        match typ (peek st) with
        | T_DOT => do (f, s) <- pdfield (next st); POK (DProp f, s)
        | T_LEFT_BRACE => pdbackend (next st)
        | _ => err_peek E_unexpected st
        end;
      pdprops n' st1 (p :: acc)
  end.

Definition pdirector (st : pstate) : pres (stmt * pstate) :=
  do st1 <- expect st T_IDENT;
  do st2 <- expect st1 T_IDENT;
  do st3 <- expect st2 T_LEFT_BRACE;
  do (ps, st4) <- pdprops (S (length (toks st3))) st3 [];
  let st5 := next st4 in
  POK (DDirector (cur st) (cur st1) (cur st2) (cur st3) ps (cur st5), st5).

(* ---------- table *)
Definition ptprop (st : pstate) : pres (tprop * pstate) :=
  do (key, st1) <-
    match typ (peek st) with
    | T_STRING => let s := next st in do v <- pstring s; POK (EString (cur s) v, s)
    | T_OPEN_LONG_STRING =>
        do (o, s, c, v, st') <- plong (next st); POK (ELong o s c v, st')
    | _ => err_peek E_unexpected st
    end;
  do st2 <- expect st1 T_COLON;
  let st3 := next st2 in
  do (v, st4) <-
    match typ (cur st3) with
    | T_IDENT => POK (EIdent (cur st3), st3)
    | T_STRING => do v <- pstring st3; POK (EString (cur st3) v, st3)
    | T_OPEN_LONG_STRING => do (o, s, c, v, st') <- plong st3; POK (ELong o s c v, st')
    | T_TRUE | T_FALSE => POK (EBool (cur st3), st3)
    | T_FLOAT => pfloat fok st3
    | T_INT => pinteger st3
    | T_RTIME => prtime fok st3
    | _ => err_cur E_unexpected st3
    end;
  match typ (peek st4) with
  | T_COMMA => let s := next st4 in POK (TProp key (cur st2) v (Some (cur s)), s)
  | T_RIGHT_BRACE => POK (TProp key (cur st2) v None, st4)
  | _ => err_peek E_unexpected st4
  end.

Fixpoint ptprops (n : nat) (st : pstate) (acc : list tprop) : pres (list tprop * pstate) :=
  match n with
  | O => PFuel
  | S n' =>
    if peek_is st T_RIGHT_BRACE then POK (rev acc, st)
    else do (p, st1) <- ptprop st; ptprops n' st1 (p :: acc)
  end.

Definition ptable (st : pstate) : pres (stmt * pstate) :=
  do st1 <- expect st T_IDENT;
  let ty := if peek_is st1 T_IDENT then Some (peek st1) else None in
  let st2 := if peek_is st1 T_IDENT then next st1 else st1 in
  do st3 <- expect st2 T_LEFT_BRACE;
  do (ps, st4) <- ptprops (S (length (toks st3))) st3 [];
  let st5 := next st4 in
  POK (DTable (cur st) (cur st1) ty (cur st3) ps (cur st5), st5).

(* ---------- sub / penaltybox / ratecounter *)
Fixpoint pparams (n : nat) (st : pstate) (acc : list (token * token * option token))
  : pres (list (token * token * option token) * pstate) :=
  match n with
  | O => PFuel
  | S n' =>
    if peek_is st T_RIGHT_PAREN || peek_is st T_EOF then POK (rev acc, st)
    else
      do st1 <- expect st T_IDENT;
      do st2 <- expect st1 T_IDENT;
      if peek_is st2 T_COMMA then
        let st3 := next st2 in pparams n' st3 ((cur st1, cur st2, Some (cur st3)) :: acc)
      else if negb (peek_is st2 T_RIGHT_PAREN) then err_peek E_unexpected st2
      else pparams n' st2 ((cur st1, cur st2, None) :: acc)
  end.

Definition psub (st : pstate) : pres (stmt * pstate) :=
  do st1 <- expect st T_IDENT;
  do (params, st2) <-
    (if peek_is st1 T_LEFT_PAREN then
       let s := next st1 in
       do (ps, s1) <- pparams (S (length (toks s))) s [];
       do s2 <- expect s1 T_RIGHT_PAREN;
       POK (Some (cur s, ps, cur s2), s2)
     else POK (None, st1));
  let ret := if peek_is st2 T_IDENT then Some (peek st2) else None in
  let st3 := if peek_is st2 T_IDENT then next st2 else st2 in
  do st4 <- expect st3 T_LEFT_BRACE;
  do (b, st5) <- pblock fok (stmt_fuel st4) st4;
  let '(lb, ss, rb) := b in
  POK (DSub (cur st) (cur st1) params ret lb ss rb, st5).

Definition pnamed_block (mk : token -> token -> token -> list stmt -> token -> stmt) (st : pstate)
  : pres (stmt * pstate) :=
  do st1 <- expect st T_IDENT;
  do st2 <- expect st1 T_LEFT_BRACE;
  do (b, st3) <- pblock fok (stmt_fuel st2) st2;
  let '(lb, ss, rb) := b in
  POK (mk (cur st) (cur st1) lb ss rb, st3).

(* ---------- Parse(): one top-level declaration, then NextToken *)
Definition parse_decl (st : pstate) : pres (stmt * pstate) :=
  do (d, st1) <-
    match typ (cur st) with
    | T_ACL => pacl st
    | T_IMPORT => pkw_ident SImport st
    | T_INCLUDE => pinclude st
    | T_BACKEND => pbackend st
    | T_DIRECTOR => pdirector st
    | T_TABLE => ptable st
    | T_SUBROUTINE => psub st
    | T_PENALTYBOX => pnamed_block DPenaltybox st
    | T_RATECOUNTER => pnamed_block DRatecounter st
    | _ => err_cur E_unexpected st
    end;
  POK (d, next st1).

(* ParseVCL: for !p.CurTokenIs(token.EOF) *)
Fixpoint pvcl (n : nat) (st : pstate) (acc : list stmt) : pres (list stmt * pstate) :=
  match n with
  | O => PFuel
  | S n' =>
    if cur_is st T_EOF then POK (rev acc, st)
    else do (d, st1) <- parse_decl st; pvcl n' st1 (d :: acc)
  end.

(* one iteration of the ParseSnippetVCL loop body: statement at cur (no leading NextToken),
   then NextToken *)
Definition snippet_stmt (st : pstate) : pres (stmt * pstate) :=
  do (s, st1) <-
    match typ (cur st) with
    | T_LEFT_BRACE =>
        do (b, st') <- pblock fok (stmt_fuel st) st;
        let '(lb, ss, rb) := b in POK (SBlock lb ss rb, st')
    | T_IF => pif fok (stmt_fuel st) st
    | T_SWITCH => pswitch fok (stmt_fuel st) st
    | T_IDENT =>
        if peek_is st T_LEFT_PAREN then pfuncall fok st
        else match pgotodest st with
             | Some r => POK r
             | None => err_peek E_unexpected st
             end
    | _ =>
        match psimple fok st with
        | Some r => r
        | None => err_peek E_unexpected st
        end
    end;
  POK (s, next st1).

(* ParseSnippetVCL: for !p.CurTokenIs(token.EOF) { ... }; p.NextToken() *)
Fixpoint psnippet (n : nat) (st : pstate) (acc : list stmt) : pres (list stmt * pstate) :=
  match n with
  | O => PFuel
  | S n' =>
    if cur_is st T_EOF then POK (rev acc, next st)
    else do (s, st1) <- snippet_stmt st; psnippet n' st1 (s :: acc)
  end.

Definition parse_vcl (ts : list token) : pres vcl :=
  do (ss, _) <- pvcl (S (length ts)) (start ts) []; POK (Vcl ss false).
Definition parse_snippet (ts : list token) : pres vcl :=
  do (ss, _) <- psnippet (S (length ts)) (start ts) []; POK (Vcl ss true).
Definition parse_vcl_or_snippet (ts : list token) : pres vcl :=
  let st := start ts in
  if mem (typ (cur st)) declaration_tokens || cur_is st T_EOF then parse_vcl ts
  else parse_snippet ts.

(* ParseExpression(LOWEST) on a whole token list (used by the expression correspondence) *)
Definition parse_expression (ts : list token) : pres (expr * list token) :=
  do (e, st) <- parse_expr P_LOWEST (start ts); POK (e, toks st).

End Decl.
