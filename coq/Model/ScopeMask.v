(* Scope masks: linter/context/scope.go CanAccessVariableInScope, the statement guards of
   linter/statement_linter.go, Context.GetFunction, interpreter Scope.Is.  A mask is any N
   (the linter uses bits 0,4,8,...; the interpreter bits 4,8,12,...; the observation tables use
   bits 0..8): a scope is a bit position. *)
From Coq Require Import NArith List Bool.
Import ListNotations.
Local Open Scope N_scope.

(* the object (variable, function, statement) is available in the scope with bit position s *)
Definition allowed (obj s : N) : bool := N.testbit obj s.

(* bit positions set in a mask *)
Definition scopes_of (cur : N) : list N :=
  filter (N.testbit cur) (map N.of_nat (seq 0 (N.to_nat (N.size cur)))).

(* (objScope & currentScope) != currentScope  is the error case of CanAccessVariableInScope; the
   repaired statement guards and GetFunction use the same test *)
Definition all_scopes_test (obj cur : N) : bool := N.land obj cur =? cur.

(* obj & cur == 0 is the error case of the guards before the repair (and of interpreter Scope.Is,
   where cur is always a single scope) *)
Definition some_scope_test (obj cur : N) : bool := negb (N.land obj cur =? 0).
