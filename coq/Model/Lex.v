(* Executable model of lexer/lexer.go + lexer/reader.go (the repaired tree) over [list byte].

   Go                                   model
   ------------------------------------ ---------------------------------------------
   bufio.Reader over the source         [rest] : the bytes not yet read
   l.char (rune, 0 = EOF or NUL)        [ch]
   l.line / l.index                     [line] / [idx]         (N; Go int, never negative)
   l.peeks                              [peeks]
   l.isEOF, l.eof                       [iseof], [eoftok]
   ReadRune                             Utf8.dec_rune on [rest] (RuneError, size 1 when ill formed)
   Peek(n)                              [peek_bytes]  (fails when n > 4096 = bufio's buffer, or short)
   every for loop                       recursion on fuel, [OutOfFuel] when it runs out
   delimiter[len(delimiter)-1]          [Crash] on an empty delimiter
   l.buffer / l.stack / l.file          not modelled (error rendering only); l.customs is empty
   Token.Offset                         [toff]
   token literals                       rune lists (WriteRune / string(rune) re-encode, see Utf8.enc_all) *)
From Coq Require Import List NArith Bool.
From Coq Require Strings.String Strings.Ascii.
From Falco Require Import Base.Res Base.Bytes Base.Utf8 Gen.Tokens Gen.LexClasses.
Import ListNotations.
Local Open Scope N_scope.

Definition str := list rune.

Definition s2r (s : String.string) : str := map Ascii.N_of_ascii (String.list_ascii_of_string s).

(* literals compared with / produced by the lexer *)
Module Lit.
  Import Strings.String.
  Local Open Scope string_scope.
  Definition L_default := Eval vm_compute in s2r "default".
  Definition L_rol := Eval vm_compute in s2r "rol".
  Definition L_ror := Eval vm_compute in s2r "ror".
  Definition L_roleq := Eval vm_compute in s2r "rol=".
  Definition L_roreq := Eval vm_compute in s2r "ror=".
  Definition L_ms := Eval vm_compute in s2r "ms".
End Lit.
Export Lit.

Fixpoint str_eqb (a b : str) : bool :=
  match a, b with
  | [], [] => true
  | x :: a', y :: b' => (x =? y) && str_eqb a' b'
  | _, _ => false
  end.

Fixpoint bytes_eqb (a b : list byte) : bool :=
  match a, b with
  | [], [] => true
  | x :: a', y :: b' => byte_eqb x y && bytes_eqb a' b'
  | _, _ => false
  end.

(* Token.Offset ("for print problem") is 0 except on STRING tokens: 2 for a double-quoted string,
   2 + 2 * len(delimiter + quote) for the body of a long string; the parser tests Offset == 2. *)
Record token := mkTokO { ttype : str; tlit : str; tline : N; tpos : N; toff : N }.
Notation mkTok ty l ln i := (mkTokO ty l ln i 0).

Record lexer := mkLx {
  ch : rune; rest : list byte; line : N; idx : N;
  peeks : list token; iseof : bool; eoftok : token }.

Definition zero_token : token := mkTok [] [] 0 0.

Definition set_peeks (st : lexer) (ps : list token) : lexer :=
  mkLx (ch st) (rest st) (line st) (idx st) ps (iseof st) (eoftok st).

(* ---- reader primitives ---- *)

(* readChar: at the end of input char = 0 and index moves on (NewLine is NOT run there);
   otherwise leaving an LF starts a new line first. *)
Definition read_char (st : lexer) : lexer :=
  match rest st with
  | [] => mkLx 0 [] (line st) (idx st + 1) (peeks st) (iseof st) (eoftok st)
  | _ :: _ =>
    let '(r, sz) := dec_rune (rest st) in
    let nl := ch st =? 10 in
    mkLx r (skipn sz (rest st))
         (if nl then line st + 1 else line st)
         ((if nl then 0 else idx st) + 1)
         (peeks st) (iseof st) (eoftok st)
  end.

(* peekChar: the next BYTE as a rune, 0 at the end *)
Definition peek_char (st : lexer) : rune :=
  match rest st with [] => 0 | b :: _ => b2n b end.

Definition bufsize : nat := N.to_nat 4096.

(* bufio.Reader.Peek(n) *)
Definition peek_bytes (n : nat) (bs : list byte) : option (list byte) :=
  if Nat.ltb bufsize n then None
  else if Nat.ltb (length bs) n then None
  else Some (firstn n bs).

(* skipBytes: Discard(n); on a short read char = 0; index += discarded *)
Definition skip_bytes (n : nat) (st : lexer) : lexer :=
  let short := Nat.ltb (length (rest st)) n in
  mkLx (if short then 0 else ch st) (skipn n (rest st)) (line st)
       (idx st + N.of_nat (Nat.min n (length (rest st))))
       (peeks st) (iseof st) (eoftok st).

(* ---- character classes and loop conditions: REGENERATED from the Go boolean expressions
   (Gen/LexClasses.v, harness/cmd/trans/lex_classes.go); the documented classes are
   Model/LexSpec.v ref_*, equal by C01_char_classes_documented ---- *)
Definition is_letter (r : rune) : bool := g_isLetter r.
Definition is_decimal (r : rune) : bool := g_isDecimalDigit r.
Definition is_digit (r : rune) : bool := g_isDigit r.
Definition is_hex (r : rune) : bool := g_isHexDigit r.
Definition is_delim (r : rune) : bool := g_isLongStringDelimiter r.
Definition is_space (r : rune) : bool := g_skipWhitespace_cond r.
Definition is_ident_cont (r : rune) : bool := g_identTail_cond r.

(* peekUntil(!isLongStringDelimiter): the peeked string INCLUDING the first byte that is not a
   delimiter character; an error when the input or the 4096-byte window ends first *)
Fixpoint scan_delim (fuel : nat) (bs : list byte) : option (list byte) :=
  match fuel with
  | O => None
  | S f =>
    match bs with
    | [] => None
    | b :: t =>
      if is_delim (b2n b) then
        match scan_delim f t with Some d => Some (b :: d) | None => None end
      else Some [b]
    end
  end.
Definition peek_until (st : lexer) : option (list byte) := scan_delim bufsize (rest st).

(* ---- fuelled loops of reader.go ---- *)

Definition cons_res (c : rune) (r : res (str * lexer)) : res (str * lexer) :=
  match r with
  | OK (l, st) => OK (c :: l, st)
  | Err => Err | Crash => Crash | OutOfFuel => OutOfFuel
  end.

(* for p(l.char) { buf.WriteRune(l.char); l.readChar() } *)
Fixpoint read_while (p : rune -> bool) (n : nat) (st : lexer) : res (str * lexer) :=
  match n with
  | O => OutOfFuel
  | S n' =>
    if p (ch st) then cons_res (ch st) (read_while p n' (read_char st))
    else OK ([], st)
  end.

Definition skip_whitespace (n : nat) (st : lexer) : res lexer :=
  match read_while is_space n st with
  | OK (_, st') => OK st'
  | Err => Err | Crash => Crash | OutOfFuel => OutOfFuel
  end.

Definition read_identifier := read_while is_letter.

Definition in_string (r : rune) : bool := g_readString_cond r.
Definition read_string (n : nat) (st : lexer) : res (str * lexer) :=
  read_while in_string n (read_char st).

(* readBracketString: the body up to the closing quote + delimiter + right brace *)
Fixpoint read_bracket_loop (endb : list byte) (n : nat) (st : lexer) : res (str * lexer) :=
  match n with
  | O => OutOfFuel
  | S n' =>
    if ch st =? 0 then OK ([], st)
    else if ch st =? 34 then
      match peek_bytes (length endb) (rest st) with
      | None => OK ([], st)
      | Some b =>
        if bytes_eqb endb b then OK ([], skip_bytes (length endb) st)
        else cons_res (ch st) (read_bracket_loop endb n' (read_char st))
      end
    else cons_res (ch st) (read_bracket_loop endb n' (read_char st))
  end.
Definition rbrace : byte := n2b 125.
Definition read_bracket_string (delim : list byte) (n : nat) (st : lexer) : res (str * lexer) :=
  read_bracket_loop (delim ++ [rbrace]) n (read_char st).

(* readEOL: up to (not including) the LF or the end; a NUL byte ahead stops it too *)
Fixpoint read_eol (n : nat) (st : lexer) : res (str * lexer) :=
  match n with
  | O => OutOfFuel
  | S n' =>
    if (peek_char st =? 0) || (peek_char st =? 10) then OK ([ch st], st)
    else cons_res (ch st) (read_eol n' (read_char st))
  end.

(* the loop of readMultiComment: up to and including the closing star-slash, or the end of input *)
Fixpoint read_multi (n : nat) (st : lexer) : res (str * lexer) :=
  match n with
  | O => OutOfFuel
  | S n' =>
    if ch st =? 0 then OK ([], st)
    else if (ch st =? 42) && (peek_char st =? 47) then
      let st1 := read_char st in OK ([ch st; ch st1], st1)
    else cons_res (ch st) (read_multi n' (read_char st))
  end.

(* readMultiComment proper: the opener slash-star is consumed first, so that its star cannot
   serve as the star of the closer *)
Definition read_multi_comment (n : nat) (st : lexer) : res (str * lexer) :=
  let st1 := read_char st in
  let st2 := read_char st1 in
  cons_res (ch st) (cons_res (ch st1) (read_multi n st2)).

(* readExponent: marker, optional sign, decimal digits *)
Definition read_exponent (n : nat) (st : lexer) : res (str * lexer) :=
  let m := ch st in
  let st1 := read_char st in
  if (ch st1 =? 43) || (ch st1 =? 45) then
    cons_res m (cons_res (ch st1) (read_while is_decimal n (read_char st1)))
  else cons_res m (read_while is_decimal n st1).

Definition app_res (l : str) (r : res (str * lexer)) : res (str * lexer) :=
  match r with
  | OK (l', st) => OK (l ++ l', st)
  | Err => Err | Crash => Crash | OutOfFuel => OutOfFuel
  end.

(* digits, then optional "." digits, then optional exponent introduced by [mark] *)
Definition read_mantissa (isd : rune -> bool) (mark : rune) (n : nat) (st : lexer)
  : res ((str * bool * bool) * lexer) :=   (* literal, isFloat, hasExponent *)
  do (a, st1) <- read_while isd n st;
  do (bf, st2) <-
     (if ch st1 =? 46 then
        match cons_res 46 (read_while isd n (read_char st1)) with
        | OK (b, s) => OK ((b, true), s)
        | Err => Err | Crash => Crash | OutOfFuel => OutOfFuel
        end
      else OK (([], false), st1));
  let '(b, isf) := bf in
  if ch st2 =? mark then
    do (e, st3) <- read_exponent n st2;
    OK ((a ++ b ++ e, true, true), st3)
  else OK ((a ++ b, isf, false), st2).

(* readNumber: (literal, isFloat, rtimeEligible) *)
Definition read_number (n : nat) (st : lexer) : res ((str * bool * bool) * lexer) :=
  if (ch st =? 48) && ((peek_char st =? 120) || (peek_char st =? 88)) then
    let st1 := read_char st in
    let st2 := read_char st1 in
    do (r, st3) <- read_mantissa is_hex 112 n st2;
    let '(l, isf, _) := r in
    OK ((ch st :: ch st1 :: l, isf, false), st3)
  else
    do (r, st3) <- read_mantissa is_decimal 101 n st;
    let '(l, isf, hasexp) := r in
    OK ((l, isf, negb hasexp), st3).

(* the identifier tail: digits, '-', '.', ':', '*' glue further identifier parts on *)
Fixpoint ident_more (n : nat) (st : lexer) : res (str * lexer) :=
  match n with
  | O => OutOfFuel
  | S n' =>
    if is_ident_cont (ch st) then
      do (a, st1) <- read_identifier n' (read_char st);
      do (b, st2) <- ident_more n' st1;
      OK (ch st :: a ++ b, st2)
    else OK ([], st)
  end.

Definition lookup_ident (l : str) : str :=
  match find (fun kv => str_eqb (fst kv) l) keywords with
  | Some kv => snd kv
  | None => T_IDENT
  end.

(* ---- NextToken ---- *)

(* the common tail of NextToken: consume the character under the cursor unless the input ended *)
Definition finish (t : token) (st : lexer) : res (token * lexer) :=
  OK (t, if ch st =? 0 then st else read_char st).

Definition last_byte (d : list byte) : option byte :=
  match rev d with [] => None | b :: _ => Some b end.

Definition push_tokens (st : lexer) (ts : list token) : lexer :=
  set_peeks st (peeks st ++ ts).

(* left brace: long string {delim "..." delim} or LEFT_BRACE *)
Definition lex_brace (n : nat) (st : lexer) (ln i : N) : res (token * lexer) :=
  let c := ch st in
  match peek_until st with
  | None => finish (mkTok T_LEFT_BRACE [c] ln i) st
  | Some d =>
    match last_byte d with
    | None => Crash                     (* delimiter[len(delimiter)-1] on an empty string *)
    | Some q =>
      if negb (b2n q =? 34) then finish (mkTok T_LEFT_BRACE [c] ln i) st
      else
        let delim := removelast d in
        let dl := map b2n delim in
        let st1 := skip_bytes (length d) st in
        let sl := line st1 in
        let si := idx st1 in
        do (body, st2) <- read_bracket_string delim n st1;
        let stt := mkTokO T_STRING body sl si (2 + 2 * N.of_nat (length d)) in
        let ct := mkTok T_CLOSE_LONG_STRING dl (line st2) (idx st2) in
        finish (mkTok T_OPEN_LONG_STRING dl ln i) (push_tokens st2 [stt; ct])
    end
  end.

(* identifiers, keywords, rol= / ror= *)
Definition lex_ident (n : nat) (st : lexer) (ln i : N) : res (token * lexer) :=
  do (lit0, st1) <- read_identifier n st;
  if str_eqb lit0 L_default then OK (mkTok T_DEFAULT lit0 ln i, st1)
  else
    do (more, st2) <- ident_more n st1;
    let lit := lit0 ++ more in
    if str_eqb lit L_rol && (ch st2 =? 61) then finish (mkTok T_LEFT_ROTATE L_roleq ln i) st2
    else if str_eqb lit L_ror && (ch st2 =? 61) then finish (mkTok T_RIGHT_ROTATE L_roreq ln i) st2
    else OK (mkTok (lookup_ident lit) lit ln i, st2).

(* INT / FLOAT / RTIME *)
Definition lex_number (n : nat) (st : lexer) (ln i : N) : res (token * lexer) :=
  do (r, st1) <- read_number n st;
  let '(num, isf, rt) := r in
  let c := ch st1 in
  if rt && (c =? 109) then
    if peek_char st1 =? 115 then finish (mkTok T_RTIME (num ++ L_ms) ln i) (read_char st1)
    else finish (mkTok T_RTIME (num ++ [c]) ln i) st1
  else if rt && ((c =? 115) || (c =? 104) || (c =? 100) || (c =? 121)) then
    finish (mkTok T_RTIME (num ++ [c]) ln i) st1
  else OK (mkTok (if isf then T_FLOAT else T_INT) num ln i, st1).

(* one character [c] followed by '=' gives [ty2] with literal c=, otherwise [ty1] *)
Definition op_eq (st : lexer) (ln i : N) (ty1 ty2 : str) : res (token * lexer) :=
  let c := ch st in
  if peek_char st =? 61 then finish (mkTok ty2 [c; 61] ln i) (read_char st)
  else finish (mkTok ty1 [c] ln i) st.

(* cc -> [ty2] (cc), cc= -> [ty3], c= -> [tyeq]; a lone c is ILLEGAL  ( | and & ) *)
Definition op_dbl (st : lexer) (ln i : N) (ty2 ty3 tyeq : str) : res (token * lexer) :=
  let c := ch st in
  if peek_char st =? c then
    let st1 := read_char st in
    if peek_char st1 =? 61 then finish (mkTok ty3 [c; c; 61] ln i) (read_char st1)
    else finish (mkTok ty2 [c; c] ln i) st1
  else if peek_char st =? 61 then finish (mkTok tyeq [c; 61] ln i) (read_char st)
  else finish (mkTok T_ILLEGAL [c] ln i) st.

(* cc= -> [ty3], cc -> ILLEGAL, c= -> [tyeq], c -> [ty1]   ( < and > ) *)
Definition op_shift (st : lexer) (ln i : N) (ty1 ty3 tyeq : str) : res (token * lexer) :=
  let c := ch st in
  if peek_char st =? c then
    let st1 := read_char st in
    if peek_char st1 =? 61 then finish (mkTok ty3 [c; c; 61] ln i) (read_char st1)
    else finish (mkTok T_ILLEGAL [c; c] ln i) st1
  else if peek_char st =? 61 then finish (mkTok tyeq [c; 61] ln i) (read_char st)
  else finish (mkTok ty1 [c] ln i) st.

Definition single (st : lexer) (ln i : N) (ty : str) : res (token * lexer) :=
  finish (mkTok ty [ch st] ln i) st.

Definition lex_eof (st : lexer) (ln i : N) : res (token * lexer) :=
  if iseof st then OK (eoftok st, st)
  else
    let e := mkTok T_EOF [] ln i in
    (* NewLine(): index = 0, line++ *)
    OK (e, mkLx (ch st) (rest st) (line st + 1) 0 (peeks st) true e).

Definition lex_slash (n : nat) (st : lexer) (ln i : N) : res (token * lexer) :=
  let p := peek_char st in
  if p =? 61 then finish (mkTok T_DIVISION [47; 61] ln i) (read_char st)
  else if p =? 47 then
    do (l, st1) <- read_eol n st; finish (mkTok T_COMMENT l ln i) st1
  else if p =? 42 then
    do (l, st1) <- read_multi_comment n st; finish (mkTok T_COMMENT l ln i) st1
  else single st ln i T_SLASH.

Definition lex_bang (st : lexer) (ln i : N) : res (token * lexer) :=
  let p := peek_char st in
  if p =? 61 then finish (mkTok T_NOT_EQUAL [33; 61] ln i) (read_char st)
  else if p =? 126 then finish (mkTok T_NOT_REGEX_MATCH [33; 126] ln i) (read_char st)
  else single st ln i T_NOT.

Definition lex_default (n : nat) (st : lexer) (ln i : N) : res (token * lexer) :=
  let c := ch st in
  if ((c =? 67) || (c =? 87)) && (peek_char st =? 33) then
    finish (mkTok T_FASTLY_CONTROL [c; 33] ln i) (read_char st)
  else if is_letter c then lex_ident n st ln i
  else if is_digit c then lex_number n st ln i
  else single st ln i T_ILLEGAL.

(* the switch on l.char *)
Definition lex_char (n : nat) (st : lexer) : res (token * lexer) :=
  let c := ch st in
  let ln := line st in
  let i := idx st in
  if c =? 61 then op_eq st ln i T_ASSIGN T_EQUAL
  else if c =? 45 then op_eq st ln i T_MINUS T_SUBTRACTION
  else if c =? 123 then lex_brace n st ln i
  else if c =? 125 then single st ln i T_RIGHT_BRACE
  else if c =? 40 then single st ln i T_LEFT_PAREN
  else if c =? 41 then single st ln i T_RIGHT_PAREN
  else if c =? 91 then single st ln i T_LEFT_BRACKET
  else if c =? 93 then single st ln i T_RIGHT_BRACKET
  else if c =? 34 then
    do (l, st1) <- read_string n st; finish (mkTokO T_STRING l ln i 2) st1
  else if c =? 59 then single st ln i T_SEMICOLON
  else if c =? 46 then single st ln i T_DOT
  else if c =? 44 then single st ln i T_COMMA
  else if c =? 47 then lex_slash n st ln i
  else if c =? 35 then
    do (l, st1) <- read_eol n st; finish (mkTok T_COMMENT l ln i) st1
  else if c =? 124 then op_dbl st ln i T_OR T_LOGICAL_OR T_BITWISE_OR
  else if c =? 38 then op_dbl st ln i T_AND T_LOGICAL_AND T_BITWISE_AND
  else if c =? 94 then op_eq st ln i T_ILLEGAL T_BITWISE_XOR      (* a lone ^ is ILLEGAL *)
  else if c =? 43 then op_eq st ln i T_PLUS T_ADDITION
  else if c =? 62 then op_shift st ln i T_GREATER_THAN T_RIGHT_SHIFT T_GREATER_THAN_EQUAL
  else if c =? 60 then op_shift st ln i T_LESS_THAN T_LEFT_SHIFT T_LESS_THAN_EQUAL
  else if c =? 37 then op_eq st ln i T_PERCENT T_REMAINDER
  else if c =? 58 then single st ln i T_COLON
  else if c =? 126 then single st ln i T_REGEX_MATCH
  else if c =? 33 then lex_bang st ln i
  else if c =? 42 then op_eq st ln i T_ILLEGAL T_MULTIPLICATION   (* a lone * is ILLEGAL *)
  else if c =? 0 then lex_eof st ln i
  else if c =? 10 then single st ln i T_LF
  else lex_default n st ln i.

Definition next_token (n : nat) (st : lexer) : res (token * lexer) :=
  match peeks st with
  | t :: ps => OK (t, set_peeks st ps)
  | [] => do st1 <- skip_whitespace n st; lex_char n st1
  end.

(* PeekToken *)
Definition peek_token (n : nat) (st : lexer) : res (token * lexer) :=
  match peeks st with
  | t :: _ => OK (t, st)
  | [] => do (t, st1) <- next_token n st; OK (t, set_peeks st1 (t :: peeks st1))
  end.

(* lexer.New: line 1, then readChar *)
Definition init (s : list byte) : lexer :=
  read_char (mkLx 0 s 1 0 [] false zero_token).

Definition is_eof (t : token) : bool := str_eqb (ttype t) T_EOF.

(* NextToken until the first EOF token (included) *)
Fixpoint lex_loop (outer inner : nat) (st : lexer) : res (list token) :=
  match outer with
  | O => OutOfFuel
  | S o =>
    do (t, st1) <- next_token inner st;
    if is_eof t then OK [t]
    else match lex_loop o inner st1 with
         | OK ts => OK (t :: ts)
         | Err => Err | Crash => Crash | OutOfFuel => OutOfFuel
         end
  end.

Definition lex_all (fuel : nat) (s : list byte) : res (list token) :=
  lex_loop fuel fuel (init s).

Definition lex_fuel (s : list byte) : nat := 3 * length s + 4.
Definition tokens (s : list byte) : res (list token) := lex_all (lex_fuel s) s.
