(* FLOAT: IEEE-754 binary64 as Coq's executable specification [Coq.Floats.SpecFloat] (pure
   Gallina on positive/Z, no axiom; the same definitions Flocq 4.1's BinarySingleNaN is built on:
   round-to-nearest-even [SFadd/SFsub/SFmul/SFdiv], [SFcompare], [binary_normalize]).
   Floats cross the harness as their 64 bits ([sf_of_bits]/[bits_of_sf]); there is one NaN.
   [f_to_int] is Go's int64(float64) on amd64 (CVTTSD2SQ: truncation; NaN and out-of-range give
   0x8000000000000000).  [fmt3] is strconv.FormatFloat(v,'f',3,64): exact integer arithmetic on
   (mantissa, exponent), round half to even.  No proofs in this file. *)
From Coq Require Import List NArith ZArith Bool Floats.SpecFloat.
From Falco Require Import Base.Bytes.
Import ListNotations.
Local Open Scope Z_scope.

Definition prec : Z := 53.
Definition emax : Z := 1024.
Notation float := spec_float.

Definition fadd : float -> float -> float := SFadd prec emax.
Definition fsub : float -> float -> float := SFsub prec emax.
Definition fmul : float -> float -> float := SFmul prec emax.
Definition fdiv : float -> float -> float := SFdiv prec emax.
Definition fcmp : float -> float -> option comparison := SFcompare.
Definition f_of_int (z : Z) : float := binary_normalize prec emax z 0 false.
Definition fzero : float := S754_zero false.

Definition min64 : Z := - 2 ^ 63.
Definition max64 : Z := 2 ^ 63 - 1.
Definition in64 (z : Z) : bool := (min64 <=? z) && (z <=? max64).

Definition f_to_int (x : float) : Z :=
  match x with
  | S754_zero _ => 0
  | S754_finite s m e =>
      let a := if 0 <=? e then Z.pos m * 2 ^ e else Z.pos m / 2 ^ (- e) in
      let v := if s then - a else a in
      if in64 v then v else min64
  | _ => min64
  end.

Definition flt (a b : float) : bool := match fcmp a b with Some Lt => true | _ => false end.
Definition fgt (a b : float) : bool := match fcmp a b with Some Gt => true | _ => false end.
Definition fle (a b : float) : bool := match fcmp a b with Some Lt | Some Eq => true | _ => false end.
Definition fge (a b : float) : bool := match fcmp a b with Some Gt | Some Eq => true | _ => false end.
Definition feq (a b : float) : bool := match fcmp a b with Some Eq => true | _ => false end.

Definition is_pinf (x : float) : bool := match x with S754_infinity false => true | _ => false end.
Definition is_ninf (x : float) : bool := match x with S754_infinity true => true | _ => false end.
Definition is_fzero (x : float) : bool := match x with S754_zero _ => true | _ => false end.   (* x == 0 *)

(* math.MaxFloat64, float64(math.MaxInt64) = 2^63, float64(math.MinInt64) *)
Definition max_float : float := S754_finite false 9007199254740991 971.
Definition min_float : float := S754_finite true 9007199254740991 971.
Definition f_max_int : float := S754_finite false 4503599627370496 11.
Definition f_min_int : float := S754_finite true 4503599627370496 11.

(* ---------------------------------------------------------------- bits *)

Definition sf_of_bits (b : Z) : float :=
  let b := b mod 2 ^ 64 in
  let s := Z.testbit b 63 in
  let e := (b / 2 ^ 52) mod 2048 in
  let m := b mod 2 ^ 52 in
  if e =? 0 then
    match m with Zpos p => S754_finite s p (-1074) | _ => S754_zero s end
  else if e =? 2047 then
    (if m =? 0 then S754_infinity s else S754_nan)
  else match m + 2 ^ 52 with Zpos p => S754_finite s p (e - 1075) | _ => S754_nan end.

Definition canonical_nan_bits : Z := 9221120237041090561.   (* 0x7FF8000000000001 = math.NaN() *)

Definition bits_of_sf (x : float) : Z :=
  let sb (s : bool) := if s then 2 ^ 63 else 0 in
  match x with
  | S754_zero s => sb s
  | S754_infinity s => sb s + 2047 * 2 ^ 52
  | S754_nan => canonical_nan_bits
  | S754_finite s m e =>
      if (Z.pos m <? 2 ^ 52) then sb s + Z.pos m               (* subnormal, e = -1074 *)
      else sb s + (e + 1075) * 2 ^ 52 + (Z.pos m - 2 ^ 52)
  end.

(* ---------------------------------------------------------------- decimal text *)

Definition digit (d : Z) : byte := n2b (Z.to_N (48 + d)).

Fixpoint dec_fuel (fuel : nat) (n : Z) (acc : list byte) : list byte :=
  match fuel with
  | O => acc
  | S k => if n <? 10 then digit n :: acc else dec_fuel k (n / 10) (digit (n mod 10) :: acc)
  end.

(* decimal digits of n >= 0 (fuel: one more than the number of bits bounds the number of digits) *)
Definition dec_nat (n : Z) : list byte := dec_fuel (S (Z.to_nat (Z.log2 n))) n [].

Definition minus_sign : byte := n2b 45.
Definition dot : byte := n2b 46.

Definition dec_int (z : Z) : list byte :=
  if z <? 0 then minus_sign :: dec_nat (- z) else dec_nat z.

(* left-pad with '0' to width w *)
Definition pad0 (w : nat) (l : list byte) : list byte := repeat (digit 0) (w - length l) ++ l.

Definition bytes_of_ascii (l : list Z) : list byte := map (fun c => n2b (Z.to_N c)) l.
Definition s_NaN : list byte := bytes_of_ascii [78; 97; 78].
Definition s_pInf : list byte := bytes_of_ascii [43; 73; 110; 102].
Definition s_nInf : list byte := bytes_of_ascii [45; 73; 110; 102].

(* thousandths of m * 2^e, rounded half to even *)
Definition milli (m : positive) (e : Z) : Z :=
  if 0 <=? e then Z.pos m * 2 ^ e * 1000
  else
    let n := Z.pos m * 1000 in
    let d := 2 ^ (- e) in
    let q := n / d in
    let r := n mod d in
    if (d <? 2 * r) || ((2 * r =? d) && Z.odd q) then q + 1 else q.

Definition fmt_milli (s : bool) (q : Z) : list byte :=
  (if s then [minus_sign] else []) ++ dec_nat (q / 1000) ++ dot :: pad0 3 (dec_nat (q mod 1000)).

Definition fmt3 (x : float) : list byte :=
  match x with
  | S754_nan => s_NaN
  | S754_infinity false => s_pInf
  | S754_infinity true => s_nInf
  | S754_zero s => fmt_milli s 0
  | S754_finite s m e => fmt_milli s (milli m e)
  end.
