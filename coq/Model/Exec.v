(* C08 - a small structural model of the two guards that bound a simulation:
   * the call-depth guard of interpreter/subroutine.go: ProcessSubroutine pushes the callee on
     i.callStack and returns MaxCallStackExceeded when len(i.callStack) > maxCallStackExceedCount;
   * the restart guard of interpreter/statement.go (restart;) and interpreter.go restart()
     (reached by return(restart)): an error when Restarts+1 > limitations.MaxVarnishRestarts.
   [exec_sub] is STRUCTURALLY recursive on the remaining depth budget (= max - len(callStack)) and,
   inside one subroutine body, on the statements: that Coq accepts the definition is the proof
   that the depth guard makes subroutine execution terminate.  [serve] is the ProcessRecv ->
   restart() -> ProcessRecv recursion, fuelled; Proofs/ExecProofs.v shows that MaxVarnishRestarts+1
   units of fuel always suffice.  Statements are abstracted to their control effect; conditions
   are either decided ([XIf]) or a test of req.restarts ([XIfRestartsLt]).  No proofs here. *)
From Coq Require Import List Arith Bool.
From Falco Require Import Base.Res.
Import ListNotations.

Inductive xstate := XNone | XLookup | XPass | XErrorSt | XRestartSt | XDeliver.

Inductive xstmt :=
| XSkip                                   (* set / declare / log ... : no control effect *)
| XCall (f : nat)                         (* call <subroutine number f>; *)
| XIf (c : bool) (t e : list xstmt)       (* if (<decided condition>) { t } else { e } *)
| XIfRestartsLt (k : nat) (t e : list xstmt)   (* if (req.restarts < k) { t } else { e } *)
| XRestart                                (* restart; *)
| XReturn (s : xstate)                    (* return(<state>); *)
| XError.                                 (* error <code>; *)

Section Exec.
Variable subs : list (list xstmt).        (* subroutine bodies, by number *)
Variable max_restarts : nat.
Variable restarts : nat.                  (* ctx.Restarts during this pass *)

(* one subroutine body; [callee] runs a called subroutine (one frame deeper) *)
Section Body.
Variable callee : nat -> res xstate.

Fixpoint stmt (s : xstmt) : res xstate :=
  let blk :=
    fix blk (l : list xstmt) : res xstate :=
      match l with
      | [] => OK XNone
      | x :: r => match stmt x with OK XNone => blk r | other => other end
      end in
  match s with
  | XSkip => OK XNone
  | XCall g => callee g
  | XIf c t e => blk (if c then t else e)
  | XIfRestartsLt k t e => blk (if restarts <? k then t else e)
  | XRestart => if max_restarts <? restarts + 1 then Err else OK XRestartSt
  | XReturn st => OK st
  | XError => OK XErrorSt
  end.

Fixpoint block (l : list xstmt) : res xstate :=
  match l with
  | [] => OK XNone
  | x :: r => match stmt x with OK XNone => block r | other => other end
  end.
End Body.

Fixpoint exec_sub (budget : nat) (f : nat) {struct budget} : res xstate :=
  match budget with
  | O => Err                                                  (* len(callStack) > max *)
  | S b =>
      match nth_error subs f with
      | None => Err                                           (* call of an undefined subroutine *)
      | Some body => block (exec_sub b) body
      end
  end.

End Exec.

(* ProcessRecv for subroutine 0 (vcl_recv) with the restart loop.  Result: the state that ends
   the pass and the number of restarts performed. *)
Fixpoint serve (subs : list (list xstmt)) (max_depth max_restarts : nat) (fuel : nat) (restarts : nat)
  : res (xstate * nat) :=
  match fuel with
  | O => OutOfFuel
  | S k =>
      match exec_sub subs max_restarts restarts max_depth 0 with
      | OK XRestartSt =>
          if max_restarts <? restarts + 1 then Err          (* restart(): limit exceeded *)
          else serve subs max_depth max_restarts k (S restarts)
      | OK st => OK (st, restarts)
      | Err => Err
      | Crash => Crash
      | OutOfFuel => OutOfFuel
      end
  end.

(* a chain of n subroutines: 0 calls 1 calls ... calls n-1, which does nothing *)
Definition chain (n : nat) : list (list xstmt) :=
  map (fun j => if S j <? n then [XCall (S j)] else [XSkip]) (seq 0 n).
