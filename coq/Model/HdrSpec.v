(* C17 - the abstract side.

   Level 1 (whole headers): a store keyed by CANONICAL names: a function from names to value
   lists plus a set of assigned names; operations are function updates.  [classify] does the
   name handling of the Go code once (protected names, wildcard, `name:key`, canonical form,
   the Cookie special case), [sstep] is the store.

   Level 2 (sub-fields): a header value is a list of items `key`, `key=token`, `key=DQ text DQ`
   (DQ = double quote); reading is list lookup (first match, keys compared without case),
   unset removes the first match, set removes it and appends the new item. *)
From Coq Require Import List NArith Bool.
From Coq Require Import Strings.Byte.
From Falco Require Import Base.Bytes Model.HdrField Model.HdrCookie Model.Hdr.
Import ListNotations.

(* ------------------------------------------------------------------ level 2: items *)
Inductive ival :=
| IBare                 (* key *)
| IRaw (r : bytes)      (* key=r       r without blanks and commas, not starting with a quote *)
| IQuoted (q : bytes).  (* key=DQ esc q DQ *)

Record item := { i_lead : bytes; i_key : bytes; i_val : ival }.

Definition render_val (v : ival) : bytes :=
  match v with
  | IBare => []
  | IRaw r => c_eq :: r
  | IQuoted q => c_eq :: c_dq :: esc q ++ [c_dq]
  end.
Definition render_item (it : item) : bytes := i_lead it ++ i_key it ++ render_val (i_val it).

Fixpoint render (its : list item) : bytes :=
  match its with
  | [] => []
  | it :: rest => render_item it ++ match rest with [] => [] | _ => c_comma :: render rest end
  end.

Definition item_read (it : item) : bytes :=
  match i_val it with IBare => [] | IRaw r => r | IQuoted q => q end.

(* keys are compared without (ASCII) case *)
Definition keq (a b : bytes) : bool := beq (map lower a) (map lower b).

Fixpoint lookup (k : bytes) (its : list item) : rd :=
  match its with
  | [] => RNotSet
  | it :: rest => if keq k (i_key it) then RStr (item_read it) else lookup k rest
  end.

Fixpoint remove_first (k : bytes) (its : list item) : list item :=
  match its with
  | [] => []
  | it :: rest => if keq k (i_key it) then rest else it :: remove_first k rest
  end.

(* the item a written value becomes *)
Definition enc_val (s : bytes) : ival :=
  if is_nil s then IBare else if needs_quote s then IQuoted s else IRaw s.

Definition new_item (k : bytes) (v : ival) : item := {| i_lead := []; i_key := k; i_val := v |}.

Definition spec_set (its : list item) (k : bytes) (v : val) : list item :=
  let its' := remove_first k its in
  match v with
  | VNotSet => if is_nil its' && Nat.eqb (length k) 1 then its' else its' ++ [new_item k IBare]
  | VStr s => its' ++ [new_item k (enc_val s)]
  end.

(* ---- well-formedness: the header values the sub-field theorems speak about ---- *)
Definition keychar (c : byte) : bool :=
  negb (is_ws c) && negb (byte_eqb c c_comma) && negb (byte_eqb c c_eq) && negb (byte_eqb c c_dq).
Definition key_ok (k : bytes) : bool := negb (is_nil k) && forallb keychar k.

Fixpoint ends_bs (q : bytes) : bool :=
  match q with
  | [] => false
  | c :: t => match t with [] => byte_eqb c c_bs | _ => ends_bs t end
  end.

(* does the text after a comma look like `key` followed by a blank, '=' or ','  (what the
   expression of field.go accepts as an occurrence of key) *)
Definition embeds_at (k b : bytes) : bool :=
  let (_, s1) := span is_ws b in
  match strip_key k s1 with
  | Some (_, c :: _) => is_ws c || byte_eqb c c_eq || byte_eqb c c_comma
  | _ => false
  end.
Fixpoint noembed (k s : bytes) : bool :=
  match s with
  | [] => true
  | c :: t => (if byte_eqb c c_comma then negb (embeds_at k t) else true) && noembed k t
  end.

Definition no_lf (s : bytes) : bool := forallb (fun c => negb (byte_eqb c c_lf)) s.

Definition val_ok (ks : list bytes) (v : ival) : bool :=
  match v with
  | IBare => true
  | IRaw r => forallb nonsep r && negb (first_is c_dq r)
  | IQuoted q => negb (is_nil q) && negb (ends_bs q) && no_lf q && forallb (fun k => noembed k (esc q)) ks
  end.

Definition item_ok (ks : list bytes) (it : item) : bool :=
  forallb is_ws (i_lead it) && no_lf (i_lead it) && key_ok (i_key it) && val_ok ks (i_val it).

Fixpoint nodup_keys (its : list item) : bool :=
  match its with
  | [] => true
  | it :: rest => negb (existsb (fun x => keq (i_key it) (i_key x)) rest) && nodup_keys rest
  end.

Definition items_ok (ks : list bytes) (its : list item) : bool :=
  forallb (item_ok ks) its && nodup_keys its.

(* a written sub-field value the theorems cover: no LF, and the item it becomes is well formed
   (no leading quote on an unquoted token, no trailing backslash, no embedded `,key`) *)
Definition fv_ok (ks : list bytes) (s : bytes) : bool := no_lf s && val_ok ks (enc_val s).

(* ------------------------------------------------------------------ level 1: the store *)
Record astate := { a_vals : bytes -> option (list bytes); a_asg : bytes -> bool }.

Definition abs (st : hstate) : astate :=
  {| a_vals := fun n => map_get n (hmap st); a_asg := fun n => mem n (akeys st) |}.

Definition upd {A} (f : bytes -> A) (k : bytes) (v : A) : bytes -> A :=
  fun n => if beq k n then v else f n.

Inductive sop :=
| SRead (cn key : bytes) (cookie : bool)      (* key = [] : the whole header *)
| SWrite (cn : bytes) (v : val)
| SWriteField (cn key : bytes) (v : val)
| SAppend (cn : bytes) (s : bytes)
| SRemove (cn : bytes)
| SRemoveField (cn key : bytes)
| SRemovePrefix (p : bytes)
| SCookieWrite (cn key s : bytes)             (* set req.http.Cookie:key *)
| SCookieRemove (cn key : bytes)              (* unset req.http.Cookie:key *)
| SRefuse
| SUnmod.

Definition classify (kd : kind) (o : op) : sop :=
  match o with
  | OGet name =>
    let '(n, key, _) := cut_colon name in
    SRead (canon n) key (match kd with KReq => is_cookie n | KResp => false end)
  | OSet name v =>
    if protected name then SRefuse else
    let '(n, key, found) := cut_colon name in
    if negb found then SWrite (canon n) v
    else match kd with
         | KReq => if is_cookie n then SCookieWrite (canon n) key (val_string v) else SWriteField (canon n) key v
         | KResp => SWriteField (canon n) key v
         end
  | OAdd name v => if protected name then SRefuse else SAppend (canon name) (val_string v)
  | OUnset name =>
    if protected name then SRefuse else
    match cut_star name with
    | Some p => SRemovePrefix p
    | None =>
      let '(n, key, found) := cut_colon name in
      if negb found then SRemove (canon n)
      else match kd with
           | KReq => if is_cookie n then SCookieRemove (canon n) key else SRemoveField (canon n) key
           | KResp => SRemoveField (canon n) key
           end
    end
  end.

Definition first_val (a : astate) (cn : bytes) : bytes :=
  match a_vals a cn with Some (v :: _) => v | _ => [] end.

Definition all_vals (a : astate) (cn : bytes) : list bytes :=
  match a_vals a cn with Some l => l | None => [] end.

Definition sstep (a : astate) (s : sop) : astate * obs :=
  match s with
  | SRead cn key cookie =>
    let v := first_val a cn in
    (a, if is_nil v then ORead (if negb (is_nil key) || negb (a_asg a cn) then RNotSet else RStr [])
        else if is_nil key then ORead (RStr v)
        else if cookie then
          ORead (match cookie_get (all_vals a cn) key with Some c => RStr c | None => get_field v key end)
        else ORead (get_field v key))
  | SWrite cn VNotSet =>
    ({| a_vals := upd (a_vals a) cn None; a_asg := upd (a_asg a) cn false |}, OOk)
  | SWrite cn (VStr s) =>
    ({| a_vals := upd (a_vals a) cn (Some [cut_lf s]); a_asg := upd (a_asg a) cn true |}, OOk)
  | SWriteField cn key v =>
    ({| a_vals := upd (a_vals a) cn (Some [set_field (first_val a cn) key v]);
        a_asg := upd (a_asg a) cn true |}, OOk)
  | SAppend cn s =>
    let old := match a_vals a cn with Some l => l | None => [] end in
    ({| a_vals := upd (a_vals a) cn (Some (old ++ [s])); a_asg := a_asg a |}, OOk)
  | SRemove cn =>
    ({| a_vals := upd (a_vals a) cn None; a_asg := upd (a_asg a) cn false |}, OOk)
  | SRemoveField cn key =>
    let t := unset_field (first_val a cn) key in
    ({| a_vals := upd (a_vals a) cn (if is_nil t then None else Some [t]);
        a_asg := upd (a_asg a) cn false |}, OOk)
  | SRemovePrefix p =>
    ({| a_vals := fun n => if is_prefix p n then None else a_vals a n;
        a_asg := fun n => if is_prefix p n then false else a_asg a n |}, OOk)
  | SCookieWrite cn key s =>
    ({| a_vals := upd (a_vals a) cn (Some (cookie_set (all_vals a cn) key s)); a_asg := a_asg a |}, OOk)
  | SCookieRemove cn key =>
    (match all_vals a cn with
     | [] => a
     | lines => match remove_cookie lines key with
                | [] => {| a_vals := upd (a_vals a) cn None; a_asg := a_asg a |}
                | l => {| a_vals := upd (a_vals a) cn (Some l); a_asg := a_asg a |}
                end
     end, OOk)
  | SRefuse => (a, OErr)
  | SUnmod => (a, OUnmodelled)
  end.

(* extensional equality of abstract states *)
Definition aeq (a b : astate) : Prop :=
  (forall n, a_vals a n = a_vals b n) /\ (forall n, a_asg a n = a_asg b n).
